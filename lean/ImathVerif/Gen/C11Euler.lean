-- GENERATED from /repo/src/Imath by harness/sym (T = Sym path extraction); do not edit.
import ImathVerif.Basic.Types
set_option linter.unusedVariables false
namespace ImathVerif.Gen
open ImathVerif

/-- extracted from the C++ template at T = Sym; 1 path(s) -/
def Euler.toMatrix33_XYZ {α : Type} [Add α] [Sub α] [Mul α] [Neg α] (sin : α → α) (cos : α → α) (a : V3 α) : (M33 α) :=
  let t4 := (cos a.x)
  let t5 := (cos a.y)
  let t6 := (cos a.z)
  let t7 := (sin a.x)
  let t8 := (sin a.y)
  let t9 := (sin a.z)
  let t10 := (t4 * t6)
  let t11 := (t4 * t9)
  let t12 := (t7 * t6)
  let t13 := (t7 * t9)
  ⟨(t5 * t6), (t5 * t9), (-t8), ((t8 * t12) - t11), ((t8 * t13) + t10), (t5 * t7), ((t8 * t10) + t13), ((t8 * t11) - t12), (t5 * t4)⟩

/-- extracted from the C++ template at T = Sym; 1 path(s) -/
def Euler.toMatrix44_XYZ {α : Type} [Add α] [Sub α] [Mul α] [Neg α] [OfNat α 0] [OfNat α 1] (sin : α → α) (cos : α → α) (a : V3 α) : (M44 α) :=
  let t4 := (cos a.x)
  let t5 := (cos a.y)
  let t6 := (cos a.z)
  let t7 := (sin a.x)
  let t8 := (sin a.y)
  let t9 := (sin a.z)
  let t10 := (t4 * t6)
  let t11 := (t4 * t9)
  let t12 := (t7 * t6)
  let t13 := (t7 * t9)
  ⟨(t5 * t6), (t5 * t9), (-t8), (0 : α), ((t8 * t12) - t11), ((t8 * t13) + t10), (t5 * t7), (0 : α), ((t8 * t10) + t13), ((t8 * t11) - t12), (t5 * t4), (0 : α), (0 : α), (0 : α), (0 : α), (1 : α)⟩

/-- extracted from the C++ template at T = Sym; 1 path(s) -/
def Euler.toQuat_XYZ {α : Type} [Add α] [Sub α] [Mul α] [Div α] [OfNat α 1] [OfNat α 2] (sin : α → α) (cos : α → α) (a : V3 α) : (Quat α) :=
  let t29 := (a.x * ((1 : α) / (2 : α)))
  let t30 := (a.y * ((1 : α) / (2 : α)))
  let t31 := (a.z * ((1 : α) / (2 : α)))
  let t32 := (cos t29)
  let t33 := (cos t30)
  let t34 := (cos t31)
  let t35 := (sin t29)
  let t36 := (sin t30)
  let t37 := (sin t31)
  let t38 := (t32 * t34)
  let t39 := (t32 * t37)
  let t40 := (t35 * t34)
  let t41 := (t35 * t37)
  ⟨((t33 * t38) + (t36 * t41)), ⟨((t33 * t40) - (t36 * t39)), (((t33 * t41) + (t36 * t38)) * (1 : α)), ((t33 * t39) - (t36 * t40))⟩⟩

/-- extracted from the C++ template at T = Sym; 1 path(s) -/
def Euler.extractM33_XYZ {α : Type} [Add α] [Mul α] [Neg α] [OfNat α 0] [OfNat α 1] (sqrt : α → α) (sin : α → α) (cos : α → α) (atan2 : α → α → α) (m : M33 α) : (V3 α) :=
  let t66 := (cos (0 : α))
  let t68 := (sin (0 : α))
  let t70 := (t66 * t66)
  let t71 := (t68 * t66)
  let t72 := (-t68)
  let t89 := ((0 : α) * t72)
  let t90 := ((0 : α) * t71)
  let t93 := ((((1 : α) * t70) + t90) + t89)
  let t95 := ((0 : α) * t70)
  let t97 := ((t95 + ((1 : α) * t71)) + t89)
  let t99 := (t95 + t90)
  let t100 := (t99 + ((1 : α) * t72))
  let t128 := ((t99 + t89) * (0 : α))
  let t134 := ((((t93 * m.x00) + (t97 * m.x10)) + (t100 * m.x20)) + t128)
  let t140 := ((((t93 * m.x01) + (t97 * m.x11)) + (t100 * m.x21)) + t128)
  ⟨(atan2 m.x12 m.x22), (atan2 (-((((t93 * m.x02) + (t97 * m.x12)) + (t100 * m.x22)) + t128)) (sqrt ((t134 * t134) + (t140 * t140)))), (atan2 m.x01 m.x00)⟩

/-- extracted from the C++ template at T = Sym; 1 path(s) -/
def Euler.extractM44_XYZ {α : Type} [Add α] [Mul α] [Neg α] [OfNat α 0] [OfNat α 1] (sqrt : α → α) (sin : α → α) (cos : α → α) (atan2 : α → α → α) (m : M44 α) : (V3 α) :=
  let t66 := (cos (0 : α))
  let t68 := (sin (0 : α))
  let t70 := (t66 * t66)
  let t71 := (t68 * t66)
  let t72 := (-t68)
  let t89 := ((0 : α) * t72)
  let t90 := ((0 : α) * t71)
  let t93 := ((((1 : α) * t70) + t90) + t89)
  let t95 := ((0 : α) * t70)
  let t97 := ((t95 + ((1 : α) * t71)) + t89)
  let t99 := (t95 + t90)
  let t100 := (t99 + ((1 : α) * t72))
  let t101 := (t99 + t89)
  let t245 := ((((t93 * m.x00) + (t97 * m.x10)) + (t100 * m.x20)) + (t101 * m.x30))
  let t247 := ((((t93 * m.x01) + (t97 * m.x11)) + (t100 * m.x21)) + (t101 * m.x31))
  ⟨(atan2 m.x12 m.x22), (atan2 (-((((t93 * m.x02) + (t97 * m.x12)) + (t100 * m.x22)) + (t101 * m.x32))) (sqrt ((t245 * t245) + (t247 * t247)))), (atan2 m.x01 m.x00)⟩

/-- extracted from the C++ template at T = Sym; 1 path(s) -/
def Euler.ctorM33_XYZ {α : Type} [Add α] [Mul α] [Neg α] [OfNat α 0] [OfNat α 1] (sqrt : α → α) (sin : α → α) (cos : α → α) (atan2 : α → α → α) (m : M33 α) : ((V3 α) × Int) :=
  let t66 := (cos (0 : α))
  let t68 := (sin (0 : α))
  let t70 := (t66 * t66)
  let t71 := (t68 * t66)
  let t72 := (-t68)
  let t89 := ((0 : α) * t72)
  let t90 := ((0 : α) * t71)
  let t93 := ((((1 : α) * t70) + t90) + t89)
  let t95 := ((0 : α) * t70)
  let t97 := ((t95 + ((1 : α) * t71)) + t89)
  let t99 := (t95 + t90)
  let t100 := (t99 + ((1 : α) * t72))
  let t128 := ((t99 + t89) * (0 : α))
  let t134 := ((((t93 * m.x00) + (t97 * m.x10)) + (t100 * m.x20)) + t128)
  let t140 := ((((t93 * m.x01) + (t97 * m.x11)) + (t100 * m.x21)) + t128)
  (⟨(atan2 m.x12 m.x22), (atan2 (-((((t93 * m.x02) + (t97 * m.x12)) + (t100 * m.x22)) + t128)) (sqrt ((t134 * t134) + (t140 * t140)))), (atan2 m.x01 m.x00)⟩, (257 : Int))

/-- extracted from the C++ template at T = Sym; 1 path(s) -/
def Euler.ctorM44_XYZ {α : Type} [Add α] [Mul α] [Neg α] [OfNat α 0] [OfNat α 1] (sqrt : α → α) (sin : α → α) (cos : α → α) (atan2 : α → α → α) (m : M44 α) : ((V3 α) × Int) :=
  let t66 := (cos (0 : α))
  let t68 := (sin (0 : α))
  let t70 := (t66 * t66)
  let t71 := (t68 * t66)
  let t72 := (-t68)
  let t89 := ((0 : α) * t72)
  let t90 := ((0 : α) * t71)
  let t93 := ((((1 : α) * t70) + t90) + t89)
  let t95 := ((0 : α) * t70)
  let t97 := ((t95 + ((1 : α) * t71)) + t89)
  let t99 := (t95 + t90)
  let t100 := (t99 + ((1 : α) * t72))
  let t101 := (t99 + t89)
  let t245 := ((((t93 * m.x00) + (t97 * m.x10)) + (t100 * m.x20)) + (t101 * m.x30))
  let t247 := ((((t93 * m.x01) + (t97 * m.x11)) + (t100 * m.x21)) + (t101 * m.x31))
  (⟨(atan2 m.x12 m.x22), (atan2 (-((((t93 * m.x02) + (t97 * m.x12)) + (t100 * m.x22)) + (t101 * m.x32))) (sqrt ((t245 * t245) + (t247 * t247)))), (atan2 m.x01 m.x00)⟩, (257 : Int))

/-- extracted from the C++ template at T = Sym; 1 path(s) -/
def Euler.extractQuat_XYZ {α : Type} [Add α] [Sub α] [Mul α] [Neg α] [OfNat α 0] [OfNat α 1] [OfNat α 2] (sqrt : α → α) (sin : α → α) (cos : α → α) (atan2 : α → α → α) (q : Quat α) : (V3 α) :=
  let t66 := (cos (0 : α))
  let t68 := (sin (0 : α))
  let t70 := (t66 * t66)
  let t71 := (t68 * t66)
  let t72 := (-t68)
  let t89 := ((0 : α) * t72)
  let t90 := ((0 : α) * t71)
  let t93 := ((((1 : α) * t70) + t90) + t89)
  let t95 := ((0 : α) * t70)
  let t97 := ((t95 + ((1 : α) * t71)) + t89)
  let t99 := (t95 + t90)
  let t100 := (t99 + ((1 : α) * t72))
  let t128 := ((t99 + t89) * (0 : α))
  let t306 := (q.v.x * q.v.x)
  let t307 := (q.v.y * q.v.y)
  let t311 := ((1 : α) - ((2 : α) * (t307 + t306)))
  let t312 := (q.v.x * q.r)
  let t313 := (q.v.y * q.v.z)
  let t316 := (q.v.y * q.r)
  let t317 := (q.v.z * q.v.x)
  let t321 := ((2 : α) * (t313 + t312))
  let t322 := (q.v.z * q.v.z)
  let t326 := (q.v.z * q.r)
  let t327 := (q.v.x * q.v.y)
  let t333 := ((2 : α) * (t327 + t326))
  let t336 := ((1 : α) - ((2 : α) * (t307 + t322)))
  let t386 := ((((t93 * t336) + (t97 * ((2 : α) * (t327 - t326)))) + (t100 * ((2 : α) * (t317 + t316)))) + t128)
  let t392 := ((((t93 * t333) + (t97 * ((1 : α) - ((2 : α) * (t322 + t306))))) + (t100 * ((2 : α) * (t313 - t312)))) + t128)
  ⟨(atan2 t321 t311), (atan2 (-((((t93 * ((2 : α) * (t317 - t316))) + (t97 * t321)) + (t100 * t311)) + t128)) (sqrt ((t386 * t386) + (t392 * t392)))), (atan2 t333 t336)⟩

/-- extracted from the C++ template at T = Sym; 1 path(s) -/
def Euler.ctorXYZLayout_XYZ {α : Type} (v : V3 α) : ((V3 α) × Int) :=
  (⟨v.x, v.y, v.z⟩, (257 : Int))

/-- extracted from the C++ template at T = Sym; 1 path(s) -/
def Euler.ctorXYZLayoutScalars_XYZ {α : Type} (xi : α) (yi : α) (zi : α) : ((V3 α) × Int) :=
  (⟨xi, yi, zi⟩, (257 : Int))

/-- extracted from the C++ template at T = Sym; 1 path(s) -/
def Euler.ctorIJKLayout_XYZ {α : Type} (v : V3 α) : ((V3 α) × Int) :=
  (⟨v.x, v.y, v.z⟩, (257 : Int))

/-- extracted from the C++ template at T = Sym; 1 path(s) -/
def Euler.setXYZVector_XYZ {α : Type} (a : V3 α) (v : V3 α) : (V3 α) :=
  ⟨v.x, v.y, v.z⟩

/-- extracted from the C++ template at T = Sym; 1 path(s) -/
def Euler.toXYZVector_XYZ {α : Type} (a : V3 α) : (V3 α) :=
  ⟨a.x, a.y, a.z⟩

/-- extracted from the C++ template at T = Sym; 1 path(s) -/
def Euler.angleOrder_XYZ {α : Type} : (Int × Int × Int) :=
  ((0 : Int), (1 : Int), (2 : Int))

/-- extracted from the C++ template at T = Sym; 1 path(s) -/
def Euler.angleMapping_XYZ {α : Type} : (Int × Int × Int) :=
  ((0 : Int), (1 : Int), (2 : Int))

/-- extracted from the C++ template at T = Sym; 1 path(s) -/
def Euler.order_XYZ {α : Type} : (Int × Bool × Bool × Bool × Bool × Int) :=
  ((257 : Int), true, true, false, true, (0 : Int))

/-- extracted from the C++ template at T = Sym; 1 path(s) -/
def Euler.setOrderKeepsAngles_XYZ {α : Type} (a : V3 α) : ((V3 α) × Int) :=
  (⟨a.x, a.y, a.z⟩, (257 : Int))

/-- extracted from the C++ template at T = Sym; 1 path(s) -/
def Euler.copyAndAssign_XYZ {α : Type} (a : V3 α) (v : V3 α) : ((V3 α) × Int × (V3 α) × Int × (V3 α) × Int) :=
  (⟨a.x, a.y, a.z⟩, (257 : Int), ⟨a.x, a.y, a.z⟩, (257 : Int), ⟨v.x, v.y, v.z⟩, (257 : Int))

/-- extracted from the C++ template at T = Sym; 1 path(s) -/
def Euler.reorderFromXYZ_XYZ {α : Type} [Add α] [Sub α] [Mul α] [Neg α] [OfNat α 0] [OfNat α 1] (sqrt : α → α) (sin : α → α) (cos : α → α) (atan2 : α → α → α) (a : V3 α) : ((V3 α) × Int) :=
  let t4 := (cos a.x)
  let t5 := (cos a.y)
  let t6 := (cos a.z)
  let t7 := (sin a.x)
  let t8 := (sin a.y)
  let t9 := (sin a.z)
  let t10 := (t4 * t6)
  let t11 := (t4 * t9)
  let t12 := (t7 * t6)
  let t13 := (t7 * t9)
  let t15 := (t5 * t6)
  let t20 := (t5 * t9)
  let t26 := (t5 * t7)
  let t27 := (t5 * t4)
  let t66 := (cos (0 : α))
  let t68 := (sin (0 : α))
  let t70 := (t66 * t66)
  let t71 := (t68 * t66)
  let t72 := (-t68)
  let t89 := ((0 : α) * t72)
  let t90 := ((0 : α) * t71)
  let t93 := ((((1 : α) * t70) + t90) + t89)
  let t95 := ((0 : α) * t70)
  let t97 := ((t95 + ((1 : α) * t71)) + t89)
  let t99 := (t95 + t90)
  let t100 := (t99 + ((1 : α) * t72))
  let t128 := ((t99 + t89) * (0 : α))
  let t531 := ((((t93 * t15) + (t97 * ((t8 * t12) - t11))) + (t100 * ((t8 * t10) + t13))) + t128)
  let t537 := ((((t93 * t20) + (t97 * ((t8 * t13) + t10))) + (t100 * ((t8 * t11) - t12))) + t128)
  (⟨(atan2 t26 t27), (atan2 (-((((t93 * (-t8)) + (t97 * t26)) + (t100 * t27)) + t128)) (sqrt ((t531 * t531) + (t537 * t537)))), (atan2 t20 t15)⟩, (257 : Int))

/-- extracted from the C++ template at T = Sym; 1 path(s) -/
def Euler.reorderToZYXr_XYZ {α : Type} [Add α] [Sub α] [Mul α] [Neg α] [OfNat α 0] [OfNat α 1] (sqrt : α → α) (sin : α → α) (cos : α → α) (atan2 : α → α → α) (a : V3 α) : ((V3 α) × Int) :=
  let t4 := (cos a.x)
  let t5 := (cos a.y)
  let t6 := (cos a.z)
  let t7 := (sin a.x)
  let t8 := (sin a.y)
  let t9 := (sin a.z)
  let t10 := (t4 * t6)
  let t11 := (t4 * t9)
  let t12 := (t7 * t6)
  let t13 := (t7 * t9)
  let t15 := (t5 * t6)
  let t20 := (t5 * t9)
  let t26 := (t5 * t7)
  let t27 := (t5 * t4)
  let t66 := (cos (0 : α))
  let t68 := (sin (0 : α))
  let t70 := (t66 * t66)
  let t71 := (t68 * t66)
  let t72 := (-t68)
  let t89 := ((0 : α) * t72)
  let t90 := ((0 : α) * t71)
  let t93 := ((((1 : α) * t70) + t90) + t89)
  let t95 := ((0 : α) * t70)
  let t97 := ((t95 + ((1 : α) * t71)) + t89)
  let t99 := (t95 + t90)
  let t100 := (t99 + ((1 : α) * t72))
  let t128 := ((t99 + t89) * (0 : α))
  let t531 := ((((t93 * t15) + (t97 * ((t8 * t12) - t11))) + (t100 * ((t8 * t10) + t13))) + t128)
  let t537 := ((((t93 * t20) + (t97 * ((t8 * t13) + t10))) + (t100 * ((t8 * t11) - t12))) + t128)
  (⟨(atan2 t20 t15), (atan2 (-((((t93 * (-t8)) + (t97 * t26)) + (t100 * t27)) + t128)) (sqrt ((t531 * t531) + (t537 * t537)))), (atan2 t26 t27)⟩, (256 : Int))

/-- extracted from the C++ template at T = Sym; 1 path(s) -/
def Euler.toMatrix33_XZY {α : Type} [Add α] [Sub α] [Mul α] [Neg α] [OfNat α 1] (sin : α → α) (cos : α → α) (a : V3 α) : (M33 α) :=
  let t622 := (a.x * (-(1 : α)))
  let t623 := (a.y * (-(1 : α)))
  let t624 := (a.z * (-(1 : α)))
  let t625 := (cos t622)
  let t626 := (cos t623)
  let t627 := (cos t624)
  let t628 := (sin t622)
  let t629 := (sin t623)
  let t630 := (sin t624)
  let t631 := (t625 * t627)
  let t632 := (t625 * t630)
  let t633 := (t628 * t627)
  let t634 := (t628 * t630)
  ⟨(t626 * t627), (-t629), (t626 * t630), ((t629 * t631) + t634), (t626 * t625), ((t629 * t632) - t633), ((t629 * t633) - t632), (t626 * t628), ((t629 * t634) + t631)⟩

/-- extracted from the C++ template at T = Sym; 1 path(s) -/
def Euler.toMatrix44_XZY {α : Type} [Add α] [Sub α] [Mul α] [Neg α] [OfNat α 0] [OfNat α 1] (sin : α → α) (cos : α → α) (a : V3 α) : (M44 α) :=
  let t622 := (a.x * (-(1 : α)))
  let t623 := (a.y * (-(1 : α)))
  let t624 := (a.z * (-(1 : α)))
  let t625 := (cos t622)
  let t626 := (cos t623)
  let t627 := (cos t624)
  let t628 := (sin t622)
  let t629 := (sin t623)
  let t630 := (sin t624)
  let t631 := (t625 * t627)
  let t632 := (t625 * t630)
  let t633 := (t628 * t627)
  let t634 := (t628 * t630)
  ⟨(t626 * t627), (-t629), (t626 * t630), (0 : α), ((t629 * t631) + t634), (t626 * t625), ((t629 * t632) - t633), (0 : α), ((t629 * t633) - t632), (t626 * t628), ((t629 * t634) + t631), (0 : α), (0 : α), (0 : α), (0 : α), (1 : α)⟩

/-- extracted from the C++ template at T = Sym; 1 path(s) -/
def Euler.toQuat_XZY {α : Type} [Add α] [Sub α] [Mul α] [Div α] [Neg α] [OfNat α 1] [OfNat α 2] (sin : α → α) (cos : α → α) (a : V3 α) : (Quat α) :=
  let t29 := (a.x * ((1 : α) / (2 : α)))
  let t31 := (a.z * ((1 : α) / (2 : α)))
  let t32 := (cos t29)
  let t34 := (cos t31)
  let t35 := (sin t29)
  let t37 := (sin t31)
  let t38 := (t32 * t34)
  let t39 := (t32 * t37)
  let t40 := (t35 * t34)
  let t41 := (t35 * t37)
  let t649 := ((-a.y) * ((1 : α) / (2 : α)))
  let t650 := (cos t649)
  let t651 := (sin t649)
  ⟨((t650 * t38) + (t651 * t41)), ⟨((t650 * t40) - (t651 * t39)), ((t650 * t39) - (t651 * t40)), (((t650 * t41) + (t651 * t38)) * (-(1 : α)))⟩⟩

/-- extracted from the C++ template at T = Sym; 1 path(s) -/
def Euler.extractM33_XZY {α : Type} [Add α] [Mul α] [Neg α] [OfNat α 0] [OfNat α 1] (sqrt : α → α) (sin : α → α) (cos : α → α) (atan2 : α → α → α) (m : M33 α) : (V3 α) :=
  let t66 := (cos (0 : α))
  let t68 := (sin (0 : α))
  let t70 := (t66 * t66)
  let t71 := (t68 * t66)
  let t72 := (-t68)
  let t89 := ((0 : α) * t72)
  let t90 := ((0 : α) * t71)
  let t93 := ((((1 : α) * t70) + t90) + t89)
  let t95 := ((0 : α) * t70)
  let t97 := ((t95 + ((1 : α) * t71)) + t89)
  let t99 := (t95 + t90)
  let t100 := (t99 + ((1 : α) * t72))
  let t128 := ((t99 + t89) * (0 : α))
  let t134 := ((((t93 * m.x00) + (t97 * m.x10)) + (t100 * m.x20)) + t128)
  let t146 := ((((t93 * m.x02) + (t97 * m.x12)) + (t100 * m.x22)) + t128)
  ⟨((atan2 m.x21 m.x11) * (-(1 : α))), ((atan2 (-((((t93 * m.x01) + (t97 * m.x11)) + (t100 * m.x21)) + t128)) (sqrt ((t134 * t134) + (t146 * t146)))) * (-(1 : α))), ((atan2 m.x02 m.x00) * (-(1 : α)))⟩

/-- extracted from the C++ template at T = Sym; 1 path(s) -/
def Euler.extractM44_XZY {α : Type} [Add α] [Mul α] [Neg α] [OfNat α 0] [OfNat α 1] (sqrt : α → α) (sin : α → α) (cos : α → α) (atan2 : α → α → α) (m : M44 α) : (V3 α) :=
  let t66 := (cos (0 : α))
  let t68 := (sin (0 : α))
  let t70 := (t66 * t66)
  let t71 := (t68 * t66)
  let t72 := (-t68)
  let t89 := ((0 : α) * t72)
  let t90 := ((0 : α) * t71)
  let t93 := ((((1 : α) * t70) + t90) + t89)
  let t95 := ((0 : α) * t70)
  let t97 := ((t95 + ((1 : α) * t71)) + t89)
  let t99 := (t95 + t90)
  let t100 := (t99 + ((1 : α) * t72))
  let t101 := (t99 + t89)
  let t245 := ((((t93 * m.x00) + (t97 * m.x10)) + (t100 * m.x20)) + (t101 * m.x30))
  let t249 := ((((t93 * m.x02) + (t97 * m.x12)) + (t100 * m.x22)) + (t101 * m.x32))
  ⟨((atan2 m.x21 m.x11) * (-(1 : α))), ((atan2 (-((((t93 * m.x01) + (t97 * m.x11)) + (t100 * m.x21)) + (t101 * m.x31))) (sqrt ((t245 * t245) + (t249 * t249)))) * (-(1 : α))), ((atan2 m.x02 m.x00) * (-(1 : α)))⟩

/-- extracted from the C++ template at T = Sym; 1 path(s) -/
def Euler.ctorM33_XZY {α : Type} [Add α] [Mul α] [Neg α] [OfNat α 0] [OfNat α 1] (sqrt : α → α) (sin : α → α) (cos : α → α) (atan2 : α → α → α) (m : M33 α) : ((V3 α) × Int) :=
  let t66 := (cos (0 : α))
  let t68 := (sin (0 : α))
  let t70 := (t66 * t66)
  let t71 := (t68 * t66)
  let t72 := (-t68)
  let t89 := ((0 : α) * t72)
  let t90 := ((0 : α) * t71)
  let t93 := ((((1 : α) * t70) + t90) + t89)
  let t95 := ((0 : α) * t70)
  let t97 := ((t95 + ((1 : α) * t71)) + t89)
  let t99 := (t95 + t90)
  let t100 := (t99 + ((1 : α) * t72))
  let t128 := ((t99 + t89) * (0 : α))
  let t134 := ((((t93 * m.x00) + (t97 * m.x10)) + (t100 * m.x20)) + t128)
  let t146 := ((((t93 * m.x02) + (t97 * m.x12)) + (t100 * m.x22)) + t128)
  (⟨((atan2 m.x21 m.x11) * (-(1 : α))), ((atan2 (-((((t93 * m.x01) + (t97 * m.x11)) + (t100 * m.x21)) + t128)) (sqrt ((t134 * t134) + (t146 * t146)))) * (-(1 : α))), ((atan2 m.x02 m.x00) * (-(1 : α)))⟩, (1 : Int))

/-- extracted from the C++ template at T = Sym; 1 path(s) -/
def Euler.ctorM44_XZY {α : Type} [Add α] [Mul α] [Neg α] [OfNat α 0] [OfNat α 1] (sqrt : α → α) (sin : α → α) (cos : α → α) (atan2 : α → α → α) (m : M44 α) : ((V3 α) × Int) :=
  let t66 := (cos (0 : α))
  let t68 := (sin (0 : α))
  let t70 := (t66 * t66)
  let t71 := (t68 * t66)
  let t72 := (-t68)
  let t89 := ((0 : α) * t72)
  let t90 := ((0 : α) * t71)
  let t93 := ((((1 : α) * t70) + t90) + t89)
  let t95 := ((0 : α) * t70)
  let t97 := ((t95 + ((1 : α) * t71)) + t89)
  let t99 := (t95 + t90)
  let t100 := (t99 + ((1 : α) * t72))
  let t101 := (t99 + t89)
  let t245 := ((((t93 * m.x00) + (t97 * m.x10)) + (t100 * m.x20)) + (t101 * m.x30))
  let t249 := ((((t93 * m.x02) + (t97 * m.x12)) + (t100 * m.x22)) + (t101 * m.x32))
  (⟨((atan2 m.x21 m.x11) * (-(1 : α))), ((atan2 (-((((t93 * m.x01) + (t97 * m.x11)) + (t100 * m.x21)) + (t101 * m.x31))) (sqrt ((t245 * t245) + (t249 * t249)))) * (-(1 : α))), ((atan2 m.x02 m.x00) * (-(1 : α)))⟩, (1 : Int))

/-- extracted from the C++ template at T = Sym; 1 path(s) -/
def Euler.extractQuat_XZY {α : Type} [Add α] [Sub α] [Mul α] [Neg α] [OfNat α 0] [OfNat α 1] [OfNat α 2] (sqrt : α → α) (sin : α → α) (cos : α → α) (atan2 : α → α → α) (q : Quat α) : (V3 α) :=
  let t66 := (cos (0 : α))
  let t68 := (sin (0 : α))
  let t70 := (t66 * t66)
  let t71 := (t68 * t66)
  let t72 := (-t68)
  let t89 := ((0 : α) * t72)
  let t90 := ((0 : α) * t71)
  let t93 := ((((1 : α) * t70) + t90) + t89)
  let t95 := ((0 : α) * t70)
  let t97 := ((t95 + ((1 : α) * t71)) + t89)
  let t99 := (t95 + t90)
  let t100 := (t99 + ((1 : α) * t72))
  let t128 := ((t99 + t89) * (0 : α))
  let t306 := (q.v.x * q.v.x)
  let t307 := (q.v.y * q.v.y)
  let t312 := (q.v.x * q.r)
  let t313 := (q.v.y * q.v.z)
  let t315 := ((2 : α) * (t313 - t312))
  let t316 := (q.v.y * q.r)
  let t317 := (q.v.z * q.v.x)
  let t322 := (q.v.z * q.v.z)
  let t325 := ((1 : α) - ((2 : α) * (t322 + t306)))
  let t326 := (q.v.z * q.r)
  let t327 := (q.v.x * q.v.y)
  let t331 := ((2 : α) * (t317 - t316))
  let t336 := ((1 : α) - ((2 : α) * (t307 + t322)))
  let t386 := ((((t93 * t336) + (t97 * ((2 : α) * (t327 - t326)))) + (t100 * ((2 : α) * (t317 + t316)))) + t128)
  let t398 := ((((t93 * t331) + (t97 * ((2 : α) * (t313 + t312)))) + (t100 * ((1 : α) - ((2 : α) * (t307 + t306))))) + t128)
  ⟨((atan2 t315 t325) * (-(1 : α))), ((atan2 (-((((t93 * ((2 : α) * (t327 + t326))) + (t97 * t325)) + (t100 * t315)) + t128)) (sqrt ((t386 * t386) + (t398 * t398)))) * (-(1 : α))), ((atan2 t331 t336) * (-(1 : α)))⟩

/-- extracted from the C++ template at T = Sym; 1 path(s) -/
def Euler.ctorXYZLayout_XZY {α : Type} (v : V3 α) : ((V3 α) × Int) :=
  (⟨v.x, v.z, v.y⟩, (1 : Int))

/-- extracted from the C++ template at T = Sym; 1 path(s) -/
def Euler.ctorXYZLayoutScalars_XZY {α : Type} (xi : α) (yi : α) (zi : α) : ((V3 α) × Int) :=
  (⟨xi, zi, yi⟩, (1 : Int))

/-- extracted from the C++ template at T = Sym; 1 path(s) -/
def Euler.ctorIJKLayout_XZY {α : Type} (v : V3 α) : ((V3 α) × Int) :=
  (⟨v.x, v.y, v.z⟩, (1 : Int))

/-- extracted from the C++ template at T = Sym; 1 path(s) -/
def Euler.setXYZVector_XZY {α : Type} (a : V3 α) (v : V3 α) : (V3 α) :=
  ⟨v.x, v.z, v.y⟩

/-- extracted from the C++ template at T = Sym; 1 path(s) -/
def Euler.toXYZVector_XZY {α : Type} (a : V3 α) : (V3 α) :=
  ⟨a.x, a.z, a.y⟩

/-- extracted from the C++ template at T = Sym; 1 path(s) -/
def Euler.angleOrder_XZY {α : Type} : (Int × Int × Int) :=
  ((0 : Int), (2 : Int), (1 : Int))

/-- extracted from the C++ template at T = Sym; 1 path(s) -/
def Euler.angleMapping_XZY {α : Type} : (Int × Int × Int) :=
  ((0 : Int), (2 : Int), (1 : Int))

/-- extracted from the C++ template at T = Sym; 1 path(s) -/
def Euler.order_XZY {α : Type} : (Int × Bool × Bool × Bool × Bool × Int) :=
  ((1 : Int), true, true, false, false, (0 : Int))

/-- extracted from the C++ template at T = Sym; 1 path(s) -/
def Euler.setOrderKeepsAngles_XZY {α : Type} (a : V3 α) : ((V3 α) × Int) :=
  (⟨a.x, a.y, a.z⟩, (1 : Int))

/-- extracted from the C++ template at T = Sym; 1 path(s) -/
def Euler.copyAndAssign_XZY {α : Type} (a : V3 α) (v : V3 α) : ((V3 α) × Int × (V3 α) × Int × (V3 α) × Int) :=
  (⟨a.x, a.y, a.z⟩, (1 : Int), ⟨a.x, a.y, a.z⟩, (1 : Int), ⟨v.x, v.y, v.z⟩, (1 : Int))

/-- extracted from the C++ template at T = Sym; 1 path(s) -/
def Euler.reorderFromXYZ_XZY {α : Type} [Add α] [Sub α] [Mul α] [Neg α] [OfNat α 0] [OfNat α 1] (sqrt : α → α) (sin : α → α) (cos : α → α) (atan2 : α → α → α) (a : V3 α) : ((V3 α) × Int) :=
  let t4 := (cos a.x)
  let t5 := (cos a.y)
  let t6 := (cos a.z)
  let t7 := (sin a.x)
  let t8 := (sin a.y)
  let t9 := (sin a.z)
  let t10 := (t4 * t6)
  let t11 := (t4 * t9)
  let t12 := (t7 * t6)
  let t13 := (t7 * t9)
  let t15 := (t5 * t6)
  let t22 := ((t8 * t13) + t10)
  let t24 := ((t8 * t11) - t12)
  let t25 := (-t8)
  let t66 := (cos (0 : α))
  let t68 := (sin (0 : α))
  let t70 := (t66 * t66)
  let t71 := (t68 * t66)
  let t72 := (-t68)
  let t89 := ((0 : α) * t72)
  let t90 := ((0 : α) * t71)
  let t93 := ((((1 : α) * t70) + t90) + t89)
  let t95 := ((0 : α) * t70)
  let t97 := ((t95 + ((1 : α) * t71)) + t89)
  let t99 := (t95 + t90)
  let t100 := (t99 + ((1 : α) * t72))
  let t128 := ((t99 + t89) * (0 : α))
  let t531 := ((((t93 * t15) + (t97 * ((t8 * t12) - t11))) + (t100 * ((t8 * t10) + t13))) + t128)
  let t543 := ((((t93 * t25) + (t97 * (t5 * t7))) + (t100 * (t5 * t4))) + t128)
  (⟨((atan2 t24 t22) * (-(1 : α))), ((atan2 (-((((t93 * (t5 * t9)) + (t97 * t22)) + (t100 * t24)) + t128)) (sqrt ((t531 * t531) + (t543 * t543)))) * (-(1 : α))), ((atan2 t25 t15) * (-(1 : α)))⟩, (1 : Int))

/-- extracted from the C++ template at T = Sym; 1 path(s) -/
def Euler.reorderToZYXr_XZY {α : Type} [Add α] [Sub α] [Mul α] [Neg α] [OfNat α 0] [OfNat α 1] (sqrt : α → α) (sin : α → α) (cos : α → α) (atan2 : α → α → α) (a : V3 α) : ((V3 α) × Int) :=
  let t66 := (cos (0 : α))
  let t68 := (sin (0 : α))
  let t70 := (t66 * t66)
  let t71 := (t68 * t66)
  let t72 := (-t68)
  let t89 := ((0 : α) * t72)
  let t90 := ((0 : α) * t71)
  let t93 := ((((1 : α) * t70) + t90) + t89)
  let t95 := ((0 : α) * t70)
  let t97 := ((t95 + ((1 : α) * t71)) + t89)
  let t99 := (t95 + t90)
  let t100 := (t99 + ((1 : α) * t72))
  let t128 := ((t99 + t89) * (0 : α))
  let t622 := (a.x * (-(1 : α)))
  let t623 := (a.y * (-(1 : α)))
  let t624 := (a.z * (-(1 : α)))
  let t625 := (cos t622)
  let t626 := (cos t623)
  let t627 := (cos t624)
  let t628 := (sin t622)
  let t629 := (sin t623)
  let t630 := (sin t624)
  let t631 := (t625 * t627)
  let t632 := (t625 * t630)
  let t633 := (t628 * t627)
  let t634 := (t628 * t630)
  let t635 := (t626 * t627)
  let t642 := ((t629 * t634) + t631)
  let t644 := ((t629 * t632) - t633)
  let t645 := (-t629)
  let t1058 := ((((t93 * t635) + (t97 * ((t629 * t631) + t634))) + (t100 * ((t629 * t633) - t632))) + t128)
  let t1064 := ((((t93 * t645) + (t97 * (t626 * t625))) + (t100 * (t626 * t628))) + t128)
  (⟨(atan2 t645 t635), (atan2 (-((((t93 * (t626 * t630)) + (t97 * t644)) + (t100 * t642)) + t128)) (sqrt ((t1058 * t1058) + (t1064 * t1064)))), (atan2 t644 t642)⟩, (256 : Int))

/-- extracted from the C++ template at T = Sym; 1 path(s) -/
def Euler.toMatrix33_YZX {α : Type} [Add α] [Sub α] [Mul α] [Neg α] (sin : α → α) (cos : α → α) (a : V3 α) : (M33 α) :=
  let t4 := (cos a.x)
  let t5 := (cos a.y)
  let t6 := (cos a.z)
  let t7 := (sin a.x)
  let t8 := (sin a.y)
  let t9 := (sin a.z)
  let t10 := (t4 * t6)
  let t11 := (t4 * t9)
  let t12 := (t7 * t6)
  let t13 := (t7 * t9)
  ⟨(t5 * t4), ((t8 * t10) + t13), ((t8 * t11) - t12), (-t8), (t5 * t6), (t5 * t9), (t5 * t7), ((t8 * t12) - t11), ((t8 * t13) + t10)⟩

/-- extracted from the C++ template at T = Sym; 1 path(s) -/
def Euler.toMatrix44_YZX {α : Type} [Add α] [Sub α] [Mul α] [Neg α] [OfNat α 0] [OfNat α 1] (sin : α → α) (cos : α → α) (a : V3 α) : (M44 α) :=
  let t4 := (cos a.x)
  let t5 := (cos a.y)
  let t6 := (cos a.z)
  let t7 := (sin a.x)
  let t8 := (sin a.y)
  let t9 := (sin a.z)
  let t10 := (t4 * t6)
  let t11 := (t4 * t9)
  let t12 := (t7 * t6)
  let t13 := (t7 * t9)
  ⟨(t5 * t4), ((t8 * t10) + t13), ((t8 * t11) - t12), (0 : α), (-t8), (t5 * t6), (t5 * t9), (0 : α), (t5 * t7), ((t8 * t12) - t11), ((t8 * t13) + t10), (0 : α), (0 : α), (0 : α), (0 : α), (1 : α)⟩

/-- extracted from the C++ template at T = Sym; 1 path(s) -/
def Euler.toQuat_YZX {α : Type} [Add α] [Sub α] [Mul α] [Div α] [OfNat α 1] [OfNat α 2] (sin : α → α) (cos : α → α) (a : V3 α) : (Quat α) :=
  let t29 := (a.x * ((1 : α) / (2 : α)))
  let t30 := (a.y * ((1 : α) / (2 : α)))
  let t31 := (a.z * ((1 : α) / (2 : α)))
  let t32 := (cos t29)
  let t33 := (cos t30)
  let t34 := (cos t31)
  let t35 := (sin t29)
  let t36 := (sin t30)
  let t37 := (sin t31)
  let t38 := (t32 * t34)
  let t39 := (t32 * t37)
  let t40 := (t35 * t34)
  let t41 := (t35 * t37)
  ⟨((t33 * t38) + (t36 * t41)), ⟨((t33 * t39) - (t36 * t40)), ((t33 * t40) - (t36 * t39)), (((t33 * t41) + (t36 * t38)) * (1 : α))⟩⟩

/-- extracted from the C++ template at T = Sym; 1 path(s) -/
def Euler.extractM33_YZX {α : Type} [Add α] [Mul α] [Neg α] [OfNat α 0] [OfNat α 1] (sqrt : α → α) (sin : α → α) (cos : α → α) (atan2 : α → α → α) (m : M33 α) : (V3 α) :=
  let t66 := (cos (0 : α))
  let t68 := (sin (0 : α))
  let t1148 := (atan2 m.x20 m.x00)
  let t1149 := (-t1148)
  let t1151 := (sin t1149)
  let t1158 := (((-t68) * t66) + ((t66 * t1151) * t68))
  let t1161 := ((t66 * t66) + ((t68 * t1151) * t68))
  let t1162 := ((cos t1149) * t68)
  let t1183 := ((0 : α) * t1162)
  let t1184 := ((0 : α) * t1161)
  let t1187 := ((((1 : α) * t1158) + t1184) + t1183)
  let t1189 := ((0 : α) * t1158)
  let t1191 := ((t1189 + ((1 : α) * t1161)) + t1183)
  let t1193 := (t1189 + t1184)
  let t1194 := (t1193 + ((1 : α) * t1162))
  let t1235 := ((t1193 + t1183) * (0 : α))
  let t1247 := ((((t1187 * m.x01) + (t1191 * m.x11)) + (t1194 * m.x21)) + t1235)
  let t1253 := ((((t1187 * m.x02) + (t1191 * m.x12)) + (t1194 * m.x22)) + t1235)
  ⟨t1148, (atan2 (-((((t1187 * m.x00) + (t1191 * m.x10)) + (t1194 * m.x20)) + t1235)) (sqrt ((t1247 * t1247) + (t1253 * t1253)))), (atan2 m.x12 m.x11)⟩

/-- extracted from the C++ template at T = Sym; 1 path(s) -/
def Euler.extractM44_YZX {α : Type} [Add α] [Mul α] [Neg α] [OfNat α 0] [OfNat α 1] (sqrt : α → α) (sin : α → α) (cos : α → α) (atan2 : α → α → α) (m : M44 α) : (V3 α) :=
  let t66 := (cos (0 : α))
  let t68 := (sin (0 : α))
  let t1148 := (atan2 m.x20 m.x00)
  let t1149 := (-t1148)
  let t1151 := (sin t1149)
  let t1158 := (((-t68) * t66) + ((t66 * t1151) * t68))
  let t1161 := ((t66 * t66) + ((t68 * t1151) * t68))
  let t1162 := ((cos t1149) * t68)
  let t1183 := ((0 : α) * t1162)
  let t1184 := ((0 : α) * t1161)
  let t1187 := ((((1 : α) * t1158) + t1184) + t1183)
  let t1189 := ((0 : α) * t1158)
  let t1191 := ((t1189 + ((1 : α) * t1161)) + t1183)
  let t1193 := (t1189 + t1184)
  let t1194 := (t1193 + ((1 : α) * t1162))
  let t1195 := (t1193 + t1183)
  let t1310 := ((((t1187 * m.x01) + (t1191 * m.x11)) + (t1194 * m.x21)) + (t1195 * m.x31))
  let t1312 := ((((t1187 * m.x02) + (t1191 * m.x12)) + (t1194 * m.x22)) + (t1195 * m.x32))
  ⟨t1148, (atan2 (-((((t1187 * m.x00) + (t1191 * m.x10)) + (t1194 * m.x20)) + (t1195 * m.x30))) (sqrt ((t1310 * t1310) + (t1312 * t1312)))), (atan2 m.x12 m.x11)⟩

/-- extracted from the C++ template at T = Sym; 1 path(s) -/
def Euler.ctorM33_YZX {α : Type} [Add α] [Mul α] [Neg α] [OfNat α 0] [OfNat α 1] (sqrt : α → α) (sin : α → α) (cos : α → α) (atan2 : α → α → α) (m : M33 α) : ((V3 α) × Int) :=
  let t66 := (cos (0 : α))
  let t68 := (sin (0 : α))
  let t1148 := (atan2 m.x20 m.x00)
  let t1149 := (-t1148)
  let t1151 := (sin t1149)
  let t1158 := (((-t68) * t66) + ((t66 * t1151) * t68))
  let t1161 := ((t66 * t66) + ((t68 * t1151) * t68))
  let t1162 := ((cos t1149) * t68)
  let t1183 := ((0 : α) * t1162)
  let t1184 := ((0 : α) * t1161)
  let t1187 := ((((1 : α) * t1158) + t1184) + t1183)
  let t1189 := ((0 : α) * t1158)
  let t1191 := ((t1189 + ((1 : α) * t1161)) + t1183)
  let t1193 := (t1189 + t1184)
  let t1194 := (t1193 + ((1 : α) * t1162))
  let t1235 := ((t1193 + t1183) * (0 : α))
  let t1247 := ((((t1187 * m.x01) + (t1191 * m.x11)) + (t1194 * m.x21)) + t1235)
  let t1253 := ((((t1187 * m.x02) + (t1191 * m.x12)) + (t1194 * m.x22)) + t1235)
  (⟨t1148, (atan2 (-((((t1187 * m.x00) + (t1191 * m.x10)) + (t1194 * m.x20)) + t1235)) (sqrt ((t1247 * t1247) + (t1253 * t1253)))), (atan2 m.x12 m.x11)⟩, (4353 : Int))

/-- extracted from the C++ template at T = Sym; 1 path(s) -/
def Euler.ctorM44_YZX {α : Type} [Add α] [Mul α] [Neg α] [OfNat α 0] [OfNat α 1] (sqrt : α → α) (sin : α → α) (cos : α → α) (atan2 : α → α → α) (m : M44 α) : ((V3 α) × Int) :=
  let t66 := (cos (0 : α))
  let t68 := (sin (0 : α))
  let t1148 := (atan2 m.x20 m.x00)
  let t1149 := (-t1148)
  let t1151 := (sin t1149)
  let t1158 := (((-t68) * t66) + ((t66 * t1151) * t68))
  let t1161 := ((t66 * t66) + ((t68 * t1151) * t68))
  let t1162 := ((cos t1149) * t68)
  let t1183 := ((0 : α) * t1162)
  let t1184 := ((0 : α) * t1161)
  let t1187 := ((((1 : α) * t1158) + t1184) + t1183)
  let t1189 := ((0 : α) * t1158)
  let t1191 := ((t1189 + ((1 : α) * t1161)) + t1183)
  let t1193 := (t1189 + t1184)
  let t1194 := (t1193 + ((1 : α) * t1162))
  let t1195 := (t1193 + t1183)
  let t1310 := ((((t1187 * m.x01) + (t1191 * m.x11)) + (t1194 * m.x21)) + (t1195 * m.x31))
  let t1312 := ((((t1187 * m.x02) + (t1191 * m.x12)) + (t1194 * m.x22)) + (t1195 * m.x32))
  (⟨t1148, (atan2 (-((((t1187 * m.x00) + (t1191 * m.x10)) + (t1194 * m.x20)) + (t1195 * m.x30))) (sqrt ((t1310 * t1310) + (t1312 * t1312)))), (atan2 m.x12 m.x11)⟩, (4353 : Int))

/-- extracted from the C++ template at T = Sym; 1 path(s) -/
def Euler.extractQuat_YZX {α : Type} [Add α] [Sub α] [Mul α] [Neg α] [OfNat α 0] [OfNat α 1] [OfNat α 2] (sqrt : α → α) (sin : α → α) (cos : α → α) (atan2 : α → α → α) (q : Quat α) : (V3 α) :=
  let t66 := (cos (0 : α))
  let t68 := (sin (0 : α))
  let t306 := (q.v.x * q.v.x)
  let t307 := (q.v.y * q.v.y)
  let t312 := (q.v.x * q.r)
  let t313 := (q.v.y * q.v.z)
  let t316 := (q.v.y * q.r)
  let t317 := (q.v.z * q.v.x)
  let t319 := ((2 : α) * (t317 + t316))
  let t321 := ((2 : α) * (t313 + t312))
  let t322 := (q.v.z * q.v.z)
  let t325 := ((1 : α) - ((2 : α) * (t322 + t306)))
  let t326 := (q.v.z * q.r)
  let t327 := (q.v.x * q.v.y)
  let t336 := ((1 : α) - ((2 : α) * (t307 + t322)))
  let t1339 := (atan2 t319 t336)
  let t1340 := (-t1339)
  let t1342 := (sin t1340)
  let t1348 := (((-t68) * t66) + ((t66 * t1342) * t68))
  let t1351 := ((t66 * t66) + ((t68 * t1342) * t68))
  let t1352 := ((cos t1340) * t68)
  let t1371 := ((0 : α) * t1352)
  let t1372 := ((0 : α) * t1351)
  let t1375 := ((((1 : α) * t1348) + t1372) + t1371)
  let t1377 := ((0 : α) * t1348)
  let t1379 := ((t1377 + ((1 : α) * t1351)) + t1371)
  let t1381 := (t1377 + t1372)
  let t1382 := (t1381 + ((1 : α) * t1352))
  let t1423 := ((t1381 + t1371) * (0 : α))
  let t1435 := ((((t1375 * ((2 : α) * (t327 + t326))) + (t1379 * t325)) + (t1382 * ((2 : α) * (t313 - t312)))) + t1423)
  let t1441 := ((((t1375 * ((2 : α) * (t317 - t316))) + (t1379 * t321)) + (t1382 * ((1 : α) - ((2 : α) * (t307 + t306))))) + t1423)
  ⟨t1339, (atan2 (-((((t1375 * t336) + (t1379 * ((2 : α) * (t327 - t326)))) + (t1382 * t319)) + t1423)) (sqrt ((t1435 * t1435) + (t1441 * t1441)))), (atan2 t321 t325)⟩

/-- extracted from the C++ template at T = Sym; 1 path(s) -/
def Euler.ctorXYZLayout_YZX {α : Type} (v : V3 α) : ((V3 α) × Int) :=
  (⟨v.y, v.z, v.x⟩, (4353 : Int))

/-- extracted from the C++ template at T = Sym; 1 path(s) -/
def Euler.ctorXYZLayoutScalars_YZX {α : Type} (xi : α) (yi : α) (zi : α) : ((V3 α) × Int) :=
  (⟨yi, zi, xi⟩, (4353 : Int))

/-- extracted from the C++ template at T = Sym; 1 path(s) -/
def Euler.ctorIJKLayout_YZX {α : Type} (v : V3 α) : ((V3 α) × Int) :=
  (⟨v.x, v.y, v.z⟩, (4353 : Int))

/-- extracted from the C++ template at T = Sym; 1 path(s) -/
def Euler.setXYZVector_YZX {α : Type} (a : V3 α) (v : V3 α) : (V3 α) :=
  ⟨v.y, v.z, v.x⟩

/-- extracted from the C++ template at T = Sym; 1 path(s) -/
def Euler.toXYZVector_YZX {α : Type} (a : V3 α) : (V3 α) :=
  ⟨a.z, a.x, a.y⟩

/-- extracted from the C++ template at T = Sym; 1 path(s) -/
def Euler.angleOrder_YZX {α : Type} : (Int × Int × Int) :=
  ((1 : Int), (2 : Int), (0 : Int))

/-- extracted from the C++ template at T = Sym; 1 path(s) -/
def Euler.angleMapping_YZX {α : Type} : (Int × Int × Int) :=
  ((2 : Int), (0 : Int), (1 : Int))

/-- extracted from the C++ template at T = Sym; 1 path(s) -/
def Euler.order_YZX {α : Type} : (Int × Bool × Bool × Bool × Bool × Int) :=
  ((4353 : Int), true, true, false, true, (1 : Int))

/-- extracted from the C++ template at T = Sym; 1 path(s) -/
def Euler.setOrderKeepsAngles_YZX {α : Type} (a : V3 α) : ((V3 α) × Int) :=
  (⟨a.x, a.y, a.z⟩, (4353 : Int))

/-- extracted from the C++ template at T = Sym; 1 path(s) -/
def Euler.copyAndAssign_YZX {α : Type} (a : V3 α) (v : V3 α) : ((V3 α) × Int × (V3 α) × Int × (V3 α) × Int) :=
  (⟨a.x, a.y, a.z⟩, (4353 : Int), ⟨a.x, a.y, a.z⟩, (4353 : Int), ⟨v.x, v.y, v.z⟩, (4353 : Int))

/-- extracted from the C++ template at T = Sym; 1 path(s) -/
def Euler.reorderFromXYZ_YZX {α : Type} [Add α] [Sub α] [Mul α] [Neg α] [OfNat α 0] [OfNat α 1] (sqrt : α → α) (sin : α → α) (cos : α → α) (atan2 : α → α → α) (a : V3 α) : ((V3 α) × Int) :=
  let t4 := (cos a.x)
  let t5 := (cos a.y)
  let t6 := (cos a.z)
  let t7 := (sin a.x)
  let t8 := (sin a.y)
  let t9 := (sin a.z)
  let t10 := (t4 * t6)
  let t11 := (t4 * t9)
  let t12 := (t7 * t6)
  let t13 := (t7 * t9)
  let t15 := (t5 * t6)
  let t19 := ((t8 * t10) + t13)
  let t22 := ((t8 * t13) + t10)
  let t26 := (t5 * t7)
  let t66 := (cos (0 : α))
  let t68 := (sin (0 : α))
  let t1482 := (atan2 t19 t15)
  let t1483 := (-t1482)
  let t1485 := (sin t1483)
  let t1491 := (((-t68) * t66) + ((t66 * t1485) * t68))
  let t1494 := ((t66 * t66) + ((t68 * t1485) * t68))
  let t1495 := ((cos t1483) * t68)
  let t1514 := ((0 : α) * t1495)
  let t1515 := ((0 : α) * t1494)
  let t1518 := ((((1 : α) * t1491) + t1515) + t1514)
  let t1520 := ((0 : α) * t1491)
  let t1522 := ((t1520 + ((1 : α) * t1494)) + t1514)
  let t1524 := (t1520 + t1515)
  let t1525 := (t1524 + ((1 : α) * t1495))
  let t1566 := ((t1524 + t1514) * (0 : α))
  let t1578 := ((((t1518 * (t5 * t9)) + (t1522 * t22)) + (t1525 * ((t8 * t11) - t12))) + t1566)
  let t1584 := ((((t1518 * (-t8)) + (t1522 * t26)) + (t1525 * (t5 * t4))) + t1566)
  (⟨t1482, (atan2 (-((((t1518 * t15) + (t1522 * ((t8 * t12) - t11))) + (t1525 * t19)) + t1566)) (sqrt ((t1578 * t1578) + (t1584 * t1584)))), (atan2 t26 t22)⟩, (4353 : Int))

/-- extracted from the C++ template at T = Sym; 1 path(s) -/
def Euler.reorderToZYXr_YZX {α : Type} [Add α] [Sub α] [Mul α] [Neg α] [OfNat α 0] [OfNat α 1] (sqrt : α → α) (sin : α → α) (cos : α → α) (atan2 : α → α → α) (a : V3 α) : ((V3 α) × Int) :=
  let t4 := (cos a.x)
  let t5 := (cos a.y)
  let t6 := (cos a.z)
  let t7 := (sin a.x)
  let t8 := (sin a.y)
  let t9 := (sin a.z)
  let t10 := (t4 * t6)
  let t11 := (t4 * t9)
  let t12 := (t7 * t6)
  let t13 := (t7 * t9)
  let t19 := ((t8 * t10) + t13)
  let t20 := (t5 * t9)
  let t22 := ((t8 * t13) + t10)
  let t27 := (t5 * t4)
  let t66 := (cos (0 : α))
  let t68 := (sin (0 : α))
  let t70 := (t66 * t66)
  let t71 := (t68 * t66)
  let t72 := (-t68)
  let t89 := ((0 : α) * t72)
  let t90 := ((0 : α) * t71)
  let t93 := ((((1 : α) * t70) + t90) + t89)
  let t95 := ((0 : α) * t70)
  let t97 := ((t95 + ((1 : α) * t71)) + t89)
  let t99 := (t95 + t90)
  let t100 := (t99 + ((1 : α) * t72))
  let t128 := ((t99 + t89) * (0 : α))
  let t1674 := ((((t93 * t27) + (t97 * (-t8))) + (t100 * (t5 * t7))) + t128)
  let t1680 := ((((t93 * t19) + (t97 * (t5 * t6))) + (t100 * ((t8 * t12) - t11))) + t128)
  (⟨(atan2 t19 t27), (atan2 (-((((t93 * ((t8 * t11) - t12)) + (t97 * t20)) + (t100 * t22)) + t128)) (sqrt ((t1674 * t1674) + (t1680 * t1680)))), (atan2 t20 t22)⟩, (256 : Int))

/-- extracted from the C++ template at T = Sym; 1 path(s) -/
def Euler.toMatrix33_YXZ {α : Type} [Add α] [Sub α] [Mul α] [Neg α] [OfNat α 1] (sin : α → α) (cos : α → α) (a : V3 α) : (M33 α) :=
  let t622 := (a.x * (-(1 : α)))
  let t623 := (a.y * (-(1 : α)))
  let t624 := (a.z * (-(1 : α)))
  let t625 := (cos t622)
  let t626 := (cos t623)
  let t627 := (cos t624)
  let t628 := (sin t622)
  let t629 := (sin t623)
  let t630 := (sin t624)
  let t631 := (t625 * t627)
  let t632 := (t625 * t630)
  let t633 := (t628 * t627)
  let t634 := (t628 * t630)
  ⟨((t629 * t634) + t631), ((t629 * t633) - t632), (t626 * t628), (t626 * t630), (t626 * t627), (-t629), ((t629 * t632) - t633), ((t629 * t631) + t634), (t626 * t625)⟩

/-- extracted from the C++ template at T = Sym; 1 path(s) -/
def Euler.toMatrix44_YXZ {α : Type} [Add α] [Sub α] [Mul α] [Neg α] [OfNat α 0] [OfNat α 1] (sin : α → α) (cos : α → α) (a : V3 α) : (M44 α) :=
  let t622 := (a.x * (-(1 : α)))
  let t623 := (a.y * (-(1 : α)))
  let t624 := (a.z * (-(1 : α)))
  let t625 := (cos t622)
  let t626 := (cos t623)
  let t627 := (cos t624)
  let t628 := (sin t622)
  let t629 := (sin t623)
  let t630 := (sin t624)
  let t631 := (t625 * t627)
  let t632 := (t625 * t630)
  let t633 := (t628 * t627)
  let t634 := (t628 * t630)
  ⟨((t629 * t634) + t631), ((t629 * t633) - t632), (t626 * t628), (0 : α), (t626 * t630), (t626 * t627), (-t629), (0 : α), ((t629 * t632) - t633), ((t629 * t631) + t634), (t626 * t625), (0 : α), (0 : α), (0 : α), (0 : α), (1 : α)⟩

/-- extracted from the C++ template at T = Sym; 1 path(s) -/
def Euler.toQuat_YXZ {α : Type} [Add α] [Sub α] [Mul α] [Div α] [Neg α] [OfNat α 1] [OfNat α 2] (sin : α → α) (cos : α → α) (a : V3 α) : (Quat α) :=
  let t29 := (a.x * ((1 : α) / (2 : α)))
  let t31 := (a.z * ((1 : α) / (2 : α)))
  let t32 := (cos t29)
  let t34 := (cos t31)
  let t35 := (sin t29)
  let t37 := (sin t31)
  let t38 := (t32 * t34)
  let t39 := (t32 * t37)
  let t40 := (t35 * t34)
  let t41 := (t35 * t37)
  let t649 := ((-a.y) * ((1 : α) / (2 : α)))
  let t650 := (cos t649)
  let t651 := (sin t649)
  ⟨((t650 * t38) + (t651 * t41)), ⟨(((t650 * t41) + (t651 * t38)) * (-(1 : α))), ((t650 * t40) - (t651 * t39)), ((t650 * t39) - (t651 * t40))⟩⟩

/-- extracted from the C++ template at T = Sym; 1 path(s) -/
def Euler.extractM33_YXZ {α : Type} [Add α] [Mul α] [Neg α] [OfNat α 0] [OfNat α 1] (sqrt : α → α) (sin : α → α) (cos : α → α) (atan2 : α → α → α) (m : M33 α) : (V3 α) :=
  let t66 := (cos (0 : α))
  let t68 := (sin (0 : α))
  let t1755 := (atan2 m.x02 m.x22)
  let t1757 := (sin t1755)
  let t1763 := (((-t68) * t66) + ((t66 * t1757) * t68))
  let t1766 := ((t66 * t66) + ((t68 * t1757) * t68))
  let t1767 := ((cos t1755) * t68)
  let t1786 := ((0 : α) * t1767)
  let t1787 := ((0 : α) * t1766)
  let t1790 := ((((1 : α) * t1763) + t1787) + t1786)
  let t1792 := ((0 : α) * t1763)
  let t1794 := ((t1792 + ((1 : α) * t1766)) + t1786)
  let t1796 := (t1792 + t1787)
  let t1797 := (t1796 + ((1 : α) * t1767))
  let t1838 := ((t1796 + t1786) * (0 : α))
  let t1844 := ((((t1790 * m.x00) + (t1794 * m.x10)) + (t1797 * m.x20)) + t1838)
  let t1850 := ((((t1790 * m.x01) + (t1794 * m.x11)) + (t1797 * m.x21)) + t1838)
  ⟨(t1755 * (-(1 : α))), ((atan2 (-((((t1790 * m.x02) + (t1794 * m.x12)) + (t1797 * m.x22)) + t1838)) (sqrt ((t1850 * t1850) + (t1844 * t1844)))) * (-(1 : α))), ((atan2 m.x10 m.x11) * (-(1 : α)))⟩

/-- extracted from the C++ template at T = Sym; 1 path(s) -/
def Euler.extractM44_YXZ {α : Type} [Add α] [Mul α] [Neg α] [OfNat α 0] [OfNat α 1] (sqrt : α → α) (sin : α → α) (cos : α → α) (atan2 : α → α → α) (m : M44 α) : (V3 α) :=
  let t66 := (cos (0 : α))
  let t68 := (sin (0 : α))
  let t1755 := (atan2 m.x02 m.x22)
  let t1757 := (sin t1755)
  let t1763 := (((-t68) * t66) + ((t66 * t1757) * t68))
  let t1766 := ((t66 * t66) + ((t68 * t1757) * t68))
  let t1767 := ((cos t1755) * t68)
  let t1786 := ((0 : α) * t1767)
  let t1787 := ((0 : α) * t1766)
  let t1790 := ((((1 : α) * t1763) + t1787) + t1786)
  let t1792 := ((0 : α) * t1763)
  let t1794 := ((t1792 + ((1 : α) * t1766)) + t1786)
  let t1796 := (t1792 + t1787)
  let t1797 := (t1796 + ((1 : α) * t1767))
  let t1798 := (t1796 + t1786)
  let t1914 := ((((t1790 * m.x00) + (t1794 * m.x10)) + (t1797 * m.x20)) + (t1798 * m.x30))
  let t1916 := ((((t1790 * m.x01) + (t1794 * m.x11)) + (t1797 * m.x21)) + (t1798 * m.x31))
  ⟨(t1755 * (-(1 : α))), ((atan2 (-((((t1790 * m.x02) + (t1794 * m.x12)) + (t1797 * m.x22)) + (t1798 * m.x32))) (sqrt ((t1916 * t1916) + (t1914 * t1914)))) * (-(1 : α))), ((atan2 m.x10 m.x11) * (-(1 : α)))⟩

/-- extracted from the C++ template at T = Sym; 1 path(s) -/
def Euler.ctorM33_YXZ {α : Type} [Add α] [Mul α] [Neg α] [OfNat α 0] [OfNat α 1] (sqrt : α → α) (sin : α → α) (cos : α → α) (atan2 : α → α → α) (m : M33 α) : ((V3 α) × Int) :=
  let t66 := (cos (0 : α))
  let t68 := (sin (0 : α))
  let t1755 := (atan2 m.x02 m.x22)
  let t1757 := (sin t1755)
  let t1763 := (((-t68) * t66) + ((t66 * t1757) * t68))
  let t1766 := ((t66 * t66) + ((t68 * t1757) * t68))
  let t1767 := ((cos t1755) * t68)
  let t1786 := ((0 : α) * t1767)
  let t1787 := ((0 : α) * t1766)
  let t1790 := ((((1 : α) * t1763) + t1787) + t1786)
  let t1792 := ((0 : α) * t1763)
  let t1794 := ((t1792 + ((1 : α) * t1766)) + t1786)
  let t1796 := (t1792 + t1787)
  let t1797 := (t1796 + ((1 : α) * t1767))
  let t1838 := ((t1796 + t1786) * (0 : α))
  let t1844 := ((((t1790 * m.x00) + (t1794 * m.x10)) + (t1797 * m.x20)) + t1838)
  let t1850 := ((((t1790 * m.x01) + (t1794 * m.x11)) + (t1797 * m.x21)) + t1838)
  (⟨(t1755 * (-(1 : α))), ((atan2 (-((((t1790 * m.x02) + (t1794 * m.x12)) + (t1797 * m.x22)) + t1838)) (sqrt ((t1850 * t1850) + (t1844 * t1844)))) * (-(1 : α))), ((atan2 m.x10 m.x11) * (-(1 : α)))⟩, (4097 : Int))

/-- extracted from the C++ template at T = Sym; 1 path(s) -/
def Euler.ctorM44_YXZ {α : Type} [Add α] [Mul α] [Neg α] [OfNat α 0] [OfNat α 1] (sqrt : α → α) (sin : α → α) (cos : α → α) (atan2 : α → α → α) (m : M44 α) : ((V3 α) × Int) :=
  let t66 := (cos (0 : α))
  let t68 := (sin (0 : α))
  let t1755 := (atan2 m.x02 m.x22)
  let t1757 := (sin t1755)
  let t1763 := (((-t68) * t66) + ((t66 * t1757) * t68))
  let t1766 := ((t66 * t66) + ((t68 * t1757) * t68))
  let t1767 := ((cos t1755) * t68)
  let t1786 := ((0 : α) * t1767)
  let t1787 := ((0 : α) * t1766)
  let t1790 := ((((1 : α) * t1763) + t1787) + t1786)
  let t1792 := ((0 : α) * t1763)
  let t1794 := ((t1792 + ((1 : α) * t1766)) + t1786)
  let t1796 := (t1792 + t1787)
  let t1797 := (t1796 + ((1 : α) * t1767))
  let t1798 := (t1796 + t1786)
  let t1914 := ((((t1790 * m.x00) + (t1794 * m.x10)) + (t1797 * m.x20)) + (t1798 * m.x30))
  let t1916 := ((((t1790 * m.x01) + (t1794 * m.x11)) + (t1797 * m.x21)) + (t1798 * m.x31))
  (⟨(t1755 * (-(1 : α))), ((atan2 (-((((t1790 * m.x02) + (t1794 * m.x12)) + (t1797 * m.x22)) + (t1798 * m.x32))) (sqrt ((t1916 * t1916) + (t1914 * t1914)))) * (-(1 : α))), ((atan2 m.x10 m.x11) * (-(1 : α)))⟩, (4097 : Int))

/-- extracted from the C++ template at T = Sym; 1 path(s) -/
def Euler.extractQuat_YXZ {α : Type} [Add α] [Sub α] [Mul α] [Neg α] [OfNat α 0] [OfNat α 1] [OfNat α 2] (sqrt : α → α) (sin : α → α) (cos : α → α) (atan2 : α → α → α) (q : Quat α) : (V3 α) :=
  let t66 := (cos (0 : α))
  let t68 := (sin (0 : α))
  let t306 := (q.v.x * q.v.x)
  let t307 := (q.v.y * q.v.y)
  let t311 := ((1 : α) - ((2 : α) * (t307 + t306)))
  let t312 := (q.v.x * q.r)
  let t313 := (q.v.y * q.v.z)
  let t316 := (q.v.y * q.r)
  let t317 := (q.v.z * q.v.x)
  let t322 := (q.v.z * q.v.z)
  let t325 := ((1 : α) - ((2 : α) * (t322 + t306)))
  let t326 := (q.v.z * q.r)
  let t327 := (q.v.x * q.v.y)
  let t329 := ((2 : α) * (t327 - t326))
  let t331 := ((2 : α) * (t317 - t316))
  let t1946 := (atan2 t331 t311)
  let t1948 := (sin t1946)
  let t1954 := (((-t68) * t66) + ((t66 * t1948) * t68))
  let t1957 := ((t66 * t66) + ((t68 * t1948) * t68))
  let t1958 := ((cos t1946) * t68)
  let t1977 := ((0 : α) * t1958)
  let t1978 := ((0 : α) * t1957)
  let t1981 := ((((1 : α) * t1954) + t1978) + t1977)
  let t1983 := ((0 : α) * t1954)
  let t1985 := ((t1983 + ((1 : α) * t1957)) + t1977)
  let t1987 := (t1983 + t1978)
  let t1988 := (t1987 + ((1 : α) * t1958))
  let t2029 := ((t1987 + t1977) * (0 : α))
  let t2035 := ((((t1981 * ((1 : α) - ((2 : α) * (t307 + t322)))) + (t1985 * t329)) + (t1988 * ((2 : α) * (t317 + t316)))) + t2029)
  let t2041 := ((((t1981 * ((2 : α) * (t327 + t326))) + (t1985 * t325)) + (t1988 * ((2 : α) * (t313 - t312)))) + t2029)
  ⟨(t1946 * (-(1 : α))), ((atan2 (-((((t1981 * t331) + (t1985 * ((2 : α) * (t313 + t312)))) + (t1988 * t311)) + t2029)) (sqrt ((t2041 * t2041) + (t2035 * t2035)))) * (-(1 : α))), ((atan2 t329 t325) * (-(1 : α)))⟩

/-- extracted from the C++ template at T = Sym; 1 path(s) -/
def Euler.ctorXYZLayout_YXZ {α : Type} (v : V3 α) : ((V3 α) × Int) :=
  (⟨v.y, v.x, v.z⟩, (4097 : Int))

/-- extracted from the C++ template at T = Sym; 1 path(s) -/
def Euler.ctorXYZLayoutScalars_YXZ {α : Type} (xi : α) (yi : α) (zi : α) : ((V3 α) × Int) :=
  (⟨yi, xi, zi⟩, (4097 : Int))

/-- extracted from the C++ template at T = Sym; 1 path(s) -/
def Euler.ctorIJKLayout_YXZ {α : Type} (v : V3 α) : ((V3 α) × Int) :=
  (⟨v.x, v.y, v.z⟩, (4097 : Int))

/-- extracted from the C++ template at T = Sym; 1 path(s) -/
def Euler.setXYZVector_YXZ {α : Type} (a : V3 α) (v : V3 α) : (V3 α) :=
  ⟨v.y, v.x, v.z⟩

/-- extracted from the C++ template at T = Sym; 1 path(s) -/
def Euler.toXYZVector_YXZ {α : Type} (a : V3 α) : (V3 α) :=
  ⟨a.y, a.x, a.z⟩

/-- extracted from the C++ template at T = Sym; 1 path(s) -/
def Euler.angleOrder_YXZ {α : Type} : (Int × Int × Int) :=
  ((1 : Int), (0 : Int), (2 : Int))

/-- extracted from the C++ template at T = Sym; 1 path(s) -/
def Euler.angleMapping_YXZ {α : Type} : (Int × Int × Int) :=
  ((1 : Int), (0 : Int), (2 : Int))

/-- extracted from the C++ template at T = Sym; 1 path(s) -/
def Euler.order_YXZ {α : Type} : (Int × Bool × Bool × Bool × Bool × Int) :=
  ((4097 : Int), true, true, false, false, (1 : Int))

/-- extracted from the C++ template at T = Sym; 1 path(s) -/
def Euler.setOrderKeepsAngles_YXZ {α : Type} (a : V3 α) : ((V3 α) × Int) :=
  (⟨a.x, a.y, a.z⟩, (4097 : Int))

/-- extracted from the C++ template at T = Sym; 1 path(s) -/
def Euler.copyAndAssign_YXZ {α : Type} (a : V3 α) (v : V3 α) : ((V3 α) × Int × (V3 α) × Int × (V3 α) × Int) :=
  (⟨a.x, a.y, a.z⟩, (4097 : Int), ⟨a.x, a.y, a.z⟩, (4097 : Int), ⟨v.x, v.y, v.z⟩, (4097 : Int))

/-- extracted from the C++ template at T = Sym; 1 path(s) -/
def Euler.reorderFromXYZ_YXZ {α : Type} [Add α] [Sub α] [Mul α] [Neg α] [OfNat α 0] [OfNat α 1] (sqrt : α → α) (sin : α → α) (cos : α → α) (atan2 : α → α → α) (a : V3 α) : ((V3 α) × Int) :=
  let t4 := (cos a.x)
  let t5 := (cos a.y)
  let t6 := (cos a.z)
  let t7 := (sin a.x)
  let t8 := (sin a.y)
  let t9 := (sin a.z)
  let t10 := (t4 * t6)
  let t11 := (t4 * t9)
  let t12 := (t7 * t6)
  let t13 := (t7 * t9)
  let t17 := ((t8 * t12) - t11)
  let t22 := ((t8 * t13) + t10)
  let t25 := (-t8)
  let t27 := (t5 * t4)
  let t66 := (cos (0 : α))
  let t68 := (sin (0 : α))
  let t2091 := (atan2 t25 t27)
  let t2093 := (sin t2091)
  let t2099 := (((-t68) * t66) + ((t66 * t2093) * t68))
  let t2102 := ((t66 * t66) + ((t68 * t2093) * t68))
  let t2103 := ((cos t2091) * t68)
  let t2122 := ((0 : α) * t2103)
  let t2123 := ((0 : α) * t2102)
  let t2126 := ((((1 : α) * t2099) + t2123) + t2122)
  let t2128 := ((0 : α) * t2099)
  let t2130 := ((t2128 + ((1 : α) * t2102)) + t2122)
  let t2132 := (t2128 + t2123)
  let t2133 := (t2132 + ((1 : α) * t2103))
  let t2174 := ((t2132 + t2122) * (0 : α))
  let t2180 := ((((t2126 * (t5 * t6)) + (t2130 * t17)) + (t2133 * ((t8 * t10) + t13))) + t2174)
  let t2186 := ((((t2126 * (t5 * t9)) + (t2130 * t22)) + (t2133 * ((t8 * t11) - t12))) + t2174)
  (⟨(t2091 * (-(1 : α))), ((atan2 (-((((t2126 * t25) + (t2130 * (t5 * t7))) + (t2133 * t27)) + t2174)) (sqrt ((t2186 * t2186) + (t2180 * t2180)))) * (-(1 : α))), ((atan2 t17 t22) * (-(1 : α)))⟩, (4097 : Int))

/-- extracted from the C++ template at T = Sym; 1 path(s) -/
def Euler.reorderToZYXr_YXZ {α : Type} [Add α] [Sub α] [Mul α] [Neg α] [OfNat α 0] [OfNat α 1] (sqrt : α → α) (sin : α → α) (cos : α → α) (atan2 : α → α → α) (a : V3 α) : ((V3 α) × Int) :=
  let t66 := (cos (0 : α))
  let t68 := (sin (0 : α))
  let t70 := (t66 * t66)
  let t71 := (t68 * t66)
  let t72 := (-t68)
  let t89 := ((0 : α) * t72)
  let t90 := ((0 : α) * t71)
  let t93 := ((((1 : α) * t70) + t90) + t89)
  let t95 := ((0 : α) * t70)
  let t97 := ((t95 + ((1 : α) * t71)) + t89)
  let t99 := (t95 + t90)
  let t100 := (t99 + ((1 : α) * t72))
  let t128 := ((t99 + t89) * (0 : α))
  let t622 := (a.x * (-(1 : α)))
  let t623 := (a.y * (-(1 : α)))
  let t624 := (a.z * (-(1 : α)))
  let t625 := (cos t622)
  let t626 := (cos t623)
  let t627 := (cos t624)
  let t628 := (sin t622)
  let t629 := (sin t623)
  let t630 := (sin t624)
  let t631 := (t625 * t627)
  let t632 := (t625 * t630)
  let t633 := (t628 * t627)
  let t634 := (t628 * t630)
  let t637 := ((t629 * t633) - t632)
  let t642 := ((t629 * t634) + t631)
  let t645 := (-t629)
  let t647 := (t626 * t625)
  let t2285 := ((((t93 * t642) + (t97 * (t626 * t630))) + (t100 * ((t629 * t632) - t633))) + t128)
  let t2291 := ((((t93 * t637) + (t97 * (t626 * t627))) + (t100 * ((t629 * t631) + t634))) + t128)
  (⟨(atan2 t637 t642), (atan2 (-((((t93 * (t626 * t628)) + (t97 * t645)) + (t100 * t647)) + t128)) (sqrt ((t2285 * t2285) + (t2291 * t2291)))), (atan2 t645 t647)⟩, (256 : Int))

/-- extracted from the C++ template at T = Sym; 1 path(s) -/
def Euler.toMatrix33_ZXY {α : Type} [Add α] [Sub α] [Mul α] [Neg α] (sin : α → α) (cos : α → α) (a : V3 α) : (M33 α) :=
  let t4 := (cos a.x)
  let t5 := (cos a.y)
  let t6 := (cos a.z)
  let t7 := (sin a.x)
  let t8 := (sin a.y)
  let t9 := (sin a.z)
  let t10 := (t4 * t6)
  let t11 := (t4 * t9)
  let t12 := (t7 * t6)
  let t13 := (t7 * t9)
  ⟨((t8 * t13) + t10), (t5 * t7), ((t8 * t12) - t11), ((t8 * t11) - t12), (t5 * t4), ((t8 * t10) + t13), (t5 * t9), (-t8), (t5 * t6)⟩

/-- extracted from the C++ template at T = Sym; 1 path(s) -/
def Euler.toMatrix44_ZXY {α : Type} [Add α] [Sub α] [Mul α] [Neg α] [OfNat α 0] [OfNat α 1] (sin : α → α) (cos : α → α) (a : V3 α) : (M44 α) :=
  let t4 := (cos a.x)
  let t5 := (cos a.y)
  let t6 := (cos a.z)
  let t7 := (sin a.x)
  let t8 := (sin a.y)
  let t9 := (sin a.z)
  let t10 := (t4 * t6)
  let t11 := (t4 * t9)
  let t12 := (t7 * t6)
  let t13 := (t7 * t9)
  ⟨((t8 * t13) + t10), (t5 * t7), ((t8 * t12) - t11), (0 : α), ((t8 * t11) - t12), (t5 * t4), ((t8 * t10) + t13), (0 : α), (t5 * t9), (-t8), (t5 * t6), (0 : α), (0 : α), (0 : α), (0 : α), (1 : α)⟩

/-- extracted from the C++ template at T = Sym; 1 path(s) -/
def Euler.toQuat_ZXY {α : Type} [Add α] [Sub α] [Mul α] [Div α] [OfNat α 1] [OfNat α 2] (sin : α → α) (cos : α → α) (a : V3 α) : (Quat α) :=
  let t29 := (a.x * ((1 : α) / (2 : α)))
  let t30 := (a.y * ((1 : α) / (2 : α)))
  let t31 := (a.z * ((1 : α) / (2 : α)))
  let t32 := (cos t29)
  let t33 := (cos t30)
  let t34 := (cos t31)
  let t35 := (sin t29)
  let t36 := (sin t30)
  let t37 := (sin t31)
  let t38 := (t32 * t34)
  let t39 := (t32 * t37)
  let t40 := (t35 * t34)
  let t41 := (t35 * t37)
  ⟨((t33 * t38) + (t36 * t41)), ⟨(((t33 * t41) + (t36 * t38)) * (1 : α)), ((t33 * t39) - (t36 * t40)), ((t33 * t40) - (t36 * t39))⟩⟩

/-- extracted from the C++ template at T = Sym; 1 path(s) -/
def Euler.extractM33_ZXY {α : Type} [Add α] [Mul α] [Neg α] [OfNat α 0] [OfNat α 1] (sqrt : α → α) (sin : α → α) (cos : α → α) (atan2 : α → α → α) (m : M33 α) : (V3 α) :=
  let t66 := (cos (0 : α))
  let t68 := (sin (0 : α))
  let t70 := (t66 * t66)
  let t72 := (-t68)
  let t95 := ((0 : α) * t70)
  let t2366 := (atan2 m.x01 m.x11)
  let t2367 := (-t2366)
  let t2368 := (cos t2367)
  let t2369 := (sin t2367)
  let t2382 := (((-t2369) * t72) + ((t2368 * t68) * t66))
  let t2385 := ((t2368 * t72) + ((t2369 * t68) * t66))
  let t2410 := ((0 : α) * t2385)
  let t2413 := ((((1 : α) * t2382) + t2410) + t95)
  let t2415 := ((0 : α) * t2382)
  let t2417 := ((t2415 + ((1 : α) * t2385)) + t95)
  let t2418 := (t2415 + t2410)
  let t2419 := (t2418 + ((1 : α) * t70))
  let t2473 := ((t2418 + t95) * (0 : α))
  let t2479 := ((((t2413 * m.x00) + (t2417 * m.x10)) + (t2419 * m.x20)) + t2473)
  let t2491 := ((((t2413 * m.x02) + (t2417 * m.x12)) + (t2419 * m.x22)) + t2473)
  ⟨t2366, (atan2 (-((((t2413 * m.x01) + (t2417 * m.x11)) + (t2419 * m.x21)) + t2473)) (sqrt ((t2491 * t2491) + (t2479 * t2479)))), (atan2 m.x20 m.x22)⟩

/-- extracted from the C++ template at T = Sym; 1 path(s) -/
def Euler.extractM44_ZXY {α : Type} [Add α] [Mul α] [Neg α] [OfNat α 0] [OfNat α 1] (sqrt : α → α) (sin : α → α) (cos : α → α) (atan2 : α → α → α) (m : M44 α) : (V3 α) :=
  let t66 := (cos (0 : α))
  let t68 := (sin (0 : α))
  let t70 := (t66 * t66)
  let t72 := (-t68)
  let t95 := ((0 : α) * t70)
  let t2366 := (atan2 m.x01 m.x11)
  let t2367 := (-t2366)
  let t2368 := (cos t2367)
  let t2369 := (sin t2367)
  let t2382 := (((-t2369) * t72) + ((t2368 * t68) * t66))
  let t2385 := ((t2368 * t72) + ((t2369 * t68) * t66))
  let t2410 := ((0 : α) * t2385)
  let t2413 := ((((1 : α) * t2382) + t2410) + t95)
  let t2415 := ((0 : α) * t2382)
  let t2417 := ((t2415 + ((1 : α) * t2385)) + t95)
  let t2418 := (t2415 + t2410)
  let t2419 := (t2418 + ((1 : α) * t70))
  let t2420 := (t2418 + t95)
  let t2533 := ((((t2413 * m.x00) + (t2417 * m.x10)) + (t2419 * m.x20)) + (t2420 * m.x30))
  let t2537 := ((((t2413 * m.x02) + (t2417 * m.x12)) + (t2419 * m.x22)) + (t2420 * m.x32))
  ⟨t2366, (atan2 (-((((t2413 * m.x01) + (t2417 * m.x11)) + (t2419 * m.x21)) + (t2420 * m.x31))) (sqrt ((t2537 * t2537) + (t2533 * t2533)))), (atan2 m.x20 m.x22)⟩

/-- extracted from the C++ template at T = Sym; 1 path(s) -/
def Euler.ctorM33_ZXY {α : Type} [Add α] [Mul α] [Neg α] [OfNat α 0] [OfNat α 1] (sqrt : α → α) (sin : α → α) (cos : α → α) (atan2 : α → α → α) (m : M33 α) : ((V3 α) × Int) :=
  let t66 := (cos (0 : α))
  let t68 := (sin (0 : α))
  let t70 := (t66 * t66)
  let t72 := (-t68)
  let t95 := ((0 : α) * t70)
  let t2366 := (atan2 m.x01 m.x11)
  let t2367 := (-t2366)
  let t2368 := (cos t2367)
  let t2369 := (sin t2367)
  let t2382 := (((-t2369) * t72) + ((t2368 * t68) * t66))
  let t2385 := ((t2368 * t72) + ((t2369 * t68) * t66))
  let t2410 := ((0 : α) * t2385)
  let t2413 := ((((1 : α) * t2382) + t2410) + t95)
  let t2415 := ((0 : α) * t2382)
  let t2417 := ((t2415 + ((1 : α) * t2385)) + t95)
  let t2418 := (t2415 + t2410)
  let t2419 := (t2418 + ((1 : α) * t70))
  let t2473 := ((t2418 + t95) * (0 : α))
  let t2479 := ((((t2413 * m.x00) + (t2417 * m.x10)) + (t2419 * m.x20)) + t2473)
  let t2491 := ((((t2413 * m.x02) + (t2417 * m.x12)) + (t2419 * m.x22)) + t2473)
  (⟨t2366, (atan2 (-((((t2413 * m.x01) + (t2417 * m.x11)) + (t2419 * m.x21)) + t2473)) (sqrt ((t2491 * t2491) + (t2479 * t2479)))), (atan2 m.x20 m.x22)⟩, (8449 : Int))

/-- extracted from the C++ template at T = Sym; 1 path(s) -/
def Euler.ctorM44_ZXY {α : Type} [Add α] [Mul α] [Neg α] [OfNat α 0] [OfNat α 1] (sqrt : α → α) (sin : α → α) (cos : α → α) (atan2 : α → α → α) (m : M44 α) : ((V3 α) × Int) :=
  let t66 := (cos (0 : α))
  let t68 := (sin (0 : α))
  let t70 := (t66 * t66)
  let t72 := (-t68)
  let t95 := ((0 : α) * t70)
  let t2366 := (atan2 m.x01 m.x11)
  let t2367 := (-t2366)
  let t2368 := (cos t2367)
  let t2369 := (sin t2367)
  let t2382 := (((-t2369) * t72) + ((t2368 * t68) * t66))
  let t2385 := ((t2368 * t72) + ((t2369 * t68) * t66))
  let t2410 := ((0 : α) * t2385)
  let t2413 := ((((1 : α) * t2382) + t2410) + t95)
  let t2415 := ((0 : α) * t2382)
  let t2417 := ((t2415 + ((1 : α) * t2385)) + t95)
  let t2418 := (t2415 + t2410)
  let t2419 := (t2418 + ((1 : α) * t70))
  let t2420 := (t2418 + t95)
  let t2533 := ((((t2413 * m.x00) + (t2417 * m.x10)) + (t2419 * m.x20)) + (t2420 * m.x30))
  let t2537 := ((((t2413 * m.x02) + (t2417 * m.x12)) + (t2419 * m.x22)) + (t2420 * m.x32))
  (⟨t2366, (atan2 (-((((t2413 * m.x01) + (t2417 * m.x11)) + (t2419 * m.x21)) + (t2420 * m.x31))) (sqrt ((t2537 * t2537) + (t2533 * t2533)))), (atan2 m.x20 m.x22)⟩, (8449 : Int))

/-- extracted from the C++ template at T = Sym; 1 path(s) -/
def Euler.extractQuat_ZXY {α : Type} [Add α] [Sub α] [Mul α] [Neg α] [OfNat α 0] [OfNat α 1] [OfNat α 2] (sqrt : α → α) (sin : α → α) (cos : α → α) (atan2 : α → α → α) (q : Quat α) : (V3 α) :=
  let t66 := (cos (0 : α))
  let t68 := (sin (0 : α))
  let t70 := (t66 * t66)
  let t72 := (-t68)
  let t95 := ((0 : α) * t70)
  let t306 := (q.v.x * q.v.x)
  let t307 := (q.v.y * q.v.y)
  let t311 := ((1 : α) - ((2 : α) * (t307 + t306)))
  let t312 := (q.v.x * q.r)
  let t313 := (q.v.y * q.v.z)
  let t316 := (q.v.y * q.r)
  let t317 := (q.v.z * q.v.x)
  let t319 := ((2 : α) * (t317 + t316))
  let t322 := (q.v.z * q.v.z)
  let t325 := ((1 : α) - ((2 : α) * (t322 + t306)))
  let t326 := (q.v.z * q.r)
  let t327 := (q.v.x * q.v.y)
  let t333 := ((2 : α) * (t327 + t326))
  let t2551 := (atan2 t333 t325)
  let t2552 := (-t2551)
  let t2553 := (cos t2552)
  let t2554 := (sin t2552)
  let t2567 := (((-t2554) * t72) + ((t2553 * t68) * t66))
  let t2570 := ((t2553 * t72) + ((t2554 * t68) * t66))
  let t2593 := ((0 : α) * t2570)
  let t2596 := ((((1 : α) * t2567) + t2593) + t95)
  let t2598 := ((0 : α) * t2567)
  let t2600 := ((t2598 + ((1 : α) * t2570)) + t95)
  let t2601 := (t2598 + t2593)
  let t2602 := (t2601 + ((1 : α) * t70))
  let t2656 := ((t2601 + t95) * (0 : α))
  let t2662 := ((((t2596 * ((1 : α) - ((2 : α) * (t307 + t322)))) + (t2600 * ((2 : α) * (t327 - t326)))) + (t2602 * t319)) + t2656)
  let t2674 := ((((t2596 * ((2 : α) * (t317 - t316))) + (t2600 * ((2 : α) * (t313 + t312)))) + (t2602 * t311)) + t2656)
  ⟨t2551, (atan2 (-((((t2596 * t333) + (t2600 * t325)) + (t2602 * ((2 : α) * (t313 - t312)))) + t2656)) (sqrt ((t2674 * t2674) + (t2662 * t2662)))), (atan2 t319 t311)⟩

/-- extracted from the C++ template at T = Sym; 1 path(s) -/
def Euler.ctorXYZLayout_ZXY {α : Type} (v : V3 α) : ((V3 α) × Int) :=
  (⟨v.z, v.x, v.y⟩, (8449 : Int))

/-- extracted from the C++ template at T = Sym; 1 path(s) -/
def Euler.ctorXYZLayoutScalars_ZXY {α : Type} (xi : α) (yi : α) (zi : α) : ((V3 α) × Int) :=
  (⟨zi, xi, yi⟩, (8449 : Int))

/-- extracted from the C++ template at T = Sym; 1 path(s) -/
def Euler.ctorIJKLayout_ZXY {α : Type} (v : V3 α) : ((V3 α) × Int) :=
  (⟨v.x, v.y, v.z⟩, (8449 : Int))

/-- extracted from the C++ template at T = Sym; 1 path(s) -/
def Euler.setXYZVector_ZXY {α : Type} (a : V3 α) (v : V3 α) : (V3 α) :=
  ⟨v.z, v.x, v.y⟩

/-- extracted from the C++ template at T = Sym; 1 path(s) -/
def Euler.toXYZVector_ZXY {α : Type} (a : V3 α) : (V3 α) :=
  ⟨a.y, a.z, a.x⟩

/-- extracted from the C++ template at T = Sym; 1 path(s) -/
def Euler.angleOrder_ZXY {α : Type} : (Int × Int × Int) :=
  ((2 : Int), (0 : Int), (1 : Int))

/-- extracted from the C++ template at T = Sym; 1 path(s) -/
def Euler.angleMapping_ZXY {α : Type} : (Int × Int × Int) :=
  ((1 : Int), (2 : Int), (0 : Int))

/-- extracted from the C++ template at T = Sym; 1 path(s) -/
def Euler.order_ZXY {α : Type} : (Int × Bool × Bool × Bool × Bool × Int) :=
  ((8449 : Int), true, true, false, true, (2 : Int))

/-- extracted from the C++ template at T = Sym; 1 path(s) -/
def Euler.setOrderKeepsAngles_ZXY {α : Type} (a : V3 α) : ((V3 α) × Int) :=
  (⟨a.x, a.y, a.z⟩, (8449 : Int))

/-- extracted from the C++ template at T = Sym; 1 path(s) -/
def Euler.copyAndAssign_ZXY {α : Type} (a : V3 α) (v : V3 α) : ((V3 α) × Int × (V3 α) × Int × (V3 α) × Int) :=
  (⟨a.x, a.y, a.z⟩, (8449 : Int), ⟨a.x, a.y, a.z⟩, (8449 : Int), ⟨v.x, v.y, v.z⟩, (8449 : Int))

/-- extracted from the C++ template at T = Sym; 1 path(s) -/
def Euler.reorderFromXYZ_ZXY {α : Type} [Add α] [Sub α] [Mul α] [Neg α] [OfNat α 0] [OfNat α 1] (sqrt : α → α) (sin : α → α) (cos : α → α) (atan2 : α → α → α) (a : V3 α) : ((V3 α) × Int) :=
  let t4 := (cos a.x)
  let t5 := (cos a.y)
  let t6 := (cos a.z)
  let t7 := (sin a.x)
  let t8 := (sin a.y)
  let t9 := (sin a.z)
  let t10 := (t4 * t6)
  let t11 := (t4 * t9)
  let t12 := (t7 * t6)
  let t13 := (t7 * t9)
  let t19 := ((t8 * t10) + t13)
  let t20 := (t5 * t9)
  let t22 := ((t8 * t13) + t10)
  let t27 := (t5 * t4)
  let t66 := (cos (0 : α))
  let t68 := (sin (0 : α))
  let t70 := (t66 * t66)
  let t72 := (-t68)
  let t95 := ((0 : α) * t70)
  let t1625 := (atan2 t20 t22)
  let t1626 := (-t1625)
  let t1627 := (cos t1626)
  let t1628 := (sin t1626)
  let t2700 := (((-t1628) * t72) + ((t1627 * t68) * t66))
  let t2703 := ((t1627 * t72) + ((t1628 * t68) * t66))
  let t2726 := ((0 : α) * t2703)
  let t2729 := ((((1 : α) * t2700) + t2726) + t95)
  let t2731 := ((0 : α) * t2700)
  let t2733 := ((t2731 + ((1 : α) * t2703)) + t95)
  let t2734 := (t2731 + t2726)
  let t2735 := (t2734 + ((1 : α) * t70))
  let t2789 := ((t2734 + t95) * (0 : α))
  let t2795 := ((((t2729 * (t5 * t6)) + (t2733 * ((t8 * t12) - t11))) + (t2735 * t19)) + t2789)
  let t2807 := ((((t2729 * (-t8)) + (t2733 * (t5 * t7))) + (t2735 * t27)) + t2789)
  (⟨t1625, (atan2 (-((((t2729 * t20) + (t2733 * t22)) + (t2735 * ((t8 * t11) - t12))) + t2789)) (sqrt ((t2807 * t2807) + (t2795 * t2795)))), (atan2 t19 t27)⟩, (8449 : Int))

/-- extracted from the C++ template at T = Sym; 1 path(s) -/
def Euler.reorderToZYXr_ZXY {α : Type} [Add α] [Sub α] [Mul α] [Neg α] [OfNat α 0] [OfNat α 1] (sqrt : α → α) (sin : α → α) (cos : α → α) (atan2 : α → α → α) (a : V3 α) : ((V3 α) × Int) :=
  let t4 := (cos a.x)
  let t5 := (cos a.y)
  let t6 := (cos a.z)
  let t7 := (sin a.x)
  let t8 := (sin a.y)
  let t9 := (sin a.z)
  let t10 := (t4 * t6)
  let t11 := (t4 * t9)
  let t12 := (t7 * t6)
  let t13 := (t7 * t9)
  let t15 := (t5 * t6)
  let t19 := ((t8 * t10) + t13)
  let t22 := ((t8 * t13) + t10)
  let t26 := (t5 * t7)
  let t66 := (cos (0 : α))
  let t68 := (sin (0 : α))
  let t70 := (t66 * t66)
  let t71 := (t68 * t66)
  let t72 := (-t68)
  let t89 := ((0 : α) * t72)
  let t90 := ((0 : α) * t71)
  let t93 := ((((1 : α) * t70) + t90) + t89)
  let t95 := ((0 : α) * t70)
  let t97 := ((t95 + ((1 : α) * t71)) + t89)
  let t99 := (t95 + t90)
  let t100 := (t99 + ((1 : α) * t72))
  let t128 := ((t99 + t89) * (0 : α))
  let t2861 := ((((t93 * t22) + (t97 * ((t8 * t11) - t12))) + (t100 * (t5 * t9))) + t128)
  let t2867 := ((((t93 * t26) + (t97 * (t5 * t4))) + (t100 * (-t8))) + t128)
  (⟨(atan2 t26 t22), (atan2 (-((((t93 * ((t8 * t12) - t11)) + (t97 * t19)) + (t100 * t15)) + t128)) (sqrt ((t2861 * t2861) + (t2867 * t2867)))), (atan2 t19 t15)⟩, (256 : Int))

/-- extracted from the C++ template at T = Sym; 1 path(s) -/
def Euler.toMatrix33_ZYX {α : Type} [Add α] [Sub α] [Mul α] [Neg α] [OfNat α 1] (sin : α → α) (cos : α → α) (a : V3 α) : (M33 α) :=
  let t622 := (a.x * (-(1 : α)))
  let t623 := (a.y * (-(1 : α)))
  let t624 := (a.z * (-(1 : α)))
  let t625 := (cos t622)
  let t626 := (cos t623)
  let t627 := (cos t624)
  let t628 := (sin t622)
  let t629 := (sin t623)
  let t630 := (sin t624)
  let t631 := (t625 * t627)
  let t632 := (t625 * t630)
  let t633 := (t628 * t627)
  let t634 := (t628 * t630)
  ⟨(t626 * t625), ((t629 * t632) - t633), ((t629 * t631) + t634), (t626 * t628), ((t629 * t634) + t631), ((t629 * t633) - t632), (-t629), (t626 * t630), (t626 * t627)⟩

/-- extracted from the C++ template at T = Sym; 1 path(s) -/
def Euler.toMatrix44_ZYX {α : Type} [Add α] [Sub α] [Mul α] [Neg α] [OfNat α 0] [OfNat α 1] (sin : α → α) (cos : α → α) (a : V3 α) : (M44 α) :=
  let t622 := (a.x * (-(1 : α)))
  let t623 := (a.y * (-(1 : α)))
  let t624 := (a.z * (-(1 : α)))
  let t625 := (cos t622)
  let t626 := (cos t623)
  let t627 := (cos t624)
  let t628 := (sin t622)
  let t629 := (sin t623)
  let t630 := (sin t624)
  let t631 := (t625 * t627)
  let t632 := (t625 * t630)
  let t633 := (t628 * t627)
  let t634 := (t628 * t630)
  ⟨(t626 * t625), ((t629 * t632) - t633), ((t629 * t631) + t634), (0 : α), (t626 * t628), ((t629 * t634) + t631), ((t629 * t633) - t632), (0 : α), (-t629), (t626 * t630), (t626 * t627), (0 : α), (0 : α), (0 : α), (0 : α), (1 : α)⟩

/-- extracted from the C++ template at T = Sym; 1 path(s) -/
def Euler.toQuat_ZYX {α : Type} [Add α] [Sub α] [Mul α] [Div α] [Neg α] [OfNat α 1] [OfNat α 2] (sin : α → α) (cos : α → α) (a : V3 α) : (Quat α) :=
  let t29 := (a.x * ((1 : α) / (2 : α)))
  let t31 := (a.z * ((1 : α) / (2 : α)))
  let t32 := (cos t29)
  let t34 := (cos t31)
  let t35 := (sin t29)
  let t37 := (sin t31)
  let t38 := (t32 * t34)
  let t39 := (t32 * t37)
  let t40 := (t35 * t34)
  let t41 := (t35 * t37)
  let t649 := ((-a.y) * ((1 : α) / (2 : α)))
  let t650 := (cos t649)
  let t651 := (sin t649)
  ⟨((t650 * t38) + (t651 * t41)), ⟨((t650 * t39) - (t651 * t40)), (((t650 * t41) + (t651 * t38)) * (-(1 : α))), ((t650 * t40) - (t651 * t39))⟩⟩

/-- extracted from the C++ template at T = Sym; 1 path(s) -/
def Euler.extractM33_ZYX {α : Type} [Add α] [Mul α] [Neg α] [OfNat α 0] [OfNat α 1] (sqrt : α → α) (sin : α → α) (cos : α → α) (atan2 : α → α → α) (m : M33 α) : (V3 α) :=
  let t66 := (cos (0 : α))
  let t68 := (sin (0 : α))
  let t70 := (t66 * t66)
  let t72 := (-t68)
  let t95 := ((0 : α) * t70)
  let t2941 := (atan2 m.x10 m.x00)
  let t2942 := (cos t2941)
  let t2943 := (sin t2941)
  let t2956 := (((-t2943) * t72) + ((t2942 * t68) * t66))
  let t2959 := ((t2942 * t72) + ((t2943 * t68) * t66))
  let t2982 := ((0 : α) * t2959)
  let t2985 := ((((1 : α) * t2956) + t2982) + t95)
  let t2987 := ((0 : α) * t2956)
  let t2989 := ((t2987 + ((1 : α) * t2959)) + t95)
  let t2990 := (t2987 + t2982)
  let t2991 := (t2990 + ((1 : α) * t70))
  let t3045 := ((t2990 + t95) * (0 : α))
  let t3057 := ((((t2985 * m.x01) + (t2989 * m.x11)) + (t2991 * m.x21)) + t3045)
  let t3063 := ((((t2985 * m.x02) + (t2989 * m.x12)) + (t2991 * m.x22)) + t3045)
  ⟨(t2941 * (-(1 : α))), ((atan2 (-((((t2985 * m.x00) + (t2989 * m.x10)) + (t2991 * m.x20)) + t3045)) (sqrt ((t3063 * t3063) + (t3057 * t3057)))) * (-(1 : α))), ((atan2 m.x21 m.x22) * (-(1 : α)))⟩

/-- extracted from the C++ template at T = Sym; 1 path(s) -/
def Euler.extractM44_ZYX {α : Type} [Add α] [Mul α] [Neg α] [OfNat α 0] [OfNat α 1] (sqrt : α → α) (sin : α → α) (cos : α → α) (atan2 : α → α → α) (m : M44 α) : (V3 α) :=
  let t66 := (cos (0 : α))
  let t68 := (sin (0 : α))
  let t70 := (t66 * t66)
  let t72 := (-t68)
  let t95 := ((0 : α) * t70)
  let t2941 := (atan2 m.x10 m.x00)
  let t2942 := (cos t2941)
  let t2943 := (sin t2941)
  let t2956 := (((-t2943) * t72) + ((t2942 * t68) * t66))
  let t2959 := ((t2942 * t72) + ((t2943 * t68) * t66))
  let t2982 := ((0 : α) * t2959)
  let t2985 := ((((1 : α) * t2956) + t2982) + t95)
  let t2987 := ((0 : α) * t2956)
  let t2989 := ((t2987 + ((1 : α) * t2959)) + t95)
  let t2990 := (t2987 + t2982)
  let t2991 := (t2990 + ((1 : α) * t70))
  let t2992 := (t2990 + t95)
  let t3110 := ((((t2985 * m.x01) + (t2989 * m.x11)) + (t2991 * m.x21)) + (t2992 * m.x31))
  let t3112 := ((((t2985 * m.x02) + (t2989 * m.x12)) + (t2991 * m.x22)) + (t2992 * m.x32))
  ⟨(t2941 * (-(1 : α))), ((atan2 (-((((t2985 * m.x00) + (t2989 * m.x10)) + (t2991 * m.x20)) + (t2992 * m.x30))) (sqrt ((t3112 * t3112) + (t3110 * t3110)))) * (-(1 : α))), ((atan2 m.x21 m.x22) * (-(1 : α)))⟩

/-- extracted from the C++ template at T = Sym; 1 path(s) -/
def Euler.ctorM33_ZYX {α : Type} [Add α] [Mul α] [Neg α] [OfNat α 0] [OfNat α 1] (sqrt : α → α) (sin : α → α) (cos : α → α) (atan2 : α → α → α) (m : M33 α) : ((V3 α) × Int) :=
  let t66 := (cos (0 : α))
  let t68 := (sin (0 : α))
  let t70 := (t66 * t66)
  let t72 := (-t68)
  let t95 := ((0 : α) * t70)
  let t2941 := (atan2 m.x10 m.x00)
  let t2942 := (cos t2941)
  let t2943 := (sin t2941)
  let t2956 := (((-t2943) * t72) + ((t2942 * t68) * t66))
  let t2959 := ((t2942 * t72) + ((t2943 * t68) * t66))
  let t2982 := ((0 : α) * t2959)
  let t2985 := ((((1 : α) * t2956) + t2982) + t95)
  let t2987 := ((0 : α) * t2956)
  let t2989 := ((t2987 + ((1 : α) * t2959)) + t95)
  let t2990 := (t2987 + t2982)
  let t2991 := (t2990 + ((1 : α) * t70))
  let t3045 := ((t2990 + t95) * (0 : α))
  let t3057 := ((((t2985 * m.x01) + (t2989 * m.x11)) + (t2991 * m.x21)) + t3045)
  let t3063 := ((((t2985 * m.x02) + (t2989 * m.x12)) + (t2991 * m.x22)) + t3045)
  (⟨(t2941 * (-(1 : α))), ((atan2 (-((((t2985 * m.x00) + (t2989 * m.x10)) + (t2991 * m.x20)) + t3045)) (sqrt ((t3063 * t3063) + (t3057 * t3057)))) * (-(1 : α))), ((atan2 m.x21 m.x22) * (-(1 : α)))⟩, (8193 : Int))

/-- extracted from the C++ template at T = Sym; 1 path(s) -/
def Euler.ctorM44_ZYX {α : Type} [Add α] [Mul α] [Neg α] [OfNat α 0] [OfNat α 1] (sqrt : α → α) (sin : α → α) (cos : α → α) (atan2 : α → α → α) (m : M44 α) : ((V3 α) × Int) :=
  let t66 := (cos (0 : α))
  let t68 := (sin (0 : α))
  let t70 := (t66 * t66)
  let t72 := (-t68)
  let t95 := ((0 : α) * t70)
  let t2941 := (atan2 m.x10 m.x00)
  let t2942 := (cos t2941)
  let t2943 := (sin t2941)
  let t2956 := (((-t2943) * t72) + ((t2942 * t68) * t66))
  let t2959 := ((t2942 * t72) + ((t2943 * t68) * t66))
  let t2982 := ((0 : α) * t2959)
  let t2985 := ((((1 : α) * t2956) + t2982) + t95)
  let t2987 := ((0 : α) * t2956)
  let t2989 := ((t2987 + ((1 : α) * t2959)) + t95)
  let t2990 := (t2987 + t2982)
  let t2991 := (t2990 + ((1 : α) * t70))
  let t2992 := (t2990 + t95)
  let t3110 := ((((t2985 * m.x01) + (t2989 * m.x11)) + (t2991 * m.x21)) + (t2992 * m.x31))
  let t3112 := ((((t2985 * m.x02) + (t2989 * m.x12)) + (t2991 * m.x22)) + (t2992 * m.x32))
  (⟨(t2941 * (-(1 : α))), ((atan2 (-((((t2985 * m.x00) + (t2989 * m.x10)) + (t2991 * m.x20)) + (t2992 * m.x30))) (sqrt ((t3112 * t3112) + (t3110 * t3110)))) * (-(1 : α))), ((atan2 m.x21 m.x22) * (-(1 : α)))⟩, (8193 : Int))

/-- extracted from the C++ template at T = Sym; 1 path(s) -/
def Euler.extractQuat_ZYX {α : Type} [Add α] [Sub α] [Mul α] [Neg α] [OfNat α 0] [OfNat α 1] [OfNat α 2] (sqrt : α → α) (sin : α → α) (cos : α → α) (atan2 : α → α → α) (q : Quat α) : (V3 α) :=
  let t66 := (cos (0 : α))
  let t68 := (sin (0 : α))
  let t70 := (t66 * t66)
  let t72 := (-t68)
  let t95 := ((0 : α) * t70)
  let t306 := (q.v.x * q.v.x)
  let t307 := (q.v.y * q.v.y)
  let t311 := ((1 : α) - ((2 : α) * (t307 + t306)))
  let t312 := (q.v.x * q.r)
  let t313 := (q.v.y * q.v.z)
  let t315 := ((2 : α) * (t313 - t312))
  let t316 := (q.v.y * q.r)
  let t317 := (q.v.z * q.v.x)
  let t322 := (q.v.z * q.v.z)
  let t326 := (q.v.z * q.r)
  let t327 := (q.v.x * q.v.y)
  let t329 := ((2 : α) * (t327 - t326))
  let t336 := ((1 : α) - ((2 : α) * (t307 + t322)))
  let t3127 := (atan2 t329 t336)
  let t3128 := (cos t3127)
  let t3129 := (sin t3127)
  let t3142 := (((-t3129) * t72) + ((t3128 * t68) * t66))
  let t3145 := ((t3128 * t72) + ((t3129 * t68) * t66))
  let t3168 := ((0 : α) * t3145)
  let t3171 := ((((1 : α) * t3142) + t3168) + t95)
  let t3173 := ((0 : α) * t3142)
  let t3175 := ((t3173 + ((1 : α) * t3145)) + t95)
  let t3176 := (t3173 + t3168)
  let t3177 := (t3176 + ((1 : α) * t70))
  let t3231 := ((t3176 + t95) * (0 : α))
  let t3243 := ((((t3171 * ((2 : α) * (t327 + t326))) + (t3175 * ((1 : α) - ((2 : α) * (t322 + t306))))) + (t3177 * t315)) + t3231)
  let t3249 := ((((t3171 * ((2 : α) * (t317 - t316))) + (t3175 * ((2 : α) * (t313 + t312)))) + (t3177 * t311)) + t3231)
  ⟨(t3127 * (-(1 : α))), ((atan2 (-((((t3171 * t336) + (t3175 * t329)) + (t3177 * ((2 : α) * (t317 + t316)))) + t3231)) (sqrt ((t3249 * t3249) + (t3243 * t3243)))) * (-(1 : α))), ((atan2 t315 t311) * (-(1 : α)))⟩

/-- extracted from the C++ template at T = Sym; 1 path(s) -/
def Euler.ctorXYZLayout_ZYX {α : Type} (v : V3 α) : ((V3 α) × Int) :=
  (⟨v.z, v.y, v.x⟩, (8193 : Int))

/-- extracted from the C++ template at T = Sym; 1 path(s) -/
def Euler.ctorXYZLayoutScalars_ZYX {α : Type} (xi : α) (yi : α) (zi : α) : ((V3 α) × Int) :=
  (⟨zi, yi, xi⟩, (8193 : Int))

/-- extracted from the C++ template at T = Sym; 1 path(s) -/
def Euler.ctorIJKLayout_ZYX {α : Type} (v : V3 α) : ((V3 α) × Int) :=
  (⟨v.x, v.y, v.z⟩, (8193 : Int))

/-- extracted from the C++ template at T = Sym; 1 path(s) -/
def Euler.setXYZVector_ZYX {α : Type} (a : V3 α) (v : V3 α) : (V3 α) :=
  ⟨v.z, v.y, v.x⟩

/-- extracted from the C++ template at T = Sym; 1 path(s) -/
def Euler.toXYZVector_ZYX {α : Type} (a : V3 α) : (V3 α) :=
  ⟨a.z, a.y, a.x⟩

/-- extracted from the C++ template at T = Sym; 1 path(s) -/
def Euler.angleOrder_ZYX {α : Type} : (Int × Int × Int) :=
  ((2 : Int), (1 : Int), (0 : Int))

/-- extracted from the C++ template at T = Sym; 1 path(s) -/
def Euler.angleMapping_ZYX {α : Type} : (Int × Int × Int) :=
  ((2 : Int), (1 : Int), (0 : Int))

/-- extracted from the C++ template at T = Sym; 1 path(s) -/
def Euler.order_ZYX {α : Type} : (Int × Bool × Bool × Bool × Bool × Int) :=
  ((8193 : Int), true, true, false, false, (2 : Int))

/-- extracted from the C++ template at T = Sym; 1 path(s) -/
def Euler.setOrderKeepsAngles_ZYX {α : Type} (a : V3 α) : ((V3 α) × Int) :=
  (⟨a.x, a.y, a.z⟩, (8193 : Int))

/-- extracted from the C++ template at T = Sym; 1 path(s) -/
def Euler.copyAndAssign_ZYX {α : Type} (a : V3 α) (v : V3 α) : ((V3 α) × Int × (V3 α) × Int × (V3 α) × Int) :=
  (⟨a.x, a.y, a.z⟩, (8193 : Int), ⟨a.x, a.y, a.z⟩, (8193 : Int), ⟨v.x, v.y, v.z⟩, (8193 : Int))

/-- extracted from the C++ template at T = Sym; 1 path(s) -/
def Euler.reorderFromXYZ_ZYX {α : Type} [Add α] [Sub α] [Mul α] [Neg α] [OfNat α 0] [OfNat α 1] (sqrt : α → α) (sin : α → α) (cos : α → α) (atan2 : α → α → α) (a : V3 α) : ((V3 α) × Int) :=
  let t4 := (cos a.x)
  let t5 := (cos a.y)
  let t6 := (cos a.z)
  let t7 := (sin a.x)
  let t8 := (sin a.y)
  let t9 := (sin a.z)
  let t10 := (t4 * t6)
  let t11 := (t4 * t9)
  let t12 := (t7 * t6)
  let t13 := (t7 * t9)
  let t15 := (t5 * t6)
  let t17 := ((t8 * t12) - t11)
  let t24 := ((t8 * t11) - t12)
  let t27 := (t5 * t4)
  let t66 := (cos (0 : α))
  let t68 := (sin (0 : α))
  let t70 := (t66 * t66)
  let t72 := (-t68)
  let t95 := ((0 : α) * t70)
  let t3267 := (atan2 t17 t15)
  let t3268 := (cos t3267)
  let t3269 := (sin t3267)
  let t3282 := (((-t3269) * t72) + ((t3268 * t68) * t66))
  let t3285 := ((t3268 * t72) + ((t3269 * t68) * t66))
  let t3308 := ((0 : α) * t3285)
  let t3311 := ((((1 : α) * t3282) + t3308) + t95)
  let t3313 := ((0 : α) * t3282)
  let t3315 := ((t3313 + ((1 : α) * t3285)) + t95)
  let t3316 := (t3313 + t3308)
  let t3317 := (t3316 + ((1 : α) * t70))
  let t3371 := ((t3316 + t95) * (0 : α))
  let t3383 := ((((t3311 * (t5 * t9)) + (t3315 * ((t8 * t13) + t10))) + (t3317 * t24)) + t3371)
  let t3389 := ((((t3311 * (-t8)) + (t3315 * (t5 * t7))) + (t3317 * t27)) + t3371)
  (⟨(t3267 * (-(1 : α))), ((atan2 (-((((t3311 * t15) + (t3315 * t17)) + (t3317 * ((t8 * t10) + t13))) + t3371)) (sqrt ((t3389 * t3389) + (t3383 * t3383)))) * (-(1 : α))), ((atan2 t24 t27) * (-(1 : α)))⟩, (8193 : Int))

/-- extracted from the C++ template at T = Sym; 1 path(s) -/
def Euler.reorderToZYXr_ZYX {α : Type} [Add α] [Sub α] [Mul α] [Neg α] [OfNat α 0] [OfNat α 1] (sqrt : α → α) (sin : α → α) (cos : α → α) (atan2 : α → α → α) (a : V3 α) : ((V3 α) × Int) :=
  let t66 := (cos (0 : α))
  let t68 := (sin (0 : α))
  let t70 := (t66 * t66)
  let t71 := (t68 * t66)
  let t72 := (-t68)
  let t89 := ((0 : α) * t72)
  let t90 := ((0 : α) * t71)
  let t93 := ((((1 : α) * t70) + t90) + t89)
  let t95 := ((0 : α) * t70)
  let t97 := ((t95 + ((1 : α) * t71)) + t89)
  let t99 := (t95 + t90)
  let t100 := (t99 + ((1 : α) * t72))
  let t128 := ((t99 + t89) * (0 : α))
  let t622 := (a.x * (-(1 : α)))
  let t623 := (a.y * (-(1 : α)))
  let t624 := (a.z * (-(1 : α)))
  let t625 := (cos t622)
  let t626 := (cos t623)
  let t627 := (cos t624)
  let t628 := (sin t622)
  let t629 := (sin t623)
  let t630 := (sin t624)
  let t631 := (t625 * t627)
  let t632 := (t625 * t630)
  let t633 := (t628 * t627)
  let t634 := (t628 * t630)
  let t635 := (t626 * t627)
  let t637 := ((t629 * t633) - t632)
  let t644 := ((t629 * t632) - t633)
  let t647 := (t626 * t625)
  let t3456 := ((((t93 * t647) + (t97 * (t626 * t628))) + (t100 * (-t629))) + t128)
  let t3462 := ((((t93 * t644) + (t97 * ((t629 * t634) + t631))) + (t100 * (t626 * t630))) + t128)
  (⟨(atan2 t644 t647), (atan2 (-((((t93 * ((t629 * t631) + t634)) + (t97 * t637)) + (t100 * t635)) + t128)) (sqrt ((t3456 * t3456) + (t3462 * t3462)))), (atan2 t637 t635)⟩, (256 : Int))

/-- extracted from the C++ template at T = Sym; 1 path(s) -/
def Euler.toMatrix33_XZX {α : Type} [Add α] [Sub α] [Mul α] [Neg α] [OfNat α 1] (sin : α → α) (cos : α → α) (a : V3 α) : (M33 α) :=
  let t622 := (a.x * (-(1 : α)))
  let t623 := (a.y * (-(1 : α)))
  let t624 := (a.z * (-(1 : α)))
  let t625 := (cos t622)
  let t626 := (cos t623)
  let t627 := (cos t624)
  let t628 := (sin t622)
  let t629 := (sin t623)
  let t630 := (sin t624)
  let t631 := (t625 * t627)
  let t632 := (t625 * t630)
  let t633 := (t628 * t627)
  let t634 := (t628 * t630)
  let t3540 := (-t626)
  ⟨t626, ((-t629) * t627), (t629 * t630), (t629 * t625), ((t626 * t631) - t634), ((t3540 * t632) - t633), (t629 * t628), ((t626 * t633) + t632), ((t3540 * t634) + t631)⟩

/-- extracted from the C++ template at T = Sym; 1 path(s) -/
def Euler.toMatrix44_XZX {α : Type} [Add α] [Sub α] [Mul α] [Neg α] [OfNat α 0] [OfNat α 1] (sin : α → α) (cos : α → α) (a : V3 α) : (M44 α) :=
  let t622 := (a.x * (-(1 : α)))
  let t623 := (a.y * (-(1 : α)))
  let t624 := (a.z * (-(1 : α)))
  let t625 := (cos t622)
  let t626 := (cos t623)
  let t627 := (cos t624)
  let t628 := (sin t622)
  let t629 := (sin t623)
  let t630 := (sin t624)
  let t631 := (t625 * t627)
  let t632 := (t625 * t630)
  let t633 := (t628 * t627)
  let t634 := (t628 * t630)
  let t3540 := (-t626)
  ⟨t626, ((-t629) * t627), (t629 * t630), (0 : α), (t629 * t625), ((t626 * t631) - t634), ((t3540 * t632) - t633), (0 : α), (t629 * t628), ((t626 * t633) + t632), ((t3540 * t634) + t631), (0 : α), (0 : α), (0 : α), (0 : α), (1 : α)⟩

/-- extracted from the C++ template at T = Sym; 1 path(s) -/
def Euler.toQuat_XZX {α : Type} [Add α] [Sub α] [Mul α] [Div α] [Neg α] [OfNat α 1] [OfNat α 2] (sin : α → α) (cos : α → α) (a : V3 α) : (Quat α) :=
  let t29 := (a.x * ((1 : α) / (2 : α)))
  let t31 := (a.z * ((1 : α) / (2 : α)))
  let t32 := (cos t29)
  let t34 := (cos t31)
  let t35 := (sin t29)
  let t37 := (sin t31)
  let t38 := (t32 * t34)
  let t39 := (t32 * t37)
  let t40 := (t35 * t34)
  let t41 := (t35 * t37)
  let t649 := ((-a.y) * ((1 : α) / (2 : α)))
  let t650 := (cos t649)
  let t651 := (sin t649)
  ⟨(t650 * (t38 - t41)), ⟨(t650 * (t39 + t40)), (t651 * (t39 - t40)), ((t651 * (t38 + t41)) * (-(1 : α)))⟩⟩

/-- extracted from the C++ template at T = Sym; 1 path(s) -/
def Euler.extractM33_XZX {α : Type} [Add α] [Mul α] [Neg α] [OfNat α 0] [OfNat α 1] (sqrt : α → α) (sin : α → α) (cos : α → α) (atan2 : α → α → α) (m : M33 α) : (V3 α) :=
  let t66 := (cos (0 : α))
  let t68 := (sin (0 : α))
  let t70 := (t66 * t66)
  let t71 := (t68 * t66)
  let t72 := (-t68)
  let t73 := (t66 * t68)
  let t77 := (t68 * t68)
  let t89 := ((0 : α) * t72)
  let t90 := ((0 : α) * t71)
  let t95 := ((0 : α) * t70)
  let t99 := (t95 + t90)
  let t3559 := (atan2 m.x20 m.x10)
  let t3560 := (cos t3559)
  let t3561 := (sin t3559)
  let t3564 := ((t72 * t3560) + (t73 * t3561))
  let t3566 := (t66 * t3560)
  let t3567 := (t3566 + (t77 * t3561))
  let t3568 := (t66 * t3561)
  let t3570 := (-t3561)
  let t3572 := ((t72 * t3570) + (t73 * t3560))
  let t3575 := ((t66 * t3570) + (t77 * t3560))
  let t3576 := ((0 : α) * t3568)
  let t3577 := ((0 : α) * t3567)
  let t3582 := ((0 : α) * t3564)
  let t3586 := (t3582 + t3577)
  let t3589 := ((0 : α) * t3566)
  let t3590 := ((0 : α) * t3575)
  let t3593 := ((((1 : α) * t3572) + t3590) + t3589)
  let t3595 := ((0 : α) * t3572)
  let t3597 := ((t3595 + ((1 : α) * t3575)) + t3589)
  let t3599 := (t3595 + t3590)
  let t3600 := (t3599 + ((1 : α) * t3566))
  let t3608 := ((((((((1 : α) * t3564) + t3577) + t3576) * m.x00) + (((t3582 + ((1 : α) * t3567)) + t3576) * m.x10)) + ((t3586 + ((1 : α) * t3568)) * m.x20)) + ((t3586 + t3576) * (0 : α)))
  let t3628 := ((t3599 + t3589) * (0 : α))
  let t3634 := ((((t3593 * m.x00) + (t3597 * m.x10)) + (t3600 * m.x20)) + t3628)
  ⟨(t3559 * (-(1 : α))), ((atan2 (sqrt ((t3634 * t3634) + (t3608 * t3608))) ((((((((1 : α) * t70) + t90) + t89) * m.x00) + (((t95 + ((1 : α) * t71)) + t89) * m.x10)) + ((t99 + ((1 : α) * t72)) * m.x20)) + ((t99 + t89) * (0 : α)))) * (-(1 : α))), ((atan2 ((((t3593 * m.x01) + (t3597 * m.x11)) + (t3600 * m.x21)) + t3628) ((((t3593 * m.x02) + (t3597 * m.x12)) + (t3600 * m.x22)) + t3628)) * (-(1 : α)))⟩

/-- extracted from the C++ template at T = Sym; 1 path(s) -/
def Euler.extractM44_XZX {α : Type} [Add α] [Mul α] [Neg α] [OfNat α 0] [OfNat α 1] (sqrt : α → α) (sin : α → α) (cos : α → α) (atan2 : α → α → α) (m : M44 α) : (V3 α) :=
  let t66 := (cos (0 : α))
  let t68 := (sin (0 : α))
  let t70 := (t66 * t66)
  let t71 := (t68 * t66)
  let t72 := (-t68)
  let t73 := (t66 * t68)
  let t77 := (t68 * t68)
  let t89 := ((0 : α) * t72)
  let t90 := ((0 : α) * t71)
  let t95 := ((0 : α) * t70)
  let t99 := (t95 + t90)
  let t3559 := (atan2 m.x20 m.x10)
  let t3560 := (cos t3559)
  let t3561 := (sin t3559)
  let t3564 := ((t72 * t3560) + (t73 * t3561))
  let t3566 := (t66 * t3560)
  let t3567 := (t3566 + (t77 * t3561))
  let t3568 := (t66 * t3561)
  let t3570 := (-t3561)
  let t3572 := ((t72 * t3570) + (t73 * t3560))
  let t3575 := ((t66 * t3570) + (t77 * t3560))
  let t3576 := ((0 : α) * t3568)
  let t3577 := ((0 : α) * t3567)
  let t3582 := ((0 : α) * t3564)
  let t3586 := (t3582 + t3577)
  let t3589 := ((0 : α) * t3566)
  let t3590 := ((0 : α) * t3575)
  let t3593 := ((((1 : α) * t3572) + t3590) + t3589)
  let t3595 := ((0 : α) * t3572)
  let t3597 := ((t3595 + ((1 : α) * t3575)) + t3589)
  let t3599 := (t3595 + t3590)
  let t3600 := (t3599 + ((1 : α) * t3566))
  let t3601 := (t3599 + t3589)
  let t3664 := ((((((((1 : α) * t3564) + t3577) + t3576) * m.x00) + (((t3582 + ((1 : α) * t3567)) + t3576) * m.x10)) + ((t3586 + ((1 : α) * t3568)) * m.x20)) + ((t3586 + t3576) * m.x30))
  let t3677 := ((((t3593 * m.x00) + (t3597 * m.x10)) + (t3600 * m.x20)) + (t3601 * m.x30))
  ⟨(t3559 * (-(1 : α))), ((atan2 (sqrt ((t3677 * t3677) + (t3664 * t3664))) ((((((((1 : α) * t70) + t90) + t89) * m.x00) + (((t95 + ((1 : α) * t71)) + t89) * m.x10)) + ((t99 + ((1 : α) * t72)) * m.x20)) + ((t99 + t89) * m.x30))) * (-(1 : α))), ((atan2 ((((t3593 * m.x01) + (t3597 * m.x11)) + (t3600 * m.x21)) + (t3601 * m.x31)) ((((t3593 * m.x02) + (t3597 * m.x12)) + (t3600 * m.x22)) + (t3601 * m.x32))) * (-(1 : α)))⟩

/-- extracted from the C++ template at T = Sym; 1 path(s) -/
def Euler.ctorM33_XZX {α : Type} [Add α] [Mul α] [Neg α] [OfNat α 0] [OfNat α 1] (sqrt : α → α) (sin : α → α) (cos : α → α) (atan2 : α → α → α) (m : M33 α) : ((V3 α) × Int) :=
  let t66 := (cos (0 : α))
  let t68 := (sin (0 : α))
  let t70 := (t66 * t66)
  let t71 := (t68 * t66)
  let t72 := (-t68)
  let t73 := (t66 * t68)
  let t77 := (t68 * t68)
  let t89 := ((0 : α) * t72)
  let t90 := ((0 : α) * t71)
  let t95 := ((0 : α) * t70)
  let t99 := (t95 + t90)
  let t3559 := (atan2 m.x20 m.x10)
  let t3560 := (cos t3559)
  let t3561 := (sin t3559)
  let t3564 := ((t72 * t3560) + (t73 * t3561))
  let t3566 := (t66 * t3560)
  let t3567 := (t3566 + (t77 * t3561))
  let t3568 := (t66 * t3561)
  let t3570 := (-t3561)
  let t3572 := ((t72 * t3570) + (t73 * t3560))
  let t3575 := ((t66 * t3570) + (t77 * t3560))
  let t3576 := ((0 : α) * t3568)
  let t3577 := ((0 : α) * t3567)
  let t3582 := ((0 : α) * t3564)
  let t3586 := (t3582 + t3577)
  let t3589 := ((0 : α) * t3566)
  let t3590 := ((0 : α) * t3575)
  let t3593 := ((((1 : α) * t3572) + t3590) + t3589)
  let t3595 := ((0 : α) * t3572)
  let t3597 := ((t3595 + ((1 : α) * t3575)) + t3589)
  let t3599 := (t3595 + t3590)
  let t3600 := (t3599 + ((1 : α) * t3566))
  let t3608 := ((((((((1 : α) * t3564) + t3577) + t3576) * m.x00) + (((t3582 + ((1 : α) * t3567)) + t3576) * m.x10)) + ((t3586 + ((1 : α) * t3568)) * m.x20)) + ((t3586 + t3576) * (0 : α)))
  let t3628 := ((t3599 + t3589) * (0 : α))
  let t3634 := ((((t3593 * m.x00) + (t3597 * m.x10)) + (t3600 * m.x20)) + t3628)
  (⟨(t3559 * (-(1 : α))), ((atan2 (sqrt ((t3634 * t3634) + (t3608 * t3608))) ((((((((1 : α) * t70) + t90) + t89) * m.x00) + (((t95 + ((1 : α) * t71)) + t89) * m.x10)) + ((t99 + ((1 : α) * t72)) * m.x20)) + ((t99 + t89) * (0 : α)))) * (-(1 : α))), ((atan2 ((((t3593 * m.x01) + (t3597 * m.x11)) + (t3600 * m.x21)) + t3628) ((((t3593 * m.x02) + (t3597 * m.x12)) + (t3600 * m.x22)) + t3628)) * (-(1 : α)))⟩, (17 : Int))

/-- extracted from the C++ template at T = Sym; 1 path(s) -/
def Euler.ctorM44_XZX {α : Type} [Add α] [Mul α] [Neg α] [OfNat α 0] [OfNat α 1] (sqrt : α → α) (sin : α → α) (cos : α → α) (atan2 : α → α → α) (m : M44 α) : ((V3 α) × Int) :=
  let t66 := (cos (0 : α))
  let t68 := (sin (0 : α))
  let t70 := (t66 * t66)
  let t71 := (t68 * t66)
  let t72 := (-t68)
  let t73 := (t66 * t68)
  let t77 := (t68 * t68)
  let t89 := ((0 : α) * t72)
  let t90 := ((0 : α) * t71)
  let t95 := ((0 : α) * t70)
  let t99 := (t95 + t90)
  let t3559 := (atan2 m.x20 m.x10)
  let t3560 := (cos t3559)
  let t3561 := (sin t3559)
  let t3564 := ((t72 * t3560) + (t73 * t3561))
  let t3566 := (t66 * t3560)
  let t3567 := (t3566 + (t77 * t3561))
  let t3568 := (t66 * t3561)
  let t3570 := (-t3561)
  let t3572 := ((t72 * t3570) + (t73 * t3560))
  let t3575 := ((t66 * t3570) + (t77 * t3560))
  let t3576 := ((0 : α) * t3568)
  let t3577 := ((0 : α) * t3567)
  let t3582 := ((0 : α) * t3564)
  let t3586 := (t3582 + t3577)
  let t3589 := ((0 : α) * t3566)
  let t3590 := ((0 : α) * t3575)
  let t3593 := ((((1 : α) * t3572) + t3590) + t3589)
  let t3595 := ((0 : α) * t3572)
  let t3597 := ((t3595 + ((1 : α) * t3575)) + t3589)
  let t3599 := (t3595 + t3590)
  let t3600 := (t3599 + ((1 : α) * t3566))
  let t3601 := (t3599 + t3589)
  let t3664 := ((((((((1 : α) * t3564) + t3577) + t3576) * m.x00) + (((t3582 + ((1 : α) * t3567)) + t3576) * m.x10)) + ((t3586 + ((1 : α) * t3568)) * m.x20)) + ((t3586 + t3576) * m.x30))
  let t3677 := ((((t3593 * m.x00) + (t3597 * m.x10)) + (t3600 * m.x20)) + (t3601 * m.x30))
  (⟨(t3559 * (-(1 : α))), ((atan2 (sqrt ((t3677 * t3677) + (t3664 * t3664))) ((((((((1 : α) * t70) + t90) + t89) * m.x00) + (((t95 + ((1 : α) * t71)) + t89) * m.x10)) + ((t99 + ((1 : α) * t72)) * m.x20)) + ((t99 + t89) * m.x30))) * (-(1 : α))), ((atan2 ((((t3593 * m.x01) + (t3597 * m.x11)) + (t3600 * m.x21)) + (t3601 * m.x31)) ((((t3593 * m.x02) + (t3597 * m.x12)) + (t3600 * m.x22)) + (t3601 * m.x32))) * (-(1 : α)))⟩, (17 : Int))

/-- extracted from the C++ template at T = Sym; 1 path(s) -/
def Euler.extractQuat_XZX {α : Type} [Add α] [Sub α] [Mul α] [Neg α] [OfNat α 0] [OfNat α 1] [OfNat α 2] (sqrt : α → α) (sin : α → α) (cos : α → α) (atan2 : α → α → α) (q : Quat α) : (V3 α) :=
  let t66 := (cos (0 : α))
  let t68 := (sin (0 : α))
  let t70 := (t66 * t66)
  let t71 := (t68 * t66)
  let t72 := (-t68)
  let t73 := (t66 * t68)
  let t77 := (t68 * t68)
  let t89 := ((0 : α) * t72)
  let t90 := ((0 : α) * t71)
  let t95 := ((0 : α) * t70)
  let t99 := (t95 + t90)
  let t306 := (q.v.x * q.v.x)
  let t307 := (q.v.y * q.v.y)
  let t312 := (q.v.x * q.r)
  let t313 := (q.v.y * q.v.z)
  let t316 := (q.v.y * q.r)
  let t317 := (q.v.z * q.v.x)
  let t319 := ((2 : α) * (t317 + t316))
  let t322 := (q.v.z * q.v.z)
  let t326 := (q.v.z * q.r)
  let t327 := (q.v.x * q.v.y)
  let t329 := ((2 : α) * (t327 - t326))
  let t336 := ((1 : α) - ((2 : α) * (t307 + t322)))
  let t3697 := (atan2 t319 t329)
  let t3698 := (cos t3697)
  let t3699 := (sin t3697)
  let t3702 := ((t72 * t3698) + (t73 * t3699))
  let t3704 := (t66 * t3698)
  let t3705 := (t3704 + (t77 * t3699))
  let t3706 := (t66 * t3699)
  let t3708 := (-t3699)
  let t3710 := ((t72 * t3708) + (t73 * t3698))
  let t3713 := ((t66 * t3708) + (t77 * t3698))
  let t3714 := ((0 : α) * t3706)
  let t3715 := ((0 : α) * t3705)
  let t3720 := ((0 : α) * t3702)
  let t3724 := (t3720 + t3715)
  let t3727 := ((0 : α) * t3704)
  let t3728 := ((0 : α) * t3713)
  let t3731 := ((((1 : α) * t3710) + t3728) + t3727)
  let t3733 := ((0 : α) * t3710)
  let t3735 := ((t3733 + ((1 : α) * t3713)) + t3727)
  let t3737 := (t3733 + t3728)
  let t3738 := (t3737 + ((1 : α) * t3704))
  let t3746 := ((((((((1 : α) * t3702) + t3715) + t3714) * t336) + (((t3720 + ((1 : α) * t3705)) + t3714) * t329)) + ((t3724 + ((1 : α) * t3706)) * t319)) + ((t3724 + t3714) * (0 : α)))
  let t3766 := ((t3737 + t3727) * (0 : α))
  let t3772 := ((((t3731 * t336) + (t3735 * t329)) + (t3738 * t319)) + t3766)
  ⟨(t3697 * (-(1 : α))), ((atan2 (sqrt ((t3772 * t3772) + (t3746 * t3746))) ((((((((1 : α) * t70) + t90) + t89) * t336) + (((t95 + ((1 : α) * t71)) + t89) * t329)) + ((t99 + ((1 : α) * t72)) * t319)) + ((t99 + t89) * (0 : α)))) * (-(1 : α))), ((atan2 ((((t3731 * ((2 : α) * (t327 + t326))) + (t3735 * ((1 : α) - ((2 : α) * (t322 + t306))))) + (t3738 * ((2 : α) * (t313 - t312)))) + t3766) ((((t3731 * ((2 : α) * (t317 - t316))) + (t3735 * ((2 : α) * (t313 + t312)))) + (t3738 * ((1 : α) - ((2 : α) * (t307 + t306))))) + t3766)) * (-(1 : α)))⟩

/-- extracted from the C++ template at T = Sym; 1 path(s) -/
def Euler.ctorXYZLayout_XZX {α : Type} (v : V3 α) : ((V3 α) × Int) :=
  (⟨v.x, v.z, v.y⟩, (17 : Int))

/-- extracted from the C++ template at T = Sym; 1 path(s) -/
def Euler.ctorXYZLayoutScalars_XZX {α : Type} (xi : α) (yi : α) (zi : α) : ((V3 α) × Int) :=
  (⟨xi, zi, yi⟩, (17 : Int))

/-- extracted from the C++ template at T = Sym; 1 path(s) -/
def Euler.ctorIJKLayout_XZX {α : Type} (v : V3 α) : ((V3 α) × Int) :=
  (⟨v.x, v.y, v.z⟩, (17 : Int))

/-- extracted from the C++ template at T = Sym; 1 path(s) -/
def Euler.setXYZVector_XZX {α : Type} (a : V3 α) (v : V3 α) : (V3 α) :=
  ⟨v.x, v.z, v.y⟩

/-- extracted from the C++ template at T = Sym; 1 path(s) -/
def Euler.toXYZVector_XZX {α : Type} (a : V3 α) : (V3 α) :=
  ⟨a.x, a.z, a.y⟩

/-- extracted from the C++ template at T = Sym; 1 path(s) -/
def Euler.angleOrder_XZX {α : Type} : (Int × Int × Int) :=
  ((0 : Int), (2 : Int), (1 : Int))

/-- extracted from the C++ template at T = Sym; 1 path(s) -/
def Euler.angleMapping_XZX {α : Type} : (Int × Int × Int) :=
  ((0 : Int), (2 : Int), (1 : Int))

/-- extracted from the C++ template at T = Sym; 1 path(s) -/
def Euler.order_XZX {α : Type} : (Int × Bool × Bool × Bool × Bool × Int) :=
  ((17 : Int), true, true, true, false, (0 : Int))

/-- extracted from the C++ template at T = Sym; 1 path(s) -/
def Euler.setOrderKeepsAngles_XZX {α : Type} (a : V3 α) : ((V3 α) × Int) :=
  (⟨a.x, a.y, a.z⟩, (17 : Int))

/-- extracted from the C++ template at T = Sym; 1 path(s) -/
def Euler.copyAndAssign_XZX {α : Type} (a : V3 α) (v : V3 α) : ((V3 α) × Int × (V3 α) × Int × (V3 α) × Int) :=
  (⟨a.x, a.y, a.z⟩, (17 : Int), ⟨a.x, a.y, a.z⟩, (17 : Int), ⟨v.x, v.y, v.z⟩, (17 : Int))

/-- extracted from the C++ template at T = Sym; 1 path(s) -/
def Euler.reorderFromXYZ_XZX {α : Type} [Add α] [Sub α] [Mul α] [Neg α] [OfNat α 0] [OfNat α 1] (sqrt : α → α) (sin : α → α) (cos : α → α) (atan2 : α → α → α) (a : V3 α) : ((V3 α) × Int) :=
  let t4 := (cos a.x)
  let t5 := (cos a.y)
  let t6 := (cos a.z)
  let t7 := (sin a.x)
  let t8 := (sin a.y)
  let t9 := (sin a.z)
  let t10 := (t4 * t6)
  let t11 := (t4 * t9)
  let t12 := (t7 * t6)
  let t13 := (t7 * t9)
  let t15 := (t5 * t6)
  let t17 := ((t8 * t12) - t11)
  let t19 := ((t8 * t10) + t13)
  let t66 := (cos (0 : α))
  let t68 := (sin (0 : α))
  let t70 := (t66 * t66)
  let t71 := (t68 * t66)
  let t72 := (-t68)
  let t73 := (t66 * t68)
  let t77 := (t68 * t68)
  let t89 := ((0 : α) * t72)
  let t90 := ((0 : α) * t71)
  let t95 := ((0 : α) * t70)
  let t99 := (t95 + t90)
  let t3801 := (atan2 t19 t17)
  let t3802 := (cos t3801)
  let t3803 := (sin t3801)
  let t3806 := ((t72 * t3802) + (t73 * t3803))
  let t3808 := (t66 * t3802)
  let t3809 := (t3808 + (t77 * t3803))
  let t3810 := (t66 * t3803)
  let t3812 := (-t3803)
  let t3814 := ((t72 * t3812) + (t73 * t3802))
  let t3817 := ((t66 * t3812) + (t77 * t3802))
  let t3818 := ((0 : α) * t3810)
  let t3819 := ((0 : α) * t3809)
  let t3824 := ((0 : α) * t3806)
  let t3828 := (t3824 + t3819)
  let t3831 := ((0 : α) * t3808)
  let t3832 := ((0 : α) * t3817)
  let t3835 := ((((1 : α) * t3814) + t3832) + t3831)
  let t3837 := ((0 : α) * t3814)
  let t3839 := ((t3837 + ((1 : α) * t3817)) + t3831)
  let t3841 := (t3837 + t3832)
  let t3842 := (t3841 + ((1 : α) * t3808))
  let t3850 := ((((((((1 : α) * t3806) + t3819) + t3818) * t15) + (((t3824 + ((1 : α) * t3809)) + t3818) * t17)) + ((t3828 + ((1 : α) * t3810)) * t19)) + ((t3828 + t3818) * (0 : α)))
  let t3870 := ((t3841 + t3831) * (0 : α))
  let t3876 := ((((t3835 * t15) + (t3839 * t17)) + (t3842 * t19)) + t3870)
  (⟨(t3801 * (-(1 : α))), ((atan2 (sqrt ((t3876 * t3876) + (t3850 * t3850))) ((((((((1 : α) * t70) + t90) + t89) * t15) + (((t95 + ((1 : α) * t71)) + t89) * t17)) + ((t99 + ((1 : α) * t72)) * t19)) + ((t99 + t89) * (0 : α)))) * (-(1 : α))), ((atan2 ((((t3835 * (t5 * t9)) + (t3839 * ((t8 * t13) + t10))) + (t3842 * ((t8 * t11) - t12))) + t3870) ((((t3835 * (-t8)) + (t3839 * (t5 * t7))) + (t3842 * (t5 * t4))) + t3870)) * (-(1 : α)))⟩, (17 : Int))

/-- extracted from the C++ template at T = Sym; 1 path(s) -/
def Euler.reorderToZYXr_XZX {α : Type} [Add α] [Sub α] [Mul α] [Neg α] [OfNat α 0] [OfNat α 1] (sqrt : α → α) (sin : α → α) (cos : α → α) (atan2 : α → α → α) (a : V3 α) : ((V3 α) × Int) :=
  let t66 := (cos (0 : α))
  let t68 := (sin (0 : α))
  let t70 := (t66 * t66)
  let t71 := (t68 * t66)
  let t72 := (-t68)
  let t89 := ((0 : α) * t72)
  let t90 := ((0 : α) * t71)
  let t93 := ((((1 : α) * t70) + t90) + t89)
  let t95 := ((0 : α) * t70)
  let t97 := ((t95 + ((1 : α) * t71)) + t89)
  let t99 := (t95 + t90)
  let t100 := (t99 + ((1 : α) * t72))
  let t128 := ((t99 + t89) * (0 : α))
  let t622 := (a.x * (-(1 : α)))
  let t623 := (a.y * (-(1 : α)))
  let t624 := (a.z * (-(1 : α)))
  let t625 := (cos t622)
  let t626 := (cos t623)
  let t627 := (cos t624)
  let t628 := (sin t622)
  let t629 := (sin t623)
  let t630 := (sin t624)
  let t631 := (t625 * t627)
  let t632 := (t625 * t630)
  let t633 := (t628 * t627)
  let t634 := (t628 * t630)
  let t3540 := (-t626)
  let t3542 := ((t3540 * t634) + t631)
  let t3544 := ((t3540 * t632) - t633)
  let t3545 := ((-t629) * t627)
  let t3954 := ((((t93 * t626) + (t97 * (t629 * t625))) + (t100 * (t629 * t628))) + t128)
  let t3960 := ((((t93 * t3545) + (t97 * ((t626 * t631) - t634))) + (t100 * ((t626 * t633) + t632))) + t128)
  (⟨(atan2 t3545 t626), (atan2 (-((((t93 * (t629 * t630)) + (t97 * t3544)) + (t100 * t3542)) + t128)) (sqrt ((t3954 * t3954) + (t3960 * t3960)))), (atan2 t3544 t3542)⟩, (256 : Int))

/-- extracted from the C++ template at T = Sym; 1 path(s) -/
def Euler.toMatrix33_XYX {α : Type} [Add α] [Sub α] [Mul α] [Neg α] (sin : α → α) (cos : α → α) (a : V3 α) : (M33 α) :=
  let t4 := (cos a.x)
  let t5 := (cos a.y)
  let t6 := (cos a.z)
  let t7 := (sin a.x)
  let t8 := (sin a.y)
  let t9 := (sin a.z)
  let t10 := (t4 * t6)
  let t11 := (t4 * t9)
  let t12 := (t7 * t6)
  let t13 := (t7 * t9)
  let t4047 := (-t5)
  ⟨t5, (t8 * t9), ((-t8) * t6), (t8 * t7), ((t4047 * t13) + t10), ((t5 * t12) + t11), (t8 * t4), ((t4047 * t11) - t12), ((t5 * t10) - t13)⟩

/-- extracted from the C++ template at T = Sym; 1 path(s) -/
def Euler.toMatrix44_XYX {α : Type} [Add α] [Sub α] [Mul α] [Neg α] [OfNat α 0] [OfNat α 1] (sin : α → α) (cos : α → α) (a : V3 α) : (M44 α) :=
  let t4 := (cos a.x)
  let t5 := (cos a.y)
  let t6 := (cos a.z)
  let t7 := (sin a.x)
  let t8 := (sin a.y)
  let t9 := (sin a.z)
  let t10 := (t4 * t6)
  let t11 := (t4 * t9)
  let t12 := (t7 * t6)
  let t13 := (t7 * t9)
  let t4047 := (-t5)
  ⟨t5, (t8 * t9), ((-t8) * t6), (0 : α), (t8 * t7), ((t4047 * t13) + t10), ((t5 * t12) + t11), (0 : α), (t8 * t4), ((t4047 * t11) - t12), ((t5 * t10) - t13), (0 : α), (0 : α), (0 : α), (0 : α), (1 : α)⟩

/-- extracted from the C++ template at T = Sym; 1 path(s) -/
def Euler.toQuat_XYX {α : Type} [Add α] [Sub α] [Mul α] [Div α] [OfNat α 1] [OfNat α 2] (sin : α → α) (cos : α → α) (a : V3 α) : (Quat α) :=
  let t29 := (a.x * ((1 : α) / (2 : α)))
  let t30 := (a.y * ((1 : α) / (2 : α)))
  let t31 := (a.z * ((1 : α) / (2 : α)))
  let t32 := (cos t29)
  let t33 := (cos t30)
  let t34 := (cos t31)
  let t35 := (sin t29)
  let t36 := (sin t30)
  let t37 := (sin t31)
  let t38 := (t32 * t34)
  let t39 := (t32 * t37)
  let t40 := (t35 * t34)
  let t41 := (t35 * t37)
  ⟨(t33 * (t38 - t41)), ⟨(t33 * (t39 + t40)), ((t36 * (t38 + t41)) * (1 : α)), (t36 * (t39 - t40))⟩⟩

/-- extracted from the C++ template at T = Sym; 1 path(s) -/
def Euler.extractM33_XYX {α : Type} [Add α] [Mul α] [Neg α] [OfNat α 0] [OfNat α 1] (sqrt : α → α) (sin : α → α) (cos : α → α) (atan2 : α → α → α) (m : M33 α) : (V3 α) :=
  let t66 := (cos (0 : α))
  let t68 := (sin (0 : α))
  let t70 := (t66 * t66)
  let t71 := (t68 * t66)
  let t72 := (-t68)
  let t73 := (t66 * t68)
  let t77 := (t68 * t68)
  let t89 := ((0 : α) * t72)
  let t90 := ((0 : α) * t71)
  let t95 := ((0 : α) * t70)
  let t99 := (t95 + t90)
  let t4062 := (atan2 m.x10 m.x20)
  let t4063 := (-t4062)
  let t4064 := (cos t4063)
  let t4065 := (sin t4063)
  let t4068 := ((t72 * t4064) + (t73 * t4065))
  let t4070 := (t66 * t4064)
  let t4071 := (t4070 + (t77 * t4065))
  let t4072 := (t66 * t4065)
  let t4074 := (-t4065)
  let t4076 := ((t72 * t4074) + (t73 * t4064))
  let t4079 := ((t66 * t4074) + (t77 * t4064))
  let t4080 := ((0 : α) * t4072)
  let t4081 := ((0 : α) * t4071)
  let t4084 := ((((1 : α) * t4068) + t4081) + t4080)
  let t4086 := ((0 : α) * t4068)
  let t4088 := ((t4086 + ((1 : α) * t4071)) + t4080)
  let t4090 := (t4086 + t4081)
  let t4091 := (t4090 + ((1 : α) * t4072))
  let t4093 := ((0 : α) * t4070)
  let t4094 := ((0 : α) * t4079)
  let t4099 := ((0 : α) * t4076)
  let t4103 := (t4099 + t4094)
  let t4106 := ((t4090 + t4080) * (0 : α))
  let t4112 := ((((t4084 * m.x00) + (t4088 * m.x10)) + (t4091 * m.x20)) + t4106)
  let t4138 := ((((((((1 : α) * t4076) + t4094) + t4093) * m.x00) + (((t4099 + ((1 : α) * t4079)) + t4093) * m.x10)) + ((t4103 + ((1 : α) * t4070)) * m.x20)) + ((t4103 + t4093) * (0 : α)))
  ⟨t4062, (atan2 (sqrt ((t4112 * t4112) + (t4138 * t4138))) ((((((((1 : α) * t70) + t90) + t89) * m.x00) + (((t95 + ((1 : α) * t71)) + t89) * m.x10)) + ((t99 + ((1 : α) * t72)) * m.x20)) + ((t99 + t89) * (0 : α)))), (atan2 ((((t4084 * m.x02) + (t4088 * m.x12)) + (t4091 * m.x22)) + t4106) ((((t4084 * m.x01) + (t4088 * m.x11)) + (t4091 * m.x21)) + t4106))⟩

/-- extracted from the C++ template at T = Sym; 1 path(s) -/
def Euler.extractM44_XYX {α : Type} [Add α] [Mul α] [Neg α] [OfNat α 0] [OfNat α 1] (sqrt : α → α) (sin : α → α) (cos : α → α) (atan2 : α → α → α) (m : M44 α) : (V3 α) :=
  let t66 := (cos (0 : α))
  let t68 := (sin (0 : α))
  let t70 := (t66 * t66)
  let t71 := (t68 * t66)
  let t72 := (-t68)
  let t73 := (t66 * t68)
  let t77 := (t68 * t68)
  let t89 := ((0 : α) * t72)
  let t90 := ((0 : α) * t71)
  let t95 := ((0 : α) * t70)
  let t99 := (t95 + t90)
  let t4062 := (atan2 m.x10 m.x20)
  let t4063 := (-t4062)
  let t4064 := (cos t4063)
  let t4065 := (sin t4063)
  let t4068 := ((t72 * t4064) + (t73 * t4065))
  let t4070 := (t66 * t4064)
  let t4071 := (t4070 + (t77 * t4065))
  let t4072 := (t66 * t4065)
  let t4074 := (-t4065)
  let t4076 := ((t72 * t4074) + (t73 * t4064))
  let t4079 := ((t66 * t4074) + (t77 * t4064))
  let t4080 := ((0 : α) * t4072)
  let t4081 := ((0 : α) * t4071)
  let t4084 := ((((1 : α) * t4068) + t4081) + t4080)
  let t4086 := ((0 : α) * t4068)
  let t4088 := ((t4086 + ((1 : α) * t4071)) + t4080)
  let t4090 := (t4086 + t4081)
  let t4091 := (t4090 + ((1 : α) * t4072))
  let t4092 := (t4090 + t4080)
  let t4093 := ((0 : α) * t4070)
  let t4094 := ((0 : α) * t4079)
  let t4099 := ((0 : α) * t4076)
  let t4103 := (t4099 + t4094)
  let t4165 := ((((t4084 * m.x00) + (t4088 * m.x10)) + (t4091 * m.x20)) + (t4092 * m.x30))
  let t4178 := ((((((((1 : α) * t4076) + t4094) + t4093) * m.x00) + (((t4099 + ((1 : α) * t4079)) + t4093) * m.x10)) + ((t4103 + ((1 : α) * t4070)) * m.x20)) + ((t4103 + t4093) * m.x30))
  ⟨t4062, (atan2 (sqrt ((t4165 * t4165) + (t4178 * t4178))) ((((((((1 : α) * t70) + t90) + t89) * m.x00) + (((t95 + ((1 : α) * t71)) + t89) * m.x10)) + ((t99 + ((1 : α) * t72)) * m.x20)) + ((t99 + t89) * m.x30))), (atan2 ((((t4084 * m.x02) + (t4088 * m.x12)) + (t4091 * m.x22)) + (t4092 * m.x32)) ((((t4084 * m.x01) + (t4088 * m.x11)) + (t4091 * m.x21)) + (t4092 * m.x31)))⟩

/-- extracted from the C++ template at T = Sym; 1 path(s) -/
def Euler.ctorM33_XYX {α : Type} [Add α] [Mul α] [Neg α] [OfNat α 0] [OfNat α 1] (sqrt : α → α) (sin : α → α) (cos : α → α) (atan2 : α → α → α) (m : M33 α) : ((V3 α) × Int) :=
  let t66 := (cos (0 : α))
  let t68 := (sin (0 : α))
  let t70 := (t66 * t66)
  let t71 := (t68 * t66)
  let t72 := (-t68)
  let t73 := (t66 * t68)
  let t77 := (t68 * t68)
  let t89 := ((0 : α) * t72)
  let t90 := ((0 : α) * t71)
  let t95 := ((0 : α) * t70)
  let t99 := (t95 + t90)
  let t4062 := (atan2 m.x10 m.x20)
  let t4063 := (-t4062)
  let t4064 := (cos t4063)
  let t4065 := (sin t4063)
  let t4068 := ((t72 * t4064) + (t73 * t4065))
  let t4070 := (t66 * t4064)
  let t4071 := (t4070 + (t77 * t4065))
  let t4072 := (t66 * t4065)
  let t4074 := (-t4065)
  let t4076 := ((t72 * t4074) + (t73 * t4064))
  let t4079 := ((t66 * t4074) + (t77 * t4064))
  let t4080 := ((0 : α) * t4072)
  let t4081 := ((0 : α) * t4071)
  let t4084 := ((((1 : α) * t4068) + t4081) + t4080)
  let t4086 := ((0 : α) * t4068)
  let t4088 := ((t4086 + ((1 : α) * t4071)) + t4080)
  let t4090 := (t4086 + t4081)
  let t4091 := (t4090 + ((1 : α) * t4072))
  let t4093 := ((0 : α) * t4070)
  let t4094 := ((0 : α) * t4079)
  let t4099 := ((0 : α) * t4076)
  let t4103 := (t4099 + t4094)
  let t4106 := ((t4090 + t4080) * (0 : α))
  let t4112 := ((((t4084 * m.x00) + (t4088 * m.x10)) + (t4091 * m.x20)) + t4106)
  let t4138 := ((((((((1 : α) * t4076) + t4094) + t4093) * m.x00) + (((t4099 + ((1 : α) * t4079)) + t4093) * m.x10)) + ((t4103 + ((1 : α) * t4070)) * m.x20)) + ((t4103 + t4093) * (0 : α)))
  (⟨t4062, (atan2 (sqrt ((t4112 * t4112) + (t4138 * t4138))) ((((((((1 : α) * t70) + t90) + t89) * m.x00) + (((t95 + ((1 : α) * t71)) + t89) * m.x10)) + ((t99 + ((1 : α) * t72)) * m.x20)) + ((t99 + t89) * (0 : α)))), (atan2 ((((t4084 * m.x02) + (t4088 * m.x12)) + (t4091 * m.x22)) + t4106) ((((t4084 * m.x01) + (t4088 * m.x11)) + (t4091 * m.x21)) + t4106))⟩, (273 : Int))

/-- extracted from the C++ template at T = Sym; 1 path(s) -/
def Euler.ctorM44_XYX {α : Type} [Add α] [Mul α] [Neg α] [OfNat α 0] [OfNat α 1] (sqrt : α → α) (sin : α → α) (cos : α → α) (atan2 : α → α → α) (m : M44 α) : ((V3 α) × Int) :=
  let t66 := (cos (0 : α))
  let t68 := (sin (0 : α))
  let t70 := (t66 * t66)
  let t71 := (t68 * t66)
  let t72 := (-t68)
  let t73 := (t66 * t68)
  let t77 := (t68 * t68)
  let t89 := ((0 : α) * t72)
  let t90 := ((0 : α) * t71)
  let t95 := ((0 : α) * t70)
  let t99 := (t95 + t90)
  let t4062 := (atan2 m.x10 m.x20)
  let t4063 := (-t4062)
  let t4064 := (cos t4063)
  let t4065 := (sin t4063)
  let t4068 := ((t72 * t4064) + (t73 * t4065))
  let t4070 := (t66 * t4064)
  let t4071 := (t4070 + (t77 * t4065))
  let t4072 := (t66 * t4065)
  let t4074 := (-t4065)
  let t4076 := ((t72 * t4074) + (t73 * t4064))
  let t4079 := ((t66 * t4074) + (t77 * t4064))
  let t4080 := ((0 : α) * t4072)
  let t4081 := ((0 : α) * t4071)
  let t4084 := ((((1 : α) * t4068) + t4081) + t4080)
  let t4086 := ((0 : α) * t4068)
  let t4088 := ((t4086 + ((1 : α) * t4071)) + t4080)
  let t4090 := (t4086 + t4081)
  let t4091 := (t4090 + ((1 : α) * t4072))
  let t4092 := (t4090 + t4080)
  let t4093 := ((0 : α) * t4070)
  let t4094 := ((0 : α) * t4079)
  let t4099 := ((0 : α) * t4076)
  let t4103 := (t4099 + t4094)
  let t4165 := ((((t4084 * m.x00) + (t4088 * m.x10)) + (t4091 * m.x20)) + (t4092 * m.x30))
  let t4178 := ((((((((1 : α) * t4076) + t4094) + t4093) * m.x00) + (((t4099 + ((1 : α) * t4079)) + t4093) * m.x10)) + ((t4103 + ((1 : α) * t4070)) * m.x20)) + ((t4103 + t4093) * m.x30))
  (⟨t4062, (atan2 (sqrt ((t4165 * t4165) + (t4178 * t4178))) ((((((((1 : α) * t70) + t90) + t89) * m.x00) + (((t95 + ((1 : α) * t71)) + t89) * m.x10)) + ((t99 + ((1 : α) * t72)) * m.x20)) + ((t99 + t89) * m.x30))), (atan2 ((((t4084 * m.x02) + (t4088 * m.x12)) + (t4091 * m.x22)) + (t4092 * m.x32)) ((((t4084 * m.x01) + (t4088 * m.x11)) + (t4091 * m.x21)) + (t4092 * m.x31)))⟩, (273 : Int))

/-- extracted from the C++ template at T = Sym; 1 path(s) -/
def Euler.extractQuat_XYX {α : Type} [Add α] [Sub α] [Mul α] [Neg α] [OfNat α 0] [OfNat α 1] [OfNat α 2] (sqrt : α → α) (sin : α → α) (cos : α → α) (atan2 : α → α → α) (q : Quat α) : (V3 α) :=
  let t66 := (cos (0 : α))
  let t68 := (sin (0 : α))
  let t70 := (t66 * t66)
  let t71 := (t68 * t66)
  let t72 := (-t68)
  let t73 := (t66 * t68)
  let t77 := (t68 * t68)
  let t89 := ((0 : α) * t72)
  let t90 := ((0 : α) * t71)
  let t95 := ((0 : α) * t70)
  let t99 := (t95 + t90)
  let t306 := (q.v.x * q.v.x)
  let t307 := (q.v.y * q.v.y)
  let t312 := (q.v.x * q.r)
  let t313 := (q.v.y * q.v.z)
  let t316 := (q.v.y * q.r)
  let t317 := (q.v.z * q.v.x)
  let t319 := ((2 : α) * (t317 + t316))
  let t322 := (q.v.z * q.v.z)
  let t326 := (q.v.z * q.r)
  let t327 := (q.v.x * q.v.y)
  let t329 := ((2 : α) * (t327 - t326))
  let t336 := ((1 : α) - ((2 : α) * (t307 + t322)))
  let t4196 := (atan2 t329 t319)
  let t4197 := (-t4196)
  let t4198 := (cos t4197)
  let t4199 := (sin t4197)
  let t4202 := ((t72 * t4198) + (t73 * t4199))
  let t4204 := (t66 * t4198)
  let t4205 := (t4204 + (t77 * t4199))
  let t4206 := (t66 * t4199)
  let t4208 := (-t4199)
  let t4210 := ((t72 * t4208) + (t73 * t4198))
  let t4213 := ((t66 * t4208) + (t77 * t4198))
  let t4214 := ((0 : α) * t4206)
  let t4215 := ((0 : α) * t4205)
  let t4218 := ((((1 : α) * t4202) + t4215) + t4214)
  let t4220 := ((0 : α) * t4202)
  let t4222 := ((t4220 + ((1 : α) * t4205)) + t4214)
  let t4224 := (t4220 + t4215)
  let t4225 := (t4224 + ((1 : α) * t4206))
  let t4227 := ((0 : α) * t4204)
  let t4228 := ((0 : α) * t4213)
  let t4233 := ((0 : α) * t4210)
  let t4237 := (t4233 + t4228)
  let t4240 := ((t4224 + t4214) * (0 : α))
  let t4246 := ((((t4218 * t336) + (t4222 * t329)) + (t4225 * t319)) + t4240)
  let t4272 := ((((((((1 : α) * t4210) + t4228) + t4227) * t336) + (((t4233 + ((1 : α) * t4213)) + t4227) * t329)) + ((t4237 + ((1 : α) * t4204)) * t319)) + ((t4237 + t4227) * (0 : α)))
  ⟨t4196, (atan2 (sqrt ((t4246 * t4246) + (t4272 * t4272))) ((((((((1 : α) * t70) + t90) + t89) * t336) + (((t95 + ((1 : α) * t71)) + t89) * t329)) + ((t99 + ((1 : α) * t72)) * t319)) + ((t99 + t89) * (0 : α)))), (atan2 ((((t4218 * ((2 : α) * (t317 - t316))) + (t4222 * ((2 : α) * (t313 + t312)))) + (t4225 * ((1 : α) - ((2 : α) * (t307 + t306))))) + t4240) ((((t4218 * ((2 : α) * (t327 + t326))) + (t4222 * ((1 : α) - ((2 : α) * (t322 + t306))))) + (t4225 * ((2 : α) * (t313 - t312)))) + t4240))⟩

/-- extracted from the C++ template at T = Sym; 1 path(s) -/
def Euler.ctorXYZLayout_XYX {α : Type} (v : V3 α) : ((V3 α) × Int) :=
  (⟨v.x, v.y, v.z⟩, (273 : Int))

/-- extracted from the C++ template at T = Sym; 1 path(s) -/
def Euler.ctorXYZLayoutScalars_XYX {α : Type} (xi : α) (yi : α) (zi : α) : ((V3 α) × Int) :=
  (⟨xi, yi, zi⟩, (273 : Int))

/-- extracted from the C++ template at T = Sym; 1 path(s) -/
def Euler.ctorIJKLayout_XYX {α : Type} (v : V3 α) : ((V3 α) × Int) :=
  (⟨v.x, v.y, v.z⟩, (273 : Int))

/-- extracted from the C++ template at T = Sym; 1 path(s) -/
def Euler.setXYZVector_XYX {α : Type} (a : V3 α) (v : V3 α) : (V3 α) :=
  ⟨v.x, v.y, v.z⟩

/-- extracted from the C++ template at T = Sym; 1 path(s) -/
def Euler.toXYZVector_XYX {α : Type} (a : V3 α) : (V3 α) :=
  ⟨a.x, a.y, a.z⟩

/-- extracted from the C++ template at T = Sym; 1 path(s) -/
def Euler.angleOrder_XYX {α : Type} : (Int × Int × Int) :=
  ((0 : Int), (1 : Int), (2 : Int))

/-- extracted from the C++ template at T = Sym; 1 path(s) -/
def Euler.angleMapping_XYX {α : Type} : (Int × Int × Int) :=
  ((0 : Int), (1 : Int), (2 : Int))

/-- extracted from the C++ template at T = Sym; 1 path(s) -/
def Euler.order_XYX {α : Type} : (Int × Bool × Bool × Bool × Bool × Int) :=
  ((273 : Int), true, true, true, true, (0 : Int))

/-- extracted from the C++ template at T = Sym; 1 path(s) -/
def Euler.setOrderKeepsAngles_XYX {α : Type} (a : V3 α) : ((V3 α) × Int) :=
  (⟨a.x, a.y, a.z⟩, (273 : Int))

/-- extracted from the C++ template at T = Sym; 1 path(s) -/
def Euler.copyAndAssign_XYX {α : Type} (a : V3 α) (v : V3 α) : ((V3 α) × Int × (V3 α) × Int × (V3 α) × Int) :=
  (⟨a.x, a.y, a.z⟩, (273 : Int), ⟨a.x, a.y, a.z⟩, (273 : Int), ⟨v.x, v.y, v.z⟩, (273 : Int))

/-- extracted from the C++ template at T = Sym; 1 path(s) -/
def Euler.reorderFromXYZ_XYX {α : Type} [Add α] [Sub α] [Mul α] [Neg α] [OfNat α 0] [OfNat α 1] (sqrt : α → α) (sin : α → α) (cos : α → α) (atan2 : α → α → α) (a : V3 α) : ((V3 α) × Int) :=
  let t4 := (cos a.x)
  let t5 := (cos a.y)
  let t6 := (cos a.z)
  let t7 := (sin a.x)
  let t8 := (sin a.y)
  let t9 := (sin a.z)
  let t10 := (t4 * t6)
  let t11 := (t4 * t9)
  let t12 := (t7 * t6)
  let t13 := (t7 * t9)
  let t15 := (t5 * t6)
  let t17 := ((t8 * t12) - t11)
  let t19 := ((t8 * t10) + t13)
  let t66 := (cos (0 : α))
  let t68 := (sin (0 : α))
  let t70 := (t66 * t66)
  let t71 := (t68 * t66)
  let t72 := (-t68)
  let t73 := (t66 * t68)
  let t77 := (t68 * t68)
  let t89 := ((0 : α) * t72)
  let t90 := ((0 : α) * t71)
  let t95 := ((0 : α) * t70)
  let t99 := (t95 + t90)
  let t4298 := (atan2 t17 t19)
  let t4299 := (-t4298)
  let t4300 := (cos t4299)
  let t4301 := (sin t4299)
  let t4304 := ((t72 * t4300) + (t73 * t4301))
  let t4306 := (t66 * t4300)
  let t4307 := (t4306 + (t77 * t4301))
  let t4308 := (t66 * t4301)
  let t4310 := (-t4301)
  let t4312 := ((t72 * t4310) + (t73 * t4300))
  let t4315 := ((t66 * t4310) + (t77 * t4300))
  let t4316 := ((0 : α) * t4308)
  let t4317 := ((0 : α) * t4307)
  let t4320 := ((((1 : α) * t4304) + t4317) + t4316)
  let t4322 := ((0 : α) * t4304)
  let t4324 := ((t4322 + ((1 : α) * t4307)) + t4316)
  let t4326 := (t4322 + t4317)
  let t4327 := (t4326 + ((1 : α) * t4308))
  let t4329 := ((0 : α) * t4306)
  let t4330 := ((0 : α) * t4315)
  let t4335 := ((0 : α) * t4312)
  let t4339 := (t4335 + t4330)
  let t4342 := ((t4326 + t4316) * (0 : α))
  let t4348 := ((((t4320 * t15) + (t4324 * t17)) + (t4327 * t19)) + t4342)
  let t4374 := ((((((((1 : α) * t4312) + t4330) + t4329) * t15) + (((t4335 + ((1 : α) * t4315)) + t4329) * t17)) + ((t4339 + ((1 : α) * t4306)) * t19)) + ((t4339 + t4329) * (0 : α)))
  (⟨t4298, (atan2 (sqrt ((t4348 * t4348) + (t4374 * t4374))) ((((((((1 : α) * t70) + t90) + t89) * t15) + (((t95 + ((1 : α) * t71)) + t89) * t17)) + ((t99 + ((1 : α) * t72)) * t19)) + ((t99 + t89) * (0 : α)))), (atan2 ((((t4320 * (-t8)) + (t4324 * (t5 * t7))) + (t4327 * (t5 * t4))) + t4342) ((((t4320 * (t5 * t9)) + (t4324 * ((t8 * t13) + t10))) + (t4327 * ((t8 * t11) - t12))) + t4342))⟩, (273 : Int))

/-- extracted from the C++ template at T = Sym; 1 path(s) -/
def Euler.reorderToZYXr_XYX {α : Type} [Add α] [Sub α] [Mul α] [Neg α] [OfNat α 0] [OfNat α 1] (sqrt : α → α) (sin : α → α) (cos : α → α) (atan2 : α → α → α) (a : V3 α) : ((V3 α) × Int) :=
  let t4 := (cos a.x)
  let t5 := (cos a.y)
  let t6 := (cos a.z)
  let t7 := (sin a.x)
  let t8 := (sin a.y)
  let t9 := (sin a.z)
  let t10 := (t4 * t6)
  let t11 := (t4 * t9)
  let t12 := (t7 * t6)
  let t13 := (t7 * t9)
  let t66 := (cos (0 : α))
  let t68 := (sin (0 : α))
  let t70 := (t66 * t66)
  let t71 := (t68 * t66)
  let t72 := (-t68)
  let t89 := ((0 : α) * t72)
  let t90 := ((0 : α) * t71)
  let t93 := ((((1 : α) * t70) + t90) + t89)
  let t95 := ((0 : α) * t70)
  let t97 := ((t95 + ((1 : α) * t71)) + t89)
  let t99 := (t95 + t90)
  let t100 := (t99 + ((1 : α) * t72))
  let t128 := ((t99 + t89) * (0 : α))
  let t4046 := (t8 * t9)
  let t4047 := (-t5)
  let t4054 := ((t5 * t12) + t11)
  let t4056 := ((t5 * t10) - t13)
  let t4449 := ((((t93 * t5) + (t97 * (t8 * t7))) + (t100 * (t8 * t4))) + t128)
  let t4455 := ((((t93 * t4046) + (t97 * ((t4047 * t13) + t10))) + (t100 * ((t4047 * t11) - t12))) + t128)
  (⟨(atan2 t4046 t5), (atan2 (-((((t93 * ((-t8) * t6)) + (t97 * t4054)) + (t100 * t4056)) + t128)) (sqrt ((t4449 * t4449) + (t4455 * t4455)))), (atan2 t4054 t4056)⟩, (256 : Int))

/-- extracted from the C++ template at T = Sym; 1 path(s) -/
def Euler.toMatrix33_YXY {α : Type} [Add α] [Sub α] [Mul α] [Neg α] [OfNat α 1] (sin : α → α) (cos : α → α) (a : V3 α) : (M33 α) :=
  let t622 := (a.x * (-(1 : α)))
  let t623 := (a.y * (-(1 : α)))
  let t624 := (a.z * (-(1 : α)))
  let t625 := (cos t622)
  let t626 := (cos t623)
  let t627 := (cos t624)
  let t628 := (sin t622)
  let t629 := (sin t623)
  let t630 := (sin t624)
  let t631 := (t625 * t627)
  let t632 := (t625 * t630)
  let t633 := (t628 * t627)
  let t634 := (t628 * t630)
  let t3540 := (-t626)
  ⟨((t3540 * t634) + t631), (t629 * t628), ((t626 * t633) + t632), (t629 * t630), t626, ((-t629) * t627), ((t3540 * t632) - t633), (t629 * t625), ((t626 * t631) - t634)⟩

/-- extracted from the C++ template at T = Sym; 1 path(s) -/
def Euler.toMatrix44_YXY {α : Type} [Add α] [Sub α] [Mul α] [Neg α] [OfNat α 0] [OfNat α 1] (sin : α → α) (cos : α → α) (a : V3 α) : (M44 α) :=
  let t622 := (a.x * (-(1 : α)))
  let t623 := (a.y * (-(1 : α)))
  let t624 := (a.z * (-(1 : α)))
  let t625 := (cos t622)
  let t626 := (cos t623)
  let t627 := (cos t624)
  let t628 := (sin t622)
  let t629 := (sin t623)
  let t630 := (sin t624)
  let t631 := (t625 * t627)
  let t632 := (t625 * t630)
  let t633 := (t628 * t627)
  let t634 := (t628 * t630)
  let t3540 := (-t626)
  ⟨((t3540 * t634) + t631), (t629 * t628), ((t626 * t633) + t632), (0 : α), (t629 * t630), t626, ((-t629) * t627), (0 : α), ((t3540 * t632) - t633), (t629 * t625), ((t626 * t631) - t634), (0 : α), (0 : α), (0 : α), (0 : α), (1 : α)⟩

/-- extracted from the C++ template at T = Sym; 1 path(s) -/
def Euler.toQuat_YXY {α : Type} [Add α] [Sub α] [Mul α] [Div α] [Neg α] [OfNat α 1] [OfNat α 2] (sin : α → α) (cos : α → α) (a : V3 α) : (Quat α) :=
  let t29 := (a.x * ((1 : α) / (2 : α)))
  let t31 := (a.z * ((1 : α) / (2 : α)))
  let t32 := (cos t29)
  let t34 := (cos t31)
  let t35 := (sin t29)
  let t37 := (sin t31)
  let t38 := (t32 * t34)
  let t39 := (t32 * t37)
  let t40 := (t35 * t34)
  let t41 := (t35 * t37)
  let t649 := ((-a.y) * ((1 : α) / (2 : α)))
  let t650 := (cos t649)
  let t651 := (sin t649)
  ⟨(t650 * (t38 - t41)), ⟨((t651 * (t38 + t41)) * (-(1 : α))), (t650 * (t39 + t40)), (t651 * (t39 - t40))⟩⟩

/-- extracted from the C++ template at T = Sym; 1 path(s) -/
def Euler.extractM33_YXY {α : Type} [Add α] [Mul α] [Neg α] [OfNat α 0] [OfNat α 1] (sqrt : α → α) (sin : α → α) (cos : α → α) (atan2 : α → α → α) (m : M33 α) : (V3 α) :=
  let t66 := (cos (0 : α))
  let t68 := (sin (0 : α))
  let t72 := (-t68)
  let t4539 := (atan2 m.x01 m.x21)
  let t4540 := (cos t4539)
  let t4541 := (sin t4539)
  let t4542 := (t66 * t4540)
  let t4543 := (t68 * t4540)
  let t4544 := (-t4541)
  let t4545 := (t66 * t4541)
  let t4547 := ((t72 * t66) + (t4545 * t68))
  let t4548 := (t68 * t4541)
  let t4550 := ((t66 * t66) + (t4548 * t68))
  let t4551 := (t4540 * t68)
  let t4553 := ((t72 * t72) + (t4545 * t66))
  let t4555 := ((t66 * t72) + (t4548 * t66))
  let t4556 := (t4540 * t66)
  let t4557 := ((0 : α) * t4544)
  let t4558 := ((0 : α) * t4543)
  let t4561 := ((((1 : α) * t4542) + t4558) + t4557)
  let t4563 := ((0 : α) * t4542)
  let t4565 := ((t4563 + ((1 : α) * t4543)) + t4557)
  let t4567 := (t4563 + t4558)
  let t4568 := (t4567 + ((1 : α) * t4544))
  let t4570 := ((0 : α) * t4551)
  let t4571 := ((0 : α) * t4550)
  let t4576 := ((0 : α) * t4547)
  let t4580 := (t4576 + t4571)
  let t4583 := ((0 : α) * t4556)
  let t4584 := ((0 : α) * t4555)
  let t4589 := ((0 : α) * t4553)
  let t4593 := (t4589 + t4584)
  let t4596 := ((t4567 + t4557) * (0 : α))
  let t4608 := ((((t4561 * m.x01) + (t4565 * m.x11)) + (t4568 * m.x21)) + t4596)
  let t4660 := ((((((((1 : α) * t4553) + t4584) + t4583) * m.x01) + (((t4589 + ((1 : α) * t4555)) + t4583) * m.x11)) + ((t4593 + ((1 : α) * t4556)) * m.x21)) + ((t4593 + t4583) * (0 : α)))
  ⟨(t4539 * (-(1 : α))), ((atan2 (sqrt ((t4608 * t4608) + (t4660 * t4660))) ((((((((1 : α) * t4547) + t4571) + t4570) * m.x01) + (((t4576 + ((1 : α) * t4550)) + t4570) * m.x11)) + ((t4580 + ((1 : α) * t4551)) * m.x21)) + ((t4580 + t4570) * (0 : α)))) * (-(1 : α))), ((atan2 ((((t4561 * m.x02) + (t4565 * m.x12)) + (t4568 * m.x22)) + t4596) ((((t4561 * m.x00) + (t4565 * m.x10)) + (t4568 * m.x20)) + t4596)) * (-(1 : α)))⟩

/-- extracted from the C++ template at T = Sym; 1 path(s) -/
def Euler.extractM44_YXY {α : Type} [Add α] [Mul α] [Neg α] [OfNat α 0] [OfNat α 1] (sqrt : α → α) (sin : α → α) (cos : α → α) (atan2 : α → α → α) (m : M44 α) : (V3 α) :=
  let t66 := (cos (0 : α))
  let t68 := (sin (0 : α))
  let t72 := (-t68)
  let t4539 := (atan2 m.x01 m.x21)
  let t4540 := (cos t4539)
  let t4541 := (sin t4539)
  let t4542 := (t66 * t4540)
  let t4543 := (t68 * t4540)
  let t4544 := (-t4541)
  let t4545 := (t66 * t4541)
  let t4547 := ((t72 * t66) + (t4545 * t68))
  let t4548 := (t68 * t4541)
  let t4550 := ((t66 * t66) + (t4548 * t68))
  let t4551 := (t4540 * t68)
  let t4553 := ((t72 * t72) + (t4545 * t66))
  let t4555 := ((t66 * t72) + (t4548 * t66))
  let t4556 := (t4540 * t66)
  let t4557 := ((0 : α) * t4544)
  let t4558 := ((0 : α) * t4543)
  let t4561 := ((((1 : α) * t4542) + t4558) + t4557)
  let t4563 := ((0 : α) * t4542)
  let t4565 := ((t4563 + ((1 : α) * t4543)) + t4557)
  let t4567 := (t4563 + t4558)
  let t4568 := (t4567 + ((1 : α) * t4544))
  let t4569 := (t4567 + t4557)
  let t4570 := ((0 : α) * t4551)
  let t4571 := ((0 : α) * t4550)
  let t4576 := ((0 : α) * t4547)
  let t4580 := (t4576 + t4571)
  let t4583 := ((0 : α) * t4556)
  let t4584 := ((0 : α) * t4555)
  let t4589 := ((0 : α) * t4553)
  let t4593 := (t4589 + t4584)
  let t4686 := ((((t4561 * m.x01) + (t4565 * m.x11)) + (t4568 * m.x21)) + (t4569 * m.x31))
  let t4712 := ((((((((1 : α) * t4553) + t4584) + t4583) * m.x01) + (((t4589 + ((1 : α) * t4555)) + t4583) * m.x11)) + ((t4593 + ((1 : α) * t4556)) * m.x21)) + ((t4593 + t4583) * m.x31))
  ⟨(t4539 * (-(1 : α))), ((atan2 (sqrt ((t4686 * t4686) + (t4712 * t4712))) ((((((((1 : α) * t4547) + t4571) + t4570) * m.x01) + (((t4576 + ((1 : α) * t4550)) + t4570) * m.x11)) + ((t4580 + ((1 : α) * t4551)) * m.x21)) + ((t4580 + t4570) * m.x31))) * (-(1 : α))), ((atan2 ((((t4561 * m.x02) + (t4565 * m.x12)) + (t4568 * m.x22)) + (t4569 * m.x32)) ((((t4561 * m.x00) + (t4565 * m.x10)) + (t4568 * m.x20)) + (t4569 * m.x30))) * (-(1 : α)))⟩

/-- extracted from the C++ template at T = Sym; 1 path(s) -/
def Euler.ctorM33_YXY {α : Type} [Add α] [Mul α] [Neg α] [OfNat α 0] [OfNat α 1] (sqrt : α → α) (sin : α → α) (cos : α → α) (atan2 : α → α → α) (m : M33 α) : ((V3 α) × Int) :=
  let t66 := (cos (0 : α))
  let t68 := (sin (0 : α))
  let t72 := (-t68)
  let t4539 := (atan2 m.x01 m.x21)
  let t4540 := (cos t4539)
  let t4541 := (sin t4539)
  let t4542 := (t66 * t4540)
  let t4543 := (t68 * t4540)
  let t4544 := (-t4541)
  let t4545 := (t66 * t4541)
  let t4547 := ((t72 * t66) + (t4545 * t68))
  let t4548 := (t68 * t4541)
  let t4550 := ((t66 * t66) + (t4548 * t68))
  let t4551 := (t4540 * t68)
  let t4553 := ((t72 * t72) + (t4545 * t66))
  let t4555 := ((t66 * t72) + (t4548 * t66))
  let t4556 := (t4540 * t66)
  let t4557 := ((0 : α) * t4544)
  let t4558 := ((0 : α) * t4543)
  let t4561 := ((((1 : α) * t4542) + t4558) + t4557)
  let t4563 := ((0 : α) * t4542)
  let t4565 := ((t4563 + ((1 : α) * t4543)) + t4557)
  let t4567 := (t4563 + t4558)
  let t4568 := (t4567 + ((1 : α) * t4544))
  let t4570 := ((0 : α) * t4551)
  let t4571 := ((0 : α) * t4550)
  let t4576 := ((0 : α) * t4547)
  let t4580 := (t4576 + t4571)
  let t4583 := ((0 : α) * t4556)
  let t4584 := ((0 : α) * t4555)
  let t4589 := ((0 : α) * t4553)
  let t4593 := (t4589 + t4584)
  let t4596 := ((t4567 + t4557) * (0 : α))
  let t4608 := ((((t4561 * m.x01) + (t4565 * m.x11)) + (t4568 * m.x21)) + t4596)
  let t4660 := ((((((((1 : α) * t4553) + t4584) + t4583) * m.x01) + (((t4589 + ((1 : α) * t4555)) + t4583) * m.x11)) + ((t4593 + ((1 : α) * t4556)) * m.x21)) + ((t4593 + t4583) * (0 : α)))
  (⟨(t4539 * (-(1 : α))), ((atan2 (sqrt ((t4608 * t4608) + (t4660 * t4660))) ((((((((1 : α) * t4547) + t4571) + t4570) * m.x01) + (((t4576 + ((1 : α) * t4550)) + t4570) * m.x11)) + ((t4580 + ((1 : α) * t4551)) * m.x21)) + ((t4580 + t4570) * (0 : α)))) * (-(1 : α))), ((atan2 ((((t4561 * m.x02) + (t4565 * m.x12)) + (t4568 * m.x22)) + t4596) ((((t4561 * m.x00) + (t4565 * m.x10)) + (t4568 * m.x20)) + t4596)) * (-(1 : α)))⟩, (4113 : Int))

/-- extracted from the C++ template at T = Sym; 1 path(s) -/
def Euler.ctorM44_YXY {α : Type} [Add α] [Mul α] [Neg α] [OfNat α 0] [OfNat α 1] (sqrt : α → α) (sin : α → α) (cos : α → α) (atan2 : α → α → α) (m : M44 α) : ((V3 α) × Int) :=
  let t66 := (cos (0 : α))
  let t68 := (sin (0 : α))
  let t72 := (-t68)
  let t4539 := (atan2 m.x01 m.x21)
  let t4540 := (cos t4539)
  let t4541 := (sin t4539)
  let t4542 := (t66 * t4540)
  let t4543 := (t68 * t4540)
  let t4544 := (-t4541)
  let t4545 := (t66 * t4541)
  let t4547 := ((t72 * t66) + (t4545 * t68))
  let t4548 := (t68 * t4541)
  let t4550 := ((t66 * t66) + (t4548 * t68))
  let t4551 := (t4540 * t68)
  let t4553 := ((t72 * t72) + (t4545 * t66))
  let t4555 := ((t66 * t72) + (t4548 * t66))
  let t4556 := (t4540 * t66)
  let t4557 := ((0 : α) * t4544)
  let t4558 := ((0 : α) * t4543)
  let t4561 := ((((1 : α) * t4542) + t4558) + t4557)
  let t4563 := ((0 : α) * t4542)
  let t4565 := ((t4563 + ((1 : α) * t4543)) + t4557)
  let t4567 := (t4563 + t4558)
  let t4568 := (t4567 + ((1 : α) * t4544))
  let t4569 := (t4567 + t4557)
  let t4570 := ((0 : α) * t4551)
  let t4571 := ((0 : α) * t4550)
  let t4576 := ((0 : α) * t4547)
  let t4580 := (t4576 + t4571)
  let t4583 := ((0 : α) * t4556)
  let t4584 := ((0 : α) * t4555)
  let t4589 := ((0 : α) * t4553)
  let t4593 := (t4589 + t4584)
  let t4686 := ((((t4561 * m.x01) + (t4565 * m.x11)) + (t4568 * m.x21)) + (t4569 * m.x31))
  let t4712 := ((((((((1 : α) * t4553) + t4584) + t4583) * m.x01) + (((t4589 + ((1 : α) * t4555)) + t4583) * m.x11)) + ((t4593 + ((1 : α) * t4556)) * m.x21)) + ((t4593 + t4583) * m.x31))
  (⟨(t4539 * (-(1 : α))), ((atan2 (sqrt ((t4686 * t4686) + (t4712 * t4712))) ((((((((1 : α) * t4547) + t4571) + t4570) * m.x01) + (((t4576 + ((1 : α) * t4550)) + t4570) * m.x11)) + ((t4580 + ((1 : α) * t4551)) * m.x21)) + ((t4580 + t4570) * m.x31))) * (-(1 : α))), ((atan2 ((((t4561 * m.x02) + (t4565 * m.x12)) + (t4568 * m.x22)) + (t4569 * m.x32)) ((((t4561 * m.x00) + (t4565 * m.x10)) + (t4568 * m.x20)) + (t4569 * m.x30))) * (-(1 : α)))⟩, (4113 : Int))

/-- extracted from the C++ template at T = Sym; 1 path(s) -/
def Euler.extractQuat_YXY {α : Type} [Add α] [Sub α] [Mul α] [Neg α] [OfNat α 0] [OfNat α 1] [OfNat α 2] (sqrt : α → α) (sin : α → α) (cos : α → α) (atan2 : α → α → α) (q : Quat α) : (V3 α) :=
  let t66 := (cos (0 : α))
  let t68 := (sin (0 : α))
  let t72 := (-t68)
  let t306 := (q.v.x * q.v.x)
  let t307 := (q.v.y * q.v.y)
  let t312 := (q.v.x * q.r)
  let t313 := (q.v.y * q.v.z)
  let t315 := ((2 : α) * (t313 - t312))
  let t316 := (q.v.y * q.r)
  let t317 := (q.v.z * q.v.x)
  let t322 := (q.v.z * q.v.z)
  let t325 := ((1 : α) - ((2 : α) * (t322 + t306)))
  let t326 := (q.v.z * q.r)
  let t327 := (q.v.x * q.v.y)
  let t333 := ((2 : α) * (t327 + t326))
  let t4730 := (atan2 t333 t315)
  let t4731 := (cos t4730)
  let t4732 := (sin t4730)
  let t4733 := (t66 * t4731)
  let t4734 := (t68 * t4731)
  let t4735 := (-t4732)
  let t4736 := (t66 * t4732)
  let t4738 := ((t72 * t66) + (t4736 * t68))
  let t4739 := (t68 * t4732)
  let t4741 := ((t66 * t66) + (t4739 * t68))
  let t4742 := (t4731 * t68)
  let t4744 := ((t72 * t72) + (t4736 * t66))
  let t4746 := ((t66 * t72) + (t4739 * t66))
  let t4747 := (t4731 * t66)
  let t4748 := ((0 : α) * t4735)
  let t4749 := ((0 : α) * t4734)
  let t4752 := ((((1 : α) * t4733) + t4749) + t4748)
  let t4754 := ((0 : α) * t4733)
  let t4756 := ((t4754 + ((1 : α) * t4734)) + t4748)
  let t4758 := (t4754 + t4749)
  let t4759 := (t4758 + ((1 : α) * t4735))
  let t4761 := ((0 : α) * t4742)
  let t4762 := ((0 : α) * t4741)
  let t4767 := ((0 : α) * t4738)
  let t4771 := (t4767 + t4762)
  let t4774 := ((0 : α) * t4747)
  let t4775 := ((0 : α) * t4746)
  let t4780 := ((0 : α) * t4744)
  let t4784 := (t4780 + t4775)
  let t4787 := ((t4758 + t4748) * (0 : α))
  let t4799 := ((((t4752 * t333) + (t4756 * t325)) + (t4759 * t315)) + t4787)
  let t4851 := ((((((((1 : α) * t4744) + t4775) + t4774) * t333) + (((t4780 + ((1 : α) * t4746)) + t4774) * t325)) + ((t4784 + ((1 : α) * t4747)) * t315)) + ((t4784 + t4774) * (0 : α)))
  ⟨(t4730 * (-(1 : α))), ((atan2 (sqrt ((t4799 * t4799) + (t4851 * t4851))) ((((((((1 : α) * t4738) + t4762) + t4761) * t333) + (((t4767 + ((1 : α) * t4741)) + t4761) * t325)) + ((t4771 + ((1 : α) * t4742)) * t315)) + ((t4771 + t4761) * (0 : α)))) * (-(1 : α))), ((atan2 ((((t4752 * ((2 : α) * (t317 - t316))) + (t4756 * ((2 : α) * (t313 + t312)))) + (t4759 * ((1 : α) - ((2 : α) * (t307 + t306))))) + t4787) ((((t4752 * ((1 : α) - ((2 : α) * (t307 + t322)))) + (t4756 * ((2 : α) * (t327 - t326)))) + (t4759 * ((2 : α) * (t317 + t316)))) + t4787)) * (-(1 : α)))⟩

/-- extracted from the C++ template at T = Sym; 1 path(s) -/
def Euler.ctorXYZLayout_YXY {α : Type} (v : V3 α) : ((V3 α) × Int) :=
  (⟨v.y, v.x, v.z⟩, (4113 : Int))

/-- extracted from the C++ template at T = Sym; 1 path(s) -/
def Euler.ctorXYZLayoutScalars_YXY {α : Type} (xi : α) (yi : α) (zi : α) : ((V3 α) × Int) :=
  (⟨yi, xi, zi⟩, (4113 : Int))

/-- extracted from the C++ template at T = Sym; 1 path(s) -/
def Euler.ctorIJKLayout_YXY {α : Type} (v : V3 α) : ((V3 α) × Int) :=
  (⟨v.x, v.y, v.z⟩, (4113 : Int))

/-- extracted from the C++ template at T = Sym; 1 path(s) -/
def Euler.setXYZVector_YXY {α : Type} (a : V3 α) (v : V3 α) : (V3 α) :=
  ⟨v.y, v.x, v.z⟩

/-- extracted from the C++ template at T = Sym; 1 path(s) -/
def Euler.toXYZVector_YXY {α : Type} (a : V3 α) : (V3 α) :=
  ⟨a.y, a.x, a.z⟩

/-- extracted from the C++ template at T = Sym; 1 path(s) -/
def Euler.angleOrder_YXY {α : Type} : (Int × Int × Int) :=
  ((1 : Int), (0 : Int), (2 : Int))

/-- extracted from the C++ template at T = Sym; 1 path(s) -/
def Euler.angleMapping_YXY {α : Type} : (Int × Int × Int) :=
  ((1 : Int), (0 : Int), (2 : Int))

/-- extracted from the C++ template at T = Sym; 1 path(s) -/
def Euler.order_YXY {α : Type} : (Int × Bool × Bool × Bool × Bool × Int) :=
  ((4113 : Int), true, true, true, false, (1 : Int))

/-- extracted from the C++ template at T = Sym; 1 path(s) -/
def Euler.setOrderKeepsAngles_YXY {α : Type} (a : V3 α) : ((V3 α) × Int) :=
  (⟨a.x, a.y, a.z⟩, (4113 : Int))

/-- extracted from the C++ template at T = Sym; 1 path(s) -/
def Euler.copyAndAssign_YXY {α : Type} (a : V3 α) (v : V3 α) : ((V3 α) × Int × (V3 α) × Int × (V3 α) × Int) :=
  (⟨a.x, a.y, a.z⟩, (4113 : Int), ⟨a.x, a.y, a.z⟩, (4113 : Int), ⟨v.x, v.y, v.z⟩, (4113 : Int))

/-- extracted from the C++ template at T = Sym; 1 path(s) -/
def Euler.reorderFromXYZ_YXY {α : Type} [Add α] [Sub α] [Mul α] [Neg α] [OfNat α 0] [OfNat α 1] (sqrt : α → α) (sin : α → α) (cos : α → α) (atan2 : α → α → α) (a : V3 α) : ((V3 α) × Int) :=
  let t4 := (cos a.x)
  let t5 := (cos a.y)
  let t6 := (cos a.z)
  let t7 := (sin a.x)
  let t8 := (sin a.y)
  let t9 := (sin a.z)
  let t10 := (t4 * t6)
  let t11 := (t4 * t9)
  let t12 := (t7 * t6)
  let t13 := (t7 * t9)
  let t20 := (t5 * t9)
  let t22 := ((t8 * t13) + t10)
  let t24 := ((t8 * t11) - t12)
  let t66 := (cos (0 : α))
  let t68 := (sin (0 : α))
  let t72 := (-t68)
  let t4874 := (atan2 t20 t24)
  let t4875 := (cos t4874)
  let t4876 := (sin t4874)
  let t4877 := (t66 * t4875)
  let t4878 := (t68 * t4875)
  let t4879 := (-t4876)
  let t4880 := (t66 * t4876)
  let t4882 := ((t72 * t66) + (t4880 * t68))
  let t4883 := (t68 * t4876)
  let t4885 := ((t66 * t66) + (t4883 * t68))
  let t4886 := (t4875 * t68)
  let t4888 := ((t72 * t72) + (t4880 * t66))
  let t4890 := ((t66 * t72) + (t4883 * t66))
  let t4891 := (t4875 * t66)
  let t4892 := ((0 : α) * t4879)
  let t4893 := ((0 : α) * t4878)
  let t4896 := ((((1 : α) * t4877) + t4893) + t4892)
  let t4898 := ((0 : α) * t4877)
  let t4900 := ((t4898 + ((1 : α) * t4878)) + t4892)
  let t4902 := (t4898 + t4893)
  let t4903 := (t4902 + ((1 : α) * t4879))
  let t4905 := ((0 : α) * t4886)
  let t4906 := ((0 : α) * t4885)
  let t4911 := ((0 : α) * t4882)
  let t4915 := (t4911 + t4906)
  let t4918 := ((0 : α) * t4891)
  let t4919 := ((0 : α) * t4890)
  let t4924 := ((0 : α) * t4888)
  let t4928 := (t4924 + t4919)
  let t4931 := ((t4902 + t4892) * (0 : α))
  let t4943 := ((((t4896 * t20) + (t4900 * t22)) + (t4903 * t24)) + t4931)
  let t4995 := ((((((((1 : α) * t4888) + t4919) + t4918) * t20) + (((t4924 + ((1 : α) * t4890)) + t4918) * t22)) + ((t4928 + ((1 : α) * t4891)) * t24)) + ((t4928 + t4918) * (0 : α)))
  (⟨(t4874 * (-(1 : α))), ((atan2 (sqrt ((t4943 * t4943) + (t4995 * t4995))) ((((((((1 : α) * t4882) + t4906) + t4905) * t20) + (((t4911 + ((1 : α) * t4885)) + t4905) * t22)) + ((t4915 + ((1 : α) * t4886)) * t24)) + ((t4915 + t4905) * (0 : α)))) * (-(1 : α))), ((atan2 ((((t4896 * (-t8)) + (t4900 * (t5 * t7))) + (t4903 * (t5 * t4))) + t4931) ((((t4896 * (t5 * t6)) + (t4900 * ((t8 * t12) - t11))) + (t4903 * ((t8 * t10) + t13))) + t4931)) * (-(1 : α)))⟩, (4113 : Int))

/-- extracted from the C++ template at T = Sym; 1 path(s) -/
def Euler.reorderToZYXr_YXY {α : Type} [Add α] [Sub α] [Mul α] [Neg α] [OfNat α 0] [OfNat α 1] (sqrt : α → α) (sin : α → α) (cos : α → α) (atan2 : α → α → α) (a : V3 α) : ((V3 α) × Int) :=
  let t66 := (cos (0 : α))
  let t68 := (sin (0 : α))
  let t70 := (t66 * t66)
  let t71 := (t68 * t66)
  let t72 := (-t68)
  let t89 := ((0 : α) * t72)
  let t90 := ((0 : α) * t71)
  let t93 := ((((1 : α) * t70) + t90) + t89)
  let t95 := ((0 : α) * t70)
  let t97 := ((t95 + ((1 : α) * t71)) + t89)
  let t99 := (t95 + t90)
  let t100 := (t99 + ((1 : α) * t72))
  let t128 := ((t99 + t89) * (0 : α))
  let t622 := (a.x * (-(1 : α)))
  let t623 := (a.y * (-(1 : α)))
  let t624 := (a.z * (-(1 : α)))
  let t625 := (cos t622)
  let t626 := (cos t623)
  let t627 := (cos t624)
  let t628 := (sin t622)
  let t629 := (sin t623)
  let t630 := (sin t624)
  let t631 := (t625 * t627)
  let t632 := (t625 * t630)
  let t633 := (t628 * t627)
  let t634 := (t628 * t630)
  let t3537 := (t629 * t628)
  let t3540 := (-t626)
  let t3542 := ((t3540 * t634) + t631)
  let t3545 := ((-t629) * t627)
  let t3549 := ((t626 * t631) - t634)
  let t5067 := ((((t93 * t3542) + (t97 * (t629 * t630))) + (t100 * ((t3540 * t632) - t633))) + t128)
  let t5073 := ((((t93 * t3537) + (t97 * t626)) + (t100 * (t629 * t625))) + t128)
  (⟨(atan2 t3537 t3542), (atan2 (-((((t93 * ((t626 * t633) + t632)) + (t97 * t3545)) + (t100 * t3549)) + t128)) (sqrt ((t5067 * t5067) + (t5073 * t5073)))), (atan2 t3545 t3549)⟩, (256 : Int))

/-- extracted from the C++ template at T = Sym; 1 path(s) -/
def Euler.toMatrix33_YZY {α : Type} [Add α] [Sub α] [Mul α] [Neg α] (sin : α → α) (cos : α → α) (a : V3 α) : (M33 α) :=
  let t4 := (cos a.x)
  let t5 := (cos a.y)
  let t6 := (cos a.z)
  let t7 := (sin a.x)
  let t8 := (sin a.y)
  let t9 := (sin a.z)
  let t10 := (t4 * t6)
  let t11 := (t4 * t9)
  let t12 := (t7 * t6)
  let t13 := (t7 * t9)
  let t4047 := (-t5)
  ⟨((t5 * t10) - t13), (t8 * t4), ((t4047 * t11) - t12), ((-t8) * t6), t5, (t8 * t9), ((t5 * t12) + t11), (t8 * t7), ((t4047 * t13) + t10)⟩

/-- extracted from the C++ template at T = Sym; 1 path(s) -/
def Euler.toMatrix44_YZY {α : Type} [Add α] [Sub α] [Mul α] [Neg α] [OfNat α 0] [OfNat α 1] (sin : α → α) (cos : α → α) (a : V3 α) : (M44 α) :=
  let t4 := (cos a.x)
  let t5 := (cos a.y)
  let t6 := (cos a.z)
  let t7 := (sin a.x)
  let t8 := (sin a.y)
  let t9 := (sin a.z)
  let t10 := (t4 * t6)
  let t11 := (t4 * t9)
  let t12 := (t7 * t6)
  let t13 := (t7 * t9)
  let t4047 := (-t5)
  ⟨((t5 * t10) - t13), (t8 * t4), ((t4047 * t11) - t12), (0 : α), ((-t8) * t6), t5, (t8 * t9), (0 : α), ((t5 * t12) + t11), (t8 * t7), ((t4047 * t13) + t10), (0 : α), (0 : α), (0 : α), (0 : α), (1 : α)⟩

/-- extracted from the C++ template at T = Sym; 1 path(s) -/
def Euler.toQuat_YZY {α : Type} [Add α] [Sub α] [Mul α] [Div α] [OfNat α 1] [OfNat α 2] (sin : α → α) (cos : α → α) (a : V3 α) : (Quat α) :=
  let t29 := (a.x * ((1 : α) / (2 : α)))
  let t30 := (a.y * ((1 : α) / (2 : α)))
  let t31 := (a.z * ((1 : α) / (2 : α)))
  let t32 := (cos t29)
  let t33 := (cos t30)
  let t34 := (cos t31)
  let t35 := (sin t29)
  let t36 := (sin t30)
  let t37 := (sin t31)
  let t38 := (t32 * t34)
  let t39 := (t32 * t37)
  let t40 := (t35 * t34)
  let t41 := (t35 * t37)
  ⟨(t33 * (t38 - t41)), ⟨(t36 * (t39 - t40)), (t33 * (t39 + t40)), ((t36 * (t38 + t41)) * (1 : α))⟩⟩

/-- extracted from the C++ template at T = Sym; 1 path(s) -/
def Euler.extractM33_YZY {α : Type} [Add α] [Mul α] [Neg α] [OfNat α 0] [OfNat α 1] (sqrt : α → α) (sin : α → α) (cos : α → α) (atan2 : α → α → α) (m : M33 α) : (V3 α) :=
  let t66 := (cos (0 : α))
  let t68 := (sin (0 : α))
  let t72 := (-t68)
  let t5148 := (atan2 m.x21 m.x01)
  let t5149 := (-t5148)
  let t5150 := (cos t5149)
  let t5151 := (sin t5149)
  let t5152 := (t66 * t5150)
  let t5153 := (t68 * t5150)
  let t5154 := (-t5151)
  let t5155 := (t66 * t5151)
  let t5157 := ((t72 * t66) + (t5155 * t68))
  let t5158 := (t68 * t5151)
  let t5160 := ((t66 * t66) + (t5158 * t68))
  let t5161 := (t5150 * t68)
  let t5163 := ((t72 * t72) + (t5155 * t66))
  let t5165 := ((t66 * t72) + (t5158 * t66))
  let t5166 := (t5150 * t66)
  let t5167 := ((0 : α) * t5154)
  let t5168 := ((0 : α) * t5153)
  let t5173 := ((0 : α) * t5152)
  let t5177 := (t5173 + t5168)
  let t5180 := ((0 : α) * t5161)
  let t5181 := ((0 : α) * t5160)
  let t5186 := ((0 : α) * t5157)
  let t5190 := (t5186 + t5181)
  let t5193 := ((0 : α) * t5166)
  let t5194 := ((0 : α) * t5165)
  let t5197 := ((((1 : α) * t5163) + t5194) + t5193)
  let t5199 := ((0 : α) * t5163)
  let t5201 := ((t5199 + ((1 : α) * t5165)) + t5193)
  let t5203 := (t5199 + t5194)
  let t5204 := (t5203 + ((1 : α) * t5166))
  let t5218 := ((((((((1 : α) * t5152) + t5168) + t5167) * m.x01) + (((t5173 + ((1 : α) * t5153)) + t5167) * m.x11)) + ((t5177 + ((1 : α) * t5154)) * m.x21)) + ((t5177 + t5167) * (0 : α)))
  let t5258 := ((t5203 + t5193) * (0 : α))
  let t5270 := ((((t5197 * m.x01) + (t5201 * m.x11)) + (t5204 * m.x21)) + t5258)
  ⟨t5148, (atan2 (sqrt ((t5270 * t5270) + (t5218 * t5218))) ((((((((1 : α) * t5157) + t5181) + t5180) * m.x01) + (((t5186 + ((1 : α) * t5160)) + t5180) * m.x11)) + ((t5190 + ((1 : α) * t5161)) * m.x21)) + ((t5190 + t5180) * (0 : α)))), (atan2 ((((t5197 * m.x00) + (t5201 * m.x10)) + (t5204 * m.x20)) + t5258) ((((t5197 * m.x02) + (t5201 * m.x12)) + (t5204 * m.x22)) + t5258))⟩

/-- extracted from the C++ template at T = Sym; 1 path(s) -/
def Euler.extractM44_YZY {α : Type} [Add α] [Mul α] [Neg α] [OfNat α 0] [OfNat α 1] (sqrt : α → α) (sin : α → α) (cos : α → α) (atan2 : α → α → α) (m : M44 α) : (V3 α) :=
  let t66 := (cos (0 : α))
  let t68 := (sin (0 : α))
  let t72 := (-t68)
  let t5148 := (atan2 m.x21 m.x01)
  let t5149 := (-t5148)
  let t5150 := (cos t5149)
  let t5151 := (sin t5149)
  let t5152 := (t66 * t5150)
  let t5153 := (t68 * t5150)
  let t5154 := (-t5151)
  let t5155 := (t66 * t5151)
  let t5157 := ((t72 * t66) + (t5155 * t68))
  let t5158 := (t68 * t5151)
  let t5160 := ((t66 * t66) + (t5158 * t68))
  let t5161 := (t5150 * t68)
  let t5163 := ((t72 * t72) + (t5155 * t66))
  let t5165 := ((t66 * t72) + (t5158 * t66))
  let t5166 := (t5150 * t66)
  let t5167 := ((0 : α) * t5154)
  let t5168 := ((0 : α) * t5153)
  let t5173 := ((0 : α) * t5152)
  let t5177 := (t5173 + t5168)
  let t5180 := ((0 : α) * t5161)
  let t5181 := ((0 : α) * t5160)
  let t5186 := ((0 : α) * t5157)
  let t5190 := (t5186 + t5181)
  let t5193 := ((0 : α) * t5166)
  let t5194 := ((0 : α) * t5165)
  let t5197 := ((((1 : α) * t5163) + t5194) + t5193)
  let t5199 := ((0 : α) * t5163)
  let t5201 := ((t5199 + ((1 : α) * t5165)) + t5193)
  let t5203 := (t5199 + t5194)
  let t5204 := (t5203 + ((1 : α) * t5166))
  let t5205 := (t5203 + t5193)
  let t5293 := ((((((((1 : α) * t5152) + t5168) + t5167) * m.x01) + (((t5173 + ((1 : α) * t5153)) + t5167) * m.x11)) + ((t5177 + ((1 : α) * t5154)) * m.x21)) + ((t5177 + t5167) * m.x31))
  let t5319 := ((((t5197 * m.x01) + (t5201 * m.x11)) + (t5204 * m.x21)) + (t5205 * m.x31))
  ⟨t5148, (atan2 (sqrt ((t5319 * t5319) + (t5293 * t5293))) ((((((((1 : α) * t5157) + t5181) + t5180) * m.x01) + (((t5186 + ((1 : α) * t5160)) + t5180) * m.x11)) + ((t5190 + ((1 : α) * t5161)) * m.x21)) + ((t5190 + t5180) * m.x31))), (atan2 ((((t5197 * m.x00) + (t5201 * m.x10)) + (t5204 * m.x20)) + (t5205 * m.x30)) ((((t5197 * m.x02) + (t5201 * m.x12)) + (t5204 * m.x22)) + (t5205 * m.x32)))⟩

/-- extracted from the C++ template at T = Sym; 1 path(s) -/
def Euler.ctorM33_YZY {α : Type} [Add α] [Mul α] [Neg α] [OfNat α 0] [OfNat α 1] (sqrt : α → α) (sin : α → α) (cos : α → α) (atan2 : α → α → α) (m : M33 α) : ((V3 α) × Int) :=
  let t66 := (cos (0 : α))
  let t68 := (sin (0 : α))
  let t72 := (-t68)
  let t5148 := (atan2 m.x21 m.x01)
  let t5149 := (-t5148)
  let t5150 := (cos t5149)
  let t5151 := (sin t5149)
  let t5152 := (t66 * t5150)
  let t5153 := (t68 * t5150)
  let t5154 := (-t5151)
  let t5155 := (t66 * t5151)
  let t5157 := ((t72 * t66) + (t5155 * t68))
  let t5158 := (t68 * t5151)
  let t5160 := ((t66 * t66) + (t5158 * t68))
  let t5161 := (t5150 * t68)
  let t5163 := ((t72 * t72) + (t5155 * t66))
  let t5165 := ((t66 * t72) + (t5158 * t66))
  let t5166 := (t5150 * t66)
  let t5167 := ((0 : α) * t5154)
  let t5168 := ((0 : α) * t5153)
  let t5173 := ((0 : α) * t5152)
  let t5177 := (t5173 + t5168)
  let t5180 := ((0 : α) * t5161)
  let t5181 := ((0 : α) * t5160)
  let t5186 := ((0 : α) * t5157)
  let t5190 := (t5186 + t5181)
  let t5193 := ((0 : α) * t5166)
  let t5194 := ((0 : α) * t5165)
  let t5197 := ((((1 : α) * t5163) + t5194) + t5193)
  let t5199 := ((0 : α) * t5163)
  let t5201 := ((t5199 + ((1 : α) * t5165)) + t5193)
  let t5203 := (t5199 + t5194)
  let t5204 := (t5203 + ((1 : α) * t5166))
  let t5218 := ((((((((1 : α) * t5152) + t5168) + t5167) * m.x01) + (((t5173 + ((1 : α) * t5153)) + t5167) * m.x11)) + ((t5177 + ((1 : α) * t5154)) * m.x21)) + ((t5177 + t5167) * (0 : α)))
  let t5258 := ((t5203 + t5193) * (0 : α))
  let t5270 := ((((t5197 * m.x01) + (t5201 * m.x11)) + (t5204 * m.x21)) + t5258)
  (⟨t5148, (atan2 (sqrt ((t5270 * t5270) + (t5218 * t5218))) ((((((((1 : α) * t5157) + t5181) + t5180) * m.x01) + (((t5186 + ((1 : α) * t5160)) + t5180) * m.x11)) + ((t5190 + ((1 : α) * t5161)) * m.x21)) + ((t5190 + t5180) * (0 : α)))), (atan2 ((((t5197 * m.x00) + (t5201 * m.x10)) + (t5204 * m.x20)) + t5258) ((((t5197 * m.x02) + (t5201 * m.x12)) + (t5204 * m.x22)) + t5258))⟩, (4369 : Int))

/-- extracted from the C++ template at T = Sym; 1 path(s) -/
def Euler.ctorM44_YZY {α : Type} [Add α] [Mul α] [Neg α] [OfNat α 0] [OfNat α 1] (sqrt : α → α) (sin : α → α) (cos : α → α) (atan2 : α → α → α) (m : M44 α) : ((V3 α) × Int) :=
  let t66 := (cos (0 : α))
  let t68 := (sin (0 : α))
  let t72 := (-t68)
  let t5148 := (atan2 m.x21 m.x01)
  let t5149 := (-t5148)
  let t5150 := (cos t5149)
  let t5151 := (sin t5149)
  let t5152 := (t66 * t5150)
  let t5153 := (t68 * t5150)
  let t5154 := (-t5151)
  let t5155 := (t66 * t5151)
  let t5157 := ((t72 * t66) + (t5155 * t68))
  let t5158 := (t68 * t5151)
  let t5160 := ((t66 * t66) + (t5158 * t68))
  let t5161 := (t5150 * t68)
  let t5163 := ((t72 * t72) + (t5155 * t66))
  let t5165 := ((t66 * t72) + (t5158 * t66))
  let t5166 := (t5150 * t66)
  let t5167 := ((0 : α) * t5154)
  let t5168 := ((0 : α) * t5153)
  let t5173 := ((0 : α) * t5152)
  let t5177 := (t5173 + t5168)
  let t5180 := ((0 : α) * t5161)
  let t5181 := ((0 : α) * t5160)
  let t5186 := ((0 : α) * t5157)
  let t5190 := (t5186 + t5181)
  let t5193 := ((0 : α) * t5166)
  let t5194 := ((0 : α) * t5165)
  let t5197 := ((((1 : α) * t5163) + t5194) + t5193)
  let t5199 := ((0 : α) * t5163)
  let t5201 := ((t5199 + ((1 : α) * t5165)) + t5193)
  let t5203 := (t5199 + t5194)
  let t5204 := (t5203 + ((1 : α) * t5166))
  let t5205 := (t5203 + t5193)
  let t5293 := ((((((((1 : α) * t5152) + t5168) + t5167) * m.x01) + (((t5173 + ((1 : α) * t5153)) + t5167) * m.x11)) + ((t5177 + ((1 : α) * t5154)) * m.x21)) + ((t5177 + t5167) * m.x31))
  let t5319 := ((((t5197 * m.x01) + (t5201 * m.x11)) + (t5204 * m.x21)) + (t5205 * m.x31))
  (⟨t5148, (atan2 (sqrt ((t5319 * t5319) + (t5293 * t5293))) ((((((((1 : α) * t5157) + t5181) + t5180) * m.x01) + (((t5186 + ((1 : α) * t5160)) + t5180) * m.x11)) + ((t5190 + ((1 : α) * t5161)) * m.x21)) + ((t5190 + t5180) * m.x31))), (atan2 ((((t5197 * m.x00) + (t5201 * m.x10)) + (t5204 * m.x20)) + (t5205 * m.x30)) ((((t5197 * m.x02) + (t5201 * m.x12)) + (t5204 * m.x22)) + (t5205 * m.x32)))⟩, (4369 : Int))

/-- extracted from the C++ template at T = Sym; 1 path(s) -/
def Euler.extractQuat_YZY {α : Type} [Add α] [Sub α] [Mul α] [Neg α] [OfNat α 0] [OfNat α 1] [OfNat α 2] (sqrt : α → α) (sin : α → α) (cos : α → α) (atan2 : α → α → α) (q : Quat α) : (V3 α) :=
  let t66 := (cos (0 : α))
  let t68 := (sin (0 : α))
  let t72 := (-t68)
  let t306 := (q.v.x * q.v.x)
  let t307 := (q.v.y * q.v.y)
  let t312 := (q.v.x * q.r)
  let t313 := (q.v.y * q.v.z)
  let t315 := ((2 : α) * (t313 - t312))
  let t316 := (q.v.y * q.r)
  let t317 := (q.v.z * q.v.x)
  let t322 := (q.v.z * q.v.z)
  let t325 := ((1 : α) - ((2 : α) * (t322 + t306)))
  let t326 := (q.v.z * q.r)
  let t327 := (q.v.x * q.v.y)
  let t333 := ((2 : α) * (t327 + t326))
  let t5335 := (atan2 t315 t333)
  let t5336 := (-t5335)
  let t5337 := (cos t5336)
  let t5338 := (sin t5336)
  let t5339 := (t66 * t5337)
  let t5340 := (t68 * t5337)
  let t5341 := (-t5338)
  let t5342 := (t66 * t5338)
  let t5344 := ((t72 * t66) + (t5342 * t68))
  let t5345 := (t68 * t5338)
  let t5347 := ((t66 * t66) + (t5345 * t68))
  let t5348 := (t5337 * t68)
  let t5350 := ((t72 * t72) + (t5342 * t66))
  let t5352 := ((t66 * t72) + (t5345 * t66))
  let t5353 := (t5337 * t66)
  let t5354 := ((0 : α) * t5341)
  let t5355 := ((0 : α) * t5340)
  let t5360 := ((0 : α) * t5339)
  let t5364 := (t5360 + t5355)
  let t5367 := ((0 : α) * t5348)
  let t5368 := ((0 : α) * t5347)
  let t5373 := ((0 : α) * t5344)
  let t5377 := (t5373 + t5368)
  let t5380 := ((0 : α) * t5353)
  let t5381 := ((0 : α) * t5352)
  let t5384 := ((((1 : α) * t5350) + t5381) + t5380)
  let t5386 := ((0 : α) * t5350)
  let t5388 := ((t5386 + ((1 : α) * t5352)) + t5380)
  let t5390 := (t5386 + t5381)
  let t5391 := (t5390 + ((1 : α) * t5353))
  let t5405 := ((((((((1 : α) * t5339) + t5355) + t5354) * t333) + (((t5360 + ((1 : α) * t5340)) + t5354) * t325)) + ((t5364 + ((1 : α) * t5341)) * t315)) + ((t5364 + t5354) * (0 : α)))
  let t5445 := ((t5390 + t5380) * (0 : α))
  let t5457 := ((((t5384 * t333) + (t5388 * t325)) + (t5391 * t315)) + t5445)
  ⟨t5335, (atan2 (sqrt ((t5457 * t5457) + (t5405 * t5405))) ((((((((1 : α) * t5344) + t5368) + t5367) * t333) + (((t5373 + ((1 : α) * t5347)) + t5367) * t325)) + ((t5377 + ((1 : α) * t5348)) * t315)) + ((t5377 + t5367) * (0 : α)))), (atan2 ((((t5384 * ((1 : α) - ((2 : α) * (t307 + t322)))) + (t5388 * ((2 : α) * (t327 - t326)))) + (t5391 * ((2 : α) * (t317 + t316)))) + t5445) ((((t5384 * ((2 : α) * (t317 - t316))) + (t5388 * ((2 : α) * (t313 + t312)))) + (t5391 * ((1 : α) - ((2 : α) * (t307 + t306))))) + t5445))⟩

/-- extracted from the C++ template at T = Sym; 1 path(s) -/
def Euler.ctorXYZLayout_YZY {α : Type} (v : V3 α) : ((V3 α) × Int) :=
  (⟨v.y, v.z, v.x⟩, (4369 : Int))

/-- extracted from the C++ template at T = Sym; 1 path(s) -/
def Euler.ctorXYZLayoutScalars_YZY {α : Type} (xi : α) (yi : α) (zi : α) : ((V3 α) × Int) :=
  (⟨yi, zi, xi⟩, (4369 : Int))

/-- extracted from the C++ template at T = Sym; 1 path(s) -/
def Euler.ctorIJKLayout_YZY {α : Type} (v : V3 α) : ((V3 α) × Int) :=
  (⟨v.x, v.y, v.z⟩, (4369 : Int))

/-- extracted from the C++ template at T = Sym; 1 path(s) -/
def Euler.setXYZVector_YZY {α : Type} (a : V3 α) (v : V3 α) : (V3 α) :=
  ⟨v.y, v.z, v.x⟩

/-- extracted from the C++ template at T = Sym; 1 path(s) -/
def Euler.toXYZVector_YZY {α : Type} (a : V3 α) : (V3 α) :=
  ⟨a.z, a.x, a.y⟩

/-- extracted from the C++ template at T = Sym; 1 path(s) -/
def Euler.angleOrder_YZY {α : Type} : (Int × Int × Int) :=
  ((1 : Int), (2 : Int), (0 : Int))

/-- extracted from the C++ template at T = Sym; 1 path(s) -/
def Euler.angleMapping_YZY {α : Type} : (Int × Int × Int) :=
  ((2 : Int), (0 : Int), (1 : Int))

/-- extracted from the C++ template at T = Sym; 1 path(s) -/
def Euler.order_YZY {α : Type} : (Int × Bool × Bool × Bool × Bool × Int) :=
  ((4369 : Int), true, true, true, true, (1 : Int))

/-- extracted from the C++ template at T = Sym; 1 path(s) -/
def Euler.setOrderKeepsAngles_YZY {α : Type} (a : V3 α) : ((V3 α) × Int) :=
  (⟨a.x, a.y, a.z⟩, (4369 : Int))

/-- extracted from the C++ template at T = Sym; 1 path(s) -/
def Euler.copyAndAssign_YZY {α : Type} (a : V3 α) (v : V3 α) : ((V3 α) × Int × (V3 α) × Int × (V3 α) × Int) :=
  (⟨a.x, a.y, a.z⟩, (4369 : Int), ⟨a.x, a.y, a.z⟩, (4369 : Int), ⟨v.x, v.y, v.z⟩, (4369 : Int))

/-- extracted from the C++ template at T = Sym; 1 path(s) -/
def Euler.reorderFromXYZ_YZY {α : Type} [Add α] [Sub α] [Mul α] [Neg α] [OfNat α 0] [OfNat α 1] (sqrt : α → α) (sin : α → α) (cos : α → α) (atan2 : α → α → α) (a : V3 α) : ((V3 α) × Int) :=
  let t4 := (cos a.x)
  let t5 := (cos a.y)
  let t6 := (cos a.z)
  let t7 := (sin a.x)
  let t8 := (sin a.y)
  let t9 := (sin a.z)
  let t10 := (t4 * t6)
  let t11 := (t4 * t9)
  let t12 := (t7 * t6)
  let t13 := (t7 * t9)
  let t20 := (t5 * t9)
  let t22 := ((t8 * t13) + t10)
  let t24 := ((t8 * t11) - t12)
  let t66 := (cos (0 : α))
  let t68 := (sin (0 : α))
  let t72 := (-t68)
  let t5477 := (atan2 t24 t20)
  let t5478 := (-t5477)
  let t5479 := (cos t5478)
  let t5480 := (sin t5478)
  let t5481 := (t66 * t5479)
  let t5482 := (t68 * t5479)
  let t5483 := (-t5480)
  let t5484 := (t66 * t5480)
  let t5486 := ((t72 * t66) + (t5484 * t68))
  let t5487 := (t68 * t5480)
  let t5489 := ((t66 * t66) + (t5487 * t68))
  let t5490 := (t5479 * t68)
  let t5492 := ((t72 * t72) + (t5484 * t66))
  let t5494 := ((t66 * t72) + (t5487 * t66))
  let t5495 := (t5479 * t66)
  let t5496 := ((0 : α) * t5483)
  let t5497 := ((0 : α) * t5482)
  let t5502 := ((0 : α) * t5481)
  let t5506 := (t5502 + t5497)
  let t5509 := ((0 : α) * t5490)
  let t5510 := ((0 : α) * t5489)
  let t5515 := ((0 : α) * t5486)
  let t5519 := (t5515 + t5510)
  let t5522 := ((0 : α) * t5495)
  let t5523 := ((0 : α) * t5494)
  let t5526 := ((((1 : α) * t5492) + t5523) + t5522)
  let t5528 := ((0 : α) * t5492)
  let t5530 := ((t5528 + ((1 : α) * t5494)) + t5522)
  let t5532 := (t5528 + t5523)
  let t5533 := (t5532 + ((1 : α) * t5495))
  let t5547 := ((((((((1 : α) * t5481) + t5497) + t5496) * t20) + (((t5502 + ((1 : α) * t5482)) + t5496) * t22)) + ((t5506 + ((1 : α) * t5483)) * t24)) + ((t5506 + t5496) * (0 : α)))
  let t5587 := ((t5532 + t5522) * (0 : α))
  let t5599 := ((((t5526 * t20) + (t5530 * t22)) + (t5533 * t24)) + t5587)
  (⟨t5477, (atan2 (sqrt ((t5599 * t5599) + (t5547 * t5547))) ((((((((1 : α) * t5486) + t5510) + t5509) * t20) + (((t5515 + ((1 : α) * t5489)) + t5509) * t22)) + ((t5519 + ((1 : α) * t5490)) * t24)) + ((t5519 + t5509) * (0 : α)))), (atan2 ((((t5526 * (t5 * t6)) + (t5530 * ((t8 * t12) - t11))) + (t5533 * ((t8 * t10) + t13))) + t5587) ((((t5526 * (-t8)) + (t5530 * (t5 * t7))) + (t5533 * (t5 * t4))) + t5587))⟩, (4369 : Int))

/-- extracted from the C++ template at T = Sym; 1 path(s) -/
def Euler.reorderToZYXr_YZY {α : Type} [Add α] [Sub α] [Mul α] [Neg α] [OfNat α 0] [OfNat α 1] (sqrt : α → α) (sin : α → α) (cos : α → α) (atan2 : α → α → α) (a : V3 α) : ((V3 α) × Int) :=
  let t4 := (cos a.x)
  let t5 := (cos a.y)
  let t6 := (cos a.z)
  let t7 := (sin a.x)
  let t8 := (sin a.y)
  let t9 := (sin a.z)
  let t10 := (t4 * t6)
  let t11 := (t4 * t9)
  let t12 := (t7 * t6)
  let t13 := (t7 * t9)
  let t66 := (cos (0 : α))
  let t68 := (sin (0 : α))
  let t70 := (t66 * t66)
  let t71 := (t68 * t66)
  let t72 := (-t68)
  let t89 := ((0 : α) * t72)
  let t90 := ((0 : α) * t71)
  let t93 := ((((1 : α) * t70) + t90) + t89)
  let t95 := ((0 : α) * t70)
  let t97 := ((t95 + ((1 : α) * t71)) + t89)
  let t99 := (t95 + t90)
  let t100 := (t99 + ((1 : α) * t72))
  let t128 := ((t99 + t89) * (0 : α))
  let t4045 := (t8 * t4)
  let t4046 := (t8 * t9)
  let t4047 := (-t5)
  let t4049 := ((t4047 * t13) + t10)
  let t4056 := ((t5 * t10) - t13)
  let t5668 := ((((t93 * t4056) + (t97 * ((-t8) * t6))) + (t100 * ((t5 * t12) + t11))) + t128)
  let t5674 := ((((t93 * t4045) + (t97 * t5)) + (t100 * (t8 * t7))) + t128)
  (⟨(atan2 t4045 t4056), (atan2 (-((((t93 * ((t4047 * t11) - t12)) + (t97 * t4046)) + (t100 * t4049)) + t128)) (sqrt ((t5668 * t5668) + (t5674 * t5674)))), (atan2 t4046 t4049)⟩, (256 : Int))

/-- extracted from the C++ template at T = Sym; 1 path(s) -/
def Euler.toMatrix33_ZYZ {α : Type} [Add α] [Sub α] [Mul α] [Neg α] [OfNat α 1] (sin : α → α) (cos : α → α) (a : V3 α) : (M33 α) :=
  let t622 := (a.x * (-(1 : α)))
  let t623 := (a.y * (-(1 : α)))
  let t624 := (a.z * (-(1 : α)))
  let t625 := (cos t622)
  let t626 := (cos t623)
  let t627 := (cos t624)
  let t628 := (sin t622)
  let t629 := (sin t623)
  let t630 := (sin t624)
  let t631 := (t625 * t627)
  let t632 := (t625 * t630)
  let t633 := (t628 * t627)
  let t634 := (t628 * t630)
  let t3540 := (-t626)
  ⟨((t626 * t631) - t634), ((t3540 * t632) - t633), (t629 * t625), ((t626 * t633) + t632), ((t3540 * t634) + t631), (t629 * t628), ((-t629) * t627), (t629 * t630), t626⟩

/-- extracted from the C++ template at T = Sym; 1 path(s) -/
def Euler.toMatrix44_ZYZ {α : Type} [Add α] [Sub α] [Mul α] [Neg α] [OfNat α 0] [OfNat α 1] (sin : α → α) (cos : α → α) (a : V3 α) : (M44 α) :=
  let t622 := (a.x * (-(1 : α)))
  let t623 := (a.y * (-(1 : α)))
  let t624 := (a.z * (-(1 : α)))
  let t625 := (cos t622)
  let t626 := (cos t623)
  let t627 := (cos t624)
  let t628 := (sin t622)
  let t629 := (sin t623)
  let t630 := (sin t624)
  let t631 := (t625 * t627)
  let t632 := (t625 * t630)
  let t633 := (t628 * t627)
  let t634 := (t628 * t630)
  let t3540 := (-t626)
  ⟨((t626 * t631) - t634), ((t3540 * t632) - t633), (t629 * t625), (0 : α), ((t626 * t633) + t632), ((t3540 * t634) + t631), (t629 * t628), (0 : α), ((-t629) * t627), (t629 * t630), t626, (0 : α), (0 : α), (0 : α), (0 : α), (1 : α)⟩

/-- extracted from the C++ template at T = Sym; 1 path(s) -/
def Euler.toQuat_ZYZ {α : Type} [Add α] [Sub α] [Mul α] [Div α] [Neg α] [OfNat α 1] [OfNat α 2] (sin : α → α) (cos : α → α) (a : V3 α) : (Quat α) :=
  let t29 := (a.x * ((1 : α) / (2 : α)))
  let t31 := (a.z * ((1 : α) / (2 : α)))
  let t32 := (cos t29)
  let t34 := (cos t31)
  let t35 := (sin t29)
  let t37 := (sin t31)
  let t38 := (t32 * t34)
  let t39 := (t32 * t37)
  let t40 := (t35 * t34)
  let t41 := (t35 * t37)
  let t649 := ((-a.y) * ((1 : α) / (2 : α)))
  let t650 := (cos t649)
  let t651 := (sin t649)
  ⟨(t650 * (t38 - t41)), ⟨(t651 * (t39 - t40)), ((t651 * (t38 + t41)) * (-(1 : α))), (t650 * (t39 + t40))⟩⟩

/-- extracted from the C++ template at T = Sym; 1 path(s) -/
def Euler.extractM33_ZYZ {α : Type} [Add α] [Mul α] [Neg α] [OfNat α 0] [OfNat α 1] (sqrt : α → α) (sin : α → α) (cos : α → α) (atan2 : α → α → α) (m : M33 α) : (V3 α) :=
  let t66 := (cos (0 : α))
  let t68 := (sin (0 : α))
  let t70 := (t66 * t66)
  let t72 := (-t68)
  let t73 := (t66 * t68)
  let t89 := ((0 : α) * t72)
  let t95 := ((0 : α) * t70)
  let t2397 := ((0 : α) * t73)
  let t5749 := (atan2 m.x12 m.x02)
  let t5750 := (cos t5749)
  let t5751 := (sin t5749)
  let t5752 := (t5750 * t66)
  let t5753 := (t5751 * t66)
  let t5754 := (t5750 * t68)
  let t5756 := (-t5751)
  let t5758 := ((t5756 * t66) + (t5754 * t68))
  let t5759 := (t5751 * t68)
  let t5761 := (t5752 + (t5759 * t68))
  let t5764 := ((t5756 * t72) + (t5754 * t66))
  let t5767 := ((t5750 * t72) + (t5759 * t66))
  let t5768 := ((0 : α) * t5753)
  let t5773 := ((0 : α) * t5752)
  let t5776 := (t5773 + t5768)
  let t5779 := ((0 : α) * t5761)
  let t5782 := ((((1 : α) * t5758) + t5779) + t2397)
  let t5784 := ((0 : α) * t5758)
  let t5786 := ((t5784 + ((1 : α) * t5761)) + t2397)
  let t5787 := (t5784 + t5779)
  let t5788 := (t5787 + ((1 : α) * t73))
  let t5790 := ((0 : α) * t5767)
  let t5795 := ((0 : α) * t5764)
  let t5798 := (t5795 + t5790)
  let t5819 := ((((((((1 : α) * t5752) + t5768) + t89) * m.x02) + (((t5773 + ((1 : α) * t5753)) + t89) * m.x12)) + ((t5776 + ((1 : α) * t72)) * m.x22)) + ((t5776 + t89) * (0 : α)))
  let t5827 := ((t5787 + t2397) * (0 : α))
  let t5845 := ((((t5782 * m.x02) + (t5786 * m.x12)) + (t5788 * m.x22)) + t5827)
  ⟨(t5749 * (-(1 : α))), ((atan2 (sqrt ((t5845 * t5845) + (t5819 * t5819))) ((((((((1 : α) * t5764) + t5790) + t95) * m.x02) + (((t5795 + ((1 : α) * t5767)) + t95) * m.x12)) + ((t5798 + ((1 : α) * t70)) * m.x22)) + ((t5798 + t95) * (0 : α)))) * (-(1 : α))), ((atan2 ((((t5782 * m.x00) + (t5786 * m.x10)) + (t5788 * m.x20)) + t5827) ((((t5782 * m.x01) + (t5786 * m.x11)) + (t5788 * m.x21)) + t5827)) * (-(1 : α)))⟩

/-- extracted from the C++ template at T = Sym; 1 path(s) -/
def Euler.extractM44_ZYZ {α : Type} [Add α] [Mul α] [Neg α] [OfNat α 0] [OfNat α 1] (sqrt : α → α) (sin : α → α) (cos : α → α) (atan2 : α → α → α) (m : M44 α) : (V3 α) :=
  let t66 := (cos (0 : α))
  let t68 := (sin (0 : α))
  let t70 := (t66 * t66)
  let t72 := (-t68)
  let t73 := (t66 * t68)
  let t89 := ((0 : α) * t72)
  let t95 := ((0 : α) * t70)
  let t2397 := ((0 : α) * t73)
  let t5749 := (atan2 m.x12 m.x02)
  let t5750 := (cos t5749)
  let t5751 := (sin t5749)
  let t5752 := (t5750 * t66)
  let t5753 := (t5751 * t66)
  let t5754 := (t5750 * t68)
  let t5756 := (-t5751)
  let t5758 := ((t5756 * t66) + (t5754 * t68))
  let t5759 := (t5751 * t68)
  let t5761 := (t5752 + (t5759 * t68))
  let t5764 := ((t5756 * t72) + (t5754 * t66))
  let t5767 := ((t5750 * t72) + (t5759 * t66))
  let t5768 := ((0 : α) * t5753)
  let t5773 := ((0 : α) * t5752)
  let t5776 := (t5773 + t5768)
  let t5779 := ((0 : α) * t5761)
  let t5782 := ((((1 : α) * t5758) + t5779) + t2397)
  let t5784 := ((0 : α) * t5758)
  let t5786 := ((t5784 + ((1 : α) * t5761)) + t2397)
  let t5787 := (t5784 + t5779)
  let t5788 := (t5787 + ((1 : α) * t73))
  let t5789 := (t5787 + t2397)
  let t5790 := ((0 : α) * t5767)
  let t5795 := ((0 : α) * t5764)
  let t5798 := (t5795 + t5790)
  let t5893 := ((((((((1 : α) * t5752) + t5768) + t89) * m.x02) + (((t5773 + ((1 : α) * t5753)) + t89) * m.x12)) + ((t5776 + ((1 : α) * t72)) * m.x22)) + ((t5776 + t89) * m.x32))
  let t5906 := ((((t5782 * m.x02) + (t5786 * m.x12)) + (t5788 * m.x22)) + (t5789 * m.x32))
  ⟨(t5749 * (-(1 : α))), ((atan2 (sqrt ((t5906 * t5906) + (t5893 * t5893))) ((((((((1 : α) * t5764) + t5790) + t95) * m.x02) + (((t5795 + ((1 : α) * t5767)) + t95) * m.x12)) + ((t5798 + ((1 : α) * t70)) * m.x22)) + ((t5798 + t95) * m.x32))) * (-(1 : α))), ((atan2 ((((t5782 * m.x00) + (t5786 * m.x10)) + (t5788 * m.x20)) + (t5789 * m.x30)) ((((t5782 * m.x01) + (t5786 * m.x11)) + (t5788 * m.x21)) + (t5789 * m.x31))) * (-(1 : α)))⟩

/-- extracted from the C++ template at T = Sym; 1 path(s) -/
def Euler.ctorM33_ZYZ {α : Type} [Add α] [Mul α] [Neg α] [OfNat α 0] [OfNat α 1] (sqrt : α → α) (sin : α → α) (cos : α → α) (atan2 : α → α → α) (m : M33 α) : ((V3 α) × Int) :=
  let t66 := (cos (0 : α))
  let t68 := (sin (0 : α))
  let t70 := (t66 * t66)
  let t72 := (-t68)
  let t73 := (t66 * t68)
  let t89 := ((0 : α) * t72)
  let t95 := ((0 : α) * t70)
  let t2397 := ((0 : α) * t73)
  let t5749 := (atan2 m.x12 m.x02)
  let t5750 := (cos t5749)
  let t5751 := (sin t5749)
  let t5752 := (t5750 * t66)
  let t5753 := (t5751 * t66)
  let t5754 := (t5750 * t68)
  let t5756 := (-t5751)
  let t5758 := ((t5756 * t66) + (t5754 * t68))
  let t5759 := (t5751 * t68)
  let t5761 := (t5752 + (t5759 * t68))
  let t5764 := ((t5756 * t72) + (t5754 * t66))
  let t5767 := ((t5750 * t72) + (t5759 * t66))
  let t5768 := ((0 : α) * t5753)
  let t5773 := ((0 : α) * t5752)
  let t5776 := (t5773 + t5768)
  let t5779 := ((0 : α) * t5761)
  let t5782 := ((((1 : α) * t5758) + t5779) + t2397)
  let t5784 := ((0 : α) * t5758)
  let t5786 := ((t5784 + ((1 : α) * t5761)) + t2397)
  let t5787 := (t5784 + t5779)
  let t5788 := (t5787 + ((1 : α) * t73))
  let t5790 := ((0 : α) * t5767)
  let t5795 := ((0 : α) * t5764)
  let t5798 := (t5795 + t5790)
  let t5819 := ((((((((1 : α) * t5752) + t5768) + t89) * m.x02) + (((t5773 + ((1 : α) * t5753)) + t89) * m.x12)) + ((t5776 + ((1 : α) * t72)) * m.x22)) + ((t5776 + t89) * (0 : α)))
  let t5827 := ((t5787 + t2397) * (0 : α))
  let t5845 := ((((t5782 * m.x02) + (t5786 * m.x12)) + (t5788 * m.x22)) + t5827)
  (⟨(t5749 * (-(1 : α))), ((atan2 (sqrt ((t5845 * t5845) + (t5819 * t5819))) ((((((((1 : α) * t5764) + t5790) + t95) * m.x02) + (((t5795 + ((1 : α) * t5767)) + t95) * m.x12)) + ((t5798 + ((1 : α) * t70)) * m.x22)) + ((t5798 + t95) * (0 : α)))) * (-(1 : α))), ((atan2 ((((t5782 * m.x00) + (t5786 * m.x10)) + (t5788 * m.x20)) + t5827) ((((t5782 * m.x01) + (t5786 * m.x11)) + (t5788 * m.x21)) + t5827)) * (-(1 : α)))⟩, (8209 : Int))

/-- extracted from the C++ template at T = Sym; 1 path(s) -/
def Euler.ctorM44_ZYZ {α : Type} [Add α] [Mul α] [Neg α] [OfNat α 0] [OfNat α 1] (sqrt : α → α) (sin : α → α) (cos : α → α) (atan2 : α → α → α) (m : M44 α) : ((V3 α) × Int) :=
  let t66 := (cos (0 : α))
  let t68 := (sin (0 : α))
  let t70 := (t66 * t66)
  let t72 := (-t68)
  let t73 := (t66 * t68)
  let t89 := ((0 : α) * t72)
  let t95 := ((0 : α) * t70)
  let t2397 := ((0 : α) * t73)
  let t5749 := (atan2 m.x12 m.x02)
  let t5750 := (cos t5749)
  let t5751 := (sin t5749)
  let t5752 := (t5750 * t66)
  let t5753 := (t5751 * t66)
  let t5754 := (t5750 * t68)
  let t5756 := (-t5751)
  let t5758 := ((t5756 * t66) + (t5754 * t68))
  let t5759 := (t5751 * t68)
  let t5761 := (t5752 + (t5759 * t68))
  let t5764 := ((t5756 * t72) + (t5754 * t66))
  let t5767 := ((t5750 * t72) + (t5759 * t66))
  let t5768 := ((0 : α) * t5753)
  let t5773 := ((0 : α) * t5752)
  let t5776 := (t5773 + t5768)
  let t5779 := ((0 : α) * t5761)
  let t5782 := ((((1 : α) * t5758) + t5779) + t2397)
  let t5784 := ((0 : α) * t5758)
  let t5786 := ((t5784 + ((1 : α) * t5761)) + t2397)
  let t5787 := (t5784 + t5779)
  let t5788 := (t5787 + ((1 : α) * t73))
  let t5789 := (t5787 + t2397)
  let t5790 := ((0 : α) * t5767)
  let t5795 := ((0 : α) * t5764)
  let t5798 := (t5795 + t5790)
  let t5893 := ((((((((1 : α) * t5752) + t5768) + t89) * m.x02) + (((t5773 + ((1 : α) * t5753)) + t89) * m.x12)) + ((t5776 + ((1 : α) * t72)) * m.x22)) + ((t5776 + t89) * m.x32))
  let t5906 := ((((t5782 * m.x02) + (t5786 * m.x12)) + (t5788 * m.x22)) + (t5789 * m.x32))
  (⟨(t5749 * (-(1 : α))), ((atan2 (sqrt ((t5906 * t5906) + (t5893 * t5893))) ((((((((1 : α) * t5764) + t5790) + t95) * m.x02) + (((t5795 + ((1 : α) * t5767)) + t95) * m.x12)) + ((t5798 + ((1 : α) * t70)) * m.x22)) + ((t5798 + t95) * m.x32))) * (-(1 : α))), ((atan2 ((((t5782 * m.x00) + (t5786 * m.x10)) + (t5788 * m.x20)) + (t5789 * m.x30)) ((((t5782 * m.x01) + (t5786 * m.x11)) + (t5788 * m.x21)) + (t5789 * m.x31))) * (-(1 : α)))⟩, (8209 : Int))

/-- extracted from the C++ template at T = Sym; 1 path(s) -/
def Euler.extractQuat_ZYZ {α : Type} [Add α] [Sub α] [Mul α] [Neg α] [OfNat α 0] [OfNat α 1] [OfNat α 2] (sqrt : α → α) (sin : α → α) (cos : α → α) (atan2 : α → α → α) (q : Quat α) : (V3 α) :=
  let t66 := (cos (0 : α))
  let t68 := (sin (0 : α))
  let t70 := (t66 * t66)
  let t72 := (-t68)
  let t73 := (t66 * t68)
  let t89 := ((0 : α) * t72)
  let t95 := ((0 : α) * t70)
  let t306 := (q.v.x * q.v.x)
  let t307 := (q.v.y * q.v.y)
  let t311 := ((1 : α) - ((2 : α) * (t307 + t306)))
  let t312 := (q.v.x * q.r)
  let t313 := (q.v.y * q.v.z)
  let t316 := (q.v.y * q.r)
  let t317 := (q.v.z * q.v.x)
  let t321 := ((2 : α) * (t313 + t312))
  let t322 := (q.v.z * q.v.z)
  let t326 := (q.v.z * q.r)
  let t327 := (q.v.x * q.v.y)
  let t331 := ((2 : α) * (t317 - t316))
  let t2397 := ((0 : α) * t73)
  let t5935 := (atan2 t321 t331)
  let t5936 := (cos t5935)
  let t5937 := (sin t5935)
  let t5938 := (t5936 * t66)
  let t5939 := (t5937 * t66)
  let t5940 := (t5936 * t68)
  let t5942 := (-t5937)
  let t5944 := ((t5942 * t66) + (t5940 * t68))
  let t5945 := (t5937 * t68)
  let t5947 := (t5938 + (t5945 * t68))
  let t5950 := ((t5942 * t72) + (t5940 * t66))
  let t5953 := ((t5936 * t72) + (t5945 * t66))
  let t5954 := ((0 : α) * t5939)
  let t5959 := ((0 : α) * t5938)
  let t5962 := (t5959 + t5954)
  let t5965 := ((0 : α) * t5947)
  let t5968 := ((((1 : α) * t5944) + t5965) + t2397)
  let t5970 := ((0 : α) * t5944)
  let t5972 := ((t5970 + ((1 : α) * t5947)) + t2397)
  let t5973 := (t5970 + t5965)
  let t5974 := (t5973 + ((1 : α) * t73))
  let t5976 := ((0 : α) * t5953)
  let t5981 := ((0 : α) * t5950)
  let t5984 := (t5981 + t5976)
  let t6005 := ((((((((1 : α) * t5938) + t5954) + t89) * t331) + (((t5959 + ((1 : α) * t5939)) + t89) * t321)) + ((t5962 + ((1 : α) * t72)) * t311)) + ((t5962 + t89) * (0 : α)))
  let t6013 := ((t5973 + t2397) * (0 : α))
  let t6031 := ((((t5968 * t331) + (t5972 * t321)) + (t5974 * t311)) + t6013)
  ⟨(t5935 * (-(1 : α))), ((atan2 (sqrt ((t6031 * t6031) + (t6005 * t6005))) ((((((((1 : α) * t5950) + t5976) + t95) * t331) + (((t5981 + ((1 : α) * t5953)) + t95) * t321)) + ((t5984 + ((1 : α) * t70)) * t311)) + ((t5984 + t95) * (0 : α)))) * (-(1 : α))), ((atan2 ((((t5968 * ((1 : α) - ((2 : α) * (t307 + t322)))) + (t5972 * ((2 : α) * (t327 - t326)))) + (t5974 * ((2 : α) * (t317 + t316)))) + t6013) ((((t5968 * ((2 : α) * (t327 + t326))) + (t5972 * ((1 : α) - ((2 : α) * (t322 + t306))))) + (t5974 * ((2 : α) * (t313 - t312)))) + t6013)) * (-(1 : α)))⟩

/-- extracted from the C++ template at T = Sym; 1 path(s) -/
def Euler.ctorXYZLayout_ZYZ {α : Type} (v : V3 α) : ((V3 α) × Int) :=
  (⟨v.z, v.y, v.x⟩, (8209 : Int))

/-- extracted from the C++ template at T = Sym; 1 path(s) -/
def Euler.ctorXYZLayoutScalars_ZYZ {α : Type} (xi : α) (yi : α) (zi : α) : ((V3 α) × Int) :=
  (⟨zi, yi, xi⟩, (8209 : Int))

/-- extracted from the C++ template at T = Sym; 1 path(s) -/
def Euler.ctorIJKLayout_ZYZ {α : Type} (v : V3 α) : ((V3 α) × Int) :=
  (⟨v.x, v.y, v.z⟩, (8209 : Int))

/-- extracted from the C++ template at T = Sym; 1 path(s) -/
def Euler.setXYZVector_ZYZ {α : Type} (a : V3 α) (v : V3 α) : (V3 α) :=
  ⟨v.z, v.y, v.x⟩

/-- extracted from the C++ template at T = Sym; 1 path(s) -/
def Euler.toXYZVector_ZYZ {α : Type} (a : V3 α) : (V3 α) :=
  ⟨a.z, a.y, a.x⟩

/-- extracted from the C++ template at T = Sym; 1 path(s) -/
def Euler.angleOrder_ZYZ {α : Type} : (Int × Int × Int) :=
  ((2 : Int), (1 : Int), (0 : Int))

/-- extracted from the C++ template at T = Sym; 1 path(s) -/
def Euler.angleMapping_ZYZ {α : Type} : (Int × Int × Int) :=
  ((2 : Int), (1 : Int), (0 : Int))

/-- extracted from the C++ template at T = Sym; 1 path(s) -/
def Euler.order_ZYZ {α : Type} : (Int × Bool × Bool × Bool × Bool × Int) :=
  ((8209 : Int), true, true, true, false, (2 : Int))

/-- extracted from the C++ template at T = Sym; 1 path(s) -/
def Euler.setOrderKeepsAngles_ZYZ {α : Type} (a : V3 α) : ((V3 α) × Int) :=
  (⟨a.x, a.y, a.z⟩, (8209 : Int))

/-- extracted from the C++ template at T = Sym; 1 path(s) -/
def Euler.copyAndAssign_ZYZ {α : Type} (a : V3 α) (v : V3 α) : ((V3 α) × Int × (V3 α) × Int × (V3 α) × Int) :=
  (⟨a.x, a.y, a.z⟩, (8209 : Int), ⟨a.x, a.y, a.z⟩, (8209 : Int), ⟨v.x, v.y, v.z⟩, (8209 : Int))

/-- extracted from the C++ template at T = Sym; 1 path(s) -/
def Euler.reorderFromXYZ_ZYZ {α : Type} [Add α] [Sub α] [Mul α] [Neg α] [OfNat α 0] [OfNat α 1] (sqrt : α → α) (sin : α → α) (cos : α → α) (atan2 : α → α → α) (a : V3 α) : ((V3 α) × Int) :=
  let t4 := (cos a.x)
  let t5 := (cos a.y)
  let t6 := (cos a.z)
  let t7 := (sin a.x)
  let t8 := (sin a.y)
  let t9 := (sin a.z)
  let t10 := (t4 * t6)
  let t11 := (t4 * t9)
  let t12 := (t7 * t6)
  let t13 := (t7 * t9)
  let t25 := (-t8)
  let t26 := (t5 * t7)
  let t27 := (t5 * t4)
  let t66 := (cos (0 : α))
  let t68 := (sin (0 : α))
  let t70 := (t66 * t66)
  let t72 := (-t68)
  let t73 := (t66 * t68)
  let t89 := ((0 : α) * t72)
  let t95 := ((0 : α) * t70)
  let t2397 := ((0 : α) * t73)
  let t6074 := (atan2 t26 t25)
  let t6075 := (cos t6074)
  let t6076 := (sin t6074)
  let t6077 := (t6075 * t66)
  let t6078 := (t6076 * t66)
  let t6079 := (t6075 * t68)
  let t6081 := (-t6076)
  let t6083 := ((t6081 * t66) + (t6079 * t68))
  let t6084 := (t6076 * t68)
  let t6086 := (t6077 + (t6084 * t68))
  let t6089 := ((t6081 * t72) + (t6079 * t66))
  let t6092 := ((t6075 * t72) + (t6084 * t66))
  let t6093 := ((0 : α) * t6078)
  let t6098 := ((0 : α) * t6077)
  let t6101 := (t6098 + t6093)
  let t6104 := ((0 : α) * t6086)
  let t6107 := ((((1 : α) * t6083) + t6104) + t2397)
  let t6109 := ((0 : α) * t6083)
  let t6111 := ((t6109 + ((1 : α) * t6086)) + t2397)
  let t6112 := (t6109 + t6104)
  let t6113 := (t6112 + ((1 : α) * t73))
  let t6115 := ((0 : α) * t6092)
  let t6120 := ((0 : α) * t6089)
  let t6123 := (t6120 + t6115)
  let t6144 := ((((((((1 : α) * t6077) + t6093) + t89) * t25) + (((t6098 + ((1 : α) * t6078)) + t89) * t26)) + ((t6101 + ((1 : α) * t72)) * t27)) + ((t6101 + t89) * (0 : α)))
  let t6152 := ((t6112 + t2397) * (0 : α))
  let t6170 := ((((t6107 * t25) + (t6111 * t26)) + (t6113 * t27)) + t6152)
  (⟨(t6074 * (-(1 : α))), ((atan2 (sqrt ((t6170 * t6170) + (t6144 * t6144))) ((((((((1 : α) * t6089) + t6115) + t95) * t25) + (((t6120 + ((1 : α) * t6092)) + t95) * t26)) + ((t6123 + ((1 : α) * t70)) * t27)) + ((t6123 + t95) * (0 : α)))) * (-(1 : α))), ((atan2 ((((t6107 * (t5 * t6)) + (t6111 * ((t8 * t12) - t11))) + (t6113 * ((t8 * t10) + t13))) + t6152) ((((t6107 * (t5 * t9)) + (t6111 * ((t8 * t13) + t10))) + (t6113 * ((t8 * t11) - t12))) + t6152)) * (-(1 : α)))⟩, (8209 : Int))

/-- extracted from the C++ template at T = Sym; 1 path(s) -/
def Euler.reorderToZYXr_ZYZ {α : Type} [Add α] [Sub α] [Mul α] [Neg α] [OfNat α 0] [OfNat α 1] (sqrt : α → α) (sin : α → α) (cos : α → α) (atan2 : α → α → α) (a : V3 α) : ((V3 α) × Int) :=
  let t66 := (cos (0 : α))
  let t68 := (sin (0 : α))
  let t70 := (t66 * t66)
  let t71 := (t68 * t66)
  let t72 := (-t68)
  let t89 := ((0 : α) * t72)
  let t90 := ((0 : α) * t71)
  let t93 := ((((1 : α) * t70) + t90) + t89)
  let t95 := ((0 : α) * t70)
  let t97 := ((t95 + ((1 : α) * t71)) + t89)
  let t99 := (t95 + t90)
  let t100 := (t99 + ((1 : α) * t72))
  let t128 := ((t99 + t89) * (0 : α))
  let t622 := (a.x * (-(1 : α)))
  let t623 := (a.y * (-(1 : α)))
  let t624 := (a.z * (-(1 : α)))
  let t625 := (cos t622)
  let t626 := (cos t623)
  let t627 := (cos t624)
  let t628 := (sin t622)
  let t629 := (sin t623)
  let t630 := (sin t624)
  let t631 := (t625 * t627)
  let t632 := (t625 * t630)
  let t633 := (t628 * t627)
  let t634 := (t628 * t630)
  let t3537 := (t629 * t628)
  let t3540 := (-t626)
  let t3544 := ((t3540 * t632) - t633)
  let t3549 := ((t626 * t631) - t634)
  let t6262 := ((((t93 * t3549) + (t97 * ((t626 * t633) + t632))) + (t100 * ((-t629) * t627))) + t128)
  let t6268 := ((((t93 * t3544) + (t97 * ((t3540 * t634) + t631))) + (t100 * (t629 * t630))) + t128)
  (⟨(atan2 t3544 t3549), (atan2 (-((((t93 * (t629 * t625)) + (t97 * t3537)) + (t100 * t626)) + t128)) (sqrt ((t6262 * t6262) + (t6268 * t6268)))), (atan2 t3537 t626)⟩, (256 : Int))

/-- extracted from the C++ template at T = Sym; 1 path(s) -/
def Euler.toMatrix33_ZXZ {α : Type} [Add α] [Sub α] [Mul α] [Neg α] (sin : α → α) (cos : α → α) (a : V3 α) : (M33 α) :=
  let t4 := (cos a.x)
  let t5 := (cos a.y)
  let t6 := (cos a.z)
  let t7 := (sin a.x)
  let t8 := (sin a.y)
  let t9 := (sin a.z)
  let t10 := (t4 * t6)
  let t11 := (t4 * t9)
  let t12 := (t7 * t6)
  let t13 := (t7 * t9)
  let t4047 := (-t5)
  ⟨((t4047 * t13) + t10), ((t5 * t12) + t11), (t8 * t7), ((t4047 * t11) - t12), ((t5 * t10) - t13), (t8 * t4), (t8 * t9), ((-t8) * t6), t5⟩

/-- extracted from the C++ template at T = Sym; 1 path(s) -/
def Euler.toMatrix44_ZXZ {α : Type} [Add α] [Sub α] [Mul α] [Neg α] [OfNat α 0] [OfNat α 1] (sin : α → α) (cos : α → α) (a : V3 α) : (M44 α) :=
  let t4 := (cos a.x)
  let t5 := (cos a.y)
  let t6 := (cos a.z)
  let t7 := (sin a.x)
  let t8 := (sin a.y)
  let t9 := (sin a.z)
  let t10 := (t4 * t6)
  let t11 := (t4 * t9)
  let t12 := (t7 * t6)
  let t13 := (t7 * t9)
  let t4047 := (-t5)
  ⟨((t4047 * t13) + t10), ((t5 * t12) + t11), (t8 * t7), (0 : α), ((t4047 * t11) - t12), ((t5 * t10) - t13), (t8 * t4), (0 : α), (t8 * t9), ((-t8) * t6), t5, (0 : α), (0 : α), (0 : α), (0 : α), (1 : α)⟩

/-- extracted from the C++ template at T = Sym; 1 path(s) -/
def Euler.toQuat_ZXZ {α : Type} [Add α] [Sub α] [Mul α] [Div α] [OfNat α 1] [OfNat α 2] (sin : α → α) (cos : α → α) (a : V3 α) : (Quat α) :=
  let t29 := (a.x * ((1 : α) / (2 : α)))
  let t30 := (a.y * ((1 : α) / (2 : α)))
  let t31 := (a.z * ((1 : α) / (2 : α)))
  let t32 := (cos t29)
  let t33 := (cos t30)
  let t34 := (cos t31)
  let t35 := (sin t29)
  let t36 := (sin t30)
  let t37 := (sin t31)
  let t38 := (t32 * t34)
  let t39 := (t32 * t37)
  let t40 := (t35 * t34)
  let t41 := (t35 * t37)
  ⟨(t33 * (t38 - t41)), ⟨((t36 * (t38 + t41)) * (1 : α)), (t36 * (t39 - t40)), (t33 * (t39 + t40))⟩⟩

/-- extracted from the C++ template at T = Sym; 1 path(s) -/
def Euler.extractM33_ZXZ {α : Type} [Add α] [Mul α] [Neg α] [OfNat α 0] [OfNat α 1] (sqrt : α → α) (sin : α → α) (cos : α → α) (atan2 : α → α → α) (m : M33 α) : (V3 α) :=
  let t66 := (cos (0 : α))
  let t68 := (sin (0 : α))
  let t70 := (t66 * t66)
  let t72 := (-t68)
  let t73 := (t66 * t68)
  let t89 := ((0 : α) * t72)
  let t95 := ((0 : α) * t70)
  let t2397 := ((0 : α) * t73)
  let t6343 := (atan2 m.x02 m.x12)
  let t6344 := (-t6343)
  let t6345 := (cos t6344)
  let t6346 := (sin t6344)
  let t6347 := (t6345 * t66)
  let t6348 := (t6346 * t66)
  let t6349 := (t6345 * t68)
  let t6351 := (-t6346)
  let t6353 := ((t6351 * t66) + (t6349 * t68))
  let t6354 := (t6346 * t68)
  let t6356 := (t6347 + (t6354 * t68))
  let t6359 := ((t6351 * t72) + (t6349 * t66))
  let t6362 := ((t6345 * t72) + (t6354 * t66))
  let t6363 := ((0 : α) * t6348)
  let t6366 := ((((1 : α) * t6347) + t6363) + t89)
  let t6368 := ((0 : α) * t6347)
  let t6370 := ((t6368 + ((1 : α) * t6348)) + t89)
  let t6371 := (t6368 + t6363)
  let t6372 := (t6371 + ((1 : α) * t72))
  let t6374 := ((0 : α) * t6356)
  let t6379 := ((0 : α) * t6353)
  let t6382 := (t6379 + t6374)
  let t6385 := ((0 : α) * t6362)
  let t6390 := ((0 : α) * t6359)
  let t6393 := (t6390 + t6385)
  let t6396 := ((t6371 + t89) * (0 : α))
  let t6414 := ((((t6366 * m.x02) + (t6370 * m.x12)) + (t6372 * m.x22)) + t6396)
  let t6440 := ((((((((1 : α) * t6353) + t6374) + t2397) * m.x02) + (((t6379 + ((1 : α) * t6356)) + t2397) * m.x12)) + ((t6382 + ((1 : α) * t73)) * m.x22)) + ((t6382 + t2397) * (0 : α)))
  ⟨t6343, (atan2 (sqrt ((t6414 * t6414) + (t6440 * t6440))) ((((((((1 : α) * t6359) + t6385) + t95) * m.x02) + (((t6390 + ((1 : α) * t6362)) + t95) * m.x12)) + ((t6393 + ((1 : α) * t70)) * m.x22)) + ((t6393 + t95) * (0 : α)))), (atan2 ((((t6366 * m.x01) + (t6370 * m.x11)) + (t6372 * m.x21)) + t6396) ((((t6366 * m.x00) + (t6370 * m.x10)) + (t6372 * m.x20)) + t6396))⟩

/-- extracted from the C++ template at T = Sym; 1 path(s) -/
def Euler.extractM44_ZXZ {α : Type} [Add α] [Mul α] [Neg α] [OfNat α 0] [OfNat α 1] (sqrt : α → α) (sin : α → α) (cos : α → α) (atan2 : α → α → α) (m : M44 α) : (V3 α) :=
  let t66 := (cos (0 : α))
  let t68 := (sin (0 : α))
  let t70 := (t66 * t66)
  let t72 := (-t68)
  let t73 := (t66 * t68)
  let t89 := ((0 : α) * t72)
  let t95 := ((0 : α) * t70)
  let t2397 := ((0 : α) * t73)
  let t6343 := (atan2 m.x02 m.x12)
  let t6344 := (-t6343)
  let t6345 := (cos t6344)
  let t6346 := (sin t6344)
  let t6347 := (t6345 * t66)
  let t6348 := (t6346 * t66)
  let t6349 := (t6345 * t68)
  let t6351 := (-t6346)
  let t6353 := ((t6351 * t66) + (t6349 * t68))
  let t6354 := (t6346 * t68)
  let t6356 := (t6347 + (t6354 * t68))
  let t6359 := ((t6351 * t72) + (t6349 * t66))
  let t6362 := ((t6345 * t72) + (t6354 * t66))
  let t6363 := ((0 : α) * t6348)
  let t6366 := ((((1 : α) * t6347) + t6363) + t89)
  let t6368 := ((0 : α) * t6347)
  let t6370 := ((t6368 + ((1 : α) * t6348)) + t89)
  let t6371 := (t6368 + t6363)
  let t6372 := (t6371 + ((1 : α) * t72))
  let t6373 := (t6371 + t89)
  let t6374 := ((0 : α) * t6356)
  let t6379 := ((0 : α) * t6353)
  let t6382 := (t6379 + t6374)
  let t6385 := ((0 : α) * t6362)
  let t6390 := ((0 : α) * t6359)
  let t6393 := (t6390 + t6385)
  let t6485 := ((((t6366 * m.x02) + (t6370 * m.x12)) + (t6372 * m.x22)) + (t6373 * m.x32))
  let t6498 := ((((((((1 : α) * t6353) + t6374) + t2397) * m.x02) + (((t6379 + ((1 : α) * t6356)) + t2397) * m.x12)) + ((t6382 + ((1 : α) * t73)) * m.x22)) + ((t6382 + t2397) * m.x32))
  ⟨t6343, (atan2 (sqrt ((t6485 * t6485) + (t6498 * t6498))) ((((((((1 : α) * t6359) + t6385) + t95) * m.x02) + (((t6390 + ((1 : α) * t6362)) + t95) * m.x12)) + ((t6393 + ((1 : α) * t70)) * m.x22)) + ((t6393 + t95) * m.x32))), (atan2 ((((t6366 * m.x01) + (t6370 * m.x11)) + (t6372 * m.x21)) + (t6373 * m.x31)) ((((t6366 * m.x00) + (t6370 * m.x10)) + (t6372 * m.x20)) + (t6373 * m.x30)))⟩

/-- extracted from the C++ template at T = Sym; 1 path(s) -/
def Euler.ctorM33_ZXZ {α : Type} [Add α] [Mul α] [Neg α] [OfNat α 0] [OfNat α 1] (sqrt : α → α) (sin : α → α) (cos : α → α) (atan2 : α → α → α) (m : M33 α) : ((V3 α) × Int) :=
  let t66 := (cos (0 : α))
  let t68 := (sin (0 : α))
  let t70 := (t66 * t66)
  let t72 := (-t68)
  let t73 := (t66 * t68)
  let t89 := ((0 : α) * t72)
  let t95 := ((0 : α) * t70)
  let t2397 := ((0 : α) * t73)
  let t6343 := (atan2 m.x02 m.x12)
  let t6344 := (-t6343)
  let t6345 := (cos t6344)
  let t6346 := (sin t6344)
  let t6347 := (t6345 * t66)
  let t6348 := (t6346 * t66)
  let t6349 := (t6345 * t68)
  let t6351 := (-t6346)
  let t6353 := ((t6351 * t66) + (t6349 * t68))
  let t6354 := (t6346 * t68)
  let t6356 := (t6347 + (t6354 * t68))
  let t6359 := ((t6351 * t72) + (t6349 * t66))
  let t6362 := ((t6345 * t72) + (t6354 * t66))
  let t6363 := ((0 : α) * t6348)
  let t6366 := ((((1 : α) * t6347) + t6363) + t89)
  let t6368 := ((0 : α) * t6347)
  let t6370 := ((t6368 + ((1 : α) * t6348)) + t89)
  let t6371 := (t6368 + t6363)
  let t6372 := (t6371 + ((1 : α) * t72))
  let t6374 := ((0 : α) * t6356)
  let t6379 := ((0 : α) * t6353)
  let t6382 := (t6379 + t6374)
  let t6385 := ((0 : α) * t6362)
  let t6390 := ((0 : α) * t6359)
  let t6393 := (t6390 + t6385)
  let t6396 := ((t6371 + t89) * (0 : α))
  let t6414 := ((((t6366 * m.x02) + (t6370 * m.x12)) + (t6372 * m.x22)) + t6396)
  let t6440 := ((((((((1 : α) * t6353) + t6374) + t2397) * m.x02) + (((t6379 + ((1 : α) * t6356)) + t2397) * m.x12)) + ((t6382 + ((1 : α) * t73)) * m.x22)) + ((t6382 + t2397) * (0 : α)))
  (⟨t6343, (atan2 (sqrt ((t6414 * t6414) + (t6440 * t6440))) ((((((((1 : α) * t6359) + t6385) + t95) * m.x02) + (((t6390 + ((1 : α) * t6362)) + t95) * m.x12)) + ((t6393 + ((1 : α) * t70)) * m.x22)) + ((t6393 + t95) * (0 : α)))), (atan2 ((((t6366 * m.x01) + (t6370 * m.x11)) + (t6372 * m.x21)) + t6396) ((((t6366 * m.x00) + (t6370 * m.x10)) + (t6372 * m.x20)) + t6396))⟩, (8465 : Int))

/-- extracted from the C++ template at T = Sym; 1 path(s) -/
def Euler.ctorM44_ZXZ {α : Type} [Add α] [Mul α] [Neg α] [OfNat α 0] [OfNat α 1] (sqrt : α → α) (sin : α → α) (cos : α → α) (atan2 : α → α → α) (m : M44 α) : ((V3 α) × Int) :=
  let t66 := (cos (0 : α))
  let t68 := (sin (0 : α))
  let t70 := (t66 * t66)
  let t72 := (-t68)
  let t73 := (t66 * t68)
  let t89 := ((0 : α) * t72)
  let t95 := ((0 : α) * t70)
  let t2397 := ((0 : α) * t73)
  let t6343 := (atan2 m.x02 m.x12)
  let t6344 := (-t6343)
  let t6345 := (cos t6344)
  let t6346 := (sin t6344)
  let t6347 := (t6345 * t66)
  let t6348 := (t6346 * t66)
  let t6349 := (t6345 * t68)
  let t6351 := (-t6346)
  let t6353 := ((t6351 * t66) + (t6349 * t68))
  let t6354 := (t6346 * t68)
  let t6356 := (t6347 + (t6354 * t68))
  let t6359 := ((t6351 * t72) + (t6349 * t66))
  let t6362 := ((t6345 * t72) + (t6354 * t66))
  let t6363 := ((0 : α) * t6348)
  let t6366 := ((((1 : α) * t6347) + t6363) + t89)
  let t6368 := ((0 : α) * t6347)
  let t6370 := ((t6368 + ((1 : α) * t6348)) + t89)
  let t6371 := (t6368 + t6363)
  let t6372 := (t6371 + ((1 : α) * t72))
  let t6373 := (t6371 + t89)
  let t6374 := ((0 : α) * t6356)
  let t6379 := ((0 : α) * t6353)
  let t6382 := (t6379 + t6374)
  let t6385 := ((0 : α) * t6362)
  let t6390 := ((0 : α) * t6359)
  let t6393 := (t6390 + t6385)
  let t6485 := ((((t6366 * m.x02) + (t6370 * m.x12)) + (t6372 * m.x22)) + (t6373 * m.x32))
  let t6498 := ((((((((1 : α) * t6353) + t6374) + t2397) * m.x02) + (((t6379 + ((1 : α) * t6356)) + t2397) * m.x12)) + ((t6382 + ((1 : α) * t73)) * m.x22)) + ((t6382 + t2397) * m.x32))
  (⟨t6343, (atan2 (sqrt ((t6485 * t6485) + (t6498 * t6498))) ((((((((1 : α) * t6359) + t6385) + t95) * m.x02) + (((t6390 + ((1 : α) * t6362)) + t95) * m.x12)) + ((t6393 + ((1 : α) * t70)) * m.x22)) + ((t6393 + t95) * m.x32))), (atan2 ((((t6366 * m.x01) + (t6370 * m.x11)) + (t6372 * m.x21)) + (t6373 * m.x31)) ((((t6366 * m.x00) + (t6370 * m.x10)) + (t6372 * m.x20)) + (t6373 * m.x30)))⟩, (8465 : Int))

/-- extracted from the C++ template at T = Sym; 1 path(s) -/
def Euler.extractQuat_ZXZ {α : Type} [Add α] [Sub α] [Mul α] [Neg α] [OfNat α 0] [OfNat α 1] [OfNat α 2] (sqrt : α → α) (sin : α → α) (cos : α → α) (atan2 : α → α → α) (q : Quat α) : (V3 α) :=
  let t66 := (cos (0 : α))
  let t68 := (sin (0 : α))
  let t70 := (t66 * t66)
  let t72 := (-t68)
  let t73 := (t66 * t68)
  let t89 := ((0 : α) * t72)
  let t95 := ((0 : α) * t70)
  let t306 := (q.v.x * q.v.x)
  let t307 := (q.v.y * q.v.y)
  let t311 := ((1 : α) - ((2 : α) * (t307 + t306)))
  let t312 := (q.v.x * q.r)
  let t313 := (q.v.y * q.v.z)
  let t316 := (q.v.y * q.r)
  let t317 := (q.v.z * q.v.x)
  let t321 := ((2 : α) * (t313 + t312))
  let t322 := (q.v.z * q.v.z)
  let t326 := (q.v.z * q.r)
  let t327 := (q.v.x * q.v.y)
  let t331 := ((2 : α) * (t317 - t316))
  let t2397 := ((0 : α) * t73)
  let t6525 := (atan2 t331 t321)
  let t6526 := (-t6525)
  let t6527 := (cos t6526)
  let t6528 := (sin t6526)
  let t6529 := (t6527 * t66)
  let t6530 := (t6528 * t66)
  let t6531 := (t6527 * t68)
  let t6533 := (-t6528)
  let t6535 := ((t6533 * t66) + (t6531 * t68))
  let t6536 := (t6528 * t68)
  let t6538 := (t6529 + (t6536 * t68))
  let t6541 := ((t6533 * t72) + (t6531 * t66))
  let t6544 := ((t6527 * t72) + (t6536 * t66))
  let t6545 := ((0 : α) * t6530)
  let t6548 := ((((1 : α) * t6529) + t6545) + t89)
  let t6550 := ((0 : α) * t6529)
  let t6552 := ((t6550 + ((1 : α) * t6530)) + t89)
  let t6553 := (t6550 + t6545)
  let t6554 := (t6553 + ((1 : α) * t72))
  let t6556 := ((0 : α) * t6538)
  let t6561 := ((0 : α) * t6535)
  let t6564 := (t6561 + t6556)
  let t6567 := ((0 : α) * t6544)
  let t6572 := ((0 : α) * t6541)
  let t6575 := (t6572 + t6567)
  let t6578 := ((t6553 + t89) * (0 : α))
  let t6596 := ((((t6548 * t331) + (t6552 * t321)) + (t6554 * t311)) + t6578)
  let t6622 := ((((((((1 : α) * t6535) + t6556) + t2397) * t331) + (((t6561 + ((1 : α) * t6538)) + t2397) * t321)) + ((t6564 + ((1 : α) * t73)) * t311)) + ((t6564 + t2397) * (0 : α)))
  ⟨t6525, (atan2 (sqrt ((t6596 * t6596) + (t6622 * t6622))) ((((((((1 : α) * t6541) + t6567) + t95) * t331) + (((t6572 + ((1 : α) * t6544)) + t95) * t321)) + ((t6575 + ((1 : α) * t70)) * t311)) + ((t6575 + t95) * (0 : α)))), (atan2 ((((t6548 * ((2 : α) * (t327 + t326))) + (t6552 * ((1 : α) - ((2 : α) * (t322 + t306))))) + (t6554 * ((2 : α) * (t313 - t312)))) + t6578) ((((t6548 * ((1 : α) - ((2 : α) * (t307 + t322)))) + (t6552 * ((2 : α) * (t327 - t326)))) + (t6554 * ((2 : α) * (t317 + t316)))) + t6578))⟩

/-- extracted from the C++ template at T = Sym; 1 path(s) -/
def Euler.ctorXYZLayout_ZXZ {α : Type} (v : V3 α) : ((V3 α) × Int) :=
  (⟨v.z, v.x, v.y⟩, (8465 : Int))

/-- extracted from the C++ template at T = Sym; 1 path(s) -/
def Euler.ctorXYZLayoutScalars_ZXZ {α : Type} (xi : α) (yi : α) (zi : α) : ((V3 α) × Int) :=
  (⟨zi, xi, yi⟩, (8465 : Int))

/-- extracted from the C++ template at T = Sym; 1 path(s) -/
def Euler.ctorIJKLayout_ZXZ {α : Type} (v : V3 α) : ((V3 α) × Int) :=
  (⟨v.x, v.y, v.z⟩, (8465 : Int))

/-- extracted from the C++ template at T = Sym; 1 path(s) -/
def Euler.setXYZVector_ZXZ {α : Type} (a : V3 α) (v : V3 α) : (V3 α) :=
  ⟨v.z, v.x, v.y⟩

/-- extracted from the C++ template at T = Sym; 1 path(s) -/
def Euler.toXYZVector_ZXZ {α : Type} (a : V3 α) : (V3 α) :=
  ⟨a.y, a.z, a.x⟩

/-- extracted from the C++ template at T = Sym; 1 path(s) -/
def Euler.angleOrder_ZXZ {α : Type} : (Int × Int × Int) :=
  ((2 : Int), (0 : Int), (1 : Int))

/-- extracted from the C++ template at T = Sym; 1 path(s) -/
def Euler.angleMapping_ZXZ {α : Type} : (Int × Int × Int) :=
  ((1 : Int), (2 : Int), (0 : Int))

/-- extracted from the C++ template at T = Sym; 1 path(s) -/
def Euler.order_ZXZ {α : Type} : (Int × Bool × Bool × Bool × Bool × Int) :=
  ((8465 : Int), true, true, true, true, (2 : Int))

/-- extracted from the C++ template at T = Sym; 1 path(s) -/
def Euler.setOrderKeepsAngles_ZXZ {α : Type} (a : V3 α) : ((V3 α) × Int) :=
  (⟨a.x, a.y, a.z⟩, (8465 : Int))

/-- extracted from the C++ template at T = Sym; 1 path(s) -/
def Euler.copyAndAssign_ZXZ {α : Type} (a : V3 α) (v : V3 α) : ((V3 α) × Int × (V3 α) × Int × (V3 α) × Int) :=
  (⟨a.x, a.y, a.z⟩, (8465 : Int), ⟨a.x, a.y, a.z⟩, (8465 : Int), ⟨v.x, v.y, v.z⟩, (8465 : Int))

/-- extracted from the C++ template at T = Sym; 1 path(s) -/
def Euler.reorderFromXYZ_ZXZ {α : Type} [Add α] [Sub α] [Mul α] [Neg α] [OfNat α 0] [OfNat α 1] (sqrt : α → α) (sin : α → α) (cos : α → α) (atan2 : α → α → α) (a : V3 α) : ((V3 α) × Int) :=
  let t4 := (cos a.x)
  let t5 := (cos a.y)
  let t6 := (cos a.z)
  let t7 := (sin a.x)
  let t8 := (sin a.y)
  let t9 := (sin a.z)
  let t10 := (t4 * t6)
  let t11 := (t4 * t9)
  let t12 := (t7 * t6)
  let t13 := (t7 * t9)
  let t25 := (-t8)
  let t26 := (t5 * t7)
  let t27 := (t5 * t4)
  let t66 := (cos (0 : α))
  let t68 := (sin (0 : α))
  let t70 := (t66 * t66)
  let t72 := (-t68)
  let t73 := (t66 * t68)
  let t89 := ((0 : α) * t72)
  let t95 := ((0 : α) * t70)
  let t2397 := ((0 : α) * t73)
  let t6662 := (atan2 t25 t26)
  let t6663 := (-t6662)
  let t6664 := (cos t6663)
  let t6665 := (sin t6663)
  let t6666 := (t6664 * t66)
  let t6667 := (t6665 * t66)
  let t6668 := (t6664 * t68)
  let t6670 := (-t6665)
  let t6672 := ((t6670 * t66) + (t6668 * t68))
  let t6673 := (t6665 * t68)
  let t6675 := (t6666 + (t6673 * t68))
  let t6678 := ((t6670 * t72) + (t6668 * t66))
  let t6681 := ((t6664 * t72) + (t6673 * t66))
  let t6682 := ((0 : α) * t6667)
  let t6685 := ((((1 : α) * t6666) + t6682) + t89)
  let t6687 := ((0 : α) * t6666)
  let t6689 := ((t6687 + ((1 : α) * t6667)) + t89)
  let t6690 := (t6687 + t6682)
  let t6691 := (t6690 + ((1 : α) * t72))
  let t6693 := ((0 : α) * t6675)
  let t6698 := ((0 : α) * t6672)
  let t6701 := (t6698 + t6693)
  let t6704 := ((0 : α) * t6681)
  let t6709 := ((0 : α) * t6678)
  let t6712 := (t6709 + t6704)
  let t6715 := ((t6690 + t89) * (0 : α))
  let t6733 := ((((t6685 * t25) + (t6689 * t26)) + (t6691 * t27)) + t6715)
  let t6759 := ((((((((1 : α) * t6672) + t6693) + t2397) * t25) + (((t6698 + ((1 : α) * t6675)) + t2397) * t26)) + ((t6701 + ((1 : α) * t73)) * t27)) + ((t6701 + t2397) * (0 : α)))
  (⟨t6662, (atan2 (sqrt ((t6733 * t6733) + (t6759 * t6759))) ((((((((1 : α) * t6678) + t6704) + t95) * t25) + (((t6709 + ((1 : α) * t6681)) + t95) * t26)) + ((t6712 + ((1 : α) * t70)) * t27)) + ((t6712 + t95) * (0 : α)))), (atan2 ((((t6685 * (t5 * t9)) + (t6689 * ((t8 * t13) + t10))) + (t6691 * ((t8 * t11) - t12))) + t6715) ((((t6685 * (t5 * t6)) + (t6689 * ((t8 * t12) - t11))) + (t6691 * ((t8 * t10) + t13))) + t6715))⟩, (8465 : Int))

/-- extracted from the C++ template at T = Sym; 1 path(s) -/
def Euler.reorderToZYXr_ZXZ {α : Type} [Add α] [Sub α] [Mul α] [Neg α] [OfNat α 0] [OfNat α 1] (sqrt : α → α) (sin : α → α) (cos : α → α) (atan2 : α → α → α) (a : V3 α) : ((V3 α) × Int) :=
  let t4 := (cos a.x)
  let t5 := (cos a.y)
  let t6 := (cos a.z)
  let t7 := (sin a.x)
  let t8 := (sin a.y)
  let t9 := (sin a.z)
  let t10 := (t4 * t6)
  let t11 := (t4 * t9)
  let t12 := (t7 * t6)
  let t13 := (t7 * t9)
  let t66 := (cos (0 : α))
  let t68 := (sin (0 : α))
  let t70 := (t66 * t66)
  let t71 := (t68 * t66)
  let t72 := (-t68)
  let t89 := ((0 : α) * t72)
  let t90 := ((0 : α) * t71)
  let t93 := ((((1 : α) * t70) + t90) + t89)
  let t95 := ((0 : α) * t70)
  let t97 := ((t95 + ((1 : α) * t71)) + t89)
  let t99 := (t95 + t90)
  let t100 := (t99 + ((1 : α) * t72))
  let t128 := ((t99 + t89) * (0 : α))
  let t4045 := (t8 * t4)
  let t4047 := (-t5)
  let t4049 := ((t4047 * t13) + t10)
  let t4054 := ((t5 * t12) + t11)
  let t6848 := ((((t93 * t4049) + (t97 * ((t4047 * t11) - t12))) + (t100 * (t8 * t9))) + t128)
  let t6854 := ((((t93 * t4054) + (t97 * ((t5 * t10) - t13))) + (t100 * ((-t8) * t6))) + t128)
  (⟨(atan2 t4054 t4049), (atan2 (-((((t93 * (t8 * t7)) + (t97 * t4045)) + (t100 * t5)) + t128)) (sqrt ((t6848 * t6848) + (t6854 * t6854)))), (atan2 t4045 t5)⟩, (256 : Int))

/-- extracted from the C++ template at T = Sym; 1 path(s) -/
def Euler.toMatrix33_XYZr {α : Type} [Add α] [Sub α] [Mul α] [Neg α] [OfNat α 1] (sin : α → α) (cos : α → α) (a : V3 α) : (M33 α) :=
  let t622 := (a.x * (-(1 : α)))
  let t623 := (a.y * (-(1 : α)))
  let t624 := (a.z * (-(1 : α)))
  let t625 := (cos t622)
  let t626 := (cos t623)
  let t627 := (cos t624)
  let t628 := (sin t622)
  let t629 := (sin t623)
  let t630 := (sin t624)
  let t6929 := (t627 * t625)
  let t6930 := (t627 * t628)
  let t6931 := (t630 * t625)
  let t6932 := (t630 * t628)
  ⟨(t626 * t627), ((t629 * t6930) - t6931), ((t629 * t6929) + t6932), (t626 * t630), ((t629 * t6932) + t6929), ((t629 * t6931) - t6930), (-t629), (t626 * t628), (t626 * t625)⟩

/-- extracted from the C++ template at T = Sym; 1 path(s) -/
def Euler.toMatrix44_XYZr {α : Type} [Add α] [Sub α] [Mul α] [Neg α] [OfNat α 0] [OfNat α 1] (sin : α → α) (cos : α → α) (a : V3 α) : (M44 α) :=
  let t622 := (a.x * (-(1 : α)))
  let t623 := (a.y * (-(1 : α)))
  let t624 := (a.z * (-(1 : α)))
  let t625 := (cos t622)
  let t626 := (cos t623)
  let t627 := (cos t624)
  let t628 := (sin t622)
  let t629 := (sin t623)
  let t630 := (sin t624)
  let t6929 := (t627 * t625)
  let t6930 := (t627 * t628)
  let t6931 := (t630 * t625)
  let t6932 := (t630 * t628)
  ⟨(t626 * t627), ((t629 * t6930) - t6931), ((t629 * t6929) + t6932), (0 : α), (t626 * t630), ((t629 * t6932) + t6929), ((t629 * t6931) - t6930), (0 : α), (-t629), (t626 * t628), (t626 * t625), (0 : α), (0 : α), (0 : α), (0 : α), (1 : α)⟩

/-- extracted from the C++ template at T = Sym; 1 path(s) -/
def Euler.toQuat_XYZr {α : Type} [Add α] [Sub α] [Mul α] [Div α] [Neg α] [OfNat α 1] [OfNat α 2] (sin : α → α) (cos : α → α) (a : V3 α) : (Quat α) :=
  let t29 := (a.x * ((1 : α) / (2 : α)))
  let t31 := (a.z * ((1 : α) / (2 : α)))
  let t32 := (cos t29)
  let t34 := (cos t31)
  let t35 := (sin t29)
  let t37 := (sin t31)
  let t649 := ((-a.y) * ((1 : α) / (2 : α)))
  let t650 := (cos t649)
  let t651 := (sin t649)
  let t6941 := (t34 * t32)
  let t6942 := (t34 * t35)
  let t6943 := (t37 * t32)
  let t6944 := (t37 * t35)
  ⟨((t650 * t6941) + (t651 * t6944)), ⟨((t650 * t6942) - (t651 * t6943)), (((t650 * t6944) + (t651 * t6941)) * (-(1 : α))), ((t650 * t6943) - (t651 * t6942))⟩⟩

/-- extracted from the C++ template at T = Sym; 1 path(s) -/
def Euler.extractM33_XYZr {α : Type} [Add α] [Mul α] [Neg α] [OfNat α 0] [OfNat α 1] (sqrt : α → α) (sin : α → α) (cos : α → α) (atan2 : α → α → α) (m : M33 α) : (V3 α) :=
  let t66 := (cos (0 : α))
  let t68 := (sin (0 : α))
  let t70 := (t66 * t66)
  let t72 := (-t68)
  let t95 := ((0 : α) * t70)
  let t2941 := (atan2 m.x10 m.x00)
  let t2942 := (cos t2941)
  let t2943 := (sin t2941)
  let t2956 := (((-t2943) * t72) + ((t2942 * t68) * t66))
  let t2959 := ((t2942 * t72) + ((t2943 * t68) * t66))
  let t2982 := ((0 : α) * t2959)
  let t2985 := ((((1 : α) * t2956) + t2982) + t95)
  let t2987 := ((0 : α) * t2956)
  let t2989 := ((t2987 + ((1 : α) * t2959)) + t95)
  let t2990 := (t2987 + t2982)
  let t2991 := (t2990 + ((1 : α) * t70))
  let t3045 := ((t2990 + t95) * (0 : α))
  let t3057 := ((((t2985 * m.x01) + (t2989 * m.x11)) + (t2991 * m.x21)) + t3045)
  let t3063 := ((((t2985 * m.x02) + (t2989 * m.x12)) + (t2991 * m.x22)) + t3045)
  ⟨((atan2 m.x21 m.x22) * (-(1 : α))), ((atan2 (-((((t2985 * m.x00) + (t2989 * m.x10)) + (t2991 * m.x20)) + t3045)) (sqrt ((t3063 * t3063) + (t3057 * t3057)))) * (-(1 : α))), (t2941 * (-(1 : α)))⟩

/-- extracted from the C++ template at T = Sym; 1 path(s) -/
def Euler.extractM44_XYZr {α : Type} [Add α] [Mul α] [Neg α] [OfNat α 0] [OfNat α 1] (sqrt : α → α) (sin : α → α) (cos : α → α) (atan2 : α → α → α) (m : M44 α) : (V3 α) :=
  let t66 := (cos (0 : α))
  let t68 := (sin (0 : α))
  let t70 := (t66 * t66)
  let t72 := (-t68)
  let t95 := ((0 : α) * t70)
  let t2941 := (atan2 m.x10 m.x00)
  let t2942 := (cos t2941)
  let t2943 := (sin t2941)
  let t2956 := (((-t2943) * t72) + ((t2942 * t68) * t66))
  let t2959 := ((t2942 * t72) + ((t2943 * t68) * t66))
  let t2982 := ((0 : α) * t2959)
  let t2985 := ((((1 : α) * t2956) + t2982) + t95)
  let t2987 := ((0 : α) * t2956)
  let t2989 := ((t2987 + ((1 : α) * t2959)) + t95)
  let t2990 := (t2987 + t2982)
  let t2991 := (t2990 + ((1 : α) * t70))
  let t2992 := (t2990 + t95)
  let t3110 := ((((t2985 * m.x01) + (t2989 * m.x11)) + (t2991 * m.x21)) + (t2992 * m.x31))
  let t3112 := ((((t2985 * m.x02) + (t2989 * m.x12)) + (t2991 * m.x22)) + (t2992 * m.x32))
  ⟨((atan2 m.x21 m.x22) * (-(1 : α))), ((atan2 (-((((t2985 * m.x00) + (t2989 * m.x10)) + (t2991 * m.x20)) + (t2992 * m.x30))) (sqrt ((t3112 * t3112) + (t3110 * t3110)))) * (-(1 : α))), (t2941 * (-(1 : α)))⟩

/-- extracted from the C++ template at T = Sym; 1 path(s) -/
def Euler.ctorM33_XYZr {α : Type} [Add α] [Mul α] [Neg α] [OfNat α 0] [OfNat α 1] (sqrt : α → α) (sin : α → α) (cos : α → α) (atan2 : α → α → α) (m : M33 α) : ((V3 α) × Int) :=
  let t66 := (cos (0 : α))
  let t68 := (sin (0 : α))
  let t70 := (t66 * t66)
  let t72 := (-t68)
  let t95 := ((0 : α) * t70)
  let t2941 := (atan2 m.x10 m.x00)
  let t2942 := (cos t2941)
  let t2943 := (sin t2941)
  let t2956 := (((-t2943) * t72) + ((t2942 * t68) * t66))
  let t2959 := ((t2942 * t72) + ((t2943 * t68) * t66))
  let t2982 := ((0 : α) * t2959)
  let t2985 := ((((1 : α) * t2956) + t2982) + t95)
  let t2987 := ((0 : α) * t2956)
  let t2989 := ((t2987 + ((1 : α) * t2959)) + t95)
  let t2990 := (t2987 + t2982)
  let t2991 := (t2990 + ((1 : α) * t70))
  let t3045 := ((t2990 + t95) * (0 : α))
  let t3057 := ((((t2985 * m.x01) + (t2989 * m.x11)) + (t2991 * m.x21)) + t3045)
  let t3063 := ((((t2985 * m.x02) + (t2989 * m.x12)) + (t2991 * m.x22)) + t3045)
  (⟨((atan2 m.x21 m.x22) * (-(1 : α))), ((atan2 (-((((t2985 * m.x00) + (t2989 * m.x10)) + (t2991 * m.x20)) + t3045)) (sqrt ((t3063 * t3063) + (t3057 * t3057)))) * (-(1 : α))), (t2941 * (-(1 : α)))⟩, (8192 : Int))

/-- extracted from the C++ template at T = Sym; 1 path(s) -/
def Euler.ctorM44_XYZr {α : Type} [Add α] [Mul α] [Neg α] [OfNat α 0] [OfNat α 1] (sqrt : α → α) (sin : α → α) (cos : α → α) (atan2 : α → α → α) (m : M44 α) : ((V3 α) × Int) :=
  let t66 := (cos (0 : α))
  let t68 := (sin (0 : α))
  let t70 := (t66 * t66)
  let t72 := (-t68)
  let t95 := ((0 : α) * t70)
  let t2941 := (atan2 m.x10 m.x00)
  let t2942 := (cos t2941)
  let t2943 := (sin t2941)
  let t2956 := (((-t2943) * t72) + ((t2942 * t68) * t66))
  let t2959 := ((t2942 * t72) + ((t2943 * t68) * t66))
  let t2982 := ((0 : α) * t2959)
  let t2985 := ((((1 : α) * t2956) + t2982) + t95)
  let t2987 := ((0 : α) * t2956)
  let t2989 := ((t2987 + ((1 : α) * t2959)) + t95)
  let t2990 := (t2987 + t2982)
  let t2991 := (t2990 + ((1 : α) * t70))
  let t2992 := (t2990 + t95)
  let t3110 := ((((t2985 * m.x01) + (t2989 * m.x11)) + (t2991 * m.x21)) + (t2992 * m.x31))
  let t3112 := ((((t2985 * m.x02) + (t2989 * m.x12)) + (t2991 * m.x22)) + (t2992 * m.x32))
  (⟨((atan2 m.x21 m.x22) * (-(1 : α))), ((atan2 (-((((t2985 * m.x00) + (t2989 * m.x10)) + (t2991 * m.x20)) + (t2992 * m.x30))) (sqrt ((t3112 * t3112) + (t3110 * t3110)))) * (-(1 : α))), (t2941 * (-(1 : α)))⟩, (8192 : Int))

/-- extracted from the C++ template at T = Sym; 1 path(s) -/
def Euler.extractQuat_XYZr {α : Type} [Add α] [Sub α] [Mul α] [Neg α] [OfNat α 0] [OfNat α 1] [OfNat α 2] (sqrt : α → α) (sin : α → α) (cos : α → α) (atan2 : α → α → α) (q : Quat α) : (V3 α) :=
  let t66 := (cos (0 : α))
  let t68 := (sin (0 : α))
  let t70 := (t66 * t66)
  let t72 := (-t68)
  let t95 := ((0 : α) * t70)
  let t306 := (q.v.x * q.v.x)
  let t307 := (q.v.y * q.v.y)
  let t311 := ((1 : α) - ((2 : α) * (t307 + t306)))
  let t312 := (q.v.x * q.r)
  let t313 := (q.v.y * q.v.z)
  let t315 := ((2 : α) * (t313 - t312))
  let t316 := (q.v.y * q.r)
  let t317 := (q.v.z * q.v.x)
  let t322 := (q.v.z * q.v.z)
  let t326 := (q.v.z * q.r)
  let t327 := (q.v.x * q.v.y)
  let t329 := ((2 : α) * (t327 - t326))
  let t336 := ((1 : α) - ((2 : α) * (t307 + t322)))
  let t3127 := (atan2 t329 t336)
  let t3128 := (cos t3127)
  let t3129 := (sin t3127)
  let t3142 := (((-t3129) * t72) + ((t3128 * t68) * t66))
  let t3145 := ((t3128 * t72) + ((t3129 * t68) * t66))
  let t3168 := ((0 : α) * t3145)
  let t3171 := ((((1 : α) * t3142) + t3168) + t95)
  let t3173 := ((0 : α) * t3142)
  let t3175 := ((t3173 + ((1 : α) * t3145)) + t95)
  let t3176 := (t3173 + t3168)
  let t3177 := (t3176 + ((1 : α) * t70))
  let t3231 := ((t3176 + t95) * (0 : α))
  let t3243 := ((((t3171 * ((2 : α) * (t327 + t326))) + (t3175 * ((1 : α) - ((2 : α) * (t322 + t306))))) + (t3177 * t315)) + t3231)
  let t3249 := ((((t3171 * ((2 : α) * (t317 - t316))) + (t3175 * ((2 : α) * (t313 + t312)))) + (t3177 * t311)) + t3231)
  ⟨((atan2 t315 t311) * (-(1 : α))), ((atan2 (-((((t3171 * t336) + (t3175 * t329)) + (t3177 * ((2 : α) * (t317 + t316)))) + t3231)) (sqrt ((t3249 * t3249) + (t3243 * t3243)))) * (-(1 : α))), (t3127 * (-(1 : α)))⟩

/-- extracted from the C++ template at T = Sym; 1 path(s) -/
def Euler.ctorXYZLayout_XYZr {α : Type} (v : V3 α) : ((V3 α) × Int) :=
  (⟨v.z, v.y, v.x⟩, (8192 : Int))

/-- extracted from the C++ template at T = Sym; 1 path(s) -/
def Euler.ctorXYZLayoutScalars_XYZr {α : Type} (xi : α) (yi : α) (zi : α) : ((V3 α) × Int) :=
  (⟨zi, yi, xi⟩, (8192 : Int))

/-- extracted from the C++ template at T = Sym; 1 path(s) -/
def Euler.ctorIJKLayout_XYZr {α : Type} (v : V3 α) : ((V3 α) × Int) :=
  (⟨v.x, v.y, v.z⟩, (8192 : Int))

/-- extracted from the C++ template at T = Sym; 1 path(s) -/
def Euler.setXYZVector_XYZr {α : Type} (a : V3 α) (v : V3 α) : (V3 α) :=
  ⟨v.z, v.y, v.x⟩

/-- extracted from the C++ template at T = Sym; 1 path(s) -/
def Euler.toXYZVector_XYZr {α : Type} (a : V3 α) : (V3 α) :=
  ⟨a.z, a.y, a.x⟩

/-- extracted from the C++ template at T = Sym; 1 path(s) -/
def Euler.angleOrder_XYZr {α : Type} : (Int × Int × Int) :=
  ((2 : Int), (1 : Int), (0 : Int))

/-- extracted from the C++ template at T = Sym; 1 path(s) -/
def Euler.angleMapping_XYZr {α : Type} : (Int × Int × Int) :=
  ((2 : Int), (1 : Int), (0 : Int))

/-- extracted from the C++ template at T = Sym; 1 path(s) -/
def Euler.order_XYZr {α : Type} : (Int × Bool × Bool × Bool × Bool × Int) :=
  ((8192 : Int), true, false, false, false, (2 : Int))

/-- extracted from the C++ template at T = Sym; 1 path(s) -/
def Euler.setOrderKeepsAngles_XYZr {α : Type} (a : V3 α) : ((V3 α) × Int) :=
  (⟨a.x, a.y, a.z⟩, (8192 : Int))

/-- extracted from the C++ template at T = Sym; 1 path(s) -/
def Euler.copyAndAssign_XYZr {α : Type} (a : V3 α) (v : V3 α) : ((V3 α) × Int × (V3 α) × Int × (V3 α) × Int) :=
  (⟨a.x, a.y, a.z⟩, (8192 : Int), ⟨a.x, a.y, a.z⟩, (8192 : Int), ⟨v.x, v.y, v.z⟩, (8192 : Int))

/-- extracted from the C++ template at T = Sym; 1 path(s) -/
def Euler.reorderFromXYZ_XYZr {α : Type} [Add α] [Sub α] [Mul α] [Neg α] [OfNat α 0] [OfNat α 1] (sqrt : α → α) (sin : α → α) (cos : α → α) (atan2 : α → α → α) (a : V3 α) : ((V3 α) × Int) :=
  let t4 := (cos a.x)
  let t5 := (cos a.y)
  let t6 := (cos a.z)
  let t7 := (sin a.x)
  let t8 := (sin a.y)
  let t9 := (sin a.z)
  let t10 := (t4 * t6)
  let t11 := (t4 * t9)
  let t12 := (t7 * t6)
  let t13 := (t7 * t9)
  let t15 := (t5 * t6)
  let t17 := ((t8 * t12) - t11)
  let t24 := ((t8 * t11) - t12)
  let t27 := (t5 * t4)
  let t66 := (cos (0 : α))
  let t68 := (sin (0 : α))
  let t70 := (t66 * t66)
  let t72 := (-t68)
  let t95 := ((0 : α) * t70)
  let t3267 := (atan2 t17 t15)
  let t3268 := (cos t3267)
  let t3269 := (sin t3267)
  let t3282 := (((-t3269) * t72) + ((t3268 * t68) * t66))
  let t3285 := ((t3268 * t72) + ((t3269 * t68) * t66))
  let t3308 := ((0 : α) * t3285)
  let t3311 := ((((1 : α) * t3282) + t3308) + t95)
  let t3313 := ((0 : α) * t3282)
  let t3315 := ((t3313 + ((1 : α) * t3285)) + t95)
  let t3316 := (t3313 + t3308)
  let t3317 := (t3316 + ((1 : α) * t70))
  let t3371 := ((t3316 + t95) * (0 : α))
  let t3383 := ((((t3311 * (t5 * t9)) + (t3315 * ((t8 * t13) + t10))) + (t3317 * t24)) + t3371)
  let t3389 := ((((t3311 * (-t8)) + (t3315 * (t5 * t7))) + (t3317 * t27)) + t3371)
  (⟨((atan2 t24 t27) * (-(1 : α))), ((atan2 (-((((t3311 * t15) + (t3315 * t17)) + (t3317 * ((t8 * t10) + t13))) + t3371)) (sqrt ((t3389 * t3389) + (t3383 * t3383)))) * (-(1 : α))), (t3267 * (-(1 : α)))⟩, (8192 : Int))

/-- extracted from the C++ template at T = Sym; 1 path(s) -/
def Euler.reorderToZYXr_XYZr {α : Type} [Add α] [Sub α] [Mul α] [Neg α] [OfNat α 0] [OfNat α 1] (sqrt : α → α) (sin : α → α) (cos : α → α) (atan2 : α → α → α) (a : V3 α) : ((V3 α) × Int) :=
  let t66 := (cos (0 : α))
  let t68 := (sin (0 : α))
  let t70 := (t66 * t66)
  let t71 := (t68 * t66)
  let t72 := (-t68)
  let t89 := ((0 : α) * t72)
  let t90 := ((0 : α) * t71)
  let t93 := ((((1 : α) * t70) + t90) + t89)
  let t95 := ((0 : α) * t70)
  let t97 := ((t95 + ((1 : α) * t71)) + t89)
  let t99 := (t95 + t90)
  let t100 := (t99 + ((1 : α) * t72))
  let t128 := ((t99 + t89) * (0 : α))
  let t622 := (a.x * (-(1 : α)))
  let t623 := (a.y * (-(1 : α)))
  let t624 := (a.z * (-(1 : α)))
  let t625 := (cos t622)
  let t626 := (cos t623)
  let t627 := (cos t624)
  let t628 := (sin t622)
  let t629 := (sin t623)
  let t630 := (sin t624)
  let t635 := (t626 * t627)
  let t647 := (t626 * t625)
  let t6929 := (t627 * t625)
  let t6930 := (t627 * t628)
  let t6931 := (t630 * t625)
  let t6932 := (t630 * t628)
  let t6934 := ((t629 * t6931) - t6930)
  let t6940 := ((t629 * t6930) - t6931)
  let t7004 := ((((t93 * t635) + (t97 * (t626 * t630))) + (t100 * (-t629))) + t128)
  let t7009 := ((((t93 * t6940) + (t97 * ((t629 * t6932) + t6929))) + (t100 * (t626 * t628))) + t128)
  (⟨(atan2 t6940 t635), (atan2 (-((((t93 * ((t629 * t6929) + t6932)) + (t97 * t6934)) + (t100 * t647)) + t128)) (sqrt ((t7004 * t7004) + (t7009 * t7009)))), (atan2 t6934 t647)⟩, (256 : Int))

/-- extracted from the C++ template at T = Sym; 1 path(s) -/
def Euler.toMatrix33_XZYr {α : Type} [Add α] [Sub α] [Mul α] [Neg α] (sin : α → α) (cos : α → α) (a : V3 α) : (M33 α) :=
  let t4 := (cos a.x)
  let t5 := (cos a.y)
  let t6 := (cos a.z)
  let t7 := (sin a.x)
  let t8 := (sin a.y)
  let t9 := (sin a.z)
  let t7087 := (t6 * t4)
  let t7088 := (t6 * t7)
  let t7089 := (t9 * t4)
  let t7090 := (t9 * t7)
  ⟨((t8 * t7090) + t7087), (t5 * t9), ((t8 * t7089) - t7088), ((t8 * t7088) - t7089), (t5 * t6), ((t8 * t7087) + t7090), (t5 * t7), (-t8), (t5 * t4)⟩

/-- extracted from the C++ template at T = Sym; 1 path(s) -/
def Euler.toMatrix44_XZYr {α : Type} [Add α] [Sub α] [Mul α] [Neg α] [OfNat α 0] [OfNat α 1] (sin : α → α) (cos : α → α) (a : V3 α) : (M44 α) :=
  let t4 := (cos a.x)
  let t5 := (cos a.y)
  let t6 := (cos a.z)
  let t7 := (sin a.x)
  let t8 := (sin a.y)
  let t9 := (sin a.z)
  let t7087 := (t6 * t4)
  let t7088 := (t6 * t7)
  let t7089 := (t9 * t4)
  let t7090 := (t9 * t7)
  ⟨((t8 * t7090) + t7087), (t5 * t9), ((t8 * t7089) - t7088), (0 : α), ((t8 * t7088) - t7089), (t5 * t6), ((t8 * t7087) + t7090), (0 : α), (t5 * t7), (-t8), (t5 * t4), (0 : α), (0 : α), (0 : α), (0 : α), (1 : α)⟩

/-- extracted from the C++ template at T = Sym; 1 path(s) -/
def Euler.toQuat_XZYr {α : Type} [Add α] [Sub α] [Mul α] [Div α] [OfNat α 1] [OfNat α 2] (sin : α → α) (cos : α → α) (a : V3 α) : (Quat α) :=
  let t29 := (a.x * ((1 : α) / (2 : α)))
  let t30 := (a.y * ((1 : α) / (2 : α)))
  let t31 := (a.z * ((1 : α) / (2 : α)))
  let t32 := (cos t29)
  let t33 := (cos t30)
  let t34 := (cos t31)
  let t35 := (sin t29)
  let t36 := (sin t30)
  let t37 := (sin t31)
  let t6941 := (t34 * t32)
  let t6942 := (t34 * t35)
  let t6943 := (t37 * t32)
  let t6944 := (t37 * t35)
  ⟨((t33 * t6941) + (t36 * t6944)), ⟨(((t33 * t6944) + (t36 * t6941)) * (1 : α)), ((t33 * t6942) - (t36 * t6943)), ((t33 * t6943) - (t36 * t6942))⟩⟩

/-- extracted from the C++ template at T = Sym; 1 path(s) -/
def Euler.extractM33_XZYr {α : Type} [Add α] [Mul α] [Neg α] [OfNat α 0] [OfNat α 1] (sqrt : α → α) (sin : α → α) (cos : α → α) (atan2 : α → α → α) (m : M33 α) : (V3 α) :=
  let t66 := (cos (0 : α))
  let t68 := (sin (0 : α))
  let t70 := (t66 * t66)
  let t72 := (-t68)
  let t95 := ((0 : α) * t70)
  let t2366 := (atan2 m.x01 m.x11)
  let t2367 := (-t2366)
  let t2368 := (cos t2367)
  let t2369 := (sin t2367)
  let t2382 := (((-t2369) * t72) + ((t2368 * t68) * t66))
  let t2385 := ((t2368 * t72) + ((t2369 * t68) * t66))
  let t2410 := ((0 : α) * t2385)
  let t2413 := ((((1 : α) * t2382) + t2410) + t95)
  let t2415 := ((0 : α) * t2382)
  let t2417 := ((t2415 + ((1 : α) * t2385)) + t95)
  let t2418 := (t2415 + t2410)
  let t2419 := (t2418 + ((1 : α) * t70))
  let t2473 := ((t2418 + t95) * (0 : α))
  let t2479 := ((((t2413 * m.x00) + (t2417 * m.x10)) + (t2419 * m.x20)) + t2473)
  let t2491 := ((((t2413 * m.x02) + (t2417 * m.x12)) + (t2419 * m.x22)) + t2473)
  ⟨(atan2 m.x20 m.x22), (atan2 (-((((t2413 * m.x01) + (t2417 * m.x11)) + (t2419 * m.x21)) + t2473)) (sqrt ((t2491 * t2491) + (t2479 * t2479)))), t2366⟩

/-- extracted from the C++ template at T = Sym; 1 path(s) -/
def Euler.extractM44_XZYr {α : Type} [Add α] [Mul α] [Neg α] [OfNat α 0] [OfNat α 1] (sqrt : α → α) (sin : α → α) (cos : α → α) (atan2 : α → α → α) (m : M44 α) : (V3 α) :=
  let t66 := (cos (0 : α))
  let t68 := (sin (0 : α))
  let t70 := (t66 * t66)
  let t72 := (-t68)
  let t95 := ((0 : α) * t70)
  let t2366 := (atan2 m.x01 m.x11)
  let t2367 := (-t2366)
  let t2368 := (cos t2367)
  let t2369 := (sin t2367)
  let t2382 := (((-t2369) * t72) + ((t2368 * t68) * t66))
  let t2385 := ((t2368 * t72) + ((t2369 * t68) * t66))
  let t2410 := ((0 : α) * t2385)
  let t2413 := ((((1 : α) * t2382) + t2410) + t95)
  let t2415 := ((0 : α) * t2382)
  let t2417 := ((t2415 + ((1 : α) * t2385)) + t95)
  let t2418 := (t2415 + t2410)
  let t2419 := (t2418 + ((1 : α) * t70))
  let t2420 := (t2418 + t95)
  let t2533 := ((((t2413 * m.x00) + (t2417 * m.x10)) + (t2419 * m.x20)) + (t2420 * m.x30))
  let t2537 := ((((t2413 * m.x02) + (t2417 * m.x12)) + (t2419 * m.x22)) + (t2420 * m.x32))
  ⟨(atan2 m.x20 m.x22), (atan2 (-((((t2413 * m.x01) + (t2417 * m.x11)) + (t2419 * m.x21)) + (t2420 * m.x31))) (sqrt ((t2537 * t2537) + (t2533 * t2533)))), t2366⟩

/-- extracted from the C++ template at T = Sym; 1 path(s) -/
def Euler.ctorM33_XZYr {α : Type} [Add α] [Mul α] [Neg α] [OfNat α 0] [OfNat α 1] (sqrt : α → α) (sin : α → α) (cos : α → α) (atan2 : α → α → α) (m : M33 α) : ((V3 α) × Int) :=
  let t66 := (cos (0 : α))
  let t68 := (sin (0 : α))
  let t70 := (t66 * t66)
  let t72 := (-t68)
  let t95 := ((0 : α) * t70)
  let t2366 := (atan2 m.x01 m.x11)
  let t2367 := (-t2366)
  let t2368 := (cos t2367)
  let t2369 := (sin t2367)
  let t2382 := (((-t2369) * t72) + ((t2368 * t68) * t66))
  let t2385 := ((t2368 * t72) + ((t2369 * t68) * t66))
  let t2410 := ((0 : α) * t2385)
  let t2413 := ((((1 : α) * t2382) + t2410) + t95)
  let t2415 := ((0 : α) * t2382)
  let t2417 := ((t2415 + ((1 : α) * t2385)) + t95)
  let t2418 := (t2415 + t2410)
  let t2419 := (t2418 + ((1 : α) * t70))
  let t2473 := ((t2418 + t95) * (0 : α))
  let t2479 := ((((t2413 * m.x00) + (t2417 * m.x10)) + (t2419 * m.x20)) + t2473)
  let t2491 := ((((t2413 * m.x02) + (t2417 * m.x12)) + (t2419 * m.x22)) + t2473)
  (⟨(atan2 m.x20 m.x22), (atan2 (-((((t2413 * m.x01) + (t2417 * m.x11)) + (t2419 * m.x21)) + t2473)) (sqrt ((t2491 * t2491) + (t2479 * t2479)))), t2366⟩, (8448 : Int))

/-- extracted from the C++ template at T = Sym; 1 path(s) -/
def Euler.ctorM44_XZYr {α : Type} [Add α] [Mul α] [Neg α] [OfNat α 0] [OfNat α 1] (sqrt : α → α) (sin : α → α) (cos : α → α) (atan2 : α → α → α) (m : M44 α) : ((V3 α) × Int) :=
  let t66 := (cos (0 : α))
  let t68 := (sin (0 : α))
  let t70 := (t66 * t66)
  let t72 := (-t68)
  let t95 := ((0 : α) * t70)
  let t2366 := (atan2 m.x01 m.x11)
  let t2367 := (-t2366)
  let t2368 := (cos t2367)
  let t2369 := (sin t2367)
  let t2382 := (((-t2369) * t72) + ((t2368 * t68) * t66))
  let t2385 := ((t2368 * t72) + ((t2369 * t68) * t66))
  let t2410 := ((0 : α) * t2385)
  let t2413 := ((((1 : α) * t2382) + t2410) + t95)
  let t2415 := ((0 : α) * t2382)
  let t2417 := ((t2415 + ((1 : α) * t2385)) + t95)
  let t2418 := (t2415 + t2410)
  let t2419 := (t2418 + ((1 : α) * t70))
  let t2420 := (t2418 + t95)
  let t2533 := ((((t2413 * m.x00) + (t2417 * m.x10)) + (t2419 * m.x20)) + (t2420 * m.x30))
  let t2537 := ((((t2413 * m.x02) + (t2417 * m.x12)) + (t2419 * m.x22)) + (t2420 * m.x32))
  (⟨(atan2 m.x20 m.x22), (atan2 (-((((t2413 * m.x01) + (t2417 * m.x11)) + (t2419 * m.x21)) + (t2420 * m.x31))) (sqrt ((t2537 * t2537) + (t2533 * t2533)))), t2366⟩, (8448 : Int))

/-- extracted from the C++ template at T = Sym; 1 path(s) -/
def Euler.extractQuat_XZYr {α : Type} [Add α] [Sub α] [Mul α] [Neg α] [OfNat α 0] [OfNat α 1] [OfNat α 2] (sqrt : α → α) (sin : α → α) (cos : α → α) (atan2 : α → α → α) (q : Quat α) : (V3 α) :=
  let t66 := (cos (0 : α))
  let t68 := (sin (0 : α))
  let t70 := (t66 * t66)
  let t72 := (-t68)
  let t95 := ((0 : α) * t70)
  let t306 := (q.v.x * q.v.x)
  let t307 := (q.v.y * q.v.y)
  let t311 := ((1 : α) - ((2 : α) * (t307 + t306)))
  let t312 := (q.v.x * q.r)
  let t313 := (q.v.y * q.v.z)
  let t316 := (q.v.y * q.r)
  let t317 := (q.v.z * q.v.x)
  let t319 := ((2 : α) * (t317 + t316))
  let t322 := (q.v.z * q.v.z)
  let t325 := ((1 : α) - ((2 : α) * (t322 + t306)))
  let t326 := (q.v.z * q.r)
  let t327 := (q.v.x * q.v.y)
  let t333 := ((2 : α) * (t327 + t326))
  let t2551 := (atan2 t333 t325)
  let t2552 := (-t2551)
  let t2553 := (cos t2552)
  let t2554 := (sin t2552)
  let t2567 := (((-t2554) * t72) + ((t2553 * t68) * t66))
  let t2570 := ((t2553 * t72) + ((t2554 * t68) * t66))
  let t2593 := ((0 : α) * t2570)
  let t2596 := ((((1 : α) * t2567) + t2593) + t95)
  let t2598 := ((0 : α) * t2567)
  let t2600 := ((t2598 + ((1 : α) * t2570)) + t95)
  let t2601 := (t2598 + t2593)
  let t2602 := (t2601 + ((1 : α) * t70))
  let t2656 := ((t2601 + t95) * (0 : α))
  let t2662 := ((((t2596 * ((1 : α) - ((2 : α) * (t307 + t322)))) + (t2600 * ((2 : α) * (t327 - t326)))) + (t2602 * t319)) + t2656)
  let t2674 := ((((t2596 * ((2 : α) * (t317 - t316))) + (t2600 * ((2 : α) * (t313 + t312)))) + (t2602 * t311)) + t2656)
  ⟨(atan2 t319 t311), (atan2 (-((((t2596 * t333) + (t2600 * t325)) + (t2602 * ((2 : α) * (t313 - t312)))) + t2656)) (sqrt ((t2674 * t2674) + (t2662 * t2662)))), t2551⟩

/-- extracted from the C++ template at T = Sym; 1 path(s) -/
def Euler.ctorXYZLayout_XZYr {α : Type} (v : V3 α) : ((V3 α) × Int) :=
  (⟨v.z, v.x, v.y⟩, (8448 : Int))

/-- extracted from the C++ template at T = Sym; 1 path(s) -/
def Euler.ctorXYZLayoutScalars_XZYr {α : Type} (xi : α) (yi : α) (zi : α) : ((V3 α) × Int) :=
  (⟨zi, xi, yi⟩, (8448 : Int))

/-- extracted from the C++ template at T = Sym; 1 path(s) -/
def Euler.ctorIJKLayout_XZYr {α : Type} (v : V3 α) : ((V3 α) × Int) :=
  (⟨v.x, v.y, v.z⟩, (8448 : Int))

/-- extracted from the C++ template at T = Sym; 1 path(s) -/
def Euler.setXYZVector_XZYr {α : Type} (a : V3 α) (v : V3 α) : (V3 α) :=
  ⟨v.z, v.x, v.y⟩

/-- extracted from the C++ template at T = Sym; 1 path(s) -/
def Euler.toXYZVector_XZYr {α : Type} (a : V3 α) : (V3 α) :=
  ⟨a.y, a.z, a.x⟩

/-- extracted from the C++ template at T = Sym; 1 path(s) -/
def Euler.angleOrder_XZYr {α : Type} : (Int × Int × Int) :=
  ((2 : Int), (0 : Int), (1 : Int))

/-- extracted from the C++ template at T = Sym; 1 path(s) -/
def Euler.angleMapping_XZYr {α : Type} : (Int × Int × Int) :=
  ((1 : Int), (2 : Int), (0 : Int))

/-- extracted from the C++ template at T = Sym; 1 path(s) -/
def Euler.order_XZYr {α : Type} : (Int × Bool × Bool × Bool × Bool × Int) :=
  ((8448 : Int), true, false, false, true, (2 : Int))

/-- extracted from the C++ template at T = Sym; 1 path(s) -/
def Euler.setOrderKeepsAngles_XZYr {α : Type} (a : V3 α) : ((V3 α) × Int) :=
  (⟨a.x, a.y, a.z⟩, (8448 : Int))

/-- extracted from the C++ template at T = Sym; 1 path(s) -/
def Euler.copyAndAssign_XZYr {α : Type} (a : V3 α) (v : V3 α) : ((V3 α) × Int × (V3 α) × Int × (V3 α) × Int) :=
  (⟨a.x, a.y, a.z⟩, (8448 : Int), ⟨a.x, a.y, a.z⟩, (8448 : Int), ⟨v.x, v.y, v.z⟩, (8448 : Int))

/-- extracted from the C++ template at T = Sym; 1 path(s) -/
def Euler.reorderFromXYZ_XZYr {α : Type} [Add α] [Sub α] [Mul α] [Neg α] [OfNat α 0] [OfNat α 1] (sqrt : α → α) (sin : α → α) (cos : α → α) (atan2 : α → α → α) (a : V3 α) : ((V3 α) × Int) :=
  let t4 := (cos a.x)
  let t5 := (cos a.y)
  let t6 := (cos a.z)
  let t7 := (sin a.x)
  let t8 := (sin a.y)
  let t9 := (sin a.z)
  let t10 := (t4 * t6)
  let t11 := (t4 * t9)
  let t12 := (t7 * t6)
  let t13 := (t7 * t9)
  let t19 := ((t8 * t10) + t13)
  let t20 := (t5 * t9)
  let t22 := ((t8 * t13) + t10)
  let t27 := (t5 * t4)
  let t66 := (cos (0 : α))
  let t68 := (sin (0 : α))
  let t70 := (t66 * t66)
  let t72 := (-t68)
  let t95 := ((0 : α) * t70)
  let t1625 := (atan2 t20 t22)
  let t1626 := (-t1625)
  let t1627 := (cos t1626)
  let t1628 := (sin t1626)
  let t2700 := (((-t1628) * t72) + ((t1627 * t68) * t66))
  let t2703 := ((t1627 * t72) + ((t1628 * t68) * t66))
  let t2726 := ((0 : α) * t2703)
  let t2729 := ((((1 : α) * t2700) + t2726) + t95)
  let t2731 := ((0 : α) * t2700)
  let t2733 := ((t2731 + ((1 : α) * t2703)) + t95)
  let t2734 := (t2731 + t2726)
  let t2735 := (t2734 + ((1 : α) * t70))
  let t2789 := ((t2734 + t95) * (0 : α))
  let t2795 := ((((t2729 * (t5 * t6)) + (t2733 * ((t8 * t12) - t11))) + (t2735 * t19)) + t2789)
  let t2807 := ((((t2729 * (-t8)) + (t2733 * (t5 * t7))) + (t2735 * t27)) + t2789)
  (⟨(atan2 t19 t27), (atan2 (-((((t2729 * t20) + (t2733 * t22)) + (t2735 * ((t8 * t11) - t12))) + t2789)) (sqrt ((t2807 * t2807) + (t2795 * t2795)))), t1625⟩, (8448 : Int))

/-- extracted from the C++ template at T = Sym; 1 path(s) -/
def Euler.reorderToZYXr_XZYr {α : Type} [Add α] [Sub α] [Mul α] [Neg α] [OfNat α 0] [OfNat α 1] (sqrt : α → α) (sin : α → α) (cos : α → α) (atan2 : α → α → α) (a : V3 α) : ((V3 α) × Int) :=
  let t4 := (cos a.x)
  let t5 := (cos a.y)
  let t6 := (cos a.z)
  let t7 := (sin a.x)
  let t8 := (sin a.y)
  let t9 := (sin a.z)
  let t20 := (t5 * t9)
  let t27 := (t5 * t4)
  let t66 := (cos (0 : α))
  let t68 := (sin (0 : α))
  let t70 := (t66 * t66)
  let t71 := (t68 * t66)
  let t72 := (-t68)
  let t89 := ((0 : α) * t72)
  let t90 := ((0 : α) * t71)
  let t93 := ((((1 : α) * t70) + t90) + t89)
  let t95 := ((0 : α) * t70)
  let t97 := ((t95 + ((1 : α) * t71)) + t89)
  let t99 := (t95 + t90)
  let t100 := (t99 + ((1 : α) * t72))
  let t128 := ((t99 + t89) * (0 : α))
  let t7087 := (t6 * t4)
  let t7088 := (t6 * t7)
  let t7089 := (t9 * t4)
  let t7090 := (t9 * t7)
  let t7094 := ((t8 * t7087) + t7090)
  let t7096 := ((t8 * t7090) + t7087)
  let t7160 := ((((t93 * t7096) + (t97 * ((t8 * t7088) - t7089))) + (t100 * (t5 * t7))) + t128)
  let t7163 := ((((t93 * t20) + (t97 * (t5 * t6))) + (t100 * (-t8))) + t128)
  (⟨(atan2 t20 t7096), (atan2 (-((((t93 * ((t8 * t7089) - t7088)) + (t97 * t7094)) + (t100 * t27)) + t128)) (sqrt ((t7160 * t7160) + (t7163 * t7163)))), (atan2 t7094 t27)⟩, (256 : Int))

/-- extracted from the C++ template at T = Sym; 1 path(s) -/
def Euler.toMatrix33_YZXr {α : Type} [Add α] [Sub α] [Mul α] [Neg α] [OfNat α 1] (sin : α → α) (cos : α → α) (a : V3 α) : (M33 α) :=
  let t622 := (a.x * (-(1 : α)))
  let t623 := (a.y * (-(1 : α)))
  let t624 := (a.z * (-(1 : α)))
  let t625 := (cos t622)
  let t626 := (cos t623)
  let t627 := (cos t624)
  let t628 := (sin t622)
  let t629 := (sin t623)
  let t630 := (sin t624)
  let t6929 := (t627 * t625)
  let t6930 := (t627 * t628)
  let t6931 := (t630 * t625)
  let t6932 := (t630 * t628)
  ⟨((t629 * t6932) + t6929), ((t629 * t6931) - t6930), (t626 * t630), (t626 * t628), (t626 * t625), (-t629), ((t629 * t6930) - t6931), ((t629 * t6929) + t6932), (t626 * t627)⟩

/-- extracted from the C++ template at T = Sym; 1 path(s) -/
def Euler.toMatrix44_YZXr {α : Type} [Add α] [Sub α] [Mul α] [Neg α] [OfNat α 0] [OfNat α 1] (sin : α → α) (cos : α → α) (a : V3 α) : (M44 α) :=
  let t622 := (a.x * (-(1 : α)))
  let t623 := (a.y * (-(1 : α)))
  let t624 := (a.z * (-(1 : α)))
  let t625 := (cos t622)
  let t626 := (cos t623)
  let t627 := (cos t624)
  let t628 := (sin t622)
  let t629 := (sin t623)
  let t630 := (sin t624)
  let t6929 := (t627 * t625)
  let t6930 := (t627 * t628)
  let t6931 := (t630 * t625)
  let t6932 := (t630 * t628)
  ⟨((t629 * t6932) + t6929), ((t629 * t6931) - t6930), (t626 * t630), (0 : α), (t626 * t628), (t626 * t625), (-t629), (0 : α), ((t629 * t6930) - t6931), ((t629 * t6929) + t6932), (t626 * t627), (0 : α), (0 : α), (0 : α), (0 : α), (1 : α)⟩

/-- extracted from the C++ template at T = Sym; 1 path(s) -/
def Euler.toQuat_YZXr {α : Type} [Add α] [Sub α] [Mul α] [Div α] [Neg α] [OfNat α 1] [OfNat α 2] (sin : α → α) (cos : α → α) (a : V3 α) : (Quat α) :=
  let t29 := (a.x * ((1 : α) / (2 : α)))
  let t31 := (a.z * ((1 : α) / (2 : α)))
  let t32 := (cos t29)
  let t34 := (cos t31)
  let t35 := (sin t29)
  let t37 := (sin t31)
  let t649 := ((-a.y) * ((1 : α) / (2 : α)))
  let t650 := (cos t649)
  let t651 := (sin t649)
  let t6941 := (t34 * t32)
  let t6942 := (t34 * t35)
  let t6943 := (t37 * t32)
  let t6944 := (t37 * t35)
  ⟨((t650 * t6941) + (t651 * t6944)), ⟨(((t650 * t6944) + (t651 * t6941)) * (-(1 : α))), ((t650 * t6943) - (t651 * t6942)), ((t650 * t6942) - (t651 * t6943))⟩⟩

/-- extracted from the C++ template at T = Sym; 1 path(s) -/
def Euler.extractM33_YZXr {α : Type} [Add α] [Mul α] [Neg α] [OfNat α 0] [OfNat α 1] (sqrt : α → α) (sin : α → α) (cos : α → α) (atan2 : α → α → α) (m : M33 α) : (V3 α) :=
  let t66 := (cos (0 : α))
  let t68 := (sin (0 : α))
  let t1755 := (atan2 m.x02 m.x22)
  let t1757 := (sin t1755)
  let t1763 := (((-t68) * t66) + ((t66 * t1757) * t68))
  let t1766 := ((t66 * t66) + ((t68 * t1757) * t68))
  let t1767 := ((cos t1755) * t68)
  let t1786 := ((0 : α) * t1767)
  let t1787 := ((0 : α) * t1766)
  let t1790 := ((((1 : α) * t1763) + t1787) + t1786)
  let t1792 := ((0 : α) * t1763)
  let t1794 := ((t1792 + ((1 : α) * t1766)) + t1786)
  let t1796 := (t1792 + t1787)
  let t1797 := (t1796 + ((1 : α) * t1767))
  let t1838 := ((t1796 + t1786) * (0 : α))
  let t1844 := ((((t1790 * m.x00) + (t1794 * m.x10)) + (t1797 * m.x20)) + t1838)
  let t1850 := ((((t1790 * m.x01) + (t1794 * m.x11)) + (t1797 * m.x21)) + t1838)
  ⟨((atan2 m.x10 m.x11) * (-(1 : α))), ((atan2 (-((((t1790 * m.x02) + (t1794 * m.x12)) + (t1797 * m.x22)) + t1838)) (sqrt ((t1850 * t1850) + (t1844 * t1844)))) * (-(1 : α))), (t1755 * (-(1 : α)))⟩

/-- extracted from the C++ template at T = Sym; 1 path(s) -/
def Euler.extractM44_YZXr {α : Type} [Add α] [Mul α] [Neg α] [OfNat α 0] [OfNat α 1] (sqrt : α → α) (sin : α → α) (cos : α → α) (atan2 : α → α → α) (m : M44 α) : (V3 α) :=
  let t66 := (cos (0 : α))
  let t68 := (sin (0 : α))
  let t1755 := (atan2 m.x02 m.x22)
  let t1757 := (sin t1755)
  let t1763 := (((-t68) * t66) + ((t66 * t1757) * t68))
  let t1766 := ((t66 * t66) + ((t68 * t1757) * t68))
  let t1767 := ((cos t1755) * t68)
  let t1786 := ((0 : α) * t1767)
  let t1787 := ((0 : α) * t1766)
  let t1790 := ((((1 : α) * t1763) + t1787) + t1786)
  let t1792 := ((0 : α) * t1763)
  let t1794 := ((t1792 + ((1 : α) * t1766)) + t1786)
  let t1796 := (t1792 + t1787)
  let t1797 := (t1796 + ((1 : α) * t1767))
  let t1798 := (t1796 + t1786)
  let t1914 := ((((t1790 * m.x00) + (t1794 * m.x10)) + (t1797 * m.x20)) + (t1798 * m.x30))
  let t1916 := ((((t1790 * m.x01) + (t1794 * m.x11)) + (t1797 * m.x21)) + (t1798 * m.x31))
  ⟨((atan2 m.x10 m.x11) * (-(1 : α))), ((atan2 (-((((t1790 * m.x02) + (t1794 * m.x12)) + (t1797 * m.x22)) + (t1798 * m.x32))) (sqrt ((t1916 * t1916) + (t1914 * t1914)))) * (-(1 : α))), (t1755 * (-(1 : α)))⟩

/-- extracted from the C++ template at T = Sym; 1 path(s) -/
def Euler.ctorM33_YZXr {α : Type} [Add α] [Mul α] [Neg α] [OfNat α 0] [OfNat α 1] (sqrt : α → α) (sin : α → α) (cos : α → α) (atan2 : α → α → α) (m : M33 α) : ((V3 α) × Int) :=
  let t66 := (cos (0 : α))
  let t68 := (sin (0 : α))
  let t1755 := (atan2 m.x02 m.x22)
  let t1757 := (sin t1755)
  let t1763 := (((-t68) * t66) + ((t66 * t1757) * t68))
  let t1766 := ((t66 * t66) + ((t68 * t1757) * t68))
  let t1767 := ((cos t1755) * t68)
  let t1786 := ((0 : α) * t1767)
  let t1787 := ((0 : α) * t1766)
  let t1790 := ((((1 : α) * t1763) + t1787) + t1786)
  let t1792 := ((0 : α) * t1763)
  let t1794 := ((t1792 + ((1 : α) * t1766)) + t1786)
  let t1796 := (t1792 + t1787)
  let t1797 := (t1796 + ((1 : α) * t1767))
  let t1838 := ((t1796 + t1786) * (0 : α))
  let t1844 := ((((t1790 * m.x00) + (t1794 * m.x10)) + (t1797 * m.x20)) + t1838)
  let t1850 := ((((t1790 * m.x01) + (t1794 * m.x11)) + (t1797 * m.x21)) + t1838)
  (⟨((atan2 m.x10 m.x11) * (-(1 : α))), ((atan2 (-((((t1790 * m.x02) + (t1794 * m.x12)) + (t1797 * m.x22)) + t1838)) (sqrt ((t1850 * t1850) + (t1844 * t1844)))) * (-(1 : α))), (t1755 * (-(1 : α)))⟩, (4096 : Int))

/-- extracted from the C++ template at T = Sym; 1 path(s) -/
def Euler.ctorM44_YZXr {α : Type} [Add α] [Mul α] [Neg α] [OfNat α 0] [OfNat α 1] (sqrt : α → α) (sin : α → α) (cos : α → α) (atan2 : α → α → α) (m : M44 α) : ((V3 α) × Int) :=
  let t66 := (cos (0 : α))
  let t68 := (sin (0 : α))
  let t1755 := (atan2 m.x02 m.x22)
  let t1757 := (sin t1755)
  let t1763 := (((-t68) * t66) + ((t66 * t1757) * t68))
  let t1766 := ((t66 * t66) + ((t68 * t1757) * t68))
  let t1767 := ((cos t1755) * t68)
  let t1786 := ((0 : α) * t1767)
  let t1787 := ((0 : α) * t1766)
  let t1790 := ((((1 : α) * t1763) + t1787) + t1786)
  let t1792 := ((0 : α) * t1763)
  let t1794 := ((t1792 + ((1 : α) * t1766)) + t1786)
  let t1796 := (t1792 + t1787)
  let t1797 := (t1796 + ((1 : α) * t1767))
  let t1798 := (t1796 + t1786)
  let t1914 := ((((t1790 * m.x00) + (t1794 * m.x10)) + (t1797 * m.x20)) + (t1798 * m.x30))
  let t1916 := ((((t1790 * m.x01) + (t1794 * m.x11)) + (t1797 * m.x21)) + (t1798 * m.x31))
  (⟨((atan2 m.x10 m.x11) * (-(1 : α))), ((atan2 (-((((t1790 * m.x02) + (t1794 * m.x12)) + (t1797 * m.x22)) + (t1798 * m.x32))) (sqrt ((t1916 * t1916) + (t1914 * t1914)))) * (-(1 : α))), (t1755 * (-(1 : α)))⟩, (4096 : Int))

/-- extracted from the C++ template at T = Sym; 1 path(s) -/
def Euler.extractQuat_YZXr {α : Type} [Add α] [Sub α] [Mul α] [Neg α] [OfNat α 0] [OfNat α 1] [OfNat α 2] (sqrt : α → α) (sin : α → α) (cos : α → α) (atan2 : α → α → α) (q : Quat α) : (V3 α) :=
  let t66 := (cos (0 : α))
  let t68 := (sin (0 : α))
  let t306 := (q.v.x * q.v.x)
  let t307 := (q.v.y * q.v.y)
  let t311 := ((1 : α) - ((2 : α) * (t307 + t306)))
  let t312 := (q.v.x * q.r)
  let t313 := (q.v.y * q.v.z)
  let t316 := (q.v.y * q.r)
  let t317 := (q.v.z * q.v.x)
  let t322 := (q.v.z * q.v.z)
  let t325 := ((1 : α) - ((2 : α) * (t322 + t306)))
  let t326 := (q.v.z * q.r)
  let t327 := (q.v.x * q.v.y)
  let t329 := ((2 : α) * (t327 - t326))
  let t331 := ((2 : α) * (t317 - t316))
  let t1946 := (atan2 t331 t311)
  let t1948 := (sin t1946)
  let t1954 := (((-t68) * t66) + ((t66 * t1948) * t68))
  let t1957 := ((t66 * t66) + ((t68 * t1948) * t68))
  let t1958 := ((cos t1946) * t68)
  let t1977 := ((0 : α) * t1958)
  let t1978 := ((0 : α) * t1957)
  let t1981 := ((((1 : α) * t1954) + t1978) + t1977)
  let t1983 := ((0 : α) * t1954)
  let t1985 := ((t1983 + ((1 : α) * t1957)) + t1977)
  let t1987 := (t1983 + t1978)
  let t1988 := (t1987 + ((1 : α) * t1958))
  let t2029 := ((t1987 + t1977) * (0 : α))
  let t2035 := ((((t1981 * ((1 : α) - ((2 : α) * (t307 + t322)))) + (t1985 * t329)) + (t1988 * ((2 : α) * (t317 + t316)))) + t2029)
  let t2041 := ((((t1981 * ((2 : α) * (t327 + t326))) + (t1985 * t325)) + (t1988 * ((2 : α) * (t313 - t312)))) + t2029)
  ⟨((atan2 t329 t325) * (-(1 : α))), ((atan2 (-((((t1981 * t331) + (t1985 * ((2 : α) * (t313 + t312)))) + (t1988 * t311)) + t2029)) (sqrt ((t2041 * t2041) + (t2035 * t2035)))) * (-(1 : α))), (t1946 * (-(1 : α)))⟩

/-- extracted from the C++ template at T = Sym; 1 path(s) -/
def Euler.ctorXYZLayout_YZXr {α : Type} (v : V3 α) : ((V3 α) × Int) :=
  (⟨v.y, v.x, v.z⟩, (4096 : Int))

/-- extracted from the C++ template at T = Sym; 1 path(s) -/
def Euler.ctorXYZLayoutScalars_YZXr {α : Type} (xi : α) (yi : α) (zi : α) : ((V3 α) × Int) :=
  (⟨yi, xi, zi⟩, (4096 : Int))

/-- extracted from the C++ template at T = Sym; 1 path(s) -/
def Euler.ctorIJKLayout_YZXr {α : Type} (v : V3 α) : ((V3 α) × Int) :=
  (⟨v.x, v.y, v.z⟩, (4096 : Int))

/-- extracted from the C++ template at T = Sym; 1 path(s) -/
def Euler.setXYZVector_YZXr {α : Type} (a : V3 α) (v : V3 α) : (V3 α) :=
  ⟨v.y, v.x, v.z⟩

/-- extracted from the C++ template at T = Sym; 1 path(s) -/
def Euler.toXYZVector_YZXr {α : Type} (a : V3 α) : (V3 α) :=
  ⟨a.y, a.x, a.z⟩

/-- extracted from the C++ template at T = Sym; 1 path(s) -/
def Euler.angleOrder_YZXr {α : Type} : (Int × Int × Int) :=
  ((1 : Int), (0 : Int), (2 : Int))

/-- extracted from the C++ template at T = Sym; 1 path(s) -/
def Euler.angleMapping_YZXr {α : Type} : (Int × Int × Int) :=
  ((1 : Int), (0 : Int), (2 : Int))

/-- extracted from the C++ template at T = Sym; 1 path(s) -/
def Euler.order_YZXr {α : Type} : (Int × Bool × Bool × Bool × Bool × Int) :=
  ((4096 : Int), true, false, false, false, (1 : Int))

/-- extracted from the C++ template at T = Sym; 1 path(s) -/
def Euler.setOrderKeepsAngles_YZXr {α : Type} (a : V3 α) : ((V3 α) × Int) :=
  (⟨a.x, a.y, a.z⟩, (4096 : Int))

/-- extracted from the C++ template at T = Sym; 1 path(s) -/
def Euler.copyAndAssign_YZXr {α : Type} (a : V3 α) (v : V3 α) : ((V3 α) × Int × (V3 α) × Int × (V3 α) × Int) :=
  (⟨a.x, a.y, a.z⟩, (4096 : Int), ⟨a.x, a.y, a.z⟩, (4096 : Int), ⟨v.x, v.y, v.z⟩, (4096 : Int))

/-- extracted from the C++ template at T = Sym; 1 path(s) -/
def Euler.reorderFromXYZ_YZXr {α : Type} [Add α] [Sub α] [Mul α] [Neg α] [OfNat α 0] [OfNat α 1] (sqrt : α → α) (sin : α → α) (cos : α → α) (atan2 : α → α → α) (a : V3 α) : ((V3 α) × Int) :=
  let t4 := (cos a.x)
  let t5 := (cos a.y)
  let t6 := (cos a.z)
  let t7 := (sin a.x)
  let t8 := (sin a.y)
  let t9 := (sin a.z)
  let t10 := (t4 * t6)
  let t11 := (t4 * t9)
  let t12 := (t7 * t6)
  let t13 := (t7 * t9)
  let t17 := ((t8 * t12) - t11)
  let t22 := ((t8 * t13) + t10)
  let t25 := (-t8)
  let t27 := (t5 * t4)
  let t66 := (cos (0 : α))
  let t68 := (sin (0 : α))
  let t2091 := (atan2 t25 t27)
  let t2093 := (sin t2091)
  let t2099 := (((-t68) * t66) + ((t66 * t2093) * t68))
  let t2102 := ((t66 * t66) + ((t68 * t2093) * t68))
  let t2103 := ((cos t2091) * t68)
  let t2122 := ((0 : α) * t2103)
  let t2123 := ((0 : α) * t2102)
  let t2126 := ((((1 : α) * t2099) + t2123) + t2122)
  let t2128 := ((0 : α) * t2099)
  let t2130 := ((t2128 + ((1 : α) * t2102)) + t2122)
  let t2132 := (t2128 + t2123)
  let t2133 := (t2132 + ((1 : α) * t2103))
  let t2174 := ((t2132 + t2122) * (0 : α))
  let t2180 := ((((t2126 * (t5 * t6)) + (t2130 * t17)) + (t2133 * ((t8 * t10) + t13))) + t2174)
  let t2186 := ((((t2126 * (t5 * t9)) + (t2130 * t22)) + (t2133 * ((t8 * t11) - t12))) + t2174)
  (⟨((atan2 t17 t22) * (-(1 : α))), ((atan2 (-((((t2126 * t25) + (t2130 * (t5 * t7))) + (t2133 * t27)) + t2174)) (sqrt ((t2186 * t2186) + (t2180 * t2180)))) * (-(1 : α))), (t2091 * (-(1 : α)))⟩, (4096 : Int))

/-- extracted from the C++ template at T = Sym; 1 path(s) -/
def Euler.reorderToZYXr_YZXr {α : Type} [Add α] [Sub α] [Mul α] [Neg α] [OfNat α 0] [OfNat α 1] (sqrt : α → α) (sin : α → α) (cos : α → α) (atan2 : α → α → α) (a : V3 α) : ((V3 α) × Int) :=
  let t66 := (cos (0 : α))
  let t68 := (sin (0 : α))
  let t70 := (t66 * t66)
  let t71 := (t68 * t66)
  let t72 := (-t68)
  let t89 := ((0 : α) * t72)
  let t90 := ((0 : α) * t71)
  let t93 := ((((1 : α) * t70) + t90) + t89)
  let t95 := ((0 : α) * t70)
  let t97 := ((t95 + ((1 : α) * t71)) + t89)
  let t99 := (t95 + t90)
  let t100 := (t99 + ((1 : α) * t72))
  let t128 := ((t99 + t89) * (0 : α))
  let t622 := (a.x * (-(1 : α)))
  let t623 := (a.y * (-(1 : α)))
  let t624 := (a.z * (-(1 : α)))
  let t625 := (cos t622)
  let t626 := (cos t623)
  let t627 := (cos t624)
  let t628 := (sin t622)
  let t629 := (sin t623)
  let t630 := (sin t624)
  let t635 := (t626 * t627)
  let t645 := (-t629)
  let t6929 := (t627 * t625)
  let t6930 := (t627 * t628)
  let t6931 := (t630 * t625)
  let t6932 := (t630 * t628)
  let t6934 := ((t629 * t6931) - t6930)
  let t6938 := ((t629 * t6932) + t6929)
  let t7288 := ((((t93 * t6938) + (t97 * (t626 * t628))) + (t100 * ((t629 * t6930) - t6931))) + t128)
  let t7293 := ((((t93 * t6934) + (t97 * (t626 * t625))) + (t100 * ((t629 * t6929) + t6932))) + t128)
  (⟨(atan2 t6934 t6938), (atan2 (-((((t93 * (t626 * t630)) + (t97 * t645)) + (t100 * t635)) + t128)) (sqrt ((t7288 * t7288) + (t7293 * t7293)))), (atan2 t645 t635)⟩, (256 : Int))

/-- extracted from the C++ template at T = Sym; 1 path(s) -/
def Euler.toMatrix33_YXZr {α : Type} [Add α] [Sub α] [Mul α] [Neg α] (sin : α → α) (cos : α → α) (a : V3 α) : (M33 α) :=
  let t4 := (cos a.x)
  let t5 := (cos a.y)
  let t6 := (cos a.z)
  let t7 := (sin a.x)
  let t8 := (sin a.y)
  let t9 := (sin a.z)
  let t7087 := (t6 * t4)
  let t7088 := (t6 * t7)
  let t7089 := (t9 * t4)
  let t7090 := (t9 * t7)
  ⟨(t5 * t6), ((t8 * t7087) + t7090), ((t8 * t7088) - t7089), (-t8), (t5 * t4), (t5 * t7), (t5 * t9), ((t8 * t7089) - t7088), ((t8 * t7090) + t7087)⟩

/-- extracted from the C++ template at T = Sym; 1 path(s) -/
def Euler.toMatrix44_YXZr {α : Type} [Add α] [Sub α] [Mul α] [Neg α] [OfNat α 0] [OfNat α 1] (sin : α → α) (cos : α → α) (a : V3 α) : (M44 α) :=
  let t4 := (cos a.x)
  let t5 := (cos a.y)
  let t6 := (cos a.z)
  let t7 := (sin a.x)
  let t8 := (sin a.y)
  let t9 := (sin a.z)
  let t7087 := (t6 * t4)
  let t7088 := (t6 * t7)
  let t7089 := (t9 * t4)
  let t7090 := (t9 * t7)
  ⟨(t5 * t6), ((t8 * t7087) + t7090), ((t8 * t7088) - t7089), (0 : α), (-t8), (t5 * t4), (t5 * t7), (0 : α), (t5 * t9), ((t8 * t7089) - t7088), ((t8 * t7090) + t7087), (0 : α), (0 : α), (0 : α), (0 : α), (1 : α)⟩

/-- extracted from the C++ template at T = Sym; 1 path(s) -/
def Euler.toQuat_YXZr {α : Type} [Add α] [Sub α] [Mul α] [Div α] [OfNat α 1] [OfNat α 2] (sin : α → α) (cos : α → α) (a : V3 α) : (Quat α) :=
  let t29 := (a.x * ((1 : α) / (2 : α)))
  let t30 := (a.y * ((1 : α) / (2 : α)))
  let t31 := (a.z * ((1 : α) / (2 : α)))
  let t32 := (cos t29)
  let t33 := (cos t30)
  let t34 := (cos t31)
  let t35 := (sin t29)
  let t36 := (sin t30)
  let t37 := (sin t31)
  let t6941 := (t34 * t32)
  let t6942 := (t34 * t35)
  let t6943 := (t37 * t32)
  let t6944 := (t37 * t35)
  ⟨((t33 * t6941) + (t36 * t6944)), ⟨((t33 * t6942) - (t36 * t6943)), ((t33 * t6943) - (t36 * t6942)), (((t33 * t6944) + (t36 * t6941)) * (1 : α))⟩⟩

/-- extracted from the C++ template at T = Sym; 1 path(s) -/
def Euler.extractM33_YXZr {α : Type} [Add α] [Mul α] [Neg α] [OfNat α 0] [OfNat α 1] (sqrt : α → α) (sin : α → α) (cos : α → α) (atan2 : α → α → α) (m : M33 α) : (V3 α) :=
  let t66 := (cos (0 : α))
  let t68 := (sin (0 : α))
  let t1148 := (atan2 m.x20 m.x00)
  let t1149 := (-t1148)
  let t1151 := (sin t1149)
  let t1158 := (((-t68) * t66) + ((t66 * t1151) * t68))
  let t1161 := ((t66 * t66) + ((t68 * t1151) * t68))
  let t1162 := ((cos t1149) * t68)
  let t1183 := ((0 : α) * t1162)
  let t1184 := ((0 : α) * t1161)
  let t1187 := ((((1 : α) * t1158) + t1184) + t1183)
  let t1189 := ((0 : α) * t1158)
  let t1191 := ((t1189 + ((1 : α) * t1161)) + t1183)
  let t1193 := (t1189 + t1184)
  let t1194 := (t1193 + ((1 : α) * t1162))
  let t1235 := ((t1193 + t1183) * (0 : α))
  let t1247 := ((((t1187 * m.x01) + (t1191 * m.x11)) + (t1194 * m.x21)) + t1235)
  let t1253 := ((((t1187 * m.x02) + (t1191 * m.x12)) + (t1194 * m.x22)) + t1235)
  ⟨(atan2 m.x12 m.x11), (atan2 (-((((t1187 * m.x00) + (t1191 * m.x10)) + (t1194 * m.x20)) + t1235)) (sqrt ((t1247 * t1247) + (t1253 * t1253)))), t1148⟩

/-- extracted from the C++ template at T = Sym; 1 path(s) -/
def Euler.extractM44_YXZr {α : Type} [Add α] [Mul α] [Neg α] [OfNat α 0] [OfNat α 1] (sqrt : α → α) (sin : α → α) (cos : α → α) (atan2 : α → α → α) (m : M44 α) : (V3 α) :=
  let t66 := (cos (0 : α))
  let t68 := (sin (0 : α))
  let t1148 := (atan2 m.x20 m.x00)
  let t1149 := (-t1148)
  let t1151 := (sin t1149)
  let t1158 := (((-t68) * t66) + ((t66 * t1151) * t68))
  let t1161 := ((t66 * t66) + ((t68 * t1151) * t68))
  let t1162 := ((cos t1149) * t68)
  let t1183 := ((0 : α) * t1162)
  let t1184 := ((0 : α) * t1161)
  let t1187 := ((((1 : α) * t1158) + t1184) + t1183)
  let t1189 := ((0 : α) * t1158)
  let t1191 := ((t1189 + ((1 : α) * t1161)) + t1183)
  let t1193 := (t1189 + t1184)
  let t1194 := (t1193 + ((1 : α) * t1162))
  let t1195 := (t1193 + t1183)
  let t1310 := ((((t1187 * m.x01) + (t1191 * m.x11)) + (t1194 * m.x21)) + (t1195 * m.x31))
  let t1312 := ((((t1187 * m.x02) + (t1191 * m.x12)) + (t1194 * m.x22)) + (t1195 * m.x32))
  ⟨(atan2 m.x12 m.x11), (atan2 (-((((t1187 * m.x00) + (t1191 * m.x10)) + (t1194 * m.x20)) + (t1195 * m.x30))) (sqrt ((t1310 * t1310) + (t1312 * t1312)))), t1148⟩

/-- extracted from the C++ template at T = Sym; 1 path(s) -/
def Euler.ctorM33_YXZr {α : Type} [Add α] [Mul α] [Neg α] [OfNat α 0] [OfNat α 1] (sqrt : α → α) (sin : α → α) (cos : α → α) (atan2 : α → α → α) (m : M33 α) : ((V3 α) × Int) :=
  let t66 := (cos (0 : α))
  let t68 := (sin (0 : α))
  let t1148 := (atan2 m.x20 m.x00)
  let t1149 := (-t1148)
  let t1151 := (sin t1149)
  let t1158 := (((-t68) * t66) + ((t66 * t1151) * t68))
  let t1161 := ((t66 * t66) + ((t68 * t1151) * t68))
  let t1162 := ((cos t1149) * t68)
  let t1183 := ((0 : α) * t1162)
  let t1184 := ((0 : α) * t1161)
  let t1187 := ((((1 : α) * t1158) + t1184) + t1183)
  let t1189 := ((0 : α) * t1158)
  let t1191 := ((t1189 + ((1 : α) * t1161)) + t1183)
  let t1193 := (t1189 + t1184)
  let t1194 := (t1193 + ((1 : α) * t1162))
  let t1235 := ((t1193 + t1183) * (0 : α))
  let t1247 := ((((t1187 * m.x01) + (t1191 * m.x11)) + (t1194 * m.x21)) + t1235)
  let t1253 := ((((t1187 * m.x02) + (t1191 * m.x12)) + (t1194 * m.x22)) + t1235)
  (⟨(atan2 m.x12 m.x11), (atan2 (-((((t1187 * m.x00) + (t1191 * m.x10)) + (t1194 * m.x20)) + t1235)) (sqrt ((t1247 * t1247) + (t1253 * t1253)))), t1148⟩, (4352 : Int))

/-- extracted from the C++ template at T = Sym; 1 path(s) -/
def Euler.ctorM44_YXZr {α : Type} [Add α] [Mul α] [Neg α] [OfNat α 0] [OfNat α 1] (sqrt : α → α) (sin : α → α) (cos : α → α) (atan2 : α → α → α) (m : M44 α) : ((V3 α) × Int) :=
  let t66 := (cos (0 : α))
  let t68 := (sin (0 : α))
  let t1148 := (atan2 m.x20 m.x00)
  let t1149 := (-t1148)
  let t1151 := (sin t1149)
  let t1158 := (((-t68) * t66) + ((t66 * t1151) * t68))
  let t1161 := ((t66 * t66) + ((t68 * t1151) * t68))
  let t1162 := ((cos t1149) * t68)
  let t1183 := ((0 : α) * t1162)
  let t1184 := ((0 : α) * t1161)
  let t1187 := ((((1 : α) * t1158) + t1184) + t1183)
  let t1189 := ((0 : α) * t1158)
  let t1191 := ((t1189 + ((1 : α) * t1161)) + t1183)
  let t1193 := (t1189 + t1184)
  let t1194 := (t1193 + ((1 : α) * t1162))
  let t1195 := (t1193 + t1183)
  let t1310 := ((((t1187 * m.x01) + (t1191 * m.x11)) + (t1194 * m.x21)) + (t1195 * m.x31))
  let t1312 := ((((t1187 * m.x02) + (t1191 * m.x12)) + (t1194 * m.x22)) + (t1195 * m.x32))
  (⟨(atan2 m.x12 m.x11), (atan2 (-((((t1187 * m.x00) + (t1191 * m.x10)) + (t1194 * m.x20)) + (t1195 * m.x30))) (sqrt ((t1310 * t1310) + (t1312 * t1312)))), t1148⟩, (4352 : Int))

/-- extracted from the C++ template at T = Sym; 1 path(s) -/
def Euler.extractQuat_YXZr {α : Type} [Add α] [Sub α] [Mul α] [Neg α] [OfNat α 0] [OfNat α 1] [OfNat α 2] (sqrt : α → α) (sin : α → α) (cos : α → α) (atan2 : α → α → α) (q : Quat α) : (V3 α) :=
  let t66 := (cos (0 : α))
  let t68 := (sin (0 : α))
  let t306 := (q.v.x * q.v.x)
  let t307 := (q.v.y * q.v.y)
  let t312 := (q.v.x * q.r)
  let t313 := (q.v.y * q.v.z)
  let t316 := (q.v.y * q.r)
  let t317 := (q.v.z * q.v.x)
  let t319 := ((2 : α) * (t317 + t316))
  let t321 := ((2 : α) * (t313 + t312))
  let t322 := (q.v.z * q.v.z)
  let t325 := ((1 : α) - ((2 : α) * (t322 + t306)))
  let t326 := (q.v.z * q.r)
  let t327 := (q.v.x * q.v.y)
  let t336 := ((1 : α) - ((2 : α) * (t307 + t322)))
  let t1339 := (atan2 t319 t336)
  let t1340 := (-t1339)
  let t1342 := (sin t1340)
  let t1348 := (((-t68) * t66) + ((t66 * t1342) * t68))
  let t1351 := ((t66 * t66) + ((t68 * t1342) * t68))
  let t1352 := ((cos t1340) * t68)
  let t1371 := ((0 : α) * t1352)
  let t1372 := ((0 : α) * t1351)
  let t1375 := ((((1 : α) * t1348) + t1372) + t1371)
  let t1377 := ((0 : α) * t1348)
  let t1379 := ((t1377 + ((1 : α) * t1351)) + t1371)
  let t1381 := (t1377 + t1372)
  let t1382 := (t1381 + ((1 : α) * t1352))
  let t1423 := ((t1381 + t1371) * (0 : α))
  let t1435 := ((((t1375 * ((2 : α) * (t327 + t326))) + (t1379 * t325)) + (t1382 * ((2 : α) * (t313 - t312)))) + t1423)
  let t1441 := ((((t1375 * ((2 : α) * (t317 - t316))) + (t1379 * t321)) + (t1382 * ((1 : α) - ((2 : α) * (t307 + t306))))) + t1423)
  ⟨(atan2 t321 t325), (atan2 (-((((t1375 * t336) + (t1379 * ((2 : α) * (t327 - t326)))) + (t1382 * t319)) + t1423)) (sqrt ((t1435 * t1435) + (t1441 * t1441)))), t1339⟩

/-- extracted from the C++ template at T = Sym; 1 path(s) -/
def Euler.ctorXYZLayout_YXZr {α : Type} (v : V3 α) : ((V3 α) × Int) :=
  (⟨v.y, v.z, v.x⟩, (4352 : Int))

/-- extracted from the C++ template at T = Sym; 1 path(s) -/
def Euler.ctorXYZLayoutScalars_YXZr {α : Type} (xi : α) (yi : α) (zi : α) : ((V3 α) × Int) :=
  (⟨yi, zi, xi⟩, (4352 : Int))

/-- extracted from the C++ template at T = Sym; 1 path(s) -/
def Euler.ctorIJKLayout_YXZr {α : Type} (v : V3 α) : ((V3 α) × Int) :=
  (⟨v.x, v.y, v.z⟩, (4352 : Int))

/-- extracted from the C++ template at T = Sym; 1 path(s) -/
def Euler.setXYZVector_YXZr {α : Type} (a : V3 α) (v : V3 α) : (V3 α) :=
  ⟨v.y, v.z, v.x⟩

/-- extracted from the C++ template at T = Sym; 1 path(s) -/
def Euler.toXYZVector_YXZr {α : Type} (a : V3 α) : (V3 α) :=
  ⟨a.z, a.x, a.y⟩

/-- extracted from the C++ template at T = Sym; 1 path(s) -/
def Euler.angleOrder_YXZr {α : Type} : (Int × Int × Int) :=
  ((1 : Int), (2 : Int), (0 : Int))

/-- extracted from the C++ template at T = Sym; 1 path(s) -/
def Euler.angleMapping_YXZr {α : Type} : (Int × Int × Int) :=
  ((2 : Int), (0 : Int), (1 : Int))

/-- extracted from the C++ template at T = Sym; 1 path(s) -/
def Euler.order_YXZr {α : Type} : (Int × Bool × Bool × Bool × Bool × Int) :=
  ((4352 : Int), true, false, false, true, (1 : Int))

/-- extracted from the C++ template at T = Sym; 1 path(s) -/
def Euler.setOrderKeepsAngles_YXZr {α : Type} (a : V3 α) : ((V3 α) × Int) :=
  (⟨a.x, a.y, a.z⟩, (4352 : Int))

/-- extracted from the C++ template at T = Sym; 1 path(s) -/
def Euler.copyAndAssign_YXZr {α : Type} (a : V3 α) (v : V3 α) : ((V3 α) × Int × (V3 α) × Int × (V3 α) × Int) :=
  (⟨a.x, a.y, a.z⟩, (4352 : Int), ⟨a.x, a.y, a.z⟩, (4352 : Int), ⟨v.x, v.y, v.z⟩, (4352 : Int))

/-- extracted from the C++ template at T = Sym; 1 path(s) -/
def Euler.reorderFromXYZ_YXZr {α : Type} [Add α] [Sub α] [Mul α] [Neg α] [OfNat α 0] [OfNat α 1] (sqrt : α → α) (sin : α → α) (cos : α → α) (atan2 : α → α → α) (a : V3 α) : ((V3 α) × Int) :=
  let t4 := (cos a.x)
  let t5 := (cos a.y)
  let t6 := (cos a.z)
  let t7 := (sin a.x)
  let t8 := (sin a.y)
  let t9 := (sin a.z)
  let t10 := (t4 * t6)
  let t11 := (t4 * t9)
  let t12 := (t7 * t6)
  let t13 := (t7 * t9)
  let t15 := (t5 * t6)
  let t19 := ((t8 * t10) + t13)
  let t22 := ((t8 * t13) + t10)
  let t26 := (t5 * t7)
  let t66 := (cos (0 : α))
  let t68 := (sin (0 : α))
  let t1482 := (atan2 t19 t15)
  let t1483 := (-t1482)
  let t1485 := (sin t1483)
  let t1491 := (((-t68) * t66) + ((t66 * t1485) * t68))
  let t1494 := ((t66 * t66) + ((t68 * t1485) * t68))
  let t1495 := ((cos t1483) * t68)
  let t1514 := ((0 : α) * t1495)
  let t1515 := ((0 : α) * t1494)
  let t1518 := ((((1 : α) * t1491) + t1515) + t1514)
  let t1520 := ((0 : α) * t1491)
  let t1522 := ((t1520 + ((1 : α) * t1494)) + t1514)
  let t1524 := (t1520 + t1515)
  let t1525 := (t1524 + ((1 : α) * t1495))
  let t1566 := ((t1524 + t1514) * (0 : α))
  let t1578 := ((((t1518 * (t5 * t9)) + (t1522 * t22)) + (t1525 * ((t8 * t11) - t12))) + t1566)
  let t1584 := ((((t1518 * (-t8)) + (t1522 * t26)) + (t1525 * (t5 * t4))) + t1566)
  (⟨(atan2 t26 t22), (atan2 (-((((t1518 * t15) + (t1522 * ((t8 * t12) - t11))) + (t1525 * t19)) + t1566)) (sqrt ((t1578 * t1578) + (t1584 * t1584)))), t1482⟩, (4352 : Int))

/-- extracted from the C++ template at T = Sym; 1 path(s) -/
def Euler.reorderToZYXr_YXZr {α : Type} [Add α] [Sub α] [Mul α] [Neg α] [OfNat α 0] [OfNat α 1] (sqrt : α → α) (sin : α → α) (cos : α → α) (atan2 : α → α → α) (a : V3 α) : ((V3 α) × Int) :=
  let t4 := (cos a.x)
  let t5 := (cos a.y)
  let t6 := (cos a.z)
  let t7 := (sin a.x)
  let t8 := (sin a.y)
  let t9 := (sin a.z)
  let t15 := (t5 * t6)
  let t26 := (t5 * t7)
  let t66 := (cos (0 : α))
  let t68 := (sin (0 : α))
  let t70 := (t66 * t66)
  let t71 := (t68 * t66)
  let t72 := (-t68)
  let t89 := ((0 : α) * t72)
  let t90 := ((0 : α) * t71)
  let t93 := ((((1 : α) * t70) + t90) + t89)
  let t95 := ((0 : α) * t70)
  let t97 := ((t95 + ((1 : α) * t71)) + t89)
  let t99 := (t95 + t90)
  let t100 := (t99 + ((1 : α) * t72))
  let t128 := ((t99 + t89) * (0 : α))
  let t7087 := (t6 * t4)
  let t7088 := (t6 * t7)
  let t7089 := (t9 * t4)
  let t7090 := (t9 * t7)
  let t7094 := ((t8 * t7087) + t7090)
  let t7096 := ((t8 * t7090) + t7087)
  let t7411 := ((((t93 * t15) + (t97 * (-t8))) + (t100 * (t5 * t9))) + t128)
  let t7416 := ((((t93 * t7094) + (t97 * (t5 * t4))) + (t100 * ((t8 * t7089) - t7088))) + t128)
  (⟨(atan2 t7094 t15), (atan2 (-((((t93 * ((t8 * t7088) - t7089)) + (t97 * t26)) + (t100 * t7096)) + t128)) (sqrt ((t7411 * t7411) + (t7416 * t7416)))), (atan2 t26 t7096)⟩, (256 : Int))

/-- extracted from the C++ template at T = Sym; 1 path(s) -/
def Euler.toMatrix33_ZXYr {α : Type} [Add α] [Sub α] [Mul α] [Neg α] [OfNat α 1] (sin : α → α) (cos : α → α) (a : V3 α) : (M33 α) :=
  let t622 := (a.x * (-(1 : α)))
  let t623 := (a.y * (-(1 : α)))
  let t624 := (a.z * (-(1 : α)))
  let t625 := (cos t622)
  let t626 := (cos t623)
  let t627 := (cos t624)
  let t628 := (sin t622)
  let t629 := (sin t623)
  let t630 := (sin t624)
  let t6929 := (t627 * t625)
  let t6930 := (t627 * t628)
  let t6931 := (t630 * t625)
  let t6932 := (t630 * t628)
  ⟨(t626 * t625), (-t629), (t626 * t628), ((t629 * t6929) + t6932), (t626 * t627), ((t629 * t6930) - t6931), ((t629 * t6931) - t6930), (t626 * t630), ((t629 * t6932) + t6929)⟩

/-- extracted from the C++ template at T = Sym; 1 path(s) -/
def Euler.toMatrix44_ZXYr {α : Type} [Add α] [Sub α] [Mul α] [Neg α] [OfNat α 0] [OfNat α 1] (sin : α → α) (cos : α → α) (a : V3 α) : (M44 α) :=
  let t622 := (a.x * (-(1 : α)))
  let t623 := (a.y * (-(1 : α)))
  let t624 := (a.z * (-(1 : α)))
  let t625 := (cos t622)
  let t626 := (cos t623)
  let t627 := (cos t624)
  let t628 := (sin t622)
  let t629 := (sin t623)
  let t630 := (sin t624)
  let t6929 := (t627 * t625)
  let t6930 := (t627 * t628)
  let t6931 := (t630 * t625)
  let t6932 := (t630 * t628)
  ⟨(t626 * t625), (-t629), (t626 * t628), (0 : α), ((t629 * t6929) + t6932), (t626 * t627), ((t629 * t6930) - t6931), (0 : α), ((t629 * t6931) - t6930), (t626 * t630), ((t629 * t6932) + t6929), (0 : α), (0 : α), (0 : α), (0 : α), (1 : α)⟩

/-- extracted from the C++ template at T = Sym; 1 path(s) -/
def Euler.toQuat_ZXYr {α : Type} [Add α] [Sub α] [Mul α] [Div α] [Neg α] [OfNat α 1] [OfNat α 2] (sin : α → α) (cos : α → α) (a : V3 α) : (Quat α) :=
  let t29 := (a.x * ((1 : α) / (2 : α)))
  let t31 := (a.z * ((1 : α) / (2 : α)))
  let t32 := (cos t29)
  let t34 := (cos t31)
  let t35 := (sin t29)
  let t37 := (sin t31)
  let t649 := ((-a.y) * ((1 : α) / (2 : α)))
  let t650 := (cos t649)
  let t651 := (sin t649)
  let t6941 := (t34 * t32)
  let t6942 := (t34 * t35)
  let t6943 := (t37 * t32)
  let t6944 := (t37 * t35)
  ⟨((t650 * t6941) + (t651 * t6944)), ⟨((t650 * t6943) - (t651 * t6942)), ((t650 * t6942) - (t651 * t6943)), (((t650 * t6944) + (t651 * t6941)) * (-(1 : α)))⟩⟩

/-- extracted from the C++ template at T = Sym; 1 path(s) -/
def Euler.extractM33_ZXYr {α : Type} [Add α] [Mul α] [Neg α] [OfNat α 0] [OfNat α 1] (sqrt : α → α) (sin : α → α) (cos : α → α) (atan2 : α → α → α) (m : M33 α) : (V3 α) :=
  let t66 := (cos (0 : α))
  let t68 := (sin (0 : α))
  let t70 := (t66 * t66)
  let t71 := (t68 * t66)
  let t72 := (-t68)
  let t89 := ((0 : α) * t72)
  let t90 := ((0 : α) * t71)
  let t93 := ((((1 : α) * t70) + t90) + t89)
  let t95 := ((0 : α) * t70)
  let t97 := ((t95 + ((1 : α) * t71)) + t89)
  let t99 := (t95 + t90)
  let t100 := (t99 + ((1 : α) * t72))
  let t128 := ((t99 + t89) * (0 : α))
  let t134 := ((((t93 * m.x00) + (t97 * m.x10)) + (t100 * m.x20)) + t128)
  let t146 := ((((t93 * m.x02) + (t97 * m.x12)) + (t100 * m.x22)) + t128)
  ⟨((atan2 m.x02 m.x00) * (-(1 : α))), ((atan2 (-((((t93 * m.x01) + (t97 * m.x11)) + (t100 * m.x21)) + t128)) (sqrt ((t134 * t134) + (t146 * t146)))) * (-(1 : α))), ((atan2 m.x21 m.x11) * (-(1 : α)))⟩

/-- extracted from the C++ template at T = Sym; 1 path(s) -/
def Euler.extractM44_ZXYr {α : Type} [Add α] [Mul α] [Neg α] [OfNat α 0] [OfNat α 1] (sqrt : α → α) (sin : α → α) (cos : α → α) (atan2 : α → α → α) (m : M44 α) : (V3 α) :=
  let t66 := (cos (0 : α))
  let t68 := (sin (0 : α))
  let t70 := (t66 * t66)
  let t71 := (t68 * t66)
  let t72 := (-t68)
  let t89 := ((0 : α) * t72)
  let t90 := ((0 : α) * t71)
  let t93 := ((((1 : α) * t70) + t90) + t89)
  let t95 := ((0 : α) * t70)
  let t97 := ((t95 + ((1 : α) * t71)) + t89)
  let t99 := (t95 + t90)
  let t100 := (t99 + ((1 : α) * t72))
  let t101 := (t99 + t89)
  let t245 := ((((t93 * m.x00) + (t97 * m.x10)) + (t100 * m.x20)) + (t101 * m.x30))
  let t249 := ((((t93 * m.x02) + (t97 * m.x12)) + (t100 * m.x22)) + (t101 * m.x32))
  ⟨((atan2 m.x02 m.x00) * (-(1 : α))), ((atan2 (-((((t93 * m.x01) + (t97 * m.x11)) + (t100 * m.x21)) + (t101 * m.x31))) (sqrt ((t245 * t245) + (t249 * t249)))) * (-(1 : α))), ((atan2 m.x21 m.x11) * (-(1 : α)))⟩

/-- extracted from the C++ template at T = Sym; 1 path(s) -/
def Euler.ctorM33_ZXYr {α : Type} [Add α] [Mul α] [Neg α] [OfNat α 0] [OfNat α 1] (sqrt : α → α) (sin : α → α) (cos : α → α) (atan2 : α → α → α) (m : M33 α) : ((V3 α) × Int) :=
  let t66 := (cos (0 : α))
  let t68 := (sin (0 : α))
  let t70 := (t66 * t66)
  let t71 := (t68 * t66)
  let t72 := (-t68)
  let t89 := ((0 : α) * t72)
  let t90 := ((0 : α) * t71)
  let t93 := ((((1 : α) * t70) + t90) + t89)
  let t95 := ((0 : α) * t70)
  let t97 := ((t95 + ((1 : α) * t71)) + t89)
  let t99 := (t95 + t90)
  let t100 := (t99 + ((1 : α) * t72))
  let t128 := ((t99 + t89) * (0 : α))
  let t134 := ((((t93 * m.x00) + (t97 * m.x10)) + (t100 * m.x20)) + t128)
  let t146 := ((((t93 * m.x02) + (t97 * m.x12)) + (t100 * m.x22)) + t128)
  (⟨((atan2 m.x02 m.x00) * (-(1 : α))), ((atan2 (-((((t93 * m.x01) + (t97 * m.x11)) + (t100 * m.x21)) + t128)) (sqrt ((t134 * t134) + (t146 * t146)))) * (-(1 : α))), ((atan2 m.x21 m.x11) * (-(1 : α)))⟩, (0 : Int))

/-- extracted from the C++ template at T = Sym; 1 path(s) -/
def Euler.ctorM44_ZXYr {α : Type} [Add α] [Mul α] [Neg α] [OfNat α 0] [OfNat α 1] (sqrt : α → α) (sin : α → α) (cos : α → α) (atan2 : α → α → α) (m : M44 α) : ((V3 α) × Int) :=
  let t66 := (cos (0 : α))
  let t68 := (sin (0 : α))
  let t70 := (t66 * t66)
  let t71 := (t68 * t66)
  let t72 := (-t68)
  let t89 := ((0 : α) * t72)
  let t90 := ((0 : α) * t71)
  let t93 := ((((1 : α) * t70) + t90) + t89)
  let t95 := ((0 : α) * t70)
  let t97 := ((t95 + ((1 : α) * t71)) + t89)
  let t99 := (t95 + t90)
  let t100 := (t99 + ((1 : α) * t72))
  let t101 := (t99 + t89)
  let t245 := ((((t93 * m.x00) + (t97 * m.x10)) + (t100 * m.x20)) + (t101 * m.x30))
  let t249 := ((((t93 * m.x02) + (t97 * m.x12)) + (t100 * m.x22)) + (t101 * m.x32))
  (⟨((atan2 m.x02 m.x00) * (-(1 : α))), ((atan2 (-((((t93 * m.x01) + (t97 * m.x11)) + (t100 * m.x21)) + (t101 * m.x31))) (sqrt ((t245 * t245) + (t249 * t249)))) * (-(1 : α))), ((atan2 m.x21 m.x11) * (-(1 : α)))⟩, (0 : Int))

/-- extracted from the C++ template at T = Sym; 1 path(s) -/
def Euler.extractQuat_ZXYr {α : Type} [Add α] [Sub α] [Mul α] [Neg α] [OfNat α 0] [OfNat α 1] [OfNat α 2] (sqrt : α → α) (sin : α → α) (cos : α → α) (atan2 : α → α → α) (q : Quat α) : (V3 α) :=
  let t66 := (cos (0 : α))
  let t68 := (sin (0 : α))
  let t70 := (t66 * t66)
  let t71 := (t68 * t66)
  let t72 := (-t68)
  let t89 := ((0 : α) * t72)
  let t90 := ((0 : α) * t71)
  let t93 := ((((1 : α) * t70) + t90) + t89)
  let t95 := ((0 : α) * t70)
  let t97 := ((t95 + ((1 : α) * t71)) + t89)
  let t99 := (t95 + t90)
  let t100 := (t99 + ((1 : α) * t72))
  let t128 := ((t99 + t89) * (0 : α))
  let t306 := (q.v.x * q.v.x)
  let t307 := (q.v.y * q.v.y)
  let t312 := (q.v.x * q.r)
  let t313 := (q.v.y * q.v.z)
  let t315 := ((2 : α) * (t313 - t312))
  let t316 := (q.v.y * q.r)
  let t317 := (q.v.z * q.v.x)
  let t322 := (q.v.z * q.v.z)
  let t325 := ((1 : α) - ((2 : α) * (t322 + t306)))
  let t326 := (q.v.z * q.r)
  let t327 := (q.v.x * q.v.y)
  let t331 := ((2 : α) * (t317 - t316))
  let t336 := ((1 : α) - ((2 : α) * (t307 + t322)))
  let t386 := ((((t93 * t336) + (t97 * ((2 : α) * (t327 - t326)))) + (t100 * ((2 : α) * (t317 + t316)))) + t128)
  let t398 := ((((t93 * t331) + (t97 * ((2 : α) * (t313 + t312)))) + (t100 * ((1 : α) - ((2 : α) * (t307 + t306))))) + t128)
  ⟨((atan2 t331 t336) * (-(1 : α))), ((atan2 (-((((t93 * ((2 : α) * (t327 + t326))) + (t97 * t325)) + (t100 * t315)) + t128)) (sqrt ((t386 * t386) + (t398 * t398)))) * (-(1 : α))), ((atan2 t315 t325) * (-(1 : α)))⟩

/-- extracted from the C++ template at T = Sym; 1 path(s) -/
def Euler.ctorXYZLayout_ZXYr {α : Type} (v : V3 α) : ((V3 α) × Int) :=
  (⟨v.x, v.z, v.y⟩, (0 : Int))

/-- extracted from the C++ template at T = Sym; 1 path(s) -/
def Euler.ctorXYZLayoutScalars_ZXYr {α : Type} (xi : α) (yi : α) (zi : α) : ((V3 α) × Int) :=
  (⟨xi, zi, yi⟩, (0 : Int))

/-- extracted from the C++ template at T = Sym; 1 path(s) -/
def Euler.ctorIJKLayout_ZXYr {α : Type} (v : V3 α) : ((V3 α) × Int) :=
  (⟨v.x, v.y, v.z⟩, (0 : Int))

/-- extracted from the C++ template at T = Sym; 1 path(s) -/
def Euler.setXYZVector_ZXYr {α : Type} (a : V3 α) (v : V3 α) : (V3 α) :=
  ⟨v.x, v.z, v.y⟩

/-- extracted from the C++ template at T = Sym; 1 path(s) -/
def Euler.toXYZVector_ZXYr {α : Type} (a : V3 α) : (V3 α) :=
  ⟨a.x, a.z, a.y⟩

/-- extracted from the C++ template at T = Sym; 1 path(s) -/
def Euler.angleOrder_ZXYr {α : Type} : (Int × Int × Int) :=
  ((0 : Int), (2 : Int), (1 : Int))

/-- extracted from the C++ template at T = Sym; 1 path(s) -/
def Euler.angleMapping_ZXYr {α : Type} : (Int × Int × Int) :=
  ((0 : Int), (2 : Int), (1 : Int))

/-- extracted from the C++ template at T = Sym; 1 path(s) -/
def Euler.order_ZXYr {α : Type} : (Int × Bool × Bool × Bool × Bool × Int) :=
  ((0 : Int), true, false, false, false, (0 : Int))

/-- extracted from the C++ template at T = Sym; 1 path(s) -/
def Euler.setOrderKeepsAngles_ZXYr {α : Type} (a : V3 α) : ((V3 α) × Int) :=
  (⟨a.x, a.y, a.z⟩, (0 : Int))

/-- extracted from the C++ template at T = Sym; 1 path(s) -/
def Euler.copyAndAssign_ZXYr {α : Type} (a : V3 α) (v : V3 α) : ((V3 α) × Int × (V3 α) × Int × (V3 α) × Int) :=
  (⟨a.x, a.y, a.z⟩, (0 : Int), ⟨a.x, a.y, a.z⟩, (0 : Int), ⟨v.x, v.y, v.z⟩, (0 : Int))

/-- extracted from the C++ template at T = Sym; 1 path(s) -/
def Euler.reorderFromXYZ_ZXYr {α : Type} [Add α] [Sub α] [Mul α] [Neg α] [OfNat α 0] [OfNat α 1] (sqrt : α → α) (sin : α → α) (cos : α → α) (atan2 : α → α → α) (a : V3 α) : ((V3 α) × Int) :=
  let t4 := (cos a.x)
  let t5 := (cos a.y)
  let t6 := (cos a.z)
  let t7 := (sin a.x)
  let t8 := (sin a.y)
  let t9 := (sin a.z)
  let t10 := (t4 * t6)
  let t11 := (t4 * t9)
  let t12 := (t7 * t6)
  let t13 := (t7 * t9)
  let t15 := (t5 * t6)
  let t22 := ((t8 * t13) + t10)
  let t24 := ((t8 * t11) - t12)
  let t25 := (-t8)
  let t66 := (cos (0 : α))
  let t68 := (sin (0 : α))
  let t70 := (t66 * t66)
  let t71 := (t68 * t66)
  let t72 := (-t68)
  let t89 := ((0 : α) * t72)
  let t90 := ((0 : α) * t71)
  let t93 := ((((1 : α) * t70) + t90) + t89)
  let t95 := ((0 : α) * t70)
  let t97 := ((t95 + ((1 : α) * t71)) + t89)
  let t99 := (t95 + t90)
  let t100 := (t99 + ((1 : α) * t72))
  let t128 := ((t99 + t89) * (0 : α))
  let t531 := ((((t93 * t15) + (t97 * ((t8 * t12) - t11))) + (t100 * ((t8 * t10) + t13))) + t128)
  let t543 := ((((t93 * t25) + (t97 * (t5 * t7))) + (t100 * (t5 * t4))) + t128)
  (⟨((atan2 t25 t15) * (-(1 : α))), ((atan2 (-((((t93 * (t5 * t9)) + (t97 * t22)) + (t100 * t24)) + t128)) (sqrt ((t531 * t531) + (t543 * t543)))) * (-(1 : α))), ((atan2 t24 t22) * (-(1 : α)))⟩, (0 : Int))

/-- extracted from the C++ template at T = Sym; 1 path(s) -/
def Euler.reorderToZYXr_ZXYr {α : Type} [Add α] [Sub α] [Mul α] [Neg α] [OfNat α 0] [OfNat α 1] (sqrt : α → α) (sin : α → α) (cos : α → α) (atan2 : α → α → α) (a : V3 α) : ((V3 α) × Int) :=
  let t66 := (cos (0 : α))
  let t68 := (sin (0 : α))
  let t70 := (t66 * t66)
  let t71 := (t68 * t66)
  let t72 := (-t68)
  let t89 := ((0 : α) * t72)
  let t90 := ((0 : α) * t71)
  let t93 := ((((1 : α) * t70) + t90) + t89)
  let t95 := ((0 : α) * t70)
  let t97 := ((t95 + ((1 : α) * t71)) + t89)
  let t99 := (t95 + t90)
  let t100 := (t99 + ((1 : α) * t72))
  let t128 := ((t99 + t89) * (0 : α))
  let t622 := (a.x * (-(1 : α)))
  let t623 := (a.y * (-(1 : α)))
  let t624 := (a.z * (-(1 : α)))
  let t625 := (cos t622)
  let t626 := (cos t623)
  let t627 := (cos t624)
  let t628 := (sin t622)
  let t629 := (sin t623)
  let t630 := (sin t624)
  let t645 := (-t629)
  let t647 := (t626 * t625)
  let t6929 := (t627 * t625)
  let t6930 := (t627 * t628)
  let t6931 := (t630 * t625)
  let t6932 := (t630 * t628)
  let t6938 := ((t629 * t6932) + t6929)
  let t6940 := ((t629 * t6930) - t6931)
  let t7538 := ((((t93 * t647) + (t97 * ((t629 * t6929) + t6932))) + (t100 * ((t629 * t6931) - t6930))) + t128)
  let t7541 := ((((t93 * t645) + (t97 * (t626 * t627))) + (t100 * (t626 * t630))) + t128)
  (⟨(atan2 t645 t647), (atan2 (-((((t93 * (t626 * t628)) + (t97 * t6940)) + (t100 * t6938)) + t128)) (sqrt ((t7538 * t7538) + (t7541 * t7541)))), (atan2 t6940 t6938)⟩, (256 : Int))

/-- extracted from the C++ template at T = Sym; 1 path(s) -/
def Euler.toMatrix33_ZYXr {α : Type} [Add α] [Sub α] [Mul α] [Neg α] (sin : α → α) (cos : α → α) (a : V3 α) : (M33 α) :=
  let t4 := (cos a.x)
  let t5 := (cos a.y)
  let t6 := (cos a.z)
  let t7 := (sin a.x)
  let t8 := (sin a.y)
  let t9 := (sin a.z)
  let t7087 := (t6 * t4)
  let t7088 := (t6 * t7)
  let t7089 := (t9 * t4)
  let t7090 := (t9 * t7)
  ⟨(t5 * t4), (t5 * t7), (-t8), ((t8 * t7089) - t7088), ((t8 * t7090) + t7087), (t5 * t9), ((t8 * t7087) + t7090), ((t8 * t7088) - t7089), (t5 * t6)⟩

/-- extracted from the C++ template at T = Sym; 1 path(s) -/
def Euler.toMatrix44_ZYXr {α : Type} [Add α] [Sub α] [Mul α] [Neg α] [OfNat α 0] [OfNat α 1] (sin : α → α) (cos : α → α) (a : V3 α) : (M44 α) :=
  let t4 := (cos a.x)
  let t5 := (cos a.y)
  let t6 := (cos a.z)
  let t7 := (sin a.x)
  let t8 := (sin a.y)
  let t9 := (sin a.z)
  let t7087 := (t6 * t4)
  let t7088 := (t6 * t7)
  let t7089 := (t9 * t4)
  let t7090 := (t9 * t7)
  ⟨(t5 * t4), (t5 * t7), (-t8), (0 : α), ((t8 * t7089) - t7088), ((t8 * t7090) + t7087), (t5 * t9), (0 : α), ((t8 * t7087) + t7090), ((t8 * t7088) - t7089), (t5 * t6), (0 : α), (0 : α), (0 : α), (0 : α), (1 : α)⟩

/-- extracted from the C++ template at T = Sym; 1 path(s) -/
def Euler.toQuat_ZYXr {α : Type} [Add α] [Sub α] [Mul α] [Div α] [OfNat α 1] [OfNat α 2] (sin : α → α) (cos : α → α) (a : V3 α) : (Quat α) :=
  let t29 := (a.x * ((1 : α) / (2 : α)))
  let t30 := (a.y * ((1 : α) / (2 : α)))
  let t31 := (a.z * ((1 : α) / (2 : α)))
  let t32 := (cos t29)
  let t33 := (cos t30)
  let t34 := (cos t31)
  let t35 := (sin t29)
  let t36 := (sin t30)
  let t37 := (sin t31)
  let t6941 := (t34 * t32)
  let t6942 := (t34 * t35)
  let t6943 := (t37 * t32)
  let t6944 := (t37 * t35)
  ⟨((t33 * t6941) + (t36 * t6944)), ⟨((t33 * t6943) - (t36 * t6942)), (((t33 * t6944) + (t36 * t6941)) * (1 : α)), ((t33 * t6942) - (t36 * t6943))⟩⟩

/-- extracted from the C++ template at T = Sym; 1 path(s) -/
def Euler.extractM33_ZYXr {α : Type} [Add α] [Mul α] [Neg α] [OfNat α 0] [OfNat α 1] (sqrt : α → α) (sin : α → α) (cos : α → α) (atan2 : α → α → α) (m : M33 α) : (V3 α) :=
  let t66 := (cos (0 : α))
  let t68 := (sin (0 : α))
  let t70 := (t66 * t66)
  let t71 := (t68 * t66)
  let t72 := (-t68)
  let t89 := ((0 : α) * t72)
  let t90 := ((0 : α) * t71)
  let t93 := ((((1 : α) * t70) + t90) + t89)
  let t95 := ((0 : α) * t70)
  let t97 := ((t95 + ((1 : α) * t71)) + t89)
  let t99 := (t95 + t90)
  let t100 := (t99 + ((1 : α) * t72))
  let t128 := ((t99 + t89) * (0 : α))
  let t134 := ((((t93 * m.x00) + (t97 * m.x10)) + (t100 * m.x20)) + t128)
  let t140 := ((((t93 * m.x01) + (t97 * m.x11)) + (t100 * m.x21)) + t128)
  ⟨(atan2 m.x01 m.x00), (atan2 (-((((t93 * m.x02) + (t97 * m.x12)) + (t100 * m.x22)) + t128)) (sqrt ((t134 * t134) + (t140 * t140)))), (atan2 m.x12 m.x22)⟩

/-- extracted from the C++ template at T = Sym; 1 path(s) -/
def Euler.extractM44_ZYXr {α : Type} [Add α] [Mul α] [Neg α] [OfNat α 0] [OfNat α 1] (sqrt : α → α) (sin : α → α) (cos : α → α) (atan2 : α → α → α) (m : M44 α) : (V3 α) :=
  let t66 := (cos (0 : α))
  let t68 := (sin (0 : α))
  let t70 := (t66 * t66)
  let t71 := (t68 * t66)
  let t72 := (-t68)
  let t89 := ((0 : α) * t72)
  let t90 := ((0 : α) * t71)
  let t93 := ((((1 : α) * t70) + t90) + t89)
  let t95 := ((0 : α) * t70)
  let t97 := ((t95 + ((1 : α) * t71)) + t89)
  let t99 := (t95 + t90)
  let t100 := (t99 + ((1 : α) * t72))
  let t101 := (t99 + t89)
  let t245 := ((((t93 * m.x00) + (t97 * m.x10)) + (t100 * m.x20)) + (t101 * m.x30))
  let t247 := ((((t93 * m.x01) + (t97 * m.x11)) + (t100 * m.x21)) + (t101 * m.x31))
  ⟨(atan2 m.x01 m.x00), (atan2 (-((((t93 * m.x02) + (t97 * m.x12)) + (t100 * m.x22)) + (t101 * m.x32))) (sqrt ((t245 * t245) + (t247 * t247)))), (atan2 m.x12 m.x22)⟩

/-- extracted from the C++ template at T = Sym; 1 path(s) -/
def Euler.ctorM33_ZYXr {α : Type} [Add α] [Mul α] [Neg α] [OfNat α 0] [OfNat α 1] (sqrt : α → α) (sin : α → α) (cos : α → α) (atan2 : α → α → α) (m : M33 α) : ((V3 α) × Int) :=
  let t66 := (cos (0 : α))
  let t68 := (sin (0 : α))
  let t70 := (t66 * t66)
  let t71 := (t68 * t66)
  let t72 := (-t68)
  let t89 := ((0 : α) * t72)
  let t90 := ((0 : α) * t71)
  let t93 := ((((1 : α) * t70) + t90) + t89)
  let t95 := ((0 : α) * t70)
  let t97 := ((t95 + ((1 : α) * t71)) + t89)
  let t99 := (t95 + t90)
  let t100 := (t99 + ((1 : α) * t72))
  let t128 := ((t99 + t89) * (0 : α))
  let t134 := ((((t93 * m.x00) + (t97 * m.x10)) + (t100 * m.x20)) + t128)
  let t140 := ((((t93 * m.x01) + (t97 * m.x11)) + (t100 * m.x21)) + t128)
  (⟨(atan2 m.x01 m.x00), (atan2 (-((((t93 * m.x02) + (t97 * m.x12)) + (t100 * m.x22)) + t128)) (sqrt ((t134 * t134) + (t140 * t140)))), (atan2 m.x12 m.x22)⟩, (256 : Int))

/-- extracted from the C++ template at T = Sym; 1 path(s) -/
def Euler.ctorM44_ZYXr {α : Type} [Add α] [Mul α] [Neg α] [OfNat α 0] [OfNat α 1] (sqrt : α → α) (sin : α → α) (cos : α → α) (atan2 : α → α → α) (m : M44 α) : ((V3 α) × Int) :=
  let t66 := (cos (0 : α))
  let t68 := (sin (0 : α))
  let t70 := (t66 * t66)
  let t71 := (t68 * t66)
  let t72 := (-t68)
  let t89 := ((0 : α) * t72)
  let t90 := ((0 : α) * t71)
  let t93 := ((((1 : α) * t70) + t90) + t89)
  let t95 := ((0 : α) * t70)
  let t97 := ((t95 + ((1 : α) * t71)) + t89)
  let t99 := (t95 + t90)
  let t100 := (t99 + ((1 : α) * t72))
  let t101 := (t99 + t89)
  let t245 := ((((t93 * m.x00) + (t97 * m.x10)) + (t100 * m.x20)) + (t101 * m.x30))
  let t247 := ((((t93 * m.x01) + (t97 * m.x11)) + (t100 * m.x21)) + (t101 * m.x31))
  (⟨(atan2 m.x01 m.x00), (atan2 (-((((t93 * m.x02) + (t97 * m.x12)) + (t100 * m.x22)) + (t101 * m.x32))) (sqrt ((t245 * t245) + (t247 * t247)))), (atan2 m.x12 m.x22)⟩, (256 : Int))

/-- extracted from the C++ template at T = Sym; 1 path(s) -/
def Euler.extractQuat_ZYXr {α : Type} [Add α] [Sub α] [Mul α] [Neg α] [OfNat α 0] [OfNat α 1] [OfNat α 2] (sqrt : α → α) (sin : α → α) (cos : α → α) (atan2 : α → α → α) (q : Quat α) : (V3 α) :=
  let t66 := (cos (0 : α))
  let t68 := (sin (0 : α))
  let t70 := (t66 * t66)
  let t71 := (t68 * t66)
  let t72 := (-t68)
  let t89 := ((0 : α) * t72)
  let t90 := ((0 : α) * t71)
  let t93 := ((((1 : α) * t70) + t90) + t89)
  let t95 := ((0 : α) * t70)
  let t97 := ((t95 + ((1 : α) * t71)) + t89)
  let t99 := (t95 + t90)
  let t100 := (t99 + ((1 : α) * t72))
  let t128 := ((t99 + t89) * (0 : α))
  let t306 := (q.v.x * q.v.x)
  let t307 := (q.v.y * q.v.y)
  let t311 := ((1 : α) - ((2 : α) * (t307 + t306)))
  let t312 := (q.v.x * q.r)
  let t313 := (q.v.y * q.v.z)
  let t316 := (q.v.y * q.r)
  let t317 := (q.v.z * q.v.x)
  let t321 := ((2 : α) * (t313 + t312))
  let t322 := (q.v.z * q.v.z)
  let t326 := (q.v.z * q.r)
  let t327 := (q.v.x * q.v.y)
  let t333 := ((2 : α) * (t327 + t326))
  let t336 := ((1 : α) - ((2 : α) * (t307 + t322)))
  let t386 := ((((t93 * t336) + (t97 * ((2 : α) * (t327 - t326)))) + (t100 * ((2 : α) * (t317 + t316)))) + t128)
  let t392 := ((((t93 * t333) + (t97 * ((1 : α) - ((2 : α) * (t322 + t306))))) + (t100 * ((2 : α) * (t313 - t312)))) + t128)
  ⟨(atan2 t333 t336), (atan2 (-((((t93 * ((2 : α) * (t317 - t316))) + (t97 * t321)) + (t100 * t311)) + t128)) (sqrt ((t386 * t386) + (t392 * t392)))), (atan2 t321 t311)⟩

/-- extracted from the C++ template at T = Sym; 1 path(s) -/
def Euler.ctorXYZLayout_ZYXr {α : Type} (v : V3 α) : ((V3 α) × Int) :=
  (⟨v.x, v.y, v.z⟩, (256 : Int))

/-- extracted from the C++ template at T = Sym; 1 path(s) -/
def Euler.ctorXYZLayoutScalars_ZYXr {α : Type} (xi : α) (yi : α) (zi : α) : ((V3 α) × Int) :=
  (⟨xi, yi, zi⟩, (256 : Int))

/-- extracted from the C++ template at T = Sym; 1 path(s) -/
def Euler.ctorIJKLayout_ZYXr {α : Type} (v : V3 α) : ((V3 α) × Int) :=
  (⟨v.x, v.y, v.z⟩, (256 : Int))

/-- extracted from the C++ template at T = Sym; 1 path(s) -/
def Euler.setXYZVector_ZYXr {α : Type} (a : V3 α) (v : V3 α) : (V3 α) :=
  ⟨v.x, v.y, v.z⟩

/-- extracted from the C++ template at T = Sym; 1 path(s) -/
def Euler.toXYZVector_ZYXr {α : Type} (a : V3 α) : (V3 α) :=
  ⟨a.x, a.y, a.z⟩

/-- extracted from the C++ template at T = Sym; 1 path(s) -/
def Euler.angleOrder_ZYXr {α : Type} : (Int × Int × Int) :=
  ((0 : Int), (1 : Int), (2 : Int))

/-- extracted from the C++ template at T = Sym; 1 path(s) -/
def Euler.angleMapping_ZYXr {α : Type} : (Int × Int × Int) :=
  ((0 : Int), (1 : Int), (2 : Int))

/-- extracted from the C++ template at T = Sym; 1 path(s) -/
def Euler.order_ZYXr {α : Type} : (Int × Bool × Bool × Bool × Bool × Int) :=
  ((256 : Int), true, false, false, true, (0 : Int))

/-- extracted from the C++ template at T = Sym; 1 path(s) -/
def Euler.setOrderKeepsAngles_ZYXr {α : Type} (a : V3 α) : ((V3 α) × Int) :=
  (⟨a.x, a.y, a.z⟩, (256 : Int))

/-- extracted from the C++ template at T = Sym; 1 path(s) -/
def Euler.copyAndAssign_ZYXr {α : Type} (a : V3 α) (v : V3 α) : ((V3 α) × Int × (V3 α) × Int × (V3 α) × Int) :=
  (⟨a.x, a.y, a.z⟩, (256 : Int), ⟨a.x, a.y, a.z⟩, (256 : Int), ⟨v.x, v.y, v.z⟩, (256 : Int))

/-- extracted from the C++ template at T = Sym; 1 path(s) -/
def Euler.reorderFromXYZ_ZYXr {α : Type} [Add α] [Sub α] [Mul α] [Neg α] [OfNat α 0] [OfNat α 1] (sqrt : α → α) (sin : α → α) (cos : α → α) (atan2 : α → α → α) (a : V3 α) : ((V3 α) × Int) :=
  let t4 := (cos a.x)
  let t5 := (cos a.y)
  let t6 := (cos a.z)
  let t7 := (sin a.x)
  let t8 := (sin a.y)
  let t9 := (sin a.z)
  let t10 := (t4 * t6)
  let t11 := (t4 * t9)
  let t12 := (t7 * t6)
  let t13 := (t7 * t9)
  let t15 := (t5 * t6)
  let t20 := (t5 * t9)
  let t26 := (t5 * t7)
  let t27 := (t5 * t4)
  let t66 := (cos (0 : α))
  let t68 := (sin (0 : α))
  let t70 := (t66 * t66)
  let t71 := (t68 * t66)
  let t72 := (-t68)
  let t89 := ((0 : α) * t72)
  let t90 := ((0 : α) * t71)
  let t93 := ((((1 : α) * t70) + t90) + t89)
  let t95 := ((0 : α) * t70)
  let t97 := ((t95 + ((1 : α) * t71)) + t89)
  let t99 := (t95 + t90)
  let t100 := (t99 + ((1 : α) * t72))
  let t128 := ((t99 + t89) * (0 : α))
  let t531 := ((((t93 * t15) + (t97 * ((t8 * t12) - t11))) + (t100 * ((t8 * t10) + t13))) + t128)
  let t537 := ((((t93 * t20) + (t97 * ((t8 * t13) + t10))) + (t100 * ((t8 * t11) - t12))) + t128)
  (⟨(atan2 t20 t15), (atan2 (-((((t93 * (-t8)) + (t97 * t26)) + (t100 * t27)) + t128)) (sqrt ((t531 * t531) + (t537 * t537)))), (atan2 t26 t27)⟩, (256 : Int))

/-- extracted from the C++ template at T = Sym; 1 path(s) -/
def Euler.reorderToZYXr_ZYXr {α : Type} [Add α] [Sub α] [Mul α] [Neg α] [OfNat α 0] [OfNat α 1] (sqrt : α → α) (sin : α → α) (cos : α → α) (atan2 : α → α → α) (a : V3 α) : ((V3 α) × Int) :=
  let t4 := (cos a.x)
  let t5 := (cos a.y)
  let t6 := (cos a.z)
  let t7 := (sin a.x)
  let t8 := (sin a.y)
  let t9 := (sin a.z)
  let t15 := (t5 * t6)
  let t20 := (t5 * t9)
  let t26 := (t5 * t7)
  let t27 := (t5 * t4)
  let t66 := (cos (0 : α))
  let t68 := (sin (0 : α))
  let t70 := (t66 * t66)
  let t71 := (t68 * t66)
  let t72 := (-t68)
  let t89 := ((0 : α) * t72)
  let t90 := ((0 : α) * t71)
  let t93 := ((((1 : α) * t70) + t90) + t89)
  let t95 := ((0 : α) * t70)
  let t97 := ((t95 + ((1 : α) * t71)) + t89)
  let t99 := (t95 + t90)
  let t100 := (t99 + ((1 : α) * t72))
  let t128 := ((t99 + t89) * (0 : α))
  let t7087 := (t6 * t4)
  let t7088 := (t6 * t7)
  let t7089 := (t9 * t4)
  let t7090 := (t9 * t7)
  let t7661 := ((((t93 * t27) + (t97 * ((t8 * t7089) - t7088))) + (t100 * ((t8 * t7087) + t7090))) + t128)
  let t7666 := ((((t93 * t26) + (t97 * ((t8 * t7090) + t7087))) + (t100 * ((t8 * t7088) - t7089))) + t128)
  (⟨(atan2 t26 t27), (atan2 (-((((t93 * (-t8)) + (t97 * t20)) + (t100 * t15)) + t128)) (sqrt ((t7661 * t7661) + (t7666 * t7666)))), (atan2 t20 t15)⟩, (256 : Int))

/-- extracted from the C++ template at T = Sym; 1 path(s) -/
def Euler.toMatrix33_XZXr {α : Type} [Add α] [Sub α] [Mul α] [Neg α] (sin : α → α) (cos : α → α) (a : V3 α) : (M33 α) :=
  let t4 := (cos a.x)
  let t5 := (cos a.y)
  let t6 := (cos a.z)
  let t7 := (sin a.x)
  let t8 := (sin a.y)
  let t9 := (sin a.z)
  let t4047 := (-t5)
  let t7087 := (t6 * t4)
  let t7088 := (t6 * t7)
  let t7089 := (t9 * t4)
  let t7090 := (t9 * t7)
  ⟨((t4047 * t7090) + t7087), ((t5 * t7089) + t7088), (t8 * t9), ((t4047 * t7088) - t7089), ((t5 * t7087) - t7090), (t8 * t6), (t8 * t7), ((-t8) * t4), t5⟩

/-- extracted from the C++ template at T = Sym; 1 path(s) -/
def Euler.toMatrix44_XZXr {α : Type} [Add α] [Sub α] [Mul α] [Neg α] [OfNat α 0] [OfNat α 1] (sin : α → α) (cos : α → α) (a : V3 α) : (M44 α) :=
  let t4 := (cos a.x)
  let t5 := (cos a.y)
  let t6 := (cos a.z)
  let t7 := (sin a.x)
  let t8 := (sin a.y)
  let t9 := (sin a.z)
  let t4047 := (-t5)
  let t7087 := (t6 * t4)
  let t7088 := (t6 * t7)
  let t7089 := (t9 * t4)
  let t7090 := (t9 * t7)
  ⟨((t4047 * t7090) + t7087), ((t5 * t7089) + t7088), (t8 * t9), (0 : α), ((t4047 * t7088) - t7089), ((t5 * t7087) - t7090), (t8 * t6), (0 : α), (t8 * t7), ((-t8) * t4), t5, (0 : α), (0 : α), (0 : α), (0 : α), (1 : α)⟩

/-- extracted from the C++ template at T = Sym; 1 path(s) -/
def Euler.toQuat_XZXr {α : Type} [Add α] [Sub α] [Mul α] [Div α] [OfNat α 1] [OfNat α 2] (sin : α → α) (cos : α → α) (a : V3 α) : (Quat α) :=
  let t29 := (a.x * ((1 : α) / (2 : α)))
  let t30 := (a.y * ((1 : α) / (2 : α)))
  let t31 := (a.z * ((1 : α) / (2 : α)))
  let t32 := (cos t29)
  let t33 := (cos t30)
  let t34 := (cos t31)
  let t35 := (sin t29)
  let t36 := (sin t30)
  let t37 := (sin t31)
  let t6941 := (t34 * t32)
  let t6942 := (t34 * t35)
  let t6943 := (t37 * t32)
  let t6944 := (t37 * t35)
  ⟨(t33 * (t6941 - t6944)), ⟨((t36 * (t6941 + t6944)) * (1 : α)), (t36 * (t6942 - t6943)), (t33 * (t6942 + t6943))⟩⟩

/-- extracted from the C++ template at T = Sym; 1 path(s) -/
def Euler.extractM33_XZXr {α : Type} [Add α] [Mul α] [Neg α] [OfNat α 0] [OfNat α 1] (sqrt : α → α) (sin : α → α) (cos : α → α) (atan2 : α → α → α) (m : M33 α) : (V3 α) :=
  let t66 := (cos (0 : α))
  let t68 := (sin (0 : α))
  let t70 := (t66 * t66)
  let t72 := (-t68)
  let t73 := (t66 * t68)
  let t89 := ((0 : α) * t72)
  let t95 := ((0 : α) * t70)
  let t2397 := ((0 : α) * t73)
  let t6343 := (atan2 m.x02 m.x12)
  let t6344 := (-t6343)
  let t6345 := (cos t6344)
  let t6346 := (sin t6344)
  let t6347 := (t6345 * t66)
  let t6348 := (t6346 * t66)
  let t6349 := (t6345 * t68)
  let t6351 := (-t6346)
  let t6353 := ((t6351 * t66) + (t6349 * t68))
  let t6354 := (t6346 * t68)
  let t6356 := (t6347 + (t6354 * t68))
  let t6359 := ((t6351 * t72) + (t6349 * t66))
  let t6362 := ((t6345 * t72) + (t6354 * t66))
  let t6363 := ((0 : α) * t6348)
  let t6366 := ((((1 : α) * t6347) + t6363) + t89)
  let t6368 := ((0 : α) * t6347)
  let t6370 := ((t6368 + ((1 : α) * t6348)) + t89)
  let t6371 := (t6368 + t6363)
  let t6372 := (t6371 + ((1 : α) * t72))
  let t6374 := ((0 : α) * t6356)
  let t6379 := ((0 : α) * t6353)
  let t6382 := (t6379 + t6374)
  let t6385 := ((0 : α) * t6362)
  let t6390 := ((0 : α) * t6359)
  let t6393 := (t6390 + t6385)
  let t6396 := ((t6371 + t89) * (0 : α))
  let t6414 := ((((t6366 * m.x02) + (t6370 * m.x12)) + (t6372 * m.x22)) + t6396)
  let t6440 := ((((((((1 : α) * t6353) + t6374) + t2397) * m.x02) + (((t6379 + ((1 : α) * t6356)) + t2397) * m.x12)) + ((t6382 + ((1 : α) * t73)) * m.x22)) + ((t6382 + t2397) * (0 : α)))
  ⟨(atan2 ((((t6366 * m.x01) + (t6370 * m.x11)) + (t6372 * m.x21)) + t6396) ((((t6366 * m.x00) + (t6370 * m.x10)) + (t6372 * m.x20)) + t6396)), (atan2 (sqrt ((t6414 * t6414) + (t6440 * t6440))) ((((((((1 : α) * t6359) + t6385) + t95) * m.x02) + (((t6390 + ((1 : α) * t6362)) + t95) * m.x12)) + ((t6393 + ((1 : α) * t70)) * m.x22)) + ((t6393 + t95) * (0 : α)))), t6343⟩

/-- extracted from the C++ template at T = Sym; 1 path(s) -/
def Euler.extractM44_XZXr {α : Type} [Add α] [Mul α] [Neg α] [OfNat α 0] [OfNat α 1] (sqrt : α → α) (sin : α → α) (cos : α → α) (atan2 : α → α → α) (m : M44 α) : (V3 α) :=
  let t66 := (cos (0 : α))
  let t68 := (sin (0 : α))
  let t70 := (t66 * t66)
  let t72 := (-t68)
  let t73 := (t66 * t68)
  let t89 := ((0 : α) * t72)
  let t95 := ((0 : α) * t70)
  let t2397 := ((0 : α) * t73)
  let t6343 := (atan2 m.x02 m.x12)
  let t6344 := (-t6343)
  let t6345 := (cos t6344)
  let t6346 := (sin t6344)
  let t6347 := (t6345 * t66)
  let t6348 := (t6346 * t66)
  let t6349 := (t6345 * t68)
  let t6351 := (-t6346)
  let t6353 := ((t6351 * t66) + (t6349 * t68))
  let t6354 := (t6346 * t68)
  let t6356 := (t6347 + (t6354 * t68))
  let t6359 := ((t6351 * t72) + (t6349 * t66))
  let t6362 := ((t6345 * t72) + (t6354 * t66))
  let t6363 := ((0 : α) * t6348)
  let t6366 := ((((1 : α) * t6347) + t6363) + t89)
  let t6368 := ((0 : α) * t6347)
  let t6370 := ((t6368 + ((1 : α) * t6348)) + t89)
  let t6371 := (t6368 + t6363)
  let t6372 := (t6371 + ((1 : α) * t72))
  let t6373 := (t6371 + t89)
  let t6374 := ((0 : α) * t6356)
  let t6379 := ((0 : α) * t6353)
  let t6382 := (t6379 + t6374)
  let t6385 := ((0 : α) * t6362)
  let t6390 := ((0 : α) * t6359)
  let t6393 := (t6390 + t6385)
  let t6485 := ((((t6366 * m.x02) + (t6370 * m.x12)) + (t6372 * m.x22)) + (t6373 * m.x32))
  let t6498 := ((((((((1 : α) * t6353) + t6374) + t2397) * m.x02) + (((t6379 + ((1 : α) * t6356)) + t2397) * m.x12)) + ((t6382 + ((1 : α) * t73)) * m.x22)) + ((t6382 + t2397) * m.x32))
  ⟨(atan2 ((((t6366 * m.x01) + (t6370 * m.x11)) + (t6372 * m.x21)) + (t6373 * m.x31)) ((((t6366 * m.x00) + (t6370 * m.x10)) + (t6372 * m.x20)) + (t6373 * m.x30))), (atan2 (sqrt ((t6485 * t6485) + (t6498 * t6498))) ((((((((1 : α) * t6359) + t6385) + t95) * m.x02) + (((t6390 + ((1 : α) * t6362)) + t95) * m.x12)) + ((t6393 + ((1 : α) * t70)) * m.x22)) + ((t6393 + t95) * m.x32))), t6343⟩

/-- extracted from the C++ template at T = Sym; 1 path(s) -/
def Euler.ctorM33_XZXr {α : Type} [Add α] [Mul α] [Neg α] [OfNat α 0] [OfNat α 1] (sqrt : α → α) (sin : α → α) (cos : α → α) (atan2 : α → α → α) (m : M33 α) : ((V3 α) × Int) :=
  let t66 := (cos (0 : α))
  let t68 := (sin (0 : α))
  let t70 := (t66 * t66)
  let t72 := (-t68)
  let t73 := (t66 * t68)
  let t89 := ((0 : α) * t72)
  let t95 := ((0 : α) * t70)
  let t2397 := ((0 : α) * t73)
  let t6343 := (atan2 m.x02 m.x12)
  let t6344 := (-t6343)
  let t6345 := (cos t6344)
  let t6346 := (sin t6344)
  let t6347 := (t6345 * t66)
  let t6348 := (t6346 * t66)
  let t6349 := (t6345 * t68)
  let t6351 := (-t6346)
  let t6353 := ((t6351 * t66) + (t6349 * t68))
  let t6354 := (t6346 * t68)
  let t6356 := (t6347 + (t6354 * t68))
  let t6359 := ((t6351 * t72) + (t6349 * t66))
  let t6362 := ((t6345 * t72) + (t6354 * t66))
  let t6363 := ((0 : α) * t6348)
  let t6366 := ((((1 : α) * t6347) + t6363) + t89)
  let t6368 := ((0 : α) * t6347)
  let t6370 := ((t6368 + ((1 : α) * t6348)) + t89)
  let t6371 := (t6368 + t6363)
  let t6372 := (t6371 + ((1 : α) * t72))
  let t6374 := ((0 : α) * t6356)
  let t6379 := ((0 : α) * t6353)
  let t6382 := (t6379 + t6374)
  let t6385 := ((0 : α) * t6362)
  let t6390 := ((0 : α) * t6359)
  let t6393 := (t6390 + t6385)
  let t6396 := ((t6371 + t89) * (0 : α))
  let t6414 := ((((t6366 * m.x02) + (t6370 * m.x12)) + (t6372 * m.x22)) + t6396)
  let t6440 := ((((((((1 : α) * t6353) + t6374) + t2397) * m.x02) + (((t6379 + ((1 : α) * t6356)) + t2397) * m.x12)) + ((t6382 + ((1 : α) * t73)) * m.x22)) + ((t6382 + t2397) * (0 : α)))
  (⟨(atan2 ((((t6366 * m.x01) + (t6370 * m.x11)) + (t6372 * m.x21)) + t6396) ((((t6366 * m.x00) + (t6370 * m.x10)) + (t6372 * m.x20)) + t6396)), (atan2 (sqrt ((t6414 * t6414) + (t6440 * t6440))) ((((((((1 : α) * t6359) + t6385) + t95) * m.x02) + (((t6390 + ((1 : α) * t6362)) + t95) * m.x12)) + ((t6393 + ((1 : α) * t70)) * m.x22)) + ((t6393 + t95) * (0 : α)))), t6343⟩, (8464 : Int))

/-- extracted from the C++ template at T = Sym; 1 path(s) -/
def Euler.ctorM44_XZXr {α : Type} [Add α] [Mul α] [Neg α] [OfNat α 0] [OfNat α 1] (sqrt : α → α) (sin : α → α) (cos : α → α) (atan2 : α → α → α) (m : M44 α) : ((V3 α) × Int) :=
  let t66 := (cos (0 : α))
  let t68 := (sin (0 : α))
  let t70 := (t66 * t66)
  let t72 := (-t68)
  let t73 := (t66 * t68)
  let t89 := ((0 : α) * t72)
  let t95 := ((0 : α) * t70)
  let t2397 := ((0 : α) * t73)
  let t6343 := (atan2 m.x02 m.x12)
  let t6344 := (-t6343)
  let t6345 := (cos t6344)
  let t6346 := (sin t6344)
  let t6347 := (t6345 * t66)
  let t6348 := (t6346 * t66)
  let t6349 := (t6345 * t68)
  let t6351 := (-t6346)
  let t6353 := ((t6351 * t66) + (t6349 * t68))
  let t6354 := (t6346 * t68)
  let t6356 := (t6347 + (t6354 * t68))
  let t6359 := ((t6351 * t72) + (t6349 * t66))
  let t6362 := ((t6345 * t72) + (t6354 * t66))
  let t6363 := ((0 : α) * t6348)
  let t6366 := ((((1 : α) * t6347) + t6363) + t89)
  let t6368 := ((0 : α) * t6347)
  let t6370 := ((t6368 + ((1 : α) * t6348)) + t89)
  let t6371 := (t6368 + t6363)
  let t6372 := (t6371 + ((1 : α) * t72))
  let t6373 := (t6371 + t89)
  let t6374 := ((0 : α) * t6356)
  let t6379 := ((0 : α) * t6353)
  let t6382 := (t6379 + t6374)
  let t6385 := ((0 : α) * t6362)
  let t6390 := ((0 : α) * t6359)
  let t6393 := (t6390 + t6385)
  let t6485 := ((((t6366 * m.x02) + (t6370 * m.x12)) + (t6372 * m.x22)) + (t6373 * m.x32))
  let t6498 := ((((((((1 : α) * t6353) + t6374) + t2397) * m.x02) + (((t6379 + ((1 : α) * t6356)) + t2397) * m.x12)) + ((t6382 + ((1 : α) * t73)) * m.x22)) + ((t6382 + t2397) * m.x32))
  (⟨(atan2 ((((t6366 * m.x01) + (t6370 * m.x11)) + (t6372 * m.x21)) + (t6373 * m.x31)) ((((t6366 * m.x00) + (t6370 * m.x10)) + (t6372 * m.x20)) + (t6373 * m.x30))), (atan2 (sqrt ((t6485 * t6485) + (t6498 * t6498))) ((((((((1 : α) * t6359) + t6385) + t95) * m.x02) + (((t6390 + ((1 : α) * t6362)) + t95) * m.x12)) + ((t6393 + ((1 : α) * t70)) * m.x22)) + ((t6393 + t95) * m.x32))), t6343⟩, (8464 : Int))

/-- extracted from the C++ template at T = Sym; 1 path(s) -/
def Euler.extractQuat_XZXr {α : Type} [Add α] [Sub α] [Mul α] [Neg α] [OfNat α 0] [OfNat α 1] [OfNat α 2] (sqrt : α → α) (sin : α → α) (cos : α → α) (atan2 : α → α → α) (q : Quat α) : (V3 α) :=
  let t66 := (cos (0 : α))
  let t68 := (sin (0 : α))
  let t70 := (t66 * t66)
  let t72 := (-t68)
  let t73 := (t66 * t68)
  let t89 := ((0 : α) * t72)
  let t95 := ((0 : α) * t70)
  let t306 := (q.v.x * q.v.x)
  let t307 := (q.v.y * q.v.y)
  let t311 := ((1 : α) - ((2 : α) * (t307 + t306)))
  let t312 := (q.v.x * q.r)
  let t313 := (q.v.y * q.v.z)
  let t316 := (q.v.y * q.r)
  let t317 := (q.v.z * q.v.x)
  let t321 := ((2 : α) * (t313 + t312))
  let t322 := (q.v.z * q.v.z)
  let t326 := (q.v.z * q.r)
  let t327 := (q.v.x * q.v.y)
  let t331 := ((2 : α) * (t317 - t316))
  let t2397 := ((0 : α) * t73)
  let t6525 := (atan2 t331 t321)
  let t6526 := (-t6525)
  let t6527 := (cos t6526)
  let t6528 := (sin t6526)
  let t6529 := (t6527 * t66)
  let t6530 := (t6528 * t66)
  let t6531 := (t6527 * t68)
  let t6533 := (-t6528)
  let t6535 := ((t6533 * t66) + (t6531 * t68))
  let t6536 := (t6528 * t68)
  let t6538 := (t6529 + (t6536 * t68))
  let t6541 := ((t6533 * t72) + (t6531 * t66))
  let t6544 := ((t6527 * t72) + (t6536 * t66))
  let t6545 := ((0 : α) * t6530)
  let t6548 := ((((1 : α) * t6529) + t6545) + t89)
  let t6550 := ((0 : α) * t6529)
  let t6552 := ((t6550 + ((1 : α) * t6530)) + t89)
  let t6553 := (t6550 + t6545)
  let t6554 := (t6553 + ((1 : α) * t72))
  let t6556 := ((0 : α) * t6538)
  let t6561 := ((0 : α) * t6535)
  let t6564 := (t6561 + t6556)
  let t6567 := ((0 : α) * t6544)
  let t6572 := ((0 : α) * t6541)
  let t6575 := (t6572 + t6567)
  let t6578 := ((t6553 + t89) * (0 : α))
  let t6596 := ((((t6548 * t331) + (t6552 * t321)) + (t6554 * t311)) + t6578)
  let t6622 := ((((((((1 : α) * t6535) + t6556) + t2397) * t331) + (((t6561 + ((1 : α) * t6538)) + t2397) * t321)) + ((t6564 + ((1 : α) * t73)) * t311)) + ((t6564 + t2397) * (0 : α)))
  ⟨(atan2 ((((t6548 * ((2 : α) * (t327 + t326))) + (t6552 * ((1 : α) - ((2 : α) * (t322 + t306))))) + (t6554 * ((2 : α) * (t313 - t312)))) + t6578) ((((t6548 * ((1 : α) - ((2 : α) * (t307 + t322)))) + (t6552 * ((2 : α) * (t327 - t326)))) + (t6554 * ((2 : α) * (t317 + t316)))) + t6578)), (atan2 (sqrt ((t6596 * t6596) + (t6622 * t6622))) ((((((((1 : α) * t6541) + t6567) + t95) * t331) + (((t6572 + ((1 : α) * t6544)) + t95) * t321)) + ((t6575 + ((1 : α) * t70)) * t311)) + ((t6575 + t95) * (0 : α)))), t6525⟩

/-- extracted from the C++ template at T = Sym; 1 path(s) -/
def Euler.ctorXYZLayout_XZXr {α : Type} (v : V3 α) : ((V3 α) × Int) :=
  (⟨v.z, v.x, v.y⟩, (8464 : Int))

/-- extracted from the C++ template at T = Sym; 1 path(s) -/
def Euler.ctorXYZLayoutScalars_XZXr {α : Type} (xi : α) (yi : α) (zi : α) : ((V3 α) × Int) :=
  (⟨zi, xi, yi⟩, (8464 : Int))

/-- extracted from the C++ template at T = Sym; 1 path(s) -/
def Euler.ctorIJKLayout_XZXr {α : Type} (v : V3 α) : ((V3 α) × Int) :=
  (⟨v.x, v.y, v.z⟩, (8464 : Int))

/-- extracted from the C++ template at T = Sym; 1 path(s) -/
def Euler.setXYZVector_XZXr {α : Type} (a : V3 α) (v : V3 α) : (V3 α) :=
  ⟨v.z, v.x, v.y⟩

/-- extracted from the C++ template at T = Sym; 1 path(s) -/
def Euler.toXYZVector_XZXr {α : Type} (a : V3 α) : (V3 α) :=
  ⟨a.y, a.z, a.x⟩

/-- extracted from the C++ template at T = Sym; 1 path(s) -/
def Euler.angleOrder_XZXr {α : Type} : (Int × Int × Int) :=
  ((2 : Int), (0 : Int), (1 : Int))

/-- extracted from the C++ template at T = Sym; 1 path(s) -/
def Euler.angleMapping_XZXr {α : Type} : (Int × Int × Int) :=
  ((1 : Int), (2 : Int), (0 : Int))

/-- extracted from the C++ template at T = Sym; 1 path(s) -/
def Euler.order_XZXr {α : Type} : (Int × Bool × Bool × Bool × Bool × Int) :=
  ((8464 : Int), true, false, true, true, (2 : Int))

/-- extracted from the C++ template at T = Sym; 1 path(s) -/
def Euler.setOrderKeepsAngles_XZXr {α : Type} (a : V3 α) : ((V3 α) × Int) :=
  (⟨a.x, a.y, a.z⟩, (8464 : Int))

/-- extracted from the C++ template at T = Sym; 1 path(s) -/
def Euler.copyAndAssign_XZXr {α : Type} (a : V3 α) (v : V3 α) : ((V3 α) × Int × (V3 α) × Int × (V3 α) × Int) :=
  (⟨a.x, a.y, a.z⟩, (8464 : Int), ⟨a.x, a.y, a.z⟩, (8464 : Int), ⟨v.x, v.y, v.z⟩, (8464 : Int))

/-- extracted from the C++ template at T = Sym; 1 path(s) -/
def Euler.reorderFromXYZ_XZXr {α : Type} [Add α] [Sub α] [Mul α] [Neg α] [OfNat α 0] [OfNat α 1] (sqrt : α → α) (sin : α → α) (cos : α → α) (atan2 : α → α → α) (a : V3 α) : ((V3 α) × Int) :=
  let t4 := (cos a.x)
  let t5 := (cos a.y)
  let t6 := (cos a.z)
  let t7 := (sin a.x)
  let t8 := (sin a.y)
  let t9 := (sin a.z)
  let t10 := (t4 * t6)
  let t11 := (t4 * t9)
  let t12 := (t7 * t6)
  let t13 := (t7 * t9)
  let t25 := (-t8)
  let t26 := (t5 * t7)
  let t27 := (t5 * t4)
  let t66 := (cos (0 : α))
  let t68 := (sin (0 : α))
  let t70 := (t66 * t66)
  let t72 := (-t68)
  let t73 := (t66 * t68)
  let t89 := ((0 : α) * t72)
  let t95 := ((0 : α) * t70)
  let t2397 := ((0 : α) * t73)
  let t6662 := (atan2 t25 t26)
  let t6663 := (-t6662)
  let t6664 := (cos t6663)
  let t6665 := (sin t6663)
  let t6666 := (t6664 * t66)
  let t6667 := (t6665 * t66)
  let t6668 := (t6664 * t68)
  let t6670 := (-t6665)
  let t6672 := ((t6670 * t66) + (t6668 * t68))
  let t6673 := (t6665 * t68)
  let t6675 := (t6666 + (t6673 * t68))
  let t6678 := ((t6670 * t72) + (t6668 * t66))
  let t6681 := ((t6664 * t72) + (t6673 * t66))
  let t6682 := ((0 : α) * t6667)
  let t6685 := ((((1 : α) * t6666) + t6682) + t89)
  let t6687 := ((0 : α) * t6666)
  let t6689 := ((t6687 + ((1 : α) * t6667)) + t89)
  let t6690 := (t6687 + t6682)
  let t6691 := (t6690 + ((1 : α) * t72))
  let t6693 := ((0 : α) * t6675)
  let t6698 := ((0 : α) * t6672)
  let t6701 := (t6698 + t6693)
  let t6704 := ((0 : α) * t6681)
  let t6709 := ((0 : α) * t6678)
  let t6712 := (t6709 + t6704)
  let t6715 := ((t6690 + t89) * (0 : α))
  let t6733 := ((((t6685 * t25) + (t6689 * t26)) + (t6691 * t27)) + t6715)
  let t6759 := ((((((((1 : α) * t6672) + t6693) + t2397) * t25) + (((t6698 + ((1 : α) * t6675)) + t2397) * t26)) + ((t6701 + ((1 : α) * t73)) * t27)) + ((t6701 + t2397) * (0 : α)))
  (⟨(atan2 ((((t6685 * (t5 * t9)) + (t6689 * ((t8 * t13) + t10))) + (t6691 * ((t8 * t11) - t12))) + t6715) ((((t6685 * (t5 * t6)) + (t6689 * ((t8 * t12) - t11))) + (t6691 * ((t8 * t10) + t13))) + t6715)), (atan2 (sqrt ((t6733 * t6733) + (t6759 * t6759))) ((((((((1 : α) * t6678) + t6704) + t95) * t25) + (((t6709 + ((1 : α) * t6681)) + t95) * t26)) + ((t6712 + ((1 : α) * t70)) * t27)) + ((t6712 + t95) * (0 : α)))), t6662⟩, (8464 : Int))

/-- extracted from the C++ template at T = Sym; 1 path(s) -/
def Euler.reorderToZYXr_XZXr {α : Type} [Add α] [Sub α] [Mul α] [Neg α] [OfNat α 0] [OfNat α 1] (sqrt : α → α) (sin : α → α) (cos : α → α) (atan2 : α → α → α) (a : V3 α) : ((V3 α) × Int) :=
  let t4 := (cos a.x)
  let t5 := (cos a.y)
  let t6 := (cos a.z)
  let t7 := (sin a.x)
  let t8 := (sin a.y)
  let t9 := (sin a.z)
  let t66 := (cos (0 : α))
  let t68 := (sin (0 : α))
  let t70 := (t66 * t66)
  let t71 := (t68 * t66)
  let t72 := (-t68)
  let t89 := ((0 : α) * t72)
  let t90 := ((0 : α) * t71)
  let t93 := ((((1 : α) * t70) + t90) + t89)
  let t95 := ((0 : α) * t70)
  let t97 := ((t95 + ((1 : α) * t71)) + t89)
  let t99 := (t95 + t90)
  let t100 := (t99 + ((1 : α) * t72))
  let t128 := ((t99 + t89) * (0 : α))
  let t4047 := (-t5)
  let t7087 := (t6 * t4)
  let t7088 := (t6 * t7)
  let t7089 := (t9 * t4)
  let t7090 := (t9 * t7)
  let t7737 := (t8 * t6)
  let t7739 := ((t4047 * t7090) + t7087)
  let t7744 := ((t5 * t7089) + t7088)
  let t7804 := ((((t93 * t7739) + (t97 * ((t4047 * t7088) - t7089))) + (t100 * (t8 * t7))) + t128)
  let t7810 := ((((t93 * t7744) + (t97 * ((t5 * t7087) - t7090))) + (t100 * ((-t8) * t4))) + t128)
  (⟨(atan2 t7744 t7739), (atan2 (-((((t93 * (t8 * t9)) + (t97 * t7737)) + (t100 * t5)) + t128)) (sqrt ((t7804 * t7804) + (t7810 * t7810)))), (atan2 t7737 t5)⟩, (256 : Int))

/-- extracted from the C++ template at T = Sym; 1 path(s) -/
def Euler.toMatrix33_XYXr {α : Type} [Add α] [Sub α] [Mul α] [Neg α] [OfNat α 1] (sin : α → α) (cos : α → α) (a : V3 α) : (M33 α) :=
  let t622 := (a.x * (-(1 : α)))
  let t623 := (a.y * (-(1 : α)))
  let t624 := (a.z * (-(1 : α)))
  let t625 := (cos t622)
  let t626 := (cos t623)
  let t627 := (cos t624)
  let t628 := (sin t622)
  let t629 := (sin t623)
  let t630 := (sin t624)
  let t3540 := (-t626)
  let t6929 := (t627 * t625)
  let t6930 := (t627 * t628)
  let t6931 := (t630 * t625)
  let t6932 := (t630 * t628)
  ⟨((t626 * t6929) - t6932), ((t3540 * t6930) - t6931), (t629 * t627), ((t626 * t6931) + t6930), ((t3540 * t6932) + t6929), (t629 * t630), ((-t629) * t625), (t629 * t628), t626⟩

/-- extracted from the C++ template at T = Sym; 1 path(s) -/
def Euler.toMatrix44_XYXr {α : Type} [Add α] [Sub α] [Mul α] [Neg α] [OfNat α 0] [OfNat α 1] (sin : α → α) (cos : α → α) (a : V3 α) : (M44 α) :=
  let t622 := (a.x * (-(1 : α)))
  let t623 := (a.y * (-(1 : α)))
  let t624 := (a.z * (-(1 : α)))
  let t625 := (cos t622)
  let t626 := (cos t623)
  let t627 := (cos t624)
  let t628 := (sin t622)
  let t629 := (sin t623)
  let t630 := (sin t624)
  let t3540 := (-t626)
  let t6929 := (t627 * t625)
  let t6930 := (t627 * t628)
  let t6931 := (t630 * t625)
  let t6932 := (t630 * t628)
  ⟨((t626 * t6929) - t6932), ((t3540 * t6930) - t6931), (t629 * t627), (0 : α), ((t626 * t6931) + t6930), ((t3540 * t6932) + t6929), (t629 * t630), (0 : α), ((-t629) * t625), (t629 * t628), t626, (0 : α), (0 : α), (0 : α), (0 : α), (1 : α)⟩

/-- extracted from the C++ template at T = Sym; 1 path(s) -/
def Euler.toQuat_XYXr {α : Type} [Add α] [Sub α] [Mul α] [Div α] [Neg α] [OfNat α 1] [OfNat α 2] (sin : α → α) (cos : α → α) (a : V3 α) : (Quat α) :=
  let t29 := (a.x * ((1 : α) / (2 : α)))
  let t31 := (a.z * ((1 : α) / (2 : α)))
  let t32 := (cos t29)
  let t34 := (cos t31)
  let t35 := (sin t29)
  let t37 := (sin t31)
  let t649 := ((-a.y) * ((1 : α) / (2 : α)))
  let t650 := (cos t649)
  let t651 := (sin t649)
  let t6941 := (t34 * t32)
  let t6942 := (t34 * t35)
  let t6943 := (t37 * t32)
  let t6944 := (t37 * t35)
  ⟨(t650 * (t6941 - t6944)), ⟨(t651 * (t6942 - t6943)), ((t651 * (t6941 + t6944)) * (-(1 : α))), (t650 * (t6942 + t6943))⟩⟩

/-- extracted from the C++ template at T = Sym; 1 path(s) -/
def Euler.extractM33_XYXr {α : Type} [Add α] [Mul α] [Neg α] [OfNat α 0] [OfNat α 1] (sqrt : α → α) (sin : α → α) (cos : α → α) (atan2 : α → α → α) (m : M33 α) : (V3 α) :=
  let t66 := (cos (0 : α))
  let t68 := (sin (0 : α))
  let t70 := (t66 * t66)
  let t72 := (-t68)
  let t73 := (t66 * t68)
  let t89 := ((0 : α) * t72)
  let t95 := ((0 : α) * t70)
  let t2397 := ((0 : α) * t73)
  let t5749 := (atan2 m.x12 m.x02)
  let t5750 := (cos t5749)
  let t5751 := (sin t5749)
  let t5752 := (t5750 * t66)
  let t5753 := (t5751 * t66)
  let t5754 := (t5750 * t68)
  let t5756 := (-t5751)
  let t5758 := ((t5756 * t66) + (t5754 * t68))
  let t5759 := (t5751 * t68)
  let t5761 := (t5752 + (t5759 * t68))
  let t5764 := ((t5756 * t72) + (t5754 * t66))
  let t5767 := ((t5750 * t72) + (t5759 * t66))
  let t5768 := ((0 : α) * t5753)
  let t5773 := ((0 : α) * t5752)
  let t5776 := (t5773 + t5768)
  let t5779 := ((0 : α) * t5761)
  let t5782 := ((((1 : α) * t5758) + t5779) + t2397)
  let t5784 := ((0 : α) * t5758)
  let t5786 := ((t5784 + ((1 : α) * t5761)) + t2397)
  let t5787 := (t5784 + t5779)
  let t5788 := (t5787 + ((1 : α) * t73))
  let t5790 := ((0 : α) * t5767)
  let t5795 := ((0 : α) * t5764)
  let t5798 := (t5795 + t5790)
  let t5819 := ((((((((1 : α) * t5752) + t5768) + t89) * m.x02) + (((t5773 + ((1 : α) * t5753)) + t89) * m.x12)) + ((t5776 + ((1 : α) * t72)) * m.x22)) + ((t5776 + t89) * (0 : α)))
  let t5827 := ((t5787 + t2397) * (0 : α))
  let t5845 := ((((t5782 * m.x02) + (t5786 * m.x12)) + (t5788 * m.x22)) + t5827)
  ⟨((atan2 ((((t5782 * m.x00) + (t5786 * m.x10)) + (t5788 * m.x20)) + t5827) ((((t5782 * m.x01) + (t5786 * m.x11)) + (t5788 * m.x21)) + t5827)) * (-(1 : α))), ((atan2 (sqrt ((t5845 * t5845) + (t5819 * t5819))) ((((((((1 : α) * t5764) + t5790) + t95) * m.x02) + (((t5795 + ((1 : α) * t5767)) + t95) * m.x12)) + ((t5798 + ((1 : α) * t70)) * m.x22)) + ((t5798 + t95) * (0 : α)))) * (-(1 : α))), (t5749 * (-(1 : α)))⟩

/-- extracted from the C++ template at T = Sym; 1 path(s) -/
def Euler.extractM44_XYXr {α : Type} [Add α] [Mul α] [Neg α] [OfNat α 0] [OfNat α 1] (sqrt : α → α) (sin : α → α) (cos : α → α) (atan2 : α → α → α) (m : M44 α) : (V3 α) :=
  let t66 := (cos (0 : α))
  let t68 := (sin (0 : α))
  let t70 := (t66 * t66)
  let t72 := (-t68)
  let t73 := (t66 * t68)
  let t89 := ((0 : α) * t72)
  let t95 := ((0 : α) * t70)
  let t2397 := ((0 : α) * t73)
  let t5749 := (atan2 m.x12 m.x02)
  let t5750 := (cos t5749)
  let t5751 := (sin t5749)
  let t5752 := (t5750 * t66)
  let t5753 := (t5751 * t66)
  let t5754 := (t5750 * t68)
  let t5756 := (-t5751)
  let t5758 := ((t5756 * t66) + (t5754 * t68))
  let t5759 := (t5751 * t68)
  let t5761 := (t5752 + (t5759 * t68))
  let t5764 := ((t5756 * t72) + (t5754 * t66))
  let t5767 := ((t5750 * t72) + (t5759 * t66))
  let t5768 := ((0 : α) * t5753)
  let t5773 := ((0 : α) * t5752)
  let t5776 := (t5773 + t5768)
  let t5779 := ((0 : α) * t5761)
  let t5782 := ((((1 : α) * t5758) + t5779) + t2397)
  let t5784 := ((0 : α) * t5758)
  let t5786 := ((t5784 + ((1 : α) * t5761)) + t2397)
  let t5787 := (t5784 + t5779)
  let t5788 := (t5787 + ((1 : α) * t73))
  let t5789 := (t5787 + t2397)
  let t5790 := ((0 : α) * t5767)
  let t5795 := ((0 : α) * t5764)
  let t5798 := (t5795 + t5790)
  let t5893 := ((((((((1 : α) * t5752) + t5768) + t89) * m.x02) + (((t5773 + ((1 : α) * t5753)) + t89) * m.x12)) + ((t5776 + ((1 : α) * t72)) * m.x22)) + ((t5776 + t89) * m.x32))
  let t5906 := ((((t5782 * m.x02) + (t5786 * m.x12)) + (t5788 * m.x22)) + (t5789 * m.x32))
  ⟨((atan2 ((((t5782 * m.x00) + (t5786 * m.x10)) + (t5788 * m.x20)) + (t5789 * m.x30)) ((((t5782 * m.x01) + (t5786 * m.x11)) + (t5788 * m.x21)) + (t5789 * m.x31))) * (-(1 : α))), ((atan2 (sqrt ((t5906 * t5906) + (t5893 * t5893))) ((((((((1 : α) * t5764) + t5790) + t95) * m.x02) + (((t5795 + ((1 : α) * t5767)) + t95) * m.x12)) + ((t5798 + ((1 : α) * t70)) * m.x22)) + ((t5798 + t95) * m.x32))) * (-(1 : α))), (t5749 * (-(1 : α)))⟩

/-- extracted from the C++ template at T = Sym; 1 path(s) -/
def Euler.ctorM33_XYXr {α : Type} [Add α] [Mul α] [Neg α] [OfNat α 0] [OfNat α 1] (sqrt : α → α) (sin : α → α) (cos : α → α) (atan2 : α → α → α) (m : M33 α) : ((V3 α) × Int) :=
  let t66 := (cos (0 : α))
  let t68 := (sin (0 : α))
  let t70 := (t66 * t66)
  let t72 := (-t68)
  let t73 := (t66 * t68)
  let t89 := ((0 : α) * t72)
  let t95 := ((0 : α) * t70)
  let t2397 := ((0 : α) * t73)
  let t5749 := (atan2 m.x12 m.x02)
  let t5750 := (cos t5749)
  let t5751 := (sin t5749)
  let t5752 := (t5750 * t66)
  let t5753 := (t5751 * t66)
  let t5754 := (t5750 * t68)
  let t5756 := (-t5751)
  let t5758 := ((t5756 * t66) + (t5754 * t68))
  let t5759 := (t5751 * t68)
  let t5761 := (t5752 + (t5759 * t68))
  let t5764 := ((t5756 * t72) + (t5754 * t66))
  let t5767 := ((t5750 * t72) + (t5759 * t66))
  let t5768 := ((0 : α) * t5753)
  let t5773 := ((0 : α) * t5752)
  let t5776 := (t5773 + t5768)
  let t5779 := ((0 : α) * t5761)
  let t5782 := ((((1 : α) * t5758) + t5779) + t2397)
  let t5784 := ((0 : α) * t5758)
  let t5786 := ((t5784 + ((1 : α) * t5761)) + t2397)
  let t5787 := (t5784 + t5779)
  let t5788 := (t5787 + ((1 : α) * t73))
  let t5790 := ((0 : α) * t5767)
  let t5795 := ((0 : α) * t5764)
  let t5798 := (t5795 + t5790)
  let t5819 := ((((((((1 : α) * t5752) + t5768) + t89) * m.x02) + (((t5773 + ((1 : α) * t5753)) + t89) * m.x12)) + ((t5776 + ((1 : α) * t72)) * m.x22)) + ((t5776 + t89) * (0 : α)))
  let t5827 := ((t5787 + t2397) * (0 : α))
  let t5845 := ((((t5782 * m.x02) + (t5786 * m.x12)) + (t5788 * m.x22)) + t5827)
  (⟨((atan2 ((((t5782 * m.x00) + (t5786 * m.x10)) + (t5788 * m.x20)) + t5827) ((((t5782 * m.x01) + (t5786 * m.x11)) + (t5788 * m.x21)) + t5827)) * (-(1 : α))), ((atan2 (sqrt ((t5845 * t5845) + (t5819 * t5819))) ((((((((1 : α) * t5764) + t5790) + t95) * m.x02) + (((t5795 + ((1 : α) * t5767)) + t95) * m.x12)) + ((t5798 + ((1 : α) * t70)) * m.x22)) + ((t5798 + t95) * (0 : α)))) * (-(1 : α))), (t5749 * (-(1 : α)))⟩, (8208 : Int))

/-- extracted from the C++ template at T = Sym; 1 path(s) -/
def Euler.ctorM44_XYXr {α : Type} [Add α] [Mul α] [Neg α] [OfNat α 0] [OfNat α 1] (sqrt : α → α) (sin : α → α) (cos : α → α) (atan2 : α → α → α) (m : M44 α) : ((V3 α) × Int) :=
  let t66 := (cos (0 : α))
  let t68 := (sin (0 : α))
  let t70 := (t66 * t66)
  let t72 := (-t68)
  let t73 := (t66 * t68)
  let t89 := ((0 : α) * t72)
  let t95 := ((0 : α) * t70)
  let t2397 := ((0 : α) * t73)
  let t5749 := (atan2 m.x12 m.x02)
  let t5750 := (cos t5749)
  let t5751 := (sin t5749)
  let t5752 := (t5750 * t66)
  let t5753 := (t5751 * t66)
  let t5754 := (t5750 * t68)
  let t5756 := (-t5751)
  let t5758 := ((t5756 * t66) + (t5754 * t68))
  let t5759 := (t5751 * t68)
  let t5761 := (t5752 + (t5759 * t68))
  let t5764 := ((t5756 * t72) + (t5754 * t66))
  let t5767 := ((t5750 * t72) + (t5759 * t66))
  let t5768 := ((0 : α) * t5753)
  let t5773 := ((0 : α) * t5752)
  let t5776 := (t5773 + t5768)
  let t5779 := ((0 : α) * t5761)
  let t5782 := ((((1 : α) * t5758) + t5779) + t2397)
  let t5784 := ((0 : α) * t5758)
  let t5786 := ((t5784 + ((1 : α) * t5761)) + t2397)
  let t5787 := (t5784 + t5779)
  let t5788 := (t5787 + ((1 : α) * t73))
  let t5789 := (t5787 + t2397)
  let t5790 := ((0 : α) * t5767)
  let t5795 := ((0 : α) * t5764)
  let t5798 := (t5795 + t5790)
  let t5893 := ((((((((1 : α) * t5752) + t5768) + t89) * m.x02) + (((t5773 + ((1 : α) * t5753)) + t89) * m.x12)) + ((t5776 + ((1 : α) * t72)) * m.x22)) + ((t5776 + t89) * m.x32))
  let t5906 := ((((t5782 * m.x02) + (t5786 * m.x12)) + (t5788 * m.x22)) + (t5789 * m.x32))
  (⟨((atan2 ((((t5782 * m.x00) + (t5786 * m.x10)) + (t5788 * m.x20)) + (t5789 * m.x30)) ((((t5782 * m.x01) + (t5786 * m.x11)) + (t5788 * m.x21)) + (t5789 * m.x31))) * (-(1 : α))), ((atan2 (sqrt ((t5906 * t5906) + (t5893 * t5893))) ((((((((1 : α) * t5764) + t5790) + t95) * m.x02) + (((t5795 + ((1 : α) * t5767)) + t95) * m.x12)) + ((t5798 + ((1 : α) * t70)) * m.x22)) + ((t5798 + t95) * m.x32))) * (-(1 : α))), (t5749 * (-(1 : α)))⟩, (8208 : Int))

/-- extracted from the C++ template at T = Sym; 1 path(s) -/
def Euler.extractQuat_XYXr {α : Type} [Add α] [Sub α] [Mul α] [Neg α] [OfNat α 0] [OfNat α 1] [OfNat α 2] (sqrt : α → α) (sin : α → α) (cos : α → α) (atan2 : α → α → α) (q : Quat α) : (V3 α) :=
  let t66 := (cos (0 : α))
  let t68 := (sin (0 : α))
  let t70 := (t66 * t66)
  let t72 := (-t68)
  let t73 := (t66 * t68)
  let t89 := ((0 : α) * t72)
  let t95 := ((0 : α) * t70)
  let t306 := (q.v.x * q.v.x)
  let t307 := (q.v.y * q.v.y)
  let t311 := ((1 : α) - ((2 : α) * (t307 + t306)))
  let t312 := (q.v.x * q.r)
  let t313 := (q.v.y * q.v.z)
  let t316 := (q.v.y * q.r)
  let t317 := (q.v.z * q.v.x)
  let t321 := ((2 : α) * (t313 + t312))
  let t322 := (q.v.z * q.v.z)
  let t326 := (q.v.z * q.r)
  let t327 := (q.v.x * q.v.y)
  let t331 := ((2 : α) * (t317 - t316))
  let t2397 := ((0 : α) * t73)
  let t5935 := (atan2 t321 t331)
  let t5936 := (cos t5935)
  let t5937 := (sin t5935)
  let t5938 := (t5936 * t66)
  let t5939 := (t5937 * t66)
  let t5940 := (t5936 * t68)
  let t5942 := (-t5937)
  let t5944 := ((t5942 * t66) + (t5940 * t68))
  let t5945 := (t5937 * t68)
  let t5947 := (t5938 + (t5945 * t68))
  let t5950 := ((t5942 * t72) + (t5940 * t66))
  let t5953 := ((t5936 * t72) + (t5945 * t66))
  let t5954 := ((0 : α) * t5939)
  let t5959 := ((0 : α) * t5938)
  let t5962 := (t5959 + t5954)
  let t5965 := ((0 : α) * t5947)
  let t5968 := ((((1 : α) * t5944) + t5965) + t2397)
  let t5970 := ((0 : α) * t5944)
  let t5972 := ((t5970 + ((1 : α) * t5947)) + t2397)
  let t5973 := (t5970 + t5965)
  let t5974 := (t5973 + ((1 : α) * t73))
  let t5976 := ((0 : α) * t5953)
  let t5981 := ((0 : α) * t5950)
  let t5984 := (t5981 + t5976)
  let t6005 := ((((((((1 : α) * t5938) + t5954) + t89) * t331) + (((t5959 + ((1 : α) * t5939)) + t89) * t321)) + ((t5962 + ((1 : α) * t72)) * t311)) + ((t5962 + t89) * (0 : α)))
  let t6013 := ((t5973 + t2397) * (0 : α))
  let t6031 := ((((t5968 * t331) + (t5972 * t321)) + (t5974 * t311)) + t6013)
  ⟨((atan2 ((((t5968 * ((1 : α) - ((2 : α) * (t307 + t322)))) + (t5972 * ((2 : α) * (t327 - t326)))) + (t5974 * ((2 : α) * (t317 + t316)))) + t6013) ((((t5968 * ((2 : α) * (t327 + t326))) + (t5972 * ((1 : α) - ((2 : α) * (t322 + t306))))) + (t5974 * ((2 : α) * (t313 - t312)))) + t6013)) * (-(1 : α))), ((atan2 (sqrt ((t6031 * t6031) + (t6005 * t6005))) ((((((((1 : α) * t5950) + t5976) + t95) * t331) + (((t5981 + ((1 : α) * t5953)) + t95) * t321)) + ((t5984 + ((1 : α) * t70)) * t311)) + ((t5984 + t95) * (0 : α)))) * (-(1 : α))), (t5935 * (-(1 : α)))⟩

/-- extracted from the C++ template at T = Sym; 1 path(s) -/
def Euler.ctorXYZLayout_XYXr {α : Type} (v : V3 α) : ((V3 α) × Int) :=
  (⟨v.z, v.y, v.x⟩, (8208 : Int))

/-- extracted from the C++ template at T = Sym; 1 path(s) -/
def Euler.ctorXYZLayoutScalars_XYXr {α : Type} (xi : α) (yi : α) (zi : α) : ((V3 α) × Int) :=
  (⟨zi, yi, xi⟩, (8208 : Int))

/-- extracted from the C++ template at T = Sym; 1 path(s) -/
def Euler.ctorIJKLayout_XYXr {α : Type} (v : V3 α) : ((V3 α) × Int) :=
  (⟨v.x, v.y, v.z⟩, (8208 : Int))

/-- extracted from the C++ template at T = Sym; 1 path(s) -/
def Euler.setXYZVector_XYXr {α : Type} (a : V3 α) (v : V3 α) : (V3 α) :=
  ⟨v.z, v.y, v.x⟩

/-- extracted from the C++ template at T = Sym; 1 path(s) -/
def Euler.toXYZVector_XYXr {α : Type} (a : V3 α) : (V3 α) :=
  ⟨a.z, a.y, a.x⟩

/-- extracted from the C++ template at T = Sym; 1 path(s) -/
def Euler.angleOrder_XYXr {α : Type} : (Int × Int × Int) :=
  ((2 : Int), (1 : Int), (0 : Int))

/-- extracted from the C++ template at T = Sym; 1 path(s) -/
def Euler.angleMapping_XYXr {α : Type} : (Int × Int × Int) :=
  ((2 : Int), (1 : Int), (0 : Int))

/-- extracted from the C++ template at T = Sym; 1 path(s) -/
def Euler.order_XYXr {α : Type} : (Int × Bool × Bool × Bool × Bool × Int) :=
  ((8208 : Int), true, false, true, false, (2 : Int))

/-- extracted from the C++ template at T = Sym; 1 path(s) -/
def Euler.setOrderKeepsAngles_XYXr {α : Type} (a : V3 α) : ((V3 α) × Int) :=
  (⟨a.x, a.y, a.z⟩, (8208 : Int))

/-- extracted from the C++ template at T = Sym; 1 path(s) -/
def Euler.copyAndAssign_XYXr {α : Type} (a : V3 α) (v : V3 α) : ((V3 α) × Int × (V3 α) × Int × (V3 α) × Int) :=
  (⟨a.x, a.y, a.z⟩, (8208 : Int), ⟨a.x, a.y, a.z⟩, (8208 : Int), ⟨v.x, v.y, v.z⟩, (8208 : Int))

/-- extracted from the C++ template at T = Sym; 1 path(s) -/
def Euler.reorderFromXYZ_XYXr {α : Type} [Add α] [Sub α] [Mul α] [Neg α] [OfNat α 0] [OfNat α 1] (sqrt : α → α) (sin : α → α) (cos : α → α) (atan2 : α → α → α) (a : V3 α) : ((V3 α) × Int) :=
  let t4 := (cos a.x)
  let t5 := (cos a.y)
  let t6 := (cos a.z)
  let t7 := (sin a.x)
  let t8 := (sin a.y)
  let t9 := (sin a.z)
  let t10 := (t4 * t6)
  let t11 := (t4 * t9)
  let t12 := (t7 * t6)
  let t13 := (t7 * t9)
  let t25 := (-t8)
  let t26 := (t5 * t7)
  let t27 := (t5 * t4)
  let t66 := (cos (0 : α))
  let t68 := (sin (0 : α))
  let t70 := (t66 * t66)
  let t72 := (-t68)
  let t73 := (t66 * t68)
  let t89 := ((0 : α) * t72)
  let t95 := ((0 : α) * t70)
  let t2397 := ((0 : α) * t73)
  let t6074 := (atan2 t26 t25)
  let t6075 := (cos t6074)
  let t6076 := (sin t6074)
  let t6077 := (t6075 * t66)
  let t6078 := (t6076 * t66)
  let t6079 := (t6075 * t68)
  let t6081 := (-t6076)
  let t6083 := ((t6081 * t66) + (t6079 * t68))
  let t6084 := (t6076 * t68)
  let t6086 := (t6077 + (t6084 * t68))
  let t6089 := ((t6081 * t72) + (t6079 * t66))
  let t6092 := ((t6075 * t72) + (t6084 * t66))
  let t6093 := ((0 : α) * t6078)
  let t6098 := ((0 : α) * t6077)
  let t6101 := (t6098 + t6093)
  let t6104 := ((0 : α) * t6086)
  let t6107 := ((((1 : α) * t6083) + t6104) + t2397)
  let t6109 := ((0 : α) * t6083)
  let t6111 := ((t6109 + ((1 : α) * t6086)) + t2397)
  let t6112 := (t6109 + t6104)
  let t6113 := (t6112 + ((1 : α) * t73))
  let t6115 := ((0 : α) * t6092)
  let t6120 := ((0 : α) * t6089)
  let t6123 := (t6120 + t6115)
  let t6144 := ((((((((1 : α) * t6077) + t6093) + t89) * t25) + (((t6098 + ((1 : α) * t6078)) + t89) * t26)) + ((t6101 + ((1 : α) * t72)) * t27)) + ((t6101 + t89) * (0 : α)))
  let t6152 := ((t6112 + t2397) * (0 : α))
  let t6170 := ((((t6107 * t25) + (t6111 * t26)) + (t6113 * t27)) + t6152)
  (⟨((atan2 ((((t6107 * (t5 * t6)) + (t6111 * ((t8 * t12) - t11))) + (t6113 * ((t8 * t10) + t13))) + t6152) ((((t6107 * (t5 * t9)) + (t6111 * ((t8 * t13) + t10))) + (t6113 * ((t8 * t11) - t12))) + t6152)) * (-(1 : α))), ((atan2 (sqrt ((t6170 * t6170) + (t6144 * t6144))) ((((((((1 : α) * t6089) + t6115) + t95) * t25) + (((t6120 + ((1 : α) * t6092)) + t95) * t26)) + ((t6123 + ((1 : α) * t70)) * t27)) + ((t6123 + t95) * (0 : α)))) * (-(1 : α))), (t6074 * (-(1 : α)))⟩, (8208 : Int))

/-- extracted from the C++ template at T = Sym; 1 path(s) -/
def Euler.reorderToZYXr_XYXr {α : Type} [Add α] [Sub α] [Mul α] [Neg α] [OfNat α 0] [OfNat α 1] (sqrt : α → α) (sin : α → α) (cos : α → α) (atan2 : α → α → α) (a : V3 α) : ((V3 α) × Int) :=
  let t66 := (cos (0 : α))
  let t68 := (sin (0 : α))
  let t70 := (t66 * t66)
  let t71 := (t68 * t66)
  let t72 := (-t68)
  let t89 := ((0 : α) * t72)
  let t90 := ((0 : α) * t71)
  let t93 := ((((1 : α) * t70) + t90) + t89)
  let t95 := ((0 : α) * t70)
  let t97 := ((t95 + ((1 : α) * t71)) + t89)
  let t99 := (t95 + t90)
  let t100 := (t99 + ((1 : α) * t72))
  let t128 := ((t99 + t89) * (0 : α))
  let t622 := (a.x * (-(1 : α)))
  let t623 := (a.y * (-(1 : α)))
  let t624 := (a.z * (-(1 : α)))
  let t625 := (cos t622)
  let t626 := (cos t623)
  let t627 := (cos t624)
  let t628 := (sin t622)
  let t629 := (sin t623)
  let t630 := (sin t624)
  let t3539 := (t629 * t630)
  let t3540 := (-t626)
  let t6929 := (t627 * t625)
  let t6930 := (t627 * t628)
  let t6931 := (t630 * t625)
  let t6932 := (t630 * t628)
  let t7893 := ((t3540 * t6930) - t6931)
  let t7898 := ((t626 * t6929) - t6932)
  let t7953 := ((((t93 * t7898) + (t97 * ((t626 * t6931) + t6930))) + (t100 * ((-t629) * t625))) + t128)
  let t7958 := ((((t93 * t7893) + (t97 * ((t3540 * t6932) + t6929))) + (t100 * (t629 * t628))) + t128)
  (⟨(atan2 t7893 t7898), (atan2 (-((((t93 * (t629 * t627)) + (t97 * t3539)) + (t100 * t626)) + t128)) (sqrt ((t7953 * t7953) + (t7958 * t7958)))), (atan2 t3539 t626)⟩, (256 : Int))

/-- extracted from the C++ template at T = Sym; 1 path(s) -/
def Euler.toMatrix33_YXYr {α : Type} [Add α] [Sub α] [Mul α] [Neg α] (sin : α → α) (cos : α → α) (a : V3 α) : (M33 α) :=
  let t4 := (cos a.x)
  let t5 := (cos a.y)
  let t6 := (cos a.z)
  let t7 := (sin a.x)
  let t8 := (sin a.y)
  let t9 := (sin a.z)
  let t4047 := (-t5)
  let t7087 := (t6 * t4)
  let t7088 := (t6 * t7)
  let t7089 := (t9 * t4)
  let t7090 := (t9 * t7)
  ⟨((t5 * t7087) - t7090), (t8 * t6), ((t4047 * t7088) - t7089), ((-t8) * t4), t5, (t8 * t7), ((t5 * t7089) + t7088), (t8 * t9), ((t4047 * t7090) + t7087)⟩

/-- extracted from the C++ template at T = Sym; 1 path(s) -/
def Euler.toMatrix44_YXYr {α : Type} [Add α] [Sub α] [Mul α] [Neg α] [OfNat α 0] [OfNat α 1] (sin : α → α) (cos : α → α) (a : V3 α) : (M44 α) :=
  let t4 := (cos a.x)
  let t5 := (cos a.y)
  let t6 := (cos a.z)
  let t7 := (sin a.x)
  let t8 := (sin a.y)
  let t9 := (sin a.z)
  let t4047 := (-t5)
  let t7087 := (t6 * t4)
  let t7088 := (t6 * t7)
  let t7089 := (t9 * t4)
  let t7090 := (t9 * t7)
  ⟨((t5 * t7087) - t7090), (t8 * t6), ((t4047 * t7088) - t7089), (0 : α), ((-t8) * t4), t5, (t8 * t7), (0 : α), ((t5 * t7089) + t7088), (t8 * t9), ((t4047 * t7090) + t7087), (0 : α), (0 : α), (0 : α), (0 : α), (1 : α)⟩

/-- extracted from the C++ template at T = Sym; 1 path(s) -/
def Euler.toQuat_YXYr {α : Type} [Add α] [Sub α] [Mul α] [Div α] [OfNat α 1] [OfNat α 2] (sin : α → α) (cos : α → α) (a : V3 α) : (Quat α) :=
  let t29 := (a.x * ((1 : α) / (2 : α)))
  let t30 := (a.y * ((1 : α) / (2 : α)))
  let t31 := (a.z * ((1 : α) / (2 : α)))
  let t32 := (cos t29)
  let t33 := (cos t30)
  let t34 := (cos t31)
  let t35 := (sin t29)
  let t36 := (sin t30)
  let t37 := (sin t31)
  let t6941 := (t34 * t32)
  let t6942 := (t34 * t35)
  let t6943 := (t37 * t32)
  let t6944 := (t37 * t35)
  ⟨(t33 * (t6941 - t6944)), ⟨(t36 * (t6942 - t6943)), (t33 * (t6942 + t6943)), ((t36 * (t6941 + t6944)) * (1 : α))⟩⟩

/-- extracted from the C++ template at T = Sym; 1 path(s) -/
def Euler.extractM33_YXYr {α : Type} [Add α] [Mul α] [Neg α] [OfNat α 0] [OfNat α 1] (sqrt : α → α) (sin : α → α) (cos : α → α) (atan2 : α → α → α) (m : M33 α) : (V3 α) :=
  let t66 := (cos (0 : α))
  let t68 := (sin (0 : α))
  let t72 := (-t68)
  let t5148 := (atan2 m.x21 m.x01)
  let t5149 := (-t5148)
  let t5150 := (cos t5149)
  let t5151 := (sin t5149)
  let t5152 := (t66 * t5150)
  let t5153 := (t68 * t5150)
  let t5154 := (-t5151)
  let t5155 := (t66 * t5151)
  let t5157 := ((t72 * t66) + (t5155 * t68))
  let t5158 := (t68 * t5151)
  let t5160 := ((t66 * t66) + (t5158 * t68))
  let t5161 := (t5150 * t68)
  let t5163 := ((t72 * t72) + (t5155 * t66))
  let t5165 := ((t66 * t72) + (t5158 * t66))
  let t5166 := (t5150 * t66)
  let t5167 := ((0 : α) * t5154)
  let t5168 := ((0 : α) * t5153)
  let t5173 := ((0 : α) * t5152)
  let t5177 := (t5173 + t5168)
  let t5180 := ((0 : α) * t5161)
  let t5181 := ((0 : α) * t5160)
  let t5186 := ((0 : α) * t5157)
  let t5190 := (t5186 + t5181)
  let t5193 := ((0 : α) * t5166)
  let t5194 := ((0 : α) * t5165)
  let t5197 := ((((1 : α) * t5163) + t5194) + t5193)
  let t5199 := ((0 : α) * t5163)
  let t5201 := ((t5199 + ((1 : α) * t5165)) + t5193)
  let t5203 := (t5199 + t5194)
  let t5204 := (t5203 + ((1 : α) * t5166))
  let t5218 := ((((((((1 : α) * t5152) + t5168) + t5167) * m.x01) + (((t5173 + ((1 : α) * t5153)) + t5167) * m.x11)) + ((t5177 + ((1 : α) * t5154)) * m.x21)) + ((t5177 + t5167) * (0 : α)))
  let t5258 := ((t5203 + t5193) * (0 : α))
  let t5270 := ((((t5197 * m.x01) + (t5201 * m.x11)) + (t5204 * m.x21)) + t5258)
  ⟨(atan2 ((((t5197 * m.x00) + (t5201 * m.x10)) + (t5204 * m.x20)) + t5258) ((((t5197 * m.x02) + (t5201 * m.x12)) + (t5204 * m.x22)) + t5258)), (atan2 (sqrt ((t5270 * t5270) + (t5218 * t5218))) ((((((((1 : α) * t5157) + t5181) + t5180) * m.x01) + (((t5186 + ((1 : α) * t5160)) + t5180) * m.x11)) + ((t5190 + ((1 : α) * t5161)) * m.x21)) + ((t5190 + t5180) * (0 : α)))), t5148⟩

/-- extracted from the C++ template at T = Sym; 1 path(s) -/
def Euler.extractM44_YXYr {α : Type} [Add α] [Mul α] [Neg α] [OfNat α 0] [OfNat α 1] (sqrt : α → α) (sin : α → α) (cos : α → α) (atan2 : α → α → α) (m : M44 α) : (V3 α) :=
  let t66 := (cos (0 : α))
  let t68 := (sin (0 : α))
  let t72 := (-t68)
  let t5148 := (atan2 m.x21 m.x01)
  let t5149 := (-t5148)
  let t5150 := (cos t5149)
  let t5151 := (sin t5149)
  let t5152 := (t66 * t5150)
  let t5153 := (t68 * t5150)
  let t5154 := (-t5151)
  let t5155 := (t66 * t5151)
  let t5157 := ((t72 * t66) + (t5155 * t68))
  let t5158 := (t68 * t5151)
  let t5160 := ((t66 * t66) + (t5158 * t68))
  let t5161 := (t5150 * t68)
  let t5163 := ((t72 * t72) + (t5155 * t66))
  let t5165 := ((t66 * t72) + (t5158 * t66))
  let t5166 := (t5150 * t66)
  let t5167 := ((0 : α) * t5154)
  let t5168 := ((0 : α) * t5153)
  let t5173 := ((0 : α) * t5152)
  let t5177 := (t5173 + t5168)
  let t5180 := ((0 : α) * t5161)
  let t5181 := ((0 : α) * t5160)
  let t5186 := ((0 : α) * t5157)
  let t5190 := (t5186 + t5181)
  let t5193 := ((0 : α) * t5166)
  let t5194 := ((0 : α) * t5165)
  let t5197 := ((((1 : α) * t5163) + t5194) + t5193)
  let t5199 := ((0 : α) * t5163)
  let t5201 := ((t5199 + ((1 : α) * t5165)) + t5193)
  let t5203 := (t5199 + t5194)
  let t5204 := (t5203 + ((1 : α) * t5166))
  let t5205 := (t5203 + t5193)
  let t5293 := ((((((((1 : α) * t5152) + t5168) + t5167) * m.x01) + (((t5173 + ((1 : α) * t5153)) + t5167) * m.x11)) + ((t5177 + ((1 : α) * t5154)) * m.x21)) + ((t5177 + t5167) * m.x31))
  let t5319 := ((((t5197 * m.x01) + (t5201 * m.x11)) + (t5204 * m.x21)) + (t5205 * m.x31))
  ⟨(atan2 ((((t5197 * m.x00) + (t5201 * m.x10)) + (t5204 * m.x20)) + (t5205 * m.x30)) ((((t5197 * m.x02) + (t5201 * m.x12)) + (t5204 * m.x22)) + (t5205 * m.x32))), (atan2 (sqrt ((t5319 * t5319) + (t5293 * t5293))) ((((((((1 : α) * t5157) + t5181) + t5180) * m.x01) + (((t5186 + ((1 : α) * t5160)) + t5180) * m.x11)) + ((t5190 + ((1 : α) * t5161)) * m.x21)) + ((t5190 + t5180) * m.x31))), t5148⟩

/-- extracted from the C++ template at T = Sym; 1 path(s) -/
def Euler.ctorM33_YXYr {α : Type} [Add α] [Mul α] [Neg α] [OfNat α 0] [OfNat α 1] (sqrt : α → α) (sin : α → α) (cos : α → α) (atan2 : α → α → α) (m : M33 α) : ((V3 α) × Int) :=
  let t66 := (cos (0 : α))
  let t68 := (sin (0 : α))
  let t72 := (-t68)
  let t5148 := (atan2 m.x21 m.x01)
  let t5149 := (-t5148)
  let t5150 := (cos t5149)
  let t5151 := (sin t5149)
  let t5152 := (t66 * t5150)
  let t5153 := (t68 * t5150)
  let t5154 := (-t5151)
  let t5155 := (t66 * t5151)
  let t5157 := ((t72 * t66) + (t5155 * t68))
  let t5158 := (t68 * t5151)
  let t5160 := ((t66 * t66) + (t5158 * t68))
  let t5161 := (t5150 * t68)
  let t5163 := ((t72 * t72) + (t5155 * t66))
  let t5165 := ((t66 * t72) + (t5158 * t66))
  let t5166 := (t5150 * t66)
  let t5167 := ((0 : α) * t5154)
  let t5168 := ((0 : α) * t5153)
  let t5173 := ((0 : α) * t5152)
  let t5177 := (t5173 + t5168)
  let t5180 := ((0 : α) * t5161)
  let t5181 := ((0 : α) * t5160)
  let t5186 := ((0 : α) * t5157)
  let t5190 := (t5186 + t5181)
  let t5193 := ((0 : α) * t5166)
  let t5194 := ((0 : α) * t5165)
  let t5197 := ((((1 : α) * t5163) + t5194) + t5193)
  let t5199 := ((0 : α) * t5163)
  let t5201 := ((t5199 + ((1 : α) * t5165)) + t5193)
  let t5203 := (t5199 + t5194)
  let t5204 := (t5203 + ((1 : α) * t5166))
  let t5218 := ((((((((1 : α) * t5152) + t5168) + t5167) * m.x01) + (((t5173 + ((1 : α) * t5153)) + t5167) * m.x11)) + ((t5177 + ((1 : α) * t5154)) * m.x21)) + ((t5177 + t5167) * (0 : α)))
  let t5258 := ((t5203 + t5193) * (0 : α))
  let t5270 := ((((t5197 * m.x01) + (t5201 * m.x11)) + (t5204 * m.x21)) + t5258)
  (⟨(atan2 ((((t5197 * m.x00) + (t5201 * m.x10)) + (t5204 * m.x20)) + t5258) ((((t5197 * m.x02) + (t5201 * m.x12)) + (t5204 * m.x22)) + t5258)), (atan2 (sqrt ((t5270 * t5270) + (t5218 * t5218))) ((((((((1 : α) * t5157) + t5181) + t5180) * m.x01) + (((t5186 + ((1 : α) * t5160)) + t5180) * m.x11)) + ((t5190 + ((1 : α) * t5161)) * m.x21)) + ((t5190 + t5180) * (0 : α)))), t5148⟩, (4368 : Int))

/-- extracted from the C++ template at T = Sym; 1 path(s) -/
def Euler.ctorM44_YXYr {α : Type} [Add α] [Mul α] [Neg α] [OfNat α 0] [OfNat α 1] (sqrt : α → α) (sin : α → α) (cos : α → α) (atan2 : α → α → α) (m : M44 α) : ((V3 α) × Int) :=
  let t66 := (cos (0 : α))
  let t68 := (sin (0 : α))
  let t72 := (-t68)
  let t5148 := (atan2 m.x21 m.x01)
  let t5149 := (-t5148)
  let t5150 := (cos t5149)
  let t5151 := (sin t5149)
  let t5152 := (t66 * t5150)
  let t5153 := (t68 * t5150)
  let t5154 := (-t5151)
  let t5155 := (t66 * t5151)
  let t5157 := ((t72 * t66) + (t5155 * t68))
  let t5158 := (t68 * t5151)
  let t5160 := ((t66 * t66) + (t5158 * t68))
  let t5161 := (t5150 * t68)
  let t5163 := ((t72 * t72) + (t5155 * t66))
  let t5165 := ((t66 * t72) + (t5158 * t66))
  let t5166 := (t5150 * t66)
  let t5167 := ((0 : α) * t5154)
  let t5168 := ((0 : α) * t5153)
  let t5173 := ((0 : α) * t5152)
  let t5177 := (t5173 + t5168)
  let t5180 := ((0 : α) * t5161)
  let t5181 := ((0 : α) * t5160)
  let t5186 := ((0 : α) * t5157)
  let t5190 := (t5186 + t5181)
  let t5193 := ((0 : α) * t5166)
  let t5194 := ((0 : α) * t5165)
  let t5197 := ((((1 : α) * t5163) + t5194) + t5193)
  let t5199 := ((0 : α) * t5163)
  let t5201 := ((t5199 + ((1 : α) * t5165)) + t5193)
  let t5203 := (t5199 + t5194)
  let t5204 := (t5203 + ((1 : α) * t5166))
  let t5205 := (t5203 + t5193)
  let t5293 := ((((((((1 : α) * t5152) + t5168) + t5167) * m.x01) + (((t5173 + ((1 : α) * t5153)) + t5167) * m.x11)) + ((t5177 + ((1 : α) * t5154)) * m.x21)) + ((t5177 + t5167) * m.x31))
  let t5319 := ((((t5197 * m.x01) + (t5201 * m.x11)) + (t5204 * m.x21)) + (t5205 * m.x31))
  (⟨(atan2 ((((t5197 * m.x00) + (t5201 * m.x10)) + (t5204 * m.x20)) + (t5205 * m.x30)) ((((t5197 * m.x02) + (t5201 * m.x12)) + (t5204 * m.x22)) + (t5205 * m.x32))), (atan2 (sqrt ((t5319 * t5319) + (t5293 * t5293))) ((((((((1 : α) * t5157) + t5181) + t5180) * m.x01) + (((t5186 + ((1 : α) * t5160)) + t5180) * m.x11)) + ((t5190 + ((1 : α) * t5161)) * m.x21)) + ((t5190 + t5180) * m.x31))), t5148⟩, (4368 : Int))

/-- extracted from the C++ template at T = Sym; 1 path(s) -/
def Euler.extractQuat_YXYr {α : Type} [Add α] [Sub α] [Mul α] [Neg α] [OfNat α 0] [OfNat α 1] [OfNat α 2] (sqrt : α → α) (sin : α → α) (cos : α → α) (atan2 : α → α → α) (q : Quat α) : (V3 α) :=
  let t66 := (cos (0 : α))
  let t68 := (sin (0 : α))
  let t72 := (-t68)
  let t306 := (q.v.x * q.v.x)
  let t307 := (q.v.y * q.v.y)
  let t312 := (q.v.x * q.r)
  let t313 := (q.v.y * q.v.z)
  let t315 := ((2 : α) * (t313 - t312))
  let t316 := (q.v.y * q.r)
  let t317 := (q.v.z * q.v.x)
  let t322 := (q.v.z * q.v.z)
  let t325 := ((1 : α) - ((2 : α) * (t322 + t306)))
  let t326 := (q.v.z * q.r)
  let t327 := (q.v.x * q.v.y)
  let t333 := ((2 : α) * (t327 + t326))
  let t5335 := (atan2 t315 t333)
  let t5336 := (-t5335)
  let t5337 := (cos t5336)
  let t5338 := (sin t5336)
  let t5339 := (t66 * t5337)
  let t5340 := (t68 * t5337)
  let t5341 := (-t5338)
  let t5342 := (t66 * t5338)
  let t5344 := ((t72 * t66) + (t5342 * t68))
  let t5345 := (t68 * t5338)
  let t5347 := ((t66 * t66) + (t5345 * t68))
  let t5348 := (t5337 * t68)
  let t5350 := ((t72 * t72) + (t5342 * t66))
  let t5352 := ((t66 * t72) + (t5345 * t66))
  let t5353 := (t5337 * t66)
  let t5354 := ((0 : α) * t5341)
  let t5355 := ((0 : α) * t5340)
  let t5360 := ((0 : α) * t5339)
  let t5364 := (t5360 + t5355)
  let t5367 := ((0 : α) * t5348)
  let t5368 := ((0 : α) * t5347)
  let t5373 := ((0 : α) * t5344)
  let t5377 := (t5373 + t5368)
  let t5380 := ((0 : α) * t5353)
  let t5381 := ((0 : α) * t5352)
  let t5384 := ((((1 : α) * t5350) + t5381) + t5380)
  let t5386 := ((0 : α) * t5350)
  let t5388 := ((t5386 + ((1 : α) * t5352)) + t5380)
  let t5390 := (t5386 + t5381)
  let t5391 := (t5390 + ((1 : α) * t5353))
  let t5405 := ((((((((1 : α) * t5339) + t5355) + t5354) * t333) + (((t5360 + ((1 : α) * t5340)) + t5354) * t325)) + ((t5364 + ((1 : α) * t5341)) * t315)) + ((t5364 + t5354) * (0 : α)))
  let t5445 := ((t5390 + t5380) * (0 : α))
  let t5457 := ((((t5384 * t333) + (t5388 * t325)) + (t5391 * t315)) + t5445)
  ⟨(atan2 ((((t5384 * ((1 : α) - ((2 : α) * (t307 + t322)))) + (t5388 * ((2 : α) * (t327 - t326)))) + (t5391 * ((2 : α) * (t317 + t316)))) + t5445) ((((t5384 * ((2 : α) * (t317 - t316))) + (t5388 * ((2 : α) * (t313 + t312)))) + (t5391 * ((1 : α) - ((2 : α) * (t307 + t306))))) + t5445)), (atan2 (sqrt ((t5457 * t5457) + (t5405 * t5405))) ((((((((1 : α) * t5344) + t5368) + t5367) * t333) + (((t5373 + ((1 : α) * t5347)) + t5367) * t325)) + ((t5377 + ((1 : α) * t5348)) * t315)) + ((t5377 + t5367) * (0 : α)))), t5335⟩

/-- extracted from the C++ template at T = Sym; 1 path(s) -/
def Euler.ctorXYZLayout_YXYr {α : Type} (v : V3 α) : ((V3 α) × Int) :=
  (⟨v.y, v.z, v.x⟩, (4368 : Int))

/-- extracted from the C++ template at T = Sym; 1 path(s) -/
def Euler.ctorXYZLayoutScalars_YXYr {α : Type} (xi : α) (yi : α) (zi : α) : ((V3 α) × Int) :=
  (⟨yi, zi, xi⟩, (4368 : Int))

/-- extracted from the C++ template at T = Sym; 1 path(s) -/
def Euler.ctorIJKLayout_YXYr {α : Type} (v : V3 α) : ((V3 α) × Int) :=
  (⟨v.x, v.y, v.z⟩, (4368 : Int))

/-- extracted from the C++ template at T = Sym; 1 path(s) -/
def Euler.setXYZVector_YXYr {α : Type} (a : V3 α) (v : V3 α) : (V3 α) :=
  ⟨v.y, v.z, v.x⟩

/-- extracted from the C++ template at T = Sym; 1 path(s) -/
def Euler.toXYZVector_YXYr {α : Type} (a : V3 α) : (V3 α) :=
  ⟨a.z, a.x, a.y⟩

/-- extracted from the C++ template at T = Sym; 1 path(s) -/
def Euler.angleOrder_YXYr {α : Type} : (Int × Int × Int) :=
  ((1 : Int), (2 : Int), (0 : Int))

/-- extracted from the C++ template at T = Sym; 1 path(s) -/
def Euler.angleMapping_YXYr {α : Type} : (Int × Int × Int) :=
  ((2 : Int), (0 : Int), (1 : Int))

/-- extracted from the C++ template at T = Sym; 1 path(s) -/
def Euler.order_YXYr {α : Type} : (Int × Bool × Bool × Bool × Bool × Int) :=
  ((4368 : Int), true, false, true, true, (1 : Int))

/-- extracted from the C++ template at T = Sym; 1 path(s) -/
def Euler.setOrderKeepsAngles_YXYr {α : Type} (a : V3 α) : ((V3 α) × Int) :=
  (⟨a.x, a.y, a.z⟩, (4368 : Int))

/-- extracted from the C++ template at T = Sym; 1 path(s) -/
def Euler.copyAndAssign_YXYr {α : Type} (a : V3 α) (v : V3 α) : ((V3 α) × Int × (V3 α) × Int × (V3 α) × Int) :=
  (⟨a.x, a.y, a.z⟩, (4368 : Int), ⟨a.x, a.y, a.z⟩, (4368 : Int), ⟨v.x, v.y, v.z⟩, (4368 : Int))

/-- extracted from the C++ template at T = Sym; 1 path(s) -/
def Euler.reorderFromXYZ_YXYr {α : Type} [Add α] [Sub α] [Mul α] [Neg α] [OfNat α 0] [OfNat α 1] (sqrt : α → α) (sin : α → α) (cos : α → α) (atan2 : α → α → α) (a : V3 α) : ((V3 α) × Int) :=
  let t4 := (cos a.x)
  let t5 := (cos a.y)
  let t6 := (cos a.z)
  let t7 := (sin a.x)
  let t8 := (sin a.y)
  let t9 := (sin a.z)
  let t10 := (t4 * t6)
  let t11 := (t4 * t9)
  let t12 := (t7 * t6)
  let t13 := (t7 * t9)
  let t20 := (t5 * t9)
  let t22 := ((t8 * t13) + t10)
  let t24 := ((t8 * t11) - t12)
  let t66 := (cos (0 : α))
  let t68 := (sin (0 : α))
  let t72 := (-t68)
  let t5477 := (atan2 t24 t20)
  let t5478 := (-t5477)
  let t5479 := (cos t5478)
  let t5480 := (sin t5478)
  let t5481 := (t66 * t5479)
  let t5482 := (t68 * t5479)
  let t5483 := (-t5480)
  let t5484 := (t66 * t5480)
  let t5486 := ((t72 * t66) + (t5484 * t68))
  let t5487 := (t68 * t5480)
  let t5489 := ((t66 * t66) + (t5487 * t68))
  let t5490 := (t5479 * t68)
  let t5492 := ((t72 * t72) + (t5484 * t66))
  let t5494 := ((t66 * t72) + (t5487 * t66))
  let t5495 := (t5479 * t66)
  let t5496 := ((0 : α) * t5483)
  let t5497 := ((0 : α) * t5482)
  let t5502 := ((0 : α) * t5481)
  let t5506 := (t5502 + t5497)
  let t5509 := ((0 : α) * t5490)
  let t5510 := ((0 : α) * t5489)
  let t5515 := ((0 : α) * t5486)
  let t5519 := (t5515 + t5510)
  let t5522 := ((0 : α) * t5495)
  let t5523 := ((0 : α) * t5494)
  let t5526 := ((((1 : α) * t5492) + t5523) + t5522)
  let t5528 := ((0 : α) * t5492)
  let t5530 := ((t5528 + ((1 : α) * t5494)) + t5522)
  let t5532 := (t5528 + t5523)
  let t5533 := (t5532 + ((1 : α) * t5495))
  let t5547 := ((((((((1 : α) * t5481) + t5497) + t5496) * t20) + (((t5502 + ((1 : α) * t5482)) + t5496) * t22)) + ((t5506 + ((1 : α) * t5483)) * t24)) + ((t5506 + t5496) * (0 : α)))
  let t5587 := ((t5532 + t5522) * (0 : α))
  let t5599 := ((((t5526 * t20) + (t5530 * t22)) + (t5533 * t24)) + t5587)
  (⟨(atan2 ((((t5526 * (t5 * t6)) + (t5530 * ((t8 * t12) - t11))) + (t5533 * ((t8 * t10) + t13))) + t5587) ((((t5526 * (-t8)) + (t5530 * (t5 * t7))) + (t5533 * (t5 * t4))) + t5587)), (atan2 (sqrt ((t5599 * t5599) + (t5547 * t5547))) ((((((((1 : α) * t5486) + t5510) + t5509) * t20) + (((t5515 + ((1 : α) * t5489)) + t5509) * t22)) + ((t5519 + ((1 : α) * t5490)) * t24)) + ((t5519 + t5509) * (0 : α)))), t5477⟩, (4368 : Int))

/-- extracted from the C++ template at T = Sym; 1 path(s) -/
def Euler.reorderToZYXr_YXYr {α : Type} [Add α] [Sub α] [Mul α] [Neg α] [OfNat α 0] [OfNat α 1] (sqrt : α → α) (sin : α → α) (cos : α → α) (atan2 : α → α → α) (a : V3 α) : ((V3 α) × Int) :=
  let t4 := (cos a.x)
  let t5 := (cos a.y)
  let t6 := (cos a.z)
  let t7 := (sin a.x)
  let t8 := (sin a.y)
  let t9 := (sin a.z)
  let t66 := (cos (0 : α))
  let t68 := (sin (0 : α))
  let t70 := (t66 * t66)
  let t71 := (t68 * t66)
  let t72 := (-t68)
  let t89 := ((0 : α) * t72)
  let t90 := ((0 : α) * t71)
  let t93 := ((((1 : α) * t70) + t90) + t89)
  let t95 := ((0 : α) * t70)
  let t97 := ((t95 + ((1 : α) * t71)) + t89)
  let t99 := (t95 + t90)
  let t100 := (t99 + ((1 : α) * t72))
  let t128 := ((t99 + t89) * (0 : α))
  let t4044 := (t8 * t7)
  let t4047 := (-t5)
  let t7087 := (t6 * t4)
  let t7088 := (t6 * t7)
  let t7089 := (t9 * t4)
  let t7090 := (t9 * t7)
  let t7737 := (t8 * t6)
  let t7739 := ((t4047 * t7090) + t7087)
  let t7746 := ((t5 * t7087) - t7090)
  let t8086 := ((((t93 * t7746) + (t97 * ((-t8) * t4))) + (t100 * ((t5 * t7089) + t7088))) + t128)
  let t8090 := ((((t93 * t7737) + (t97 * t5)) + (t100 * (t8 * t9))) + t128)
  (⟨(atan2 t7737 t7746), (atan2 (-((((t93 * ((t4047 * t7088) - t7089)) + (t97 * t4044)) + (t100 * t7739)) + t128)) (sqrt ((t8086 * t8086) + (t8090 * t8090)))), (atan2 t4044 t7739)⟩, (256 : Int))

/-- extracted from the C++ template at T = Sym; 1 path(s) -/
def Euler.toMatrix33_YZYr {α : Type} [Add α] [Sub α] [Mul α] [Neg α] [OfNat α 1] (sin : α → α) (cos : α → α) (a : V3 α) : (M33 α) :=
  let t622 := (a.x * (-(1 : α)))
  let t623 := (a.y * (-(1 : α)))
  let t624 := (a.z * (-(1 : α)))
  let t625 := (cos t622)
  let t626 := (cos t623)
  let t627 := (cos t624)
  let t628 := (sin t622)
  let t629 := (sin t623)
  let t630 := (sin t624)
  let t3540 := (-t626)
  let t6929 := (t627 * t625)
  let t6930 := (t627 * t628)
  let t6931 := (t630 * t625)
  let t6932 := (t630 * t628)
  ⟨((t3540 * t6932) + t6929), (t629 * t630), ((t626 * t6931) + t6930), (t629 * t628), t626, ((-t629) * t625), ((t3540 * t6930) - t6931), (t629 * t627), ((t626 * t6929) - t6932)⟩

/-- extracted from the C++ template at T = Sym; 1 path(s) -/
def Euler.toMatrix44_YZYr {α : Type} [Add α] [Sub α] [Mul α] [Neg α] [OfNat α 0] [OfNat α 1] (sin : α → α) (cos : α → α) (a : V3 α) : (M44 α) :=
  let t622 := (a.x * (-(1 : α)))
  let t623 := (a.y * (-(1 : α)))
  let t624 := (a.z * (-(1 : α)))
  let t625 := (cos t622)
  let t626 := (cos t623)
  let t627 := (cos t624)
  let t628 := (sin t622)
  let t629 := (sin t623)
  let t630 := (sin t624)
  let t3540 := (-t626)
  let t6929 := (t627 * t625)
  let t6930 := (t627 * t628)
  let t6931 := (t630 * t625)
  let t6932 := (t630 * t628)
  ⟨((t3540 * t6932) + t6929), (t629 * t630), ((t626 * t6931) + t6930), (0 : α), (t629 * t628), t626, ((-t629) * t625), (0 : α), ((t3540 * t6930) - t6931), (t629 * t627), ((t626 * t6929) - t6932), (0 : α), (0 : α), (0 : α), (0 : α), (1 : α)⟩

/-- extracted from the C++ template at T = Sym; 1 path(s) -/
def Euler.toQuat_YZYr {α : Type} [Add α] [Sub α] [Mul α] [Div α] [Neg α] [OfNat α 1] [OfNat α 2] (sin : α → α) (cos : α → α) (a : V3 α) : (Quat α) :=
  let t29 := (a.x * ((1 : α) / (2 : α)))
  let t31 := (a.z * ((1 : α) / (2 : α)))
  let t32 := (cos t29)
  let t34 := (cos t31)
  let t35 := (sin t29)
  let t37 := (sin t31)
  let t649 := ((-a.y) * ((1 : α) / (2 : α)))
  let t650 := (cos t649)
  let t651 := (sin t649)
  let t6941 := (t34 * t32)
  let t6942 := (t34 * t35)
  let t6943 := (t37 * t32)
  let t6944 := (t37 * t35)
  ⟨(t650 * (t6941 - t6944)), ⟨((t651 * (t6941 + t6944)) * (-(1 : α))), (t650 * (t6942 + t6943)), (t651 * (t6942 - t6943))⟩⟩

/-- extracted from the C++ template at T = Sym; 1 path(s) -/
def Euler.extractM33_YZYr {α : Type} [Add α] [Mul α] [Neg α] [OfNat α 0] [OfNat α 1] (sqrt : α → α) (sin : α → α) (cos : α → α) (atan2 : α → α → α) (m : M33 α) : (V3 α) :=
  let t66 := (cos (0 : α))
  let t68 := (sin (0 : α))
  let t72 := (-t68)
  let t4539 := (atan2 m.x01 m.x21)
  let t4540 := (cos t4539)
  let t4541 := (sin t4539)
  let t4542 := (t66 * t4540)
  let t4543 := (t68 * t4540)
  let t4544 := (-t4541)
  let t4545 := (t66 * t4541)
  let t4547 := ((t72 * t66) + (t4545 * t68))
  let t4548 := (t68 * t4541)
  let t4550 := ((t66 * t66) + (t4548 * t68))
  let t4551 := (t4540 * t68)
  let t4553 := ((t72 * t72) + (t4545 * t66))
  let t4555 := ((t66 * t72) + (t4548 * t66))
  let t4556 := (t4540 * t66)
  let t4557 := ((0 : α) * t4544)
  let t4558 := ((0 : α) * t4543)
  let t4561 := ((((1 : α) * t4542) + t4558) + t4557)
  let t4563 := ((0 : α) * t4542)
  let t4565 := ((t4563 + ((1 : α) * t4543)) + t4557)
  let t4567 := (t4563 + t4558)
  let t4568 := (t4567 + ((1 : α) * t4544))
  let t4570 := ((0 : α) * t4551)
  let t4571 := ((0 : α) * t4550)
  let t4576 := ((0 : α) * t4547)
  let t4580 := (t4576 + t4571)
  let t4583 := ((0 : α) * t4556)
  let t4584 := ((0 : α) * t4555)
  let t4589 := ((0 : α) * t4553)
  let t4593 := (t4589 + t4584)
  let t4596 := ((t4567 + t4557) * (0 : α))
  let t4608 := ((((t4561 * m.x01) + (t4565 * m.x11)) + (t4568 * m.x21)) + t4596)
  let t4660 := ((((((((1 : α) * t4553) + t4584) + t4583) * m.x01) + (((t4589 + ((1 : α) * t4555)) + t4583) * m.x11)) + ((t4593 + ((1 : α) * t4556)) * m.x21)) + ((t4593 + t4583) * (0 : α)))
  ⟨((atan2 ((((t4561 * m.x02) + (t4565 * m.x12)) + (t4568 * m.x22)) + t4596) ((((t4561 * m.x00) + (t4565 * m.x10)) + (t4568 * m.x20)) + t4596)) * (-(1 : α))), ((atan2 (sqrt ((t4608 * t4608) + (t4660 * t4660))) ((((((((1 : α) * t4547) + t4571) + t4570) * m.x01) + (((t4576 + ((1 : α) * t4550)) + t4570) * m.x11)) + ((t4580 + ((1 : α) * t4551)) * m.x21)) + ((t4580 + t4570) * (0 : α)))) * (-(1 : α))), (t4539 * (-(1 : α)))⟩

/-- extracted from the C++ template at T = Sym; 1 path(s) -/
def Euler.extractM44_YZYr {α : Type} [Add α] [Mul α] [Neg α] [OfNat α 0] [OfNat α 1] (sqrt : α → α) (sin : α → α) (cos : α → α) (atan2 : α → α → α) (m : M44 α) : (V3 α) :=
  let t66 := (cos (0 : α))
  let t68 := (sin (0 : α))
  let t72 := (-t68)
  let t4539 := (atan2 m.x01 m.x21)
  let t4540 := (cos t4539)
  let t4541 := (sin t4539)
  let t4542 := (t66 * t4540)
  let t4543 := (t68 * t4540)
  let t4544 := (-t4541)
  let t4545 := (t66 * t4541)
  let t4547 := ((t72 * t66) + (t4545 * t68))
  let t4548 := (t68 * t4541)
  let t4550 := ((t66 * t66) + (t4548 * t68))
  let t4551 := (t4540 * t68)
  let t4553 := ((t72 * t72) + (t4545 * t66))
  let t4555 := ((t66 * t72) + (t4548 * t66))
  let t4556 := (t4540 * t66)
  let t4557 := ((0 : α) * t4544)
  let t4558 := ((0 : α) * t4543)
  let t4561 := ((((1 : α) * t4542) + t4558) + t4557)
  let t4563 := ((0 : α) * t4542)
  let t4565 := ((t4563 + ((1 : α) * t4543)) + t4557)
  let t4567 := (t4563 + t4558)
  let t4568 := (t4567 + ((1 : α) * t4544))
  let t4569 := (t4567 + t4557)
  let t4570 := ((0 : α) * t4551)
  let t4571 := ((0 : α) * t4550)
  let t4576 := ((0 : α) * t4547)
  let t4580 := (t4576 + t4571)
  let t4583 := ((0 : α) * t4556)
  let t4584 := ((0 : α) * t4555)
  let t4589 := ((0 : α) * t4553)
  let t4593 := (t4589 + t4584)
  let t4686 := ((((t4561 * m.x01) + (t4565 * m.x11)) + (t4568 * m.x21)) + (t4569 * m.x31))
  let t4712 := ((((((((1 : α) * t4553) + t4584) + t4583) * m.x01) + (((t4589 + ((1 : α) * t4555)) + t4583) * m.x11)) + ((t4593 + ((1 : α) * t4556)) * m.x21)) + ((t4593 + t4583) * m.x31))
  ⟨((atan2 ((((t4561 * m.x02) + (t4565 * m.x12)) + (t4568 * m.x22)) + (t4569 * m.x32)) ((((t4561 * m.x00) + (t4565 * m.x10)) + (t4568 * m.x20)) + (t4569 * m.x30))) * (-(1 : α))), ((atan2 (sqrt ((t4686 * t4686) + (t4712 * t4712))) ((((((((1 : α) * t4547) + t4571) + t4570) * m.x01) + (((t4576 + ((1 : α) * t4550)) + t4570) * m.x11)) + ((t4580 + ((1 : α) * t4551)) * m.x21)) + ((t4580 + t4570) * m.x31))) * (-(1 : α))), (t4539 * (-(1 : α)))⟩

/-- extracted from the C++ template at T = Sym; 1 path(s) -/
def Euler.ctorM33_YZYr {α : Type} [Add α] [Mul α] [Neg α] [OfNat α 0] [OfNat α 1] (sqrt : α → α) (sin : α → α) (cos : α → α) (atan2 : α → α → α) (m : M33 α) : ((V3 α) × Int) :=
  let t66 := (cos (0 : α))
  let t68 := (sin (0 : α))
  let t72 := (-t68)
  let t4539 := (atan2 m.x01 m.x21)
  let t4540 := (cos t4539)
  let t4541 := (sin t4539)
  let t4542 := (t66 * t4540)
  let t4543 := (t68 * t4540)
  let t4544 := (-t4541)
  let t4545 := (t66 * t4541)
  let t4547 := ((t72 * t66) + (t4545 * t68))
  let t4548 := (t68 * t4541)
  let t4550 := ((t66 * t66) + (t4548 * t68))
  let t4551 := (t4540 * t68)
  let t4553 := ((t72 * t72) + (t4545 * t66))
  let t4555 := ((t66 * t72) + (t4548 * t66))
  let t4556 := (t4540 * t66)
  let t4557 := ((0 : α) * t4544)
  let t4558 := ((0 : α) * t4543)
  let t4561 := ((((1 : α) * t4542) + t4558) + t4557)
  let t4563 := ((0 : α) * t4542)
  let t4565 := ((t4563 + ((1 : α) * t4543)) + t4557)
  let t4567 := (t4563 + t4558)
  let t4568 := (t4567 + ((1 : α) * t4544))
  let t4570 := ((0 : α) * t4551)
  let t4571 := ((0 : α) * t4550)
  let t4576 := ((0 : α) * t4547)
  let t4580 := (t4576 + t4571)
  let t4583 := ((0 : α) * t4556)
  let t4584 := ((0 : α) * t4555)
  let t4589 := ((0 : α) * t4553)
  let t4593 := (t4589 + t4584)
  let t4596 := ((t4567 + t4557) * (0 : α))
  let t4608 := ((((t4561 * m.x01) + (t4565 * m.x11)) + (t4568 * m.x21)) + t4596)
  let t4660 := ((((((((1 : α) * t4553) + t4584) + t4583) * m.x01) + (((t4589 + ((1 : α) * t4555)) + t4583) * m.x11)) + ((t4593 + ((1 : α) * t4556)) * m.x21)) + ((t4593 + t4583) * (0 : α)))
  (⟨((atan2 ((((t4561 * m.x02) + (t4565 * m.x12)) + (t4568 * m.x22)) + t4596) ((((t4561 * m.x00) + (t4565 * m.x10)) + (t4568 * m.x20)) + t4596)) * (-(1 : α))), ((atan2 (sqrt ((t4608 * t4608) + (t4660 * t4660))) ((((((((1 : α) * t4547) + t4571) + t4570) * m.x01) + (((t4576 + ((1 : α) * t4550)) + t4570) * m.x11)) + ((t4580 + ((1 : α) * t4551)) * m.x21)) + ((t4580 + t4570) * (0 : α)))) * (-(1 : α))), (t4539 * (-(1 : α)))⟩, (4112 : Int))

/-- extracted from the C++ template at T = Sym; 1 path(s) -/
def Euler.ctorM44_YZYr {α : Type} [Add α] [Mul α] [Neg α] [OfNat α 0] [OfNat α 1] (sqrt : α → α) (sin : α → α) (cos : α → α) (atan2 : α → α → α) (m : M44 α) : ((V3 α) × Int) :=
  let t66 := (cos (0 : α))
  let t68 := (sin (0 : α))
  let t72 := (-t68)
  let t4539 := (atan2 m.x01 m.x21)
  let t4540 := (cos t4539)
  let t4541 := (sin t4539)
  let t4542 := (t66 * t4540)
  let t4543 := (t68 * t4540)
  let t4544 := (-t4541)
  let t4545 := (t66 * t4541)
  let t4547 := ((t72 * t66) + (t4545 * t68))
  let t4548 := (t68 * t4541)
  let t4550 := ((t66 * t66) + (t4548 * t68))
  let t4551 := (t4540 * t68)
  let t4553 := ((t72 * t72) + (t4545 * t66))
  let t4555 := ((t66 * t72) + (t4548 * t66))
  let t4556 := (t4540 * t66)
  let t4557 := ((0 : α) * t4544)
  let t4558 := ((0 : α) * t4543)
  let t4561 := ((((1 : α) * t4542) + t4558) + t4557)
  let t4563 := ((0 : α) * t4542)
  let t4565 := ((t4563 + ((1 : α) * t4543)) + t4557)
  let t4567 := (t4563 + t4558)
  let t4568 := (t4567 + ((1 : α) * t4544))
  let t4569 := (t4567 + t4557)
  let t4570 := ((0 : α) * t4551)
  let t4571 := ((0 : α) * t4550)
  let t4576 := ((0 : α) * t4547)
  let t4580 := (t4576 + t4571)
  let t4583 := ((0 : α) * t4556)
  let t4584 := ((0 : α) * t4555)
  let t4589 := ((0 : α) * t4553)
  let t4593 := (t4589 + t4584)
  let t4686 := ((((t4561 * m.x01) + (t4565 * m.x11)) + (t4568 * m.x21)) + (t4569 * m.x31))
  let t4712 := ((((((((1 : α) * t4553) + t4584) + t4583) * m.x01) + (((t4589 + ((1 : α) * t4555)) + t4583) * m.x11)) + ((t4593 + ((1 : α) * t4556)) * m.x21)) + ((t4593 + t4583) * m.x31))
  (⟨((atan2 ((((t4561 * m.x02) + (t4565 * m.x12)) + (t4568 * m.x22)) + (t4569 * m.x32)) ((((t4561 * m.x00) + (t4565 * m.x10)) + (t4568 * m.x20)) + (t4569 * m.x30))) * (-(1 : α))), ((atan2 (sqrt ((t4686 * t4686) + (t4712 * t4712))) ((((((((1 : α) * t4547) + t4571) + t4570) * m.x01) + (((t4576 + ((1 : α) * t4550)) + t4570) * m.x11)) + ((t4580 + ((1 : α) * t4551)) * m.x21)) + ((t4580 + t4570) * m.x31))) * (-(1 : α))), (t4539 * (-(1 : α)))⟩, (4112 : Int))

/-- extracted from the C++ template at T = Sym; 1 path(s) -/
def Euler.extractQuat_YZYr {α : Type} [Add α] [Sub α] [Mul α] [Neg α] [OfNat α 0] [OfNat α 1] [OfNat α 2] (sqrt : α → α) (sin : α → α) (cos : α → α) (atan2 : α → α → α) (q : Quat α) : (V3 α) :=
  let t66 := (cos (0 : α))
  let t68 := (sin (0 : α))
  let t72 := (-t68)
  let t306 := (q.v.x * q.v.x)
  let t307 := (q.v.y * q.v.y)
  let t312 := (q.v.x * q.r)
  let t313 := (q.v.y * q.v.z)
  let t315 := ((2 : α) * (t313 - t312))
  let t316 := (q.v.y * q.r)
  let t317 := (q.v.z * q.v.x)
  let t322 := (q.v.z * q.v.z)
  let t325 := ((1 : α) - ((2 : α) * (t322 + t306)))
  let t326 := (q.v.z * q.r)
  let t327 := (q.v.x * q.v.y)
  let t333 := ((2 : α) * (t327 + t326))
  let t4730 := (atan2 t333 t315)
  let t4731 := (cos t4730)
  let t4732 := (sin t4730)
  let t4733 := (t66 * t4731)
  let t4734 := (t68 * t4731)
  let t4735 := (-t4732)
  let t4736 := (t66 * t4732)
  let t4738 := ((t72 * t66) + (t4736 * t68))
  let t4739 := (t68 * t4732)
  let t4741 := ((t66 * t66) + (t4739 * t68))
  let t4742 := (t4731 * t68)
  let t4744 := ((t72 * t72) + (t4736 * t66))
  let t4746 := ((t66 * t72) + (t4739 * t66))
  let t4747 := (t4731 * t66)
  let t4748 := ((0 : α) * t4735)
  let t4749 := ((0 : α) * t4734)
  let t4752 := ((((1 : α) * t4733) + t4749) + t4748)
  let t4754 := ((0 : α) * t4733)
  let t4756 := ((t4754 + ((1 : α) * t4734)) + t4748)
  let t4758 := (t4754 + t4749)
  let t4759 := (t4758 + ((1 : α) * t4735))
  let t4761 := ((0 : α) * t4742)
  let t4762 := ((0 : α) * t4741)
  let t4767 := ((0 : α) * t4738)
  let t4771 := (t4767 + t4762)
  let t4774 := ((0 : α) * t4747)
  let t4775 := ((0 : α) * t4746)
  let t4780 := ((0 : α) * t4744)
  let t4784 := (t4780 + t4775)
  let t4787 := ((t4758 + t4748) * (0 : α))
  let t4799 := ((((t4752 * t333) + (t4756 * t325)) + (t4759 * t315)) + t4787)
  let t4851 := ((((((((1 : α) * t4744) + t4775) + t4774) * t333) + (((t4780 + ((1 : α) * t4746)) + t4774) * t325)) + ((t4784 + ((1 : α) * t4747)) * t315)) + ((t4784 + t4774) * (0 : α)))
  ⟨((atan2 ((((t4752 * ((2 : α) * (t317 - t316))) + (t4756 * ((2 : α) * (t313 + t312)))) + (t4759 * ((1 : α) - ((2 : α) * (t307 + t306))))) + t4787) ((((t4752 * ((1 : α) - ((2 : α) * (t307 + t322)))) + (t4756 * ((2 : α) * (t327 - t326)))) + (t4759 * ((2 : α) * (t317 + t316)))) + t4787)) * (-(1 : α))), ((atan2 (sqrt ((t4799 * t4799) + (t4851 * t4851))) ((((((((1 : α) * t4738) + t4762) + t4761) * t333) + (((t4767 + ((1 : α) * t4741)) + t4761) * t325)) + ((t4771 + ((1 : α) * t4742)) * t315)) + ((t4771 + t4761) * (0 : α)))) * (-(1 : α))), (t4730 * (-(1 : α)))⟩

/-- extracted from the C++ template at T = Sym; 1 path(s) -/
def Euler.ctorXYZLayout_YZYr {α : Type} (v : V3 α) : ((V3 α) × Int) :=
  (⟨v.y, v.x, v.z⟩, (4112 : Int))

/-- extracted from the C++ template at T = Sym; 1 path(s) -/
def Euler.ctorXYZLayoutScalars_YZYr {α : Type} (xi : α) (yi : α) (zi : α) : ((V3 α) × Int) :=
  (⟨yi, xi, zi⟩, (4112 : Int))

/-- extracted from the C++ template at T = Sym; 1 path(s) -/
def Euler.ctorIJKLayout_YZYr {α : Type} (v : V3 α) : ((V3 α) × Int) :=
  (⟨v.x, v.y, v.z⟩, (4112 : Int))

/-- extracted from the C++ template at T = Sym; 1 path(s) -/
def Euler.setXYZVector_YZYr {α : Type} (a : V3 α) (v : V3 α) : (V3 α) :=
  ⟨v.y, v.x, v.z⟩

/-- extracted from the C++ template at T = Sym; 1 path(s) -/
def Euler.toXYZVector_YZYr {α : Type} (a : V3 α) : (V3 α) :=
  ⟨a.y, a.x, a.z⟩

/-- extracted from the C++ template at T = Sym; 1 path(s) -/
def Euler.angleOrder_YZYr {α : Type} : (Int × Int × Int) :=
  ((1 : Int), (0 : Int), (2 : Int))

/-- extracted from the C++ template at T = Sym; 1 path(s) -/
def Euler.angleMapping_YZYr {α : Type} : (Int × Int × Int) :=
  ((1 : Int), (0 : Int), (2 : Int))

/-- extracted from the C++ template at T = Sym; 1 path(s) -/
def Euler.order_YZYr {α : Type} : (Int × Bool × Bool × Bool × Bool × Int) :=
  ((4112 : Int), true, false, true, false, (1 : Int))

/-- extracted from the C++ template at T = Sym; 1 path(s) -/
def Euler.setOrderKeepsAngles_YZYr {α : Type} (a : V3 α) : ((V3 α) × Int) :=
  (⟨a.x, a.y, a.z⟩, (4112 : Int))

/-- extracted from the C++ template at T = Sym; 1 path(s) -/
def Euler.copyAndAssign_YZYr {α : Type} (a : V3 α) (v : V3 α) : ((V3 α) × Int × (V3 α) × Int × (V3 α) × Int) :=
  (⟨a.x, a.y, a.z⟩, (4112 : Int), ⟨a.x, a.y, a.z⟩, (4112 : Int), ⟨v.x, v.y, v.z⟩, (4112 : Int))

/-- extracted from the C++ template at T = Sym; 1 path(s) -/
def Euler.reorderFromXYZ_YZYr {α : Type} [Add α] [Sub α] [Mul α] [Neg α] [OfNat α 0] [OfNat α 1] (sqrt : α → α) (sin : α → α) (cos : α → α) (atan2 : α → α → α) (a : V3 α) : ((V3 α) × Int) :=
  let t4 := (cos a.x)
  let t5 := (cos a.y)
  let t6 := (cos a.z)
  let t7 := (sin a.x)
  let t8 := (sin a.y)
  let t9 := (sin a.z)
  let t10 := (t4 * t6)
  let t11 := (t4 * t9)
  let t12 := (t7 * t6)
  let t13 := (t7 * t9)
  let t20 := (t5 * t9)
  let t22 := ((t8 * t13) + t10)
  let t24 := ((t8 * t11) - t12)
  let t66 := (cos (0 : α))
  let t68 := (sin (0 : α))
  let t72 := (-t68)
  let t4874 := (atan2 t20 t24)
  let t4875 := (cos t4874)
  let t4876 := (sin t4874)
  let t4877 := (t66 * t4875)
  let t4878 := (t68 * t4875)
  let t4879 := (-t4876)
  let t4880 := (t66 * t4876)
  let t4882 := ((t72 * t66) + (t4880 * t68))
  let t4883 := (t68 * t4876)
  let t4885 := ((t66 * t66) + (t4883 * t68))
  let t4886 := (t4875 * t68)
  let t4888 := ((t72 * t72) + (t4880 * t66))
  let t4890 := ((t66 * t72) + (t4883 * t66))
  let t4891 := (t4875 * t66)
  let t4892 := ((0 : α) * t4879)
  let t4893 := ((0 : α) * t4878)
  let t4896 := ((((1 : α) * t4877) + t4893) + t4892)
  let t4898 := ((0 : α) * t4877)
  let t4900 := ((t4898 + ((1 : α) * t4878)) + t4892)
  let t4902 := (t4898 + t4893)
  let t4903 := (t4902 + ((1 : α) * t4879))
  let t4905 := ((0 : α) * t4886)
  let t4906 := ((0 : α) * t4885)
  let t4911 := ((0 : α) * t4882)
  let t4915 := (t4911 + t4906)
  let t4918 := ((0 : α) * t4891)
  let t4919 := ((0 : α) * t4890)
  let t4924 := ((0 : α) * t4888)
  let t4928 := (t4924 + t4919)
  let t4931 := ((t4902 + t4892) * (0 : α))
  let t4943 := ((((t4896 * t20) + (t4900 * t22)) + (t4903 * t24)) + t4931)
  let t4995 := ((((((((1 : α) * t4888) + t4919) + t4918) * t20) + (((t4924 + ((1 : α) * t4890)) + t4918) * t22)) + ((t4928 + ((1 : α) * t4891)) * t24)) + ((t4928 + t4918) * (0 : α)))
  (⟨((atan2 ((((t4896 * (-t8)) + (t4900 * (t5 * t7))) + (t4903 * (t5 * t4))) + t4931) ((((t4896 * (t5 * t6)) + (t4900 * ((t8 * t12) - t11))) + (t4903 * ((t8 * t10) + t13))) + t4931)) * (-(1 : α))), ((atan2 (sqrt ((t4943 * t4943) + (t4995 * t4995))) ((((((((1 : α) * t4882) + t4906) + t4905) * t20) + (((t4911 + ((1 : α) * t4885)) + t4905) * t22)) + ((t4915 + ((1 : α) * t4886)) * t24)) + ((t4915 + t4905) * (0 : α)))) * (-(1 : α))), (t4874 * (-(1 : α)))⟩, (4112 : Int))

/-- extracted from the C++ template at T = Sym; 1 path(s) -/
def Euler.reorderToZYXr_YZYr {α : Type} [Add α] [Sub α] [Mul α] [Neg α] [OfNat α 0] [OfNat α 1] (sqrt : α → α) (sin : α → α) (cos : α → α) (atan2 : α → α → α) (a : V3 α) : ((V3 α) × Int) :=
  let t66 := (cos (0 : α))
  let t68 := (sin (0 : α))
  let t70 := (t66 * t66)
  let t71 := (t68 * t66)
  let t72 := (-t68)
  let t89 := ((0 : α) * t72)
  let t90 := ((0 : α) * t71)
  let t93 := ((((1 : α) * t70) + t90) + t89)
  let t95 := ((0 : α) * t70)
  let t97 := ((t95 + ((1 : α) * t71)) + t89)
  let t99 := (t95 + t90)
  let t100 := (t99 + ((1 : α) * t72))
  let t128 := ((t99 + t89) * (0 : α))
  let t622 := (a.x * (-(1 : α)))
  let t623 := (a.y * (-(1 : α)))
  let t624 := (a.z * (-(1 : α)))
  let t625 := (cos t622)
  let t626 := (cos t623)
  let t627 := (cos t624)
  let t628 := (sin t622)
  let t629 := (sin t623)
  let t630 := (sin t624)
  let t3539 := (t629 * t630)
  let t3540 := (-t626)
  let t6929 := (t627 * t625)
  let t6930 := (t627 * t628)
  let t6931 := (t630 * t625)
  let t6932 := (t630 * t628)
  let t7891 := ((t3540 * t6932) + t6929)
  let t7894 := ((-t629) * t625)
  let t7898 := ((t626 * t6929) - t6932)
  let t8212 := ((((t93 * t7891) + (t97 * (t629 * t628))) + (t100 * ((t3540 * t6930) - t6931))) + t128)
  let t8216 := ((((t93 * t3539) + (t97 * t626)) + (t100 * (t629 * t627))) + t128)
  (⟨(atan2 t3539 t7891), (atan2 (-((((t93 * ((t626 * t6931) + t6930)) + (t97 * t7894)) + (t100 * t7898)) + t128)) (sqrt ((t8212 * t8212) + (t8216 * t8216)))), (atan2 t7894 t7898)⟩, (256 : Int))

/-- extracted from the C++ template at T = Sym; 1 path(s) -/
def Euler.toMatrix33_ZYZr {α : Type} [Add α] [Sub α] [Mul α] [Neg α] (sin : α → α) (cos : α → α) (a : V3 α) : (M33 α) :=
  let t4 := (cos a.x)
  let t5 := (cos a.y)
  let t6 := (cos a.z)
  let t7 := (sin a.x)
  let t8 := (sin a.y)
  let t9 := (sin a.z)
  let t4047 := (-t5)
  let t7087 := (t6 * t4)
  let t7088 := (t6 * t7)
  let t7089 := (t9 * t4)
  let t7090 := (t9 * t7)
  ⟨t5, (t8 * t7), ((-t8) * t4), (t8 * t9), ((t4047 * t7090) + t7087), ((t5 * t7089) + t7088), (t8 * t6), ((t4047 * t7088) - t7089), ((t5 * t7087) - t7090)⟩

/-- extracted from the C++ template at T = Sym; 1 path(s) -/
def Euler.toMatrix44_ZYZr {α : Type} [Add α] [Sub α] [Mul α] [Neg α] [OfNat α 0] [OfNat α 1] (sin : α → α) (cos : α → α) (a : V3 α) : (M44 α) :=
  let t4 := (cos a.x)
  let t5 := (cos a.y)
  let t6 := (cos a.z)
  let t7 := (sin a.x)
  let t8 := (sin a.y)
  let t9 := (sin a.z)
  let t4047 := (-t5)
  let t7087 := (t6 * t4)
  let t7088 := (t6 * t7)
  let t7089 := (t9 * t4)
  let t7090 := (t9 * t7)
  ⟨t5, (t8 * t7), ((-t8) * t4), (0 : α), (t8 * t9), ((t4047 * t7090) + t7087), ((t5 * t7089) + t7088), (0 : α), (t8 * t6), ((t4047 * t7088) - t7089), ((t5 * t7087) - t7090), (0 : α), (0 : α), (0 : α), (0 : α), (1 : α)⟩

/-- extracted from the C++ template at T = Sym; 1 path(s) -/
def Euler.toQuat_ZYZr {α : Type} [Add α] [Sub α] [Mul α] [Div α] [OfNat α 1] [OfNat α 2] (sin : α → α) (cos : α → α) (a : V3 α) : (Quat α) :=
  let t29 := (a.x * ((1 : α) / (2 : α)))
  let t30 := (a.y * ((1 : α) / (2 : α)))
  let t31 := (a.z * ((1 : α) / (2 : α)))
  let t32 := (cos t29)
  let t33 := (cos t30)
  let t34 := (cos t31)
  let t35 := (sin t29)
  let t36 := (sin t30)
  let t37 := (sin t31)
  let t6941 := (t34 * t32)
  let t6942 := (t34 * t35)
  let t6943 := (t37 * t32)
  let t6944 := (t37 * t35)
  ⟨(t33 * (t6941 - t6944)), ⟨(t33 * (t6942 + t6943)), ((t36 * (t6941 + t6944)) * (1 : α)), (t36 * (t6942 - t6943))⟩⟩

/-- extracted from the C++ template at T = Sym; 1 path(s) -/
def Euler.extractM33_ZYZr {α : Type} [Add α] [Mul α] [Neg α] [OfNat α 0] [OfNat α 1] (sqrt : α → α) (sin : α → α) (cos : α → α) (atan2 : α → α → α) (m : M33 α) : (V3 α) :=
  let t66 := (cos (0 : α))
  let t68 := (sin (0 : α))
  let t70 := (t66 * t66)
  let t71 := (t68 * t66)
  let t72 := (-t68)
  let t73 := (t66 * t68)
  let t77 := (t68 * t68)
  let t89 := ((0 : α) * t72)
  let t90 := ((0 : α) * t71)
  let t95 := ((0 : α) * t70)
  let t99 := (t95 + t90)
  let t4062 := (atan2 m.x10 m.x20)
  let t4063 := (-t4062)
  let t4064 := (cos t4063)
  let t4065 := (sin t4063)
  let t4068 := ((t72 * t4064) + (t73 * t4065))
  let t4070 := (t66 * t4064)
  let t4071 := (t4070 + (t77 * t4065))
  let t4072 := (t66 * t4065)
  let t4074 := (-t4065)
  let t4076 := ((t72 * t4074) + (t73 * t4064))
  let t4079 := ((t66 * t4074) + (t77 * t4064))
  let t4080 := ((0 : α) * t4072)
  let t4081 := ((0 : α) * t4071)
  let t4084 := ((((1 : α) * t4068) + t4081) + t4080)
  let t4086 := ((0 : α) * t4068)
  let t4088 := ((t4086 + ((1 : α) * t4071)) + t4080)
  let t4090 := (t4086 + t4081)
  let t4091 := (t4090 + ((1 : α) * t4072))
  let t4093 := ((0 : α) * t4070)
  let t4094 := ((0 : α) * t4079)
  let t4099 := ((0 : α) * t4076)
  let t4103 := (t4099 + t4094)
  let t4106 := ((t4090 + t4080) * (0 : α))
  let t4112 := ((((t4084 * m.x00) + (t4088 * m.x10)) + (t4091 * m.x20)) + t4106)
  let t4138 := ((((((((1 : α) * t4076) + t4094) + t4093) * m.x00) + (((t4099 + ((1 : α) * t4079)) + t4093) * m.x10)) + ((t4103 + ((1 : α) * t4070)) * m.x20)) + ((t4103 + t4093) * (0 : α)))
  ⟨(atan2 ((((t4084 * m.x02) + (t4088 * m.x12)) + (t4091 * m.x22)) + t4106) ((((t4084 * m.x01) + (t4088 * m.x11)) + (t4091 * m.x21)) + t4106)), (atan2 (sqrt ((t4112 * t4112) + (t4138 * t4138))) ((((((((1 : α) * t70) + t90) + t89) * m.x00) + (((t95 + ((1 : α) * t71)) + t89) * m.x10)) + ((t99 + ((1 : α) * t72)) * m.x20)) + ((t99 + t89) * (0 : α)))), t4062⟩

/-- extracted from the C++ template at T = Sym; 1 path(s) -/
def Euler.extractM44_ZYZr {α : Type} [Add α] [Mul α] [Neg α] [OfNat α 0] [OfNat α 1] (sqrt : α → α) (sin : α → α) (cos : α → α) (atan2 : α → α → α) (m : M44 α) : (V3 α) :=
  let t66 := (cos (0 : α))
  let t68 := (sin (0 : α))
  let t70 := (t66 * t66)
  let t71 := (t68 * t66)
  let t72 := (-t68)
  let t73 := (t66 * t68)
  let t77 := (t68 * t68)
  let t89 := ((0 : α) * t72)
  let t90 := ((0 : α) * t71)
  let t95 := ((0 : α) * t70)
  let t99 := (t95 + t90)
  let t4062 := (atan2 m.x10 m.x20)
  let t4063 := (-t4062)
  let t4064 := (cos t4063)
  let t4065 := (sin t4063)
  let t4068 := ((t72 * t4064) + (t73 * t4065))
  let t4070 := (t66 * t4064)
  let t4071 := (t4070 + (t77 * t4065))
  let t4072 := (t66 * t4065)
  let t4074 := (-t4065)
  let t4076 := ((t72 * t4074) + (t73 * t4064))
  let t4079 := ((t66 * t4074) + (t77 * t4064))
  let t4080 := ((0 : α) * t4072)
  let t4081 := ((0 : α) * t4071)
  let t4084 := ((((1 : α) * t4068) + t4081) + t4080)
  let t4086 := ((0 : α) * t4068)
  let t4088 := ((t4086 + ((1 : α) * t4071)) + t4080)
  let t4090 := (t4086 + t4081)
  let t4091 := (t4090 + ((1 : α) * t4072))
  let t4092 := (t4090 + t4080)
  let t4093 := ((0 : α) * t4070)
  let t4094 := ((0 : α) * t4079)
  let t4099 := ((0 : α) * t4076)
  let t4103 := (t4099 + t4094)
  let t4165 := ((((t4084 * m.x00) + (t4088 * m.x10)) + (t4091 * m.x20)) + (t4092 * m.x30))
  let t4178 := ((((((((1 : α) * t4076) + t4094) + t4093) * m.x00) + (((t4099 + ((1 : α) * t4079)) + t4093) * m.x10)) + ((t4103 + ((1 : α) * t4070)) * m.x20)) + ((t4103 + t4093) * m.x30))
  ⟨(atan2 ((((t4084 * m.x02) + (t4088 * m.x12)) + (t4091 * m.x22)) + (t4092 * m.x32)) ((((t4084 * m.x01) + (t4088 * m.x11)) + (t4091 * m.x21)) + (t4092 * m.x31))), (atan2 (sqrt ((t4165 * t4165) + (t4178 * t4178))) ((((((((1 : α) * t70) + t90) + t89) * m.x00) + (((t95 + ((1 : α) * t71)) + t89) * m.x10)) + ((t99 + ((1 : α) * t72)) * m.x20)) + ((t99 + t89) * m.x30))), t4062⟩

/-- extracted from the C++ template at T = Sym; 1 path(s) -/
def Euler.ctorM33_ZYZr {α : Type} [Add α] [Mul α] [Neg α] [OfNat α 0] [OfNat α 1] (sqrt : α → α) (sin : α → α) (cos : α → α) (atan2 : α → α → α) (m : M33 α) : ((V3 α) × Int) :=
  let t66 := (cos (0 : α))
  let t68 := (sin (0 : α))
  let t70 := (t66 * t66)
  let t71 := (t68 * t66)
  let t72 := (-t68)
  let t73 := (t66 * t68)
  let t77 := (t68 * t68)
  let t89 := ((0 : α) * t72)
  let t90 := ((0 : α) * t71)
  let t95 := ((0 : α) * t70)
  let t99 := (t95 + t90)
  let t4062 := (atan2 m.x10 m.x20)
  let t4063 := (-t4062)
  let t4064 := (cos t4063)
  let t4065 := (sin t4063)
  let t4068 := ((t72 * t4064) + (t73 * t4065))
  let t4070 := (t66 * t4064)
  let t4071 := (t4070 + (t77 * t4065))
  let t4072 := (t66 * t4065)
  let t4074 := (-t4065)
  let t4076 := ((t72 * t4074) + (t73 * t4064))
  let t4079 := ((t66 * t4074) + (t77 * t4064))
  let t4080 := ((0 : α) * t4072)
  let t4081 := ((0 : α) * t4071)
  let t4084 := ((((1 : α) * t4068) + t4081) + t4080)
  let t4086 := ((0 : α) * t4068)
  let t4088 := ((t4086 + ((1 : α) * t4071)) + t4080)
  let t4090 := (t4086 + t4081)
  let t4091 := (t4090 + ((1 : α) * t4072))
  let t4093 := ((0 : α) * t4070)
  let t4094 := ((0 : α) * t4079)
  let t4099 := ((0 : α) * t4076)
  let t4103 := (t4099 + t4094)
  let t4106 := ((t4090 + t4080) * (0 : α))
  let t4112 := ((((t4084 * m.x00) + (t4088 * m.x10)) + (t4091 * m.x20)) + t4106)
  let t4138 := ((((((((1 : α) * t4076) + t4094) + t4093) * m.x00) + (((t4099 + ((1 : α) * t4079)) + t4093) * m.x10)) + ((t4103 + ((1 : α) * t4070)) * m.x20)) + ((t4103 + t4093) * (0 : α)))
  (⟨(atan2 ((((t4084 * m.x02) + (t4088 * m.x12)) + (t4091 * m.x22)) + t4106) ((((t4084 * m.x01) + (t4088 * m.x11)) + (t4091 * m.x21)) + t4106)), (atan2 (sqrt ((t4112 * t4112) + (t4138 * t4138))) ((((((((1 : α) * t70) + t90) + t89) * m.x00) + (((t95 + ((1 : α) * t71)) + t89) * m.x10)) + ((t99 + ((1 : α) * t72)) * m.x20)) + ((t99 + t89) * (0 : α)))), t4062⟩, (272 : Int))

/-- extracted from the C++ template at T = Sym; 1 path(s) -/
def Euler.ctorM44_ZYZr {α : Type} [Add α] [Mul α] [Neg α] [OfNat α 0] [OfNat α 1] (sqrt : α → α) (sin : α → α) (cos : α → α) (atan2 : α → α → α) (m : M44 α) : ((V3 α) × Int) :=
  let t66 := (cos (0 : α))
  let t68 := (sin (0 : α))
  let t70 := (t66 * t66)
  let t71 := (t68 * t66)
  let t72 := (-t68)
  let t73 := (t66 * t68)
  let t77 := (t68 * t68)
  let t89 := ((0 : α) * t72)
  let t90 := ((0 : α) * t71)
  let t95 := ((0 : α) * t70)
  let t99 := (t95 + t90)
  let t4062 := (atan2 m.x10 m.x20)
  let t4063 := (-t4062)
  let t4064 := (cos t4063)
  let t4065 := (sin t4063)
  let t4068 := ((t72 * t4064) + (t73 * t4065))
  let t4070 := (t66 * t4064)
  let t4071 := (t4070 + (t77 * t4065))
  let t4072 := (t66 * t4065)
  let t4074 := (-t4065)
  let t4076 := ((t72 * t4074) + (t73 * t4064))
  let t4079 := ((t66 * t4074) + (t77 * t4064))
  let t4080 := ((0 : α) * t4072)
  let t4081 := ((0 : α) * t4071)
  let t4084 := ((((1 : α) * t4068) + t4081) + t4080)
  let t4086 := ((0 : α) * t4068)
  let t4088 := ((t4086 + ((1 : α) * t4071)) + t4080)
  let t4090 := (t4086 + t4081)
  let t4091 := (t4090 + ((1 : α) * t4072))
  let t4092 := (t4090 + t4080)
  let t4093 := ((0 : α) * t4070)
  let t4094 := ((0 : α) * t4079)
  let t4099 := ((0 : α) * t4076)
  let t4103 := (t4099 + t4094)
  let t4165 := ((((t4084 * m.x00) + (t4088 * m.x10)) + (t4091 * m.x20)) + (t4092 * m.x30))
  let t4178 := ((((((((1 : α) * t4076) + t4094) + t4093) * m.x00) + (((t4099 + ((1 : α) * t4079)) + t4093) * m.x10)) + ((t4103 + ((1 : α) * t4070)) * m.x20)) + ((t4103 + t4093) * m.x30))
  (⟨(atan2 ((((t4084 * m.x02) + (t4088 * m.x12)) + (t4091 * m.x22)) + (t4092 * m.x32)) ((((t4084 * m.x01) + (t4088 * m.x11)) + (t4091 * m.x21)) + (t4092 * m.x31))), (atan2 (sqrt ((t4165 * t4165) + (t4178 * t4178))) ((((((((1 : α) * t70) + t90) + t89) * m.x00) + (((t95 + ((1 : α) * t71)) + t89) * m.x10)) + ((t99 + ((1 : α) * t72)) * m.x20)) + ((t99 + t89) * m.x30))), t4062⟩, (272 : Int))

/-- extracted from the C++ template at T = Sym; 1 path(s) -/
def Euler.extractQuat_ZYZr {α : Type} [Add α] [Sub α] [Mul α] [Neg α] [OfNat α 0] [OfNat α 1] [OfNat α 2] (sqrt : α → α) (sin : α → α) (cos : α → α) (atan2 : α → α → α) (q : Quat α) : (V3 α) :=
  let t66 := (cos (0 : α))
  let t68 := (sin (0 : α))
  let t70 := (t66 * t66)
  let t71 := (t68 * t66)
  let t72 := (-t68)
  let t73 := (t66 * t68)
  let t77 := (t68 * t68)
  let t89 := ((0 : α) * t72)
  let t90 := ((0 : α) * t71)
  let t95 := ((0 : α) * t70)
  let t99 := (t95 + t90)
  let t306 := (q.v.x * q.v.x)
  let t307 := (q.v.y * q.v.y)
  let t312 := (q.v.x * q.r)
  let t313 := (q.v.y * q.v.z)
  let t316 := (q.v.y * q.r)
  let t317 := (q.v.z * q.v.x)
  let t319 := ((2 : α) * (t317 + t316))
  let t322 := (q.v.z * q.v.z)
  let t326 := (q.v.z * q.r)
  let t327 := (q.v.x * q.v.y)
  let t329 := ((2 : α) * (t327 - t326))
  let t336 := ((1 : α) - ((2 : α) * (t307 + t322)))
  let t4196 := (atan2 t329 t319)
  let t4197 := (-t4196)
  let t4198 := (cos t4197)
  let t4199 := (sin t4197)
  let t4202 := ((t72 * t4198) + (t73 * t4199))
  let t4204 := (t66 * t4198)
  let t4205 := (t4204 + (t77 * t4199))
  let t4206 := (t66 * t4199)
  let t4208 := (-t4199)
  let t4210 := ((t72 * t4208) + (t73 * t4198))
  let t4213 := ((t66 * t4208) + (t77 * t4198))
  let t4214 := ((0 : α) * t4206)
  let t4215 := ((0 : α) * t4205)
  let t4218 := ((((1 : α) * t4202) + t4215) + t4214)
  let t4220 := ((0 : α) * t4202)
  let t4222 := ((t4220 + ((1 : α) * t4205)) + t4214)
  let t4224 := (t4220 + t4215)
  let t4225 := (t4224 + ((1 : α) * t4206))
  let t4227 := ((0 : α) * t4204)
  let t4228 := ((0 : α) * t4213)
  let t4233 := ((0 : α) * t4210)
  let t4237 := (t4233 + t4228)
  let t4240 := ((t4224 + t4214) * (0 : α))
  let t4246 := ((((t4218 * t336) + (t4222 * t329)) + (t4225 * t319)) + t4240)
  let t4272 := ((((((((1 : α) * t4210) + t4228) + t4227) * t336) + (((t4233 + ((1 : α) * t4213)) + t4227) * t329)) + ((t4237 + ((1 : α) * t4204)) * t319)) + ((t4237 + t4227) * (0 : α)))
  ⟨(atan2 ((((t4218 * ((2 : α) * (t317 - t316))) + (t4222 * ((2 : α) * (t313 + t312)))) + (t4225 * ((1 : α) - ((2 : α) * (t307 + t306))))) + t4240) ((((t4218 * ((2 : α) * (t327 + t326))) + (t4222 * ((1 : α) - ((2 : α) * (t322 + t306))))) + (t4225 * ((2 : α) * (t313 - t312)))) + t4240)), (atan2 (sqrt ((t4246 * t4246) + (t4272 * t4272))) ((((((((1 : α) * t70) + t90) + t89) * t336) + (((t95 + ((1 : α) * t71)) + t89) * t329)) + ((t99 + ((1 : α) * t72)) * t319)) + ((t99 + t89) * (0 : α)))), t4196⟩

/-- extracted from the C++ template at T = Sym; 1 path(s) -/
def Euler.ctorXYZLayout_ZYZr {α : Type} (v : V3 α) : ((V3 α) × Int) :=
  (⟨v.x, v.y, v.z⟩, (272 : Int))

/-- extracted from the C++ template at T = Sym; 1 path(s) -/
def Euler.ctorXYZLayoutScalars_ZYZr {α : Type} (xi : α) (yi : α) (zi : α) : ((V3 α) × Int) :=
  (⟨xi, yi, zi⟩, (272 : Int))

/-- extracted from the C++ template at T = Sym; 1 path(s) -/
def Euler.ctorIJKLayout_ZYZr {α : Type} (v : V3 α) : ((V3 α) × Int) :=
  (⟨v.x, v.y, v.z⟩, (272 : Int))

/-- extracted from the C++ template at T = Sym; 1 path(s) -/
def Euler.setXYZVector_ZYZr {α : Type} (a : V3 α) (v : V3 α) : (V3 α) :=
  ⟨v.x, v.y, v.z⟩

/-- extracted from the C++ template at T = Sym; 1 path(s) -/
def Euler.toXYZVector_ZYZr {α : Type} (a : V3 α) : (V3 α) :=
  ⟨a.x, a.y, a.z⟩

/-- extracted from the C++ template at T = Sym; 1 path(s) -/
def Euler.angleOrder_ZYZr {α : Type} : (Int × Int × Int) :=
  ((0 : Int), (1 : Int), (2 : Int))

/-- extracted from the C++ template at T = Sym; 1 path(s) -/
def Euler.angleMapping_ZYZr {α : Type} : (Int × Int × Int) :=
  ((0 : Int), (1 : Int), (2 : Int))

/-- extracted from the C++ template at T = Sym; 1 path(s) -/
def Euler.order_ZYZr {α : Type} : (Int × Bool × Bool × Bool × Bool × Int) :=
  ((272 : Int), true, false, true, true, (0 : Int))

/-- extracted from the C++ template at T = Sym; 1 path(s) -/
def Euler.setOrderKeepsAngles_ZYZr {α : Type} (a : V3 α) : ((V3 α) × Int) :=
  (⟨a.x, a.y, a.z⟩, (272 : Int))

/-- extracted from the C++ template at T = Sym; 1 path(s) -/
def Euler.copyAndAssign_ZYZr {α : Type} (a : V3 α) (v : V3 α) : ((V3 α) × Int × (V3 α) × Int × (V3 α) × Int) :=
  (⟨a.x, a.y, a.z⟩, (272 : Int), ⟨a.x, a.y, a.z⟩, (272 : Int), ⟨v.x, v.y, v.z⟩, (272 : Int))

/-- extracted from the C++ template at T = Sym; 1 path(s) -/
def Euler.reorderFromXYZ_ZYZr {α : Type} [Add α] [Sub α] [Mul α] [Neg α] [OfNat α 0] [OfNat α 1] (sqrt : α → α) (sin : α → α) (cos : α → α) (atan2 : α → α → α) (a : V3 α) : ((V3 α) × Int) :=
  let t4 := (cos a.x)
  let t5 := (cos a.y)
  let t6 := (cos a.z)
  let t7 := (sin a.x)
  let t8 := (sin a.y)
  let t9 := (sin a.z)
  let t10 := (t4 * t6)
  let t11 := (t4 * t9)
  let t12 := (t7 * t6)
  let t13 := (t7 * t9)
  let t15 := (t5 * t6)
  let t17 := ((t8 * t12) - t11)
  let t19 := ((t8 * t10) + t13)
  let t66 := (cos (0 : α))
  let t68 := (sin (0 : α))
  let t70 := (t66 * t66)
  let t71 := (t68 * t66)
  let t72 := (-t68)
  let t73 := (t66 * t68)
  let t77 := (t68 * t68)
  let t89 := ((0 : α) * t72)
  let t90 := ((0 : α) * t71)
  let t95 := ((0 : α) * t70)
  let t99 := (t95 + t90)
  let t4298 := (atan2 t17 t19)
  let t4299 := (-t4298)
  let t4300 := (cos t4299)
  let t4301 := (sin t4299)
  let t4304 := ((t72 * t4300) + (t73 * t4301))
  let t4306 := (t66 * t4300)
  let t4307 := (t4306 + (t77 * t4301))
  let t4308 := (t66 * t4301)
  let t4310 := (-t4301)
  let t4312 := ((t72 * t4310) + (t73 * t4300))
  let t4315 := ((t66 * t4310) + (t77 * t4300))
  let t4316 := ((0 : α) * t4308)
  let t4317 := ((0 : α) * t4307)
  let t4320 := ((((1 : α) * t4304) + t4317) + t4316)
  let t4322 := ((0 : α) * t4304)
  let t4324 := ((t4322 + ((1 : α) * t4307)) + t4316)
  let t4326 := (t4322 + t4317)
  let t4327 := (t4326 + ((1 : α) * t4308))
  let t4329 := ((0 : α) * t4306)
  let t4330 := ((0 : α) * t4315)
  let t4335 := ((0 : α) * t4312)
  let t4339 := (t4335 + t4330)
  let t4342 := ((t4326 + t4316) * (0 : α))
  let t4348 := ((((t4320 * t15) + (t4324 * t17)) + (t4327 * t19)) + t4342)
  let t4374 := ((((((((1 : α) * t4312) + t4330) + t4329) * t15) + (((t4335 + ((1 : α) * t4315)) + t4329) * t17)) + ((t4339 + ((1 : α) * t4306)) * t19)) + ((t4339 + t4329) * (0 : α)))
  (⟨(atan2 ((((t4320 * (-t8)) + (t4324 * (t5 * t7))) + (t4327 * (t5 * t4))) + t4342) ((((t4320 * (t5 * t9)) + (t4324 * ((t8 * t13) + t10))) + (t4327 * ((t8 * t11) - t12))) + t4342)), (atan2 (sqrt ((t4348 * t4348) + (t4374 * t4374))) ((((((((1 : α) * t70) + t90) + t89) * t15) + (((t95 + ((1 : α) * t71)) + t89) * t17)) + ((t99 + ((1 : α) * t72)) * t19)) + ((t99 + t89) * (0 : α)))), t4298⟩, (272 : Int))

/-- extracted from the C++ template at T = Sym; 1 path(s) -/
def Euler.reorderToZYXr_ZYZr {α : Type} [Add α] [Sub α] [Mul α] [Neg α] [OfNat α 0] [OfNat α 1] (sqrt : α → α) (sin : α → α) (cos : α → α) (atan2 : α → α → α) (a : V3 α) : ((V3 α) × Int) :=
  let t4 := (cos a.x)
  let t5 := (cos a.y)
  let t6 := (cos a.z)
  let t7 := (sin a.x)
  let t8 := (sin a.y)
  let t9 := (sin a.z)
  let t66 := (cos (0 : α))
  let t68 := (sin (0 : α))
  let t70 := (t66 * t66)
  let t71 := (t68 * t66)
  let t72 := (-t68)
  let t89 := ((0 : α) * t72)
  let t90 := ((0 : α) * t71)
  let t93 := ((((1 : α) * t70) + t90) + t89)
  let t95 := ((0 : α) * t70)
  let t97 := ((t95 + ((1 : α) * t71)) + t89)
  let t99 := (t95 + t90)
  let t100 := (t99 + ((1 : α) * t72))
  let t128 := ((t99 + t89) * (0 : α))
  let t4044 := (t8 * t7)
  let t4047 := (-t5)
  let t7087 := (t6 * t4)
  let t7088 := (t6 * t7)
  let t7089 := (t9 * t4)
  let t7090 := (t9 * t7)
  let t7744 := ((t5 * t7089) + t7088)
  let t7746 := ((t5 * t7087) - t7090)
  let t8338 := ((((t93 * t5) + (t97 * (t8 * t9))) + (t100 * (t8 * t6))) + t128)
  let t8343 := ((((t93 * t4044) + (t97 * ((t4047 * t7090) + t7087))) + (t100 * ((t4047 * t7088) - t7089))) + t128)
  (⟨(atan2 t4044 t5), (atan2 (-((((t93 * ((-t8) * t4)) + (t97 * t7744)) + (t100 * t7746)) + t128)) (sqrt ((t8338 * t8338) + (t8343 * t8343)))), (atan2 t7744 t7746)⟩, (256 : Int))

/-- extracted from the C++ template at T = Sym; 1 path(s) -/
def Euler.toMatrix33_ZXZr {α : Type} [Add α] [Sub α] [Mul α] [Neg α] [OfNat α 1] (sin : α → α) (cos : α → α) (a : V3 α) : (M33 α) :=
  let t622 := (a.x * (-(1 : α)))
  let t623 := (a.y * (-(1 : α)))
  let t624 := (a.z * (-(1 : α)))
  let t625 := (cos t622)
  let t626 := (cos t623)
  let t627 := (cos t624)
  let t628 := (sin t622)
  let t629 := (sin t623)
  let t630 := (sin t624)
  let t3540 := (-t626)
  let t6929 := (t627 * t625)
  let t6930 := (t627 * t628)
  let t6931 := (t630 * t625)
  let t6932 := (t630 * t628)
  ⟨t626, ((-t629) * t625), (t629 * t628), (t629 * t627), ((t626 * t6929) - t6932), ((t3540 * t6930) - t6931), (t629 * t630), ((t626 * t6931) + t6930), ((t3540 * t6932) + t6929)⟩

/-- extracted from the C++ template at T = Sym; 1 path(s) -/
def Euler.toMatrix44_ZXZr {α : Type} [Add α] [Sub α] [Mul α] [Neg α] [OfNat α 0] [OfNat α 1] (sin : α → α) (cos : α → α) (a : V3 α) : (M44 α) :=
  let t622 := (a.x * (-(1 : α)))
  let t623 := (a.y * (-(1 : α)))
  let t624 := (a.z * (-(1 : α)))
  let t625 := (cos t622)
  let t626 := (cos t623)
  let t627 := (cos t624)
  let t628 := (sin t622)
  let t629 := (sin t623)
  let t630 := (sin t624)
  let t3540 := (-t626)
  let t6929 := (t627 * t625)
  let t6930 := (t627 * t628)
  let t6931 := (t630 * t625)
  let t6932 := (t630 * t628)
  ⟨t626, ((-t629) * t625), (t629 * t628), (0 : α), (t629 * t627), ((t626 * t6929) - t6932), ((t3540 * t6930) - t6931), (0 : α), (t629 * t630), ((t626 * t6931) + t6930), ((t3540 * t6932) + t6929), (0 : α), (0 : α), (0 : α), (0 : α), (1 : α)⟩

/-- extracted from the C++ template at T = Sym; 1 path(s) -/
def Euler.toQuat_ZXZr {α : Type} [Add α] [Sub α] [Mul α] [Div α] [Neg α] [OfNat α 1] [OfNat α 2] (sin : α → α) (cos : α → α) (a : V3 α) : (Quat α) :=
  let t29 := (a.x * ((1 : α) / (2 : α)))
  let t31 := (a.z * ((1 : α) / (2 : α)))
  let t32 := (cos t29)
  let t34 := (cos t31)
  let t35 := (sin t29)
  let t37 := (sin t31)
  let t649 := ((-a.y) * ((1 : α) / (2 : α)))
  let t650 := (cos t649)
  let t651 := (sin t649)
  let t6941 := (t34 * t32)
  let t6942 := (t34 * t35)
  let t6943 := (t37 * t32)
  let t6944 := (t37 * t35)
  ⟨(t650 * (t6941 - t6944)), ⟨(t650 * (t6942 + t6943)), (t651 * (t6942 - t6943)), ((t651 * (t6941 + t6944)) * (-(1 : α)))⟩⟩

/-- extracted from the C++ template at T = Sym; 1 path(s) -/
def Euler.extractM33_ZXZr {α : Type} [Add α] [Mul α] [Neg α] [OfNat α 0] [OfNat α 1] (sqrt : α → α) (sin : α → α) (cos : α → α) (atan2 : α → α → α) (m : M33 α) : (V3 α) :=
  let t66 := (cos (0 : α))
  let t68 := (sin (0 : α))
  let t70 := (t66 * t66)
  let t71 := (t68 * t66)
  let t72 := (-t68)
  let t73 := (t66 * t68)
  let t77 := (t68 * t68)
  let t89 := ((0 : α) * t72)
  let t90 := ((0 : α) * t71)
  let t95 := ((0 : α) * t70)
  let t99 := (t95 + t90)
  let t3559 := (atan2 m.x20 m.x10)
  let t3560 := (cos t3559)
  let t3561 := (sin t3559)
  let t3564 := ((t72 * t3560) + (t73 * t3561))
  let t3566 := (t66 * t3560)
  let t3567 := (t3566 + (t77 * t3561))
  let t3568 := (t66 * t3561)
  let t3570 := (-t3561)
  let t3572 := ((t72 * t3570) + (t73 * t3560))
  let t3575 := ((t66 * t3570) + (t77 * t3560))
  let t3576 := ((0 : α) * t3568)
  let t3577 := ((0 : α) * t3567)
  let t3582 := ((0 : α) * t3564)
  let t3586 := (t3582 + t3577)
  let t3589 := ((0 : α) * t3566)
  let t3590 := ((0 : α) * t3575)
  let t3593 := ((((1 : α) * t3572) + t3590) + t3589)
  let t3595 := ((0 : α) * t3572)
  let t3597 := ((t3595 + ((1 : α) * t3575)) + t3589)
  let t3599 := (t3595 + t3590)
  let t3600 := (t3599 + ((1 : α) * t3566))
  let t3608 := ((((((((1 : α) * t3564) + t3577) + t3576) * m.x00) + (((t3582 + ((1 : α) * t3567)) + t3576) * m.x10)) + ((t3586 + ((1 : α) * t3568)) * m.x20)) + ((t3586 + t3576) * (0 : α)))
  let t3628 := ((t3599 + t3589) * (0 : α))
  let t3634 := ((((t3593 * m.x00) + (t3597 * m.x10)) + (t3600 * m.x20)) + t3628)
  ⟨((atan2 ((((t3593 * m.x01) + (t3597 * m.x11)) + (t3600 * m.x21)) + t3628) ((((t3593 * m.x02) + (t3597 * m.x12)) + (t3600 * m.x22)) + t3628)) * (-(1 : α))), ((atan2 (sqrt ((t3634 * t3634) + (t3608 * t3608))) ((((((((1 : α) * t70) + t90) + t89) * m.x00) + (((t95 + ((1 : α) * t71)) + t89) * m.x10)) + ((t99 + ((1 : α) * t72)) * m.x20)) + ((t99 + t89) * (0 : α)))) * (-(1 : α))), (t3559 * (-(1 : α)))⟩

/-- extracted from the C++ template at T = Sym; 1 path(s) -/
def Euler.extractM44_ZXZr {α : Type} [Add α] [Mul α] [Neg α] [OfNat α 0] [OfNat α 1] (sqrt : α → α) (sin : α → α) (cos : α → α) (atan2 : α → α → α) (m : M44 α) : (V3 α) :=
  let t66 := (cos (0 : α))
  let t68 := (sin (0 : α))
  let t70 := (t66 * t66)
  let t71 := (t68 * t66)
  let t72 := (-t68)
  let t73 := (t66 * t68)
  let t77 := (t68 * t68)
  let t89 := ((0 : α) * t72)
  let t90 := ((0 : α) * t71)
  let t95 := ((0 : α) * t70)
  let t99 := (t95 + t90)
  let t3559 := (atan2 m.x20 m.x10)
  let t3560 := (cos t3559)
  let t3561 := (sin t3559)
  let t3564 := ((t72 * t3560) + (t73 * t3561))
  let t3566 := (t66 * t3560)
  let t3567 := (t3566 + (t77 * t3561))
  let t3568 := (t66 * t3561)
  let t3570 := (-t3561)
  let t3572 := ((t72 * t3570) + (t73 * t3560))
  let t3575 := ((t66 * t3570) + (t77 * t3560))
  let t3576 := ((0 : α) * t3568)
  let t3577 := ((0 : α) * t3567)
  let t3582 := ((0 : α) * t3564)
  let t3586 := (t3582 + t3577)
  let t3589 := ((0 : α) * t3566)
  let t3590 := ((0 : α) * t3575)
  let t3593 := ((((1 : α) * t3572) + t3590) + t3589)
  let t3595 := ((0 : α) * t3572)
  let t3597 := ((t3595 + ((1 : α) * t3575)) + t3589)
  let t3599 := (t3595 + t3590)
  let t3600 := (t3599 + ((1 : α) * t3566))
  let t3601 := (t3599 + t3589)
  let t3664 := ((((((((1 : α) * t3564) + t3577) + t3576) * m.x00) + (((t3582 + ((1 : α) * t3567)) + t3576) * m.x10)) + ((t3586 + ((1 : α) * t3568)) * m.x20)) + ((t3586 + t3576) * m.x30))
  let t3677 := ((((t3593 * m.x00) + (t3597 * m.x10)) + (t3600 * m.x20)) + (t3601 * m.x30))
  ⟨((atan2 ((((t3593 * m.x01) + (t3597 * m.x11)) + (t3600 * m.x21)) + (t3601 * m.x31)) ((((t3593 * m.x02) + (t3597 * m.x12)) + (t3600 * m.x22)) + (t3601 * m.x32))) * (-(1 : α))), ((atan2 (sqrt ((t3677 * t3677) + (t3664 * t3664))) ((((((((1 : α) * t70) + t90) + t89) * m.x00) + (((t95 + ((1 : α) * t71)) + t89) * m.x10)) + ((t99 + ((1 : α) * t72)) * m.x20)) + ((t99 + t89) * m.x30))) * (-(1 : α))), (t3559 * (-(1 : α)))⟩

/-- extracted from the C++ template at T = Sym; 1 path(s) -/
def Euler.ctorM33_ZXZr {α : Type} [Add α] [Mul α] [Neg α] [OfNat α 0] [OfNat α 1] (sqrt : α → α) (sin : α → α) (cos : α → α) (atan2 : α → α → α) (m : M33 α) : ((V3 α) × Int) :=
  let t66 := (cos (0 : α))
  let t68 := (sin (0 : α))
  let t70 := (t66 * t66)
  let t71 := (t68 * t66)
  let t72 := (-t68)
  let t73 := (t66 * t68)
  let t77 := (t68 * t68)
  let t89 := ((0 : α) * t72)
  let t90 := ((0 : α) * t71)
  let t95 := ((0 : α) * t70)
  let t99 := (t95 + t90)
  let t3559 := (atan2 m.x20 m.x10)
  let t3560 := (cos t3559)
  let t3561 := (sin t3559)
  let t3564 := ((t72 * t3560) + (t73 * t3561))
  let t3566 := (t66 * t3560)
  let t3567 := (t3566 + (t77 * t3561))
  let t3568 := (t66 * t3561)
  let t3570 := (-t3561)
  let t3572 := ((t72 * t3570) + (t73 * t3560))
  let t3575 := ((t66 * t3570) + (t77 * t3560))
  let t3576 := ((0 : α) * t3568)
  let t3577 := ((0 : α) * t3567)
  let t3582 := ((0 : α) * t3564)
  let t3586 := (t3582 + t3577)
  let t3589 := ((0 : α) * t3566)
  let t3590 := ((0 : α) * t3575)
  let t3593 := ((((1 : α) * t3572) + t3590) + t3589)
  let t3595 := ((0 : α) * t3572)
  let t3597 := ((t3595 + ((1 : α) * t3575)) + t3589)
  let t3599 := (t3595 + t3590)
  let t3600 := (t3599 + ((1 : α) * t3566))
  let t3608 := ((((((((1 : α) * t3564) + t3577) + t3576) * m.x00) + (((t3582 + ((1 : α) * t3567)) + t3576) * m.x10)) + ((t3586 + ((1 : α) * t3568)) * m.x20)) + ((t3586 + t3576) * (0 : α)))
  let t3628 := ((t3599 + t3589) * (0 : α))
  let t3634 := ((((t3593 * m.x00) + (t3597 * m.x10)) + (t3600 * m.x20)) + t3628)
  (⟨((atan2 ((((t3593 * m.x01) + (t3597 * m.x11)) + (t3600 * m.x21)) + t3628) ((((t3593 * m.x02) + (t3597 * m.x12)) + (t3600 * m.x22)) + t3628)) * (-(1 : α))), ((atan2 (sqrt ((t3634 * t3634) + (t3608 * t3608))) ((((((((1 : α) * t70) + t90) + t89) * m.x00) + (((t95 + ((1 : α) * t71)) + t89) * m.x10)) + ((t99 + ((1 : α) * t72)) * m.x20)) + ((t99 + t89) * (0 : α)))) * (-(1 : α))), (t3559 * (-(1 : α)))⟩, (16 : Int))

/-- extracted from the C++ template at T = Sym; 1 path(s) -/
def Euler.ctorM44_ZXZr {α : Type} [Add α] [Mul α] [Neg α] [OfNat α 0] [OfNat α 1] (sqrt : α → α) (sin : α → α) (cos : α → α) (atan2 : α → α → α) (m : M44 α) : ((V3 α) × Int) :=
  let t66 := (cos (0 : α))
  let t68 := (sin (0 : α))
  let t70 := (t66 * t66)
  let t71 := (t68 * t66)
  let t72 := (-t68)
  let t73 := (t66 * t68)
  let t77 := (t68 * t68)
  let t89 := ((0 : α) * t72)
  let t90 := ((0 : α) * t71)
  let t95 := ((0 : α) * t70)
  let t99 := (t95 + t90)
  let t3559 := (atan2 m.x20 m.x10)
  let t3560 := (cos t3559)
  let t3561 := (sin t3559)
  let t3564 := ((t72 * t3560) + (t73 * t3561))
  let t3566 := (t66 * t3560)
  let t3567 := (t3566 + (t77 * t3561))
  let t3568 := (t66 * t3561)
  let t3570 := (-t3561)
  let t3572 := ((t72 * t3570) + (t73 * t3560))
  let t3575 := ((t66 * t3570) + (t77 * t3560))
  let t3576 := ((0 : α) * t3568)
  let t3577 := ((0 : α) * t3567)
  let t3582 := ((0 : α) * t3564)
  let t3586 := (t3582 + t3577)
  let t3589 := ((0 : α) * t3566)
  let t3590 := ((0 : α) * t3575)
  let t3593 := ((((1 : α) * t3572) + t3590) + t3589)
  let t3595 := ((0 : α) * t3572)
  let t3597 := ((t3595 + ((1 : α) * t3575)) + t3589)
  let t3599 := (t3595 + t3590)
  let t3600 := (t3599 + ((1 : α) * t3566))
  let t3601 := (t3599 + t3589)
  let t3664 := ((((((((1 : α) * t3564) + t3577) + t3576) * m.x00) + (((t3582 + ((1 : α) * t3567)) + t3576) * m.x10)) + ((t3586 + ((1 : α) * t3568)) * m.x20)) + ((t3586 + t3576) * m.x30))
  let t3677 := ((((t3593 * m.x00) + (t3597 * m.x10)) + (t3600 * m.x20)) + (t3601 * m.x30))
  (⟨((atan2 ((((t3593 * m.x01) + (t3597 * m.x11)) + (t3600 * m.x21)) + (t3601 * m.x31)) ((((t3593 * m.x02) + (t3597 * m.x12)) + (t3600 * m.x22)) + (t3601 * m.x32))) * (-(1 : α))), ((atan2 (sqrt ((t3677 * t3677) + (t3664 * t3664))) ((((((((1 : α) * t70) + t90) + t89) * m.x00) + (((t95 + ((1 : α) * t71)) + t89) * m.x10)) + ((t99 + ((1 : α) * t72)) * m.x20)) + ((t99 + t89) * m.x30))) * (-(1 : α))), (t3559 * (-(1 : α)))⟩, (16 : Int))

/-- extracted from the C++ template at T = Sym; 1 path(s) -/
def Euler.extractQuat_ZXZr {α : Type} [Add α] [Sub α] [Mul α] [Neg α] [OfNat α 0] [OfNat α 1] [OfNat α 2] (sqrt : α → α) (sin : α → α) (cos : α → α) (atan2 : α → α → α) (q : Quat α) : (V3 α) :=
  let t66 := (cos (0 : α))
  let t68 := (sin (0 : α))
  let t70 := (t66 * t66)
  let t71 := (t68 * t66)
  let t72 := (-t68)
  let t73 := (t66 * t68)
  let t77 := (t68 * t68)
  let t89 := ((0 : α) * t72)
  let t90 := ((0 : α) * t71)
  let t95 := ((0 : α) * t70)
  let t99 := (t95 + t90)
  let t306 := (q.v.x * q.v.x)
  let t307 := (q.v.y * q.v.y)
  let t312 := (q.v.x * q.r)
  let t313 := (q.v.y * q.v.z)
  let t316 := (q.v.y * q.r)
  let t317 := (q.v.z * q.v.x)
  let t319 := ((2 : α) * (t317 + t316))
  let t322 := (q.v.z * q.v.z)
  let t326 := (q.v.z * q.r)
  let t327 := (q.v.x * q.v.y)
  let t329 := ((2 : α) * (t327 - t326))
  let t336 := ((1 : α) - ((2 : α) * (t307 + t322)))
  let t3697 := (atan2 t319 t329)
  let t3698 := (cos t3697)
  let t3699 := (sin t3697)
  let t3702 := ((t72 * t3698) + (t73 * t3699))
  let t3704 := (t66 * t3698)
  let t3705 := (t3704 + (t77 * t3699))
  let t3706 := (t66 * t3699)
  let t3708 := (-t3699)
  let t3710 := ((t72 * t3708) + (t73 * t3698))
  let t3713 := ((t66 * t3708) + (t77 * t3698))
  let t3714 := ((0 : α) * t3706)
  let t3715 := ((0 : α) * t3705)
  let t3720 := ((0 : α) * t3702)
  let t3724 := (t3720 + t3715)
  let t3727 := ((0 : α) * t3704)
  let t3728 := ((0 : α) * t3713)
  let t3731 := ((((1 : α) * t3710) + t3728) + t3727)
  let t3733 := ((0 : α) * t3710)
  let t3735 := ((t3733 + ((1 : α) * t3713)) + t3727)
  let t3737 := (t3733 + t3728)
  let t3738 := (t3737 + ((1 : α) * t3704))
  let t3746 := ((((((((1 : α) * t3702) + t3715) + t3714) * t336) + (((t3720 + ((1 : α) * t3705)) + t3714) * t329)) + ((t3724 + ((1 : α) * t3706)) * t319)) + ((t3724 + t3714) * (0 : α)))
  let t3766 := ((t3737 + t3727) * (0 : α))
  let t3772 := ((((t3731 * t336) + (t3735 * t329)) + (t3738 * t319)) + t3766)
  ⟨((atan2 ((((t3731 * ((2 : α) * (t327 + t326))) + (t3735 * ((1 : α) - ((2 : α) * (t322 + t306))))) + (t3738 * ((2 : α) * (t313 - t312)))) + t3766) ((((t3731 * ((2 : α) * (t317 - t316))) + (t3735 * ((2 : α) * (t313 + t312)))) + (t3738 * ((1 : α) - ((2 : α) * (t307 + t306))))) + t3766)) * (-(1 : α))), ((atan2 (sqrt ((t3772 * t3772) + (t3746 * t3746))) ((((((((1 : α) * t70) + t90) + t89) * t336) + (((t95 + ((1 : α) * t71)) + t89) * t329)) + ((t99 + ((1 : α) * t72)) * t319)) + ((t99 + t89) * (0 : α)))) * (-(1 : α))), (t3697 * (-(1 : α)))⟩

/-- extracted from the C++ template at T = Sym; 1 path(s) -/
def Euler.ctorXYZLayout_ZXZr {α : Type} (v : V3 α) : ((V3 α) × Int) :=
  (⟨v.x, v.z, v.y⟩, (16 : Int))

/-- extracted from the C++ template at T = Sym; 1 path(s) -/
def Euler.ctorXYZLayoutScalars_ZXZr {α : Type} (xi : α) (yi : α) (zi : α) : ((V3 α) × Int) :=
  (⟨xi, zi, yi⟩, (16 : Int))

/-- extracted from the C++ template at T = Sym; 1 path(s) -/
def Euler.ctorIJKLayout_ZXZr {α : Type} (v : V3 α) : ((V3 α) × Int) :=
  (⟨v.x, v.y, v.z⟩, (16 : Int))

/-- extracted from the C++ template at T = Sym; 1 path(s) -/
def Euler.setXYZVector_ZXZr {α : Type} (a : V3 α) (v : V3 α) : (V3 α) :=
  ⟨v.x, v.z, v.y⟩

/-- extracted from the C++ template at T = Sym; 1 path(s) -/
def Euler.toXYZVector_ZXZr {α : Type} (a : V3 α) : (V3 α) :=
  ⟨a.x, a.z, a.y⟩

/-- extracted from the C++ template at T = Sym; 1 path(s) -/
def Euler.angleOrder_ZXZr {α : Type} : (Int × Int × Int) :=
  ((0 : Int), (2 : Int), (1 : Int))

/-- extracted from the C++ template at T = Sym; 1 path(s) -/
def Euler.angleMapping_ZXZr {α : Type} : (Int × Int × Int) :=
  ((0 : Int), (2 : Int), (1 : Int))

/-- extracted from the C++ template at T = Sym; 1 path(s) -/
def Euler.order_ZXZr {α : Type} : (Int × Bool × Bool × Bool × Bool × Int) :=
  ((16 : Int), true, false, true, false, (0 : Int))

/-- extracted from the C++ template at T = Sym; 1 path(s) -/
def Euler.setOrderKeepsAngles_ZXZr {α : Type} (a : V3 α) : ((V3 α) × Int) :=
  (⟨a.x, a.y, a.z⟩, (16 : Int))

/-- extracted from the C++ template at T = Sym; 1 path(s) -/
def Euler.copyAndAssign_ZXZr {α : Type} (a : V3 α) (v : V3 α) : ((V3 α) × Int × (V3 α) × Int × (V3 α) × Int) :=
  (⟨a.x, a.y, a.z⟩, (16 : Int), ⟨a.x, a.y, a.z⟩, (16 : Int), ⟨v.x, v.y, v.z⟩, (16 : Int))

/-- extracted from the C++ template at T = Sym; 1 path(s) -/
def Euler.reorderFromXYZ_ZXZr {α : Type} [Add α] [Sub α] [Mul α] [Neg α] [OfNat α 0] [OfNat α 1] (sqrt : α → α) (sin : α → α) (cos : α → α) (atan2 : α → α → α) (a : V3 α) : ((V3 α) × Int) :=
  let t4 := (cos a.x)
  let t5 := (cos a.y)
  let t6 := (cos a.z)
  let t7 := (sin a.x)
  let t8 := (sin a.y)
  let t9 := (sin a.z)
  let t10 := (t4 * t6)
  let t11 := (t4 * t9)
  let t12 := (t7 * t6)
  let t13 := (t7 * t9)
  let t15 := (t5 * t6)
  let t17 := ((t8 * t12) - t11)
  let t19 := ((t8 * t10) + t13)
  let t66 := (cos (0 : α))
  let t68 := (sin (0 : α))
  let t70 := (t66 * t66)
  let t71 := (t68 * t66)
  let t72 := (-t68)
  let t73 := (t66 * t68)
  let t77 := (t68 * t68)
  let t89 := ((0 : α) * t72)
  let t90 := ((0 : α) * t71)
  let t95 := ((0 : α) * t70)
  let t99 := (t95 + t90)
  let t3801 := (atan2 t19 t17)
  let t3802 := (cos t3801)
  let t3803 := (sin t3801)
  let t3806 := ((t72 * t3802) + (t73 * t3803))
  let t3808 := (t66 * t3802)
  let t3809 := (t3808 + (t77 * t3803))
  let t3810 := (t66 * t3803)
  let t3812 := (-t3803)
  let t3814 := ((t72 * t3812) + (t73 * t3802))
  let t3817 := ((t66 * t3812) + (t77 * t3802))
  let t3818 := ((0 : α) * t3810)
  let t3819 := ((0 : α) * t3809)
  let t3824 := ((0 : α) * t3806)
  let t3828 := (t3824 + t3819)
  let t3831 := ((0 : α) * t3808)
  let t3832 := ((0 : α) * t3817)
  let t3835 := ((((1 : α) * t3814) + t3832) + t3831)
  let t3837 := ((0 : α) * t3814)
  let t3839 := ((t3837 + ((1 : α) * t3817)) + t3831)
  let t3841 := (t3837 + t3832)
  let t3842 := (t3841 + ((1 : α) * t3808))
  let t3850 := ((((((((1 : α) * t3806) + t3819) + t3818) * t15) + (((t3824 + ((1 : α) * t3809)) + t3818) * t17)) + ((t3828 + ((1 : α) * t3810)) * t19)) + ((t3828 + t3818) * (0 : α)))
  let t3870 := ((t3841 + t3831) * (0 : α))
  let t3876 := ((((t3835 * t15) + (t3839 * t17)) + (t3842 * t19)) + t3870)
  (⟨((atan2 ((((t3835 * (t5 * t9)) + (t3839 * ((t8 * t13) + t10))) + (t3842 * ((t8 * t11) - t12))) + t3870) ((((t3835 * (-t8)) + (t3839 * (t5 * t7))) + (t3842 * (t5 * t4))) + t3870)) * (-(1 : α))), ((atan2 (sqrt ((t3876 * t3876) + (t3850 * t3850))) ((((((((1 : α) * t70) + t90) + t89) * t15) + (((t95 + ((1 : α) * t71)) + t89) * t17)) + ((t99 + ((1 : α) * t72)) * t19)) + ((t99 + t89) * (0 : α)))) * (-(1 : α))), (t3801 * (-(1 : α)))⟩, (16 : Int))

/-- extracted from the C++ template at T = Sym; 1 path(s) -/
def Euler.reorderToZYXr_ZXZr {α : Type} [Add α] [Sub α] [Mul α] [Neg α] [OfNat α 0] [OfNat α 1] (sqrt : α → α) (sin : α → α) (cos : α → α) (atan2 : α → α → α) (a : V3 α) : ((V3 α) × Int) :=
  let t66 := (cos (0 : α))
  let t68 := (sin (0 : α))
  let t70 := (t66 * t66)
  let t71 := (t68 * t66)
  let t72 := (-t68)
  let t89 := ((0 : α) * t72)
  let t90 := ((0 : α) * t71)
  let t93 := ((((1 : α) * t70) + t90) + t89)
  let t95 := ((0 : α) * t70)
  let t97 := ((t95 + ((1 : α) * t71)) + t89)
  let t99 := (t95 + t90)
  let t100 := (t99 + ((1 : α) * t72))
  let t128 := ((t99 + t89) * (0 : α))
  let t622 := (a.x * (-(1 : α)))
  let t623 := (a.y * (-(1 : α)))
  let t624 := (a.z * (-(1 : α)))
  let t625 := (cos t622)
  let t626 := (cos t623)
  let t627 := (cos t624)
  let t628 := (sin t622)
  let t629 := (sin t623)
  let t630 := (sin t624)
  let t3540 := (-t626)
  let t6929 := (t627 * t625)
  let t6930 := (t627 * t628)
  let t6931 := (t630 * t625)
  let t6932 := (t630 * t628)
  let t7891 := ((t3540 * t6932) + t6929)
  let t7893 := ((t3540 * t6930) - t6931)
  let t7894 := ((-t629) * t625)
  let t8465 := ((((t93 * t626) + (t97 * (t629 * t627))) + (t100 * (t629 * t630))) + t128)
  let t8471 := ((((t93 * t7894) + (t97 * ((t626 * t6929) - t6932))) + (t100 * ((t626 * t6931) + t6930))) + t128)
  (⟨(atan2 t7894 t626), (atan2 (-((((t93 * (t629 * t628)) + (t97 * t7893)) + (t100 * t7891)) + t128)) (sqrt ((t8465 * t8465) + (t8471 * t8471)))), (atan2 t7893 t7891)⟩, (256 : Int))

end ImathVerif.Gen
