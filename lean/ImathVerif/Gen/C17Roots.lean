-- GENERATED from /repo/src/Imath by harness/sym (T = Sym path extraction); do not edit.
import ImathVerif.Basic.Types
set_option linter.unusedVariables false
namespace ImathVerif.Gen
open ImathVerif

/-- extracted from the C++ template at T = Sym; 3 path(s) -/
def Roots.solveLinear {α : Type} [Div α] [Neg α] [DecidableEq α] [OfNat α 0] (a : α) (b : α) : (Int × α) :=
  if a = (0 : α) then
    if b = (0 : α) then
      ((-1 : Int), (0 : α))
    else
      ((0 : Int), (0 : α))
  else
    ((1 : Int), ((-b) / a))

/-- extracted from the C++ template at T = Sym; 7 path(s) -/
def Roots.solveQuadratic {α : Type} [Add α] [Sub α] [Mul α] [Div α] [Neg α] [LT α] [DecidableLT α] [DecidableEq α] [OfNat α 0] [OfNat α 1] [OfNat α 2] [OfNat α 4] (sqrt : α → α) (a : α) (b : α) (cc : α) : (Int × α × α) :=
  let t49 := ((b * b) - (((4 : α) * a) * cc))
  let t50 := (sqrt t49)
  let t55 := ((-(b + ((1 : α) * t50))) / (2 : α))
  let t62 := ((-(b + ((-(1 : α)) * t50))) / (2 : α))
  if a = (0 : α) then
    if b = (0 : α) then
      if cc = (0 : α) then
        ((-1 : Int), (0 : α), (0 : α))
      else
        ((0 : Int), (0 : α), (0 : α))
    else
      ((1 : Int), ((-cc) / b), (0 : α))
  else
    if (0 : α) < t49 then
      if (0 : α) < b then
        ((2 : Int), (t55 / a), (cc / t55))
      else
        ((2 : Int), (t62 / a), (cc / t62))
    else
      if t49 = (0 : α) then
        ((1 : Int), ((-b) / ((2 : α) * a)), (0 : α))
      else
        ((0 : Int), (0 : α), (0 : α))

/-- extracted from the C++ template at T = Sym; 5 path(s) -/
def Roots.solveNormalizedCubic {α : Type} [Add α] [Sub α] [Mul α] [Div α] [Neg α] [LT α] [DecidableLT α] [DecidableEq α] [OfNat α 0] [OfNat α 1] [OfNat α 2] [OfNat α 3] [OfNat α 27] [OfNat α 2251799813685248] [OfNat α 3900231685776981] (sqrt : α → α) (pow : α → α → α) (copysign : α → α → α) (cpow : α → α → α → α × α) (csqrt : α → α → α × α) (r : α) (s : α) (t : α) : (Int × α × α × α) :=
  let t73 := ((((3 : α) * s) - (r * r)) / (3 : α))
  let t82 := (((((((2 : α) * r) * r) * r) / (27 : α)) - ((r * s) / (3 : α))) + t)
  let t83 := (t73 / (3 : α))
  let t84 := (t82 / (2 : α))
  let t88 := (((t83 * t83) * t83) + (t84 * t84))
  let t90 := ((-r) / (3 : α))
  let t91 := ((1 : α) / (3 : α))
  let t92 := (csqrt t88 (0 : α))
  let t96 := ((-t82) / (2 : α))
  let t98 := (cpow ((t92).1 + t96) (t92).2 t91)
  let t101 := ((t98).1 * (3 : α))
  let t102 := ((t98).2 * (3 : α))
  let t103 := (-t73)
  let t109 := ((t101 * t101) + (t102 * t102))
  let t114 := (((t103 * t101) + ((0 : α) * t102)) / t109)
  let t116 := ((t98).1 + t114)
  let t134 := (r / (3 : α))
  let t135 := (t116 - t134)
  let t136 := ((((-t116) / (2 : α)) + (((((t98).1 - t114) / (2 : α)) * (0 : α)) - ((((t98).2 - ((((0 : α) * t101) - (t103 * t102)) / t109)) / (2 : α)) * ((3900231685776981 : α) / (2251799813685248 : α))))) - t134)
  let t137 := (sqrt t88)
  let t138 := (t96 - t137)
  let t139 := (copysign (1 : α) t138)
  let t142 := (t139 * (pow (t139 * t138) t91))
  let t147 := (t96 + t137)
  let t148 := (copysign (1 : α) t147)
  let t151 := (t148 * (pow (t148 * t147) t91))
  if t88 = (0 : α) then
    if t83 = (0 : α) then
      ((1 : Int), t90, t90, t90)
    else
      ((2 : Int), t135, t136, (0 : α))
  else
    if (0 : α) < t88 then
      if (0 : α) < t82 then
        ((1 : Int), ((t142 + (t103 / ((3 : α) * t142))) - t134), (0 : α), (0 : α))
      else
        ((1 : Int), ((t151 + (t103 / ((3 : α) * t151))) - t134), (0 : α), (0 : α))
    else
      ((3 : Int), t135, t136, t136)

/-- extracted from the C++ template at T = Sym; 12 path(s) -/
def Roots.solveCubic {α : Type} [Add α] [Sub α] [Mul α] [Div α] [Neg α] [LT α] [DecidableLT α] [DecidableEq α] [OfNat α 0] [OfNat α 1] [OfNat α 2] [OfNat α 3] [OfNat α 4] [OfNat α 27] [OfNat α 2251799813685248] [OfNat α 3900231685776981] (sqrt : α → α) (pow : α → α → α) (copysign : α → α → α) (cpow : α → α → α → α × α) (csqrt : α → α → α × α) (a : α) (b : α) (cc : α) (d : α) : (Int × α × α × α) :=
  let t91 := ((1 : α) / (3 : α))
  let t162 := ((cc * cc) - (((4 : α) * b) * d))
  let t163 := (sqrt t162)
  let t167 := ((-(cc + ((1 : α) * t163))) / (2 : α))
  let t173 := ((-(cc + ((-(1 : α)) * t163))) / (2 : α))
  let t179 := (cc / a)
  let t180 := (b / a)
  let t184 := ((((3 : α) * t179) - (t180 * t180)) / (3 : α))
  let t192 := (((((((2 : α) * t180) * t180) * t180) / (27 : α)) - ((t180 * t179) / (3 : α))) + (d / a))
  let t193 := (t184 / (3 : α))
  let t194 := (t192 / (2 : α))
  let t198 := (((t193 * t193) * t193) + (t194 * t194))
  let t200 := ((-t180) / (3 : α))
  let t201 := (csqrt t198 (0 : α))
  let t205 := ((-t192) / (2 : α))
  let t207 := (cpow ((t201).1 + t205) (t201).2 t91)
  let t210 := ((t207).1 * (3 : α))
  let t211 := ((t207).2 * (3 : α))
  let t212 := (-t184)
  let t218 := ((t210 * t210) + (t211 * t211))
  let t223 := (((t212 * t210) + ((0 : α) * t211)) / t218)
  let t224 := ((t207).1 + t223)
  let t242 := (t180 / (3 : α))
  let t243 := (t224 - t242)
  let t244 := ((((-t224) / (2 : α)) + (((((t207).1 - t223) / (2 : α)) * (0 : α)) - ((((t207).2 - ((((0 : α) * t210) - (t212 * t211)) / t218)) / (2 : α)) * ((3900231685776981 : α) / (2251799813685248 : α))))) - t242)
  let t245 := (sqrt t198)
  let t246 := (t205 - t245)
  let t247 := (copysign (1 : α) t246)
  let t250 := (t247 * (pow (t247 * t246) t91))
  let t255 := (t205 + t245)
  let t256 := (copysign (1 : α) t255)
  let t259 := (t256 * (pow (t256 * t255) t91))
  if a = (0 : α) then
    if b = (0 : α) then
      if cc = (0 : α) then
        if d = (0 : α) then
          ((-1 : Int), (0 : α), (0 : α), (0 : α))
        else
          ((0 : Int), (0 : α), (0 : α), (0 : α))
      else
        ((1 : Int), ((-d) / cc), (0 : α), (0 : α))
    else
      if (0 : α) < t162 then
        if (0 : α) < cc then
          ((2 : Int), (t167 / b), (d / t167), (0 : α))
        else
          ((2 : Int), (t173 / b), (d / t173), (0 : α))
      else
        if t162 = (0 : α) then
          ((1 : Int), ((-cc) / ((2 : α) * b)), (0 : α), (0 : α))
        else
          ((0 : Int), (0 : α), (0 : α), (0 : α))
  else
    if t198 = (0 : α) then
      if t193 = (0 : α) then
        ((1 : Int), t200, t200, t200)
      else
        ((2 : Int), t243, t244, (0 : α))
    else
      if (0 : α) < t198 then
        if (0 : α) < t192 then
          ((1 : Int), ((t250 + (t212 / ((3 : α) * t250))) - t242), (0 : α), (0 : α))
        else
          ((1 : Int), ((t259 + (t212 / ((3 : α) * t259))) - t242), (0 : α), (0 : α))
      else
        ((3 : Int), t243, t244, t244)

end ImathVerif.Gen
