-- GENERATED from /repo/src/Imath by harness/sym (T = Sym path extraction); do not edit.
import ImathVerif.Basic.Types
set_option linter.unusedVariables false
namespace ImathVerif.Gen
open ImathVerif

/-- extracted from the C++ template at T = Sym; 3 path(s) -/
def Roots.solveLinear {α : Type} [Div α] [Neg α] [DecidableEq α] [OfNat α 0] (a : α) (b : α) : (Int × α) :=
  if a = (0 : α) then
    if b = (0 : α) then
      ((-1 : Int), (0 : α))
    else
      ((0 : Int), (0 : α))
  else
    ((1 : Int), ((-b) / a))

/-- extracted from the C++ template at T = Sym; 7 path(s) -/
def Roots.solveQuadratic {α : Type} [Add α] [Sub α] [Mul α] [Div α] [Neg α] [LT α] [DecidableLT α] [DecidableEq α] [OfNat α 0] [OfNat α 1] [OfNat α 2] [OfNat α 4] (sqrt : α → α) (a : α) (b : α) (cc : α) : (Int × α × α) :=
  let t49 := ((b * b) - (((4 : α) * a) * cc))
  let t50 := (sqrt t49)
  let t55 := ((-(b + ((1 : α) * t50))) / (2 : α))
  let t62 := ((-(b + ((-(1 : α)) * t50))) / (2 : α))
  if a = (0 : α) then
    if b = (0 : α) then
      if cc = (0 : α) then
        ((-1 : Int), (0 : α), (0 : α))
      else
        ((0 : Int), (0 : α), (0 : α))
    else
      ((1 : Int), ((-cc) / b), (0 : α))
  else
    if (0 : α) < t49 then
      if (0 : α) < b then
        ((2 : Int), (t55 / a), (cc / t55))
      else
        ((2 : Int), (t62 / a), (cc / t62))
    else
      if t49 = (0 : α) then
        ((1 : Int), ((-b) / ((2 : α) * a)), (0 : α))
      else
        ((0 : Int), (0 : α), (0 : α))

/-- extracted from the C++ template at T = Sym; 5 path(s) -/
def Roots.solveNormalizedCubic {α : Type} [Add α] [Sub α] [Mul α] [Div α] [Neg α] [LT α] [DecidableLT α] [DecidableEq α] [OfNat α 0] [OfNat α 1] [OfNat α 2] [OfNat α 3] [OfNat α 27] [OfNat α 2251799813685248] [OfNat α 3900231685776981] (sqrt : α → α) (pow : α → α → α) (copysign : α → α → α) (cpow : α → α → α → α × α) (csqrt : α → α → α × α) (r : α) (s : α) (t : α) : (Int × α × α × α) :=
  let t73 := ((((3 : α) * s) - (r * r)) / (3 : α))
  let t82 := (((((((2 : α) * r) * r) * r) / (27 : α)) - ((r * s) / (3 : α))) + t)
  let t83 := (t73 / (3 : α))
  let t84 := (t82 / (2 : α))
  let t88 := (((t83 * t83) * t83) + (t84 * t84))
  let t90 := ((-r) / (3 : α))
  let t91 := ((1 : α) / (3 : α))
  let t92 := (csqrt t88 (0 : α))
  let t96 := ((-t82) / (2 : α))
  let t98 := (cpow ((t92).1 + t96) (t92).2 t91)
  let t101 := ((t98).1 * (3 : α))
  let t102 := ((t98).2 * (3 : α))
  let t103 := (-t73)
  let t109 := ((t101 * t101) + (t102 * t102))
  let t114 := (((t103 * t101) + ((0 : α) * t102)) / t109)
  let t116 := ((t98).1 + t114)
  let t124 := (((((t98).1 - t114) / (2 : α)) * (0 : α)) - ((((t98).2 - ((((0 : α) * t101) - (t103 * t102)) / t109)) / (2 : α)) * ((3900231685776981 : α) / (2251799813685248 : α))))
  let t130 := ((-t116) / (2 : α))
  let t136 := (r / (3 : α))
  let t137 := (t116 - t136)
  let t138 := ((t130 + t124) - t136)
  let t139 := (sqrt t88)
  let t140 := (t96 - t139)
  let t141 := (copysign (1 : α) t140)
  let t144 := (t141 * (pow (t141 * t140) t91))
  let t149 := (t96 + t139)
  let t150 := (copysign (1 : α) t149)
  let t153 := (t150 * (pow (t150 * t149) t91))
  if t88 = (0 : α) then
    if t83 = (0 : α) then
      ((1 : Int), t90, t90, t90)
    else
      ((2 : Int), t137, t138, (0 : α))
  else
    if (0 : α) < t88 then
      if (0 : α) < t82 then
        ((1 : Int), ((t144 + (t103 / ((3 : α) * t144))) - t136), (0 : α), (0 : α))
      else
        ((1 : Int), ((t153 + (t103 / ((3 : α) * t153))) - t136), (0 : α), (0 : α))
    else
      ((3 : Int), t137, t138, ((t130 - t124) - t136))

/-- extracted from the C++ template at T = Sym; 12 path(s) -/
def Roots.solveCubic {α : Type} [Add α] [Sub α] [Mul α] [Div α] [Neg α] [LT α] [DecidableLT α] [DecidableEq α] [OfNat α 0] [OfNat α 1] [OfNat α 2] [OfNat α 3] [OfNat α 4] [OfNat α 27] [OfNat α 2251799813685248] [OfNat α 3900231685776981] (sqrt : α → α) (pow : α → α → α) (copysign : α → α → α) (cpow : α → α → α → α × α) (csqrt : α → α → α × α) (a : α) (b : α) (cc : α) (d : α) : (Int × α × α × α) :=
  let t91 := ((1 : α) / (3 : α))
  let t165 := ((cc * cc) - (((4 : α) * b) * d))
  let t166 := (sqrt t165)
  let t170 := ((-(cc + ((1 : α) * t166))) / (2 : α))
  let t176 := ((-(cc + ((-(1 : α)) * t166))) / (2 : α))
  let t182 := (cc / a)
  let t183 := (b / a)
  let t187 := ((((3 : α) * t182) - (t183 * t183)) / (3 : α))
  let t195 := (((((((2 : α) * t183) * t183) * t183) / (27 : α)) - ((t183 * t182) / (3 : α))) + (d / a))
  let t196 := (t187 / (3 : α))
  let t197 := (t195 / (2 : α))
  let t201 := (((t196 * t196) * t196) + (t197 * t197))
  let t203 := ((-t183) / (3 : α))
  let t204 := (csqrt t201 (0 : α))
  let t208 := ((-t195) / (2 : α))
  let t210 := (cpow ((t204).1 + t208) (t204).2 t91)
  let t213 := ((t210).1 * (3 : α))
  let t214 := ((t210).2 * (3 : α))
  let t215 := (-t187)
  let t221 := ((t213 * t213) + (t214 * t214))
  let t226 := (((t215 * t213) + ((0 : α) * t214)) / t221)
  let t227 := ((t210).1 + t226)
  let t235 := (((((t210).1 - t226) / (2 : α)) * (0 : α)) - ((((t210).2 - ((((0 : α) * t213) - (t215 * t214)) / t221)) / (2 : α)) * ((3900231685776981 : α) / (2251799813685248 : α))))
  let t241 := ((-t227) / (2 : α))
  let t247 := (t183 / (3 : α))
  let t248 := (t227 - t247)
  let t249 := ((t241 + t235) - t247)
  let t250 := (sqrt t201)
  let t251 := (t208 - t250)
  let t252 := (copysign (1 : α) t251)
  let t255 := (t252 * (pow (t252 * t251) t91))
  let t260 := (t208 + t250)
  let t261 := (copysign (1 : α) t260)
  let t264 := (t261 * (pow (t261 * t260) t91))
  if a = (0 : α) then
    if b = (0 : α) then
      if cc = (0 : α) then
        if d = (0 : α) then
          ((-1 : Int), (0 : α), (0 : α), (0 : α))
        else
          ((0 : Int), (0 : α), (0 : α), (0 : α))
      else
        ((1 : Int), ((-d) / cc), (0 : α), (0 : α))
    else
      if (0 : α) < t165 then
        if (0 : α) < cc then
          ((2 : Int), (t170 / b), (d / t170), (0 : α))
        else
          ((2 : Int), (t176 / b), (d / t176), (0 : α))
      else
        if t165 = (0 : α) then
          ((1 : Int), ((-cc) / ((2 : α) * b)), (0 : α), (0 : α))
        else
          ((0 : Int), (0 : α), (0 : α), (0 : α))
  else
    if t201 = (0 : α) then
      if t196 = (0 : α) then
        ((1 : Int), t203, t203, t203)
      else
        ((2 : Int), t248, t249, (0 : α))
    else
      if (0 : α) < t201 then
        if (0 : α) < t195 then
          ((1 : Int), ((t255 + (t215 / ((3 : α) * t255))) - t247), (0 : α), (0 : α))
        else
          ((1 : Int), ((t264 + (t215 / ((3 : α) * t264))) - t247), (0 : α), (0 : α))
      else
        ((3 : Int), t248, t249, ((t241 - t235) - t247))

end ImathVerif.Gen
