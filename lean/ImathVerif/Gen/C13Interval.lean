-- GENERATED from /repo/src/Imath by harness/sym (T = Sym path extraction); do not edit.
import ImathVerif.Basic.Types
set_option linter.unusedVariables false
namespace ImathVerif.Gen
open ImathVerif

/-- extracted from the C++ template at T = Sym; 1 path(s) -/
def Interval.default {α : Type} (tmax : α) (tlowest : α) : (Interval α) :=
  ⟨tmax, tlowest⟩

/-- extracted from the C++ template at T = Sym; 1 path(s) -/
def Interval.makeEmpty {α : Type} (tmax : α) (tlowest : α) (b : Interval α) : (Interval α) :=
  ⟨tmax, tlowest⟩

/-- extracted from the C++ template at T = Sym; 1 path(s) -/
def Interval.makeInfinite {α : Type} (tmax : α) (tlowest : α) (b : Interval α) : (Interval α) :=
  ⟨tlowest, tmax⟩

/-- extracted from the C++ template at T = Sym; 1 path(s) -/
def Interval.ofPoint {α : Type} (p : α) : (Interval α) :=
  ⟨p, p⟩

/-- extracted from the C++ template at T = Sym; 1 path(s) -/
def Interval.ofMinMax {α : Type} (lo : α) (hi : α) : (Interval α) :=
  ⟨lo, hi⟩

/-- extracted from the C++ template at T = Sym; 4 path(s) -/
def Interval.extendByPoint {α : Type} [LT α] [DecidableLT α] (b : Interval α) (p : α) : (Interval α) :=
  if p < b.min then
    if b.max < p then
      ⟨p, p⟩
    else
      ⟨p, b.max⟩
  else
    if b.max < p then
      ⟨b.min, p⟩
    else
      ⟨b.min, b.max⟩

/-- extracted from the C++ template at T = Sym; 4 path(s) -/
def Interval.extendByBox {α : Type} [LT α] [DecidableLT α] (b : Interval α) (o : Interval α) : (Interval α) :=
  if o.min < b.min then
    if b.max < o.max then
      ⟨o.min, o.max⟩
    else
      ⟨o.min, b.max⟩
  else
    if b.max < o.max then
      ⟨b.min, o.max⟩
    else
      ⟨b.min, b.max⟩

/-- extracted from the C++ template at T = Sym; 3 path(s) -/
def Interval.intersectsPoint {α : Type} [LE α] [DecidableLE α] (b : Interval α) (p : α) : Bool :=
  if b.min ≤ p then
    if p ≤ b.max then
      true
    else
      false
  else
    false

/-- extracted from the C++ template at T = Sym; 5 path(s) -/
def Interval.intersectsBox {α : Type} [LT α] [LE α] [DecidableLT α] [DecidableLE α] (b : Interval α) (o : Interval α) : Bool :=
  if b.max < b.min then
    false
  else
    if o.max < o.min then
      false
    else
      if b.min ≤ o.max then
        if o.min ≤ b.max then
          true
        else
          false
      else
        false

/-- extracted from the C++ template at T = Sym; 2 path(s) -/
def Interval.isEmpty {α : Type} [LT α] [DecidableLT α] (b : Interval α) : Bool :=
  if b.max < b.min then
    true
  else
    false

/-- extracted from the C++ template at T = Sym; 2 path(s) -/
def Interval.hasVolume {α : Type} [LT α] [DecidableLT α] (b : Interval α) : Bool :=
  if b.min < b.max then
    true
  else
    false

/-- extracted from the C++ template at T = Sym; 3 path(s) -/
def Interval.isInfinite {α : Type} [DecidableEq α] (tmax : α) (tlowest : α) (b : Interval α) : Bool :=
  if b.min = tlowest then
    if b.max = tmax then
      true
    else
      false
  else
    false

/-- extracted from the C++ template at T = Sym; 2 path(s) -/
def Interval.size {α : Type} [Sub α] [LT α] [DecidableLT α] [OfNat α 0] (b : Interval α) : α :=
  if b.max < b.min then
    (0 : α)
  else
    (b.max - b.min)

/-- extracted from the C++ template at T = Sym; 1 path(s) -/
def Interval.center {α : Type} [Add α] [Div α] [OfNat α 2] (b : Interval α) : α :=
  ((b.max + b.min) / (2 : α))

/-- extracted from the C++ template at T = Sym; 3 path(s) -/
def Interval.eq {α : Type} [DecidableEq α] (a : Interval α) (b : Interval α) : Bool :=
  if a.min = b.min then
    if a.max = b.max then
      true
    else
      false
  else
    false

/-- extracted from the C++ template at T = Sym; 3 path(s) -/
def Interval.ne {α : Type} [DecidableEq α] (a : Interval α) (b : Interval α) : Bool :=
  if a.min = b.min then
    if a.max = b.max then
      false
    else
      true
  else
    true

end ImathVerif.Gen
