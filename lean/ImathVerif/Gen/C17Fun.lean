-- GENERATED from /repo/src/Imath by harness/sym (T = Sym path extraction); do not edit.
import ImathVerif.Basic.Types
set_option linter.unusedVariables false
namespace ImathVerif.Gen
open ImathVerif

/-- extracted from the C++ template at T = Sym; 2 path(s) -/
def Fun.abs {α : Type} [Neg α] [LT α] [DecidableLT α] [OfNat α 0] (a : α) : α :=
  if (0 : α) < a then
    a
  else
    (-a)

/-- extracted from the C++ template at T = Sym; 3 path(s) -/
def Fun.sign {α : Type} [LT α] [DecidableLT α] [OfNat α 0] (a : α) : Int :=
  if (0 : α) < a then
    (1 : Int)
  else
    if a < (0 : α) then
      (-1 : Int)
    else
      (0 : Int)

/-- extracted from the C++ template at T = Sym; 1 path(s) -/
def Fun.lerp {α : Type} [Add α] [Sub α] [Mul α] [OfNat α 1] (a : α) (b : α) (t : α) : α :=
  ((a * ((1 : α) - t)) + (b * t))

/-- extracted from the C++ template at T = Sym; 2 path(s) -/
def Fun.ulerp {α : Type} [Add α] [Sub α] [Mul α] [LT α] [DecidableLT α] (a : α) (b : α) (t : α) : α :=
  if b < a then
    (a - ((a - b) * t))
  else
    (a + ((b - a) * t))

/-- extracted from the C++ template at T = Sym; 3 path(s) -/
def Fun.lerpfactor {α : Type} [Sub α] [Mul α] [Div α] [Neg α] [LT α] [DecidableLT α] [OfNat α 0] [OfNat α 1] (tmax : α) (m : α) (a : α) (b : α) : α :=
  let t13 := (b - a)
  let t17 := (m - a)
  let t18 := (sabs t13)
  let t19 := (t17 / t13)
  let t21 := (tmax * t18)
  let t22 := (sabs t17)
  if (1 : α) < t18 then
    t19
  else
    if t22 < t21 then
      t19
    else
      (0 : α)

/-- extracted from the C++ template at T = Sym; 3 path(s) -/
def Fun.clamp {α : Type} [LT α] [DecidableLT α] (a : α) (l : α) (h : α) : α :=
  if a < l then
    l
  else
    if h < a then
      h
    else
      a

/-- extracted from the C++ template at T = Sym; 3 path(s) -/
def Fun.cmp {α : Type} [Sub α] [LT α] [DecidableLT α] [OfNat α 0] (a : α) (b : α) : Int :=
  let t10 := (a - b)
  if (0 : α) < t10 then
    (1 : Int)
  else
    if t10 < (0 : α) then
      (-1 : Int)
    else
      (0 : Int)

/-- extracted from the C++ template at T = Sym; 4 path(s) -/
def Fun.cmpt {α : Type} [Sub α] [Neg α] [LT α] [LE α] [DecidableLT α] [DecidableLE α] [OfNat α 0] (a : α) (b : α) (t : α) : Int :=
  let t10 := (a - b)
  let t25 := (sabs t10)
  if t25 ≤ t then
    (0 : Int)
  else
    if (0 : α) < t10 then
      (1 : Int)
    else
      if t10 < (0 : α) then
        (-1 : Int)
      else
        (0 : Int)

/-- extracted from the C++ template at T = Sym; 2 path(s) -/
def Fun.iszero {α : Type} [Neg α] [LT α] [LE α] [DecidableLT α] [DecidableLE α] [OfNat α 0] (a : α) (t : α) : Bool :=
  let t26 := (sabs a)
  if t26 ≤ t then
    true
  else
    false

/-- extracted from the C++ template at T = Sym; 2 path(s) -/
def Fun.equal {α : Type} [Sub α] [Neg α] [LT α] [LE α] [DecidableLT α] [DecidableLE α] [OfNat α 0] (a : α) (b : α) (t : α) : Bool :=
  let t25 := (sabs (a - b))
  if t25 ≤ t then
    true
  else
    false

/-- extracted from the C++ template at T = Sym; 2 path(s) -/
def Fun.sinx_over_x {α : Type} [Mul α] [Div α] [LT α] [DecidableLT α] [OfNat α 1] (teps : α) (sin : α → α) (x : α) : α :=
  let t29 := (x * x)
  if t29 < teps then
    (1 : α)
  else
    ((sin x) / x)

/-- extracted from the C++ template at T = Sym; 4 path(s) -/
def Fun.equalWithAbsError {α : Type} [Sub α] [LT α] [LE α] [DecidableLT α] [DecidableLE α] (x1 : α) (x2 : α) (e : α) : Bool :=
  let t35 := (x1 - x2)
  let t36 := (x2 - x1)
  if x2 < x1 then
    if t35 ≤ e then
      true
    else
      false
  else
    if t36 ≤ e then
      true
    else
      false

/-- extracted from the C++ template at T = Sym; 8 path(s) -/
def Fun.equalWithRelError {α : Type} [Sub α] [Mul α] [Neg α] [LT α] [LE α] [DecidableLT α] [DecidableLE α] [OfNat α 0] (x1 : α) (x2 : α) (e : α) : Bool :=
  let t35 := (x1 - x2)
  let t36 := (x2 - x1)
  let t37 := (e * x1)
  let t39 := (e * (-x1))
  if (0 : α) < x1 then
    if x2 < x1 then
      if t35 ≤ t37 then
        true
      else
        false
    else
      if t36 ≤ t37 then
        true
      else
        false
  else
    if x2 < x1 then
      if t35 ≤ t39 then
        true
      else
        false
    else
      if t36 ≤ t39 then
        true
      else
        false

end ImathVerif.Gen
