-- GENERATED from /repo/src/Imath by harness/sym (T = Sym path extraction); do not edit.
import ImathVerif.Basic.Types
set_option linter.unusedVariables false
namespace ImathVerif.Gen
open ImathVerif

/-- extracted from the C++ template at T = Sym; 6 path(s) -/
def C07.M22.inverse0 {α : Type} [Sub α] [Mul α] [Div α] [Neg α] [LT α] [LE α] [DecidableLT α] [DecidableLE α] [OfNat α 0] [OfNat α 1] (teps : α) (a : M22 α) : (M22 α) :=
  let t35 := (-a.x10)
  let t36 := (-a.x01)
  let t39 := ((a.x00 * a.x11) - (a.x10 * a.x01))
  let t40 := (sabs t39)
  let t41 := (a.x11 / t39)
  let t42 := (t36 / t39)
  let t43 := (t35 / t39)
  let t44 := (a.x00 / t39)
  let t46 := (t40 / teps)
  let t47 := (sabs a.x11)
  let t48 := (sabs t36)
  let t49 := (sabs t35)
  let t50 := (sabs a.x00)
  if (1 : α) ≤ t40 then
    ⟨t41, t42, t43, t44⟩
  else
    if t47 < t46 then
      if t48 < t46 then
        if t49 < t46 then
          if t50 < t46 then
            ⟨t41, t42, t43, t44⟩
          else
            ⟨(1 : α), (0 : α), (0 : α), (1 : α)⟩
        else
          ⟨(1 : α), (0 : α), (0 : α), (1 : α)⟩
      else
        ⟨(1 : α), (0 : α), (0 : α), (1 : α)⟩
    else
      ⟨(1 : α), (0 : α), (0 : α), (1 : α)⟩

/-- extracted from the C++ template at T = Sym; 6 path(s) -/
def C07.M22.inverseF {α : Type} [Sub α] [Mul α] [Div α] [Neg α] [LT α] [LE α] [DecidableLT α] [DecidableLE α] [OfNat α 0] [OfNat α 1] (teps : α) (a : M22 α) : (M22 α) :=
  let t35 := (-a.x10)
  let t36 := (-a.x01)
  let t39 := ((a.x00 * a.x11) - (a.x10 * a.x01))
  let t40 := (sabs t39)
  let t41 := (a.x11 / t39)
  let t42 := (t36 / t39)
  let t43 := (t35 / t39)
  let t44 := (a.x00 / t39)
  let t46 := (t40 / teps)
  let t47 := (sabs a.x11)
  let t48 := (sabs t36)
  let t49 := (sabs t35)
  let t50 := (sabs a.x00)
  if (1 : α) ≤ t40 then
    ⟨t41, t42, t43, t44⟩
  else
    if t47 < t46 then
      if t48 < t46 then
        if t49 < t46 then
          if t50 < t46 then
            ⟨t41, t42, t43, t44⟩
          else
            ⟨(1 : α), (0 : α), (0 : α), (1 : α)⟩
        else
          ⟨(1 : α), (0 : α), (0 : α), (1 : α)⟩
      else
        ⟨(1 : α), (0 : α), (0 : α), (1 : α)⟩
    else
      ⟨(1 : α), (0 : α), (0 : α), (1 : α)⟩

/-- extracted from the C++ template at T = Sym; 6 path(s) -/
def C07.M22.inverseT {α : Type} [Sub α] [Mul α] [Div α] [Neg α] [LT α] [LE α] [DecidableLT α] [DecidableLE α] [OfNat α 0] [OfNat α 1] (teps : α) (a : M22 α) : Except Exc (M22 α) :=
  let t35 := (-a.x10)
  let t36 := (-a.x01)
  let t39 := ((a.x00 * a.x11) - (a.x10 * a.x01))
  let t40 := (sabs t39)
  let t41 := (a.x11 / t39)
  let t42 := (t36 / t39)
  let t43 := (t35 / t39)
  let t44 := (a.x00 / t39)
  let t46 := (t40 / teps)
  let t47 := (sabs a.x11)
  let t48 := (sabs t36)
  let t49 := (sabs t35)
  let t50 := (sabs a.x00)
  if (1 : α) ≤ t40 then
    .ok (⟨t41, t42, t43, t44⟩)
  else
    if t47 < t46 then
      if t48 < t46 then
        if t49 < t46 then
          if t50 < t46 then
            .ok (⟨t41, t42, t43, t44⟩)
          else
            .error Exc.invalidArgument
        else
          .error Exc.invalidArgument
      else
        .error Exc.invalidArgument
    else
      .error Exc.invalidArgument

/-- extracted from the C++ template at T = Sym; 6 path(s) -/
def C07.M22.invert0 {α : Type} [Sub α] [Mul α] [Div α] [Neg α] [LT α] [LE α] [DecidableLT α] [DecidableLE α] [OfNat α 0] [OfNat α 1] (teps : α) (a : M22 α) : (M22 α) :=
  let t35 := (-a.x10)
  let t36 := (-a.x01)
  let t39 := ((a.x00 * a.x11) - (a.x10 * a.x01))
  let t40 := (sabs t39)
  let t41 := (a.x11 / t39)
  let t42 := (t36 / t39)
  let t43 := (t35 / t39)
  let t44 := (a.x00 / t39)
  let t46 := (t40 / teps)
  let t47 := (sabs a.x11)
  let t48 := (sabs t36)
  let t49 := (sabs t35)
  let t50 := (sabs a.x00)
  if (1 : α) ≤ t40 then
    ⟨t41, t42, t43, t44⟩
  else
    if t47 < t46 then
      if t48 < t46 then
        if t49 < t46 then
          if t50 < t46 then
            ⟨t41, t42, t43, t44⟩
          else
            ⟨(1 : α), (0 : α), (0 : α), (1 : α)⟩
        else
          ⟨(1 : α), (0 : α), (0 : α), (1 : α)⟩
      else
        ⟨(1 : α), (0 : α), (0 : α), (1 : α)⟩
    else
      ⟨(1 : α), (0 : α), (0 : α), (1 : α)⟩

/-- extracted from the C++ template at T = Sym; 6 path(s) -/
def C07.M22.invertF {α : Type} [Sub α] [Mul α] [Div α] [Neg α] [LT α] [LE α] [DecidableLT α] [DecidableLE α] [OfNat α 0] [OfNat α 1] (teps : α) (a : M22 α) : (M22 α) :=
  let t35 := (-a.x10)
  let t36 := (-a.x01)
  let t39 := ((a.x00 * a.x11) - (a.x10 * a.x01))
  let t40 := (sabs t39)
  let t41 := (a.x11 / t39)
  let t42 := (t36 / t39)
  let t43 := (t35 / t39)
  let t44 := (a.x00 / t39)
  let t46 := (t40 / teps)
  let t47 := (sabs a.x11)
  let t48 := (sabs t36)
  let t49 := (sabs t35)
  let t50 := (sabs a.x00)
  if (1 : α) ≤ t40 then
    ⟨t41, t42, t43, t44⟩
  else
    if t47 < t46 then
      if t48 < t46 then
        if t49 < t46 then
          if t50 < t46 then
            ⟨t41, t42, t43, t44⟩
          else
            ⟨(1 : α), (0 : α), (0 : α), (1 : α)⟩
        else
          ⟨(1 : α), (0 : α), (0 : α), (1 : α)⟩
      else
        ⟨(1 : α), (0 : α), (0 : α), (1 : α)⟩
    else
      ⟨(1 : α), (0 : α), (0 : α), (1 : α)⟩

/-- extracted from the C++ template at T = Sym; 6 path(s) -/
def C07.M22.invertT {α : Type} [Sub α] [Mul α] [Div α] [Neg α] [LT α] [LE α] [DecidableLT α] [DecidableLE α] [OfNat α 0] [OfNat α 1] (teps : α) (a : M22 α) : Except Exc (M22 α) :=
  let t35 := (-a.x10)
  let t36 := (-a.x01)
  let t39 := ((a.x00 * a.x11) - (a.x10 * a.x01))
  let t40 := (sabs t39)
  let t41 := (a.x11 / t39)
  let t42 := (t36 / t39)
  let t43 := (t35 / t39)
  let t44 := (a.x00 / t39)
  let t46 := (t40 / teps)
  let t47 := (sabs a.x11)
  let t48 := (sabs t36)
  let t49 := (sabs t35)
  let t50 := (sabs a.x00)
  if (1 : α) ≤ t40 then
    .ok (⟨t41, t42, t43, t44⟩)
  else
    if t47 < t46 then
      if t48 < t46 then
        if t49 < t46 then
          if t50 < t46 then
            .ok (⟨t41, t42, t43, t44⟩)
          else
            .error Exc.invalidArgument
        else
          .error Exc.invalidArgument
      else
        .error Exc.invalidArgument
    else
      .error Exc.invalidArgument

/-- extracted from the C++ template at T = Sym; 39 path(s) -/
def C07.M33.inverse0 {α : Type} [Add α] [Sub α] [Mul α] [Div α] [Neg α] [LT α] [LE α] [DecidableLT α] [DecidableLE α] [DecidableEq α] [OfNat α 0] [OfNat α 1] (tmin : α) (a : M33 α) : (M33 α) :=
  let t35 := (-a.x10)
  let t36 := (-a.x01)
  let t39 := ((a.x00 * a.x11) - (a.x10 * a.x01))
  let t40 := (sabs t39)
  let t41 := (a.x11 / t39)
  let t42 := (t36 / t39)
  let t43 := (t35 / t39)
  let t44 := (a.x00 / t39)
  let t47 := (sabs a.x11)
  let t48 := (sabs t36)
  let t49 := (sabs t35)
  let t50 := (sabs a.x00)
  let t57 := (-a.x20)
  let t59 := ((t57 * t41) - (a.x21 * t43))
  let t62 := ((t57 * t42) - (a.x21 * t44))
  let t64 := (t40 / tmin)
  let t67 := ((a.x20 * a.x01) - (a.x00 * a.x21))
  let t70 := ((a.x10 * a.x21) - (a.x20 * a.x11))
  let t73 := ((a.x10 * a.x02) - (a.x00 * a.x12))
  let t76 := ((a.x00 * a.x22) - (a.x20 * a.x02))
  let t79 := ((a.x20 * a.x12) - (a.x10 * a.x22))
  let t82 := ((a.x01 * a.x12) - (a.x11 * a.x02))
  let t85 := ((a.x21 * a.x02) - (a.x01 * a.x22))
  let t88 := ((a.x11 * a.x22) - (a.x21 * a.x12))
  let t93 := (((a.x00 * t88) + (a.x01 * t79)) + (a.x02 * t70))
  let t94 := (sabs t93)
  let t95 := (t88 / t93)
  let t96 := (t85 / t93)
  let t97 := (t82 / t93)
  let t98 := (t79 / t93)
  let t99 := (t76 / t93)
  let t100 := (t73 / t93)
  let t101 := (t70 / t93)
  let t102 := (t67 / t93)
  let t103 := (t39 / t93)
  let t104 := (t94 / tmin)
  let t105 := (sabs t88)
  let t106 := (sabs t85)
  let t107 := (sabs t82)
  let t108 := (sabs t79)
  let t109 := (sabs t76)
  let t110 := (sabs t73)
  let t111 := (sabs t70)
  let t112 := (sabs t67)
  if a.x02 = (0 : α) then
    if a.x12 = (0 : α) then
      if a.x22 = (1 : α) then
        if (1 : α) ≤ t40 then
          ⟨t41, t42, (0 : α), t43, t44, (0 : α), t59, t62, (1 : α)⟩
        else
          if t47 < t64 then
            if t48 < t64 then
              if t49 < t64 then
                if t50 < t64 then
                  ⟨t41, t42, (0 : α), t43, t44, (0 : α), t59, t62, (1 : α)⟩
                else
                  ⟨(1 : α), (0 : α), (0 : α), (0 : α), (1 : α), (0 : α), (0 : α), (0 : α), (1 : α)⟩
              else
                ⟨(1 : α), (0 : α), (0 : α), (0 : α), (1 : α), (0 : α), (0 : α), (0 : α), (1 : α)⟩
            else
              ⟨(1 : α), (0 : α), (0 : α), (0 : α), (1 : α), (0 : α), (0 : α), (0 : α), (1 : α)⟩
          else
            ⟨(1 : α), (0 : α), (0 : α), (0 : α), (1 : α), (0 : α), (0 : α), (0 : α), (1 : α)⟩
      else
        if (1 : α) ≤ t94 then
          ⟨t95, t96, t97, t98, t99, t100, t101, t102, t103⟩
        else
          if t105 < t104 then
            if t106 < t104 then
              if t107 < t104 then
                if t108 < t104 then
                  if t109 < t104 then
                    if t110 < t104 then
                      if t111 < t104 then
                        if t112 < t104 then
                          if t40 < t104 then
                            ⟨t95, t96, t97, t98, t99, t100, t101, t102, t103⟩
                          else
                            ⟨(1 : α), (0 : α), (0 : α), (0 : α), (1 : α), (0 : α), (0 : α), (0 : α), (1 : α)⟩
                        else
                          ⟨(1 : α), (0 : α), (0 : α), (0 : α), (1 : α), (0 : α), (0 : α), (0 : α), (1 : α)⟩
                      else
                        ⟨(1 : α), (0 : α), (0 : α), (0 : α), (1 : α), (0 : α), (0 : α), (0 : α), (1 : α)⟩
                    else
                      ⟨(1 : α), (0 : α), (0 : α), (0 : α), (1 : α), (0 : α), (0 : α), (0 : α), (1 : α)⟩
                  else
                    ⟨(1 : α), (0 : α), (0 : α), (0 : α), (1 : α), (0 : α), (0 : α), (0 : α), (1 : α)⟩
                else
                  ⟨(1 : α), (0 : α), (0 : α), (0 : α), (1 : α), (0 : α), (0 : α), (0 : α), (1 : α)⟩
              else
                ⟨(1 : α), (0 : α), (0 : α), (0 : α), (1 : α), (0 : α), (0 : α), (0 : α), (1 : α)⟩
            else
              ⟨(1 : α), (0 : α), (0 : α), (0 : α), (1 : α), (0 : α), (0 : α), (0 : α), (1 : α)⟩
          else
            ⟨(1 : α), (0 : α), (0 : α), (0 : α), (1 : α), (0 : α), (0 : α), (0 : α), (1 : α)⟩
    else
      if (1 : α) ≤ t94 then
        ⟨t95, t96, t97, t98, t99, t100, t101, t102, t103⟩
      else
        if t105 < t104 then
          if t106 < t104 then
            if t107 < t104 then
              if t108 < t104 then
                if t109 < t104 then
                  if t110 < t104 then
                    if t111 < t104 then
                      if t112 < t104 then
                        if t40 < t104 then
                          ⟨t95, t96, t97, t98, t99, t100, t101, t102, t103⟩
                        else
                          ⟨(1 : α), (0 : α), (0 : α), (0 : α), (1 : α), (0 : α), (0 : α), (0 : α), (1 : α)⟩
                      else
                        ⟨(1 : α), (0 : α), (0 : α), (0 : α), (1 : α), (0 : α), (0 : α), (0 : α), (1 : α)⟩
                    else
                      ⟨(1 : α), (0 : α), (0 : α), (0 : α), (1 : α), (0 : α), (0 : α), (0 : α), (1 : α)⟩
                  else
                    ⟨(1 : α), (0 : α), (0 : α), (0 : α), (1 : α), (0 : α), (0 : α), (0 : α), (1 : α)⟩
                else
                  ⟨(1 : α), (0 : α), (0 : α), (0 : α), (1 : α), (0 : α), (0 : α), (0 : α), (1 : α)⟩
              else
                ⟨(1 : α), (0 : α), (0 : α), (0 : α), (1 : α), (0 : α), (0 : α), (0 : α), (1 : α)⟩
            else
              ⟨(1 : α), (0 : α), (0 : α), (0 : α), (1 : α), (0 : α), (0 : α), (0 : α), (1 : α)⟩
          else
            ⟨(1 : α), (0 : α), (0 : α), (0 : α), (1 : α), (0 : α), (0 : α), (0 : α), (1 : α)⟩
        else
          ⟨(1 : α), (0 : α), (0 : α), (0 : α), (1 : α), (0 : α), (0 : α), (0 : α), (1 : α)⟩
  else
    if (1 : α) ≤ t94 then
      ⟨t95, t96, t97, t98, t99, t100, t101, t102, t103⟩
    else
      if t105 < t104 then
        if t106 < t104 then
          if t107 < t104 then
            if t108 < t104 then
              if t109 < t104 then
                if t110 < t104 then
                  if t111 < t104 then
                    if t112 < t104 then
                      if t40 < t104 then
                        ⟨t95, t96, t97, t98, t99, t100, t101, t102, t103⟩
                      else
                        ⟨(1 : α), (0 : α), (0 : α), (0 : α), (1 : α), (0 : α), (0 : α), (0 : α), (1 : α)⟩
                    else
                      ⟨(1 : α), (0 : α), (0 : α), (0 : α), (1 : α), (0 : α), (0 : α), (0 : α), (1 : α)⟩
                  else
                    ⟨(1 : α), (0 : α), (0 : α), (0 : α), (1 : α), (0 : α), (0 : α), (0 : α), (1 : α)⟩
                else
                  ⟨(1 : α), (0 : α), (0 : α), (0 : α), (1 : α), (0 : α), (0 : α), (0 : α), (1 : α)⟩
              else
                ⟨(1 : α), (0 : α), (0 : α), (0 : α), (1 : α), (0 : α), (0 : α), (0 : α), (1 : α)⟩
            else
              ⟨(1 : α), (0 : α), (0 : α), (0 : α), (1 : α), (0 : α), (0 : α), (0 : α), (1 : α)⟩
          else
            ⟨(1 : α), (0 : α), (0 : α), (0 : α), (1 : α), (0 : α), (0 : α), (0 : α), (1 : α)⟩
        else
          ⟨(1 : α), (0 : α), (0 : α), (0 : α), (1 : α), (0 : α), (0 : α), (0 : α), (1 : α)⟩
      else
        ⟨(1 : α), (0 : α), (0 : α), (0 : α), (1 : α), (0 : α), (0 : α), (0 : α), (1 : α)⟩

/-- extracted from the C++ template at T = Sym; 39 path(s) -/
def C07.M33.inverseF {α : Type} [Add α] [Sub α] [Mul α] [Div α] [Neg α] [LT α] [LE α] [DecidableLT α] [DecidableLE α] [DecidableEq α] [OfNat α 0] [OfNat α 1] (tmin : α) (a : M33 α) : (M33 α) :=
  let t35 := (-a.x10)
  let t36 := (-a.x01)
  let t39 := ((a.x00 * a.x11) - (a.x10 * a.x01))
  let t40 := (sabs t39)
  let t41 := (a.x11 / t39)
  let t42 := (t36 / t39)
  let t43 := (t35 / t39)
  let t44 := (a.x00 / t39)
  let t47 := (sabs a.x11)
  let t48 := (sabs t36)
  let t49 := (sabs t35)
  let t50 := (sabs a.x00)
  let t57 := (-a.x20)
  let t59 := ((t57 * t41) - (a.x21 * t43))
  let t62 := ((t57 * t42) - (a.x21 * t44))
  let t64 := (t40 / tmin)
  let t67 := ((a.x20 * a.x01) - (a.x00 * a.x21))
  let t70 := ((a.x10 * a.x21) - (a.x20 * a.x11))
  let t73 := ((a.x10 * a.x02) - (a.x00 * a.x12))
  let t76 := ((a.x00 * a.x22) - (a.x20 * a.x02))
  let t79 := ((a.x20 * a.x12) - (a.x10 * a.x22))
  let t82 := ((a.x01 * a.x12) - (a.x11 * a.x02))
  let t85 := ((a.x21 * a.x02) - (a.x01 * a.x22))
  let t88 := ((a.x11 * a.x22) - (a.x21 * a.x12))
  let t93 := (((a.x00 * t88) + (a.x01 * t79)) + (a.x02 * t70))
  let t94 := (sabs t93)
  let t95 := (t88 / t93)
  let t96 := (t85 / t93)
  let t97 := (t82 / t93)
  let t98 := (t79 / t93)
  let t99 := (t76 / t93)
  let t100 := (t73 / t93)
  let t101 := (t70 / t93)
  let t102 := (t67 / t93)
  let t103 := (t39 / t93)
  let t104 := (t94 / tmin)
  let t105 := (sabs t88)
  let t106 := (sabs t85)
  let t107 := (sabs t82)
  let t108 := (sabs t79)
  let t109 := (sabs t76)
  let t110 := (sabs t73)
  let t111 := (sabs t70)
  let t112 := (sabs t67)
  if a.x02 = (0 : α) then
    if a.x12 = (0 : α) then
      if a.x22 = (1 : α) then
        if (1 : α) ≤ t40 then
          ⟨t41, t42, (0 : α), t43, t44, (0 : α), t59, t62, (1 : α)⟩
        else
          if t47 < t64 then
            if t48 < t64 then
              if t49 < t64 then
                if t50 < t64 then
                  ⟨t41, t42, (0 : α), t43, t44, (0 : α), t59, t62, (1 : α)⟩
                else
                  ⟨(1 : α), (0 : α), (0 : α), (0 : α), (1 : α), (0 : α), (0 : α), (0 : α), (1 : α)⟩
              else
                ⟨(1 : α), (0 : α), (0 : α), (0 : α), (1 : α), (0 : α), (0 : α), (0 : α), (1 : α)⟩
            else
              ⟨(1 : α), (0 : α), (0 : α), (0 : α), (1 : α), (0 : α), (0 : α), (0 : α), (1 : α)⟩
          else
            ⟨(1 : α), (0 : α), (0 : α), (0 : α), (1 : α), (0 : α), (0 : α), (0 : α), (1 : α)⟩
      else
        if (1 : α) ≤ t94 then
          ⟨t95, t96, t97, t98, t99, t100, t101, t102, t103⟩
        else
          if t105 < t104 then
            if t106 < t104 then
              if t107 < t104 then
                if t108 < t104 then
                  if t109 < t104 then
                    if t110 < t104 then
                      if t111 < t104 then
                        if t112 < t104 then
                          if t40 < t104 then
                            ⟨t95, t96, t97, t98, t99, t100, t101, t102, t103⟩
                          else
                            ⟨(1 : α), (0 : α), (0 : α), (0 : α), (1 : α), (0 : α), (0 : α), (0 : α), (1 : α)⟩
                        else
                          ⟨(1 : α), (0 : α), (0 : α), (0 : α), (1 : α), (0 : α), (0 : α), (0 : α), (1 : α)⟩
                      else
                        ⟨(1 : α), (0 : α), (0 : α), (0 : α), (1 : α), (0 : α), (0 : α), (0 : α), (1 : α)⟩
                    else
                      ⟨(1 : α), (0 : α), (0 : α), (0 : α), (1 : α), (0 : α), (0 : α), (0 : α), (1 : α)⟩
                  else
                    ⟨(1 : α), (0 : α), (0 : α), (0 : α), (1 : α), (0 : α), (0 : α), (0 : α), (1 : α)⟩
                else
                  ⟨(1 : α), (0 : α), (0 : α), (0 : α), (1 : α), (0 : α), (0 : α), (0 : α), (1 : α)⟩
              else
                ⟨(1 : α), (0 : α), (0 : α), (0 : α), (1 : α), (0 : α), (0 : α), (0 : α), (1 : α)⟩
            else
              ⟨(1 : α), (0 : α), (0 : α), (0 : α), (1 : α), (0 : α), (0 : α), (0 : α), (1 : α)⟩
          else
            ⟨(1 : α), (0 : α), (0 : α), (0 : α), (1 : α), (0 : α), (0 : α), (0 : α), (1 : α)⟩
    else
      if (1 : α) ≤ t94 then
        ⟨t95, t96, t97, t98, t99, t100, t101, t102, t103⟩
      else
        if t105 < t104 then
          if t106 < t104 then
            if t107 < t104 then
              if t108 < t104 then
                if t109 < t104 then
                  if t110 < t104 then
                    if t111 < t104 then
                      if t112 < t104 then
                        if t40 < t104 then
                          ⟨t95, t96, t97, t98, t99, t100, t101, t102, t103⟩
                        else
                          ⟨(1 : α), (0 : α), (0 : α), (0 : α), (1 : α), (0 : α), (0 : α), (0 : α), (1 : α)⟩
                      else
                        ⟨(1 : α), (0 : α), (0 : α), (0 : α), (1 : α), (0 : α), (0 : α), (0 : α), (1 : α)⟩
                    else
                      ⟨(1 : α), (0 : α), (0 : α), (0 : α), (1 : α), (0 : α), (0 : α), (0 : α), (1 : α)⟩
                  else
                    ⟨(1 : α), (0 : α), (0 : α), (0 : α), (1 : α), (0 : α), (0 : α), (0 : α), (1 : α)⟩
                else
                  ⟨(1 : α), (0 : α), (0 : α), (0 : α), (1 : α), (0 : α), (0 : α), (0 : α), (1 : α)⟩
              else
                ⟨(1 : α), (0 : α), (0 : α), (0 : α), (1 : α), (0 : α), (0 : α), (0 : α), (1 : α)⟩
            else
              ⟨(1 : α), (0 : α), (0 : α), (0 : α), (1 : α), (0 : α), (0 : α), (0 : α), (1 : α)⟩
          else
            ⟨(1 : α), (0 : α), (0 : α), (0 : α), (1 : α), (0 : α), (0 : α), (0 : α), (1 : α)⟩
        else
          ⟨(1 : α), (0 : α), (0 : α), (0 : α), (1 : α), (0 : α), (0 : α), (0 : α), (1 : α)⟩
  else
    if (1 : α) ≤ t94 then
      ⟨t95, t96, t97, t98, t99, t100, t101, t102, t103⟩
    else
      if t105 < t104 then
        if t106 < t104 then
          if t107 < t104 then
            if t108 < t104 then
              if t109 < t104 then
                if t110 < t104 then
                  if t111 < t104 then
                    if t112 < t104 then
                      if t40 < t104 then
                        ⟨t95, t96, t97, t98, t99, t100, t101, t102, t103⟩
                      else
                        ⟨(1 : α), (0 : α), (0 : α), (0 : α), (1 : α), (0 : α), (0 : α), (0 : α), (1 : α)⟩
                    else
                      ⟨(1 : α), (0 : α), (0 : α), (0 : α), (1 : α), (0 : α), (0 : α), (0 : α), (1 : α)⟩
                  else
                    ⟨(1 : α), (0 : α), (0 : α), (0 : α), (1 : α), (0 : α), (0 : α), (0 : α), (1 : α)⟩
                else
                  ⟨(1 : α), (0 : α), (0 : α), (0 : α), (1 : α), (0 : α), (0 : α), (0 : α), (1 : α)⟩
              else
                ⟨(1 : α), (0 : α), (0 : α), (0 : α), (1 : α), (0 : α), (0 : α), (0 : α), (1 : α)⟩
            else
              ⟨(1 : α), (0 : α), (0 : α), (0 : α), (1 : α), (0 : α), (0 : α), (0 : α), (1 : α)⟩
          else
            ⟨(1 : α), (0 : α), (0 : α), (0 : α), (1 : α), (0 : α), (0 : α), (0 : α), (1 : α)⟩
        else
          ⟨(1 : α), (0 : α), (0 : α), (0 : α), (1 : α), (0 : α), (0 : α), (0 : α), (1 : α)⟩
      else
        ⟨(1 : α), (0 : α), (0 : α), (0 : α), (1 : α), (0 : α), (0 : α), (0 : α), (1 : α)⟩

/-- extracted from the C++ template at T = Sym; 39 path(s) -/
def C07.M33.inverseT {α : Type} [Add α] [Sub α] [Mul α] [Div α] [Neg α] [LT α] [LE α] [DecidableLT α] [DecidableLE α] [DecidableEq α] [OfNat α 0] [OfNat α 1] (tmin : α) (a : M33 α) : Except Exc (M33 α) :=
  let t35 := (-a.x10)
  let t36 := (-a.x01)
  let t39 := ((a.x00 * a.x11) - (a.x10 * a.x01))
  let t40 := (sabs t39)
  let t41 := (a.x11 / t39)
  let t42 := (t36 / t39)
  let t43 := (t35 / t39)
  let t44 := (a.x00 / t39)
  let t47 := (sabs a.x11)
  let t48 := (sabs t36)
  let t49 := (sabs t35)
  let t50 := (sabs a.x00)
  let t57 := (-a.x20)
  let t59 := ((t57 * t41) - (a.x21 * t43))
  let t62 := ((t57 * t42) - (a.x21 * t44))
  let t64 := (t40 / tmin)
  let t67 := ((a.x20 * a.x01) - (a.x00 * a.x21))
  let t70 := ((a.x10 * a.x21) - (a.x20 * a.x11))
  let t73 := ((a.x10 * a.x02) - (a.x00 * a.x12))
  let t76 := ((a.x00 * a.x22) - (a.x20 * a.x02))
  let t79 := ((a.x20 * a.x12) - (a.x10 * a.x22))
  let t82 := ((a.x01 * a.x12) - (a.x11 * a.x02))
  let t85 := ((a.x21 * a.x02) - (a.x01 * a.x22))
  let t88 := ((a.x11 * a.x22) - (a.x21 * a.x12))
  let t93 := (((a.x00 * t88) + (a.x01 * t79)) + (a.x02 * t70))
  let t94 := (sabs t93)
  let t95 := (t88 / t93)
  let t96 := (t85 / t93)
  let t97 := (t82 / t93)
  let t98 := (t79 / t93)
  let t99 := (t76 / t93)
  let t100 := (t73 / t93)
  let t101 := (t70 / t93)
  let t102 := (t67 / t93)
  let t103 := (t39 / t93)
  let t104 := (t94 / tmin)
  let t105 := (sabs t88)
  let t106 := (sabs t85)
  let t107 := (sabs t82)
  let t108 := (sabs t79)
  let t109 := (sabs t76)
  let t110 := (sabs t73)
  let t111 := (sabs t70)
  let t112 := (sabs t67)
  if a.x02 = (0 : α) then
    if a.x12 = (0 : α) then
      if a.x22 = (1 : α) then
        if (1 : α) ≤ t40 then
          .ok (⟨t41, t42, (0 : α), t43, t44, (0 : α), t59, t62, (1 : α)⟩)
        else
          if t47 < t64 then
            if t48 < t64 then
              if t49 < t64 then
                if t50 < t64 then
                  .ok (⟨t41, t42, (0 : α), t43, t44, (0 : α), t59, t62, (1 : α)⟩)
                else
                  .error Exc.invalidArgument
              else
                .error Exc.invalidArgument
            else
              .error Exc.invalidArgument
          else
            .error Exc.invalidArgument
      else
        if (1 : α) ≤ t94 then
          .ok (⟨t95, t96, t97, t98, t99, t100, t101, t102, t103⟩)
        else
          if t105 < t104 then
            if t106 < t104 then
              if t107 < t104 then
                if t108 < t104 then
                  if t109 < t104 then
                    if t110 < t104 then
                      if t111 < t104 then
                        if t112 < t104 then
                          if t40 < t104 then
                            .ok (⟨t95, t96, t97, t98, t99, t100, t101, t102, t103⟩)
                          else
                            .error Exc.invalidArgument
                        else
                          .error Exc.invalidArgument
                      else
                        .error Exc.invalidArgument
                    else
                      .error Exc.invalidArgument
                  else
                    .error Exc.invalidArgument
                else
                  .error Exc.invalidArgument
              else
                .error Exc.invalidArgument
            else
              .error Exc.invalidArgument
          else
            .error Exc.invalidArgument
    else
      if (1 : α) ≤ t94 then
        .ok (⟨t95, t96, t97, t98, t99, t100, t101, t102, t103⟩)
      else
        if t105 < t104 then
          if t106 < t104 then
            if t107 < t104 then
              if t108 < t104 then
                if t109 < t104 then
                  if t110 < t104 then
                    if t111 < t104 then
                      if t112 < t104 then
                        if t40 < t104 then
                          .ok (⟨t95, t96, t97, t98, t99, t100, t101, t102, t103⟩)
                        else
                          .error Exc.invalidArgument
                      else
                        .error Exc.invalidArgument
                    else
                      .error Exc.invalidArgument
                  else
                    .error Exc.invalidArgument
                else
                  .error Exc.invalidArgument
              else
                .error Exc.invalidArgument
            else
              .error Exc.invalidArgument
          else
            .error Exc.invalidArgument
        else
          .error Exc.invalidArgument
  else
    if (1 : α) ≤ t94 then
      .ok (⟨t95, t96, t97, t98, t99, t100, t101, t102, t103⟩)
    else
      if t105 < t104 then
        if t106 < t104 then
          if t107 < t104 then
            if t108 < t104 then
              if t109 < t104 then
                if t110 < t104 then
                  if t111 < t104 then
                    if t112 < t104 then
                      if t40 < t104 then
                        .ok (⟨t95, t96, t97, t98, t99, t100, t101, t102, t103⟩)
                      else
                        .error Exc.invalidArgument
                    else
                      .error Exc.invalidArgument
                  else
                    .error Exc.invalidArgument
                else
                  .error Exc.invalidArgument
              else
                .error Exc.invalidArgument
            else
              .error Exc.invalidArgument
          else
            .error Exc.invalidArgument
        else
          .error Exc.invalidArgument
      else
        .error Exc.invalidArgument

/-- extracted from the C++ template at T = Sym; 39 path(s) -/
def C07.M33.invert0 {α : Type} [Add α] [Sub α] [Mul α] [Div α] [Neg α] [LT α] [LE α] [DecidableLT α] [DecidableLE α] [DecidableEq α] [OfNat α 0] [OfNat α 1] (tmin : α) (a : M33 α) : (M33 α) :=
  let t35 := (-a.x10)
  let t36 := (-a.x01)
  let t39 := ((a.x00 * a.x11) - (a.x10 * a.x01))
  let t40 := (sabs t39)
  let t41 := (a.x11 / t39)
  let t42 := (t36 / t39)
  let t43 := (t35 / t39)
  let t44 := (a.x00 / t39)
  let t47 := (sabs a.x11)
  let t48 := (sabs t36)
  let t49 := (sabs t35)
  let t50 := (sabs a.x00)
  let t57 := (-a.x20)
  let t59 := ((t57 * t41) - (a.x21 * t43))
  let t62 := ((t57 * t42) - (a.x21 * t44))
  let t64 := (t40 / tmin)
  let t67 := ((a.x20 * a.x01) - (a.x00 * a.x21))
  let t70 := ((a.x10 * a.x21) - (a.x20 * a.x11))
  let t73 := ((a.x10 * a.x02) - (a.x00 * a.x12))
  let t76 := ((a.x00 * a.x22) - (a.x20 * a.x02))
  let t79 := ((a.x20 * a.x12) - (a.x10 * a.x22))
  let t82 := ((a.x01 * a.x12) - (a.x11 * a.x02))
  let t85 := ((a.x21 * a.x02) - (a.x01 * a.x22))
  let t88 := ((a.x11 * a.x22) - (a.x21 * a.x12))
  let t93 := (((a.x00 * t88) + (a.x01 * t79)) + (a.x02 * t70))
  let t94 := (sabs t93)
  let t95 := (t88 / t93)
  let t96 := (t85 / t93)
  let t97 := (t82 / t93)
  let t98 := (t79 / t93)
  let t99 := (t76 / t93)
  let t100 := (t73 / t93)
  let t101 := (t70 / t93)
  let t102 := (t67 / t93)
  let t103 := (t39 / t93)
  let t104 := (t94 / tmin)
  let t105 := (sabs t88)
  let t106 := (sabs t85)
  let t107 := (sabs t82)
  let t108 := (sabs t79)
  let t109 := (sabs t76)
  let t110 := (sabs t73)
  let t111 := (sabs t70)
  let t112 := (sabs t67)
  if a.x02 = (0 : α) then
    if a.x12 = (0 : α) then
      if a.x22 = (1 : α) then
        if (1 : α) ≤ t40 then
          ⟨t41, t42, (0 : α), t43, t44, (0 : α), t59, t62, (1 : α)⟩
        else
          if t47 < t64 then
            if t48 < t64 then
              if t49 < t64 then
                if t50 < t64 then
                  ⟨t41, t42, (0 : α), t43, t44, (0 : α), t59, t62, (1 : α)⟩
                else
                  ⟨(1 : α), (0 : α), (0 : α), (0 : α), (1 : α), (0 : α), (0 : α), (0 : α), (1 : α)⟩
              else
                ⟨(1 : α), (0 : α), (0 : α), (0 : α), (1 : α), (0 : α), (0 : α), (0 : α), (1 : α)⟩
            else
              ⟨(1 : α), (0 : α), (0 : α), (0 : α), (1 : α), (0 : α), (0 : α), (0 : α), (1 : α)⟩
          else
            ⟨(1 : α), (0 : α), (0 : α), (0 : α), (1 : α), (0 : α), (0 : α), (0 : α), (1 : α)⟩
      else
        if (1 : α) ≤ t94 then
          ⟨t95, t96, t97, t98, t99, t100, t101, t102, t103⟩
        else
          if t105 < t104 then
            if t106 < t104 then
              if t107 < t104 then
                if t108 < t104 then
                  if t109 < t104 then
                    if t110 < t104 then
                      if t111 < t104 then
                        if t112 < t104 then
                          if t40 < t104 then
                            ⟨t95, t96, t97, t98, t99, t100, t101, t102, t103⟩
                          else
                            ⟨(1 : α), (0 : α), (0 : α), (0 : α), (1 : α), (0 : α), (0 : α), (0 : α), (1 : α)⟩
                        else
                          ⟨(1 : α), (0 : α), (0 : α), (0 : α), (1 : α), (0 : α), (0 : α), (0 : α), (1 : α)⟩
                      else
                        ⟨(1 : α), (0 : α), (0 : α), (0 : α), (1 : α), (0 : α), (0 : α), (0 : α), (1 : α)⟩
                    else
                      ⟨(1 : α), (0 : α), (0 : α), (0 : α), (1 : α), (0 : α), (0 : α), (0 : α), (1 : α)⟩
                  else
                    ⟨(1 : α), (0 : α), (0 : α), (0 : α), (1 : α), (0 : α), (0 : α), (0 : α), (1 : α)⟩
                else
                  ⟨(1 : α), (0 : α), (0 : α), (0 : α), (1 : α), (0 : α), (0 : α), (0 : α), (1 : α)⟩
              else
                ⟨(1 : α), (0 : α), (0 : α), (0 : α), (1 : α), (0 : α), (0 : α), (0 : α), (1 : α)⟩
            else
              ⟨(1 : α), (0 : α), (0 : α), (0 : α), (1 : α), (0 : α), (0 : α), (0 : α), (1 : α)⟩
          else
            ⟨(1 : α), (0 : α), (0 : α), (0 : α), (1 : α), (0 : α), (0 : α), (0 : α), (1 : α)⟩
    else
      if (1 : α) ≤ t94 then
        ⟨t95, t96, t97, t98, t99, t100, t101, t102, t103⟩
      else
        if t105 < t104 then
          if t106 < t104 then
            if t107 < t104 then
              if t108 < t104 then
                if t109 < t104 then
                  if t110 < t104 then
                    if t111 < t104 then
                      if t112 < t104 then
                        if t40 < t104 then
                          ⟨t95, t96, t97, t98, t99, t100, t101, t102, t103⟩
                        else
                          ⟨(1 : α), (0 : α), (0 : α), (0 : α), (1 : α), (0 : α), (0 : α), (0 : α), (1 : α)⟩
                      else
                        ⟨(1 : α), (0 : α), (0 : α), (0 : α), (1 : α), (0 : α), (0 : α), (0 : α), (1 : α)⟩
                    else
                      ⟨(1 : α), (0 : α), (0 : α), (0 : α), (1 : α), (0 : α), (0 : α), (0 : α), (1 : α)⟩
                  else
                    ⟨(1 : α), (0 : α), (0 : α), (0 : α), (1 : α), (0 : α), (0 : α), (0 : α), (1 : α)⟩
                else
                  ⟨(1 : α), (0 : α), (0 : α), (0 : α), (1 : α), (0 : α), (0 : α), (0 : α), (1 : α)⟩
              else
                ⟨(1 : α), (0 : α), (0 : α), (0 : α), (1 : α), (0 : α), (0 : α), (0 : α), (1 : α)⟩
            else
              ⟨(1 : α), (0 : α), (0 : α), (0 : α), (1 : α), (0 : α), (0 : α), (0 : α), (1 : α)⟩
          else
            ⟨(1 : α), (0 : α), (0 : α), (0 : α), (1 : α), (0 : α), (0 : α), (0 : α), (1 : α)⟩
        else
          ⟨(1 : α), (0 : α), (0 : α), (0 : α), (1 : α), (0 : α), (0 : α), (0 : α), (1 : α)⟩
  else
    if (1 : α) ≤ t94 then
      ⟨t95, t96, t97, t98, t99, t100, t101, t102, t103⟩
    else
      if t105 < t104 then
        if t106 < t104 then
          if t107 < t104 then
            if t108 < t104 then
              if t109 < t104 then
                if t110 < t104 then
                  if t111 < t104 then
                    if t112 < t104 then
                      if t40 < t104 then
                        ⟨t95, t96, t97, t98, t99, t100, t101, t102, t103⟩
                      else
                        ⟨(1 : α), (0 : α), (0 : α), (0 : α), (1 : α), (0 : α), (0 : α), (0 : α), (1 : α)⟩
                    else
                      ⟨(1 : α), (0 : α), (0 : α), (0 : α), (1 : α), (0 : α), (0 : α), (0 : α), (1 : α)⟩
                  else
                    ⟨(1 : α), (0 : α), (0 : α), (0 : α), (1 : α), (0 : α), (0 : α), (0 : α), (1 : α)⟩
                else
                  ⟨(1 : α), (0 : α), (0 : α), (0 : α), (1 : α), (0 : α), (0 : α), (0 : α), (1 : α)⟩
              else
                ⟨(1 : α), (0 : α), (0 : α), (0 : α), (1 : α), (0 : α), (0 : α), (0 : α), (1 : α)⟩
            else
              ⟨(1 : α), (0 : α), (0 : α), (0 : α), (1 : α), (0 : α), (0 : α), (0 : α), (1 : α)⟩
          else
            ⟨(1 : α), (0 : α), (0 : α), (0 : α), (1 : α), (0 : α), (0 : α), (0 : α), (1 : α)⟩
        else
          ⟨(1 : α), (0 : α), (0 : α), (0 : α), (1 : α), (0 : α), (0 : α), (0 : α), (1 : α)⟩
      else
        ⟨(1 : α), (0 : α), (0 : α), (0 : α), (1 : α), (0 : α), (0 : α), (0 : α), (1 : α)⟩

/-- extracted from the C++ template at T = Sym; 39 path(s) -/
def C07.M33.invertF {α : Type} [Add α] [Sub α] [Mul α] [Div α] [Neg α] [LT α] [LE α] [DecidableLT α] [DecidableLE α] [DecidableEq α] [OfNat α 0] [OfNat α 1] (tmin : α) (a : M33 α) : (M33 α) :=
  let t35 := (-a.x10)
  let t36 := (-a.x01)
  let t39 := ((a.x00 * a.x11) - (a.x10 * a.x01))
  let t40 := (sabs t39)
  let t41 := (a.x11 / t39)
  let t42 := (t36 / t39)
  let t43 := (t35 / t39)
  let t44 := (a.x00 / t39)
  let t47 := (sabs a.x11)
  let t48 := (sabs t36)
  let t49 := (sabs t35)
  let t50 := (sabs a.x00)
  let t57 := (-a.x20)
  let t59 := ((t57 * t41) - (a.x21 * t43))
  let t62 := ((t57 * t42) - (a.x21 * t44))
  let t64 := (t40 / tmin)
  let t67 := ((a.x20 * a.x01) - (a.x00 * a.x21))
  let t70 := ((a.x10 * a.x21) - (a.x20 * a.x11))
  let t73 := ((a.x10 * a.x02) - (a.x00 * a.x12))
  let t76 := ((a.x00 * a.x22) - (a.x20 * a.x02))
  let t79 := ((a.x20 * a.x12) - (a.x10 * a.x22))
  let t82 := ((a.x01 * a.x12) - (a.x11 * a.x02))
  let t85 := ((a.x21 * a.x02) - (a.x01 * a.x22))
  let t88 := ((a.x11 * a.x22) - (a.x21 * a.x12))
  let t93 := (((a.x00 * t88) + (a.x01 * t79)) + (a.x02 * t70))
  let t94 := (sabs t93)
  let t95 := (t88 / t93)
  let t96 := (t85 / t93)
  let t97 := (t82 / t93)
  let t98 := (t79 / t93)
  let t99 := (t76 / t93)
  let t100 := (t73 / t93)
  let t101 := (t70 / t93)
  let t102 := (t67 / t93)
  let t103 := (t39 / t93)
  let t104 := (t94 / tmin)
  let t105 := (sabs t88)
  let t106 := (sabs t85)
  let t107 := (sabs t82)
  let t108 := (sabs t79)
  let t109 := (sabs t76)
  let t110 := (sabs t73)
  let t111 := (sabs t70)
  let t112 := (sabs t67)
  if a.x02 = (0 : α) then
    if a.x12 = (0 : α) then
      if a.x22 = (1 : α) then
        if (1 : α) ≤ t40 then
          ⟨t41, t42, (0 : α), t43, t44, (0 : α), t59, t62, (1 : α)⟩
        else
          if t47 < t64 then
            if t48 < t64 then
              if t49 < t64 then
                if t50 < t64 then
                  ⟨t41, t42, (0 : α), t43, t44, (0 : α), t59, t62, (1 : α)⟩
                else
                  ⟨(1 : α), (0 : α), (0 : α), (0 : α), (1 : α), (0 : α), (0 : α), (0 : α), (1 : α)⟩
              else
                ⟨(1 : α), (0 : α), (0 : α), (0 : α), (1 : α), (0 : α), (0 : α), (0 : α), (1 : α)⟩
            else
              ⟨(1 : α), (0 : α), (0 : α), (0 : α), (1 : α), (0 : α), (0 : α), (0 : α), (1 : α)⟩
          else
            ⟨(1 : α), (0 : α), (0 : α), (0 : α), (1 : α), (0 : α), (0 : α), (0 : α), (1 : α)⟩
      else
        if (1 : α) ≤ t94 then
          ⟨t95, t96, t97, t98, t99, t100, t101, t102, t103⟩
        else
          if t105 < t104 then
            if t106 < t104 then
              if t107 < t104 then
                if t108 < t104 then
                  if t109 < t104 then
                    if t110 < t104 then
                      if t111 < t104 then
                        if t112 < t104 then
                          if t40 < t104 then
                            ⟨t95, t96, t97, t98, t99, t100, t101, t102, t103⟩
                          else
                            ⟨(1 : α), (0 : α), (0 : α), (0 : α), (1 : α), (0 : α), (0 : α), (0 : α), (1 : α)⟩
                        else
                          ⟨(1 : α), (0 : α), (0 : α), (0 : α), (1 : α), (0 : α), (0 : α), (0 : α), (1 : α)⟩
                      else
                        ⟨(1 : α), (0 : α), (0 : α), (0 : α), (1 : α), (0 : α), (0 : α), (0 : α), (1 : α)⟩
                    else
                      ⟨(1 : α), (0 : α), (0 : α), (0 : α), (1 : α), (0 : α), (0 : α), (0 : α), (1 : α)⟩
                  else
                    ⟨(1 : α), (0 : α), (0 : α), (0 : α), (1 : α), (0 : α), (0 : α), (0 : α), (1 : α)⟩
                else
                  ⟨(1 : α), (0 : α), (0 : α), (0 : α), (1 : α), (0 : α), (0 : α), (0 : α), (1 : α)⟩
              else
                ⟨(1 : α), (0 : α), (0 : α), (0 : α), (1 : α), (0 : α), (0 : α), (0 : α), (1 : α)⟩
            else
              ⟨(1 : α), (0 : α), (0 : α), (0 : α), (1 : α), (0 : α), (0 : α), (0 : α), (1 : α)⟩
          else
            ⟨(1 : α), (0 : α), (0 : α), (0 : α), (1 : α), (0 : α), (0 : α), (0 : α), (1 : α)⟩
    else
      if (1 : α) ≤ t94 then
        ⟨t95, t96, t97, t98, t99, t100, t101, t102, t103⟩
      else
        if t105 < t104 then
          if t106 < t104 then
            if t107 < t104 then
              if t108 < t104 then
                if t109 < t104 then
                  if t110 < t104 then
                    if t111 < t104 then
                      if t112 < t104 then
                        if t40 < t104 then
                          ⟨t95, t96, t97, t98, t99, t100, t101, t102, t103⟩
                        else
                          ⟨(1 : α), (0 : α), (0 : α), (0 : α), (1 : α), (0 : α), (0 : α), (0 : α), (1 : α)⟩
                      else
                        ⟨(1 : α), (0 : α), (0 : α), (0 : α), (1 : α), (0 : α), (0 : α), (0 : α), (1 : α)⟩
                    else
                      ⟨(1 : α), (0 : α), (0 : α), (0 : α), (1 : α), (0 : α), (0 : α), (0 : α), (1 : α)⟩
                  else
                    ⟨(1 : α), (0 : α), (0 : α), (0 : α), (1 : α), (0 : α), (0 : α), (0 : α), (1 : α)⟩
                else
                  ⟨(1 : α), (0 : α), (0 : α), (0 : α), (1 : α), (0 : α), (0 : α), (0 : α), (1 : α)⟩
              else
                ⟨(1 : α), (0 : α), (0 : α), (0 : α), (1 : α), (0 : α), (0 : α), (0 : α), (1 : α)⟩
            else
              ⟨(1 : α), (0 : α), (0 : α), (0 : α), (1 : α), (0 : α), (0 : α), (0 : α), (1 : α)⟩
          else
            ⟨(1 : α), (0 : α), (0 : α), (0 : α), (1 : α), (0 : α), (0 : α), (0 : α), (1 : α)⟩
        else
          ⟨(1 : α), (0 : α), (0 : α), (0 : α), (1 : α), (0 : α), (0 : α), (0 : α), (1 : α)⟩
  else
    if (1 : α) ≤ t94 then
      ⟨t95, t96, t97, t98, t99, t100, t101, t102, t103⟩
    else
      if t105 < t104 then
        if t106 < t104 then
          if t107 < t104 then
            if t108 < t104 then
              if t109 < t104 then
                if t110 < t104 then
                  if t111 < t104 then
                    if t112 < t104 then
                      if t40 < t104 then
                        ⟨t95, t96, t97, t98, t99, t100, t101, t102, t103⟩
                      else
                        ⟨(1 : α), (0 : α), (0 : α), (0 : α), (1 : α), (0 : α), (0 : α), (0 : α), (1 : α)⟩
                    else
                      ⟨(1 : α), (0 : α), (0 : α), (0 : α), (1 : α), (0 : α), (0 : α), (0 : α), (1 : α)⟩
                  else
                    ⟨(1 : α), (0 : α), (0 : α), (0 : α), (1 : α), (0 : α), (0 : α), (0 : α), (1 : α)⟩
                else
                  ⟨(1 : α), (0 : α), (0 : α), (0 : α), (1 : α), (0 : α), (0 : α), (0 : α), (1 : α)⟩
              else
                ⟨(1 : α), (0 : α), (0 : α), (0 : α), (1 : α), (0 : α), (0 : α), (0 : α), (1 : α)⟩
            else
              ⟨(1 : α), (0 : α), (0 : α), (0 : α), (1 : α), (0 : α), (0 : α), (0 : α), (1 : α)⟩
          else
            ⟨(1 : α), (0 : α), (0 : α), (0 : α), (1 : α), (0 : α), (0 : α), (0 : α), (1 : α)⟩
        else
          ⟨(1 : α), (0 : α), (0 : α), (0 : α), (1 : α), (0 : α), (0 : α), (0 : α), (1 : α)⟩
      else
        ⟨(1 : α), (0 : α), (0 : α), (0 : α), (1 : α), (0 : α), (0 : α), (0 : α), (1 : α)⟩

/-- extracted from the C++ template at T = Sym; 39 path(s) -/
def C07.M33.invertT {α : Type} [Add α] [Sub α] [Mul α] [Div α] [Neg α] [LT α] [LE α] [DecidableLT α] [DecidableLE α] [DecidableEq α] [OfNat α 0] [OfNat α 1] (tmin : α) (a : M33 α) : Except Exc (M33 α) :=
  let t35 := (-a.x10)
  let t36 := (-a.x01)
  let t39 := ((a.x00 * a.x11) - (a.x10 * a.x01))
  let t40 := (sabs t39)
  let t41 := (a.x11 / t39)
  let t42 := (t36 / t39)
  let t43 := (t35 / t39)
  let t44 := (a.x00 / t39)
  let t47 := (sabs a.x11)
  let t48 := (sabs t36)
  let t49 := (sabs t35)
  let t50 := (sabs a.x00)
  let t57 := (-a.x20)
  let t59 := ((t57 * t41) - (a.x21 * t43))
  let t62 := ((t57 * t42) - (a.x21 * t44))
  let t64 := (t40 / tmin)
  let t67 := ((a.x20 * a.x01) - (a.x00 * a.x21))
  let t70 := ((a.x10 * a.x21) - (a.x20 * a.x11))
  let t73 := ((a.x10 * a.x02) - (a.x00 * a.x12))
  let t76 := ((a.x00 * a.x22) - (a.x20 * a.x02))
  let t79 := ((a.x20 * a.x12) - (a.x10 * a.x22))
  let t82 := ((a.x01 * a.x12) - (a.x11 * a.x02))
  let t85 := ((a.x21 * a.x02) - (a.x01 * a.x22))
  let t88 := ((a.x11 * a.x22) - (a.x21 * a.x12))
  let t93 := (((a.x00 * t88) + (a.x01 * t79)) + (a.x02 * t70))
  let t94 := (sabs t93)
  let t95 := (t88 / t93)
  let t96 := (t85 / t93)
  let t97 := (t82 / t93)
  let t98 := (t79 / t93)
  let t99 := (t76 / t93)
  let t100 := (t73 / t93)
  let t101 := (t70 / t93)
  let t102 := (t67 / t93)
  let t103 := (t39 / t93)
  let t104 := (t94 / tmin)
  let t105 := (sabs t88)
  let t106 := (sabs t85)
  let t107 := (sabs t82)
  let t108 := (sabs t79)
  let t109 := (sabs t76)
  let t110 := (sabs t73)
  let t111 := (sabs t70)
  let t112 := (sabs t67)
  if a.x02 = (0 : α) then
    if a.x12 = (0 : α) then
      if a.x22 = (1 : α) then
        if (1 : α) ≤ t40 then
          .ok (⟨t41, t42, (0 : α), t43, t44, (0 : α), t59, t62, (1 : α)⟩)
        else
          if t47 < t64 then
            if t48 < t64 then
              if t49 < t64 then
                if t50 < t64 then
                  .ok (⟨t41, t42, (0 : α), t43, t44, (0 : α), t59, t62, (1 : α)⟩)
                else
                  .error Exc.invalidArgument
              else
                .error Exc.invalidArgument
            else
              .error Exc.invalidArgument
          else
            .error Exc.invalidArgument
      else
        if (1 : α) ≤ t94 then
          .ok (⟨t95, t96, t97, t98, t99, t100, t101, t102, t103⟩)
        else
          if t105 < t104 then
            if t106 < t104 then
              if t107 < t104 then
                if t108 < t104 then
                  if t109 < t104 then
                    if t110 < t104 then
                      if t111 < t104 then
                        if t112 < t104 then
                          if t40 < t104 then
                            .ok (⟨t95, t96, t97, t98, t99, t100, t101, t102, t103⟩)
                          else
                            .error Exc.invalidArgument
                        else
                          .error Exc.invalidArgument
                      else
                        .error Exc.invalidArgument
                    else
                      .error Exc.invalidArgument
                  else
                    .error Exc.invalidArgument
                else
                  .error Exc.invalidArgument
              else
                .error Exc.invalidArgument
            else
              .error Exc.invalidArgument
          else
            .error Exc.invalidArgument
    else
      if (1 : α) ≤ t94 then
        .ok (⟨t95, t96, t97, t98, t99, t100, t101, t102, t103⟩)
      else
        if t105 < t104 then
          if t106 < t104 then
            if t107 < t104 then
              if t108 < t104 then
                if t109 < t104 then
                  if t110 < t104 then
                    if t111 < t104 then
                      if t112 < t104 then
                        if t40 < t104 then
                          .ok (⟨t95, t96, t97, t98, t99, t100, t101, t102, t103⟩)
                        else
                          .error Exc.invalidArgument
                      else
                        .error Exc.invalidArgument
                    else
                      .error Exc.invalidArgument
                  else
                    .error Exc.invalidArgument
                else
                  .error Exc.invalidArgument
              else
                .error Exc.invalidArgument
            else
              .error Exc.invalidArgument
          else
            .error Exc.invalidArgument
        else
          .error Exc.invalidArgument
  else
    if (1 : α) ≤ t94 then
      .ok (⟨t95, t96, t97, t98, t99, t100, t101, t102, t103⟩)
    else
      if t105 < t104 then
        if t106 < t104 then
          if t107 < t104 then
            if t108 < t104 then
              if t109 < t104 then
                if t110 < t104 then
                  if t111 < t104 then
                    if t112 < t104 then
                      if t40 < t104 then
                        .ok (⟨t95, t96, t97, t98, t99, t100, t101, t102, t103⟩)
                      else
                        .error Exc.invalidArgument
                    else
                      .error Exc.invalidArgument
                  else
                    .error Exc.invalidArgument
                else
                  .error Exc.invalidArgument
              else
                .error Exc.invalidArgument
            else
              .error Exc.invalidArgument
          else
            .error Exc.invalidArgument
        else
          .error Exc.invalidArgument
      else
        .error Exc.invalidArgument

/-- extracted from the C++ template at T = Sym; 15 path(s) -/
def C07.M44.inverse0 {α : Type} [Add α] [Sub α] [Mul α] [Div α] [Neg α] [LT α] [LE α] [DecidableLT α] [DecidableLE α] [DecidableEq α] [OfNat α 0] [OfNat α 1] (tmin : α) (gj44 : M44 α → M44 α) (a : M44 α) : (M44 α) :=
  let t39 := ((a.x00 * a.x11) - (a.x10 * a.x01))
  let t40 := (sabs t39)
  let t67 := ((a.x20 * a.x01) - (a.x00 * a.x21))
  let t70 := ((a.x10 * a.x21) - (a.x20 * a.x11))
  let t73 := ((a.x10 * a.x02) - (a.x00 * a.x12))
  let t76 := ((a.x00 * a.x22) - (a.x20 * a.x02))
  let t79 := ((a.x20 * a.x12) - (a.x10 * a.x22))
  let t82 := ((a.x01 * a.x12) - (a.x11 * a.x02))
  let t85 := ((a.x21 * a.x02) - (a.x01 * a.x22))
  let t88 := ((a.x11 * a.x22) - (a.x21 * a.x12))
  let t93 := (((a.x00 * t88) + (a.x01 * t79)) + (a.x02 * t70))
  let t94 := (sabs t93)
  let t95 := (t88 / t93)
  let t96 := (t85 / t93)
  let t97 := (t82 / t93)
  let t98 := (t79 / t93)
  let t99 := (t76 / t93)
  let t100 := (t73 / t93)
  let t101 := (t70 / t93)
  let t102 := (t67 / t93)
  let t103 := (t39 / t93)
  let t104 := (t94 / tmin)
  let t105 := (sabs t88)
  let t106 := (sabs t85)
  let t107 := (sabs t82)
  let t108 := (sabs t79)
  let t109 := (sabs t76)
  let t110 := (sabs t73)
  let t111 := (sabs t70)
  let t112 := (sabs t67)
  let t122 := (-a.x30)
  let t125 := (((t122 * t95) - (a.x31 * t98)) - (a.x32 * t101))
  let t130 := (((t122 * t96) - (a.x31 * t99)) - (a.x32 * t102))
  let t135 := (((t122 * t97) - (a.x31 * t100)) - (a.x32 * t103))
  let t136 := (gj44 ⟨a.x00, a.x01, a.x02, a.x03, a.x10, a.x11, a.x12, a.x13, a.x20, a.x21, a.x22, a.x23, a.x30, a.x31, a.x32, a.x33⟩)
  if a.x03 = (0 : α) then
    if a.x13 = (0 : α) then
      if a.x23 = (0 : α) then
        if a.x33 = (1 : α) then
          if (1 : α) ≤ t94 then
            ⟨t95, t96, t97, (0 : α), t98, t99, t100, (0 : α), t101, t102, t103, (0 : α), t125, t130, t135, (1 : α)⟩
          else
            if t105 < t104 then
              if t106 < t104 then
                if t107 < t104 then
                  if t108 < t104 then
                    if t109 < t104 then
                      if t110 < t104 then
                        if t111 < t104 then
                          if t112 < t104 then
                            if t40 < t104 then
                              ⟨t95, t96, t97, (0 : α), t98, t99, t100, (0 : α), t101, t102, t103, (0 : α), t125, t130, t135, (1 : α)⟩
                            else
                              ⟨(1 : α), (0 : α), (0 : α), (0 : α), (0 : α), (1 : α), (0 : α), (0 : α), (0 : α), (0 : α), (1 : α), (0 : α), (0 : α), (0 : α), (0 : α), (1 : α)⟩
                          else
                            ⟨(1 : α), (0 : α), (0 : α), (0 : α), (0 : α), (1 : α), (0 : α), (0 : α), (0 : α), (0 : α), (1 : α), (0 : α), (0 : α), (0 : α), (0 : α), (1 : α)⟩
                        else
                          ⟨(1 : α), (0 : α), (0 : α), (0 : α), (0 : α), (1 : α), (0 : α), (0 : α), (0 : α), (0 : α), (1 : α), (0 : α), (0 : α), (0 : α), (0 : α), (1 : α)⟩
                      else
                        ⟨(1 : α), (0 : α), (0 : α), (0 : α), (0 : α), (1 : α), (0 : α), (0 : α), (0 : α), (0 : α), (1 : α), (0 : α), (0 : α), (0 : α), (0 : α), (1 : α)⟩
                    else
                      ⟨(1 : α), (0 : α), (0 : α), (0 : α), (0 : α), (1 : α), (0 : α), (0 : α), (0 : α), (0 : α), (1 : α), (0 : α), (0 : α), (0 : α), (0 : α), (1 : α)⟩
                  else
                    ⟨(1 : α), (0 : α), (0 : α), (0 : α), (0 : α), (1 : α), (0 : α), (0 : α), (0 : α), (0 : α), (1 : α), (0 : α), (0 : α), (0 : α), (0 : α), (1 : α)⟩
                else
                  ⟨(1 : α), (0 : α), (0 : α), (0 : α), (0 : α), (1 : α), (0 : α), (0 : α), (0 : α), (0 : α), (1 : α), (0 : α), (0 : α), (0 : α), (0 : α), (1 : α)⟩
              else
                ⟨(1 : α), (0 : α), (0 : α), (0 : α), (0 : α), (1 : α), (0 : α), (0 : α), (0 : α), (0 : α), (1 : α), (0 : α), (0 : α), (0 : α), (0 : α), (1 : α)⟩
            else
              ⟨(1 : α), (0 : α), (0 : α), (0 : α), (0 : α), (1 : α), (0 : α), (0 : α), (0 : α), (0 : α), (1 : α), (0 : α), (0 : α), (0 : α), (0 : α), (1 : α)⟩
        else
          ⟨(t136).x00, (t136).x01, (t136).x02, (t136).x03, (t136).x10, (t136).x11, (t136).x12, (t136).x13, (t136).x20, (t136).x21, (t136).x22, (t136).x23, (t136).x30, (t136).x31, (t136).x32, (t136).x33⟩
      else
        ⟨(t136).x00, (t136).x01, (t136).x02, (t136).x03, (t136).x10, (t136).x11, (t136).x12, (t136).x13, (t136).x20, (t136).x21, (t136).x22, (t136).x23, (t136).x30, (t136).x31, (t136).x32, (t136).x33⟩
    else
      ⟨(t136).x00, (t136).x01, (t136).x02, (t136).x03, (t136).x10, (t136).x11, (t136).x12, (t136).x13, (t136).x20, (t136).x21, (t136).x22, (t136).x23, (t136).x30, (t136).x31, (t136).x32, (t136).x33⟩
  else
    ⟨(t136).x00, (t136).x01, (t136).x02, (t136).x03, (t136).x10, (t136).x11, (t136).x12, (t136).x13, (t136).x20, (t136).x21, (t136).x22, (t136).x23, (t136).x30, (t136).x31, (t136).x32, (t136).x33⟩

/-- extracted from the C++ template at T = Sym; 15 path(s) -/
def C07.M44.inverseF {α : Type} [Add α] [Sub α] [Mul α] [Div α] [Neg α] [LT α] [LE α] [DecidableLT α] [DecidableLE α] [DecidableEq α] [OfNat α 0] [OfNat α 1] (tmin : α) (gj44F : M44 α → M44 α) (a : M44 α) : (M44 α) :=
  let t39 := ((a.x00 * a.x11) - (a.x10 * a.x01))
  let t40 := (sabs t39)
  let t67 := ((a.x20 * a.x01) - (a.x00 * a.x21))
  let t70 := ((a.x10 * a.x21) - (a.x20 * a.x11))
  let t73 := ((a.x10 * a.x02) - (a.x00 * a.x12))
  let t76 := ((a.x00 * a.x22) - (a.x20 * a.x02))
  let t79 := ((a.x20 * a.x12) - (a.x10 * a.x22))
  let t82 := ((a.x01 * a.x12) - (a.x11 * a.x02))
  let t85 := ((a.x21 * a.x02) - (a.x01 * a.x22))
  let t88 := ((a.x11 * a.x22) - (a.x21 * a.x12))
  let t93 := (((a.x00 * t88) + (a.x01 * t79)) + (a.x02 * t70))
  let t94 := (sabs t93)
  let t95 := (t88 / t93)
  let t96 := (t85 / t93)
  let t97 := (t82 / t93)
  let t98 := (t79 / t93)
  let t99 := (t76 / t93)
  let t100 := (t73 / t93)
  let t101 := (t70 / t93)
  let t102 := (t67 / t93)
  let t103 := (t39 / t93)
  let t104 := (t94 / tmin)
  let t105 := (sabs t88)
  let t106 := (sabs t85)
  let t107 := (sabs t82)
  let t108 := (sabs t79)
  let t109 := (sabs t76)
  let t110 := (sabs t73)
  let t111 := (sabs t70)
  let t112 := (sabs t67)
  let t122 := (-a.x30)
  let t125 := (((t122 * t95) - (a.x31 * t98)) - (a.x32 * t101))
  let t130 := (((t122 * t96) - (a.x31 * t99)) - (a.x32 * t102))
  let t135 := (((t122 * t97) - (a.x31 * t100)) - (a.x32 * t103))
  let t153 := (gj44F ⟨a.x00, a.x01, a.x02, a.x03, a.x10, a.x11, a.x12, a.x13, a.x20, a.x21, a.x22, a.x23, a.x30, a.x31, a.x32, a.x33⟩)
  if a.x03 = (0 : α) then
    if a.x13 = (0 : α) then
      if a.x23 = (0 : α) then
        if a.x33 = (1 : α) then
          if (1 : α) ≤ t94 then
            ⟨t95, t96, t97, (0 : α), t98, t99, t100, (0 : α), t101, t102, t103, (0 : α), t125, t130, t135, (1 : α)⟩
          else
            if t105 < t104 then
              if t106 < t104 then
                if t107 < t104 then
                  if t108 < t104 then
                    if t109 < t104 then
                      if t110 < t104 then
                        if t111 < t104 then
                          if t112 < t104 then
                            if t40 < t104 then
                              ⟨t95, t96, t97, (0 : α), t98, t99, t100, (0 : α), t101, t102, t103, (0 : α), t125, t130, t135, (1 : α)⟩
                            else
                              ⟨(1 : α), (0 : α), (0 : α), (0 : α), (0 : α), (1 : α), (0 : α), (0 : α), (0 : α), (0 : α), (1 : α), (0 : α), (0 : α), (0 : α), (0 : α), (1 : α)⟩
                          else
                            ⟨(1 : α), (0 : α), (0 : α), (0 : α), (0 : α), (1 : α), (0 : α), (0 : α), (0 : α), (0 : α), (1 : α), (0 : α), (0 : α), (0 : α), (0 : α), (1 : α)⟩
                        else
                          ⟨(1 : α), (0 : α), (0 : α), (0 : α), (0 : α), (1 : α), (0 : α), (0 : α), (0 : α), (0 : α), (1 : α), (0 : α), (0 : α), (0 : α), (0 : α), (1 : α)⟩
                      else
                        ⟨(1 : α), (0 : α), (0 : α), (0 : α), (0 : α), (1 : α), (0 : α), (0 : α), (0 : α), (0 : α), (1 : α), (0 : α), (0 : α), (0 : α), (0 : α), (1 : α)⟩
                    else
                      ⟨(1 : α), (0 : α), (0 : α), (0 : α), (0 : α), (1 : α), (0 : α), (0 : α), (0 : α), (0 : α), (1 : α), (0 : α), (0 : α), (0 : α), (0 : α), (1 : α)⟩
                  else
                    ⟨(1 : α), (0 : α), (0 : α), (0 : α), (0 : α), (1 : α), (0 : α), (0 : α), (0 : α), (0 : α), (1 : α), (0 : α), (0 : α), (0 : α), (0 : α), (1 : α)⟩
                else
                  ⟨(1 : α), (0 : α), (0 : α), (0 : α), (0 : α), (1 : α), (0 : α), (0 : α), (0 : α), (0 : α), (1 : α), (0 : α), (0 : α), (0 : α), (0 : α), (1 : α)⟩
              else
                ⟨(1 : α), (0 : α), (0 : α), (0 : α), (0 : α), (1 : α), (0 : α), (0 : α), (0 : α), (0 : α), (1 : α), (0 : α), (0 : α), (0 : α), (0 : α), (1 : α)⟩
            else
              ⟨(1 : α), (0 : α), (0 : α), (0 : α), (0 : α), (1 : α), (0 : α), (0 : α), (0 : α), (0 : α), (1 : α), (0 : α), (0 : α), (0 : α), (0 : α), (1 : α)⟩
        else
          ⟨(t153).x00, (t153).x01, (t153).x02, (t153).x03, (t153).x10, (t153).x11, (t153).x12, (t153).x13, (t153).x20, (t153).x21, (t153).x22, (t153).x23, (t153).x30, (t153).x31, (t153).x32, (t153).x33⟩
      else
        ⟨(t153).x00, (t153).x01, (t153).x02, (t153).x03, (t153).x10, (t153).x11, (t153).x12, (t153).x13, (t153).x20, (t153).x21, (t153).x22, (t153).x23, (t153).x30, (t153).x31, (t153).x32, (t153).x33⟩
    else
      ⟨(t153).x00, (t153).x01, (t153).x02, (t153).x03, (t153).x10, (t153).x11, (t153).x12, (t153).x13, (t153).x20, (t153).x21, (t153).x22, (t153).x23, (t153).x30, (t153).x31, (t153).x32, (t153).x33⟩
  else
    ⟨(t153).x00, (t153).x01, (t153).x02, (t153).x03, (t153).x10, (t153).x11, (t153).x12, (t153).x13, (t153).x20, (t153).x21, (t153).x22, (t153).x23, (t153).x30, (t153).x31, (t153).x32, (t153).x33⟩

/-- extracted from the C++ template at T = Sym; 19 path(s) -/
def C07.M44.inverseT {α : Type} [Add α] [Sub α] [Mul α] [Div α] [Neg α] [LT α] [LE α] [DecidableLT α] [DecidableLE α] [DecidableEq α] [OfNat α 0] [OfNat α 1] (tmin : α) (gj44Tstatus : M44 α → α) (gj44Tvalue : M44 α → M44 α) (a : M44 α) : Except Exc (M44 α) :=
  let t39 := ((a.x00 * a.x11) - (a.x10 * a.x01))
  let t40 := (sabs t39)
  let t67 := ((a.x20 * a.x01) - (a.x00 * a.x21))
  let t70 := ((a.x10 * a.x21) - (a.x20 * a.x11))
  let t73 := ((a.x10 * a.x02) - (a.x00 * a.x12))
  let t76 := ((a.x00 * a.x22) - (a.x20 * a.x02))
  let t79 := ((a.x20 * a.x12) - (a.x10 * a.x22))
  let t82 := ((a.x01 * a.x12) - (a.x11 * a.x02))
  let t85 := ((a.x21 * a.x02) - (a.x01 * a.x22))
  let t88 := ((a.x11 * a.x22) - (a.x21 * a.x12))
  let t93 := (((a.x00 * t88) + (a.x01 * t79)) + (a.x02 * t70))
  let t94 := (sabs t93)
  let t95 := (t88 / t93)
  let t96 := (t85 / t93)
  let t97 := (t82 / t93)
  let t98 := (t79 / t93)
  let t99 := (t76 / t93)
  let t100 := (t73 / t93)
  let t101 := (t70 / t93)
  let t102 := (t67 / t93)
  let t103 := (t39 / t93)
  let t104 := (t94 / tmin)
  let t105 := (sabs t88)
  let t106 := (sabs t85)
  let t107 := (sabs t82)
  let t108 := (sabs t79)
  let t109 := (sabs t76)
  let t110 := (sabs t73)
  let t111 := (sabs t70)
  let t112 := (sabs t67)
  let t122 := (-a.x30)
  let t125 := (((t122 * t95) - (a.x31 * t98)) - (a.x32 * t101))
  let t130 := (((t122 * t96) - (a.x31 * t99)) - (a.x32 * t102))
  let t135 := (((t122 * t97) - (a.x31 * t100)) - (a.x32 * t103))
  let t170 := (gj44Tstatus ⟨a.x00, a.x01, a.x02, a.x03, a.x10, a.x11, a.x12, a.x13, a.x20, a.x21, a.x22, a.x23, a.x30, a.x31, a.x32, a.x33⟩)
  let t171 := (gj44Tvalue ⟨a.x00, a.x01, a.x02, a.x03, a.x10, a.x11, a.x12, a.x13, a.x20, a.x21, a.x22, a.x23, a.x30, a.x31, a.x32, a.x33⟩)
  if a.x03 = (0 : α) then
    if a.x13 = (0 : α) then
      if a.x23 = (0 : α) then
        if a.x33 = (1 : α) then
          if (1 : α) ≤ t94 then
            .ok (⟨t95, t96, t97, (0 : α), t98, t99, t100, (0 : α), t101, t102, t103, (0 : α), t125, t130, t135, (1 : α)⟩)
          else
            if t105 < t104 then
              if t106 < t104 then
                if t107 < t104 then
                  if t108 < t104 then
                    if t109 < t104 then
                      if t110 < t104 then
                        if t111 < t104 then
                          if t112 < t104 then
                            if t40 < t104 then
                              .ok (⟨t95, t96, t97, (0 : α), t98, t99, t100, (0 : α), t101, t102, t103, (0 : α), t125, t130, t135, (1 : α)⟩)
                            else
                              .error Exc.invalidArgument
                          else
                            .error Exc.invalidArgument
                        else
                          .error Exc.invalidArgument
                      else
                        .error Exc.invalidArgument
                    else
                      .error Exc.invalidArgument
                  else
                    .error Exc.invalidArgument
                else
                  .error Exc.invalidArgument
              else
                .error Exc.invalidArgument
            else
              .error Exc.invalidArgument
        else
          if t170 = (0 : α) then
            .ok (⟨(t171).x00, (t171).x01, (t171).x02, (t171).x03, (t171).x10, (t171).x11, (t171).x12, (t171).x13, (t171).x20, (t171).x21, (t171).x22, (t171).x23, (t171).x30, (t171).x31, (t171).x32, (t171).x33⟩)
          else
            .error Exc.invalidArgument
      else
        if t170 = (0 : α) then
          .ok (⟨(t171).x00, (t171).x01, (t171).x02, (t171).x03, (t171).x10, (t171).x11, (t171).x12, (t171).x13, (t171).x20, (t171).x21, (t171).x22, (t171).x23, (t171).x30, (t171).x31, (t171).x32, (t171).x33⟩)
        else
          .error Exc.invalidArgument
    else
      if t170 = (0 : α) then
        .ok (⟨(t171).x00, (t171).x01, (t171).x02, (t171).x03, (t171).x10, (t171).x11, (t171).x12, (t171).x13, (t171).x20, (t171).x21, (t171).x22, (t171).x23, (t171).x30, (t171).x31, (t171).x32, (t171).x33⟩)
      else
        .error Exc.invalidArgument
  else
    if t170 = (0 : α) then
      .ok (⟨(t171).x00, (t171).x01, (t171).x02, (t171).x03, (t171).x10, (t171).x11, (t171).x12, (t171).x13, (t171).x20, (t171).x21, (t171).x22, (t171).x23, (t171).x30, (t171).x31, (t171).x32, (t171).x33⟩)
    else
      .error Exc.invalidArgument

/-- extracted from the C++ template at T = Sym; 15 path(s) -/
def C07.M44.invert0 {α : Type} [Add α] [Sub α] [Mul α] [Div α] [Neg α] [LT α] [LE α] [DecidableLT α] [DecidableLE α] [DecidableEq α] [OfNat α 0] [OfNat α 1] (tmin : α) (gj44 : M44 α → M44 α) (a : M44 α) : (M44 α) :=
  let t39 := ((a.x00 * a.x11) - (a.x10 * a.x01))
  let t40 := (sabs t39)
  let t67 := ((a.x20 * a.x01) - (a.x00 * a.x21))
  let t70 := ((a.x10 * a.x21) - (a.x20 * a.x11))
  let t73 := ((a.x10 * a.x02) - (a.x00 * a.x12))
  let t76 := ((a.x00 * a.x22) - (a.x20 * a.x02))
  let t79 := ((a.x20 * a.x12) - (a.x10 * a.x22))
  let t82 := ((a.x01 * a.x12) - (a.x11 * a.x02))
  let t85 := ((a.x21 * a.x02) - (a.x01 * a.x22))
  let t88 := ((a.x11 * a.x22) - (a.x21 * a.x12))
  let t93 := (((a.x00 * t88) + (a.x01 * t79)) + (a.x02 * t70))
  let t94 := (sabs t93)
  let t95 := (t88 / t93)
  let t96 := (t85 / t93)
  let t97 := (t82 / t93)
  let t98 := (t79 / t93)
  let t99 := (t76 / t93)
  let t100 := (t73 / t93)
  let t101 := (t70 / t93)
  let t102 := (t67 / t93)
  let t103 := (t39 / t93)
  let t104 := (t94 / tmin)
  let t105 := (sabs t88)
  let t106 := (sabs t85)
  let t107 := (sabs t82)
  let t108 := (sabs t79)
  let t109 := (sabs t76)
  let t110 := (sabs t73)
  let t111 := (sabs t70)
  let t112 := (sabs t67)
  let t122 := (-a.x30)
  let t125 := (((t122 * t95) - (a.x31 * t98)) - (a.x32 * t101))
  let t130 := (((t122 * t96) - (a.x31 * t99)) - (a.x32 * t102))
  let t135 := (((t122 * t97) - (a.x31 * t100)) - (a.x32 * t103))
  let t136 := (gj44 ⟨a.x00, a.x01, a.x02, a.x03, a.x10, a.x11, a.x12, a.x13, a.x20, a.x21, a.x22, a.x23, a.x30, a.x31, a.x32, a.x33⟩)
  if a.x03 = (0 : α) then
    if a.x13 = (0 : α) then
      if a.x23 = (0 : α) then
        if a.x33 = (1 : α) then
          if (1 : α) ≤ t94 then
            ⟨t95, t96, t97, (0 : α), t98, t99, t100, (0 : α), t101, t102, t103, (0 : α), t125, t130, t135, (1 : α)⟩
          else
            if t105 < t104 then
              if t106 < t104 then
                if t107 < t104 then
                  if t108 < t104 then
                    if t109 < t104 then
                      if t110 < t104 then
                        if t111 < t104 then
                          if t112 < t104 then
                            if t40 < t104 then
                              ⟨t95, t96, t97, (0 : α), t98, t99, t100, (0 : α), t101, t102, t103, (0 : α), t125, t130, t135, (1 : α)⟩
                            else
                              ⟨(1 : α), (0 : α), (0 : α), (0 : α), (0 : α), (1 : α), (0 : α), (0 : α), (0 : α), (0 : α), (1 : α), (0 : α), (0 : α), (0 : α), (0 : α), (1 : α)⟩
                          else
                            ⟨(1 : α), (0 : α), (0 : α), (0 : α), (0 : α), (1 : α), (0 : α), (0 : α), (0 : α), (0 : α), (1 : α), (0 : α), (0 : α), (0 : α), (0 : α), (1 : α)⟩
                        else
                          ⟨(1 : α), (0 : α), (0 : α), (0 : α), (0 : α), (1 : α), (0 : α), (0 : α), (0 : α), (0 : α), (1 : α), (0 : α), (0 : α), (0 : α), (0 : α), (1 : α)⟩
                      else
                        ⟨(1 : α), (0 : α), (0 : α), (0 : α), (0 : α), (1 : α), (0 : α), (0 : α), (0 : α), (0 : α), (1 : α), (0 : α), (0 : α), (0 : α), (0 : α), (1 : α)⟩
                    else
                      ⟨(1 : α), (0 : α), (0 : α), (0 : α), (0 : α), (1 : α), (0 : α), (0 : α), (0 : α), (0 : α), (1 : α), (0 : α), (0 : α), (0 : α), (0 : α), (1 : α)⟩
                  else
                    ⟨(1 : α), (0 : α), (0 : α), (0 : α), (0 : α), (1 : α), (0 : α), (0 : α), (0 : α), (0 : α), (1 : α), (0 : α), (0 : α), (0 : α), (0 : α), (1 : α)⟩
                else
                  ⟨(1 : α), (0 : α), (0 : α), (0 : α), (0 : α), (1 : α), (0 : α), (0 : α), (0 : α), (0 : α), (1 : α), (0 : α), (0 : α), (0 : α), (0 : α), (1 : α)⟩
              else
                ⟨(1 : α), (0 : α), (0 : α), (0 : α), (0 : α), (1 : α), (0 : α), (0 : α), (0 : α), (0 : α), (1 : α), (0 : α), (0 : α), (0 : α), (0 : α), (1 : α)⟩
            else
              ⟨(1 : α), (0 : α), (0 : α), (0 : α), (0 : α), (1 : α), (0 : α), (0 : α), (0 : α), (0 : α), (1 : α), (0 : α), (0 : α), (0 : α), (0 : α), (1 : α)⟩
        else
          ⟨(t136).x00, (t136).x01, (t136).x02, (t136).x03, (t136).x10, (t136).x11, (t136).x12, (t136).x13, (t136).x20, (t136).x21, (t136).x22, (t136).x23, (t136).x30, (t136).x31, (t136).x32, (t136).x33⟩
      else
        ⟨(t136).x00, (t136).x01, (t136).x02, (t136).x03, (t136).x10, (t136).x11, (t136).x12, (t136).x13, (t136).x20, (t136).x21, (t136).x22, (t136).x23, (t136).x30, (t136).x31, (t136).x32, (t136).x33⟩
    else
      ⟨(t136).x00, (t136).x01, (t136).x02, (t136).x03, (t136).x10, (t136).x11, (t136).x12, (t136).x13, (t136).x20, (t136).x21, (t136).x22, (t136).x23, (t136).x30, (t136).x31, (t136).x32, (t136).x33⟩
  else
    ⟨(t136).x00, (t136).x01, (t136).x02, (t136).x03, (t136).x10, (t136).x11, (t136).x12, (t136).x13, (t136).x20, (t136).x21, (t136).x22, (t136).x23, (t136).x30, (t136).x31, (t136).x32, (t136).x33⟩

/-- extracted from the C++ template at T = Sym; 15 path(s) -/
def C07.M44.invertF {α : Type} [Add α] [Sub α] [Mul α] [Div α] [Neg α] [LT α] [LE α] [DecidableLT α] [DecidableLE α] [DecidableEq α] [OfNat α 0] [OfNat α 1] (tmin : α) (gj44F : M44 α → M44 α) (a : M44 α) : (M44 α) :=
  let t39 := ((a.x00 * a.x11) - (a.x10 * a.x01))
  let t40 := (sabs t39)
  let t67 := ((a.x20 * a.x01) - (a.x00 * a.x21))
  let t70 := ((a.x10 * a.x21) - (a.x20 * a.x11))
  let t73 := ((a.x10 * a.x02) - (a.x00 * a.x12))
  let t76 := ((a.x00 * a.x22) - (a.x20 * a.x02))
  let t79 := ((a.x20 * a.x12) - (a.x10 * a.x22))
  let t82 := ((a.x01 * a.x12) - (a.x11 * a.x02))
  let t85 := ((a.x21 * a.x02) - (a.x01 * a.x22))
  let t88 := ((a.x11 * a.x22) - (a.x21 * a.x12))
  let t93 := (((a.x00 * t88) + (a.x01 * t79)) + (a.x02 * t70))
  let t94 := (sabs t93)
  let t95 := (t88 / t93)
  let t96 := (t85 / t93)
  let t97 := (t82 / t93)
  let t98 := (t79 / t93)
  let t99 := (t76 / t93)
  let t100 := (t73 / t93)
  let t101 := (t70 / t93)
  let t102 := (t67 / t93)
  let t103 := (t39 / t93)
  let t104 := (t94 / tmin)
  let t105 := (sabs t88)
  let t106 := (sabs t85)
  let t107 := (sabs t82)
  let t108 := (sabs t79)
  let t109 := (sabs t76)
  let t110 := (sabs t73)
  let t111 := (sabs t70)
  let t112 := (sabs t67)
  let t122 := (-a.x30)
  let t125 := (((t122 * t95) - (a.x31 * t98)) - (a.x32 * t101))
  let t130 := (((t122 * t96) - (a.x31 * t99)) - (a.x32 * t102))
  let t135 := (((t122 * t97) - (a.x31 * t100)) - (a.x32 * t103))
  let t153 := (gj44F ⟨a.x00, a.x01, a.x02, a.x03, a.x10, a.x11, a.x12, a.x13, a.x20, a.x21, a.x22, a.x23, a.x30, a.x31, a.x32, a.x33⟩)
  if a.x03 = (0 : α) then
    if a.x13 = (0 : α) then
      if a.x23 = (0 : α) then
        if a.x33 = (1 : α) then
          if (1 : α) ≤ t94 then
            ⟨t95, t96, t97, (0 : α), t98, t99, t100, (0 : α), t101, t102, t103, (0 : α), t125, t130, t135, (1 : α)⟩
          else
            if t105 < t104 then
              if t106 < t104 then
                if t107 < t104 then
                  if t108 < t104 then
                    if t109 < t104 then
                      if t110 < t104 then
                        if t111 < t104 then
                          if t112 < t104 then
                            if t40 < t104 then
                              ⟨t95, t96, t97, (0 : α), t98, t99, t100, (0 : α), t101, t102, t103, (0 : α), t125, t130, t135, (1 : α)⟩
                            else
                              ⟨(1 : α), (0 : α), (0 : α), (0 : α), (0 : α), (1 : α), (0 : α), (0 : α), (0 : α), (0 : α), (1 : α), (0 : α), (0 : α), (0 : α), (0 : α), (1 : α)⟩
                          else
                            ⟨(1 : α), (0 : α), (0 : α), (0 : α), (0 : α), (1 : α), (0 : α), (0 : α), (0 : α), (0 : α), (1 : α), (0 : α), (0 : α), (0 : α), (0 : α), (1 : α)⟩
                        else
                          ⟨(1 : α), (0 : α), (0 : α), (0 : α), (0 : α), (1 : α), (0 : α), (0 : α), (0 : α), (0 : α), (1 : α), (0 : α), (0 : α), (0 : α), (0 : α), (1 : α)⟩
                      else
                        ⟨(1 : α), (0 : α), (0 : α), (0 : α), (0 : α), (1 : α), (0 : α), (0 : α), (0 : α), (0 : α), (1 : α), (0 : α), (0 : α), (0 : α), (0 : α), (1 : α)⟩
                    else
                      ⟨(1 : α), (0 : α), (0 : α), (0 : α), (0 : α), (1 : α), (0 : α), (0 : α), (0 : α), (0 : α), (1 : α), (0 : α), (0 : α), (0 : α), (0 : α), (1 : α)⟩
                  else
                    ⟨(1 : α), (0 : α), (0 : α), (0 : α), (0 : α), (1 : α), (0 : α), (0 : α), (0 : α), (0 : α), (1 : α), (0 : α), (0 : α), (0 : α), (0 : α), (1 : α)⟩
                else
                  ⟨(1 : α), (0 : α), (0 : α), (0 : α), (0 : α), (1 : α), (0 : α), (0 : α), (0 : α), (0 : α), (1 : α), (0 : α), (0 : α), (0 : α), (0 : α), (1 : α)⟩
              else
                ⟨(1 : α), (0 : α), (0 : α), (0 : α), (0 : α), (1 : α), (0 : α), (0 : α), (0 : α), (0 : α), (1 : α), (0 : α), (0 : α), (0 : α), (0 : α), (1 : α)⟩
            else
              ⟨(1 : α), (0 : α), (0 : α), (0 : α), (0 : α), (1 : α), (0 : α), (0 : α), (0 : α), (0 : α), (1 : α), (0 : α), (0 : α), (0 : α), (0 : α), (1 : α)⟩
        else
          ⟨(t153).x00, (t153).x01, (t153).x02, (t153).x03, (t153).x10, (t153).x11, (t153).x12, (t153).x13, (t153).x20, (t153).x21, (t153).x22, (t153).x23, (t153).x30, (t153).x31, (t153).x32, (t153).x33⟩
      else
        ⟨(t153).x00, (t153).x01, (t153).x02, (t153).x03, (t153).x10, (t153).x11, (t153).x12, (t153).x13, (t153).x20, (t153).x21, (t153).x22, (t153).x23, (t153).x30, (t153).x31, (t153).x32, (t153).x33⟩
    else
      ⟨(t153).x00, (t153).x01, (t153).x02, (t153).x03, (t153).x10, (t153).x11, (t153).x12, (t153).x13, (t153).x20, (t153).x21, (t153).x22, (t153).x23, (t153).x30, (t153).x31, (t153).x32, (t153).x33⟩
  else
    ⟨(t153).x00, (t153).x01, (t153).x02, (t153).x03, (t153).x10, (t153).x11, (t153).x12, (t153).x13, (t153).x20, (t153).x21, (t153).x22, (t153).x23, (t153).x30, (t153).x31, (t153).x32, (t153).x33⟩

/-- extracted from the C++ template at T = Sym; 19 path(s) -/
def C07.M44.invertT {α : Type} [Add α] [Sub α] [Mul α] [Div α] [Neg α] [LT α] [LE α] [DecidableLT α] [DecidableLE α] [DecidableEq α] [OfNat α 0] [OfNat α 1] (tmin : α) (gj44Tstatus : M44 α → α) (gj44Tvalue : M44 α → M44 α) (a : M44 α) : Except Exc (M44 α) :=
  let t39 := ((a.x00 * a.x11) - (a.x10 * a.x01))
  let t40 := (sabs t39)
  let t67 := ((a.x20 * a.x01) - (a.x00 * a.x21))
  let t70 := ((a.x10 * a.x21) - (a.x20 * a.x11))
  let t73 := ((a.x10 * a.x02) - (a.x00 * a.x12))
  let t76 := ((a.x00 * a.x22) - (a.x20 * a.x02))
  let t79 := ((a.x20 * a.x12) - (a.x10 * a.x22))
  let t82 := ((a.x01 * a.x12) - (a.x11 * a.x02))
  let t85 := ((a.x21 * a.x02) - (a.x01 * a.x22))
  let t88 := ((a.x11 * a.x22) - (a.x21 * a.x12))
  let t93 := (((a.x00 * t88) + (a.x01 * t79)) + (a.x02 * t70))
  let t94 := (sabs t93)
  let t95 := (t88 / t93)
  let t96 := (t85 / t93)
  let t97 := (t82 / t93)
  let t98 := (t79 / t93)
  let t99 := (t76 / t93)
  let t100 := (t73 / t93)
  let t101 := (t70 / t93)
  let t102 := (t67 / t93)
  let t103 := (t39 / t93)
  let t104 := (t94 / tmin)
  let t105 := (sabs t88)
  let t106 := (sabs t85)
  let t107 := (sabs t82)
  let t108 := (sabs t79)
  let t109 := (sabs t76)
  let t110 := (sabs t73)
  let t111 := (sabs t70)
  let t112 := (sabs t67)
  let t122 := (-a.x30)
  let t125 := (((t122 * t95) - (a.x31 * t98)) - (a.x32 * t101))
  let t130 := (((t122 * t96) - (a.x31 * t99)) - (a.x32 * t102))
  let t135 := (((t122 * t97) - (a.x31 * t100)) - (a.x32 * t103))
  let t170 := (gj44Tstatus ⟨a.x00, a.x01, a.x02, a.x03, a.x10, a.x11, a.x12, a.x13, a.x20, a.x21, a.x22, a.x23, a.x30, a.x31, a.x32, a.x33⟩)
  let t171 := (gj44Tvalue ⟨a.x00, a.x01, a.x02, a.x03, a.x10, a.x11, a.x12, a.x13, a.x20, a.x21, a.x22, a.x23, a.x30, a.x31, a.x32, a.x33⟩)
  if a.x03 = (0 : α) then
    if a.x13 = (0 : α) then
      if a.x23 = (0 : α) then
        if a.x33 = (1 : α) then
          if (1 : α) ≤ t94 then
            .ok (⟨t95, t96, t97, (0 : α), t98, t99, t100, (0 : α), t101, t102, t103, (0 : α), t125, t130, t135, (1 : α)⟩)
          else
            if t105 < t104 then
              if t106 < t104 then
                if t107 < t104 then
                  if t108 < t104 then
                    if t109 < t104 then
                      if t110 < t104 then
                        if t111 < t104 then
                          if t112 < t104 then
                            if t40 < t104 then
                              .ok (⟨t95, t96, t97, (0 : α), t98, t99, t100, (0 : α), t101, t102, t103, (0 : α), t125, t130, t135, (1 : α)⟩)
                            else
                              .error Exc.invalidArgument
                          else
                            .error Exc.invalidArgument
                        else
                          .error Exc.invalidArgument
                      else
                        .error Exc.invalidArgument
                    else
                      .error Exc.invalidArgument
                  else
                    .error Exc.invalidArgument
                else
                  .error Exc.invalidArgument
              else
                .error Exc.invalidArgument
            else
              .error Exc.invalidArgument
        else
          if t170 = (0 : α) then
            .ok (⟨(t171).x00, (t171).x01, (t171).x02, (t171).x03, (t171).x10, (t171).x11, (t171).x12, (t171).x13, (t171).x20, (t171).x21, (t171).x22, (t171).x23, (t171).x30, (t171).x31, (t171).x32, (t171).x33⟩)
          else
            .error Exc.invalidArgument
      else
        if t170 = (0 : α) then
          .ok (⟨(t171).x00, (t171).x01, (t171).x02, (t171).x03, (t171).x10, (t171).x11, (t171).x12, (t171).x13, (t171).x20, (t171).x21, (t171).x22, (t171).x23, (t171).x30, (t171).x31, (t171).x32, (t171).x33⟩)
        else
          .error Exc.invalidArgument
    else
      if t170 = (0 : α) then
        .ok (⟨(t171).x00, (t171).x01, (t171).x02, (t171).x03, (t171).x10, (t171).x11, (t171).x12, (t171).x13, (t171).x20, (t171).x21, (t171).x22, (t171).x23, (t171).x30, (t171).x31, (t171).x32, (t171).x33⟩)
      else
        .error Exc.invalidArgument
  else
    if t170 = (0 : α) then
      .ok (⟨(t171).x00, (t171).x01, (t171).x02, (t171).x03, (t171).x10, (t171).x11, (t171).x12, (t171).x13, (t171).x20, (t171).x21, (t171).x22, (t171).x23, (t171).x30, (t171).x31, (t171).x32, (t171).x33⟩)
    else
      .error Exc.invalidArgument

end ImathVerif.Gen
