-- GENERATED from /repo/src/Imath by harness/sym (T = Sym path extraction); do not edit.
import ImathVerif.Basic.Types
set_option linter.unusedVariables false
namespace ImathVerif.Gen
open ImathVerif

/-- extracted from the C++ template at T = Sym; 6 path(s) -/
def C07.M22.inverse0 {α : Type} [Sub α] [Mul α] [Div α] [Neg α] [LT α] [LE α] [DecidableLT α] [DecidableLE α] [OfNat α 0] [OfNat α 1] (tmin : α) (a : M22 α) : (M22 α) :=
  let t35 := (-a.x10)
  let t36 := (-a.x01)
  let t39 := ((a.x00 * a.x11) - (a.x10 * a.x01))
  let t40 := (sabs t39)
  let t41 := (a.x11 / t39)
  let t42 := (t36 / t39)
  let t43 := (t35 / t39)
  let t44 := (a.x00 / t39)
  let t46 := (t40 / tmin)
  let t47 := (sabs a.x11)
  let t48 := (sabs t36)
  let t49 := (sabs t35)
  let t50 := (sabs a.x00)
  if (1 : α) ≤ t40 then
    ⟨t41, t42, t43, t44⟩
  else
    if t47 < t46 then
      if t48 < t46 then
        if t49 < t46 then
          if t50 < t46 then
            ⟨t41, t42, t43, t44⟩
          else
            ⟨(1 : α), (0 : α), (0 : α), (1 : α)⟩
        else
          ⟨(1 : α), (0 : α), (0 : α), (1 : α)⟩
      else
        ⟨(1 : α), (0 : α), (0 : α), (1 : α)⟩
    else
      ⟨(1 : α), (0 : α), (0 : α), (1 : α)⟩

/-- extracted from the C++ template at T = Sym; 6 path(s) -/
def C07.M22.inverseF {α : Type} [Sub α] [Mul α] [Div α] [Neg α] [LT α] [LE α] [DecidableLT α] [DecidableLE α] [OfNat α 0] [OfNat α 1] (tmin : α) (a : M22 α) : (M22 α) :=
  let t35 := (-a.x10)
  let t36 := (-a.x01)
  let t39 := ((a.x00 * a.x11) - (a.x10 * a.x01))
  let t40 := (sabs t39)
  let t41 := (a.x11 / t39)
  let t42 := (t36 / t39)
  let t43 := (t35 / t39)
  let t44 := (a.x00 / t39)
  let t46 := (t40 / tmin)
  let t47 := (sabs a.x11)
  let t48 := (sabs t36)
  let t49 := (sabs t35)
  let t50 := (sabs a.x00)
  if (1 : α) ≤ t40 then
    ⟨t41, t42, t43, t44⟩
  else
    if t47 < t46 then
      if t48 < t46 then
        if t49 < t46 then
          if t50 < t46 then
            ⟨t41, t42, t43, t44⟩
          else
            ⟨(1 : α), (0 : α), (0 : α), (1 : α)⟩
        else
          ⟨(1 : α), (0 : α), (0 : α), (1 : α)⟩
      else
        ⟨(1 : α), (0 : α), (0 : α), (1 : α)⟩
    else
      ⟨(1 : α), (0 : α), (0 : α), (1 : α)⟩

/-- extracted from the C++ template at T = Sym; 6 path(s) -/
def C07.M22.inverseT {α : Type} [Sub α] [Mul α] [Div α] [Neg α] [LT α] [LE α] [DecidableLT α] [DecidableLE α] [OfNat α 0] [OfNat α 1] (tmin : α) (a : M22 α) : Except Exc (M22 α) :=
  let t35 := (-a.x10)
  let t36 := (-a.x01)
  let t39 := ((a.x00 * a.x11) - (a.x10 * a.x01))
  let t40 := (sabs t39)
  let t41 := (a.x11 / t39)
  let t42 := (t36 / t39)
  let t43 := (t35 / t39)
  let t44 := (a.x00 / t39)
  let t46 := (t40 / tmin)
  let t47 := (sabs a.x11)
  let t48 := (sabs t36)
  let t49 := (sabs t35)
  let t50 := (sabs a.x00)
  if (1 : α) ≤ t40 then
    .ok (⟨t41, t42, t43, t44⟩)
  else
    if t47 < t46 then
      if t48 < t46 then
        if t49 < t46 then
          if t50 < t46 then
            .ok (⟨t41, t42, t43, t44⟩)
          else
            .error Exc.invalidArgument
        else
          .error Exc.invalidArgument
      else
        .error Exc.invalidArgument
    else
      .error Exc.invalidArgument

/-- extracted from the C++ template at T = Sym; 6 path(s) -/
def C07.M22.invert0 {α : Type} [Sub α] [Mul α] [Div α] [Neg α] [LT α] [LE α] [DecidableLT α] [DecidableLE α] [OfNat α 0] [OfNat α 1] (tmin : α) (a : M22 α) : (M22 α) :=
  let t35 := (-a.x10)
  let t36 := (-a.x01)
  let t39 := ((a.x00 * a.x11) - (a.x10 * a.x01))
  let t40 := (sabs t39)
  let t41 := (a.x11 / t39)
  let t42 := (t36 / t39)
  let t43 := (t35 / t39)
  let t44 := (a.x00 / t39)
  let t46 := (t40 / tmin)
  let t47 := (sabs a.x11)
  let t48 := (sabs t36)
  let t49 := (sabs t35)
  let t50 := (sabs a.x00)
  if (1 : α) ≤ t40 then
    ⟨t41, t42, t43, t44⟩
  else
    if t47 < t46 then
      if t48 < t46 then
        if t49 < t46 then
          if t50 < t46 then
            ⟨t41, t42, t43, t44⟩
          else
            ⟨(1 : α), (0 : α), (0 : α), (1 : α)⟩
        else
          ⟨(1 : α), (0 : α), (0 : α), (1 : α)⟩
      else
        ⟨(1 : α), (0 : α), (0 : α), (1 : α)⟩
    else
      ⟨(1 : α), (0 : α), (0 : α), (1 : α)⟩

/-- extracted from the C++ template at T = Sym; 6 path(s) -/
def C07.M22.invertF {α : Type} [Sub α] [Mul α] [Div α] [Neg α] [LT α] [LE α] [DecidableLT α] [DecidableLE α] [OfNat α 0] [OfNat α 1] (tmin : α) (a : M22 α) : (M22 α) :=
  let t35 := (-a.x10)
  let t36 := (-a.x01)
  let t39 := ((a.x00 * a.x11) - (a.x10 * a.x01))
  let t40 := (sabs t39)
  let t41 := (a.x11 / t39)
  let t42 := (t36 / t39)
  let t43 := (t35 / t39)
  let t44 := (a.x00 / t39)
  let t46 := (t40 / tmin)
  let t47 := (sabs a.x11)
  let t48 := (sabs t36)
  let t49 := (sabs t35)
  let t50 := (sabs a.x00)
  if (1 : α) ≤ t40 then
    ⟨t41, t42, t43, t44⟩
  else
    if t47 < t46 then
      if t48 < t46 then
        if t49 < t46 then
          if t50 < t46 then
            ⟨t41, t42, t43, t44⟩
          else
            ⟨(1 : α), (0 : α), (0 : α), (1 : α)⟩
        else
          ⟨(1 : α), (0 : α), (0 : α), (1 : α)⟩
      else
        ⟨(1 : α), (0 : α), (0 : α), (1 : α)⟩
    else
      ⟨(1 : α), (0 : α), (0 : α), (1 : α)⟩

/-- extracted from the C++ template at T = Sym; 6 path(s) -/
def C07.M22.invertT {α : Type} [Sub α] [Mul α] [Div α] [Neg α] [LT α] [LE α] [DecidableLT α] [DecidableLE α] [OfNat α 0] [OfNat α 1] (tmin : α) (a : M22 α) : Except Exc (M22 α) :=
  let t35 := (-a.x10)
  let t36 := (-a.x01)
  let t39 := ((a.x00 * a.x11) - (a.x10 * a.x01))
  let t40 := (sabs t39)
  let t41 := (a.x11 / t39)
  let t42 := (t36 / t39)
  let t43 := (t35 / t39)
  let t44 := (a.x00 / t39)
  let t46 := (t40 / tmin)
  let t47 := (sabs a.x11)
  let t48 := (sabs t36)
  let t49 := (sabs t35)
  let t50 := (sabs a.x00)
  if (1 : α) ≤ t40 then
    .ok (⟨t41, t42, t43, t44⟩)
  else
    if t47 < t46 then
      if t48 < t46 then
        if t49 < t46 then
          if t50 < t46 then
            .ok (⟨t41, t42, t43, t44⟩)
          else
            .error Exc.invalidArgument
        else
          .error Exc.invalidArgument
      else
        .error Exc.invalidArgument
    else
      .error Exc.invalidArgument

/-- extracted from the C++ template at T = Sym; 39 path(s) -/
def C07.M33.inverse0 {α : Type} [Add α] [Sub α] [Mul α] [Div α] [Neg α] [LT α] [LE α] [DecidableLT α] [DecidableLE α] [DecidableEq α] [OfNat α 0] [OfNat α 1] (tmin : α) (a : M33 α) : (M33 α) :=
  let t35 := (-a.x10)
  let t36 := (-a.x01)
  let t39 := ((a.x00 * a.x11) - (a.x10 * a.x01))
  let t40 := (sabs t39)
  let t41 := (a.x11 / t39)
  let t42 := (t36 / t39)
  let t43 := (t35 / t39)
  let t44 := (a.x00 / t39)
  let t46 := (t40 / tmin)
  let t47 := (sabs a.x11)
  let t48 := (sabs t36)
  let t49 := (sabs t35)
  let t50 := (sabs a.x00)
  let t57 := (-a.x20)
  let t59 := ((t57 * t41) - (a.x21 * t43))
  let t62 := ((t57 * t42) - (a.x21 * t44))
  let t65 := ((a.x20 * a.x01) - (a.x00 * a.x21))
  let t68 := ((a.x10 * a.x21) - (a.x20 * a.x11))
  let t71 := ((a.x10 * a.x02) - (a.x00 * a.x12))
  let t74 := ((a.x00 * a.x22) - (a.x20 * a.x02))
  let t77 := ((a.x20 * a.x12) - (a.x10 * a.x22))
  let t80 := ((a.x01 * a.x12) - (a.x11 * a.x02))
  let t83 := ((a.x21 * a.x02) - (a.x01 * a.x22))
  let t86 := ((a.x11 * a.x22) - (a.x21 * a.x12))
  let t91 := (((a.x00 * t86) + (a.x01 * t77)) + (a.x02 * t68))
  let t92 := (sabs t91)
  let t93 := (t86 / t91)
  let t94 := (t83 / t91)
  let t95 := (t80 / t91)
  let t96 := (t77 / t91)
  let t97 := (t74 / t91)
  let t98 := (t71 / t91)
  let t99 := (t68 / t91)
  let t100 := (t65 / t91)
  let t101 := (t39 / t91)
  let t102 := (t92 / tmin)
  let t103 := (sabs t86)
  let t104 := (sabs t83)
  let t105 := (sabs t80)
  let t106 := (sabs t77)
  let t107 := (sabs t74)
  let t108 := (sabs t71)
  let t109 := (sabs t68)
  let t110 := (sabs t65)
  if a.x02 = (0 : α) then
    if a.x12 = (0 : α) then
      if a.x22 = (1 : α) then
        if (1 : α) ≤ t40 then
          ⟨t41, t42, (0 : α), t43, t44, (0 : α), t59, t62, (1 : α)⟩
        else
          if t47 < t46 then
            if t48 < t46 then
              if t49 < t46 then
                if t50 < t46 then
                  ⟨t41, t42, (0 : α), t43, t44, (0 : α), t59, t62, (1 : α)⟩
                else
                  ⟨(1 : α), (0 : α), (0 : α), (0 : α), (1 : α), (0 : α), (0 : α), (0 : α), (1 : α)⟩
              else
                ⟨(1 : α), (0 : α), (0 : α), (0 : α), (1 : α), (0 : α), (0 : α), (0 : α), (1 : α)⟩
            else
              ⟨(1 : α), (0 : α), (0 : α), (0 : α), (1 : α), (0 : α), (0 : α), (0 : α), (1 : α)⟩
          else
            ⟨(1 : α), (0 : α), (0 : α), (0 : α), (1 : α), (0 : α), (0 : α), (0 : α), (1 : α)⟩
      else
        if (1 : α) ≤ t92 then
          ⟨t93, t94, t95, t96, t97, t98, t99, t100, t101⟩
        else
          if t103 < t102 then
            if t104 < t102 then
              if t105 < t102 then
                if t106 < t102 then
                  if t107 < t102 then
                    if t108 < t102 then
                      if t109 < t102 then
                        if t110 < t102 then
                          if t40 < t102 then
                            ⟨t93, t94, t95, t96, t97, t98, t99, t100, t101⟩
                          else
                            ⟨(1 : α), (0 : α), (0 : α), (0 : α), (1 : α), (0 : α), (0 : α), (0 : α), (1 : α)⟩
                        else
                          ⟨(1 : α), (0 : α), (0 : α), (0 : α), (1 : α), (0 : α), (0 : α), (0 : α), (1 : α)⟩
                      else
                        ⟨(1 : α), (0 : α), (0 : α), (0 : α), (1 : α), (0 : α), (0 : α), (0 : α), (1 : α)⟩
                    else
                      ⟨(1 : α), (0 : α), (0 : α), (0 : α), (1 : α), (0 : α), (0 : α), (0 : α), (1 : α)⟩
                  else
                    ⟨(1 : α), (0 : α), (0 : α), (0 : α), (1 : α), (0 : α), (0 : α), (0 : α), (1 : α)⟩
                else
                  ⟨(1 : α), (0 : α), (0 : α), (0 : α), (1 : α), (0 : α), (0 : α), (0 : α), (1 : α)⟩
              else
                ⟨(1 : α), (0 : α), (0 : α), (0 : α), (1 : α), (0 : α), (0 : α), (0 : α), (1 : α)⟩
            else
              ⟨(1 : α), (0 : α), (0 : α), (0 : α), (1 : α), (0 : α), (0 : α), (0 : α), (1 : α)⟩
          else
            ⟨(1 : α), (0 : α), (0 : α), (0 : α), (1 : α), (0 : α), (0 : α), (0 : α), (1 : α)⟩
    else
      if (1 : α) ≤ t92 then
        ⟨t93, t94, t95, t96, t97, t98, t99, t100, t101⟩
      else
        if t103 < t102 then
          if t104 < t102 then
            if t105 < t102 then
              if t106 < t102 then
                if t107 < t102 then
                  if t108 < t102 then
                    if t109 < t102 then
                      if t110 < t102 then
                        if t40 < t102 then
                          ⟨t93, t94, t95, t96, t97, t98, t99, t100, t101⟩
                        else
                          ⟨(1 : α), (0 : α), (0 : α), (0 : α), (1 : α), (0 : α), (0 : α), (0 : α), (1 : α)⟩
                      else
                        ⟨(1 : α), (0 : α), (0 : α), (0 : α), (1 : α), (0 : α), (0 : α), (0 : α), (1 : α)⟩
                    else
                      ⟨(1 : α), (0 : α), (0 : α), (0 : α), (1 : α), (0 : α), (0 : α), (0 : α), (1 : α)⟩
                  else
                    ⟨(1 : α), (0 : α), (0 : α), (0 : α), (1 : α), (0 : α), (0 : α), (0 : α), (1 : α)⟩
                else
                  ⟨(1 : α), (0 : α), (0 : α), (0 : α), (1 : α), (0 : α), (0 : α), (0 : α), (1 : α)⟩
              else
                ⟨(1 : α), (0 : α), (0 : α), (0 : α), (1 : α), (0 : α), (0 : α), (0 : α), (1 : α)⟩
            else
              ⟨(1 : α), (0 : α), (0 : α), (0 : α), (1 : α), (0 : α), (0 : α), (0 : α), (1 : α)⟩
          else
            ⟨(1 : α), (0 : α), (0 : α), (0 : α), (1 : α), (0 : α), (0 : α), (0 : α), (1 : α)⟩
        else
          ⟨(1 : α), (0 : α), (0 : α), (0 : α), (1 : α), (0 : α), (0 : α), (0 : α), (1 : α)⟩
  else
    if (1 : α) ≤ t92 then
      ⟨t93, t94, t95, t96, t97, t98, t99, t100, t101⟩
    else
      if t103 < t102 then
        if t104 < t102 then
          if t105 < t102 then
            if t106 < t102 then
              if t107 < t102 then
                if t108 < t102 then
                  if t109 < t102 then
                    if t110 < t102 then
                      if t40 < t102 then
                        ⟨t93, t94, t95, t96, t97, t98, t99, t100, t101⟩
                      else
                        ⟨(1 : α), (0 : α), (0 : α), (0 : α), (1 : α), (0 : α), (0 : α), (0 : α), (1 : α)⟩
                    else
                      ⟨(1 : α), (0 : α), (0 : α), (0 : α), (1 : α), (0 : α), (0 : α), (0 : α), (1 : α)⟩
                  else
                    ⟨(1 : α), (0 : α), (0 : α), (0 : α), (1 : α), (0 : α), (0 : α), (0 : α), (1 : α)⟩
                else
                  ⟨(1 : α), (0 : α), (0 : α), (0 : α), (1 : α), (0 : α), (0 : α), (0 : α), (1 : α)⟩
              else
                ⟨(1 : α), (0 : α), (0 : α), (0 : α), (1 : α), (0 : α), (0 : α), (0 : α), (1 : α)⟩
            else
              ⟨(1 : α), (0 : α), (0 : α), (0 : α), (1 : α), (0 : α), (0 : α), (0 : α), (1 : α)⟩
          else
            ⟨(1 : α), (0 : α), (0 : α), (0 : α), (1 : α), (0 : α), (0 : α), (0 : α), (1 : α)⟩
        else
          ⟨(1 : α), (0 : α), (0 : α), (0 : α), (1 : α), (0 : α), (0 : α), (0 : α), (1 : α)⟩
      else
        ⟨(1 : α), (0 : α), (0 : α), (0 : α), (1 : α), (0 : α), (0 : α), (0 : α), (1 : α)⟩

/-- extracted from the C++ template at T = Sym; 39 path(s) -/
def C07.M33.inverseF {α : Type} [Add α] [Sub α] [Mul α] [Div α] [Neg α] [LT α] [LE α] [DecidableLT α] [DecidableLE α] [DecidableEq α] [OfNat α 0] [OfNat α 1] (tmin : α) (a : M33 α) : (M33 α) :=
  let t35 := (-a.x10)
  let t36 := (-a.x01)
  let t39 := ((a.x00 * a.x11) - (a.x10 * a.x01))
  let t40 := (sabs t39)
  let t41 := (a.x11 / t39)
  let t42 := (t36 / t39)
  let t43 := (t35 / t39)
  let t44 := (a.x00 / t39)
  let t46 := (t40 / tmin)
  let t47 := (sabs a.x11)
  let t48 := (sabs t36)
  let t49 := (sabs t35)
  let t50 := (sabs a.x00)
  let t57 := (-a.x20)
  let t59 := ((t57 * t41) - (a.x21 * t43))
  let t62 := ((t57 * t42) - (a.x21 * t44))
  let t65 := ((a.x20 * a.x01) - (a.x00 * a.x21))
  let t68 := ((a.x10 * a.x21) - (a.x20 * a.x11))
  let t71 := ((a.x10 * a.x02) - (a.x00 * a.x12))
  let t74 := ((a.x00 * a.x22) - (a.x20 * a.x02))
  let t77 := ((a.x20 * a.x12) - (a.x10 * a.x22))
  let t80 := ((a.x01 * a.x12) - (a.x11 * a.x02))
  let t83 := ((a.x21 * a.x02) - (a.x01 * a.x22))
  let t86 := ((a.x11 * a.x22) - (a.x21 * a.x12))
  let t91 := (((a.x00 * t86) + (a.x01 * t77)) + (a.x02 * t68))
  let t92 := (sabs t91)
  let t93 := (t86 / t91)
  let t94 := (t83 / t91)
  let t95 := (t80 / t91)
  let t96 := (t77 / t91)
  let t97 := (t74 / t91)
  let t98 := (t71 / t91)
  let t99 := (t68 / t91)
  let t100 := (t65 / t91)
  let t101 := (t39 / t91)
  let t102 := (t92 / tmin)
  let t103 := (sabs t86)
  let t104 := (sabs t83)
  let t105 := (sabs t80)
  let t106 := (sabs t77)
  let t107 := (sabs t74)
  let t108 := (sabs t71)
  let t109 := (sabs t68)
  let t110 := (sabs t65)
  if a.x02 = (0 : α) then
    if a.x12 = (0 : α) then
      if a.x22 = (1 : α) then
        if (1 : α) ≤ t40 then
          ⟨t41, t42, (0 : α), t43, t44, (0 : α), t59, t62, (1 : α)⟩
        else
          if t47 < t46 then
            if t48 < t46 then
              if t49 < t46 then
                if t50 < t46 then
                  ⟨t41, t42, (0 : α), t43, t44, (0 : α), t59, t62, (1 : α)⟩
                else
                  ⟨(1 : α), (0 : α), (0 : α), (0 : α), (1 : α), (0 : α), (0 : α), (0 : α), (1 : α)⟩
              else
                ⟨(1 : α), (0 : α), (0 : α), (0 : α), (1 : α), (0 : α), (0 : α), (0 : α), (1 : α)⟩
            else
              ⟨(1 : α), (0 : α), (0 : α), (0 : α), (1 : α), (0 : α), (0 : α), (0 : α), (1 : α)⟩
          else
            ⟨(1 : α), (0 : α), (0 : α), (0 : α), (1 : α), (0 : α), (0 : α), (0 : α), (1 : α)⟩
      else
        if (1 : α) ≤ t92 then
          ⟨t93, t94, t95, t96, t97, t98, t99, t100, t101⟩
        else
          if t103 < t102 then
            if t104 < t102 then
              if t105 < t102 then
                if t106 < t102 then
                  if t107 < t102 then
                    if t108 < t102 then
                      if t109 < t102 then
                        if t110 < t102 then
                          if t40 < t102 then
                            ⟨t93, t94, t95, t96, t97, t98, t99, t100, t101⟩
                          else
                            ⟨(1 : α), (0 : α), (0 : α), (0 : α), (1 : α), (0 : α), (0 : α), (0 : α), (1 : α)⟩
                        else
                          ⟨(1 : α), (0 : α), (0 : α), (0 : α), (1 : α), (0 : α), (0 : α), (0 : α), (1 : α)⟩
                      else
                        ⟨(1 : α), (0 : α), (0 : α), (0 : α), (1 : α), (0 : α), (0 : α), (0 : α), (1 : α)⟩
                    else
                      ⟨(1 : α), (0 : α), (0 : α), (0 : α), (1 : α), (0 : α), (0 : α), (0 : α), (1 : α)⟩
                  else
                    ⟨(1 : α), (0 : α), (0 : α), (0 : α), (1 : α), (0 : α), (0 : α), (0 : α), (1 : α)⟩
                else
                  ⟨(1 : α), (0 : α), (0 : α), (0 : α), (1 : α), (0 : α), (0 : α), (0 : α), (1 : α)⟩
              else
                ⟨(1 : α), (0 : α), (0 : α), (0 : α), (1 : α), (0 : α), (0 : α), (0 : α), (1 : α)⟩
            else
              ⟨(1 : α), (0 : α), (0 : α), (0 : α), (1 : α), (0 : α), (0 : α), (0 : α), (1 : α)⟩
          else
            ⟨(1 : α), (0 : α), (0 : α), (0 : α), (1 : α), (0 : α), (0 : α), (0 : α), (1 : α)⟩
    else
      if (1 : α) ≤ t92 then
        ⟨t93, t94, t95, t96, t97, t98, t99, t100, t101⟩
      else
        if t103 < t102 then
          if t104 < t102 then
            if t105 < t102 then
              if t106 < t102 then
                if t107 < t102 then
                  if t108 < t102 then
                    if t109 < t102 then
                      if t110 < t102 then
                        if t40 < t102 then
                          ⟨t93, t94, t95, t96, t97, t98, t99, t100, t101⟩
                        else
                          ⟨(1 : α), (0 : α), (0 : α), (0 : α), (1 : α), (0 : α), (0 : α), (0 : α), (1 : α)⟩
                      else
                        ⟨(1 : α), (0 : α), (0 : α), (0 : α), (1 : α), (0 : α), (0 : α), (0 : α), (1 : α)⟩
                    else
                      ⟨(1 : α), (0 : α), (0 : α), (0 : α), (1 : α), (0 : α), (0 : α), (0 : α), (1 : α)⟩
                  else
                    ⟨(1 : α), (0 : α), (0 : α), (0 : α), (1 : α), (0 : α), (0 : α), (0 : α), (1 : α)⟩
                else
                  ⟨(1 : α), (0 : α), (0 : α), (0 : α), (1 : α), (0 : α), (0 : α), (0 : α), (1 : α)⟩
              else
                ⟨(1 : α), (0 : α), (0 : α), (0 : α), (1 : α), (0 : α), (0 : α), (0 : α), (1 : α)⟩
            else
              ⟨(1 : α), (0 : α), (0 : α), (0 : α), (1 : α), (0 : α), (0 : α), (0 : α), (1 : α)⟩
          else
            ⟨(1 : α), (0 : α), (0 : α), (0 : α), (1 : α), (0 : α), (0 : α), (0 : α), (1 : α)⟩
        else
          ⟨(1 : α), (0 : α), (0 : α), (0 : α), (1 : α), (0 : α), (0 : α), (0 : α), (1 : α)⟩
  else
    if (1 : α) ≤ t92 then
      ⟨t93, t94, t95, t96, t97, t98, t99, t100, t101⟩
    else
      if t103 < t102 then
        if t104 < t102 then
          if t105 < t102 then
            if t106 < t102 then
              if t107 < t102 then
                if t108 < t102 then
                  if t109 < t102 then
                    if t110 < t102 then
                      if t40 < t102 then
                        ⟨t93, t94, t95, t96, t97, t98, t99, t100, t101⟩
                      else
                        ⟨(1 : α), (0 : α), (0 : α), (0 : α), (1 : α), (0 : α), (0 : α), (0 : α), (1 : α)⟩
                    else
                      ⟨(1 : α), (0 : α), (0 : α), (0 : α), (1 : α), (0 : α), (0 : α), (0 : α), (1 : α)⟩
                  else
                    ⟨(1 : α), (0 : α), (0 : α), (0 : α), (1 : α), (0 : α), (0 : α), (0 : α), (1 : α)⟩
                else
                  ⟨(1 : α), (0 : α), (0 : α), (0 : α), (1 : α), (0 : α), (0 : α), (0 : α), (1 : α)⟩
              else
                ⟨(1 : α), (0 : α), (0 : α), (0 : α), (1 : α), (0 : α), (0 : α), (0 : α), (1 : α)⟩
            else
              ⟨(1 : α), (0 : α), (0 : α), (0 : α), (1 : α), (0 : α), (0 : α), (0 : α), (1 : α)⟩
          else
            ⟨(1 : α), (0 : α), (0 : α), (0 : α), (1 : α), (0 : α), (0 : α), (0 : α), (1 : α)⟩
        else
          ⟨(1 : α), (0 : α), (0 : α), (0 : α), (1 : α), (0 : α), (0 : α), (0 : α), (1 : α)⟩
      else
        ⟨(1 : α), (0 : α), (0 : α), (0 : α), (1 : α), (0 : α), (0 : α), (0 : α), (1 : α)⟩

/-- extracted from the C++ template at T = Sym; 39 path(s) -/
def C07.M33.inverseT {α : Type} [Add α] [Sub α] [Mul α] [Div α] [Neg α] [LT α] [LE α] [DecidableLT α] [DecidableLE α] [DecidableEq α] [OfNat α 0] [OfNat α 1] (tmin : α) (a : M33 α) : Except Exc (M33 α) :=
  let t35 := (-a.x10)
  let t36 := (-a.x01)
  let t39 := ((a.x00 * a.x11) - (a.x10 * a.x01))
  let t40 := (sabs t39)
  let t41 := (a.x11 / t39)
  let t42 := (t36 / t39)
  let t43 := (t35 / t39)
  let t44 := (a.x00 / t39)
  let t46 := (t40 / tmin)
  let t47 := (sabs a.x11)
  let t48 := (sabs t36)
  let t49 := (sabs t35)
  let t50 := (sabs a.x00)
  let t57 := (-a.x20)
  let t59 := ((t57 * t41) - (a.x21 * t43))
  let t62 := ((t57 * t42) - (a.x21 * t44))
  let t65 := ((a.x20 * a.x01) - (a.x00 * a.x21))
  let t68 := ((a.x10 * a.x21) - (a.x20 * a.x11))
  let t71 := ((a.x10 * a.x02) - (a.x00 * a.x12))
  let t74 := ((a.x00 * a.x22) - (a.x20 * a.x02))
  let t77 := ((a.x20 * a.x12) - (a.x10 * a.x22))
  let t80 := ((a.x01 * a.x12) - (a.x11 * a.x02))
  let t83 := ((a.x21 * a.x02) - (a.x01 * a.x22))
  let t86 := ((a.x11 * a.x22) - (a.x21 * a.x12))
  let t91 := (((a.x00 * t86) + (a.x01 * t77)) + (a.x02 * t68))
  let t92 := (sabs t91)
  let t93 := (t86 / t91)
  let t94 := (t83 / t91)
  let t95 := (t80 / t91)
  let t96 := (t77 / t91)
  let t97 := (t74 / t91)
  let t98 := (t71 / t91)
  let t99 := (t68 / t91)
  let t100 := (t65 / t91)
  let t101 := (t39 / t91)
  let t102 := (t92 / tmin)
  let t103 := (sabs t86)
  let t104 := (sabs t83)
  let t105 := (sabs t80)
  let t106 := (sabs t77)
  let t107 := (sabs t74)
  let t108 := (sabs t71)
  let t109 := (sabs t68)
  let t110 := (sabs t65)
  if a.x02 = (0 : α) then
    if a.x12 = (0 : α) then
      if a.x22 = (1 : α) then
        if (1 : α) ≤ t40 then
          .ok (⟨t41, t42, (0 : α), t43, t44, (0 : α), t59, t62, (1 : α)⟩)
        else
          if t47 < t46 then
            if t48 < t46 then
              if t49 < t46 then
                if t50 < t46 then
                  .ok (⟨t41, t42, (0 : α), t43, t44, (0 : α), t59, t62, (1 : α)⟩)
                else
                  .error Exc.invalidArgument
              else
                .error Exc.invalidArgument
            else
              .error Exc.invalidArgument
          else
            .error Exc.invalidArgument
      else
        if (1 : α) ≤ t92 then
          .ok (⟨t93, t94, t95, t96, t97, t98, t99, t100, t101⟩)
        else
          if t103 < t102 then
            if t104 < t102 then
              if t105 < t102 then
                if t106 < t102 then
                  if t107 < t102 then
                    if t108 < t102 then
                      if t109 < t102 then
                        if t110 < t102 then
                          if t40 < t102 then
                            .ok (⟨t93, t94, t95, t96, t97, t98, t99, t100, t101⟩)
                          else
                            .error Exc.invalidArgument
                        else
                          .error Exc.invalidArgument
                      else
                        .error Exc.invalidArgument
                    else
                      .error Exc.invalidArgument
                  else
                    .error Exc.invalidArgument
                else
                  .error Exc.invalidArgument
              else
                .error Exc.invalidArgument
            else
              .error Exc.invalidArgument
          else
            .error Exc.invalidArgument
    else
      if (1 : α) ≤ t92 then
        .ok (⟨t93, t94, t95, t96, t97, t98, t99, t100, t101⟩)
      else
        if t103 < t102 then
          if t104 < t102 then
            if t105 < t102 then
              if t106 < t102 then
                if t107 < t102 then
                  if t108 < t102 then
                    if t109 < t102 then
                      if t110 < t102 then
                        if t40 < t102 then
                          .ok (⟨t93, t94, t95, t96, t97, t98, t99, t100, t101⟩)
                        else
                          .error Exc.invalidArgument
                      else
                        .error Exc.invalidArgument
                    else
                      .error Exc.invalidArgument
                  else
                    .error Exc.invalidArgument
                else
                  .error Exc.invalidArgument
              else
                .error Exc.invalidArgument
            else
              .error Exc.invalidArgument
          else
            .error Exc.invalidArgument
        else
          .error Exc.invalidArgument
  else
    if (1 : α) ≤ t92 then
      .ok (⟨t93, t94, t95, t96, t97, t98, t99, t100, t101⟩)
    else
      if t103 < t102 then
        if t104 < t102 then
          if t105 < t102 then
            if t106 < t102 then
              if t107 < t102 then
                if t108 < t102 then
                  if t109 < t102 then
                    if t110 < t102 then
                      if t40 < t102 then
                        .ok (⟨t93, t94, t95, t96, t97, t98, t99, t100, t101⟩)
                      else
                        .error Exc.invalidArgument
                    else
                      .error Exc.invalidArgument
                  else
                    .error Exc.invalidArgument
                else
                  .error Exc.invalidArgument
              else
                .error Exc.invalidArgument
            else
              .error Exc.invalidArgument
          else
            .error Exc.invalidArgument
        else
          .error Exc.invalidArgument
      else
        .error Exc.invalidArgument

/-- extracted from the C++ template at T = Sym; 39 path(s) -/
def C07.M33.invert0 {α : Type} [Add α] [Sub α] [Mul α] [Div α] [Neg α] [LT α] [LE α] [DecidableLT α] [DecidableLE α] [DecidableEq α] [OfNat α 0] [OfNat α 1] (tmin : α) (a : M33 α) : (M33 α) :=
  let t35 := (-a.x10)
  let t36 := (-a.x01)
  let t39 := ((a.x00 * a.x11) - (a.x10 * a.x01))
  let t40 := (sabs t39)
  let t41 := (a.x11 / t39)
  let t42 := (t36 / t39)
  let t43 := (t35 / t39)
  let t44 := (a.x00 / t39)
  let t46 := (t40 / tmin)
  let t47 := (sabs a.x11)
  let t48 := (sabs t36)
  let t49 := (sabs t35)
  let t50 := (sabs a.x00)
  let t57 := (-a.x20)
  let t59 := ((t57 * t41) - (a.x21 * t43))
  let t62 := ((t57 * t42) - (a.x21 * t44))
  let t65 := ((a.x20 * a.x01) - (a.x00 * a.x21))
  let t68 := ((a.x10 * a.x21) - (a.x20 * a.x11))
  let t71 := ((a.x10 * a.x02) - (a.x00 * a.x12))
  let t74 := ((a.x00 * a.x22) - (a.x20 * a.x02))
  let t77 := ((a.x20 * a.x12) - (a.x10 * a.x22))
  let t80 := ((a.x01 * a.x12) - (a.x11 * a.x02))
  let t83 := ((a.x21 * a.x02) - (a.x01 * a.x22))
  let t86 := ((a.x11 * a.x22) - (a.x21 * a.x12))
  let t91 := (((a.x00 * t86) + (a.x01 * t77)) + (a.x02 * t68))
  let t92 := (sabs t91)
  let t93 := (t86 / t91)
  let t94 := (t83 / t91)
  let t95 := (t80 / t91)
  let t96 := (t77 / t91)
  let t97 := (t74 / t91)
  let t98 := (t71 / t91)
  let t99 := (t68 / t91)
  let t100 := (t65 / t91)
  let t101 := (t39 / t91)
  let t102 := (t92 / tmin)
  let t103 := (sabs t86)
  let t104 := (sabs t83)
  let t105 := (sabs t80)
  let t106 := (sabs t77)
  let t107 := (sabs t74)
  let t108 := (sabs t71)
  let t109 := (sabs t68)
  let t110 := (sabs t65)
  if a.x02 = (0 : α) then
    if a.x12 = (0 : α) then
      if a.x22 = (1 : α) then
        if (1 : α) ≤ t40 then
          ⟨t41, t42, (0 : α), t43, t44, (0 : α), t59, t62, (1 : α)⟩
        else
          if t47 < t46 then
            if t48 < t46 then
              if t49 < t46 then
                if t50 < t46 then
                  ⟨t41, t42, (0 : α), t43, t44, (0 : α), t59, t62, (1 : α)⟩
                else
                  ⟨(1 : α), (0 : α), (0 : α), (0 : α), (1 : α), (0 : α), (0 : α), (0 : α), (1 : α)⟩
              else
                ⟨(1 : α), (0 : α), (0 : α), (0 : α), (1 : α), (0 : α), (0 : α), (0 : α), (1 : α)⟩
            else
              ⟨(1 : α), (0 : α), (0 : α), (0 : α), (1 : α), (0 : α), (0 : α), (0 : α), (1 : α)⟩
          else
            ⟨(1 : α), (0 : α), (0 : α), (0 : α), (1 : α), (0 : α), (0 : α), (0 : α), (1 : α)⟩
      else
        if (1 : α) ≤ t92 then
          ⟨t93, t94, t95, t96, t97, t98, t99, t100, t101⟩
        else
          if t103 < t102 then
            if t104 < t102 then
              if t105 < t102 then
                if t106 < t102 then
                  if t107 < t102 then
                    if t108 < t102 then
                      if t109 < t102 then
                        if t110 < t102 then
                          if t40 < t102 then
                            ⟨t93, t94, t95, t96, t97, t98, t99, t100, t101⟩
                          else
                            ⟨(1 : α), (0 : α), (0 : α), (0 : α), (1 : α), (0 : α), (0 : α), (0 : α), (1 : α)⟩
                        else
                          ⟨(1 : α), (0 : α), (0 : α), (0 : α), (1 : α), (0 : α), (0 : α), (0 : α), (1 : α)⟩
                      else
                        ⟨(1 : α), (0 : α), (0 : α), (0 : α), (1 : α), (0 : α), (0 : α), (0 : α), (1 : α)⟩
                    else
                      ⟨(1 : α), (0 : α), (0 : α), (0 : α), (1 : α), (0 : α), (0 : α), (0 : α), (1 : α)⟩
                  else
                    ⟨(1 : α), (0 : α), (0 : α), (0 : α), (1 : α), (0 : α), (0 : α), (0 : α), (1 : α)⟩
                else
                  ⟨(1 : α), (0 : α), (0 : α), (0 : α), (1 : α), (0 : α), (0 : α), (0 : α), (1 : α)⟩
              else
                ⟨(1 : α), (0 : α), (0 : α), (0 : α), (1 : α), (0 : α), (0 : α), (0 : α), (1 : α)⟩
            else
              ⟨(1 : α), (0 : α), (0 : α), (0 : α), (1 : α), (0 : α), (0 : α), (0 : α), (1 : α)⟩
          else
            ⟨(1 : α), (0 : α), (0 : α), (0 : α), (1 : α), (0 : α), (0 : α), (0 : α), (1 : α)⟩
    else
      if (1 : α) ≤ t92 then
        ⟨t93, t94, t95, t96, t97, t98, t99, t100, t101⟩
      else
        if t103 < t102 then
          if t104 < t102 then
            if t105 < t102 then
              if t106 < t102 then
                if t107 < t102 then
                  if t108 < t102 then
                    if t109 < t102 then
                      if t110 < t102 then
                        if t40 < t102 then
                          ⟨t93, t94, t95, t96, t97, t98, t99, t100, t101⟩
                        else
                          ⟨(1 : α), (0 : α), (0 : α), (0 : α), (1 : α), (0 : α), (0 : α), (0 : α), (1 : α)⟩
                      else
                        ⟨(1 : α), (0 : α), (0 : α), (0 : α), (1 : α), (0 : α), (0 : α), (0 : α), (1 : α)⟩
                    else
                      ⟨(1 : α), (0 : α), (0 : α), (0 : α), (1 : α), (0 : α), (0 : α), (0 : α), (1 : α)⟩
                  else
                    ⟨(1 : α), (0 : α), (0 : α), (0 : α), (1 : α), (0 : α), (0 : α), (0 : α), (1 : α)⟩
                else
                  ⟨(1 : α), (0 : α), (0 : α), (0 : α), (1 : α), (0 : α), (0 : α), (0 : α), (1 : α)⟩
              else
                ⟨(1 : α), (0 : α), (0 : α), (0 : α), (1 : α), (0 : α), (0 : α), (0 : α), (1 : α)⟩
            else
              ⟨(1 : α), (0 : α), (0 : α), (0 : α), (1 : α), (0 : α), (0 : α), (0 : α), (1 : α)⟩
          else
            ⟨(1 : α), (0 : α), (0 : α), (0 : α), (1 : α), (0 : α), (0 : α), (0 : α), (1 : α)⟩
        else
          ⟨(1 : α), (0 : α), (0 : α), (0 : α), (1 : α), (0 : α), (0 : α), (0 : α), (1 : α)⟩
  else
    if (1 : α) ≤ t92 then
      ⟨t93, t94, t95, t96, t97, t98, t99, t100, t101⟩
    else
      if t103 < t102 then
        if t104 < t102 then
          if t105 < t102 then
            if t106 < t102 then
              if t107 < t102 then
                if t108 < t102 then
                  if t109 < t102 then
                    if t110 < t102 then
                      if t40 < t102 then
                        ⟨t93, t94, t95, t96, t97, t98, t99, t100, t101⟩
                      else
                        ⟨(1 : α), (0 : α), (0 : α), (0 : α), (1 : α), (0 : α), (0 : α), (0 : α), (1 : α)⟩
                    else
                      ⟨(1 : α), (0 : α), (0 : α), (0 : α), (1 : α), (0 : α), (0 : α), (0 : α), (1 : α)⟩
                  else
                    ⟨(1 : α), (0 : α), (0 : α), (0 : α), (1 : α), (0 : α), (0 : α), (0 : α), (1 : α)⟩
                else
                  ⟨(1 : α), (0 : α), (0 : α), (0 : α), (1 : α), (0 : α), (0 : α), (0 : α), (1 : α)⟩
              else
                ⟨(1 : α), (0 : α), (0 : α), (0 : α), (1 : α), (0 : α), (0 : α), (0 : α), (1 : α)⟩
            else
              ⟨(1 : α), (0 : α), (0 : α), (0 : α), (1 : α), (0 : α), (0 : α), (0 : α), (1 : α)⟩
          else
            ⟨(1 : α), (0 : α), (0 : α), (0 : α), (1 : α), (0 : α), (0 : α), (0 : α), (1 : α)⟩
        else
          ⟨(1 : α), (0 : α), (0 : α), (0 : α), (1 : α), (0 : α), (0 : α), (0 : α), (1 : α)⟩
      else
        ⟨(1 : α), (0 : α), (0 : α), (0 : α), (1 : α), (0 : α), (0 : α), (0 : α), (1 : α)⟩

/-- extracted from the C++ template at T = Sym; 39 path(s) -/
def C07.M33.invertF {α : Type} [Add α] [Sub α] [Mul α] [Div α] [Neg α] [LT α] [LE α] [DecidableLT α] [DecidableLE α] [DecidableEq α] [OfNat α 0] [OfNat α 1] (tmin : α) (a : M33 α) : (M33 α) :=
  let t35 := (-a.x10)
  let t36 := (-a.x01)
  let t39 := ((a.x00 * a.x11) - (a.x10 * a.x01))
  let t40 := (sabs t39)
  let t41 := (a.x11 / t39)
  let t42 := (t36 / t39)
  let t43 := (t35 / t39)
  let t44 := (a.x00 / t39)
  let t46 := (t40 / tmin)
  let t47 := (sabs a.x11)
  let t48 := (sabs t36)
  let t49 := (sabs t35)
  let t50 := (sabs a.x00)
  let t57 := (-a.x20)
  let t59 := ((t57 * t41) - (a.x21 * t43))
  let t62 := ((t57 * t42) - (a.x21 * t44))
  let t65 := ((a.x20 * a.x01) - (a.x00 * a.x21))
  let t68 := ((a.x10 * a.x21) - (a.x20 * a.x11))
  let t71 := ((a.x10 * a.x02) - (a.x00 * a.x12))
  let t74 := ((a.x00 * a.x22) - (a.x20 * a.x02))
  let t77 := ((a.x20 * a.x12) - (a.x10 * a.x22))
  let t80 := ((a.x01 * a.x12) - (a.x11 * a.x02))
  let t83 := ((a.x21 * a.x02) - (a.x01 * a.x22))
  let t86 := ((a.x11 * a.x22) - (a.x21 * a.x12))
  let t91 := (((a.x00 * t86) + (a.x01 * t77)) + (a.x02 * t68))
  let t92 := (sabs t91)
  let t93 := (t86 / t91)
  let t94 := (t83 / t91)
  let t95 := (t80 / t91)
  let t96 := (t77 / t91)
  let t97 := (t74 / t91)
  let t98 := (t71 / t91)
  let t99 := (t68 / t91)
  let t100 := (t65 / t91)
  let t101 := (t39 / t91)
  let t102 := (t92 / tmin)
  let t103 := (sabs t86)
  let t104 := (sabs t83)
  let t105 := (sabs t80)
  let t106 := (sabs t77)
  let t107 := (sabs t74)
  let t108 := (sabs t71)
  let t109 := (sabs t68)
  let t110 := (sabs t65)
  if a.x02 = (0 : α) then
    if a.x12 = (0 : α) then
      if a.x22 = (1 : α) then
        if (1 : α) ≤ t40 then
          ⟨t41, t42, (0 : α), t43, t44, (0 : α), t59, t62, (1 : α)⟩
        else
          if t47 < t46 then
            if t48 < t46 then
              if t49 < t46 then
                if t50 < t46 then
                  ⟨t41, t42, (0 : α), t43, t44, (0 : α), t59, t62, (1 : α)⟩
                else
                  ⟨(1 : α), (0 : α), (0 : α), (0 : α), (1 : α), (0 : α), (0 : α), (0 : α), (1 : α)⟩
              else
                ⟨(1 : α), (0 : α), (0 : α), (0 : α), (1 : α), (0 : α), (0 : α), (0 : α), (1 : α)⟩
            else
              ⟨(1 : α), (0 : α), (0 : α), (0 : α), (1 : α), (0 : α), (0 : α), (0 : α), (1 : α)⟩
          else
            ⟨(1 : α), (0 : α), (0 : α), (0 : α), (1 : α), (0 : α), (0 : α), (0 : α), (1 : α)⟩
      else
        if (1 : α) ≤ t92 then
          ⟨t93, t94, t95, t96, t97, t98, t99, t100, t101⟩
        else
          if t103 < t102 then
            if t104 < t102 then
              if t105 < t102 then
                if t106 < t102 then
                  if t107 < t102 then
                    if t108 < t102 then
                      if t109 < t102 then
                        if t110 < t102 then
                          if t40 < t102 then
                            ⟨t93, t94, t95, t96, t97, t98, t99, t100, t101⟩
                          else
                            ⟨(1 : α), (0 : α), (0 : α), (0 : α), (1 : α), (0 : α), (0 : α), (0 : α), (1 : α)⟩
                        else
                          ⟨(1 : α), (0 : α), (0 : α), (0 : α), (1 : α), (0 : α), (0 : α), (0 : α), (1 : α)⟩
                      else
                        ⟨(1 : α), (0 : α), (0 : α), (0 : α), (1 : α), (0 : α), (0 : α), (0 : α), (1 : α)⟩
                    else
                      ⟨(1 : α), (0 : α), (0 : α), (0 : α), (1 : α), (0 : α), (0 : α), (0 : α), (1 : α)⟩
                  else
                    ⟨(1 : α), (0 : α), (0 : α), (0 : α), (1 : α), (0 : α), (0 : α), (0 : α), (1 : α)⟩
                else
                  ⟨(1 : α), (0 : α), (0 : α), (0 : α), (1 : α), (0 : α), (0 : α), (0 : α), (1 : α)⟩
              else
                ⟨(1 : α), (0 : α), (0 : α), (0 : α), (1 : α), (0 : α), (0 : α), (0 : α), (1 : α)⟩
            else
              ⟨(1 : α), (0 : α), (0 : α), (0 : α), (1 : α), (0 : α), (0 : α), (0 : α), (1 : α)⟩
          else
            ⟨(1 : α), (0 : α), (0 : α), (0 : α), (1 : α), (0 : α), (0 : α), (0 : α), (1 : α)⟩
    else
      if (1 : α) ≤ t92 then
        ⟨t93, t94, t95, t96, t97, t98, t99, t100, t101⟩
      else
        if t103 < t102 then
          if t104 < t102 then
            if t105 < t102 then
              if t106 < t102 then
                if t107 < t102 then
                  if t108 < t102 then
                    if t109 < t102 then
                      if t110 < t102 then
                        if t40 < t102 then
                          ⟨t93, t94, t95, t96, t97, t98, t99, t100, t101⟩
                        else
                          ⟨(1 : α), (0 : α), (0 : α), (0 : α), (1 : α), (0 : α), (0 : α), (0 : α), (1 : α)⟩
                      else
                        ⟨(1 : α), (0 : α), (0 : α), (0 : α), (1 : α), (0 : α), (0 : α), (0 : α), (1 : α)⟩
                    else
                      ⟨(1 : α), (0 : α), (0 : α), (0 : α), (1 : α), (0 : α), (0 : α), (0 : α), (1 : α)⟩
                  else
                    ⟨(1 : α), (0 : α), (0 : α), (0 : α), (1 : α), (0 : α), (0 : α), (0 : α), (1 : α)⟩
                else
                  ⟨(1 : α), (0 : α), (0 : α), (0 : α), (1 : α), (0 : α), (0 : α), (0 : α), (1 : α)⟩
              else
                ⟨(1 : α), (0 : α), (0 : α), (0 : α), (1 : α), (0 : α), (0 : α), (0 : α), (1 : α)⟩
            else
              ⟨(1 : α), (0 : α), (0 : α), (0 : α), (1 : α), (0 : α), (0 : α), (0 : α), (1 : α)⟩
          else
            ⟨(1 : α), (0 : α), (0 : α), (0 : α), (1 : α), (0 : α), (0 : α), (0 : α), (1 : α)⟩
        else
          ⟨(1 : α), (0 : α), (0 : α), (0 : α), (1 : α), (0 : α), (0 : α), (0 : α), (1 : α)⟩
  else
    if (1 : α) ≤ t92 then
      ⟨t93, t94, t95, t96, t97, t98, t99, t100, t101⟩
    else
      if t103 < t102 then
        if t104 < t102 then
          if t105 < t102 then
            if t106 < t102 then
              if t107 < t102 then
                if t108 < t102 then
                  if t109 < t102 then
                    if t110 < t102 then
                      if t40 < t102 then
                        ⟨t93, t94, t95, t96, t97, t98, t99, t100, t101⟩
                      else
                        ⟨(1 : α), (0 : α), (0 : α), (0 : α), (1 : α), (0 : α), (0 : α), (0 : α), (1 : α)⟩
                    else
                      ⟨(1 : α), (0 : α), (0 : α), (0 : α), (1 : α), (0 : α), (0 : α), (0 : α), (1 : α)⟩
                  else
                    ⟨(1 : α), (0 : α), (0 : α), (0 : α), (1 : α), (0 : α), (0 : α), (0 : α), (1 : α)⟩
                else
                  ⟨(1 : α), (0 : α), (0 : α), (0 : α), (1 : α), (0 : α), (0 : α), (0 : α), (1 : α)⟩
              else
                ⟨(1 : α), (0 : α), (0 : α), (0 : α), (1 : α), (0 : α), (0 : α), (0 : α), (1 : α)⟩
            else
              ⟨(1 : α), (0 : α), (0 : α), (0 : α), (1 : α), (0 : α), (0 : α), (0 : α), (1 : α)⟩
          else
            ⟨(1 : α), (0 : α), (0 : α), (0 : α), (1 : α), (0 : α), (0 : α), (0 : α), (1 : α)⟩
        else
          ⟨(1 : α), (0 : α), (0 : α), (0 : α), (1 : α), (0 : α), (0 : α), (0 : α), (1 : α)⟩
      else
        ⟨(1 : α), (0 : α), (0 : α), (0 : α), (1 : α), (0 : α), (0 : α), (0 : α), (1 : α)⟩

/-- extracted from the C++ template at T = Sym; 39 path(s) -/
def C07.M33.invertT {α : Type} [Add α] [Sub α] [Mul α] [Div α] [Neg α] [LT α] [LE α] [DecidableLT α] [DecidableLE α] [DecidableEq α] [OfNat α 0] [OfNat α 1] (tmin : α) (a : M33 α) : Except Exc (M33 α) :=
  let t35 := (-a.x10)
  let t36 := (-a.x01)
  let t39 := ((a.x00 * a.x11) - (a.x10 * a.x01))
  let t40 := (sabs t39)
  let t41 := (a.x11 / t39)
  let t42 := (t36 / t39)
  let t43 := (t35 / t39)
  let t44 := (a.x00 / t39)
  let t46 := (t40 / tmin)
  let t47 := (sabs a.x11)
  let t48 := (sabs t36)
  let t49 := (sabs t35)
  let t50 := (sabs a.x00)
  let t57 := (-a.x20)
  let t59 := ((t57 * t41) - (a.x21 * t43))
  let t62 := ((t57 * t42) - (a.x21 * t44))
  let t65 := ((a.x20 * a.x01) - (a.x00 * a.x21))
  let t68 := ((a.x10 * a.x21) - (a.x20 * a.x11))
  let t71 := ((a.x10 * a.x02) - (a.x00 * a.x12))
  let t74 := ((a.x00 * a.x22) - (a.x20 * a.x02))
  let t77 := ((a.x20 * a.x12) - (a.x10 * a.x22))
  let t80 := ((a.x01 * a.x12) - (a.x11 * a.x02))
  let t83 := ((a.x21 * a.x02) - (a.x01 * a.x22))
  let t86 := ((a.x11 * a.x22) - (a.x21 * a.x12))
  let t91 := (((a.x00 * t86) + (a.x01 * t77)) + (a.x02 * t68))
  let t92 := (sabs t91)
  let t93 := (t86 / t91)
  let t94 := (t83 / t91)
  let t95 := (t80 / t91)
  let t96 := (t77 / t91)
  let t97 := (t74 / t91)
  let t98 := (t71 / t91)
  let t99 := (t68 / t91)
  let t100 := (t65 / t91)
  let t101 := (t39 / t91)
  let t102 := (t92 / tmin)
  let t103 := (sabs t86)
  let t104 := (sabs t83)
  let t105 := (sabs t80)
  let t106 := (sabs t77)
  let t107 := (sabs t74)
  let t108 := (sabs t71)
  let t109 := (sabs t68)
  let t110 := (sabs t65)
  if a.x02 = (0 : α) then
    if a.x12 = (0 : α) then
      if a.x22 = (1 : α) then
        if (1 : α) ≤ t40 then
          .ok (⟨t41, t42, (0 : α), t43, t44, (0 : α), t59, t62, (1 : α)⟩)
        else
          if t47 < t46 then
            if t48 < t46 then
              if t49 < t46 then
                if t50 < t46 then
                  .ok (⟨t41, t42, (0 : α), t43, t44, (0 : α), t59, t62, (1 : α)⟩)
                else
                  .error Exc.invalidArgument
              else
                .error Exc.invalidArgument
            else
              .error Exc.invalidArgument
          else
            .error Exc.invalidArgument
      else
        if (1 : α) ≤ t92 then
          .ok (⟨t93, t94, t95, t96, t97, t98, t99, t100, t101⟩)
        else
          if t103 < t102 then
            if t104 < t102 then
              if t105 < t102 then
                if t106 < t102 then
                  if t107 < t102 then
                    if t108 < t102 then
                      if t109 < t102 then
                        if t110 < t102 then
                          if t40 < t102 then
                            .ok (⟨t93, t94, t95, t96, t97, t98, t99, t100, t101⟩)
                          else
                            .error Exc.invalidArgument
                        else
                          .error Exc.invalidArgument
                      else
                        .error Exc.invalidArgument
                    else
                      .error Exc.invalidArgument
                  else
                    .error Exc.invalidArgument
                else
                  .error Exc.invalidArgument
              else
                .error Exc.invalidArgument
            else
              .error Exc.invalidArgument
          else
            .error Exc.invalidArgument
    else
      if (1 : α) ≤ t92 then
        .ok (⟨t93, t94, t95, t96, t97, t98, t99, t100, t101⟩)
      else
        if t103 < t102 then
          if t104 < t102 then
            if t105 < t102 then
              if t106 < t102 then
                if t107 < t102 then
                  if t108 < t102 then
                    if t109 < t102 then
                      if t110 < t102 then
                        if t40 < t102 then
                          .ok (⟨t93, t94, t95, t96, t97, t98, t99, t100, t101⟩)
                        else
                          .error Exc.invalidArgument
                      else
                        .error Exc.invalidArgument
                    else
                      .error Exc.invalidArgument
                  else
                    .error Exc.invalidArgument
                else
                  .error Exc.invalidArgument
              else
                .error Exc.invalidArgument
            else
              .error Exc.invalidArgument
          else
            .error Exc.invalidArgument
        else
          .error Exc.invalidArgument
  else
    if (1 : α) ≤ t92 then
      .ok (⟨t93, t94, t95, t96, t97, t98, t99, t100, t101⟩)
    else
      if t103 < t102 then
        if t104 < t102 then
          if t105 < t102 then
            if t106 < t102 then
              if t107 < t102 then
                if t108 < t102 then
                  if t109 < t102 then
                    if t110 < t102 then
                      if t40 < t102 then
                        .ok (⟨t93, t94, t95, t96, t97, t98, t99, t100, t101⟩)
                      else
                        .error Exc.invalidArgument
                    else
                      .error Exc.invalidArgument
                  else
                    .error Exc.invalidArgument
                else
                  .error Exc.invalidArgument
              else
                .error Exc.invalidArgument
            else
              .error Exc.invalidArgument
          else
            .error Exc.invalidArgument
        else
          .error Exc.invalidArgument
      else
        .error Exc.invalidArgument

/-- extracted from the C++ template at T = Sym; 15 path(s) -/
def C07.M44.inverse0 {α : Type} [Add α] [Sub α] [Mul α] [Div α] [Neg α] [LT α] [LE α] [DecidableLT α] [DecidableLE α] [DecidableEq α] [OfNat α 0] [OfNat α 1] (tmin : α) (gj44 : M44 α → M44 α) (a : M44 α) : (M44 α) :=
  let t39 := ((a.x00 * a.x11) - (a.x10 * a.x01))
  let t40 := (sabs t39)
  let t65 := ((a.x20 * a.x01) - (a.x00 * a.x21))
  let t68 := ((a.x10 * a.x21) - (a.x20 * a.x11))
  let t71 := ((a.x10 * a.x02) - (a.x00 * a.x12))
  let t74 := ((a.x00 * a.x22) - (a.x20 * a.x02))
  let t77 := ((a.x20 * a.x12) - (a.x10 * a.x22))
  let t80 := ((a.x01 * a.x12) - (a.x11 * a.x02))
  let t83 := ((a.x21 * a.x02) - (a.x01 * a.x22))
  let t86 := ((a.x11 * a.x22) - (a.x21 * a.x12))
  let t91 := (((a.x00 * t86) + (a.x01 * t77)) + (a.x02 * t68))
  let t92 := (sabs t91)
  let t93 := (t86 / t91)
  let t94 := (t83 / t91)
  let t95 := (t80 / t91)
  let t96 := (t77 / t91)
  let t97 := (t74 / t91)
  let t98 := (t71 / t91)
  let t99 := (t68 / t91)
  let t100 := (t65 / t91)
  let t101 := (t39 / t91)
  let t102 := (t92 / tmin)
  let t103 := (sabs t86)
  let t104 := (sabs t83)
  let t105 := (sabs t80)
  let t106 := (sabs t77)
  let t107 := (sabs t74)
  let t108 := (sabs t71)
  let t109 := (sabs t68)
  let t110 := (sabs t65)
  let t120 := (-a.x30)
  let t123 := (((t120 * t93) - (a.x31 * t96)) - (a.x32 * t99))
  let t128 := (((t120 * t94) - (a.x31 * t97)) - (a.x32 * t100))
  let t133 := (((t120 * t95) - (a.x31 * t98)) - (a.x32 * t101))
  let t134 := (gj44 ⟨a.x00, a.x01, a.x02, a.x03, a.x10, a.x11, a.x12, a.x13, a.x20, a.x21, a.x22, a.x23, a.x30, a.x31, a.x32, a.x33⟩)
  if a.x03 = (0 : α) then
    if a.x13 = (0 : α) then
      if a.x23 = (0 : α) then
        if a.x33 = (1 : α) then
          if (1 : α) ≤ t92 then
            ⟨t93, t94, t95, (0 : α), t96, t97, t98, (0 : α), t99, t100, t101, (0 : α), t123, t128, t133, (1 : α)⟩
          else
            if t103 < t102 then
              if t104 < t102 then
                if t105 < t102 then
                  if t106 < t102 then
                    if t107 < t102 then
                      if t108 < t102 then
                        if t109 < t102 then
                          if t110 < t102 then
                            if t40 < t102 then
                              ⟨t93, t94, t95, (0 : α), t96, t97, t98, (0 : α), t99, t100, t101, (0 : α), t123, t128, t133, (1 : α)⟩
                            else
                              ⟨(1 : α), (0 : α), (0 : α), (0 : α), (0 : α), (1 : α), (0 : α), (0 : α), (0 : α), (0 : α), (1 : α), (0 : α), (0 : α), (0 : α), (0 : α), (1 : α)⟩
                          else
                            ⟨(1 : α), (0 : α), (0 : α), (0 : α), (0 : α), (1 : α), (0 : α), (0 : α), (0 : α), (0 : α), (1 : α), (0 : α), (0 : α), (0 : α), (0 : α), (1 : α)⟩
                        else
                          ⟨(1 : α), (0 : α), (0 : α), (0 : α), (0 : α), (1 : α), (0 : α), (0 : α), (0 : α), (0 : α), (1 : α), (0 : α), (0 : α), (0 : α), (0 : α), (1 : α)⟩
                      else
                        ⟨(1 : α), (0 : α), (0 : α), (0 : α), (0 : α), (1 : α), (0 : α), (0 : α), (0 : α), (0 : α), (1 : α), (0 : α), (0 : α), (0 : α), (0 : α), (1 : α)⟩
                    else
                      ⟨(1 : α), (0 : α), (0 : α), (0 : α), (0 : α), (1 : α), (0 : α), (0 : α), (0 : α), (0 : α), (1 : α), (0 : α), (0 : α), (0 : α), (0 : α), (1 : α)⟩
                  else
                    ⟨(1 : α), (0 : α), (0 : α), (0 : α), (0 : α), (1 : α), (0 : α), (0 : α), (0 : α), (0 : α), (1 : α), (0 : α), (0 : α), (0 : α), (0 : α), (1 : α)⟩
                else
                  ⟨(1 : α), (0 : α), (0 : α), (0 : α), (0 : α), (1 : α), (0 : α), (0 : α), (0 : α), (0 : α), (1 : α), (0 : α), (0 : α), (0 : α), (0 : α), (1 : α)⟩
              else
                ⟨(1 : α), (0 : α), (0 : α), (0 : α), (0 : α), (1 : α), (0 : α), (0 : α), (0 : α), (0 : α), (1 : α), (0 : α), (0 : α), (0 : α), (0 : α), (1 : α)⟩
            else
              ⟨(1 : α), (0 : α), (0 : α), (0 : α), (0 : α), (1 : α), (0 : α), (0 : α), (0 : α), (0 : α), (1 : α), (0 : α), (0 : α), (0 : α), (0 : α), (1 : α)⟩
        else
          ⟨(t134).x00, (t134).x01, (t134).x02, (t134).x03, (t134).x10, (t134).x11, (t134).x12, (t134).x13, (t134).x20, (t134).x21, (t134).x22, (t134).x23, (t134).x30, (t134).x31, (t134).x32, (t134).x33⟩
      else
        ⟨(t134).x00, (t134).x01, (t134).x02, (t134).x03, (t134).x10, (t134).x11, (t134).x12, (t134).x13, (t134).x20, (t134).x21, (t134).x22, (t134).x23, (t134).x30, (t134).x31, (t134).x32, (t134).x33⟩
    else
      ⟨(t134).x00, (t134).x01, (t134).x02, (t134).x03, (t134).x10, (t134).x11, (t134).x12, (t134).x13, (t134).x20, (t134).x21, (t134).x22, (t134).x23, (t134).x30, (t134).x31, (t134).x32, (t134).x33⟩
  else
    ⟨(t134).x00, (t134).x01, (t134).x02, (t134).x03, (t134).x10, (t134).x11, (t134).x12, (t134).x13, (t134).x20, (t134).x21, (t134).x22, (t134).x23, (t134).x30, (t134).x31, (t134).x32, (t134).x33⟩

/-- extracted from the C++ template at T = Sym; 15 path(s) -/
def C07.M44.inverseF {α : Type} [Add α] [Sub α] [Mul α] [Div α] [Neg α] [LT α] [LE α] [DecidableLT α] [DecidableLE α] [DecidableEq α] [OfNat α 0] [OfNat α 1] (tmin : α) (gj44F : M44 α → M44 α) (a : M44 α) : (M44 α) :=
  let t39 := ((a.x00 * a.x11) - (a.x10 * a.x01))
  let t40 := (sabs t39)
  let t65 := ((a.x20 * a.x01) - (a.x00 * a.x21))
  let t68 := ((a.x10 * a.x21) - (a.x20 * a.x11))
  let t71 := ((a.x10 * a.x02) - (a.x00 * a.x12))
  let t74 := ((a.x00 * a.x22) - (a.x20 * a.x02))
  let t77 := ((a.x20 * a.x12) - (a.x10 * a.x22))
  let t80 := ((a.x01 * a.x12) - (a.x11 * a.x02))
  let t83 := ((a.x21 * a.x02) - (a.x01 * a.x22))
  let t86 := ((a.x11 * a.x22) - (a.x21 * a.x12))
  let t91 := (((a.x00 * t86) + (a.x01 * t77)) + (a.x02 * t68))
  let t92 := (sabs t91)
  let t93 := (t86 / t91)
  let t94 := (t83 / t91)
  let t95 := (t80 / t91)
  let t96 := (t77 / t91)
  let t97 := (t74 / t91)
  let t98 := (t71 / t91)
  let t99 := (t68 / t91)
  let t100 := (t65 / t91)
  let t101 := (t39 / t91)
  let t102 := (t92 / tmin)
  let t103 := (sabs t86)
  let t104 := (sabs t83)
  let t105 := (sabs t80)
  let t106 := (sabs t77)
  let t107 := (sabs t74)
  let t108 := (sabs t71)
  let t109 := (sabs t68)
  let t110 := (sabs t65)
  let t120 := (-a.x30)
  let t123 := (((t120 * t93) - (a.x31 * t96)) - (a.x32 * t99))
  let t128 := (((t120 * t94) - (a.x31 * t97)) - (a.x32 * t100))
  let t133 := (((t120 * t95) - (a.x31 * t98)) - (a.x32 * t101))
  let t151 := (gj44F ⟨a.x00, a.x01, a.x02, a.x03, a.x10, a.x11, a.x12, a.x13, a.x20, a.x21, a.x22, a.x23, a.x30, a.x31, a.x32, a.x33⟩)
  if a.x03 = (0 : α) then
    if a.x13 = (0 : α) then
      if a.x23 = (0 : α) then
        if a.x33 = (1 : α) then
          if (1 : α) ≤ t92 then
            ⟨t93, t94, t95, (0 : α), t96, t97, t98, (0 : α), t99, t100, t101, (0 : α), t123, t128, t133, (1 : α)⟩
          else
            if t103 < t102 then
              if t104 < t102 then
                if t105 < t102 then
                  if t106 < t102 then
                    if t107 < t102 then
                      if t108 < t102 then
                        if t109 < t102 then
                          if t110 < t102 then
                            if t40 < t102 then
                              ⟨t93, t94, t95, (0 : α), t96, t97, t98, (0 : α), t99, t100, t101, (0 : α), t123, t128, t133, (1 : α)⟩
                            else
                              ⟨(1 : α), (0 : α), (0 : α), (0 : α), (0 : α), (1 : α), (0 : α), (0 : α), (0 : α), (0 : α), (1 : α), (0 : α), (0 : α), (0 : α), (0 : α), (1 : α)⟩
                          else
                            ⟨(1 : α), (0 : α), (0 : α), (0 : α), (0 : α), (1 : α), (0 : α), (0 : α), (0 : α), (0 : α), (1 : α), (0 : α), (0 : α), (0 : α), (0 : α), (1 : α)⟩
                        else
                          ⟨(1 : α), (0 : α), (0 : α), (0 : α), (0 : α), (1 : α), (0 : α), (0 : α), (0 : α), (0 : α), (1 : α), (0 : α), (0 : α), (0 : α), (0 : α), (1 : α)⟩
                      else
                        ⟨(1 : α), (0 : α), (0 : α), (0 : α), (0 : α), (1 : α), (0 : α), (0 : α), (0 : α), (0 : α), (1 : α), (0 : α), (0 : α), (0 : α), (0 : α), (1 : α)⟩
                    else
                      ⟨(1 : α), (0 : α), (0 : α), (0 : α), (0 : α), (1 : α), (0 : α), (0 : α), (0 : α), (0 : α), (1 : α), (0 : α), (0 : α), (0 : α), (0 : α), (1 : α)⟩
                  else
                    ⟨(1 : α), (0 : α), (0 : α), (0 : α), (0 : α), (1 : α), (0 : α), (0 : α), (0 : α), (0 : α), (1 : α), (0 : α), (0 : α), (0 : α), (0 : α), (1 : α)⟩
                else
                  ⟨(1 : α), (0 : α), (0 : α), (0 : α), (0 : α), (1 : α), (0 : α), (0 : α), (0 : α), (0 : α), (1 : α), (0 : α), (0 : α), (0 : α), (0 : α), (1 : α)⟩
              else
                ⟨(1 : α), (0 : α), (0 : α), (0 : α), (0 : α), (1 : α), (0 : α), (0 : α), (0 : α), (0 : α), (1 : α), (0 : α), (0 : α), (0 : α), (0 : α), (1 : α)⟩
            else
              ⟨(1 : α), (0 : α), (0 : α), (0 : α), (0 : α), (1 : α), (0 : α), (0 : α), (0 : α), (0 : α), (1 : α), (0 : α), (0 : α), (0 : α), (0 : α), (1 : α)⟩
        else
          ⟨(t151).x00, (t151).x01, (t151).x02, (t151).x03, (t151).x10, (t151).x11, (t151).x12, (t151).x13, (t151).x20, (t151).x21, (t151).x22, (t151).x23, (t151).x30, (t151).x31, (t151).x32, (t151).x33⟩
      else
        ⟨(t151).x00, (t151).x01, (t151).x02, (t151).x03, (t151).x10, (t151).x11, (t151).x12, (t151).x13, (t151).x20, (t151).x21, (t151).x22, (t151).x23, (t151).x30, (t151).x31, (t151).x32, (t151).x33⟩
    else
      ⟨(t151).x00, (t151).x01, (t151).x02, (t151).x03, (t151).x10, (t151).x11, (t151).x12, (t151).x13, (t151).x20, (t151).x21, (t151).x22, (t151).x23, (t151).x30, (t151).x31, (t151).x32, (t151).x33⟩
  else
    ⟨(t151).x00, (t151).x01, (t151).x02, (t151).x03, (t151).x10, (t151).x11, (t151).x12, (t151).x13, (t151).x20, (t151).x21, (t151).x22, (t151).x23, (t151).x30, (t151).x31, (t151).x32, (t151).x33⟩

/-- extracted from the C++ template at T = Sym; 19 path(s) -/
def C07.M44.inverseT {α : Type} [Add α] [Sub α] [Mul α] [Div α] [Neg α] [LT α] [LE α] [DecidableLT α] [DecidableLE α] [DecidableEq α] [OfNat α 0] [OfNat α 1] (tmin : α) (gj44Tstatus : M44 α → α) (gj44Tvalue : M44 α → M44 α) (a : M44 α) : Except Exc (M44 α) :=
  let t39 := ((a.x00 * a.x11) - (a.x10 * a.x01))
  let t40 := (sabs t39)
  let t65 := ((a.x20 * a.x01) - (a.x00 * a.x21))
  let t68 := ((a.x10 * a.x21) - (a.x20 * a.x11))
  let t71 := ((a.x10 * a.x02) - (a.x00 * a.x12))
  let t74 := ((a.x00 * a.x22) - (a.x20 * a.x02))
  let t77 := ((a.x20 * a.x12) - (a.x10 * a.x22))
  let t80 := ((a.x01 * a.x12) - (a.x11 * a.x02))
  let t83 := ((a.x21 * a.x02) - (a.x01 * a.x22))
  let t86 := ((a.x11 * a.x22) - (a.x21 * a.x12))
  let t91 := (((a.x00 * t86) + (a.x01 * t77)) + (a.x02 * t68))
  let t92 := (sabs t91)
  let t93 := (t86 / t91)
  let t94 := (t83 / t91)
  let t95 := (t80 / t91)
  let t96 := (t77 / t91)
  let t97 := (t74 / t91)
  let t98 := (t71 / t91)
  let t99 := (t68 / t91)
  let t100 := (t65 / t91)
  let t101 := (t39 / t91)
  let t102 := (t92 / tmin)
  let t103 := (sabs t86)
  let t104 := (sabs t83)
  let t105 := (sabs t80)
  let t106 := (sabs t77)
  let t107 := (sabs t74)
  let t108 := (sabs t71)
  let t109 := (sabs t68)
  let t110 := (sabs t65)
  let t120 := (-a.x30)
  let t123 := (((t120 * t93) - (a.x31 * t96)) - (a.x32 * t99))
  let t128 := (((t120 * t94) - (a.x31 * t97)) - (a.x32 * t100))
  let t133 := (((t120 * t95) - (a.x31 * t98)) - (a.x32 * t101))
  let t168 := (gj44Tstatus ⟨a.x00, a.x01, a.x02, a.x03, a.x10, a.x11, a.x12, a.x13, a.x20, a.x21, a.x22, a.x23, a.x30, a.x31, a.x32, a.x33⟩)
  let t169 := (gj44Tvalue ⟨a.x00, a.x01, a.x02, a.x03, a.x10, a.x11, a.x12, a.x13, a.x20, a.x21, a.x22, a.x23, a.x30, a.x31, a.x32, a.x33⟩)
  if a.x03 = (0 : α) then
    if a.x13 = (0 : α) then
      if a.x23 = (0 : α) then
        if a.x33 = (1 : α) then
          if (1 : α) ≤ t92 then
            .ok (⟨t93, t94, t95, (0 : α), t96, t97, t98, (0 : α), t99, t100, t101, (0 : α), t123, t128, t133, (1 : α)⟩)
          else
            if t103 < t102 then
              if t104 < t102 then
                if t105 < t102 then
                  if t106 < t102 then
                    if t107 < t102 then
                      if t108 < t102 then
                        if t109 < t102 then
                          if t110 < t102 then
                            if t40 < t102 then
                              .ok (⟨t93, t94, t95, (0 : α), t96, t97, t98, (0 : α), t99, t100, t101, (0 : α), t123, t128, t133, (1 : α)⟩)
                            else
                              .error Exc.invalidArgument
                          else
                            .error Exc.invalidArgument
                        else
                          .error Exc.invalidArgument
                      else
                        .error Exc.invalidArgument
                    else
                      .error Exc.invalidArgument
                  else
                    .error Exc.invalidArgument
                else
                  .error Exc.invalidArgument
              else
                .error Exc.invalidArgument
            else
              .error Exc.invalidArgument
        else
          if t168 = (0 : α) then
            .ok (⟨(t169).x00, (t169).x01, (t169).x02, (t169).x03, (t169).x10, (t169).x11, (t169).x12, (t169).x13, (t169).x20, (t169).x21, (t169).x22, (t169).x23, (t169).x30, (t169).x31, (t169).x32, (t169).x33⟩)
          else
            .error Exc.invalidArgument
      else
        if t168 = (0 : α) then
          .ok (⟨(t169).x00, (t169).x01, (t169).x02, (t169).x03, (t169).x10, (t169).x11, (t169).x12, (t169).x13, (t169).x20, (t169).x21, (t169).x22, (t169).x23, (t169).x30, (t169).x31, (t169).x32, (t169).x33⟩)
        else
          .error Exc.invalidArgument
    else
      if t168 = (0 : α) then
        .ok (⟨(t169).x00, (t169).x01, (t169).x02, (t169).x03, (t169).x10, (t169).x11, (t169).x12, (t169).x13, (t169).x20, (t169).x21, (t169).x22, (t169).x23, (t169).x30, (t169).x31, (t169).x32, (t169).x33⟩)
      else
        .error Exc.invalidArgument
  else
    if t168 = (0 : α) then
      .ok (⟨(t169).x00, (t169).x01, (t169).x02, (t169).x03, (t169).x10, (t169).x11, (t169).x12, (t169).x13, (t169).x20, (t169).x21, (t169).x22, (t169).x23, (t169).x30, (t169).x31, (t169).x32, (t169).x33⟩)
    else
      .error Exc.invalidArgument

/-- extracted from the C++ template at T = Sym; 15 path(s) -/
def C07.M44.invert0 {α : Type} [Add α] [Sub α] [Mul α] [Div α] [Neg α] [LT α] [LE α] [DecidableLT α] [DecidableLE α] [DecidableEq α] [OfNat α 0] [OfNat α 1] (tmin : α) (gj44 : M44 α → M44 α) (a : M44 α) : (M44 α) :=
  let t39 := ((a.x00 * a.x11) - (a.x10 * a.x01))
  let t40 := (sabs t39)
  let t65 := ((a.x20 * a.x01) - (a.x00 * a.x21))
  let t68 := ((a.x10 * a.x21) - (a.x20 * a.x11))
  let t71 := ((a.x10 * a.x02) - (a.x00 * a.x12))
  let t74 := ((a.x00 * a.x22) - (a.x20 * a.x02))
  let t77 := ((a.x20 * a.x12) - (a.x10 * a.x22))
  let t80 := ((a.x01 * a.x12) - (a.x11 * a.x02))
  let t83 := ((a.x21 * a.x02) - (a.x01 * a.x22))
  let t86 := ((a.x11 * a.x22) - (a.x21 * a.x12))
  let t91 := (((a.x00 * t86) + (a.x01 * t77)) + (a.x02 * t68))
  let t92 := (sabs t91)
  let t93 := (t86 / t91)
  let t94 := (t83 / t91)
  let t95 := (t80 / t91)
  let t96 := (t77 / t91)
  let t97 := (t74 / t91)
  let t98 := (t71 / t91)
  let t99 := (t68 / t91)
  let t100 := (t65 / t91)
  let t101 := (t39 / t91)
  let t102 := (t92 / tmin)
  let t103 := (sabs t86)
  let t104 := (sabs t83)
  let t105 := (sabs t80)
  let t106 := (sabs t77)
  let t107 := (sabs t74)
  let t108 := (sabs t71)
  let t109 := (sabs t68)
  let t110 := (sabs t65)
  let t120 := (-a.x30)
  let t123 := (((t120 * t93) - (a.x31 * t96)) - (a.x32 * t99))
  let t128 := (((t120 * t94) - (a.x31 * t97)) - (a.x32 * t100))
  let t133 := (((t120 * t95) - (a.x31 * t98)) - (a.x32 * t101))
  let t134 := (gj44 ⟨a.x00, a.x01, a.x02, a.x03, a.x10, a.x11, a.x12, a.x13, a.x20, a.x21, a.x22, a.x23, a.x30, a.x31, a.x32, a.x33⟩)
  if a.x03 = (0 : α) then
    if a.x13 = (0 : α) then
      if a.x23 = (0 : α) then
        if a.x33 = (1 : α) then
          if (1 : α) ≤ t92 then
            ⟨t93, t94, t95, (0 : α), t96, t97, t98, (0 : α), t99, t100, t101, (0 : α), t123, t128, t133, (1 : α)⟩
          else
            if t103 < t102 then
              if t104 < t102 then
                if t105 < t102 then
                  if t106 < t102 then
                    if t107 < t102 then
                      if t108 < t102 then
                        if t109 < t102 then
                          if t110 < t102 then
                            if t40 < t102 then
                              ⟨t93, t94, t95, (0 : α), t96, t97, t98, (0 : α), t99, t100, t101, (0 : α), t123, t128, t133, (1 : α)⟩
                            else
                              ⟨(1 : α), (0 : α), (0 : α), (0 : α), (0 : α), (1 : α), (0 : α), (0 : α), (0 : α), (0 : α), (1 : α), (0 : α), (0 : α), (0 : α), (0 : α), (1 : α)⟩
                          else
                            ⟨(1 : α), (0 : α), (0 : α), (0 : α), (0 : α), (1 : α), (0 : α), (0 : α), (0 : α), (0 : α), (1 : α), (0 : α), (0 : α), (0 : α), (0 : α), (1 : α)⟩
                        else
                          ⟨(1 : α), (0 : α), (0 : α), (0 : α), (0 : α), (1 : α), (0 : α), (0 : α), (0 : α), (0 : α), (1 : α), (0 : α), (0 : α), (0 : α), (0 : α), (1 : α)⟩
                      else
                        ⟨(1 : α), (0 : α), (0 : α), (0 : α), (0 : α), (1 : α), (0 : α), (0 : α), (0 : α), (0 : α), (1 : α), (0 : α), (0 : α), (0 : α), (0 : α), (1 : α)⟩
                    else
                      ⟨(1 : α), (0 : α), (0 : α), (0 : α), (0 : α), (1 : α), (0 : α), (0 : α), (0 : α), (0 : α), (1 : α), (0 : α), (0 : α), (0 : α), (0 : α), (1 : α)⟩
                  else
                    ⟨(1 : α), (0 : α), (0 : α), (0 : α), (0 : α), (1 : α), (0 : α), (0 : α), (0 : α), (0 : α), (1 : α), (0 : α), (0 : α), (0 : α), (0 : α), (1 : α)⟩
                else
                  ⟨(1 : α), (0 : α), (0 : α), (0 : α), (0 : α), (1 : α), (0 : α), (0 : α), (0 : α), (0 : α), (1 : α), (0 : α), (0 : α), (0 : α), (0 : α), (1 : α)⟩
              else
                ⟨(1 : α), (0 : α), (0 : α), (0 : α), (0 : α), (1 : α), (0 : α), (0 : α), (0 : α), (0 : α), (1 : α), (0 : α), (0 : α), (0 : α), (0 : α), (1 : α)⟩
            else
              ⟨(1 : α), (0 : α), (0 : α), (0 : α), (0 : α), (1 : α), (0 : α), (0 : α), (0 : α), (0 : α), (1 : α), (0 : α), (0 : α), (0 : α), (0 : α), (1 : α)⟩
        else
          ⟨(t134).x00, (t134).x01, (t134).x02, (t134).x03, (t134).x10, (t134).x11, (t134).x12, (t134).x13, (t134).x20, (t134).x21, (t134).x22, (t134).x23, (t134).x30, (t134).x31, (t134).x32, (t134).x33⟩
      else
        ⟨(t134).x00, (t134).x01, (t134).x02, (t134).x03, (t134).x10, (t134).x11, (t134).x12, (t134).x13, (t134).x20, (t134).x21, (t134).x22, (t134).x23, (t134).x30, (t134).x31, (t134).x32, (t134).x33⟩
    else
      ⟨(t134).x00, (t134).x01, (t134).x02, (t134).x03, (t134).x10, (t134).x11, (t134).x12, (t134).x13, (t134).x20, (t134).x21, (t134).x22, (t134).x23, (t134).x30, (t134).x31, (t134).x32, (t134).x33⟩
  else
    ⟨(t134).x00, (t134).x01, (t134).x02, (t134).x03, (t134).x10, (t134).x11, (t134).x12, (t134).x13, (t134).x20, (t134).x21, (t134).x22, (t134).x23, (t134).x30, (t134).x31, (t134).x32, (t134).x33⟩

/-- extracted from the C++ template at T = Sym; 15 path(s) -/
def C07.M44.invertF {α : Type} [Add α] [Sub α] [Mul α] [Div α] [Neg α] [LT α] [LE α] [DecidableLT α] [DecidableLE α] [DecidableEq α] [OfNat α 0] [OfNat α 1] (tmin : α) (gj44F : M44 α → M44 α) (a : M44 α) : (M44 α) :=
  let t39 := ((a.x00 * a.x11) - (a.x10 * a.x01))
  let t40 := (sabs t39)
  let t65 := ((a.x20 * a.x01) - (a.x00 * a.x21))
  let t68 := ((a.x10 * a.x21) - (a.x20 * a.x11))
  let t71 := ((a.x10 * a.x02) - (a.x00 * a.x12))
  let t74 := ((a.x00 * a.x22) - (a.x20 * a.x02))
  let t77 := ((a.x20 * a.x12) - (a.x10 * a.x22))
  let t80 := ((a.x01 * a.x12) - (a.x11 * a.x02))
  let t83 := ((a.x21 * a.x02) - (a.x01 * a.x22))
  let t86 := ((a.x11 * a.x22) - (a.x21 * a.x12))
  let t91 := (((a.x00 * t86) + (a.x01 * t77)) + (a.x02 * t68))
  let t92 := (sabs t91)
  let t93 := (t86 / t91)
  let t94 := (t83 / t91)
  let t95 := (t80 / t91)
  let t96 := (t77 / t91)
  let t97 := (t74 / t91)
  let t98 := (t71 / t91)
  let t99 := (t68 / t91)
  let t100 := (t65 / t91)
  let t101 := (t39 / t91)
  let t102 := (t92 / tmin)
  let t103 := (sabs t86)
  let t104 := (sabs t83)
  let t105 := (sabs t80)
  let t106 := (sabs t77)
  let t107 := (sabs t74)
  let t108 := (sabs t71)
  let t109 := (sabs t68)
  let t110 := (sabs t65)
  let t120 := (-a.x30)
  let t123 := (((t120 * t93) - (a.x31 * t96)) - (a.x32 * t99))
  let t128 := (((t120 * t94) - (a.x31 * t97)) - (a.x32 * t100))
  let t133 := (((t120 * t95) - (a.x31 * t98)) - (a.x32 * t101))
  let t151 := (gj44F ⟨a.x00, a.x01, a.x02, a.x03, a.x10, a.x11, a.x12, a.x13, a.x20, a.x21, a.x22, a.x23, a.x30, a.x31, a.x32, a.x33⟩)
  if a.x03 = (0 : α) then
    if a.x13 = (0 : α) then
      if a.x23 = (0 : α) then
        if a.x33 = (1 : α) then
          if (1 : α) ≤ t92 then
            ⟨t93, t94, t95, (0 : α), t96, t97, t98, (0 : α), t99, t100, t101, (0 : α), t123, t128, t133, (1 : α)⟩
          else
            if t103 < t102 then
              if t104 < t102 then
                if t105 < t102 then
                  if t106 < t102 then
                    if t107 < t102 then
                      if t108 < t102 then
                        if t109 < t102 then
                          if t110 < t102 then
                            if t40 < t102 then
                              ⟨t93, t94, t95, (0 : α), t96, t97, t98, (0 : α), t99, t100, t101, (0 : α), t123, t128, t133, (1 : α)⟩
                            else
                              ⟨(1 : α), (0 : α), (0 : α), (0 : α), (0 : α), (1 : α), (0 : α), (0 : α), (0 : α), (0 : α), (1 : α), (0 : α), (0 : α), (0 : α), (0 : α), (1 : α)⟩
                          else
                            ⟨(1 : α), (0 : α), (0 : α), (0 : α), (0 : α), (1 : α), (0 : α), (0 : α), (0 : α), (0 : α), (1 : α), (0 : α), (0 : α), (0 : α), (0 : α), (1 : α)⟩
                        else
                          ⟨(1 : α), (0 : α), (0 : α), (0 : α), (0 : α), (1 : α), (0 : α), (0 : α), (0 : α), (0 : α), (1 : α), (0 : α), (0 : α), (0 : α), (0 : α), (1 : α)⟩
                      else
                        ⟨(1 : α), (0 : α), (0 : α), (0 : α), (0 : α), (1 : α), (0 : α), (0 : α), (0 : α), (0 : α), (1 : α), (0 : α), (0 : α), (0 : α), (0 : α), (1 : α)⟩
                    else
                      ⟨(1 : α), (0 : α), (0 : α), (0 : α), (0 : α), (1 : α), (0 : α), (0 : α), (0 : α), (0 : α), (1 : α), (0 : α), (0 : α), (0 : α), (0 : α), (1 : α)⟩
                  else
                    ⟨(1 : α), (0 : α), (0 : α), (0 : α), (0 : α), (1 : α), (0 : α), (0 : α), (0 : α), (0 : α), (1 : α), (0 : α), (0 : α), (0 : α), (0 : α), (1 : α)⟩
                else
                  ⟨(1 : α), (0 : α), (0 : α), (0 : α), (0 : α), (1 : α), (0 : α), (0 : α), (0 : α), (0 : α), (1 : α), (0 : α), (0 : α), (0 : α), (0 : α), (1 : α)⟩
              else
                ⟨(1 : α), (0 : α), (0 : α), (0 : α), (0 : α), (1 : α), (0 : α), (0 : α), (0 : α), (0 : α), (1 : α), (0 : α), (0 : α), (0 : α), (0 : α), (1 : α)⟩
            else
              ⟨(1 : α), (0 : α), (0 : α), (0 : α), (0 : α), (1 : α), (0 : α), (0 : α), (0 : α), (0 : α), (1 : α), (0 : α), (0 : α), (0 : α), (0 : α), (1 : α)⟩
        else
          ⟨(t151).x00, (t151).x01, (t151).x02, (t151).x03, (t151).x10, (t151).x11, (t151).x12, (t151).x13, (t151).x20, (t151).x21, (t151).x22, (t151).x23, (t151).x30, (t151).x31, (t151).x32, (t151).x33⟩
      else
        ⟨(t151).x00, (t151).x01, (t151).x02, (t151).x03, (t151).x10, (t151).x11, (t151).x12, (t151).x13, (t151).x20, (t151).x21, (t151).x22, (t151).x23, (t151).x30, (t151).x31, (t151).x32, (t151).x33⟩
    else
      ⟨(t151).x00, (t151).x01, (t151).x02, (t151).x03, (t151).x10, (t151).x11, (t151).x12, (t151).x13, (t151).x20, (t151).x21, (t151).x22, (t151).x23, (t151).x30, (t151).x31, (t151).x32, (t151).x33⟩
  else
    ⟨(t151).x00, (t151).x01, (t151).x02, (t151).x03, (t151).x10, (t151).x11, (t151).x12, (t151).x13, (t151).x20, (t151).x21, (t151).x22, (t151).x23, (t151).x30, (t151).x31, (t151).x32, (t151).x33⟩

/-- extracted from the C++ template at T = Sym; 19 path(s) -/
def C07.M44.invertT {α : Type} [Add α] [Sub α] [Mul α] [Div α] [Neg α] [LT α] [LE α] [DecidableLT α] [DecidableLE α] [DecidableEq α] [OfNat α 0] [OfNat α 1] (tmin : α) (gj44Tstatus : M44 α → α) (gj44Tvalue : M44 α → M44 α) (a : M44 α) : Except Exc (M44 α) :=
  let t39 := ((a.x00 * a.x11) - (a.x10 * a.x01))
  let t40 := (sabs t39)
  let t65 := ((a.x20 * a.x01) - (a.x00 * a.x21))
  let t68 := ((a.x10 * a.x21) - (a.x20 * a.x11))
  let t71 := ((a.x10 * a.x02) - (a.x00 * a.x12))
  let t74 := ((a.x00 * a.x22) - (a.x20 * a.x02))
  let t77 := ((a.x20 * a.x12) - (a.x10 * a.x22))
  let t80 := ((a.x01 * a.x12) - (a.x11 * a.x02))
  let t83 := ((a.x21 * a.x02) - (a.x01 * a.x22))
  let t86 := ((a.x11 * a.x22) - (a.x21 * a.x12))
  let t91 := (((a.x00 * t86) + (a.x01 * t77)) + (a.x02 * t68))
  let t92 := (sabs t91)
  let t93 := (t86 / t91)
  let t94 := (t83 / t91)
  let t95 := (t80 / t91)
  let t96 := (t77 / t91)
  let t97 := (t74 / t91)
  let t98 := (t71 / t91)
  let t99 := (t68 / t91)
  let t100 := (t65 / t91)
  let t101 := (t39 / t91)
  let t102 := (t92 / tmin)
  let t103 := (sabs t86)
  let t104 := (sabs t83)
  let t105 := (sabs t80)
  let t106 := (sabs t77)
  let t107 := (sabs t74)
  let t108 := (sabs t71)
  let t109 := (sabs t68)
  let t110 := (sabs t65)
  let t120 := (-a.x30)
  let t123 := (((t120 * t93) - (a.x31 * t96)) - (a.x32 * t99))
  let t128 := (((t120 * t94) - (a.x31 * t97)) - (a.x32 * t100))
  let t133 := (((t120 * t95) - (a.x31 * t98)) - (a.x32 * t101))
  let t168 := (gj44Tstatus ⟨a.x00, a.x01, a.x02, a.x03, a.x10, a.x11, a.x12, a.x13, a.x20, a.x21, a.x22, a.x23, a.x30, a.x31, a.x32, a.x33⟩)
  let t169 := (gj44Tvalue ⟨a.x00, a.x01, a.x02, a.x03, a.x10, a.x11, a.x12, a.x13, a.x20, a.x21, a.x22, a.x23, a.x30, a.x31, a.x32, a.x33⟩)
  if a.x03 = (0 : α) then
    if a.x13 = (0 : α) then
      if a.x23 = (0 : α) then
        if a.x33 = (1 : α) then
          if (1 : α) ≤ t92 then
            .ok (⟨t93, t94, t95, (0 : α), t96, t97, t98, (0 : α), t99, t100, t101, (0 : α), t123, t128, t133, (1 : α)⟩)
          else
            if t103 < t102 then
              if t104 < t102 then
                if t105 < t102 then
                  if t106 < t102 then
                    if t107 < t102 then
                      if t108 < t102 then
                        if t109 < t102 then
                          if t110 < t102 then
                            if t40 < t102 then
                              .ok (⟨t93, t94, t95, (0 : α), t96, t97, t98, (0 : α), t99, t100, t101, (0 : α), t123, t128, t133, (1 : α)⟩)
                            else
                              .error Exc.invalidArgument
                          else
                            .error Exc.invalidArgument
                        else
                          .error Exc.invalidArgument
                      else
                        .error Exc.invalidArgument
                    else
                      .error Exc.invalidArgument
                  else
                    .error Exc.invalidArgument
                else
                  .error Exc.invalidArgument
              else
                .error Exc.invalidArgument
            else
              .error Exc.invalidArgument
        else
          if t168 = (0 : α) then
            .ok (⟨(t169).x00, (t169).x01, (t169).x02, (t169).x03, (t169).x10, (t169).x11, (t169).x12, (t169).x13, (t169).x20, (t169).x21, (t169).x22, (t169).x23, (t169).x30, (t169).x31, (t169).x32, (t169).x33⟩)
          else
            .error Exc.invalidArgument
      else
        if t168 = (0 : α) then
          .ok (⟨(t169).x00, (t169).x01, (t169).x02, (t169).x03, (t169).x10, (t169).x11, (t169).x12, (t169).x13, (t169).x20, (t169).x21, (t169).x22, (t169).x23, (t169).x30, (t169).x31, (t169).x32, (t169).x33⟩)
        else
          .error Exc.invalidArgument
    else
      if t168 = (0 : α) then
        .ok (⟨(t169).x00, (t169).x01, (t169).x02, (t169).x03, (t169).x10, (t169).x11, (t169).x12, (t169).x13, (t169).x20, (t169).x21, (t169).x22, (t169).x23, (t169).x30, (t169).x31, (t169).x32, (t169).x33⟩)
      else
        .error Exc.invalidArgument
  else
    if t168 = (0 : α) then
      .ok (⟨(t169).x00, (t169).x01, (t169).x02, (t169).x03, (t169).x10, (t169).x11, (t169).x12, (t169).x13, (t169).x20, (t169).x21, (t169).x22, (t169).x23, (t169).x30, (t169).x31, (t169).x32, (t169).x33⟩)
    else
      .error Exc.invalidArgument

end ImathVerif.Gen
