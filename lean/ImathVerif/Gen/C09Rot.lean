-- GENERATED from /repo/src/Imath by harness/sym (T = Sym path extraction); do not edit.
import ImathVerif.Basic.Types
import ImathVerif.Gen.C09Quat
set_option linter.unusedVariables false
namespace ImathVerif.Gen
open ImathVerif

/-- extracted from the C++ template at T = Sym; 1 path(s) -/
def Frame.rotationMatrix {α : Type} [Add α] [Sub α] [Mul α] [Div α] [Neg α] [LT α] [LE α] [DecidableLT α] [DecidableLE α] [DecidableEq α] [OfNat α 0] [OfNat α 1] [OfNat α 2] [OfNat α 8] (tmin : α) (tmax : α) (teps : α) (sqrt : α → α) (fromDir : V3 α) (toDir : V3 α) : (M44 α) :=
  let t158 := (Frame.quatSetRotation tmin tmax teps sqrt ⟨(1 : α), ⟨(0 : α), (0 : α), (0 : α)⟩⟩ ⟨fromDir.x, fromDir.y, fromDir.z⟩ ⟨toDir.x, toDir.y, toDir.z⟩)
  let t163 := ((t158).v.x * (t158).v.x)
  let t164 := ((t158).v.y * (t158).v.y)
  let t169 := ((t158).v.x * (t158).r)
  let t170 := ((t158).v.y * (t158).v.z)
  let t173 := ((t158).v.y * (t158).r)
  let t174 := ((t158).v.z * (t158).v.x)
  let t179 := ((t158).v.z * (t158).v.z)
  let t183 := ((t158).v.z * (t158).r)
  let t184 := ((t158).v.x * (t158).v.y)
  ⟨((1 : α) - ((2 : α) * (t164 + t179))), ((2 : α) * (t184 + t183)), ((2 : α) * (t174 - t173)), (0 : α), ((2 : α) * (t184 - t183)), ((1 : α) - ((2 : α) * (t179 + t163))), ((2 : α) * (t170 + t169)), (0 : α), ((2 : α) * (t174 + t173)), ((2 : α) * (t170 - t169)), ((1 : α) - ((2 : α) * (t164 + t163))), (0 : α), (0 : α), (0 : α), (0 : α), (1 : α)⟩

end ImathVerif.Gen
