-- GENERATED from /repo/src/Imath by harness/sym (T = Sym path extraction); do not edit.
import ImathVerif.Basic.Types
set_option linter.unusedVariables false
namespace ImathVerif.Gen
open ImathVerif

/-- extracted from the C++ template at T = Sym; 1 path(s) -/
def Box2.default {α : Type} (tmax : α) (tlowest : α) : (Box2 α) :=
  ⟨⟨tmax, tmax⟩, ⟨tlowest, tlowest⟩⟩

/-- extracted from the C++ template at T = Sym; 1 path(s) -/
def Box2.makeEmpty {α : Type} (tmax : α) (tlowest : α) (b : Box2 α) : (Box2 α) :=
  ⟨⟨tmax, tmax⟩, ⟨tlowest, tlowest⟩⟩

/-- extracted from the C++ template at T = Sym; 1 path(s) -/
def Box2.makeInfinite {α : Type} (tmax : α) (tlowest : α) (b : Box2 α) : (Box2 α) :=
  ⟨⟨tlowest, tlowest⟩, ⟨tmax, tmax⟩⟩

/-- extracted from the C++ template at T = Sym; 1 path(s) -/
def Box2.ofPoint {α : Type} (p : V2 α) : (Box2 α) :=
  ⟨⟨p.x, p.y⟩, ⟨p.x, p.y⟩⟩

/-- extracted from the C++ template at T = Sym; 1 path(s) -/
def Box2.ofMinMax {α : Type} (lo : V2 α) (hi : V2 α) : (Box2 α) :=
  ⟨⟨lo.x, lo.y⟩, ⟨hi.x, hi.y⟩⟩

/-- extracted from the C++ template at T = Sym; 1 path(s) -/
def Box2.extendByPoint {α : Type} [LT α] [DecidableLT α] (b : Box2 α) (p : V2 α) : (Box2 α) :=
  ⟨⟨(smin b.min.x p.x), (smin b.min.y p.y)⟩, ⟨(smax b.max.x p.x), (smax b.max.y p.y)⟩⟩

/-- extracted from the C++ template at T = Sym; 1 path(s) -/
def Box2.extendByBox {α : Type} [LT α] [DecidableLT α] (b : Box2 α) (o : Box2 α) : (Box2 α) :=
  ⟨⟨(smin b.min.x o.min.x), (smin b.min.y o.min.y)⟩, ⟨(smax b.max.x o.max.x), (smax b.max.y o.max.y)⟩⟩

/-- extracted from the C++ template at T = Sym; 5 path(s) -/
def Box2.intersectsPoint {α : Type} [LE α] [DecidableLE α] (b : Box2 α) (p : V2 α) : Bool :=
  if b.min.x ≤ p.x then
    if p.x ≤ b.max.x then
      if b.min.y ≤ p.y then
        if p.y ≤ b.max.y then
          true
        else
          false
      else
        false
    else
      false
  else
    false

/-- extracted from the C++ template at T = Sym; 9 path(s) -/
def Box2.intersectsBox {α : Type} [LT α] [LE α] [DecidableLT α] [DecidableLE α] (b : Box2 α) (o : Box2 α) : Bool :=
  if b.max.x < b.min.x then
    false
  else
    if b.max.y < b.min.y then
      false
    else
      if o.max.x < o.min.x then
        false
      else
        if o.max.y < o.min.y then
          false
        else
          if o.min.x ≤ b.max.x then
            if b.min.x ≤ o.max.x then
              if o.min.y ≤ b.max.y then
                if b.min.y ≤ o.max.y then
                  true
                else
                  false
              else
                false
            else
              false
          else
            false

/-- extracted from the C++ template at T = Sym; 3 path(s) -/
def Box2.isEmpty {α : Type} [LT α] [DecidableLT α] (b : Box2 α) : Bool :=
  if b.max.x < b.min.x then
    true
  else
    if b.max.y < b.min.y then
      true
    else
      false

/-- extracted from the C++ template at T = Sym; 3 path(s) -/
def Box2.hasVolume {α : Type} [LE α] [DecidableLE α] (b : Box2 α) : Bool :=
  if b.max.x ≤ b.min.x then
    false
  else
    if b.max.y ≤ b.min.y then
      false
    else
      true

/-- extracted from the C++ template at T = Sym; 5 path(s) -/
def Box2.isInfinite {α : Type} [DecidableEq α] (tmax : α) (tlowest : α) (b : Box2 α) : Bool :=
  if b.min.x = tlowest then
    if b.max.x = tmax then
      if b.min.y = tlowest then
        if b.max.y = tmax then
          true
        else
          false
      else
        false
    else
      false
  else
    false

/-- extracted from the C++ template at T = Sym; 3 path(s) -/
def Box2.size {α : Type} [Sub α] [LT α] [DecidableLT α] [OfNat α 0] (b : Box2 α) : (V2 α) :=
  if b.max.x < b.min.x then
    ⟨(0 : α), (0 : α)⟩
  else
    if b.max.y < b.min.y then
      ⟨(0 : α), (0 : α)⟩
    else
      ⟨(b.max.x - b.min.x), (b.max.y - b.min.y)⟩

/-- extracted from the C++ template at T = Sym; 1 path(s) -/
def Box2.center {α : Type} [Add α] [Div α] [OfNat α 2] (b : Box2 α) : (V2 α) :=
  ⟨((b.max.x + b.min.x) / (2 : α)), ((b.max.y + b.min.y) / (2 : α))⟩

/-- extracted from the C++ template at T = Sym; 4 path(s) -/
def Box2.majorAxis {α : Type} [Sub α] [LT α] [LE α] [DecidableLT α] [DecidableLE α] (b : Box2 α) : Int :=
  let t25 := (b.max.y - b.min.y)
  let t26 := (b.max.x - b.min.x)
  if b.max.x < b.min.x then
    (0 : Int)
  else
    if b.max.y < b.min.y then
      (0 : Int)
    else
      if t25 ≤ t26 then
        (0 : Int)
      else
        (1 : Int)

/-- extracted from the C++ template at T = Sym; 5 path(s) -/
def Box2.eq {α : Type} [DecidableEq α] (a : Box2 α) (b : Box2 α) : Bool :=
  if a.min.x = b.min.x then
    if a.min.y = b.min.y then
      if a.max.x = b.max.x then
        if a.max.y = b.max.y then
          true
        else
          false
      else
        false
    else
      false
  else
    false

/-- extracted from the C++ template at T = Sym; 5 path(s) -/
def Box2.ne {α : Type} [DecidableEq α] (a : Box2 α) (b : Box2 α) : Bool :=
  if a.min.x = b.min.x then
    if a.min.y = b.min.y then
      if a.max.x = b.max.x then
        if a.max.y = b.max.y then
          false
        else
          true
      else
        true
    else
      true
  else
    true

/-- extracted from the C++ template at T = Sym; 1 path(s) -/
def Box3.default {α : Type} (tmax : α) (tlowest : α) : (Box3 α) :=
  ⟨⟨tmax, tmax, tmax⟩, ⟨tlowest, tlowest, tlowest⟩⟩

/-- extracted from the C++ template at T = Sym; 1 path(s) -/
def Box3.makeEmpty {α : Type} (tmax : α) (tlowest : α) (b : Box3 α) : (Box3 α) :=
  ⟨⟨tmax, tmax, tmax⟩, ⟨tlowest, tlowest, tlowest⟩⟩

/-- extracted from the C++ template at T = Sym; 1 path(s) -/
def Box3.makeInfinite {α : Type} (tmax : α) (tlowest : α) (b : Box3 α) : (Box3 α) :=
  ⟨⟨tlowest, tlowest, tlowest⟩, ⟨tmax, tmax, tmax⟩⟩

/-- extracted from the C++ template at T = Sym; 1 path(s) -/
def Box3.ofPoint {α : Type} (p : V3 α) : (Box3 α) :=
  ⟨⟨p.x, p.y, p.z⟩, ⟨p.x, p.y, p.z⟩⟩

/-- extracted from the C++ template at T = Sym; 1 path(s) -/
def Box3.ofMinMax {α : Type} (lo : V3 α) (hi : V3 α) : (Box3 α) :=
  ⟨⟨lo.x, lo.y, lo.z⟩, ⟨hi.x, hi.y, hi.z⟩⟩

/-- extracted from the C++ template at T = Sym; 1 path(s) -/
def Box3.extendByPoint {α : Type} [LT α] [DecidableLT α] (b : Box3 α) (p : V3 α) : (Box3 α) :=
  ⟨⟨(smin b.min.x p.x), (smin b.min.y p.y), (smin b.min.z p.z)⟩, ⟨(smax b.max.x p.x), (smax b.max.y p.y), (smax b.max.z p.z)⟩⟩

/-- extracted from the C++ template at T = Sym; 1 path(s) -/
def Box3.extendByBox {α : Type} [LT α] [DecidableLT α] (b : Box3 α) (o : Box3 α) : (Box3 α) :=
  ⟨⟨(smin b.min.x o.min.x), (smin b.min.y o.min.y), (smin b.min.z o.min.z)⟩, ⟨(smax b.max.x o.max.x), (smax b.max.y o.max.y), (smax b.max.z o.max.z)⟩⟩

/-- extracted from the C++ template at T = Sym; 7 path(s) -/
def Box3.intersectsPoint {α : Type} [LE α] [DecidableLE α] (b : Box3 α) (p : V3 α) : Bool :=
  if b.min.x ≤ p.x then
    if p.x ≤ b.max.x then
      if b.min.y ≤ p.y then
        if p.y ≤ b.max.y then
          if b.min.z ≤ p.z then
            if p.z ≤ b.max.z then
              true
            else
              false
          else
            false
        else
          false
      else
        false
    else
      false
  else
    false

/-- extracted from the C++ template at T = Sym; 13 path(s) -/
def Box3.intersectsBox {α : Type} [LT α] [LE α] [DecidableLT α] [DecidableLE α] (b : Box3 α) (o : Box3 α) : Bool :=
  if b.max.x < b.min.x then
    false
  else
    if b.max.y < b.min.y then
      false
    else
      if b.max.z < b.min.z then
        false
      else
        if o.max.x < o.min.x then
          false
        else
          if o.max.y < o.min.y then
            false
          else
            if o.max.z < o.min.z then
              false
            else
              if o.min.x ≤ b.max.x then
                if b.min.x ≤ o.max.x then
                  if o.min.y ≤ b.max.y then
                    if b.min.y ≤ o.max.y then
                      if o.min.z ≤ b.max.z then
                        if b.min.z ≤ o.max.z then
                          true
                        else
                          false
                      else
                        false
                    else
                      false
                  else
                    false
                else
                  false
              else
                false

/-- extracted from the C++ template at T = Sym; 4 path(s) -/
def Box3.isEmpty {α : Type} [LT α] [DecidableLT α] (b : Box3 α) : Bool :=
  if b.max.x < b.min.x then
    true
  else
    if b.max.y < b.min.y then
      true
    else
      if b.max.z < b.min.z then
        true
      else
        false

/-- extracted from the C++ template at T = Sym; 4 path(s) -/
def Box3.hasVolume {α : Type} [LE α] [DecidableLE α] (b : Box3 α) : Bool :=
  if b.max.x ≤ b.min.x then
    false
  else
    if b.max.y ≤ b.min.y then
      false
    else
      if b.max.z ≤ b.min.z then
        false
      else
        true

/-- extracted from the C++ template at T = Sym; 7 path(s) -/
def Box3.isInfinite {α : Type} [DecidableEq α] (tmax : α) (tlowest : α) (b : Box3 α) : Bool :=
  if b.min.x = tlowest then
    if b.max.x = tmax then
      if b.min.y = tlowest then
        if b.max.y = tmax then
          if b.min.z = tlowest then
            if b.max.z = tmax then
              true
            else
              false
          else
            false
        else
          false
      else
        false
    else
      false
  else
    false

/-- extracted from the C++ template at T = Sym; 4 path(s) -/
def Box3.size {α : Type} [Sub α] [LT α] [DecidableLT α] [OfNat α 0] (b : Box3 α) : (V3 α) :=
  if b.max.x < b.min.x then
    ⟨(0 : α), (0 : α), (0 : α)⟩
  else
    if b.max.y < b.min.y then
      ⟨(0 : α), (0 : α), (0 : α)⟩
    else
      if b.max.z < b.min.z then
        ⟨(0 : α), (0 : α), (0 : α)⟩
      else
        ⟨(b.max.x - b.min.x), (b.max.y - b.min.y), (b.max.z - b.min.z)⟩

/-- extracted from the C++ template at T = Sym; 1 path(s) -/
def Box3.center {α : Type} [Add α] [Div α] [OfNat α 2] (b : Box3 α) : (V3 α) :=
  ⟨((b.max.x + b.min.x) / (2 : α)), ((b.max.y + b.min.y) / (2 : α)), ((b.max.z + b.min.z) / (2 : α))⟩

/-- extracted from the C++ template at T = Sym; 7 path(s) -/
def Box3.majorAxis {α : Type} [Sub α] [LT α] [LE α] [DecidableLT α] [DecidableLE α] (b : Box3 α) : Int :=
  let t25 := (b.max.y - b.min.y)
  let t26 := (b.max.x - b.min.x)
  let t47 := (b.max.z - b.min.z)
  if b.max.x < b.min.x then
    (0 : Int)
  else
    if b.max.y < b.min.y then
      (0 : Int)
    else
      if b.max.z < b.min.z then
        (0 : Int)
      else
        if t25 ≤ t26 then
          if t47 ≤ t26 then
            (0 : Int)
          else
            (2 : Int)
        else
          if t47 ≤ t25 then
            (1 : Int)
          else
            (2 : Int)

/-- extracted from the C++ template at T = Sym; 7 path(s) -/
def Box3.eq {α : Type} [DecidableEq α] (a : Box3 α) (b : Box3 α) : Bool :=
  if a.min.x = b.min.x then
    if a.min.y = b.min.y then
      if a.min.z = b.min.z then
        if a.max.x = b.max.x then
          if a.max.y = b.max.y then
            if a.max.z = b.max.z then
              true
            else
              false
          else
            false
        else
          false
      else
        false
    else
      false
  else
    false

/-- extracted from the C++ template at T = Sym; 7 path(s) -/
def Box3.ne {α : Type} [DecidableEq α] (a : Box3 α) (b : Box3 α) : Bool :=
  if a.min.x = b.min.x then
    if a.min.y = b.min.y then
      if a.min.z = b.min.z then
        if a.max.x = b.max.x then
          if a.max.y = b.max.y then
            if a.max.z = b.max.z then
              false
            else
              true
          else
            true
        else
          true
      else
        true
    else
      true
  else
    true

/-- extracted from the C++ template at T = Sym; 1 path(s) -/
def Box4.default {α : Type} (tmax : α) (tlowest : α) : (Box4 α) :=
  ⟨⟨tmax, tmax, tmax, tmax⟩, ⟨tlowest, tlowest, tlowest, tlowest⟩⟩

/-- extracted from the C++ template at T = Sym; 1 path(s) -/
def Box4.makeEmpty {α : Type} (tmax : α) (tlowest : α) (b : Box4 α) : (Box4 α) :=
  ⟨⟨tmax, tmax, tmax, tmax⟩, ⟨tlowest, tlowest, tlowest, tlowest⟩⟩

/-- extracted from the C++ template at T = Sym; 1 path(s) -/
def Box4.makeInfinite {α : Type} (tmax : α) (tlowest : α) (b : Box4 α) : (Box4 α) :=
  ⟨⟨tlowest, tlowest, tlowest, tlowest⟩, ⟨tmax, tmax, tmax, tmax⟩⟩

/-- extracted from the C++ template at T = Sym; 1 path(s) -/
def Box4.ofPoint {α : Type} (p : V4 α) : (Box4 α) :=
  ⟨⟨p.x, p.y, p.z, p.w⟩, ⟨p.x, p.y, p.z, p.w⟩⟩

/-- extracted from the C++ template at T = Sym; 1 path(s) -/
def Box4.ofMinMax {α : Type} (lo : V4 α) (hi : V4 α) : (Box4 α) :=
  ⟨⟨lo.x, lo.y, lo.z, lo.w⟩, ⟨hi.x, hi.y, hi.z, hi.w⟩⟩

/-- extracted from the C++ template at T = Sym; 256 path(s) -/
def Box4.extendByPoint {α : Type} [LT α] [DecidableLT α] (b : Box4 α) (p : V4 α) : (Box4 α) :=
  if p.x < b.min.x then
    if b.max.x < p.x then
      if p.y < b.min.y then
        if b.max.y < p.y then
          if p.z < b.min.z then
            if b.max.z < p.z then
              if p.w < b.min.w then
                if b.max.w < p.w then
                  ⟨⟨p.x, p.y, p.z, p.w⟩, ⟨p.x, p.y, p.z, p.w⟩⟩
                else
                  ⟨⟨p.x, p.y, p.z, p.w⟩, ⟨p.x, p.y, p.z, b.max.w⟩⟩
              else
                if b.max.w < p.w then
                  ⟨⟨p.x, p.y, p.z, b.min.w⟩, ⟨p.x, p.y, p.z, p.w⟩⟩
                else
                  ⟨⟨p.x, p.y, p.z, b.min.w⟩, ⟨p.x, p.y, p.z, b.max.w⟩⟩
            else
              if p.w < b.min.w then
                if b.max.w < p.w then
                  ⟨⟨p.x, p.y, p.z, p.w⟩, ⟨p.x, p.y, b.max.z, p.w⟩⟩
                else
                  ⟨⟨p.x, p.y, p.z, p.w⟩, ⟨p.x, p.y, b.max.z, b.max.w⟩⟩
              else
                if b.max.w < p.w then
                  ⟨⟨p.x, p.y, p.z, b.min.w⟩, ⟨p.x, p.y, b.max.z, p.w⟩⟩
                else
                  ⟨⟨p.x, p.y, p.z, b.min.w⟩, ⟨p.x, p.y, b.max.z, b.max.w⟩⟩
          else
            if b.max.z < p.z then
              if p.w < b.min.w then
                if b.max.w < p.w then
                  ⟨⟨p.x, p.y, b.min.z, p.w⟩, ⟨p.x, p.y, p.z, p.w⟩⟩
                else
                  ⟨⟨p.x, p.y, b.min.z, p.w⟩, ⟨p.x, p.y, p.z, b.max.w⟩⟩
              else
                if b.max.w < p.w then
                  ⟨⟨p.x, p.y, b.min.z, b.min.w⟩, ⟨p.x, p.y, p.z, p.w⟩⟩
                else
                  ⟨⟨p.x, p.y, b.min.z, b.min.w⟩, ⟨p.x, p.y, p.z, b.max.w⟩⟩
            else
              if p.w < b.min.w then
                if b.max.w < p.w then
                  ⟨⟨p.x, p.y, b.min.z, p.w⟩, ⟨p.x, p.y, b.max.z, p.w⟩⟩
                else
                  ⟨⟨p.x, p.y, b.min.z, p.w⟩, ⟨p.x, p.y, b.max.z, b.max.w⟩⟩
              else
                if b.max.w < p.w then
                  ⟨⟨p.x, p.y, b.min.z, b.min.w⟩, ⟨p.x, p.y, b.max.z, p.w⟩⟩
                else
                  ⟨⟨p.x, p.y, b.min.z, b.min.w⟩, ⟨p.x, p.y, b.max.z, b.max.w⟩⟩
        else
          if p.z < b.min.z then
            if b.max.z < p.z then
              if p.w < b.min.w then
                if b.max.w < p.w then
                  ⟨⟨p.x, p.y, p.z, p.w⟩, ⟨p.x, b.max.y, p.z, p.w⟩⟩
                else
                  ⟨⟨p.x, p.y, p.z, p.w⟩, ⟨p.x, b.max.y, p.z, b.max.w⟩⟩
              else
                if b.max.w < p.w then
                  ⟨⟨p.x, p.y, p.z, b.min.w⟩, ⟨p.x, b.max.y, p.z, p.w⟩⟩
                else
                  ⟨⟨p.x, p.y, p.z, b.min.w⟩, ⟨p.x, b.max.y, p.z, b.max.w⟩⟩
            else
              if p.w < b.min.w then
                if b.max.w < p.w then
                  ⟨⟨p.x, p.y, p.z, p.w⟩, ⟨p.x, b.max.y, b.max.z, p.w⟩⟩
                else
                  ⟨⟨p.x, p.y, p.z, p.w⟩, ⟨p.x, b.max.y, b.max.z, b.max.w⟩⟩
              else
                if b.max.w < p.w then
                  ⟨⟨p.x, p.y, p.z, b.min.w⟩, ⟨p.x, b.max.y, b.max.z, p.w⟩⟩
                else
                  ⟨⟨p.x, p.y, p.z, b.min.w⟩, ⟨p.x, b.max.y, b.max.z, b.max.w⟩⟩
          else
            if b.max.z < p.z then
              if p.w < b.min.w then
                if b.max.w < p.w then
                  ⟨⟨p.x, p.y, b.min.z, p.w⟩, ⟨p.x, b.max.y, p.z, p.w⟩⟩
                else
                  ⟨⟨p.x, p.y, b.min.z, p.w⟩, ⟨p.x, b.max.y, p.z, b.max.w⟩⟩
              else
                if b.max.w < p.w then
                  ⟨⟨p.x, p.y, b.min.z, b.min.w⟩, ⟨p.x, b.max.y, p.z, p.w⟩⟩
                else
                  ⟨⟨p.x, p.y, b.min.z, b.min.w⟩, ⟨p.x, b.max.y, p.z, b.max.w⟩⟩
            else
              if p.w < b.min.w then
                if b.max.w < p.w then
                  ⟨⟨p.x, p.y, b.min.z, p.w⟩, ⟨p.x, b.max.y, b.max.z, p.w⟩⟩
                else
                  ⟨⟨p.x, p.y, b.min.z, p.w⟩, ⟨p.x, b.max.y, b.max.z, b.max.w⟩⟩
              else
                if b.max.w < p.w then
                  ⟨⟨p.x, p.y, b.min.z, b.min.w⟩, ⟨p.x, b.max.y, b.max.z, p.w⟩⟩
                else
                  ⟨⟨p.x, p.y, b.min.z, b.min.w⟩, ⟨p.x, b.max.y, b.max.z, b.max.w⟩⟩
      else
        if b.max.y < p.y then
          if p.z < b.min.z then
            if b.max.z < p.z then
              if p.w < b.min.w then
                if b.max.w < p.w then
                  ⟨⟨p.x, b.min.y, p.z, p.w⟩, ⟨p.x, p.y, p.z, p.w⟩⟩
                else
                  ⟨⟨p.x, b.min.y, p.z, p.w⟩, ⟨p.x, p.y, p.z, b.max.w⟩⟩
              else
                if b.max.w < p.w then
                  ⟨⟨p.x, b.min.y, p.z, b.min.w⟩, ⟨p.x, p.y, p.z, p.w⟩⟩
                else
                  ⟨⟨p.x, b.min.y, p.z, b.min.w⟩, ⟨p.x, p.y, p.z, b.max.w⟩⟩
            else
              if p.w < b.min.w then
                if b.max.w < p.w then
                  ⟨⟨p.x, b.min.y, p.z, p.w⟩, ⟨p.x, p.y, b.max.z, p.w⟩⟩
                else
                  ⟨⟨p.x, b.min.y, p.z, p.w⟩, ⟨p.x, p.y, b.max.z, b.max.w⟩⟩
              else
                if b.max.w < p.w then
                  ⟨⟨p.x, b.min.y, p.z, b.min.w⟩, ⟨p.x, p.y, b.max.z, p.w⟩⟩
                else
                  ⟨⟨p.x, b.min.y, p.z, b.min.w⟩, ⟨p.x, p.y, b.max.z, b.max.w⟩⟩
          else
            if b.max.z < p.z then
              if p.w < b.min.w then
                if b.max.w < p.w then
                  ⟨⟨p.x, b.min.y, b.min.z, p.w⟩, ⟨p.x, p.y, p.z, p.w⟩⟩
                else
                  ⟨⟨p.x, b.min.y, b.min.z, p.w⟩, ⟨p.x, p.y, p.z, b.max.w⟩⟩
              else
                if b.max.w < p.w then
                  ⟨⟨p.x, b.min.y, b.min.z, b.min.w⟩, ⟨p.x, p.y, p.z, p.w⟩⟩
                else
                  ⟨⟨p.x, b.min.y, b.min.z, b.min.w⟩, ⟨p.x, p.y, p.z, b.max.w⟩⟩
            else
              if p.w < b.min.w then
                if b.max.w < p.w then
                  ⟨⟨p.x, b.min.y, b.min.z, p.w⟩, ⟨p.x, p.y, b.max.z, p.w⟩⟩
                else
                  ⟨⟨p.x, b.min.y, b.min.z, p.w⟩, ⟨p.x, p.y, b.max.z, b.max.w⟩⟩
              else
                if b.max.w < p.w then
                  ⟨⟨p.x, b.min.y, b.min.z, b.min.w⟩, ⟨p.x, p.y, b.max.z, p.w⟩⟩
                else
                  ⟨⟨p.x, b.min.y, b.min.z, b.min.w⟩, ⟨p.x, p.y, b.max.z, b.max.w⟩⟩
        else
          if p.z < b.min.z then
            if b.max.z < p.z then
              if p.w < b.min.w then
                if b.max.w < p.w then
                  ⟨⟨p.x, b.min.y, p.z, p.w⟩, ⟨p.x, b.max.y, p.z, p.w⟩⟩
                else
                  ⟨⟨p.x, b.min.y, p.z, p.w⟩, ⟨p.x, b.max.y, p.z, b.max.w⟩⟩
              else
                if b.max.w < p.w then
                  ⟨⟨p.x, b.min.y, p.z, b.min.w⟩, ⟨p.x, b.max.y, p.z, p.w⟩⟩
                else
                  ⟨⟨p.x, b.min.y, p.z, b.min.w⟩, ⟨p.x, b.max.y, p.z, b.max.w⟩⟩
            else
              if p.w < b.min.w then
                if b.max.w < p.w then
                  ⟨⟨p.x, b.min.y, p.z, p.w⟩, ⟨p.x, b.max.y, b.max.z, p.w⟩⟩
                else
                  ⟨⟨p.x, b.min.y, p.z, p.w⟩, ⟨p.x, b.max.y, b.max.z, b.max.w⟩⟩
              else
                if b.max.w < p.w then
                  ⟨⟨p.x, b.min.y, p.z, b.min.w⟩, ⟨p.x, b.max.y, b.max.z, p.w⟩⟩
                else
                  ⟨⟨p.x, b.min.y, p.z, b.min.w⟩, ⟨p.x, b.max.y, b.max.z, b.max.w⟩⟩
          else
            if b.max.z < p.z then
              if p.w < b.min.w then
                if b.max.w < p.w then
                  ⟨⟨p.x, b.min.y, b.min.z, p.w⟩, ⟨p.x, b.max.y, p.z, p.w⟩⟩
                else
                  ⟨⟨p.x, b.min.y, b.min.z, p.w⟩, ⟨p.x, b.max.y, p.z, b.max.w⟩⟩
              else
                if b.max.w < p.w then
                  ⟨⟨p.x, b.min.y, b.min.z, b.min.w⟩, ⟨p.x, b.max.y, p.z, p.w⟩⟩
                else
                  ⟨⟨p.x, b.min.y, b.min.z, b.min.w⟩, ⟨p.x, b.max.y, p.z, b.max.w⟩⟩
            else
              if p.w < b.min.w then
                if b.max.w < p.w then
                  ⟨⟨p.x, b.min.y, b.min.z, p.w⟩, ⟨p.x, b.max.y, b.max.z, p.w⟩⟩
                else
                  ⟨⟨p.x, b.min.y, b.min.z, p.w⟩, ⟨p.x, b.max.y, b.max.z, b.max.w⟩⟩
              else
                if b.max.w < p.w then
                  ⟨⟨p.x, b.min.y, b.min.z, b.min.w⟩, ⟨p.x, b.max.y, b.max.z, p.w⟩⟩
                else
                  ⟨⟨p.x, b.min.y, b.min.z, b.min.w⟩, ⟨p.x, b.max.y, b.max.z, b.max.w⟩⟩
    else
      if p.y < b.min.y then
        if b.max.y < p.y then
          if p.z < b.min.z then
            if b.max.z < p.z then
              if p.w < b.min.w then
                if b.max.w < p.w then
                  ⟨⟨p.x, p.y, p.z, p.w⟩, ⟨b.max.x, p.y, p.z, p.w⟩⟩
                else
                  ⟨⟨p.x, p.y, p.z, p.w⟩, ⟨b.max.x, p.y, p.z, b.max.w⟩⟩
              else
                if b.max.w < p.w then
                  ⟨⟨p.x, p.y, p.z, b.min.w⟩, ⟨b.max.x, p.y, p.z, p.w⟩⟩
                else
                  ⟨⟨p.x, p.y, p.z, b.min.w⟩, ⟨b.max.x, p.y, p.z, b.max.w⟩⟩
            else
              if p.w < b.min.w then
                if b.max.w < p.w then
                  ⟨⟨p.x, p.y, p.z, p.w⟩, ⟨b.max.x, p.y, b.max.z, p.w⟩⟩
                else
                  ⟨⟨p.x, p.y, p.z, p.w⟩, ⟨b.max.x, p.y, b.max.z, b.max.w⟩⟩
              else
                if b.max.w < p.w then
                  ⟨⟨p.x, p.y, p.z, b.min.w⟩, ⟨b.max.x, p.y, b.max.z, p.w⟩⟩
                else
                  ⟨⟨p.x, p.y, p.z, b.min.w⟩, ⟨b.max.x, p.y, b.max.z, b.max.w⟩⟩
          else
            if b.max.z < p.z then
              if p.w < b.min.w then
                if b.max.w < p.w then
                  ⟨⟨p.x, p.y, b.min.z, p.w⟩, ⟨b.max.x, p.y, p.z, p.w⟩⟩
                else
                  ⟨⟨p.x, p.y, b.min.z, p.w⟩, ⟨b.max.x, p.y, p.z, b.max.w⟩⟩
              else
                if b.max.w < p.w then
                  ⟨⟨p.x, p.y, b.min.z, b.min.w⟩, ⟨b.max.x, p.y, p.z, p.w⟩⟩
                else
                  ⟨⟨p.x, p.y, b.min.z, b.min.w⟩, ⟨b.max.x, p.y, p.z, b.max.w⟩⟩
            else
              if p.w < b.min.w then
                if b.max.w < p.w then
                  ⟨⟨p.x, p.y, b.min.z, p.w⟩, ⟨b.max.x, p.y, b.max.z, p.w⟩⟩
                else
                  ⟨⟨p.x, p.y, b.min.z, p.w⟩, ⟨b.max.x, p.y, b.max.z, b.max.w⟩⟩
              else
                if b.max.w < p.w then
                  ⟨⟨p.x, p.y, b.min.z, b.min.w⟩, ⟨b.max.x, p.y, b.max.z, p.w⟩⟩
                else
                  ⟨⟨p.x, p.y, b.min.z, b.min.w⟩, ⟨b.max.x, p.y, b.max.z, b.max.w⟩⟩
        else
          if p.z < b.min.z then
            if b.max.z < p.z then
              if p.w < b.min.w then
                if b.max.w < p.w then
                  ⟨⟨p.x, p.y, p.z, p.w⟩, ⟨b.max.x, b.max.y, p.z, p.w⟩⟩
                else
                  ⟨⟨p.x, p.y, p.z, p.w⟩, ⟨b.max.x, b.max.y, p.z, b.max.w⟩⟩
              else
                if b.max.w < p.w then
                  ⟨⟨p.x, p.y, p.z, b.min.w⟩, ⟨b.max.x, b.max.y, p.z, p.w⟩⟩
                else
                  ⟨⟨p.x, p.y, p.z, b.min.w⟩, ⟨b.max.x, b.max.y, p.z, b.max.w⟩⟩
            else
              if p.w < b.min.w then
                if b.max.w < p.w then
                  ⟨⟨p.x, p.y, p.z, p.w⟩, ⟨b.max.x, b.max.y, b.max.z, p.w⟩⟩
                else
                  ⟨⟨p.x, p.y, p.z, p.w⟩, ⟨b.max.x, b.max.y, b.max.z, b.max.w⟩⟩
              else
                if b.max.w < p.w then
                  ⟨⟨p.x, p.y, p.z, b.min.w⟩, ⟨b.max.x, b.max.y, b.max.z, p.w⟩⟩
                else
                  ⟨⟨p.x, p.y, p.z, b.min.w⟩, ⟨b.max.x, b.max.y, b.max.z, b.max.w⟩⟩
          else
            if b.max.z < p.z then
              if p.w < b.min.w then
                if b.max.w < p.w then
                  ⟨⟨p.x, p.y, b.min.z, p.w⟩, ⟨b.max.x, b.max.y, p.z, p.w⟩⟩
                else
                  ⟨⟨p.x, p.y, b.min.z, p.w⟩, ⟨b.max.x, b.max.y, p.z, b.max.w⟩⟩
              else
                if b.max.w < p.w then
                  ⟨⟨p.x, p.y, b.min.z, b.min.w⟩, ⟨b.max.x, b.max.y, p.z, p.w⟩⟩
                else
                  ⟨⟨p.x, p.y, b.min.z, b.min.w⟩, ⟨b.max.x, b.max.y, p.z, b.max.w⟩⟩
            else
              if p.w < b.min.w then
                if b.max.w < p.w then
                  ⟨⟨p.x, p.y, b.min.z, p.w⟩, ⟨b.max.x, b.max.y, b.max.z, p.w⟩⟩
                else
                  ⟨⟨p.x, p.y, b.min.z, p.w⟩, ⟨b.max.x, b.max.y, b.max.z, b.max.w⟩⟩
              else
                if b.max.w < p.w then
                  ⟨⟨p.x, p.y, b.min.z, b.min.w⟩, ⟨b.max.x, b.max.y, b.max.z, p.w⟩⟩
                else
                  ⟨⟨p.x, p.y, b.min.z, b.min.w⟩, ⟨b.max.x, b.max.y, b.max.z, b.max.w⟩⟩
      else
        if b.max.y < p.y then
          if p.z < b.min.z then
            if b.max.z < p.z then
              if p.w < b.min.w then
                if b.max.w < p.w then
                  ⟨⟨p.x, b.min.y, p.z, p.w⟩, ⟨b.max.x, p.y, p.z, p.w⟩⟩
                else
                  ⟨⟨p.x, b.min.y, p.z, p.w⟩, ⟨b.max.x, p.y, p.z, b.max.w⟩⟩
              else
                if b.max.w < p.w then
                  ⟨⟨p.x, b.min.y, p.z, b.min.w⟩, ⟨b.max.x, p.y, p.z, p.w⟩⟩
                else
                  ⟨⟨p.x, b.min.y, p.z, b.min.w⟩, ⟨b.max.x, p.y, p.z, b.max.w⟩⟩
            else
              if p.w < b.min.w then
                if b.max.w < p.w then
                  ⟨⟨p.x, b.min.y, p.z, p.w⟩, ⟨b.max.x, p.y, b.max.z, p.w⟩⟩
                else
                  ⟨⟨p.x, b.min.y, p.z, p.w⟩, ⟨b.max.x, p.y, b.max.z, b.max.w⟩⟩
              else
                if b.max.w < p.w then
                  ⟨⟨p.x, b.min.y, p.z, b.min.w⟩, ⟨b.max.x, p.y, b.max.z, p.w⟩⟩
                else
                  ⟨⟨p.x, b.min.y, p.z, b.min.w⟩, ⟨b.max.x, p.y, b.max.z, b.max.w⟩⟩
          else
            if b.max.z < p.z then
              if p.w < b.min.w then
                if b.max.w < p.w then
                  ⟨⟨p.x, b.min.y, b.min.z, p.w⟩, ⟨b.max.x, p.y, p.z, p.w⟩⟩
                else
                  ⟨⟨p.x, b.min.y, b.min.z, p.w⟩, ⟨b.max.x, p.y, p.z, b.max.w⟩⟩
              else
                if b.max.w < p.w then
                  ⟨⟨p.x, b.min.y, b.min.z, b.min.w⟩, ⟨b.max.x, p.y, p.z, p.w⟩⟩
                else
                  ⟨⟨p.x, b.min.y, b.min.z, b.min.w⟩, ⟨b.max.x, p.y, p.z, b.max.w⟩⟩
            else
              if p.w < b.min.w then
                if b.max.w < p.w then
                  ⟨⟨p.x, b.min.y, b.min.z, p.w⟩, ⟨b.max.x, p.y, b.max.z, p.w⟩⟩
                else
                  ⟨⟨p.x, b.min.y, b.min.z, p.w⟩, ⟨b.max.x, p.y, b.max.z, b.max.w⟩⟩
              else
                if b.max.w < p.w then
                  ⟨⟨p.x, b.min.y, b.min.z, b.min.w⟩, ⟨b.max.x, p.y, b.max.z, p.w⟩⟩
                else
                  ⟨⟨p.x, b.min.y, b.min.z, b.min.w⟩, ⟨b.max.x, p.y, b.max.z, b.max.w⟩⟩
        else
          if p.z < b.min.z then
            if b.max.z < p.z then
              if p.w < b.min.w then
                if b.max.w < p.w then
                  ⟨⟨p.x, b.min.y, p.z, p.w⟩, ⟨b.max.x, b.max.y, p.z, p.w⟩⟩
                else
                  ⟨⟨p.x, b.min.y, p.z, p.w⟩, ⟨b.max.x, b.max.y, p.z, b.max.w⟩⟩
              else
                if b.max.w < p.w then
                  ⟨⟨p.x, b.min.y, p.z, b.min.w⟩, ⟨b.max.x, b.max.y, p.z, p.w⟩⟩
                else
                  ⟨⟨p.x, b.min.y, p.z, b.min.w⟩, ⟨b.max.x, b.max.y, p.z, b.max.w⟩⟩
            else
              if p.w < b.min.w then
                if b.max.w < p.w then
                  ⟨⟨p.x, b.min.y, p.z, p.w⟩, ⟨b.max.x, b.max.y, b.max.z, p.w⟩⟩
                else
                  ⟨⟨p.x, b.min.y, p.z, p.w⟩, ⟨b.max.x, b.max.y, b.max.z, b.max.w⟩⟩
              else
                if b.max.w < p.w then
                  ⟨⟨p.x, b.min.y, p.z, b.min.w⟩, ⟨b.max.x, b.max.y, b.max.z, p.w⟩⟩
                else
                  ⟨⟨p.x, b.min.y, p.z, b.min.w⟩, ⟨b.max.x, b.max.y, b.max.z, b.max.w⟩⟩
          else
            if b.max.z < p.z then
              if p.w < b.min.w then
                if b.max.w < p.w then
                  ⟨⟨p.x, b.min.y, b.min.z, p.w⟩, ⟨b.max.x, b.max.y, p.z, p.w⟩⟩
                else
                  ⟨⟨p.x, b.min.y, b.min.z, p.w⟩, ⟨b.max.x, b.max.y, p.z, b.max.w⟩⟩
              else
                if b.max.w < p.w then
                  ⟨⟨p.x, b.min.y, b.min.z, b.min.w⟩, ⟨b.max.x, b.max.y, p.z, p.w⟩⟩
                else
                  ⟨⟨p.x, b.min.y, b.min.z, b.min.w⟩, ⟨b.max.x, b.max.y, p.z, b.max.w⟩⟩
            else
              if p.w < b.min.w then
                if b.max.w < p.w then
                  ⟨⟨p.x, b.min.y, b.min.z, p.w⟩, ⟨b.max.x, b.max.y, b.max.z, p.w⟩⟩
                else
                  ⟨⟨p.x, b.min.y, b.min.z, p.w⟩, ⟨b.max.x, b.max.y, b.max.z, b.max.w⟩⟩
              else
                if b.max.w < p.w then
                  ⟨⟨p.x, b.min.y, b.min.z, b.min.w⟩, ⟨b.max.x, b.max.y, b.max.z, p.w⟩⟩
                else
                  ⟨⟨p.x, b.min.y, b.min.z, b.min.w⟩, ⟨b.max.x, b.max.y, b.max.z, b.max.w⟩⟩
  else
    if b.max.x < p.x then
      if p.y < b.min.y then
        if b.max.y < p.y then
          if p.z < b.min.z then
            if b.max.z < p.z then
              if p.w < b.min.w then
                if b.max.w < p.w then
                  ⟨⟨b.min.x, p.y, p.z, p.w⟩, ⟨p.x, p.y, p.z, p.w⟩⟩
                else
                  ⟨⟨b.min.x, p.y, p.z, p.w⟩, ⟨p.x, p.y, p.z, b.max.w⟩⟩
              else
                if b.max.w < p.w then
                  ⟨⟨b.min.x, p.y, p.z, b.min.w⟩, ⟨p.x, p.y, p.z, p.w⟩⟩
                else
                  ⟨⟨b.min.x, p.y, p.z, b.min.w⟩, ⟨p.x, p.y, p.z, b.max.w⟩⟩
            else
              if p.w < b.min.w then
                if b.max.w < p.w then
                  ⟨⟨b.min.x, p.y, p.z, p.w⟩, ⟨p.x, p.y, b.max.z, p.w⟩⟩
                else
                  ⟨⟨b.min.x, p.y, p.z, p.w⟩, ⟨p.x, p.y, b.max.z, b.max.w⟩⟩
              else
                if b.max.w < p.w then
                  ⟨⟨b.min.x, p.y, p.z, b.min.w⟩, ⟨p.x, p.y, b.max.z, p.w⟩⟩
                else
                  ⟨⟨b.min.x, p.y, p.z, b.min.w⟩, ⟨p.x, p.y, b.max.z, b.max.w⟩⟩
          else
            if b.max.z < p.z then
              if p.w < b.min.w then
                if b.max.w < p.w then
                  ⟨⟨b.min.x, p.y, b.min.z, p.w⟩, ⟨p.x, p.y, p.z, p.w⟩⟩
                else
                  ⟨⟨b.min.x, p.y, b.min.z, p.w⟩, ⟨p.x, p.y, p.z, b.max.w⟩⟩
              else
                if b.max.w < p.w then
                  ⟨⟨b.min.x, p.y, b.min.z, b.min.w⟩, ⟨p.x, p.y, p.z, p.w⟩⟩
                else
                  ⟨⟨b.min.x, p.y, b.min.z, b.min.w⟩, ⟨p.x, p.y, p.z, b.max.w⟩⟩
            else
              if p.w < b.min.w then
                if b.max.w < p.w then
                  ⟨⟨b.min.x, p.y, b.min.z, p.w⟩, ⟨p.x, p.y, b.max.z, p.w⟩⟩
                else
                  ⟨⟨b.min.x, p.y, b.min.z, p.w⟩, ⟨p.x, p.y, b.max.z, b.max.w⟩⟩
              else
                if b.max.w < p.w then
                  ⟨⟨b.min.x, p.y, b.min.z, b.min.w⟩, ⟨p.x, p.y, b.max.z, p.w⟩⟩
                else
                  ⟨⟨b.min.x, p.y, b.min.z, b.min.w⟩, ⟨p.x, p.y, b.max.z, b.max.w⟩⟩
        else
          if p.z < b.min.z then
            if b.max.z < p.z then
              if p.w < b.min.w then
                if b.max.w < p.w then
                  ⟨⟨b.min.x, p.y, p.z, p.w⟩, ⟨p.x, b.max.y, p.z, p.w⟩⟩
                else
                  ⟨⟨b.min.x, p.y, p.z, p.w⟩, ⟨p.x, b.max.y, p.z, b.max.w⟩⟩
              else
                if b.max.w < p.w then
                  ⟨⟨b.min.x, p.y, p.z, b.min.w⟩, ⟨p.x, b.max.y, p.z, p.w⟩⟩
                else
                  ⟨⟨b.min.x, p.y, p.z, b.min.w⟩, ⟨p.x, b.max.y, p.z, b.max.w⟩⟩
            else
              if p.w < b.min.w then
                if b.max.w < p.w then
                  ⟨⟨b.min.x, p.y, p.z, p.w⟩, ⟨p.x, b.max.y, b.max.z, p.w⟩⟩
                else
                  ⟨⟨b.min.x, p.y, p.z, p.w⟩, ⟨p.x, b.max.y, b.max.z, b.max.w⟩⟩
              else
                if b.max.w < p.w then
                  ⟨⟨b.min.x, p.y, p.z, b.min.w⟩, ⟨p.x, b.max.y, b.max.z, p.w⟩⟩
                else
                  ⟨⟨b.min.x, p.y, p.z, b.min.w⟩, ⟨p.x, b.max.y, b.max.z, b.max.w⟩⟩
          else
            if b.max.z < p.z then
              if p.w < b.min.w then
                if b.max.w < p.w then
                  ⟨⟨b.min.x, p.y, b.min.z, p.w⟩, ⟨p.x, b.max.y, p.z, p.w⟩⟩
                else
                  ⟨⟨b.min.x, p.y, b.min.z, p.w⟩, ⟨p.x, b.max.y, p.z, b.max.w⟩⟩
              else
                if b.max.w < p.w then
                  ⟨⟨b.min.x, p.y, b.min.z, b.min.w⟩, ⟨p.x, b.max.y, p.z, p.w⟩⟩
                else
                  ⟨⟨b.min.x, p.y, b.min.z, b.min.w⟩, ⟨p.x, b.max.y, p.z, b.max.w⟩⟩
            else
              if p.w < b.min.w then
                if b.max.w < p.w then
                  ⟨⟨b.min.x, p.y, b.min.z, p.w⟩, ⟨p.x, b.max.y, b.max.z, p.w⟩⟩
                else
                  ⟨⟨b.min.x, p.y, b.min.z, p.w⟩, ⟨p.x, b.max.y, b.max.z, b.max.w⟩⟩
              else
                if b.max.w < p.w then
                  ⟨⟨b.min.x, p.y, b.min.z, b.min.w⟩, ⟨p.x, b.max.y, b.max.z, p.w⟩⟩
                else
                  ⟨⟨b.min.x, p.y, b.min.z, b.min.w⟩, ⟨p.x, b.max.y, b.max.z, b.max.w⟩⟩
      else
        if b.max.y < p.y then
          if p.z < b.min.z then
            if b.max.z < p.z then
              if p.w < b.min.w then
                if b.max.w < p.w then
                  ⟨⟨b.min.x, b.min.y, p.z, p.w⟩, ⟨p.x, p.y, p.z, p.w⟩⟩
                else
                  ⟨⟨b.min.x, b.min.y, p.z, p.w⟩, ⟨p.x, p.y, p.z, b.max.w⟩⟩
              else
                if b.max.w < p.w then
                  ⟨⟨b.min.x, b.min.y, p.z, b.min.w⟩, ⟨p.x, p.y, p.z, p.w⟩⟩
                else
                  ⟨⟨b.min.x, b.min.y, p.z, b.min.w⟩, ⟨p.x, p.y, p.z, b.max.w⟩⟩
            else
              if p.w < b.min.w then
                if b.max.w < p.w then
                  ⟨⟨b.min.x, b.min.y, p.z, p.w⟩, ⟨p.x, p.y, b.max.z, p.w⟩⟩
                else
                  ⟨⟨b.min.x, b.min.y, p.z, p.w⟩, ⟨p.x, p.y, b.max.z, b.max.w⟩⟩
              else
                if b.max.w < p.w then
                  ⟨⟨b.min.x, b.min.y, p.z, b.min.w⟩, ⟨p.x, p.y, b.max.z, p.w⟩⟩
                else
                  ⟨⟨b.min.x, b.min.y, p.z, b.min.w⟩, ⟨p.x, p.y, b.max.z, b.max.w⟩⟩
          else
            if b.max.z < p.z then
              if p.w < b.min.w then
                if b.max.w < p.w then
                  ⟨⟨b.min.x, b.min.y, b.min.z, p.w⟩, ⟨p.x, p.y, p.z, p.w⟩⟩
                else
                  ⟨⟨b.min.x, b.min.y, b.min.z, p.w⟩, ⟨p.x, p.y, p.z, b.max.w⟩⟩
              else
                if b.max.w < p.w then
                  ⟨⟨b.min.x, b.min.y, b.min.z, b.min.w⟩, ⟨p.x, p.y, p.z, p.w⟩⟩
                else
                  ⟨⟨b.min.x, b.min.y, b.min.z, b.min.w⟩, ⟨p.x, p.y, p.z, b.max.w⟩⟩
            else
              if p.w < b.min.w then
                if b.max.w < p.w then
                  ⟨⟨b.min.x, b.min.y, b.min.z, p.w⟩, ⟨p.x, p.y, b.max.z, p.w⟩⟩
                else
                  ⟨⟨b.min.x, b.min.y, b.min.z, p.w⟩, ⟨p.x, p.y, b.max.z, b.max.w⟩⟩
              else
                if b.max.w < p.w then
                  ⟨⟨b.min.x, b.min.y, b.min.z, b.min.w⟩, ⟨p.x, p.y, b.max.z, p.w⟩⟩
                else
                  ⟨⟨b.min.x, b.min.y, b.min.z, b.min.w⟩, ⟨p.x, p.y, b.max.z, b.max.w⟩⟩
        else
          if p.z < b.min.z then
            if b.max.z < p.z then
              if p.w < b.min.w then
                if b.max.w < p.w then
                  ⟨⟨b.min.x, b.min.y, p.z, p.w⟩, ⟨p.x, b.max.y, p.z, p.w⟩⟩
                else
                  ⟨⟨b.min.x, b.min.y, p.z, p.w⟩, ⟨p.x, b.max.y, p.z, b.max.w⟩⟩
              else
                if b.max.w < p.w then
                  ⟨⟨b.min.x, b.min.y, p.z, b.min.w⟩, ⟨p.x, b.max.y, p.z, p.w⟩⟩
                else
                  ⟨⟨b.min.x, b.min.y, p.z, b.min.w⟩, ⟨p.x, b.max.y, p.z, b.max.w⟩⟩
            else
              if p.w < b.min.w then
                if b.max.w < p.w then
                  ⟨⟨b.min.x, b.min.y, p.z, p.w⟩, ⟨p.x, b.max.y, b.max.z, p.w⟩⟩
                else
                  ⟨⟨b.min.x, b.min.y, p.z, p.w⟩, ⟨p.x, b.max.y, b.max.z, b.max.w⟩⟩
              else
                if b.max.w < p.w then
                  ⟨⟨b.min.x, b.min.y, p.z, b.min.w⟩, ⟨p.x, b.max.y, b.max.z, p.w⟩⟩
                else
                  ⟨⟨b.min.x, b.min.y, p.z, b.min.w⟩, ⟨p.x, b.max.y, b.max.z, b.max.w⟩⟩
          else
            if b.max.z < p.z then
              if p.w < b.min.w then
                if b.max.w < p.w then
                  ⟨⟨b.min.x, b.min.y, b.min.z, p.w⟩, ⟨p.x, b.max.y, p.z, p.w⟩⟩
                else
                  ⟨⟨b.min.x, b.min.y, b.min.z, p.w⟩, ⟨p.x, b.max.y, p.z, b.max.w⟩⟩
              else
                if b.max.w < p.w then
                  ⟨⟨b.min.x, b.min.y, b.min.z, b.min.w⟩, ⟨p.x, b.max.y, p.z, p.w⟩⟩
                else
                  ⟨⟨b.min.x, b.min.y, b.min.z, b.min.w⟩, ⟨p.x, b.max.y, p.z, b.max.w⟩⟩
            else
              if p.w < b.min.w then
                if b.max.w < p.w then
                  ⟨⟨b.min.x, b.min.y, b.min.z, p.w⟩, ⟨p.x, b.max.y, b.max.z, p.w⟩⟩
                else
                  ⟨⟨b.min.x, b.min.y, b.min.z, p.w⟩, ⟨p.x, b.max.y, b.max.z, b.max.w⟩⟩
              else
                if b.max.w < p.w then
                  ⟨⟨b.min.x, b.min.y, b.min.z, b.min.w⟩, ⟨p.x, b.max.y, b.max.z, p.w⟩⟩
                else
                  ⟨⟨b.min.x, b.min.y, b.min.z, b.min.w⟩, ⟨p.x, b.max.y, b.max.z, b.max.w⟩⟩
    else
      if p.y < b.min.y then
        if b.max.y < p.y then
          if p.z < b.min.z then
            if b.max.z < p.z then
              if p.w < b.min.w then
                if b.max.w < p.w then
                  ⟨⟨b.min.x, p.y, p.z, p.w⟩, ⟨b.max.x, p.y, p.z, p.w⟩⟩
                else
                  ⟨⟨b.min.x, p.y, p.z, p.w⟩, ⟨b.max.x, p.y, p.z, b.max.w⟩⟩
              else
                if b.max.w < p.w then
                  ⟨⟨b.min.x, p.y, p.z, b.min.w⟩, ⟨b.max.x, p.y, p.z, p.w⟩⟩
                else
                  ⟨⟨b.min.x, p.y, p.z, b.min.w⟩, ⟨b.max.x, p.y, p.z, b.max.w⟩⟩
            else
              if p.w < b.min.w then
                if b.max.w < p.w then
                  ⟨⟨b.min.x, p.y, p.z, p.w⟩, ⟨b.max.x, p.y, b.max.z, p.w⟩⟩
                else
                  ⟨⟨b.min.x, p.y, p.z, p.w⟩, ⟨b.max.x, p.y, b.max.z, b.max.w⟩⟩
              else
                if b.max.w < p.w then
                  ⟨⟨b.min.x, p.y, p.z, b.min.w⟩, ⟨b.max.x, p.y, b.max.z, p.w⟩⟩
                else
                  ⟨⟨b.min.x, p.y, p.z, b.min.w⟩, ⟨b.max.x, p.y, b.max.z, b.max.w⟩⟩
          else
            if b.max.z < p.z then
              if p.w < b.min.w then
                if b.max.w < p.w then
                  ⟨⟨b.min.x, p.y, b.min.z, p.w⟩, ⟨b.max.x, p.y, p.z, p.w⟩⟩
                else
                  ⟨⟨b.min.x, p.y, b.min.z, p.w⟩, ⟨b.max.x, p.y, p.z, b.max.w⟩⟩
              else
                if b.max.w < p.w then
                  ⟨⟨b.min.x, p.y, b.min.z, b.min.w⟩, ⟨b.max.x, p.y, p.z, p.w⟩⟩
                else
                  ⟨⟨b.min.x, p.y, b.min.z, b.min.w⟩, ⟨b.max.x, p.y, p.z, b.max.w⟩⟩
            else
              if p.w < b.min.w then
                if b.max.w < p.w then
                  ⟨⟨b.min.x, p.y, b.min.z, p.w⟩, ⟨b.max.x, p.y, b.max.z, p.w⟩⟩
                else
                  ⟨⟨b.min.x, p.y, b.min.z, p.w⟩, ⟨b.max.x, p.y, b.max.z, b.max.w⟩⟩
              else
                if b.max.w < p.w then
                  ⟨⟨b.min.x, p.y, b.min.z, b.min.w⟩, ⟨b.max.x, p.y, b.max.z, p.w⟩⟩
                else
                  ⟨⟨b.min.x, p.y, b.min.z, b.min.w⟩, ⟨b.max.x, p.y, b.max.z, b.max.w⟩⟩
        else
          if p.z < b.min.z then
            if b.max.z < p.z then
              if p.w < b.min.w then
                if b.max.w < p.w then
                  ⟨⟨b.min.x, p.y, p.z, p.w⟩, ⟨b.max.x, b.max.y, p.z, p.w⟩⟩
                else
                  ⟨⟨b.min.x, p.y, p.z, p.w⟩, ⟨b.max.x, b.max.y, p.z, b.max.w⟩⟩
              else
                if b.max.w < p.w then
                  ⟨⟨b.min.x, p.y, p.z, b.min.w⟩, ⟨b.max.x, b.max.y, p.z, p.w⟩⟩
                else
                  ⟨⟨b.min.x, p.y, p.z, b.min.w⟩, ⟨b.max.x, b.max.y, p.z, b.max.w⟩⟩
            else
              if p.w < b.min.w then
                if b.max.w < p.w then
                  ⟨⟨b.min.x, p.y, p.z, p.w⟩, ⟨b.max.x, b.max.y, b.max.z, p.w⟩⟩
                else
                  ⟨⟨b.min.x, p.y, p.z, p.w⟩, ⟨b.max.x, b.max.y, b.max.z, b.max.w⟩⟩
              else
                if b.max.w < p.w then
                  ⟨⟨b.min.x, p.y, p.z, b.min.w⟩, ⟨b.max.x, b.max.y, b.max.z, p.w⟩⟩
                else
                  ⟨⟨b.min.x, p.y, p.z, b.min.w⟩, ⟨b.max.x, b.max.y, b.max.z, b.max.w⟩⟩
          else
            if b.max.z < p.z then
              if p.w < b.min.w then
                if b.max.w < p.w then
                  ⟨⟨b.min.x, p.y, b.min.z, p.w⟩, ⟨b.max.x, b.max.y, p.z, p.w⟩⟩
                else
                  ⟨⟨b.min.x, p.y, b.min.z, p.w⟩, ⟨b.max.x, b.max.y, p.z, b.max.w⟩⟩
              else
                if b.max.w < p.w then
                  ⟨⟨b.min.x, p.y, b.min.z, b.min.w⟩, ⟨b.max.x, b.max.y, p.z, p.w⟩⟩
                else
                  ⟨⟨b.min.x, p.y, b.min.z, b.min.w⟩, ⟨b.max.x, b.max.y, p.z, b.max.w⟩⟩
            else
              if p.w < b.min.w then
                if b.max.w < p.w then
                  ⟨⟨b.min.x, p.y, b.min.z, p.w⟩, ⟨b.max.x, b.max.y, b.max.z, p.w⟩⟩
                else
                  ⟨⟨b.min.x, p.y, b.min.z, p.w⟩, ⟨b.max.x, b.max.y, b.max.z, b.max.w⟩⟩
              else
                if b.max.w < p.w then
                  ⟨⟨b.min.x, p.y, b.min.z, b.min.w⟩, ⟨b.max.x, b.max.y, b.max.z, p.w⟩⟩
                else
                  ⟨⟨b.min.x, p.y, b.min.z, b.min.w⟩, ⟨b.max.x, b.max.y, b.max.z, b.max.w⟩⟩
      else
        if b.max.y < p.y then
          if p.z < b.min.z then
            if b.max.z < p.z then
              if p.w < b.min.w then
                if b.max.w < p.w then
                  ⟨⟨b.min.x, b.min.y, p.z, p.w⟩, ⟨b.max.x, p.y, p.z, p.w⟩⟩
                else
                  ⟨⟨b.min.x, b.min.y, p.z, p.w⟩, ⟨b.max.x, p.y, p.z, b.max.w⟩⟩
              else
                if b.max.w < p.w then
                  ⟨⟨b.min.x, b.min.y, p.z, b.min.w⟩, ⟨b.max.x, p.y, p.z, p.w⟩⟩
                else
                  ⟨⟨b.min.x, b.min.y, p.z, b.min.w⟩, ⟨b.max.x, p.y, p.z, b.max.w⟩⟩
            else
              if p.w < b.min.w then
                if b.max.w < p.w then
                  ⟨⟨b.min.x, b.min.y, p.z, p.w⟩, ⟨b.max.x, p.y, b.max.z, p.w⟩⟩
                else
                  ⟨⟨b.min.x, b.min.y, p.z, p.w⟩, ⟨b.max.x, p.y, b.max.z, b.max.w⟩⟩
              else
                if b.max.w < p.w then
                  ⟨⟨b.min.x, b.min.y, p.z, b.min.w⟩, ⟨b.max.x, p.y, b.max.z, p.w⟩⟩
                else
                  ⟨⟨b.min.x, b.min.y, p.z, b.min.w⟩, ⟨b.max.x, p.y, b.max.z, b.max.w⟩⟩
          else
            if b.max.z < p.z then
              if p.w < b.min.w then
                if b.max.w < p.w then
                  ⟨⟨b.min.x, b.min.y, b.min.z, p.w⟩, ⟨b.max.x, p.y, p.z, p.w⟩⟩
                else
                  ⟨⟨b.min.x, b.min.y, b.min.z, p.w⟩, ⟨b.max.x, p.y, p.z, b.max.w⟩⟩
              else
                if b.max.w < p.w then
                  ⟨⟨b.min.x, b.min.y, b.min.z, b.min.w⟩, ⟨b.max.x, p.y, p.z, p.w⟩⟩
                else
                  ⟨⟨b.min.x, b.min.y, b.min.z, b.min.w⟩, ⟨b.max.x, p.y, p.z, b.max.w⟩⟩
            else
              if p.w < b.min.w then
                if b.max.w < p.w then
                  ⟨⟨b.min.x, b.min.y, b.min.z, p.w⟩, ⟨b.max.x, p.y, b.max.z, p.w⟩⟩
                else
                  ⟨⟨b.min.x, b.min.y, b.min.z, p.w⟩, ⟨b.max.x, p.y, b.max.z, b.max.w⟩⟩
              else
                if b.max.w < p.w then
                  ⟨⟨b.min.x, b.min.y, b.min.z, b.min.w⟩, ⟨b.max.x, p.y, b.max.z, p.w⟩⟩
                else
                  ⟨⟨b.min.x, b.min.y, b.min.z, b.min.w⟩, ⟨b.max.x, p.y, b.max.z, b.max.w⟩⟩
        else
          if p.z < b.min.z then
            if b.max.z < p.z then
              if p.w < b.min.w then
                if b.max.w < p.w then
                  ⟨⟨b.min.x, b.min.y, p.z, p.w⟩, ⟨b.max.x, b.max.y, p.z, p.w⟩⟩
                else
                  ⟨⟨b.min.x, b.min.y, p.z, p.w⟩, ⟨b.max.x, b.max.y, p.z, b.max.w⟩⟩
              else
                if b.max.w < p.w then
                  ⟨⟨b.min.x, b.min.y, p.z, b.min.w⟩, ⟨b.max.x, b.max.y, p.z, p.w⟩⟩
                else
                  ⟨⟨b.min.x, b.min.y, p.z, b.min.w⟩, ⟨b.max.x, b.max.y, p.z, b.max.w⟩⟩
            else
              if p.w < b.min.w then
                if b.max.w < p.w then
                  ⟨⟨b.min.x, b.min.y, p.z, p.w⟩, ⟨b.max.x, b.max.y, b.max.z, p.w⟩⟩
                else
                  ⟨⟨b.min.x, b.min.y, p.z, p.w⟩, ⟨b.max.x, b.max.y, b.max.z, b.max.w⟩⟩
              else
                if b.max.w < p.w then
                  ⟨⟨b.min.x, b.min.y, p.z, b.min.w⟩, ⟨b.max.x, b.max.y, b.max.z, p.w⟩⟩
                else
                  ⟨⟨b.min.x, b.min.y, p.z, b.min.w⟩, ⟨b.max.x, b.max.y, b.max.z, b.max.w⟩⟩
          else
            if b.max.z < p.z then
              if p.w < b.min.w then
                if b.max.w < p.w then
                  ⟨⟨b.min.x, b.min.y, b.min.z, p.w⟩, ⟨b.max.x, b.max.y, p.z, p.w⟩⟩
                else
                  ⟨⟨b.min.x, b.min.y, b.min.z, p.w⟩, ⟨b.max.x, b.max.y, p.z, b.max.w⟩⟩
              else
                if b.max.w < p.w then
                  ⟨⟨b.min.x, b.min.y, b.min.z, b.min.w⟩, ⟨b.max.x, b.max.y, p.z, p.w⟩⟩
                else
                  ⟨⟨b.min.x, b.min.y, b.min.z, b.min.w⟩, ⟨b.max.x, b.max.y, p.z, b.max.w⟩⟩
            else
              if p.w < b.min.w then
                if b.max.w < p.w then
                  ⟨⟨b.min.x, b.min.y, b.min.z, p.w⟩, ⟨b.max.x, b.max.y, b.max.z, p.w⟩⟩
                else
                  ⟨⟨b.min.x, b.min.y, b.min.z, p.w⟩, ⟨b.max.x, b.max.y, b.max.z, b.max.w⟩⟩
              else
                if b.max.w < p.w then
                  ⟨⟨b.min.x, b.min.y, b.min.z, b.min.w⟩, ⟨b.max.x, b.max.y, b.max.z, p.w⟩⟩
                else
                  ⟨⟨b.min.x, b.min.y, b.min.z, b.min.w⟩, ⟨b.max.x, b.max.y, b.max.z, b.max.w⟩⟩

/-- extracted from the C++ template at T = Sym; 256 path(s) -/
def Box4.extendByBox {α : Type} [LT α] [DecidableLT α] (b : Box4 α) (o : Box4 α) : (Box4 α) :=
  if o.min.x < b.min.x then
    if b.max.x < o.max.x then
      if o.min.y < b.min.y then
        if b.max.y < o.max.y then
          if o.min.z < b.min.z then
            if b.max.z < o.max.z then
              if o.min.w < b.min.w then
                if b.max.w < o.max.w then
                  ⟨⟨o.min.x, o.min.y, o.min.z, o.min.w⟩, ⟨o.max.x, o.max.y, o.max.z, o.max.w⟩⟩
                else
                  ⟨⟨o.min.x, o.min.y, o.min.z, o.min.w⟩, ⟨o.max.x, o.max.y, o.max.z, b.max.w⟩⟩
              else
                if b.max.w < o.max.w then
                  ⟨⟨o.min.x, o.min.y, o.min.z, b.min.w⟩, ⟨o.max.x, o.max.y, o.max.z, o.max.w⟩⟩
                else
                  ⟨⟨o.min.x, o.min.y, o.min.z, b.min.w⟩, ⟨o.max.x, o.max.y, o.max.z, b.max.w⟩⟩
            else
              if o.min.w < b.min.w then
                if b.max.w < o.max.w then
                  ⟨⟨o.min.x, o.min.y, o.min.z, o.min.w⟩, ⟨o.max.x, o.max.y, b.max.z, o.max.w⟩⟩
                else
                  ⟨⟨o.min.x, o.min.y, o.min.z, o.min.w⟩, ⟨o.max.x, o.max.y, b.max.z, b.max.w⟩⟩
              else
                if b.max.w < o.max.w then
                  ⟨⟨o.min.x, o.min.y, o.min.z, b.min.w⟩, ⟨o.max.x, o.max.y, b.max.z, o.max.w⟩⟩
                else
                  ⟨⟨o.min.x, o.min.y, o.min.z, b.min.w⟩, ⟨o.max.x, o.max.y, b.max.z, b.max.w⟩⟩
          else
            if b.max.z < o.max.z then
              if o.min.w < b.min.w then
                if b.max.w < o.max.w then
                  ⟨⟨o.min.x, o.min.y, b.min.z, o.min.w⟩, ⟨o.max.x, o.max.y, o.max.z, o.max.w⟩⟩
                else
                  ⟨⟨o.min.x, o.min.y, b.min.z, o.min.w⟩, ⟨o.max.x, o.max.y, o.max.z, b.max.w⟩⟩
              else
                if b.max.w < o.max.w then
                  ⟨⟨o.min.x, o.min.y, b.min.z, b.min.w⟩, ⟨o.max.x, o.max.y, o.max.z, o.max.w⟩⟩
                else
                  ⟨⟨o.min.x, o.min.y, b.min.z, b.min.w⟩, ⟨o.max.x, o.max.y, o.max.z, b.max.w⟩⟩
            else
              if o.min.w < b.min.w then
                if b.max.w < o.max.w then
                  ⟨⟨o.min.x, o.min.y, b.min.z, o.min.w⟩, ⟨o.max.x, o.max.y, b.max.z, o.max.w⟩⟩
                else
                  ⟨⟨o.min.x, o.min.y, b.min.z, o.min.w⟩, ⟨o.max.x, o.max.y, b.max.z, b.max.w⟩⟩
              else
                if b.max.w < o.max.w then
                  ⟨⟨o.min.x, o.min.y, b.min.z, b.min.w⟩, ⟨o.max.x, o.max.y, b.max.z, o.max.w⟩⟩
                else
                  ⟨⟨o.min.x, o.min.y, b.min.z, b.min.w⟩, ⟨o.max.x, o.max.y, b.max.z, b.max.w⟩⟩
        else
          if o.min.z < b.min.z then
            if b.max.z < o.max.z then
              if o.min.w < b.min.w then
                if b.max.w < o.max.w then
                  ⟨⟨o.min.x, o.min.y, o.min.z, o.min.w⟩, ⟨o.max.x, b.max.y, o.max.z, o.max.w⟩⟩
                else
                  ⟨⟨o.min.x, o.min.y, o.min.z, o.min.w⟩, ⟨o.max.x, b.max.y, o.max.z, b.max.w⟩⟩
              else
                if b.max.w < o.max.w then
                  ⟨⟨o.min.x, o.min.y, o.min.z, b.min.w⟩, ⟨o.max.x, b.max.y, o.max.z, o.max.w⟩⟩
                else
                  ⟨⟨o.min.x, o.min.y, o.min.z, b.min.w⟩, ⟨o.max.x, b.max.y, o.max.z, b.max.w⟩⟩
            else
              if o.min.w < b.min.w then
                if b.max.w < o.max.w then
                  ⟨⟨o.min.x, o.min.y, o.min.z, o.min.w⟩, ⟨o.max.x, b.max.y, b.max.z, o.max.w⟩⟩
                else
                  ⟨⟨o.min.x, o.min.y, o.min.z, o.min.w⟩, ⟨o.max.x, b.max.y, b.max.z, b.max.w⟩⟩
              else
                if b.max.w < o.max.w then
                  ⟨⟨o.min.x, o.min.y, o.min.z, b.min.w⟩, ⟨o.max.x, b.max.y, b.max.z, o.max.w⟩⟩
                else
                  ⟨⟨o.min.x, o.min.y, o.min.z, b.min.w⟩, ⟨o.max.x, b.max.y, b.max.z, b.max.w⟩⟩
          else
            if b.max.z < o.max.z then
              if o.min.w < b.min.w then
                if b.max.w < o.max.w then
                  ⟨⟨o.min.x, o.min.y, b.min.z, o.min.w⟩, ⟨o.max.x, b.max.y, o.max.z, o.max.w⟩⟩
                else
                  ⟨⟨o.min.x, o.min.y, b.min.z, o.min.w⟩, ⟨o.max.x, b.max.y, o.max.z, b.max.w⟩⟩
              else
                if b.max.w < o.max.w then
                  ⟨⟨o.min.x, o.min.y, b.min.z, b.min.w⟩, ⟨o.max.x, b.max.y, o.max.z, o.max.w⟩⟩
                else
                  ⟨⟨o.min.x, o.min.y, b.min.z, b.min.w⟩, ⟨o.max.x, b.max.y, o.max.z, b.max.w⟩⟩
            else
              if o.min.w < b.min.w then
                if b.max.w < o.max.w then
                  ⟨⟨o.min.x, o.min.y, b.min.z, o.min.w⟩, ⟨o.max.x, b.max.y, b.max.z, o.max.w⟩⟩
                else
                  ⟨⟨o.min.x, o.min.y, b.min.z, o.min.w⟩, ⟨o.max.x, b.max.y, b.max.z, b.max.w⟩⟩
              else
                if b.max.w < o.max.w then
                  ⟨⟨o.min.x, o.min.y, b.min.z, b.min.w⟩, ⟨o.max.x, b.max.y, b.max.z, o.max.w⟩⟩
                else
                  ⟨⟨o.min.x, o.min.y, b.min.z, b.min.w⟩, ⟨o.max.x, b.max.y, b.max.z, b.max.w⟩⟩
      else
        if b.max.y < o.max.y then
          if o.min.z < b.min.z then
            if b.max.z < o.max.z then
              if o.min.w < b.min.w then
                if b.max.w < o.max.w then
                  ⟨⟨o.min.x, b.min.y, o.min.z, o.min.w⟩, ⟨o.max.x, o.max.y, o.max.z, o.max.w⟩⟩
                else
                  ⟨⟨o.min.x, b.min.y, o.min.z, o.min.w⟩, ⟨o.max.x, o.max.y, o.max.z, b.max.w⟩⟩
              else
                if b.max.w < o.max.w then
                  ⟨⟨o.min.x, b.min.y, o.min.z, b.min.w⟩, ⟨o.max.x, o.max.y, o.max.z, o.max.w⟩⟩
                else
                  ⟨⟨o.min.x, b.min.y, o.min.z, b.min.w⟩, ⟨o.max.x, o.max.y, o.max.z, b.max.w⟩⟩
            else
              if o.min.w < b.min.w then
                if b.max.w < o.max.w then
                  ⟨⟨o.min.x, b.min.y, o.min.z, o.min.w⟩, ⟨o.max.x, o.max.y, b.max.z, o.max.w⟩⟩
                else
                  ⟨⟨o.min.x, b.min.y, o.min.z, o.min.w⟩, ⟨o.max.x, o.max.y, b.max.z, b.max.w⟩⟩
              else
                if b.max.w < o.max.w then
                  ⟨⟨o.min.x, b.min.y, o.min.z, b.min.w⟩, ⟨o.max.x, o.max.y, b.max.z, o.max.w⟩⟩
                else
                  ⟨⟨o.min.x, b.min.y, o.min.z, b.min.w⟩, ⟨o.max.x, o.max.y, b.max.z, b.max.w⟩⟩
          else
            if b.max.z < o.max.z then
              if o.min.w < b.min.w then
                if b.max.w < o.max.w then
                  ⟨⟨o.min.x, b.min.y, b.min.z, o.min.w⟩, ⟨o.max.x, o.max.y, o.max.z, o.max.w⟩⟩
                else
                  ⟨⟨o.min.x, b.min.y, b.min.z, o.min.w⟩, ⟨o.max.x, o.max.y, o.max.z, b.max.w⟩⟩
              else
                if b.max.w < o.max.w then
                  ⟨⟨o.min.x, b.min.y, b.min.z, b.min.w⟩, ⟨o.max.x, o.max.y, o.max.z, o.max.w⟩⟩
                else
                  ⟨⟨o.min.x, b.min.y, b.min.z, b.min.w⟩, ⟨o.max.x, o.max.y, o.max.z, b.max.w⟩⟩
            else
              if o.min.w < b.min.w then
                if b.max.w < o.max.w then
                  ⟨⟨o.min.x, b.min.y, b.min.z, o.min.w⟩, ⟨o.max.x, o.max.y, b.max.z, o.max.w⟩⟩
                else
                  ⟨⟨o.min.x, b.min.y, b.min.z, o.min.w⟩, ⟨o.max.x, o.max.y, b.max.z, b.max.w⟩⟩
              else
                if b.max.w < o.max.w then
                  ⟨⟨o.min.x, b.min.y, b.min.z, b.min.w⟩, ⟨o.max.x, o.max.y, b.max.z, o.max.w⟩⟩
                else
                  ⟨⟨o.min.x, b.min.y, b.min.z, b.min.w⟩, ⟨o.max.x, o.max.y, b.max.z, b.max.w⟩⟩
        else
          if o.min.z < b.min.z then
            if b.max.z < o.max.z then
              if o.min.w < b.min.w then
                if b.max.w < o.max.w then
                  ⟨⟨o.min.x, b.min.y, o.min.z, o.min.w⟩, ⟨o.max.x, b.max.y, o.max.z, o.max.w⟩⟩
                else
                  ⟨⟨o.min.x, b.min.y, o.min.z, o.min.w⟩, ⟨o.max.x, b.max.y, o.max.z, b.max.w⟩⟩
              else
                if b.max.w < o.max.w then
                  ⟨⟨o.min.x, b.min.y, o.min.z, b.min.w⟩, ⟨o.max.x, b.max.y, o.max.z, o.max.w⟩⟩
                else
                  ⟨⟨o.min.x, b.min.y, o.min.z, b.min.w⟩, ⟨o.max.x, b.max.y, o.max.z, b.max.w⟩⟩
            else
              if o.min.w < b.min.w then
                if b.max.w < o.max.w then
                  ⟨⟨o.min.x, b.min.y, o.min.z, o.min.w⟩, ⟨o.max.x, b.max.y, b.max.z, o.max.w⟩⟩
                else
                  ⟨⟨o.min.x, b.min.y, o.min.z, o.min.w⟩, ⟨o.max.x, b.max.y, b.max.z, b.max.w⟩⟩
              else
                if b.max.w < o.max.w then
                  ⟨⟨o.min.x, b.min.y, o.min.z, b.min.w⟩, ⟨o.max.x, b.max.y, b.max.z, o.max.w⟩⟩
                else
                  ⟨⟨o.min.x, b.min.y, o.min.z, b.min.w⟩, ⟨o.max.x, b.max.y, b.max.z, b.max.w⟩⟩
          else
            if b.max.z < o.max.z then
              if o.min.w < b.min.w then
                if b.max.w < o.max.w then
                  ⟨⟨o.min.x, b.min.y, b.min.z, o.min.w⟩, ⟨o.max.x, b.max.y, o.max.z, o.max.w⟩⟩
                else
                  ⟨⟨o.min.x, b.min.y, b.min.z, o.min.w⟩, ⟨o.max.x, b.max.y, o.max.z, b.max.w⟩⟩
              else
                if b.max.w < o.max.w then
                  ⟨⟨o.min.x, b.min.y, b.min.z, b.min.w⟩, ⟨o.max.x, b.max.y, o.max.z, o.max.w⟩⟩
                else
                  ⟨⟨o.min.x, b.min.y, b.min.z, b.min.w⟩, ⟨o.max.x, b.max.y, o.max.z, b.max.w⟩⟩
            else
              if o.min.w < b.min.w then
                if b.max.w < o.max.w then
                  ⟨⟨o.min.x, b.min.y, b.min.z, o.min.w⟩, ⟨o.max.x, b.max.y, b.max.z, o.max.w⟩⟩
                else
                  ⟨⟨o.min.x, b.min.y, b.min.z, o.min.w⟩, ⟨o.max.x, b.max.y, b.max.z, b.max.w⟩⟩
              else
                if b.max.w < o.max.w then
                  ⟨⟨o.min.x, b.min.y, b.min.z, b.min.w⟩, ⟨o.max.x, b.max.y, b.max.z, o.max.w⟩⟩
                else
                  ⟨⟨o.min.x, b.min.y, b.min.z, b.min.w⟩, ⟨o.max.x, b.max.y, b.max.z, b.max.w⟩⟩
    else
      if o.min.y < b.min.y then
        if b.max.y < o.max.y then
          if o.min.z < b.min.z then
            if b.max.z < o.max.z then
              if o.min.w < b.min.w then
                if b.max.w < o.max.w then
                  ⟨⟨o.min.x, o.min.y, o.min.z, o.min.w⟩, ⟨b.max.x, o.max.y, o.max.z, o.max.w⟩⟩
                else
                  ⟨⟨o.min.x, o.min.y, o.min.z, o.min.w⟩, ⟨b.max.x, o.max.y, o.max.z, b.max.w⟩⟩
              else
                if b.max.w < o.max.w then
                  ⟨⟨o.min.x, o.min.y, o.min.z, b.min.w⟩, ⟨b.max.x, o.max.y, o.max.z, o.max.w⟩⟩
                else
                  ⟨⟨o.min.x, o.min.y, o.min.z, b.min.w⟩, ⟨b.max.x, o.max.y, o.max.z, b.max.w⟩⟩
            else
              if o.min.w < b.min.w then
                if b.max.w < o.max.w then
                  ⟨⟨o.min.x, o.min.y, o.min.z, o.min.w⟩, ⟨b.max.x, o.max.y, b.max.z, o.max.w⟩⟩
                else
                  ⟨⟨o.min.x, o.min.y, o.min.z, o.min.w⟩, ⟨b.max.x, o.max.y, b.max.z, b.max.w⟩⟩
              else
                if b.max.w < o.max.w then
                  ⟨⟨o.min.x, o.min.y, o.min.z, b.min.w⟩, ⟨b.max.x, o.max.y, b.max.z, o.max.w⟩⟩
                else
                  ⟨⟨o.min.x, o.min.y, o.min.z, b.min.w⟩, ⟨b.max.x, o.max.y, b.max.z, b.max.w⟩⟩
          else
            if b.max.z < o.max.z then
              if o.min.w < b.min.w then
                if b.max.w < o.max.w then
                  ⟨⟨o.min.x, o.min.y, b.min.z, o.min.w⟩, ⟨b.max.x, o.max.y, o.max.z, o.max.w⟩⟩
                else
                  ⟨⟨o.min.x, o.min.y, b.min.z, o.min.w⟩, ⟨b.max.x, o.max.y, o.max.z, b.max.w⟩⟩
              else
                if b.max.w < o.max.w then
                  ⟨⟨o.min.x, o.min.y, b.min.z, b.min.w⟩, ⟨b.max.x, o.max.y, o.max.z, o.max.w⟩⟩
                else
                  ⟨⟨o.min.x, o.min.y, b.min.z, b.min.w⟩, ⟨b.max.x, o.max.y, o.max.z, b.max.w⟩⟩
            else
              if o.min.w < b.min.w then
                if b.max.w < o.max.w then
                  ⟨⟨o.min.x, o.min.y, b.min.z, o.min.w⟩, ⟨b.max.x, o.max.y, b.max.z, o.max.w⟩⟩
                else
                  ⟨⟨o.min.x, o.min.y, b.min.z, o.min.w⟩, ⟨b.max.x, o.max.y, b.max.z, b.max.w⟩⟩
              else
                if b.max.w < o.max.w then
                  ⟨⟨o.min.x, o.min.y, b.min.z, b.min.w⟩, ⟨b.max.x, o.max.y, b.max.z, o.max.w⟩⟩
                else
                  ⟨⟨o.min.x, o.min.y, b.min.z, b.min.w⟩, ⟨b.max.x, o.max.y, b.max.z, b.max.w⟩⟩
        else
          if o.min.z < b.min.z then
            if b.max.z < o.max.z then
              if o.min.w < b.min.w then
                if b.max.w < o.max.w then
                  ⟨⟨o.min.x, o.min.y, o.min.z, o.min.w⟩, ⟨b.max.x, b.max.y, o.max.z, o.max.w⟩⟩
                else
                  ⟨⟨o.min.x, o.min.y, o.min.z, o.min.w⟩, ⟨b.max.x, b.max.y, o.max.z, b.max.w⟩⟩
              else
                if b.max.w < o.max.w then
                  ⟨⟨o.min.x, o.min.y, o.min.z, b.min.w⟩, ⟨b.max.x, b.max.y, o.max.z, o.max.w⟩⟩
                else
                  ⟨⟨o.min.x, o.min.y, o.min.z, b.min.w⟩, ⟨b.max.x, b.max.y, o.max.z, b.max.w⟩⟩
            else
              if o.min.w < b.min.w then
                if b.max.w < o.max.w then
                  ⟨⟨o.min.x, o.min.y, o.min.z, o.min.w⟩, ⟨b.max.x, b.max.y, b.max.z, o.max.w⟩⟩
                else
                  ⟨⟨o.min.x, o.min.y, o.min.z, o.min.w⟩, ⟨b.max.x, b.max.y, b.max.z, b.max.w⟩⟩
              else
                if b.max.w < o.max.w then
                  ⟨⟨o.min.x, o.min.y, o.min.z, b.min.w⟩, ⟨b.max.x, b.max.y, b.max.z, o.max.w⟩⟩
                else
                  ⟨⟨o.min.x, o.min.y, o.min.z, b.min.w⟩, ⟨b.max.x, b.max.y, b.max.z, b.max.w⟩⟩
          else
            if b.max.z < o.max.z then
              if o.min.w < b.min.w then
                if b.max.w < o.max.w then
                  ⟨⟨o.min.x, o.min.y, b.min.z, o.min.w⟩, ⟨b.max.x, b.max.y, o.max.z, o.max.w⟩⟩
                else
                  ⟨⟨o.min.x, o.min.y, b.min.z, o.min.w⟩, ⟨b.max.x, b.max.y, o.max.z, b.max.w⟩⟩
              else
                if b.max.w < o.max.w then
                  ⟨⟨o.min.x, o.min.y, b.min.z, b.min.w⟩, ⟨b.max.x, b.max.y, o.max.z, o.max.w⟩⟩
                else
                  ⟨⟨o.min.x, o.min.y, b.min.z, b.min.w⟩, ⟨b.max.x, b.max.y, o.max.z, b.max.w⟩⟩
            else
              if o.min.w < b.min.w then
                if b.max.w < o.max.w then
                  ⟨⟨o.min.x, o.min.y, b.min.z, o.min.w⟩, ⟨b.max.x, b.max.y, b.max.z, o.max.w⟩⟩
                else
                  ⟨⟨o.min.x, o.min.y, b.min.z, o.min.w⟩, ⟨b.max.x, b.max.y, b.max.z, b.max.w⟩⟩
              else
                if b.max.w < o.max.w then
                  ⟨⟨o.min.x, o.min.y, b.min.z, b.min.w⟩, ⟨b.max.x, b.max.y, b.max.z, o.max.w⟩⟩
                else
                  ⟨⟨o.min.x, o.min.y, b.min.z, b.min.w⟩, ⟨b.max.x, b.max.y, b.max.z, b.max.w⟩⟩
      else
        if b.max.y < o.max.y then
          if o.min.z < b.min.z then
            if b.max.z < o.max.z then
              if o.min.w < b.min.w then
                if b.max.w < o.max.w then
                  ⟨⟨o.min.x, b.min.y, o.min.z, o.min.w⟩, ⟨b.max.x, o.max.y, o.max.z, o.max.w⟩⟩
                else
                  ⟨⟨o.min.x, b.min.y, o.min.z, o.min.w⟩, ⟨b.max.x, o.max.y, o.max.z, b.max.w⟩⟩
              else
                if b.max.w < o.max.w then
                  ⟨⟨o.min.x, b.min.y, o.min.z, b.min.w⟩, ⟨b.max.x, o.max.y, o.max.z, o.max.w⟩⟩
                else
                  ⟨⟨o.min.x, b.min.y, o.min.z, b.min.w⟩, ⟨b.max.x, o.max.y, o.max.z, b.max.w⟩⟩
            else
              if o.min.w < b.min.w then
                if b.max.w < o.max.w then
                  ⟨⟨o.min.x, b.min.y, o.min.z, o.min.w⟩, ⟨b.max.x, o.max.y, b.max.z, o.max.w⟩⟩
                else
                  ⟨⟨o.min.x, b.min.y, o.min.z, o.min.w⟩, ⟨b.max.x, o.max.y, b.max.z, b.max.w⟩⟩
              else
                if b.max.w < o.max.w then
                  ⟨⟨o.min.x, b.min.y, o.min.z, b.min.w⟩, ⟨b.max.x, o.max.y, b.max.z, o.max.w⟩⟩
                else
                  ⟨⟨o.min.x, b.min.y, o.min.z, b.min.w⟩, ⟨b.max.x, o.max.y, b.max.z, b.max.w⟩⟩
          else
            if b.max.z < o.max.z then
              if o.min.w < b.min.w then
                if b.max.w < o.max.w then
                  ⟨⟨o.min.x, b.min.y, b.min.z, o.min.w⟩, ⟨b.max.x, o.max.y, o.max.z, o.max.w⟩⟩
                else
                  ⟨⟨o.min.x, b.min.y, b.min.z, o.min.w⟩, ⟨b.max.x, o.max.y, o.max.z, b.max.w⟩⟩
              else
                if b.max.w < o.max.w then
                  ⟨⟨o.min.x, b.min.y, b.min.z, b.min.w⟩, ⟨b.max.x, o.max.y, o.max.z, o.max.w⟩⟩
                else
                  ⟨⟨o.min.x, b.min.y, b.min.z, b.min.w⟩, ⟨b.max.x, o.max.y, o.max.z, b.max.w⟩⟩
            else
              if o.min.w < b.min.w then
                if b.max.w < o.max.w then
                  ⟨⟨o.min.x, b.min.y, b.min.z, o.min.w⟩, ⟨b.max.x, o.max.y, b.max.z, o.max.w⟩⟩
                else
                  ⟨⟨o.min.x, b.min.y, b.min.z, o.min.w⟩, ⟨b.max.x, o.max.y, b.max.z, b.max.w⟩⟩
              else
                if b.max.w < o.max.w then
                  ⟨⟨o.min.x, b.min.y, b.min.z, b.min.w⟩, ⟨b.max.x, o.max.y, b.max.z, o.max.w⟩⟩
                else
                  ⟨⟨o.min.x, b.min.y, b.min.z, b.min.w⟩, ⟨b.max.x, o.max.y, b.max.z, b.max.w⟩⟩
        else
          if o.min.z < b.min.z then
            if b.max.z < o.max.z then
              if o.min.w < b.min.w then
                if b.max.w < o.max.w then
                  ⟨⟨o.min.x, b.min.y, o.min.z, o.min.w⟩, ⟨b.max.x, b.max.y, o.max.z, o.max.w⟩⟩
                else
                  ⟨⟨o.min.x, b.min.y, o.min.z, o.min.w⟩, ⟨b.max.x, b.max.y, o.max.z, b.max.w⟩⟩
              else
                if b.max.w < o.max.w then
                  ⟨⟨o.min.x, b.min.y, o.min.z, b.min.w⟩, ⟨b.max.x, b.max.y, o.max.z, o.max.w⟩⟩
                else
                  ⟨⟨o.min.x, b.min.y, o.min.z, b.min.w⟩, ⟨b.max.x, b.max.y, o.max.z, b.max.w⟩⟩
            else
              if o.min.w < b.min.w then
                if b.max.w < o.max.w then
                  ⟨⟨o.min.x, b.min.y, o.min.z, o.min.w⟩, ⟨b.max.x, b.max.y, b.max.z, o.max.w⟩⟩
                else
                  ⟨⟨o.min.x, b.min.y, o.min.z, o.min.w⟩, ⟨b.max.x, b.max.y, b.max.z, b.max.w⟩⟩
              else
                if b.max.w < o.max.w then
                  ⟨⟨o.min.x, b.min.y, o.min.z, b.min.w⟩, ⟨b.max.x, b.max.y, b.max.z, o.max.w⟩⟩
                else
                  ⟨⟨o.min.x, b.min.y, o.min.z, b.min.w⟩, ⟨b.max.x, b.max.y, b.max.z, b.max.w⟩⟩
          else
            if b.max.z < o.max.z then
              if o.min.w < b.min.w then
                if b.max.w < o.max.w then
                  ⟨⟨o.min.x, b.min.y, b.min.z, o.min.w⟩, ⟨b.max.x, b.max.y, o.max.z, o.max.w⟩⟩
                else
                  ⟨⟨o.min.x, b.min.y, b.min.z, o.min.w⟩, ⟨b.max.x, b.max.y, o.max.z, b.max.w⟩⟩
              else
                if b.max.w < o.max.w then
                  ⟨⟨o.min.x, b.min.y, b.min.z, b.min.w⟩, ⟨b.max.x, b.max.y, o.max.z, o.max.w⟩⟩
                else
                  ⟨⟨o.min.x, b.min.y, b.min.z, b.min.w⟩, ⟨b.max.x, b.max.y, o.max.z, b.max.w⟩⟩
            else
              if o.min.w < b.min.w then
                if b.max.w < o.max.w then
                  ⟨⟨o.min.x, b.min.y, b.min.z, o.min.w⟩, ⟨b.max.x, b.max.y, b.max.z, o.max.w⟩⟩
                else
                  ⟨⟨o.min.x, b.min.y, b.min.z, o.min.w⟩, ⟨b.max.x, b.max.y, b.max.z, b.max.w⟩⟩
              else
                if b.max.w < o.max.w then
                  ⟨⟨o.min.x, b.min.y, b.min.z, b.min.w⟩, ⟨b.max.x, b.max.y, b.max.z, o.max.w⟩⟩
                else
                  ⟨⟨o.min.x, b.min.y, b.min.z, b.min.w⟩, ⟨b.max.x, b.max.y, b.max.z, b.max.w⟩⟩
  else
    if b.max.x < o.max.x then
      if o.min.y < b.min.y then
        if b.max.y < o.max.y then
          if o.min.z < b.min.z then
            if b.max.z < o.max.z then
              if o.min.w < b.min.w then
                if b.max.w < o.max.w then
                  ⟨⟨b.min.x, o.min.y, o.min.z, o.min.w⟩, ⟨o.max.x, o.max.y, o.max.z, o.max.w⟩⟩
                else
                  ⟨⟨b.min.x, o.min.y, o.min.z, o.min.w⟩, ⟨o.max.x, o.max.y, o.max.z, b.max.w⟩⟩
              else
                if b.max.w < o.max.w then
                  ⟨⟨b.min.x, o.min.y, o.min.z, b.min.w⟩, ⟨o.max.x, o.max.y, o.max.z, o.max.w⟩⟩
                else
                  ⟨⟨b.min.x, o.min.y, o.min.z, b.min.w⟩, ⟨o.max.x, o.max.y, o.max.z, b.max.w⟩⟩
            else
              if o.min.w < b.min.w then
                if b.max.w < o.max.w then
                  ⟨⟨b.min.x, o.min.y, o.min.z, o.min.w⟩, ⟨o.max.x, o.max.y, b.max.z, o.max.w⟩⟩
                else
                  ⟨⟨b.min.x, o.min.y, o.min.z, o.min.w⟩, ⟨o.max.x, o.max.y, b.max.z, b.max.w⟩⟩
              else
                if b.max.w < o.max.w then
                  ⟨⟨b.min.x, o.min.y, o.min.z, b.min.w⟩, ⟨o.max.x, o.max.y, b.max.z, o.max.w⟩⟩
                else
                  ⟨⟨b.min.x, o.min.y, o.min.z, b.min.w⟩, ⟨o.max.x, o.max.y, b.max.z, b.max.w⟩⟩
          else
            if b.max.z < o.max.z then
              if o.min.w < b.min.w then
                if b.max.w < o.max.w then
                  ⟨⟨b.min.x, o.min.y, b.min.z, o.min.w⟩, ⟨o.max.x, o.max.y, o.max.z, o.max.w⟩⟩
                else
                  ⟨⟨b.min.x, o.min.y, b.min.z, o.min.w⟩, ⟨o.max.x, o.max.y, o.max.z, b.max.w⟩⟩
              else
                if b.max.w < o.max.w then
                  ⟨⟨b.min.x, o.min.y, b.min.z, b.min.w⟩, ⟨o.max.x, o.max.y, o.max.z, o.max.w⟩⟩
                else
                  ⟨⟨b.min.x, o.min.y, b.min.z, b.min.w⟩, ⟨o.max.x, o.max.y, o.max.z, b.max.w⟩⟩
            else
              if o.min.w < b.min.w then
                if b.max.w < o.max.w then
                  ⟨⟨b.min.x, o.min.y, b.min.z, o.min.w⟩, ⟨o.max.x, o.max.y, b.max.z, o.max.w⟩⟩
                else
                  ⟨⟨b.min.x, o.min.y, b.min.z, o.min.w⟩, ⟨o.max.x, o.max.y, b.max.z, b.max.w⟩⟩
              else
                if b.max.w < o.max.w then
                  ⟨⟨b.min.x, o.min.y, b.min.z, b.min.w⟩, ⟨o.max.x, o.max.y, b.max.z, o.max.w⟩⟩
                else
                  ⟨⟨b.min.x, o.min.y, b.min.z, b.min.w⟩, ⟨o.max.x, o.max.y, b.max.z, b.max.w⟩⟩
        else
          if o.min.z < b.min.z then
            if b.max.z < o.max.z then
              if o.min.w < b.min.w then
                if b.max.w < o.max.w then
                  ⟨⟨b.min.x, o.min.y, o.min.z, o.min.w⟩, ⟨o.max.x, b.max.y, o.max.z, o.max.w⟩⟩
                else
                  ⟨⟨b.min.x, o.min.y, o.min.z, o.min.w⟩, ⟨o.max.x, b.max.y, o.max.z, b.max.w⟩⟩
              else
                if b.max.w < o.max.w then
                  ⟨⟨b.min.x, o.min.y, o.min.z, b.min.w⟩, ⟨o.max.x, b.max.y, o.max.z, o.max.w⟩⟩
                else
                  ⟨⟨b.min.x, o.min.y, o.min.z, b.min.w⟩, ⟨o.max.x, b.max.y, o.max.z, b.max.w⟩⟩
            else
              if o.min.w < b.min.w then
                if b.max.w < o.max.w then
                  ⟨⟨b.min.x, o.min.y, o.min.z, o.min.w⟩, ⟨o.max.x, b.max.y, b.max.z, o.max.w⟩⟩
                else
                  ⟨⟨b.min.x, o.min.y, o.min.z, o.min.w⟩, ⟨o.max.x, b.max.y, b.max.z, b.max.w⟩⟩
              else
                if b.max.w < o.max.w then
                  ⟨⟨b.min.x, o.min.y, o.min.z, b.min.w⟩, ⟨o.max.x, b.max.y, b.max.z, o.max.w⟩⟩
                else
                  ⟨⟨b.min.x, o.min.y, o.min.z, b.min.w⟩, ⟨o.max.x, b.max.y, b.max.z, b.max.w⟩⟩
          else
            if b.max.z < o.max.z then
              if o.min.w < b.min.w then
                if b.max.w < o.max.w then
                  ⟨⟨b.min.x, o.min.y, b.min.z, o.min.w⟩, ⟨o.max.x, b.max.y, o.max.z, o.max.w⟩⟩
                else
                  ⟨⟨b.min.x, o.min.y, b.min.z, o.min.w⟩, ⟨o.max.x, b.max.y, o.max.z, b.max.w⟩⟩
              else
                if b.max.w < o.max.w then
                  ⟨⟨b.min.x, o.min.y, b.min.z, b.min.w⟩, ⟨o.max.x, b.max.y, o.max.z, o.max.w⟩⟩
                else
                  ⟨⟨b.min.x, o.min.y, b.min.z, b.min.w⟩, ⟨o.max.x, b.max.y, o.max.z, b.max.w⟩⟩
            else
              if o.min.w < b.min.w then
                if b.max.w < o.max.w then
                  ⟨⟨b.min.x, o.min.y, b.min.z, o.min.w⟩, ⟨o.max.x, b.max.y, b.max.z, o.max.w⟩⟩
                else
                  ⟨⟨b.min.x, o.min.y, b.min.z, o.min.w⟩, ⟨o.max.x, b.max.y, b.max.z, b.max.w⟩⟩
              else
                if b.max.w < o.max.w then
                  ⟨⟨b.min.x, o.min.y, b.min.z, b.min.w⟩, ⟨o.max.x, b.max.y, b.max.z, o.max.w⟩⟩
                else
                  ⟨⟨b.min.x, o.min.y, b.min.z, b.min.w⟩, ⟨o.max.x, b.max.y, b.max.z, b.max.w⟩⟩
      else
        if b.max.y < o.max.y then
          if o.min.z < b.min.z then
            if b.max.z < o.max.z then
              if o.min.w < b.min.w then
                if b.max.w < o.max.w then
                  ⟨⟨b.min.x, b.min.y, o.min.z, o.min.w⟩, ⟨o.max.x, o.max.y, o.max.z, o.max.w⟩⟩
                else
                  ⟨⟨b.min.x, b.min.y, o.min.z, o.min.w⟩, ⟨o.max.x, o.max.y, o.max.z, b.max.w⟩⟩
              else
                if b.max.w < o.max.w then
                  ⟨⟨b.min.x, b.min.y, o.min.z, b.min.w⟩, ⟨o.max.x, o.max.y, o.max.z, o.max.w⟩⟩
                else
                  ⟨⟨b.min.x, b.min.y, o.min.z, b.min.w⟩, ⟨o.max.x, o.max.y, o.max.z, b.max.w⟩⟩
            else
              if o.min.w < b.min.w then
                if b.max.w < o.max.w then
                  ⟨⟨b.min.x, b.min.y, o.min.z, o.min.w⟩, ⟨o.max.x, o.max.y, b.max.z, o.max.w⟩⟩
                else
                  ⟨⟨b.min.x, b.min.y, o.min.z, o.min.w⟩, ⟨o.max.x, o.max.y, b.max.z, b.max.w⟩⟩
              else
                if b.max.w < o.max.w then
                  ⟨⟨b.min.x, b.min.y, o.min.z, b.min.w⟩, ⟨o.max.x, o.max.y, b.max.z, o.max.w⟩⟩
                else
                  ⟨⟨b.min.x, b.min.y, o.min.z, b.min.w⟩, ⟨o.max.x, o.max.y, b.max.z, b.max.w⟩⟩
          else
            if b.max.z < o.max.z then
              if o.min.w < b.min.w then
                if b.max.w < o.max.w then
                  ⟨⟨b.min.x, b.min.y, b.min.z, o.min.w⟩, ⟨o.max.x, o.max.y, o.max.z, o.max.w⟩⟩
                else
                  ⟨⟨b.min.x, b.min.y, b.min.z, o.min.w⟩, ⟨o.max.x, o.max.y, o.max.z, b.max.w⟩⟩
              else
                if b.max.w < o.max.w then
                  ⟨⟨b.min.x, b.min.y, b.min.z, b.min.w⟩, ⟨o.max.x, o.max.y, o.max.z, o.max.w⟩⟩
                else
                  ⟨⟨b.min.x, b.min.y, b.min.z, b.min.w⟩, ⟨o.max.x, o.max.y, o.max.z, b.max.w⟩⟩
            else
              if o.min.w < b.min.w then
                if b.max.w < o.max.w then
                  ⟨⟨b.min.x, b.min.y, b.min.z, o.min.w⟩, ⟨o.max.x, o.max.y, b.max.z, o.max.w⟩⟩
                else
                  ⟨⟨b.min.x, b.min.y, b.min.z, o.min.w⟩, ⟨o.max.x, o.max.y, b.max.z, b.max.w⟩⟩
              else
                if b.max.w < o.max.w then
                  ⟨⟨b.min.x, b.min.y, b.min.z, b.min.w⟩, ⟨o.max.x, o.max.y, b.max.z, o.max.w⟩⟩
                else
                  ⟨⟨b.min.x, b.min.y, b.min.z, b.min.w⟩, ⟨o.max.x, o.max.y, b.max.z, b.max.w⟩⟩
        else
          if o.min.z < b.min.z then
            if b.max.z < o.max.z then
              if o.min.w < b.min.w then
                if b.max.w < o.max.w then
                  ⟨⟨b.min.x, b.min.y, o.min.z, o.min.w⟩, ⟨o.max.x, b.max.y, o.max.z, o.max.w⟩⟩
                else
                  ⟨⟨b.min.x, b.min.y, o.min.z, o.min.w⟩, ⟨o.max.x, b.max.y, o.max.z, b.max.w⟩⟩
              else
                if b.max.w < o.max.w then
                  ⟨⟨b.min.x, b.min.y, o.min.z, b.min.w⟩, ⟨o.max.x, b.max.y, o.max.z, o.max.w⟩⟩
                else
                  ⟨⟨b.min.x, b.min.y, o.min.z, b.min.w⟩, ⟨o.max.x, b.max.y, o.max.z, b.max.w⟩⟩
            else
              if o.min.w < b.min.w then
                if b.max.w < o.max.w then
                  ⟨⟨b.min.x, b.min.y, o.min.z, o.min.w⟩, ⟨o.max.x, b.max.y, b.max.z, o.max.w⟩⟩
                else
                  ⟨⟨b.min.x, b.min.y, o.min.z, o.min.w⟩, ⟨o.max.x, b.max.y, b.max.z, b.max.w⟩⟩
              else
                if b.max.w < o.max.w then
                  ⟨⟨b.min.x, b.min.y, o.min.z, b.min.w⟩, ⟨o.max.x, b.max.y, b.max.z, o.max.w⟩⟩
                else
                  ⟨⟨b.min.x, b.min.y, o.min.z, b.min.w⟩, ⟨o.max.x, b.max.y, b.max.z, b.max.w⟩⟩
          else
            if b.max.z < o.max.z then
              if o.min.w < b.min.w then
                if b.max.w < o.max.w then
                  ⟨⟨b.min.x, b.min.y, b.min.z, o.min.w⟩, ⟨o.max.x, b.max.y, o.max.z, o.max.w⟩⟩
                else
                  ⟨⟨b.min.x, b.min.y, b.min.z, o.min.w⟩, ⟨o.max.x, b.max.y, o.max.z, b.max.w⟩⟩
              else
                if b.max.w < o.max.w then
                  ⟨⟨b.min.x, b.min.y, b.min.z, b.min.w⟩, ⟨o.max.x, b.max.y, o.max.z, o.max.w⟩⟩
                else
                  ⟨⟨b.min.x, b.min.y, b.min.z, b.min.w⟩, ⟨o.max.x, b.max.y, o.max.z, b.max.w⟩⟩
            else
              if o.min.w < b.min.w then
                if b.max.w < o.max.w then
                  ⟨⟨b.min.x, b.min.y, b.min.z, o.min.w⟩, ⟨o.max.x, b.max.y, b.max.z, o.max.w⟩⟩
                else
                  ⟨⟨b.min.x, b.min.y, b.min.z, o.min.w⟩, ⟨o.max.x, b.max.y, b.max.z, b.max.w⟩⟩
              else
                if b.max.w < o.max.w then
                  ⟨⟨b.min.x, b.min.y, b.min.z, b.min.w⟩, ⟨o.max.x, b.max.y, b.max.z, o.max.w⟩⟩
                else
                  ⟨⟨b.min.x, b.min.y, b.min.z, b.min.w⟩, ⟨o.max.x, b.max.y, b.max.z, b.max.w⟩⟩
    else
      if o.min.y < b.min.y then
        if b.max.y < o.max.y then
          if o.min.z < b.min.z then
            if b.max.z < o.max.z then
              if o.min.w < b.min.w then
                if b.max.w < o.max.w then
                  ⟨⟨b.min.x, o.min.y, o.min.z, o.min.w⟩, ⟨b.max.x, o.max.y, o.max.z, o.max.w⟩⟩
                else
                  ⟨⟨b.min.x, o.min.y, o.min.z, o.min.w⟩, ⟨b.max.x, o.max.y, o.max.z, b.max.w⟩⟩
              else
                if b.max.w < o.max.w then
                  ⟨⟨b.min.x, o.min.y, o.min.z, b.min.w⟩, ⟨b.max.x, o.max.y, o.max.z, o.max.w⟩⟩
                else
                  ⟨⟨b.min.x, o.min.y, o.min.z, b.min.w⟩, ⟨b.max.x, o.max.y, o.max.z, b.max.w⟩⟩
            else
              if o.min.w < b.min.w then
                if b.max.w < o.max.w then
                  ⟨⟨b.min.x, o.min.y, o.min.z, o.min.w⟩, ⟨b.max.x, o.max.y, b.max.z, o.max.w⟩⟩
                else
                  ⟨⟨b.min.x, o.min.y, o.min.z, o.min.w⟩, ⟨b.max.x, o.max.y, b.max.z, b.max.w⟩⟩
              else
                if b.max.w < o.max.w then
                  ⟨⟨b.min.x, o.min.y, o.min.z, b.min.w⟩, ⟨b.max.x, o.max.y, b.max.z, o.max.w⟩⟩
                else
                  ⟨⟨b.min.x, o.min.y, o.min.z, b.min.w⟩, ⟨b.max.x, o.max.y, b.max.z, b.max.w⟩⟩
          else
            if b.max.z < o.max.z then
              if o.min.w < b.min.w then
                if b.max.w < o.max.w then
                  ⟨⟨b.min.x, o.min.y, b.min.z, o.min.w⟩, ⟨b.max.x, o.max.y, o.max.z, o.max.w⟩⟩
                else
                  ⟨⟨b.min.x, o.min.y, b.min.z, o.min.w⟩, ⟨b.max.x, o.max.y, o.max.z, b.max.w⟩⟩
              else
                if b.max.w < o.max.w then
                  ⟨⟨b.min.x, o.min.y, b.min.z, b.min.w⟩, ⟨b.max.x, o.max.y, o.max.z, o.max.w⟩⟩
                else
                  ⟨⟨b.min.x, o.min.y, b.min.z, b.min.w⟩, ⟨b.max.x, o.max.y, o.max.z, b.max.w⟩⟩
            else
              if o.min.w < b.min.w then
                if b.max.w < o.max.w then
                  ⟨⟨b.min.x, o.min.y, b.min.z, o.min.w⟩, ⟨b.max.x, o.max.y, b.max.z, o.max.w⟩⟩
                else
                  ⟨⟨b.min.x, o.min.y, b.min.z, o.min.w⟩, ⟨b.max.x, o.max.y, b.max.z, b.max.w⟩⟩
              else
                if b.max.w < o.max.w then
                  ⟨⟨b.min.x, o.min.y, b.min.z, b.min.w⟩, ⟨b.max.x, o.max.y, b.max.z, o.max.w⟩⟩
                else
                  ⟨⟨b.min.x, o.min.y, b.min.z, b.min.w⟩, ⟨b.max.x, o.max.y, b.max.z, b.max.w⟩⟩
        else
          if o.min.z < b.min.z then
            if b.max.z < o.max.z then
              if o.min.w < b.min.w then
                if b.max.w < o.max.w then
                  ⟨⟨b.min.x, o.min.y, o.min.z, o.min.w⟩, ⟨b.max.x, b.max.y, o.max.z, o.max.w⟩⟩
                else
                  ⟨⟨b.min.x, o.min.y, o.min.z, o.min.w⟩, ⟨b.max.x, b.max.y, o.max.z, b.max.w⟩⟩
              else
                if b.max.w < o.max.w then
                  ⟨⟨b.min.x, o.min.y, o.min.z, b.min.w⟩, ⟨b.max.x, b.max.y, o.max.z, o.max.w⟩⟩
                else
                  ⟨⟨b.min.x, o.min.y, o.min.z, b.min.w⟩, ⟨b.max.x, b.max.y, o.max.z, b.max.w⟩⟩
            else
              if o.min.w < b.min.w then
                if b.max.w < o.max.w then
                  ⟨⟨b.min.x, o.min.y, o.min.z, o.min.w⟩, ⟨b.max.x, b.max.y, b.max.z, o.max.w⟩⟩
                else
                  ⟨⟨b.min.x, o.min.y, o.min.z, o.min.w⟩, ⟨b.max.x, b.max.y, b.max.z, b.max.w⟩⟩
              else
                if b.max.w < o.max.w then
                  ⟨⟨b.min.x, o.min.y, o.min.z, b.min.w⟩, ⟨b.max.x, b.max.y, b.max.z, o.max.w⟩⟩
                else
                  ⟨⟨b.min.x, o.min.y, o.min.z, b.min.w⟩, ⟨b.max.x, b.max.y, b.max.z, b.max.w⟩⟩
          else
            if b.max.z < o.max.z then
              if o.min.w < b.min.w then
                if b.max.w < o.max.w then
                  ⟨⟨b.min.x, o.min.y, b.min.z, o.min.w⟩, ⟨b.max.x, b.max.y, o.max.z, o.max.w⟩⟩
                else
                  ⟨⟨b.min.x, o.min.y, b.min.z, o.min.w⟩, ⟨b.max.x, b.max.y, o.max.z, b.max.w⟩⟩
              else
                if b.max.w < o.max.w then
                  ⟨⟨b.min.x, o.min.y, b.min.z, b.min.w⟩, ⟨b.max.x, b.max.y, o.max.z, o.max.w⟩⟩
                else
                  ⟨⟨b.min.x, o.min.y, b.min.z, b.min.w⟩, ⟨b.max.x, b.max.y, o.max.z, b.max.w⟩⟩
            else
              if o.min.w < b.min.w then
                if b.max.w < o.max.w then
                  ⟨⟨b.min.x, o.min.y, b.min.z, o.min.w⟩, ⟨b.max.x, b.max.y, b.max.z, o.max.w⟩⟩
                else
                  ⟨⟨b.min.x, o.min.y, b.min.z, o.min.w⟩, ⟨b.max.x, b.max.y, b.max.z, b.max.w⟩⟩
              else
                if b.max.w < o.max.w then
                  ⟨⟨b.min.x, o.min.y, b.min.z, b.min.w⟩, ⟨b.max.x, b.max.y, b.max.z, o.max.w⟩⟩
                else
                  ⟨⟨b.min.x, o.min.y, b.min.z, b.min.w⟩, ⟨b.max.x, b.max.y, b.max.z, b.max.w⟩⟩
      else
        if b.max.y < o.max.y then
          if o.min.z < b.min.z then
            if b.max.z < o.max.z then
              if o.min.w < b.min.w then
                if b.max.w < o.max.w then
                  ⟨⟨b.min.x, b.min.y, o.min.z, o.min.w⟩, ⟨b.max.x, o.max.y, o.max.z, o.max.w⟩⟩
                else
                  ⟨⟨b.min.x, b.min.y, o.min.z, o.min.w⟩, ⟨b.max.x, o.max.y, o.max.z, b.max.w⟩⟩
              else
                if b.max.w < o.max.w then
                  ⟨⟨b.min.x, b.min.y, o.min.z, b.min.w⟩, ⟨b.max.x, o.max.y, o.max.z, o.max.w⟩⟩
                else
                  ⟨⟨b.min.x, b.min.y, o.min.z, b.min.w⟩, ⟨b.max.x, o.max.y, o.max.z, b.max.w⟩⟩
            else
              if o.min.w < b.min.w then
                if b.max.w < o.max.w then
                  ⟨⟨b.min.x, b.min.y, o.min.z, o.min.w⟩, ⟨b.max.x, o.max.y, b.max.z, o.max.w⟩⟩
                else
                  ⟨⟨b.min.x, b.min.y, o.min.z, o.min.w⟩, ⟨b.max.x, o.max.y, b.max.z, b.max.w⟩⟩
              else
                if b.max.w < o.max.w then
                  ⟨⟨b.min.x, b.min.y, o.min.z, b.min.w⟩, ⟨b.max.x, o.max.y, b.max.z, o.max.w⟩⟩
                else
                  ⟨⟨b.min.x, b.min.y, o.min.z, b.min.w⟩, ⟨b.max.x, o.max.y, b.max.z, b.max.w⟩⟩
          else
            if b.max.z < o.max.z then
              if o.min.w < b.min.w then
                if b.max.w < o.max.w then
                  ⟨⟨b.min.x, b.min.y, b.min.z, o.min.w⟩, ⟨b.max.x, o.max.y, o.max.z, o.max.w⟩⟩
                else
                  ⟨⟨b.min.x, b.min.y, b.min.z, o.min.w⟩, ⟨b.max.x, o.max.y, o.max.z, b.max.w⟩⟩
              else
                if b.max.w < o.max.w then
                  ⟨⟨b.min.x, b.min.y, b.min.z, b.min.w⟩, ⟨b.max.x, o.max.y, o.max.z, o.max.w⟩⟩
                else
                  ⟨⟨b.min.x, b.min.y, b.min.z, b.min.w⟩, ⟨b.max.x, o.max.y, o.max.z, b.max.w⟩⟩
            else
              if o.min.w < b.min.w then
                if b.max.w < o.max.w then
                  ⟨⟨b.min.x, b.min.y, b.min.z, o.min.w⟩, ⟨b.max.x, o.max.y, b.max.z, o.max.w⟩⟩
                else
                  ⟨⟨b.min.x, b.min.y, b.min.z, o.min.w⟩, ⟨b.max.x, o.max.y, b.max.z, b.max.w⟩⟩
              else
                if b.max.w < o.max.w then
                  ⟨⟨b.min.x, b.min.y, b.min.z, b.min.w⟩, ⟨b.max.x, o.max.y, b.max.z, o.max.w⟩⟩
                else
                  ⟨⟨b.min.x, b.min.y, b.min.z, b.min.w⟩, ⟨b.max.x, o.max.y, b.max.z, b.max.w⟩⟩
        else
          if o.min.z < b.min.z then
            if b.max.z < o.max.z then
              if o.min.w < b.min.w then
                if b.max.w < o.max.w then
                  ⟨⟨b.min.x, b.min.y, o.min.z, o.min.w⟩, ⟨b.max.x, b.max.y, o.max.z, o.max.w⟩⟩
                else
                  ⟨⟨b.min.x, b.min.y, o.min.z, o.min.w⟩, ⟨b.max.x, b.max.y, o.max.z, b.max.w⟩⟩
              else
                if b.max.w < o.max.w then
                  ⟨⟨b.min.x, b.min.y, o.min.z, b.min.w⟩, ⟨b.max.x, b.max.y, o.max.z, o.max.w⟩⟩
                else
                  ⟨⟨b.min.x, b.min.y, o.min.z, b.min.w⟩, ⟨b.max.x, b.max.y, o.max.z, b.max.w⟩⟩
            else
              if o.min.w < b.min.w then
                if b.max.w < o.max.w then
                  ⟨⟨b.min.x, b.min.y, o.min.z, o.min.w⟩, ⟨b.max.x, b.max.y, b.max.z, o.max.w⟩⟩
                else
                  ⟨⟨b.min.x, b.min.y, o.min.z, o.min.w⟩, ⟨b.max.x, b.max.y, b.max.z, b.max.w⟩⟩
              else
                if b.max.w < o.max.w then
                  ⟨⟨b.min.x, b.min.y, o.min.z, b.min.w⟩, ⟨b.max.x, b.max.y, b.max.z, o.max.w⟩⟩
                else
                  ⟨⟨b.min.x, b.min.y, o.min.z, b.min.w⟩, ⟨b.max.x, b.max.y, b.max.z, b.max.w⟩⟩
          else
            if b.max.z < o.max.z then
              if o.min.w < b.min.w then
                if b.max.w < o.max.w then
                  ⟨⟨b.min.x, b.min.y, b.min.z, o.min.w⟩, ⟨b.max.x, b.max.y, o.max.z, o.max.w⟩⟩
                else
                  ⟨⟨b.min.x, b.min.y, b.min.z, o.min.w⟩, ⟨b.max.x, b.max.y, o.max.z, b.max.w⟩⟩
              else
                if b.max.w < o.max.w then
                  ⟨⟨b.min.x, b.min.y, b.min.z, b.min.w⟩, ⟨b.max.x, b.max.y, o.max.z, o.max.w⟩⟩
                else
                  ⟨⟨b.min.x, b.min.y, b.min.z, b.min.w⟩, ⟨b.max.x, b.max.y, o.max.z, b.max.w⟩⟩
            else
              if o.min.w < b.min.w then
                if b.max.w < o.max.w then
                  ⟨⟨b.min.x, b.min.y, b.min.z, o.min.w⟩, ⟨b.max.x, b.max.y, b.max.z, o.max.w⟩⟩
                else
                  ⟨⟨b.min.x, b.min.y, b.min.z, o.min.w⟩, ⟨b.max.x, b.max.y, b.max.z, b.max.w⟩⟩
              else
                if b.max.w < o.max.w then
                  ⟨⟨b.min.x, b.min.y, b.min.z, b.min.w⟩, ⟨b.max.x, b.max.y, b.max.z, o.max.w⟩⟩
                else
                  ⟨⟨b.min.x, b.min.y, b.min.z, b.min.w⟩, ⟨b.max.x, b.max.y, b.max.z, b.max.w⟩⟩

/-- extracted from the C++ template at T = Sym; 9 path(s) -/
def Box4.intersectsPoint {α : Type} [LE α] [DecidableLE α] (b : Box4 α) (p : V4 α) : Bool :=
  if b.min.x ≤ p.x then
    if p.x ≤ b.max.x then
      if b.min.y ≤ p.y then
        if p.y ≤ b.max.y then
          if b.min.z ≤ p.z then
            if p.z ≤ b.max.z then
              if b.min.w ≤ p.w then
                if p.w ≤ b.max.w then
                  true
                else
                  false
              else
                false
            else
              false
          else
            false
        else
          false
      else
        false
    else
      false
  else
    false

/-- extracted from the C++ template at T = Sym; 17 path(s) -/
def Box4.intersectsBox {α : Type} [LT α] [DecidableLT α] (b : Box4 α) (o : Box4 α) : Bool :=
  if b.max.x < b.min.x then
    false
  else
    if b.max.y < b.min.y then
      false
    else
      if b.max.z < b.min.z then
        false
      else
        if b.max.w < b.min.w then
          false
        else
          if o.max.x < o.min.x then
            false
          else
            if o.max.y < o.min.y then
              false
            else
              if o.max.z < o.min.z then
                false
              else
                if o.max.w < o.min.w then
                  false
                else
                  if o.max.x < b.min.x then
                    false
                  else
                    if b.max.x < o.min.x then
                      false
                    else
                      if o.max.y < b.min.y then
                        false
                      else
                        if b.max.y < o.min.y then
                          false
                        else
                          if o.max.z < b.min.z then
                            false
                          else
                            if b.max.z < o.min.z then
                              false
                            else
                              if o.max.w < b.min.w then
                                false
                              else
                                if b.max.w < o.min.w then
                                  false
                                else
                                  true

/-- extracted from the C++ template at T = Sym; 5 path(s) -/
def Box4.isEmpty {α : Type} [LT α] [DecidableLT α] (b : Box4 α) : Bool :=
  if b.max.x < b.min.x then
    true
  else
    if b.max.y < b.min.y then
      true
    else
      if b.max.z < b.min.z then
        true
      else
        if b.max.w < b.min.w then
          true
        else
          false

/-- extracted from the C++ template at T = Sym; 5 path(s) -/
def Box4.hasVolume {α : Type} [LE α] [DecidableLE α] (b : Box4 α) : Bool :=
  if b.max.x ≤ b.min.x then
    false
  else
    if b.max.y ≤ b.min.y then
      false
    else
      if b.max.z ≤ b.min.z then
        false
      else
        if b.max.w ≤ b.min.w then
          false
        else
          true

/-- extracted from the C++ template at T = Sym; 9 path(s) -/
def Box4.isInfinite {α : Type} [DecidableEq α] (tmax : α) (tlowest : α) (b : Box4 α) : Bool :=
  if b.min.x = tlowest then
    if b.max.x = tmax then
      if b.min.y = tlowest then
        if b.max.y = tmax then
          if b.min.z = tlowest then
            if b.max.z = tmax then
              if b.min.w = tlowest then
                if b.max.w = tmax then
                  true
                else
                  false
              else
                false
            else
              false
          else
            false
        else
          false
      else
        false
    else
      false
  else
    false

/-- extracted from the C++ template at T = Sym; 5 path(s) -/
def Box4.size {α : Type} [Sub α] [LT α] [DecidableLT α] [OfNat α 0] (b : Box4 α) : (V4 α) :=
  if b.max.x < b.min.x then
    ⟨(0 : α), (0 : α), (0 : α), (0 : α)⟩
  else
    if b.max.y < b.min.y then
      ⟨(0 : α), (0 : α), (0 : α), (0 : α)⟩
    else
      if b.max.z < b.min.z then
        ⟨(0 : α), (0 : α), (0 : α), (0 : α)⟩
      else
        if b.max.w < b.min.w then
          ⟨(0 : α), (0 : α), (0 : α), (0 : α)⟩
        else
          ⟨(b.max.x - b.min.x), (b.max.y - b.min.y), (b.max.z - b.min.z), (b.max.w - b.min.w)⟩

/-- extracted from the C++ template at T = Sym; 1 path(s) -/
def Box4.center {α : Type} [Add α] [Div α] [OfNat α 2] (b : Box4 α) : (V4 α) :=
  ⟨((b.max.x + b.min.x) / (2 : α)), ((b.max.y + b.min.y) / (2 : α)), ((b.max.z + b.min.z) / (2 : α)), ((b.max.w + b.min.w) / (2 : α))⟩

/-- extracted from the C++ template at T = Sym; 12 path(s) -/
def Box4.majorAxis {α : Type} [Sub α] [LT α] [DecidableLT α] (b : Box4 α) : Int :=
  let t25 := (b.max.y - b.min.y)
  let t26 := (b.max.x - b.min.x)
  let t47 := (b.max.z - b.min.z)
  let t59 := (b.max.w - b.min.w)
  if b.max.x < b.min.x then
    (0 : Int)
  else
    if b.max.y < b.min.y then
      (0 : Int)
    else
      if b.max.z < b.min.z then
        (0 : Int)
      else
        if b.max.w < b.min.w then
          (0 : Int)
        else
          if t26 < t25 then
            if t25 < t47 then
              if t47 < t59 then
                (3 : Int)
              else
                (2 : Int)
            else
              if t25 < t59 then
                (3 : Int)
              else
                (1 : Int)
          else
            if t26 < t47 then
              if t47 < t59 then
                (3 : Int)
              else
                (2 : Int)
            else
              if t26 < t59 then
                (3 : Int)
              else
                (0 : Int)

/-- extracted from the C++ template at T = Sym; 9 path(s) -/
def Box4.eq {α : Type} [DecidableEq α] (a : Box4 α) (b : Box4 α) : Bool :=
  if a.min.x = b.min.x then
    if a.min.y = b.min.y then
      if a.min.z = b.min.z then
        if a.min.w = b.min.w then
          if a.max.x = b.max.x then
            if a.max.y = b.max.y then
              if a.max.z = b.max.z then
                if a.max.w = b.max.w then
                  true
                else
                  false
              else
                false
            else
              false
          else
            false
        else
          false
      else
        false
    else
      false
  else
    false

/-- extracted from the C++ template at T = Sym; 9 path(s) -/
def Box4.ne {α : Type} [DecidableEq α] (a : Box4 α) (b : Box4 α) : Bool :=
  if a.min.x = b.min.x then
    if a.min.y = b.min.y then
      if a.min.z = b.min.z then
        if a.min.w = b.min.w then
          if a.max.x = b.max.x then
            if a.max.y = b.max.y then
              if a.max.z = b.max.z then
                if a.max.w = b.max.w then
                  false
                else
                  true
              else
                true
            else
              true
          else
            true
        else
          true
      else
        true
    else
      true
  else
    true

end ImathVerif.Gen
