-- GENERATED from /repo/src/Imath by harness/sym (T = Sym path extraction); do not edit.
import ImathVerif.Basic.Types
import ImathVerif.Gen.Leaf
set_option linter.unusedVariables false
namespace ImathVerif.Gen
open ImathVerif

/-- extracted from the C++ template at T = Sym; 1 path(s) -/
def Euler.M44_setEulerAngles {α : Type} [Add α] [Mul α] [Neg α] [OfNat α 0] [OfNat α 1] (sin : α → α) (cos : α → α) (r : V3 α) : (M44 α) :=
  let t8608 := (cos r.z)
  let t8609 := (cos r.y)
  let t8610 := (cos r.x)
  let t8611 := (sin r.z)
  let t8612 := (sin r.y)
  let t8613 := (sin r.x)
  let t8617 := (t8608 * t8612)
  let t8622 := (t8611 * t8612)
  ⟨(t8608 * t8609), (t8611 * t8609), (-t8612), (0 : α), (((-t8611) * t8610) + (t8617 * t8613)), ((t8608 * t8610) + (t8622 * t8613)), (t8609 * t8613), (0 : α), ((t8611 * t8613) + (t8617 * t8610)), (((-t8608) * t8613) + (t8622 * t8610)), (t8609 * t8610), (0 : α), (0 : α), (0 : α), (0 : α), (1 : α)⟩

/-- extracted from the C++ template at T = Sym; 1 path(s) -/
def Euler.M44_rotate {α : Type} [Add α] [Mul α] [Neg α] (sin : α → α) (cos : α → α) (m : M44 α) (r : V3 α) : (M44 α) :=
  let t8608 := (cos r.z)
  let t8609 := (cos r.y)
  let t8610 := (cos r.x)
  let t8611 := (sin r.z)
  let t8612 := (sin r.y)
  let t8613 := (sin r.x)
  let t8614 := (t8608 * t8609)
  let t8615 := (t8611 * t8609)
  let t8616 := (-t8612)
  let t8617 := (t8608 * t8612)
  let t8619 := (-t8611)
  let t8621 := ((t8619 * t8610) + (t8617 * t8613))
  let t8622 := (t8611 * t8612)
  let t8625 := ((t8608 * t8610) + (t8622 * t8613))
  let t8626 := (t8609 * t8613)
  let t8634 := (t8609 * t8610)
  let t8635 := (-t8613)
  let t8637 := ((t8619 * t8635) + (t8617 * t8610))
  let t8639 := ((t8608 * t8635) + (t8622 * t8610))
  ⟨(((m.x00 * t8614) + (m.x10 * t8615)) + (m.x20 * t8616)), (((m.x01 * t8614) + (m.x11 * t8615)) + (m.x21 * t8616)), (((m.x02 * t8614) + (m.x12 * t8615)) + (m.x22 * t8616)), (((m.x03 * t8614) + (m.x13 * t8615)) + (m.x23 * t8616)), (((m.x00 * t8621) + (m.x10 * t8625)) + (m.x20 * t8626)), (((m.x01 * t8621) + (m.x11 * t8625)) + (m.x21 * t8626)), (((m.x02 * t8621) + (m.x12 * t8625)) + (m.x22 * t8626)), (((m.x03 * t8621) + (m.x13 * t8625)) + (m.x23 * t8626)), (((m.x00 * t8637) + (m.x10 * t8639)) + (m.x20 * t8634)), (((m.x01 * t8637) + (m.x11 * t8639)) + (m.x21 * t8634)), (((m.x02 * t8637) + (m.x12 * t8639)) + (m.x22 * t8634)), (((m.x03 * t8637) + (m.x13 * t8639)) + (m.x23 * t8634)), m.x30, m.x31, m.x32, m.x33⟩

/-- extracted from the C++ template at T = Sym; 1 path(s) -/
def Euler.M33_setRotation {α : Type} [Neg α] [OfNat α 0] [OfNat α 1] (sin : α → α) (cos : α → α) (r : α) : (M33 α) :=
  let t8701 := (cos r)
  let t8702 := (sin r)
  ⟨t8701, t8702, (0 : α), (-t8702), t8701, (0 : α), (0 : α), (0 : α), (1 : α)⟩

/-- extracted from the C++ template at T = Sym; 1 path(s) -/
def Euler.M22_setRotation {α : Type} [Neg α] (sin : α → α) (cos : α → α) (r : α) : (M22 α) :=
  let t8701 := (cos r)
  let t8702 := (sin r)
  ⟨t8701, t8702, (-t8702), t8701⟩

/-- extracted from the C++ template at T = Sym; 1 path(s) -/
def Euler.Quat_toMatrix33 {α : Type} [Add α] [Sub α] [Mul α] [OfNat α 1] [OfNat α 2] (q : Quat α) : (M33 α) :=
  let t309 := (q.v.x * q.v.x)
  let t310 := (q.v.y * q.v.y)
  let t315 := (q.v.x * q.r)
  let t316 := (q.v.y * q.v.z)
  let t319 := (q.v.y * q.r)
  let t320 := (q.v.z * q.v.x)
  let t325 := (q.v.z * q.v.z)
  let t329 := (q.v.z * q.r)
  let t330 := (q.v.x * q.v.y)
  ⟨((1 : α) - ((2 : α) * (t310 + t325))), ((2 : α) * (t330 + t329)), ((2 : α) * (t320 - t319)), ((2 : α) * (t330 - t329)), ((1 : α) - ((2 : α) * (t325 + t309))), ((2 : α) * (t316 + t315)), ((2 : α) * (t320 + t319)), ((2 : α) * (t316 - t315)), ((1 : α) - ((2 : α) * (t310 + t309)))⟩

/-- extracted from the C++ template at T = Sym; 1 path(s) -/
def Euler.Quat_toMatrix44 {α : Type} [Add α] [Sub α] [Mul α] [OfNat α 0] [OfNat α 1] [OfNat α 2] (q : Quat α) : (M44 α) :=
  let t309 := (q.v.x * q.v.x)
  let t310 := (q.v.y * q.v.y)
  let t315 := (q.v.x * q.r)
  let t316 := (q.v.y * q.v.z)
  let t319 := (q.v.y * q.r)
  let t320 := (q.v.z * q.v.x)
  let t325 := (q.v.z * q.v.z)
  let t329 := (q.v.z * q.r)
  let t330 := (q.v.x * q.v.y)
  ⟨((1 : α) - ((2 : α) * (t310 + t325))), ((2 : α) * (t330 + t329)), ((2 : α) * (t320 - t319)), (0 : α), ((2 : α) * (t330 - t329)), ((1 : α) - ((2 : α) * (t325 + t309))), ((2 : α) * (t316 + t315)), (0 : α), ((2 : α) * (t320 + t319)), ((2 : α) * (t316 - t315)), ((1 : α) - ((2 : α) * (t310 + t309))), (0 : α), (0 : α), (0 : α), (0 : α), (1 : α)⟩

/-- extracted from the C++ template at T = Sym; 8 path(s) -/
def Euler.extractEulerXYZ {α : Type} [Add α] [Mul α] [Div α] [Neg α] [LT α] [LE α] [DecidableLT α] [DecidableLE α] [DecidableEq α] [OfNat α 0] [OfNat α 1] [OfNat α 2] (tmin : α) (sqrt : α → α) (sin : α → α) (cos : α → α) (atan2 : α → α → α) (m : M44 α) : (V3 α) :=
  let t64 := (atan2 m.x12 m.x22)
  let t65 := (-t64)
  let t66 := (cos (0 : α))
  let t67 := (cos t65)
  let t68 := (sin (0 : α))
  let t69 := (sin t65)
  let t70 := (t66 * t66)
  let t71 := (t68 * t66)
  let t72 := (-t68)
  let t73 := (t66 * t68)
  let t76 := ((t72 * t67) + (t73 * t69))
  let t77 := (t68 * t68)
  let t80 := ((t66 * t67) + (t77 * t69))
  let t81 := (t66 * t69)
  let t89 := ((0 : α) * t72)
  let t90 := ((0 : α) * t71)
  let t93 := ((((1 : α) * t70) + t90) + t89)
  let t95 := ((0 : α) * t70)
  let t97 := ((t95 + ((1 : α) * t71)) + t89)
  let t99 := (t95 + t90)
  let t100 := (t99 + ((1 : α) * t72))
  let t102 := ((0 : α) * t81)
  let t103 := ((0 : α) * t80)
  let t106 := ((((1 : α) * t76) + t103) + t102)
  let t108 := ((0 : α) * t76)
  let t110 := ((t108 + ((1 : α) * t80)) + t102)
  let t112 := (t108 + t103)
  let t113 := (t112 + ((1 : α) * t81))
  let t128 := ((t99 + t89) * (0 : α))
  let t129 := (t100 * m.x20)
  let t130 := (t97 * m.x10)
  let t131 := (t93 * m.x00)
  let t132 := (t131 + t130)
  let t134 := ((t132 + t129) + t128)
  let t135 := (t100 * m.x21)
  let t136 := (t97 * m.x11)
  let t137 := (t93 * m.x01)
  let t138 := (t137 + t136)
  let t140 := ((t138 + t135) + t128)
  let t141 := (t100 * m.x22)
  let t142 := (t97 * m.x12)
  let t143 := (t93 * m.x02)
  let t144 := (t143 + t142)
  let t154 := ((t112 + t102) * (0 : α))
  let t155 := (t113 * m.x20)
  let t156 := (t110 * m.x10)
  let t161 := (t113 * m.x21)
  let t162 := (t110 * m.x11)
  let t8704 := (V3.length tmin sqrt ⟨m.x00, m.x01, m.x02⟩)
  let t8705 := (V3.length tmin sqrt ⟨m.x10, m.x11, m.x12⟩)
  let t8706 := (V3.length tmin sqrt ⟨m.x20, m.x21, m.x22⟩)
  let t8707 := (m.x20 / t8706)
  let t8708 := (m.x21 / t8706)
  let t8709 := (m.x22 / t8706)
  let t8710 := (atan2 m.x12 t8709)
  let t8711 := (-t8710)
  let t8712 := (cos t8711)
  let t8713 := (sin t8711)
  let t8716 := ((t72 * t8712) + (t73 * t8713))
  let t8719 := ((t66 * t8712) + (t77 * t8713))
  let t8720 := (t66 * t8713)
  let t8728 := ((0 : α) * t8720)
  let t8729 := ((0 : α) * t8719)
  let t8732 := ((((1 : α) * t8716) + t8729) + t8728)
  let t8734 := ((0 : α) * t8716)
  let t8736 := ((t8734 + ((1 : α) * t8719)) + t8728)
  let t8738 := (t8734 + t8729)
  let t8739 := (t8738 + ((1 : α) * t8720))
  let t8754 := (t100 * t8707)
  let t8756 := ((t132 + t8754) + t128)
  let t8757 := (t100 * t8708)
  let t8759 := ((t138 + t8757) + t128)
  let t8760 := (t100 * t8709)
  let t8763 := ((t8738 + t8728) * (0 : α))
  let t8764 := (t8739 * t8707)
  let t8765 := (t8736 * m.x10)
  let t8770 := (t8739 * t8708)
  let t8771 := (t8736 * m.x11)
  let t8832 := (m.x10 / t8705)
  let t8833 := (m.x11 / t8705)
  let t8834 := (m.x12 / t8705)
  let t8835 := (atan2 t8834 m.x22)
  let t8836 := (-t8835)
  let t8837 := (cos t8836)
  let t8838 := (sin t8836)
  let t8841 := ((t72 * t8837) + (t73 * t8838))
  let t8844 := ((t66 * t8837) + (t77 * t8838))
  let t8845 := (t66 * t8838)
  let t8853 := ((0 : α) * t8845)
  let t8854 := ((0 : α) * t8844)
  let t8857 := ((((1 : α) * t8841) + t8854) + t8853)
  let t8859 := ((0 : α) * t8841)
  let t8861 := ((t8859 + ((1 : α) * t8844)) + t8853)
  let t8863 := (t8859 + t8854)
  let t8864 := (t8863 + ((1 : α) * t8845))
  let t8879 := (t97 * t8832)
  let t8880 := (t131 + t8879)
  let t8882 := ((t8880 + t129) + t128)
  let t8883 := (t97 * t8833)
  let t8884 := (t137 + t8883)
  let t8886 := ((t8884 + t135) + t128)
  let t8887 := (t97 * t8834)
  let t8888 := (t143 + t8887)
  let t8891 := ((t8863 + t8853) * (0 : α))
  let t8892 := (t8864 * m.x20)
  let t8893 := (t8861 * t8832)
  let t8898 := (t8864 * m.x21)
  let t8899 := (t8861 * t8833)
  let t8963 := (atan2 t8834 t8709)
  let t8964 := (-t8963)
  let t8965 := (cos t8964)
  let t8966 := (sin t8964)
  let t8969 := ((t72 * t8965) + (t73 * t8966))
  let t8972 := ((t66 * t8965) + (t77 * t8966))
  let t8973 := (t66 * t8966)
  let t8981 := ((0 : α) * t8973)
  let t8982 := ((0 : α) * t8972)
  let t8985 := ((((1 : α) * t8969) + t8982) + t8981)
  let t8987 := ((0 : α) * t8969)
  let t8989 := ((t8987 + ((1 : α) * t8972)) + t8981)
  let t8991 := (t8987 + t8982)
  let t8992 := (t8991 + ((1 : α) * t8973))
  let t9008 := ((t8880 + t8754) + t128)
  let t9010 := ((t8884 + t8757) + t128)
  let t9013 := ((t8991 + t8981) * (0 : α))
  let t9014 := (t8992 * t8707)
  let t9015 := (t8989 * t8832)
  let t9020 := (t8992 * t8708)
  let t9021 := (t8989 * t8833)
  let t9079 := (m.x00 / t8704)
  let t9080 := (m.x01 / t8704)
  let t9082 := (t93 * t9079)
  let t9083 := (t9082 + t130)
  let t9085 := ((t9083 + t129) + t128)
  let t9086 := (t93 * t9080)
  let t9087 := (t9086 + t136)
  let t9089 := ((t9087 + t135) + t128)
  let t9090 := (t93 * (m.x02 / t8704))
  let t9091 := (t9090 + t142)
  let t9139 := ((t9083 + t8754) + t128)
  let t9141 := ((t9087 + t8757) + t128)
  let t9182 := (t9082 + t8879)
  let t9184 := ((t9182 + t129) + t128)
  let t9185 := (t9086 + t8883)
  let t9187 := ((t9185 + t135) + t128)
  let t9188 := (t9090 + t8887)
  let t9233 := ((t9182 + t8754) + t128)
  let t9235 := ((t9185 + t8757) + t128)
  if t8704 = (0 : α) then
    if t8705 = (0 : α) then
      if t8706 = (0 : α) then
        ⟨t64, (atan2 (-((t144 + t141) + t128)) (sqrt ((t134 * t134) + (t140 * t140)))), (atan2 (-((((t106 * m.x00) + t156) + t155) + t154)) ((((t106 * m.x01) + t162) + t161) + t154))⟩
      else
        ⟨t8710, (atan2 (-((t144 + t8760) + t128)) (sqrt ((t8756 * t8756) + (t8759 * t8759)))), (atan2 (-((((t8732 * m.x00) + t8765) + t8764) + t8763)) ((((t8732 * m.x01) + t8771) + t8770) + t8763))⟩
    else
      if t8706 = (0 : α) then
        ⟨t8835, (atan2 (-((t8888 + t141) + t128)) (sqrt ((t8882 * t8882) + (t8886 * t8886)))), (atan2 (-((((t8857 * m.x00) + t8893) + t8892) + t8891)) ((((t8857 * m.x01) + t8899) + t8898) + t8891))⟩
      else
        ⟨t8963, (atan2 (-((t8888 + t8760) + t128)) (sqrt ((t9008 * t9008) + (t9010 * t9010)))), (atan2 (-((((t8985 * m.x00) + t9015) + t9014) + t9013)) ((((t8985 * m.x01) + t9021) + t9020) + t9013))⟩
  else
    if t8705 = (0 : α) then
      if t8706 = (0 : α) then
        ⟨t64, (atan2 (-((t9091 + t141) + t128)) (sqrt ((t9085 * t9085) + (t9089 * t9089)))), (atan2 (-((((t106 * t9079) + t156) + t155) + t154)) ((((t106 * t9080) + t162) + t161) + t154))⟩
      else
        ⟨t8710, (atan2 (-((t9091 + t8760) + t128)) (sqrt ((t9139 * t9139) + (t9141 * t9141)))), (atan2 (-((((t8732 * t9079) + t8765) + t8764) + t8763)) ((((t8732 * t9080) + t8771) + t8770) + t8763))⟩
    else
      if t8706 = (0 : α) then
        ⟨t8835, (atan2 (-((t9188 + t141) + t128)) (sqrt ((t9184 * t9184) + (t9187 * t9187)))), (atan2 (-((((t8857 * t9079) + t8893) + t8892) + t8891)) ((((t8857 * t9080) + t8899) + t8898) + t8891))⟩
      else
        ⟨t8963, (atan2 (-((t9188 + t8760) + t128)) (sqrt ((t9233 * t9233) + (t9235 * t9235)))), (atan2 (-((((t8985 * t9079) + t9015) + t9014) + t9013)) ((((t8985 * t9080) + t9021) + t9020) + t9013))⟩

/-- extracted from the C++ template at T = Sym; 8 path(s) -/
def Euler.extractEulerZYX {α : Type} [Add α] [Mul α] [Div α] [Neg α] [LT α] [LE α] [DecidableLT α] [DecidableLE α] [DecidableEq α] [OfNat α 0] [OfNat α 1] [OfNat α 2] (tmin : α) (sqrt : α → α) (sin : α → α) (cos : α → α) (atan2 : α → α → α) (m : M44 α) : (V3 α) :=
  let t66 := (cos (0 : α))
  let t68 := (sin (0 : α))
  let t70 := (t66 * t66)
  let t72 := (-t68)
  let t73 := (t66 * t68)
  let t91 := ((1 : α) * t70)
  let t95 := ((0 : α) * t70)
  let t2420 := ((0 : α) * t73)
  let t2429 := ((1 : α) * t73)
  let t8704 := (V3.length tmin sqrt ⟨m.x00, m.x01, m.x02⟩)
  let t8705 := (V3.length tmin sqrt ⟨m.x10, m.x11, m.x12⟩)
  let t8706 := (V3.length tmin sqrt ⟨m.x20, m.x21, m.x22⟩)
  let t8707 := (m.x20 / t8706)
  let t8708 := (m.x21 / t8706)
  let t8709 := (m.x22 / t8706)
  let t8832 := (m.x10 / t8705)
  let t8833 := (m.x11 / t8705)
  let t8834 := (m.x12 / t8705)
  let t9079 := (m.x00 / t8704)
  let t9080 := (m.x01 / t8704)
  let t9081 := (m.x02 / t8704)
  let t9276 := (-(atan2 m.x10 m.x00))
  let t9277 := (-t9276)
  let t9278 := (cos t9277)
  let t9279 := (sin t9277)
  let t9282 := (t9278 * t68)
  let t9284 := (-t9279)
  let t9286 := ((t9284 * t66) + (t9282 * t68))
  let t9287 := (t9279 * t68)
  let t9289 := ((t9278 * t66) + (t9287 * t68))
  let t9292 := ((t9284 * t72) + (t9282 * t66))
  let t9295 := ((t9278 * t72) + (t9287 * t66))
  let t9307 := ((0 : α) * t9289)
  let t9310 := ((((1 : α) * t9286) + t9307) + t2420)
  let t9312 := ((0 : α) * t9286)
  let t9314 := ((t9312 + ((1 : α) * t9289)) + t2420)
  let t9315 := (t9312 + t9307)
  let t9316 := (t9315 + t2429)
  let t9318 := ((0 : α) * t9295)
  let t9321 := ((((1 : α) * t9292) + t9318) + t95)
  let t9323 := ((0 : α) * t9292)
  let t9325 := ((t9323 + ((1 : α) * t9295)) + t95)
  let t9326 := (t9323 + t9318)
  let t9327 := (t9326 + t91)
  let t9355 := ((t9315 + t2420) * (0 : α))
  let t9365 := ((t9310 * m.x01) + (t9314 * m.x11))
  let t9371 := ((t9310 * m.x02) + (t9314 * m.x12))
  let t9381 := ((t9326 + t95) * (0 : α))
  let t9385 := ((t9321 * m.x00) + (t9325 * m.x10))
  let t9391 := ((t9321 * m.x01) + (t9325 * m.x11))
  let t9393 := ((t9391 + (t9327 * m.x21)) + t9381)
  let t9397 := ((t9321 * m.x02) + (t9325 * m.x12))
  let t9399 := ((t9397 + (t9327 * m.x22)) + t9381)
  let t9440 := ((t9391 + (t9327 * t8708)) + t9381)
  let t9443 := ((t9397 + (t9327 * t8709)) + t9381)
  let t9455 := (-(atan2 t8832 m.x00))
  let t9456 := (-t9455)
  let t9457 := (cos t9456)
  let t9458 := (sin t9456)
  let t9461 := (t9457 * t68)
  let t9463 := (-t9458)
  let t9465 := ((t9463 * t66) + (t9461 * t68))
  let t9466 := (t9458 * t68)
  let t9468 := ((t9457 * t66) + (t9466 * t68))
  let t9471 := ((t9463 * t72) + (t9461 * t66))
  let t9474 := ((t9457 * t72) + (t9466 * t66))
  let t9486 := ((0 : α) * t9468)
  let t9489 := ((((1 : α) * t9465) + t9486) + t2420)
  let t9491 := ((0 : α) * t9465)
  let t9493 := ((t9491 + ((1 : α) * t9468)) + t2420)
  let t9494 := (t9491 + t9486)
  let t9495 := (t9494 + t2429)
  let t9497 := ((0 : α) * t9474)
  let t9500 := ((((1 : α) * t9471) + t9497) + t95)
  let t9502 := ((0 : α) * t9471)
  let t9504 := ((t9502 + ((1 : α) * t9474)) + t95)
  let t9505 := (t9502 + t9497)
  let t9506 := (t9505 + t91)
  let t9534 := ((t9494 + t2420) * (0 : α))
  let t9544 := ((t9489 * m.x01) + (t9493 * t8833))
  let t9550 := ((t9489 * m.x02) + (t9493 * t8834))
  let t9560 := ((t9505 + t95) * (0 : α))
  let t9564 := ((t9500 * m.x00) + (t9504 * t8832))
  let t9570 := ((t9500 * m.x01) + (t9504 * t8833))
  let t9572 := ((t9570 + (t9506 * m.x21)) + t9560)
  let t9576 := ((t9500 * m.x02) + (t9504 * t8834))
  let t9578 := ((t9576 + (t9506 * m.x22)) + t9560)
  let t9619 := ((t9570 + (t9506 * t8708)) + t9560)
  let t9622 := ((t9576 + (t9506 * t8709)) + t9560)
  let t9634 := (-(atan2 m.x10 t9079))
  let t9635 := (-t9634)
  let t9636 := (cos t9635)
  let t9637 := (sin t9635)
  let t9640 := (t9636 * t68)
  let t9642 := (-t9637)
  let t9644 := ((t9642 * t66) + (t9640 * t68))
  let t9645 := (t9637 * t68)
  let t9647 := ((t9636 * t66) + (t9645 * t68))
  let t9650 := ((t9642 * t72) + (t9640 * t66))
  let t9653 := ((t9636 * t72) + (t9645 * t66))
  let t9665 := ((0 : α) * t9647)
  let t9668 := ((((1 : α) * t9644) + t9665) + t2420)
  let t9670 := ((0 : α) * t9644)
  let t9672 := ((t9670 + ((1 : α) * t9647)) + t2420)
  let t9673 := (t9670 + t9665)
  let t9674 := (t9673 + t2429)
  let t9676 := ((0 : α) * t9653)
  let t9679 := ((((1 : α) * t9650) + t9676) + t95)
  let t9681 := ((0 : α) * t9650)
  let t9683 := ((t9681 + ((1 : α) * t9653)) + t95)
  let t9684 := (t9681 + t9676)
  let t9685 := (t9684 + t91)
  let t9713 := ((t9673 + t2420) * (0 : α))
  let t9723 := ((t9668 * t9080) + (t9672 * m.x11))
  let t9729 := ((t9668 * t9081) + (t9672 * m.x12))
  let t9739 := ((t9684 + t95) * (0 : α))
  let t9743 := ((t9679 * t9079) + (t9683 * m.x10))
  let t9749 := ((t9679 * t9080) + (t9683 * m.x11))
  let t9751 := ((t9749 + (t9685 * m.x21)) + t9739)
  let t9755 := ((t9679 * t9081) + (t9683 * m.x12))
  let t9757 := ((t9755 + (t9685 * m.x22)) + t9739)
  let t9798 := ((t9749 + (t9685 * t8708)) + t9739)
  let t9801 := ((t9755 + (t9685 * t8709)) + t9739)
  let t9813 := (-(atan2 t8832 t9079))
  let t9814 := (-t9813)
  let t9815 := (cos t9814)
  let t9816 := (sin t9814)
  let t9819 := (t9815 * t68)
  let t9821 := (-t9816)
  let t9823 := ((t9821 * t66) + (t9819 * t68))
  let t9824 := (t9816 * t68)
  let t9826 := ((t9815 * t66) + (t9824 * t68))
  let t9829 := ((t9821 * t72) + (t9819 * t66))
  let t9832 := ((t9815 * t72) + (t9824 * t66))
  let t9844 := ((0 : α) * t9826)
  let t9847 := ((((1 : α) * t9823) + t9844) + t2420)
  let t9849 := ((0 : α) * t9823)
  let t9851 := ((t9849 + ((1 : α) * t9826)) + t2420)
  let t9852 := (t9849 + t9844)
  let t9853 := (t9852 + t2429)
  let t9855 := ((0 : α) * t9832)
  let t9858 := ((((1 : α) * t9829) + t9855) + t95)
  let t9860 := ((0 : α) * t9829)
  let t9862 := ((t9860 + ((1 : α) * t9832)) + t95)
  let t9863 := (t9860 + t9855)
  let t9864 := (t9863 + t91)
  let t9892 := ((t9852 + t2420) * (0 : α))
  let t9902 := ((t9847 * t9080) + (t9851 * t8833))
  let t9908 := ((t9847 * t9081) + (t9851 * t8834))
  let t9918 := ((t9863 + t95) * (0 : α))
  let t9922 := ((t9858 * t9079) + (t9862 * t8832))
  let t9928 := ((t9858 * t9080) + (t9862 * t8833))
  let t9930 := ((t9928 + (t9864 * m.x21)) + t9918)
  let t9934 := ((t9858 * t9081) + (t9862 * t8834))
  let t9936 := ((t9934 + (t9864 * m.x22)) + t9918)
  let t9977 := ((t9928 + (t9864 * t8708)) + t9918)
  let t9980 := ((t9934 + (t9864 * t8709)) + t9918)
  if t8704 = (0 : α) then
    if t8705 = (0 : α) then
      if t8706 = (0 : α) then
        ⟨t9276, (-(atan2 (-((t9385 + (t9327 * m.x20)) + t9381)) (sqrt ((t9399 * t9399) + (t9393 * t9393))))), (-(atan2 (-((t9371 + (t9316 * m.x22)) + t9355)) ((t9365 + (t9316 * m.x21)) + t9355)))⟩
      else
        ⟨t9276, (-(atan2 (-((t9385 + (t9327 * t8707)) + t9381)) (sqrt ((t9443 * t9443) + (t9440 * t9440))))), (-(atan2 (-((t9371 + (t9316 * t8709)) + t9355)) ((t9365 + (t9316 * t8708)) + t9355)))⟩
    else
      if t8706 = (0 : α) then
        ⟨t9455, (-(atan2 (-((t9564 + (t9506 * m.x20)) + t9560)) (sqrt ((t9578 * t9578) + (t9572 * t9572))))), (-(atan2 (-((t9550 + (t9495 * m.x22)) + t9534)) ((t9544 + (t9495 * m.x21)) + t9534)))⟩
      else
        ⟨t9455, (-(atan2 (-((t9564 + (t9506 * t8707)) + t9560)) (sqrt ((t9622 * t9622) + (t9619 * t9619))))), (-(atan2 (-((t9550 + (t9495 * t8709)) + t9534)) ((t9544 + (t9495 * t8708)) + t9534)))⟩
  else
    if t8705 = (0 : α) then
      if t8706 = (0 : α) then
        ⟨t9634, (-(atan2 (-((t9743 + (t9685 * m.x20)) + t9739)) (sqrt ((t9757 * t9757) + (t9751 * t9751))))), (-(atan2 (-((t9729 + (t9674 * m.x22)) + t9713)) ((t9723 + (t9674 * m.x21)) + t9713)))⟩
      else
        ⟨t9634, (-(atan2 (-((t9743 + (t9685 * t8707)) + t9739)) (sqrt ((t9801 * t9801) + (t9798 * t9798))))), (-(atan2 (-((t9729 + (t9674 * t8709)) + t9713)) ((t9723 + (t9674 * t8708)) + t9713)))⟩
    else
      if t8706 = (0 : α) then
        ⟨t9813, (-(atan2 (-((t9922 + (t9864 * m.x20)) + t9918)) (sqrt ((t9936 * t9936) + (t9930 * t9930))))), (-(atan2 (-((t9908 + (t9853 * m.x22)) + t9892)) ((t9902 + (t9853 * m.x21)) + t9892)))⟩
      else
        ⟨t9813, (-(atan2 (-((t9922 + (t9864 * t8707)) + t9918)) (sqrt ((t9980 * t9980) + (t9977 * t9977))))), (-(atan2 (-((t9908 + (t9853 * t8709)) + t9892)) ((t9902 + (t9853 * t8708)) + t9892)))⟩

/-- extracted from the C++ template at T = Sym; 4 path(s) -/
def Euler.extractEuler22 {α : Type} [Add α] [Mul α] [Div α] [Neg α] [LT α] [DecidableLT α] [DecidableEq α] [OfNat α 0] [OfNat α 2] (tmin : α) (sqrt : α → α) (atan2 : α → α → α) (m : M22 α) : α :=
  let t9991 := (V2.length tmin sqrt ⟨m.x00, m.x01⟩)
  let t9992 := (V2.length tmin sqrt ⟨m.x10, m.x11⟩)
  let t9993 := (m.x10 / t9992)
  let t9997 := (m.x00 / t9991)
  if t9991 = (0 : α) then
    if t9992 = (0 : α) then
      (-(atan2 m.x10 m.x00))
    else
      (-(atan2 t9993 m.x00))
  else
    if t9992 = (0 : α) then
      (-(atan2 m.x10 t9997))
    else
      (-(atan2 t9993 t9997))

/-- extracted from the C++ template at T = Sym; 4 path(s) -/
def Euler.extractEuler33 {α : Type} [Add α] [Mul α] [Div α] [Neg α] [LT α] [DecidableLT α] [DecidableEq α] [OfNat α 0] [OfNat α 2] (tmin : α) (sqrt : α → α) (atan2 : α → α → α) (m : M33 α) : α :=
  let t9991 := (V2.length tmin sqrt ⟨m.x00, m.x01⟩)
  let t9992 := (V2.length tmin sqrt ⟨m.x10, m.x11⟩)
  let t9993 := (m.x10 / t9992)
  let t9997 := (m.x00 / t9991)
  if t9991 = (0 : α) then
    if t9992 = (0 : α) then
      (-(atan2 m.x10 m.x00))
    else
      (-(atan2 t9993 m.x00))
  else
    if t9992 = (0 : α) then
      (-(atan2 m.x10 t9997))
    else
      (-(atan2 t9993 t9997))

/-- extracted from the C++ template at T = Sym; 1 path(s) -/
def Euler.simpleXYZRotation {α : Type} [Add α] [Sub α] (angleMod : α → α) (xyzRot : V3 α) (target : V3 α) : (V3 α) :=
  ⟨(target.x + (angleMod (xyzRot.x - target.x))), (target.y + (angleMod (xyzRot.y - target.y))), (target.z + (angleMod (xyzRot.z - target.z)))⟩

/-- extracted from the C++ template at T = Sym; 2 path(s) -/
def Euler.nearestRotation_XYZ {α : Type} [Add α] [Sub α] [Mul α] [Div α] [LT α] [DecidableLT α] [OfNat α 281474976710656] [OfNat α 884279719003555] (angleMod : α → α) (xyzRot : V3 α) (target : V3 α) : (V3 α) :=
  let t10013 := (target.x + (angleMod (xyzRot.x - target.x)))
  let t10015 := (target.y + (angleMod (xyzRot.y - target.y)))
  let t10017 := (target.z + (angleMod (xyzRot.z - target.z)))
  let t10026 := (target.x + (angleMod ((((884279719003555 : α) / (281474976710656 : α)) + t10013) - target.x)))
  let t10028 := (target.y + (angleMod ((((884279719003555 : α) / (281474976710656 : α)) - t10015) - target.y)))
  let t10030 := (target.z + (angleMod ((((884279719003555 : α) / (281474976710656 : α)) + t10017) - target.z)))
  let t10031 := (t10017 - target.z)
  let t10032 := (t10015 - target.y)
  let t10033 := (t10013 - target.x)
  let t10034 := (t10030 - target.z)
  let t10035 := (t10028 - target.y)
  let t10036 := (t10026 - target.x)
  let t10041 := (((t10033 * t10033) + (t10032 * t10032)) + (t10031 * t10031))
  let t10046 := (((t10036 * t10036) + (t10035 * t10035)) + (t10034 * t10034))
  if t10046 < t10041 then
    ⟨t10026, t10028, t10030⟩
  else
    ⟨t10013, t10015, t10017⟩

/-- extracted from the C++ template at T = Sym; 2 path(s) -/
def Euler.makeNear_XYZ {α : Type} [Add α] [Sub α] [Mul α] [Div α] [LT α] [DecidableLT α] [OfNat α 281474976710656] [OfNat α 884279719003555] (angleMod : α → α) (a : V3 α) (t : V3 α) : ((V3 α) × Int) :=
  let t10054 := (t.x + (angleMod (a.x - t.x)))
  let t10056 := (t.y + (angleMod (a.y - t.y)))
  let t10058 := (t.z + (angleMod (a.z - t.z)))
  let t10066 := (t.x + (angleMod ((((884279719003555 : α) / (281474976710656 : α)) + t10054) - t.x)))
  let t10068 := (t.y + (angleMod ((((884279719003555 : α) / (281474976710656 : α)) - t10056) - t.y)))
  let t10070 := (t.z + (angleMod ((((884279719003555 : α) / (281474976710656 : α)) + t10058) - t.z)))
  let t10071 := (t10058 - t.z)
  let t10072 := (t10056 - t.y)
  let t10073 := (t10054 - t.x)
  let t10074 := (t10070 - t.z)
  let t10075 := (t10068 - t.y)
  let t10076 := (t10066 - t.x)
  let t10081 := (((t10073 * t10073) + (t10072 * t10072)) + (t10071 * t10071))
  let t10086 := (((t10076 * t10076) + (t10075 * t10075)) + (t10074 * t10074))
  if t10086 < t10081 then
    (⟨t10066, t10068, t10070⟩, (257 : Int))
  else
    (⟨t10054, t10056, t10058⟩, (257 : Int))

/-- extracted from the C++ template at T = Sym; 2 path(s) -/
def Euler.nearestRotation_XZY {α : Type} [Add α] [Sub α] [Mul α] [Div α] [LT α] [DecidableLT α] [OfNat α 281474976710656] [OfNat α 884279719003555] (angleMod : α → α) (xyzRot : V3 α) (target : V3 α) : (V3 α) :=
  let t10013 := (target.x + (angleMod (xyzRot.x - target.x)))
  let t10015 := (target.y + (angleMod (xyzRot.y - target.y)))
  let t10017 := (target.z + (angleMod (xyzRot.z - target.z)))
  let t10026 := (target.x + (angleMod ((((884279719003555 : α) / (281474976710656 : α)) + t10013) - target.x)))
  let t10031 := (t10017 - target.z)
  let t10032 := (t10015 - target.y)
  let t10033 := (t10013 - target.x)
  let t10036 := (t10026 - target.x)
  let t10041 := (((t10033 * t10033) + (t10032 * t10032)) + (t10031 * t10031))
  let t10092 := (target.y + (angleMod ((((884279719003555 : α) / (281474976710656 : α)) + t10015) - target.y)))
  let t10094 := (target.z + (angleMod ((((884279719003555 : α) / (281474976710656 : α)) - t10017) - target.z)))
  let t10095 := (t10094 - target.z)
  let t10096 := (t10092 - target.y)
  let t10100 := (((t10036 * t10036) + (t10096 * t10096)) + (t10095 * t10095))
  if t10100 < t10041 then
    ⟨t10026, t10092, t10094⟩
  else
    ⟨t10013, t10015, t10017⟩

/-- extracted from the C++ template at T = Sym; 2 path(s) -/
def Euler.makeNear_XZY {α : Type} [Add α] [Sub α] [Mul α] [Div α] [LT α] [DecidableLT α] [OfNat α 281474976710656] [OfNat α 884279719003555] (angleMod : α → α) (a : V3 α) (t : V3 α) : ((V3 α) × Int) :=
  let t10054 := (t.x + (angleMod (a.x - t.x)))
  let t10056 := (t.y + (angleMod (a.y - t.y)))
  let t10058 := (t.z + (angleMod (a.z - t.z)))
  let t10066 := (t.x + (angleMod ((((884279719003555 : α) / (281474976710656 : α)) + t10054) - t.x)))
  let t10068 := (t.y + (angleMod ((((884279719003555 : α) / (281474976710656 : α)) - t10056) - t.y)))
  let t10070 := (t.z + (angleMod ((((884279719003555 : α) / (281474976710656 : α)) + t10058) - t.z)))
  let t10071 := (t10058 - t.z)
  let t10072 := (t10056 - t.y)
  let t10073 := (t10054 - t.x)
  let t10074 := (t10070 - t.z)
  let t10075 := (t10068 - t.y)
  let t10076 := (t10066 - t.x)
  let t10102 := (((t10073 * t10073) + (t10071 * t10071)) + (t10072 * t10072))
  let t10104 := (((t10076 * t10076) + (t10074 * t10074)) + (t10075 * t10075))
  if t10104 < t10102 then
    (⟨t10066, t10068, t10070⟩, (1 : Int))
  else
    (⟨t10054, t10056, t10058⟩, (1 : Int))

/-- extracted from the C++ template at T = Sym; 2 path(s) -/
def Euler.nearestRotation_YZX {α : Type} [Add α] [Sub α] [Mul α] [Div α] [LT α] [DecidableLT α] [OfNat α 281474976710656] [OfNat α 884279719003555] (angleMod : α → α) (xyzRot : V3 α) (target : V3 α) : (V3 α) :=
  let t10013 := (target.x + (angleMod (xyzRot.x - target.x)))
  let t10015 := (target.y + (angleMod (xyzRot.y - target.y)))
  let t10017 := (target.z + (angleMod (xyzRot.z - target.z)))
  let t10026 := (target.x + (angleMod ((((884279719003555 : α) / (281474976710656 : α)) + t10013) - target.x)))
  let t10031 := (t10017 - target.z)
  let t10032 := (t10015 - target.y)
  let t10033 := (t10013 - target.x)
  let t10036 := (t10026 - target.x)
  let t10041 := (((t10033 * t10033) + (t10032 * t10032)) + (t10031 * t10031))
  let t10092 := (target.y + (angleMod ((((884279719003555 : α) / (281474976710656 : α)) + t10015) - target.y)))
  let t10094 := (target.z + (angleMod ((((884279719003555 : α) / (281474976710656 : α)) - t10017) - target.z)))
  let t10095 := (t10094 - target.z)
  let t10096 := (t10092 - target.y)
  let t10100 := (((t10036 * t10036) + (t10096 * t10096)) + (t10095 * t10095))
  if t10100 < t10041 then
    ⟨t10026, t10092, t10094⟩
  else
    ⟨t10013, t10015, t10017⟩

/-- extracted from the C++ template at T = Sym; 2 path(s) -/
def Euler.makeNear_YZX {α : Type} [Add α] [Sub α] [Mul α] [Div α] [LT α] [DecidableLT α] [OfNat α 281474976710656] [OfNat α 884279719003555] (angleMod : α → α) (a : V3 α) (t : V3 α) : ((V3 α) × Int) :=
  let t10054 := (t.x + (angleMod (a.x - t.x)))
  let t10056 := (t.y + (angleMod (a.y - t.y)))
  let t10058 := (t.z + (angleMod (a.z - t.z)))
  let t10066 := (t.x + (angleMod ((((884279719003555 : α) / (281474976710656 : α)) + t10054) - t.x)))
  let t10068 := (t.y + (angleMod ((((884279719003555 : α) / (281474976710656 : α)) - t10056) - t.y)))
  let t10070 := (t.z + (angleMod ((((884279719003555 : α) / (281474976710656 : α)) + t10058) - t.z)))
  let t10071 := (t10058 - t.z)
  let t10072 := (t10056 - t.y)
  let t10073 := (t10054 - t.x)
  let t10074 := (t10070 - t.z)
  let t10075 := (t10068 - t.y)
  let t10076 := (t10066 - t.x)
  let t10106 := (((t10071 * t10071) + (t10073 * t10073)) + (t10072 * t10072))
  let t10108 := (((t10074 * t10074) + (t10076 * t10076)) + (t10075 * t10075))
  if t10108 < t10106 then
    (⟨t10066, t10068, t10070⟩, (4353 : Int))
  else
    (⟨t10054, t10056, t10058⟩, (4353 : Int))

/-- extracted from the C++ template at T = Sym; 2 path(s) -/
def Euler.nearestRotation_YXZ {α : Type} [Add α] [Sub α] [Mul α] [Div α] [LT α] [DecidableLT α] [OfNat α 281474976710656] [OfNat α 884279719003555] (angleMod : α → α) (xyzRot : V3 α) (target : V3 α) : (V3 α) :=
  let t10013 := (target.x + (angleMod (xyzRot.x - target.x)))
  let t10015 := (target.y + (angleMod (xyzRot.y - target.y)))
  let t10017 := (target.z + (angleMod (xyzRot.z - target.z)))
  let t10030 := (target.z + (angleMod ((((884279719003555 : α) / (281474976710656 : α)) + t10017) - target.z)))
  let t10031 := (t10017 - target.z)
  let t10032 := (t10015 - target.y)
  let t10033 := (t10013 - target.x)
  let t10034 := (t10030 - target.z)
  let t10041 := (((t10033 * t10033) + (t10032 * t10032)) + (t10031 * t10031))
  let t10092 := (target.y + (angleMod ((((884279719003555 : α) / (281474976710656 : α)) + t10015) - target.y)))
  let t10096 := (t10092 - target.y)
  let t10112 := (target.x + (angleMod ((((884279719003555 : α) / (281474976710656 : α)) - t10013) - target.x)))
  let t10113 := (t10112 - target.x)
  let t10116 := (((t10113 * t10113) + (t10096 * t10096)) + (t10034 * t10034))
  if t10116 < t10041 then
    ⟨t10112, t10092, t10030⟩
  else
    ⟨t10013, t10015, t10017⟩

/-- extracted from the C++ template at T = Sym; 2 path(s) -/
def Euler.makeNear_YXZ {α : Type} [Add α] [Sub α] [Mul α] [Div α] [LT α] [DecidableLT α] [OfNat α 281474976710656] [OfNat α 884279719003555] (angleMod : α → α) (a : V3 α) (t : V3 α) : ((V3 α) × Int) :=
  let t10054 := (t.x + (angleMod (a.x - t.x)))
  let t10056 := (t.y + (angleMod (a.y - t.y)))
  let t10058 := (t.z + (angleMod (a.z - t.z)))
  let t10066 := (t.x + (angleMod ((((884279719003555 : α) / (281474976710656 : α)) + t10054) - t.x)))
  let t10068 := (t.y + (angleMod ((((884279719003555 : α) / (281474976710656 : α)) - t10056) - t.y)))
  let t10070 := (t.z + (angleMod ((((884279719003555 : α) / (281474976710656 : α)) + t10058) - t.z)))
  let t10071 := (t10058 - t.z)
  let t10072 := (t10056 - t.y)
  let t10073 := (t10054 - t.x)
  let t10074 := (t10070 - t.z)
  let t10075 := (t10068 - t.y)
  let t10076 := (t10066 - t.x)
  let t10118 := (((t10072 * t10072) + (t10073 * t10073)) + (t10071 * t10071))
  let t10120 := (((t10075 * t10075) + (t10076 * t10076)) + (t10074 * t10074))
  if t10120 < t10118 then
    (⟨t10066, t10068, t10070⟩, (4097 : Int))
  else
    (⟨t10054, t10056, t10058⟩, (4097 : Int))

/-- extracted from the C++ template at T = Sym; 2 path(s) -/
def Euler.nearestRotation_ZXY {α : Type} [Add α] [Sub α] [Mul α] [Div α] [LT α] [DecidableLT α] [OfNat α 281474976710656] [OfNat α 884279719003555] (angleMod : α → α) (xyzRot : V3 α) (target : V3 α) : (V3 α) :=
  let t10013 := (target.x + (angleMod (xyzRot.x - target.x)))
  let t10015 := (target.y + (angleMod (xyzRot.y - target.y)))
  let t10017 := (target.z + (angleMod (xyzRot.z - target.z)))
  let t10030 := (target.z + (angleMod ((((884279719003555 : α) / (281474976710656 : α)) + t10017) - target.z)))
  let t10031 := (t10017 - target.z)
  let t10032 := (t10015 - target.y)
  let t10033 := (t10013 - target.x)
  let t10034 := (t10030 - target.z)
  let t10041 := (((t10033 * t10033) + (t10032 * t10032)) + (t10031 * t10031))
  let t10092 := (target.y + (angleMod ((((884279719003555 : α) / (281474976710656 : α)) + t10015) - target.y)))
  let t10096 := (t10092 - target.y)
  let t10112 := (target.x + (angleMod ((((884279719003555 : α) / (281474976710656 : α)) - t10013) - target.x)))
  let t10113 := (t10112 - target.x)
  let t10116 := (((t10113 * t10113) + (t10096 * t10096)) + (t10034 * t10034))
  if t10116 < t10041 then
    ⟨t10112, t10092, t10030⟩
  else
    ⟨t10013, t10015, t10017⟩

/-- extracted from the C++ template at T = Sym; 2 path(s) -/
def Euler.makeNear_ZXY {α : Type} [Add α] [Sub α] [Mul α] [Div α] [LT α] [DecidableLT α] [OfNat α 281474976710656] [OfNat α 884279719003555] (angleMod : α → α) (a : V3 α) (t : V3 α) : ((V3 α) × Int) :=
  let t10054 := (t.x + (angleMod (a.x - t.x)))
  let t10056 := (t.y + (angleMod (a.y - t.y)))
  let t10058 := (t.z + (angleMod (a.z - t.z)))
  let t10066 := (t.x + (angleMod ((((884279719003555 : α) / (281474976710656 : α)) + t10054) - t.x)))
  let t10068 := (t.y + (angleMod ((((884279719003555 : α) / (281474976710656 : α)) - t10056) - t.y)))
  let t10070 := (t.z + (angleMod ((((884279719003555 : α) / (281474976710656 : α)) + t10058) - t.z)))
  let t10071 := (t10058 - t.z)
  let t10072 := (t10056 - t.y)
  let t10073 := (t10054 - t.x)
  let t10074 := (t10070 - t.z)
  let t10075 := (t10068 - t.y)
  let t10076 := (t10066 - t.x)
  let t10122 := (((t10072 * t10072) + (t10071 * t10071)) + (t10073 * t10073))
  let t10124 := (((t10075 * t10075) + (t10074 * t10074)) + (t10076 * t10076))
  if t10124 < t10122 then
    (⟨t10066, t10068, t10070⟩, (8449 : Int))
  else
    (⟨t10054, t10056, t10058⟩, (8449 : Int))

/-- extracted from the C++ template at T = Sym; 2 path(s) -/
def Euler.nearestRotation_ZYX {α : Type} [Add α] [Sub α] [Mul α] [Div α] [LT α] [DecidableLT α] [OfNat α 281474976710656] [OfNat α 884279719003555] (angleMod : α → α) (xyzRot : V3 α) (target : V3 α) : (V3 α) :=
  let t10013 := (target.x + (angleMod (xyzRot.x - target.x)))
  let t10015 := (target.y + (angleMod (xyzRot.y - target.y)))
  let t10017 := (target.z + (angleMod (xyzRot.z - target.z)))
  let t10026 := (target.x + (angleMod ((((884279719003555 : α) / (281474976710656 : α)) + t10013) - target.x)))
  let t10028 := (target.y + (angleMod ((((884279719003555 : α) / (281474976710656 : α)) - t10015) - target.y)))
  let t10030 := (target.z + (angleMod ((((884279719003555 : α) / (281474976710656 : α)) + t10017) - target.z)))
  let t10031 := (t10017 - target.z)
  let t10032 := (t10015 - target.y)
  let t10033 := (t10013 - target.x)
  let t10034 := (t10030 - target.z)
  let t10035 := (t10028 - target.y)
  let t10036 := (t10026 - target.x)
  let t10041 := (((t10033 * t10033) + (t10032 * t10032)) + (t10031 * t10031))
  let t10046 := (((t10036 * t10036) + (t10035 * t10035)) + (t10034 * t10034))
  if t10046 < t10041 then
    ⟨t10026, t10028, t10030⟩
  else
    ⟨t10013, t10015, t10017⟩

/-- extracted from the C++ template at T = Sym; 2 path(s) -/
def Euler.makeNear_ZYX {α : Type} [Add α] [Sub α] [Mul α] [Div α] [LT α] [DecidableLT α] [OfNat α 281474976710656] [OfNat α 884279719003555] (angleMod : α → α) (a : V3 α) (t : V3 α) : ((V3 α) × Int) :=
  let t10054 := (t.x + (angleMod (a.x - t.x)))
  let t10056 := (t.y + (angleMod (a.y - t.y)))
  let t10058 := (t.z + (angleMod (a.z - t.z)))
  let t10066 := (t.x + (angleMod ((((884279719003555 : α) / (281474976710656 : α)) + t10054) - t.x)))
  let t10068 := (t.y + (angleMod ((((884279719003555 : α) / (281474976710656 : α)) - t10056) - t.y)))
  let t10070 := (t.z + (angleMod ((((884279719003555 : α) / (281474976710656 : α)) + t10058) - t.z)))
  let t10071 := (t10058 - t.z)
  let t10072 := (t10056 - t.y)
  let t10073 := (t10054 - t.x)
  let t10074 := (t10070 - t.z)
  let t10075 := (t10068 - t.y)
  let t10076 := (t10066 - t.x)
  let t10126 := (((t10071 * t10071) + (t10072 * t10072)) + (t10073 * t10073))
  let t10128 := (((t10074 * t10074) + (t10075 * t10075)) + (t10076 * t10076))
  if t10128 < t10126 then
    (⟨t10066, t10068, t10070⟩, (8193 : Int))
  else
    (⟨t10054, t10056, t10058⟩, (8193 : Int))

/-- extracted from the C++ template at T = Sym; 2 path(s) -/
def Euler.nearestRotation_XZX {α : Type} [Add α] [Sub α] [Mul α] [Div α] [LT α] [DecidableLT α] [OfNat α 281474976710656] [OfNat α 884279719003555] (angleMod : α → α) (xyzRot : V3 α) (target : V3 α) : (V3 α) :=
  let t10013 := (target.x + (angleMod (xyzRot.x - target.x)))
  let t10015 := (target.y + (angleMod (xyzRot.y - target.y)))
  let t10017 := (target.z + (angleMod (xyzRot.z - target.z)))
  let t10026 := (target.x + (angleMod ((((884279719003555 : α) / (281474976710656 : α)) + t10013) - target.x)))
  let t10031 := (t10017 - target.z)
  let t10032 := (t10015 - target.y)
  let t10033 := (t10013 - target.x)
  let t10036 := (t10026 - target.x)
  let t10041 := (((t10033 * t10033) + (t10032 * t10032)) + (t10031 * t10031))
  let t10092 := (target.y + (angleMod ((((884279719003555 : α) / (281474976710656 : α)) + t10015) - target.y)))
  let t10094 := (target.z + (angleMod ((((884279719003555 : α) / (281474976710656 : α)) - t10017) - target.z)))
  let t10095 := (t10094 - target.z)
  let t10096 := (t10092 - target.y)
  let t10100 := (((t10036 * t10036) + (t10096 * t10096)) + (t10095 * t10095))
  if t10100 < t10041 then
    ⟨t10026, t10092, t10094⟩
  else
    ⟨t10013, t10015, t10017⟩

/-- extracted from the C++ template at T = Sym; 2 path(s) -/
def Euler.makeNear_XZX {α : Type} [Add α] [Sub α] [Mul α] [Div α] [LT α] [DecidableLT α] [OfNat α 281474976710656] [OfNat α 884279719003555] (angleMod : α → α) (a : V3 α) (t : V3 α) : ((V3 α) × Int) :=
  let t10054 := (t.x + (angleMod (a.x - t.x)))
  let t10056 := (t.y + (angleMod (a.y - t.y)))
  let t10058 := (t.z + (angleMod (a.z - t.z)))
  let t10066 := (t.x + (angleMod ((((884279719003555 : α) / (281474976710656 : α)) + t10054) - t.x)))
  let t10068 := (t.y + (angleMod ((((884279719003555 : α) / (281474976710656 : α)) - t10056) - t.y)))
  let t10070 := (t.z + (angleMod ((((884279719003555 : α) / (281474976710656 : α)) + t10058) - t.z)))
  let t10071 := (t10058 - t.z)
  let t10072 := (t10056 - t.y)
  let t10073 := (t10054 - t.x)
  let t10074 := (t10070 - t.z)
  let t10075 := (t10068 - t.y)
  let t10076 := (t10066 - t.x)
  let t10102 := (((t10073 * t10073) + (t10071 * t10071)) + (t10072 * t10072))
  let t10104 := (((t10076 * t10076) + (t10074 * t10074)) + (t10075 * t10075))
  if t10104 < t10102 then
    (⟨t10066, t10068, t10070⟩, (17 : Int))
  else
    (⟨t10054, t10056, t10058⟩, (17 : Int))

/-- extracted from the C++ template at T = Sym; 2 path(s) -/
def Euler.nearestRotation_XYX {α : Type} [Add α] [Sub α] [Mul α] [Div α] [LT α] [DecidableLT α] [OfNat α 281474976710656] [OfNat α 884279719003555] (angleMod : α → α) (xyzRot : V3 α) (target : V3 α) : (V3 α) :=
  let t10013 := (target.x + (angleMod (xyzRot.x - target.x)))
  let t10015 := (target.y + (angleMod (xyzRot.y - target.y)))
  let t10017 := (target.z + (angleMod (xyzRot.z - target.z)))
  let t10026 := (target.x + (angleMod ((((884279719003555 : α) / (281474976710656 : α)) + t10013) - target.x)))
  let t10028 := (target.y + (angleMod ((((884279719003555 : α) / (281474976710656 : α)) - t10015) - target.y)))
  let t10030 := (target.z + (angleMod ((((884279719003555 : α) / (281474976710656 : α)) + t10017) - target.z)))
  let t10031 := (t10017 - target.z)
  let t10032 := (t10015 - target.y)
  let t10033 := (t10013 - target.x)
  let t10034 := (t10030 - target.z)
  let t10035 := (t10028 - target.y)
  let t10036 := (t10026 - target.x)
  let t10041 := (((t10033 * t10033) + (t10032 * t10032)) + (t10031 * t10031))
  let t10046 := (((t10036 * t10036) + (t10035 * t10035)) + (t10034 * t10034))
  if t10046 < t10041 then
    ⟨t10026, t10028, t10030⟩
  else
    ⟨t10013, t10015, t10017⟩

/-- extracted from the C++ template at T = Sym; 2 path(s) -/
def Euler.makeNear_XYX {α : Type} [Add α] [Sub α] [Mul α] [Div α] [LT α] [DecidableLT α] [OfNat α 281474976710656] [OfNat α 884279719003555] (angleMod : α → α) (a : V3 α) (t : V3 α) : ((V3 α) × Int) :=
  let t10054 := (t.x + (angleMod (a.x - t.x)))
  let t10056 := (t.y + (angleMod (a.y - t.y)))
  let t10058 := (t.z + (angleMod (a.z - t.z)))
  let t10066 := (t.x + (angleMod ((((884279719003555 : α) / (281474976710656 : α)) + t10054) - t.x)))
  let t10068 := (t.y + (angleMod ((((884279719003555 : α) / (281474976710656 : α)) - t10056) - t.y)))
  let t10070 := (t.z + (angleMod ((((884279719003555 : α) / (281474976710656 : α)) + t10058) - t.z)))
  let t10071 := (t10058 - t.z)
  let t10072 := (t10056 - t.y)
  let t10073 := (t10054 - t.x)
  let t10074 := (t10070 - t.z)
  let t10075 := (t10068 - t.y)
  let t10076 := (t10066 - t.x)
  let t10081 := (((t10073 * t10073) + (t10072 * t10072)) + (t10071 * t10071))
  let t10086 := (((t10076 * t10076) + (t10075 * t10075)) + (t10074 * t10074))
  if t10086 < t10081 then
    (⟨t10066, t10068, t10070⟩, (273 : Int))
  else
    (⟨t10054, t10056, t10058⟩, (273 : Int))

/-- extracted from the C++ template at T = Sym; 2 path(s) -/
def Euler.nearestRotation_YXY {α : Type} [Add α] [Sub α] [Mul α] [Div α] [LT α] [DecidableLT α] [OfNat α 281474976710656] [OfNat α 884279719003555] (angleMod : α → α) (xyzRot : V3 α) (target : V3 α) : (V3 α) :=
  let t10013 := (target.x + (angleMod (xyzRot.x - target.x)))
  let t10015 := (target.y + (angleMod (xyzRot.y - target.y)))
  let t10017 := (target.z + (angleMod (xyzRot.z - target.z)))
  let t10030 := (target.z + (angleMod ((((884279719003555 : α) / (281474976710656 : α)) + t10017) - target.z)))
  let t10031 := (t10017 - target.z)
  let t10032 := (t10015 - target.y)
  let t10033 := (t10013 - target.x)
  let t10034 := (t10030 - target.z)
  let t10041 := (((t10033 * t10033) + (t10032 * t10032)) + (t10031 * t10031))
  let t10092 := (target.y + (angleMod ((((884279719003555 : α) / (281474976710656 : α)) + t10015) - target.y)))
  let t10096 := (t10092 - target.y)
  let t10112 := (target.x + (angleMod ((((884279719003555 : α) / (281474976710656 : α)) - t10013) - target.x)))
  let t10113 := (t10112 - target.x)
  let t10116 := (((t10113 * t10113) + (t10096 * t10096)) + (t10034 * t10034))
  if t10116 < t10041 then
    ⟨t10112, t10092, t10030⟩
  else
    ⟨t10013, t10015, t10017⟩

/-- extracted from the C++ template at T = Sym; 2 path(s) -/
def Euler.makeNear_YXY {α : Type} [Add α] [Sub α] [Mul α] [Div α] [LT α] [DecidableLT α] [OfNat α 281474976710656] [OfNat α 884279719003555] (angleMod : α → α) (a : V3 α) (t : V3 α) : ((V3 α) × Int) :=
  let t10054 := (t.x + (angleMod (a.x - t.x)))
  let t10056 := (t.y + (angleMod (a.y - t.y)))
  let t10058 := (t.z + (angleMod (a.z - t.z)))
  let t10066 := (t.x + (angleMod ((((884279719003555 : α) / (281474976710656 : α)) + t10054) - t.x)))
  let t10068 := (t.y + (angleMod ((((884279719003555 : α) / (281474976710656 : α)) - t10056) - t.y)))
  let t10070 := (t.z + (angleMod ((((884279719003555 : α) / (281474976710656 : α)) + t10058) - t.z)))
  let t10071 := (t10058 - t.z)
  let t10072 := (t10056 - t.y)
  let t10073 := (t10054 - t.x)
  let t10074 := (t10070 - t.z)
  let t10075 := (t10068 - t.y)
  let t10076 := (t10066 - t.x)
  let t10118 := (((t10072 * t10072) + (t10073 * t10073)) + (t10071 * t10071))
  let t10120 := (((t10075 * t10075) + (t10076 * t10076)) + (t10074 * t10074))
  if t10120 < t10118 then
    (⟨t10066, t10068, t10070⟩, (4113 : Int))
  else
    (⟨t10054, t10056, t10058⟩, (4113 : Int))

/-- extracted from the C++ template at T = Sym; 2 path(s) -/
def Euler.nearestRotation_YZY {α : Type} [Add α] [Sub α] [Mul α] [Div α] [LT α] [DecidableLT α] [OfNat α 281474976710656] [OfNat α 884279719003555] (angleMod : α → α) (xyzRot : V3 α) (target : V3 α) : (V3 α) :=
  let t10013 := (target.x + (angleMod (xyzRot.x - target.x)))
  let t10015 := (target.y + (angleMod (xyzRot.y - target.y)))
  let t10017 := (target.z + (angleMod (xyzRot.z - target.z)))
  let t10026 := (target.x + (angleMod ((((884279719003555 : α) / (281474976710656 : α)) + t10013) - target.x)))
  let t10031 := (t10017 - target.z)
  let t10032 := (t10015 - target.y)
  let t10033 := (t10013 - target.x)
  let t10036 := (t10026 - target.x)
  let t10041 := (((t10033 * t10033) + (t10032 * t10032)) + (t10031 * t10031))
  let t10092 := (target.y + (angleMod ((((884279719003555 : α) / (281474976710656 : α)) + t10015) - target.y)))
  let t10094 := (target.z + (angleMod ((((884279719003555 : α) / (281474976710656 : α)) - t10017) - target.z)))
  let t10095 := (t10094 - target.z)
  let t10096 := (t10092 - target.y)
  let t10100 := (((t10036 * t10036) + (t10096 * t10096)) + (t10095 * t10095))
  if t10100 < t10041 then
    ⟨t10026, t10092, t10094⟩
  else
    ⟨t10013, t10015, t10017⟩

/-- extracted from the C++ template at T = Sym; 2 path(s) -/
def Euler.makeNear_YZY {α : Type} [Add α] [Sub α] [Mul α] [Div α] [LT α] [DecidableLT α] [OfNat α 281474976710656] [OfNat α 884279719003555] (angleMod : α → α) (a : V3 α) (t : V3 α) : ((V3 α) × Int) :=
  let t10054 := (t.x + (angleMod (a.x - t.x)))
  let t10056 := (t.y + (angleMod (a.y - t.y)))
  let t10058 := (t.z + (angleMod (a.z - t.z)))
  let t10066 := (t.x + (angleMod ((((884279719003555 : α) / (281474976710656 : α)) + t10054) - t.x)))
  let t10068 := (t.y + (angleMod ((((884279719003555 : α) / (281474976710656 : α)) - t10056) - t.y)))
  let t10070 := (t.z + (angleMod ((((884279719003555 : α) / (281474976710656 : α)) + t10058) - t.z)))
  let t10071 := (t10058 - t.z)
  let t10072 := (t10056 - t.y)
  let t10073 := (t10054 - t.x)
  let t10074 := (t10070 - t.z)
  let t10075 := (t10068 - t.y)
  let t10076 := (t10066 - t.x)
  let t10106 := (((t10071 * t10071) + (t10073 * t10073)) + (t10072 * t10072))
  let t10108 := (((t10074 * t10074) + (t10076 * t10076)) + (t10075 * t10075))
  if t10108 < t10106 then
    (⟨t10066, t10068, t10070⟩, (4369 : Int))
  else
    (⟨t10054, t10056, t10058⟩, (4369 : Int))

/-- extracted from the C++ template at T = Sym; 2 path(s) -/
def Euler.nearestRotation_ZYZ {α : Type} [Add α] [Sub α] [Mul α] [Div α] [LT α] [DecidableLT α] [OfNat α 281474976710656] [OfNat α 884279719003555] (angleMod : α → α) (xyzRot : V3 α) (target : V3 α) : (V3 α) :=
  let t10013 := (target.x + (angleMod (xyzRot.x - target.x)))
  let t10015 := (target.y + (angleMod (xyzRot.y - target.y)))
  let t10017 := (target.z + (angleMod (xyzRot.z - target.z)))
  let t10026 := (target.x + (angleMod ((((884279719003555 : α) / (281474976710656 : α)) + t10013) - target.x)))
  let t10028 := (target.y + (angleMod ((((884279719003555 : α) / (281474976710656 : α)) - t10015) - target.y)))
  let t10030 := (target.z + (angleMod ((((884279719003555 : α) / (281474976710656 : α)) + t10017) - target.z)))
  let t10031 := (t10017 - target.z)
  let t10032 := (t10015 - target.y)
  let t10033 := (t10013 - target.x)
  let t10034 := (t10030 - target.z)
  let t10035 := (t10028 - target.y)
  let t10036 := (t10026 - target.x)
  let t10041 := (((t10033 * t10033) + (t10032 * t10032)) + (t10031 * t10031))
  let t10046 := (((t10036 * t10036) + (t10035 * t10035)) + (t10034 * t10034))
  if t10046 < t10041 then
    ⟨t10026, t10028, t10030⟩
  else
    ⟨t10013, t10015, t10017⟩

/-- extracted from the C++ template at T = Sym; 2 path(s) -/
def Euler.makeNear_ZYZ {α : Type} [Add α] [Sub α] [Mul α] [Div α] [LT α] [DecidableLT α] [OfNat α 281474976710656] [OfNat α 884279719003555] (angleMod : α → α) (a : V3 α) (t : V3 α) : ((V3 α) × Int) :=
  let t10054 := (t.x + (angleMod (a.x - t.x)))
  let t10056 := (t.y + (angleMod (a.y - t.y)))
  let t10058 := (t.z + (angleMod (a.z - t.z)))
  let t10066 := (t.x + (angleMod ((((884279719003555 : α) / (281474976710656 : α)) + t10054) - t.x)))
  let t10068 := (t.y + (angleMod ((((884279719003555 : α) / (281474976710656 : α)) - t10056) - t.y)))
  let t10070 := (t.z + (angleMod ((((884279719003555 : α) / (281474976710656 : α)) + t10058) - t.z)))
  let t10071 := (t10058 - t.z)
  let t10072 := (t10056 - t.y)
  let t10073 := (t10054 - t.x)
  let t10074 := (t10070 - t.z)
  let t10075 := (t10068 - t.y)
  let t10076 := (t10066 - t.x)
  let t10126 := (((t10071 * t10071) + (t10072 * t10072)) + (t10073 * t10073))
  let t10128 := (((t10074 * t10074) + (t10075 * t10075)) + (t10076 * t10076))
  if t10128 < t10126 then
    (⟨t10066, t10068, t10070⟩, (8209 : Int))
  else
    (⟨t10054, t10056, t10058⟩, (8209 : Int))

/-- extracted from the C++ template at T = Sym; 2 path(s) -/
def Euler.nearestRotation_ZXZ {α : Type} [Add α] [Sub α] [Mul α] [Div α] [LT α] [DecidableLT α] [OfNat α 281474976710656] [OfNat α 884279719003555] (angleMod : α → α) (xyzRot : V3 α) (target : V3 α) : (V3 α) :=
  let t10013 := (target.x + (angleMod (xyzRot.x - target.x)))
  let t10015 := (target.y + (angleMod (xyzRot.y - target.y)))
  let t10017 := (target.z + (angleMod (xyzRot.z - target.z)))
  let t10030 := (target.z + (angleMod ((((884279719003555 : α) / (281474976710656 : α)) + t10017) - target.z)))
  let t10031 := (t10017 - target.z)
  let t10032 := (t10015 - target.y)
  let t10033 := (t10013 - target.x)
  let t10034 := (t10030 - target.z)
  let t10041 := (((t10033 * t10033) + (t10032 * t10032)) + (t10031 * t10031))
  let t10092 := (target.y + (angleMod ((((884279719003555 : α) / (281474976710656 : α)) + t10015) - target.y)))
  let t10096 := (t10092 - target.y)
  let t10112 := (target.x + (angleMod ((((884279719003555 : α) / (281474976710656 : α)) - t10013) - target.x)))
  let t10113 := (t10112 - target.x)
  let t10116 := (((t10113 * t10113) + (t10096 * t10096)) + (t10034 * t10034))
  if t10116 < t10041 then
    ⟨t10112, t10092, t10030⟩
  else
    ⟨t10013, t10015, t10017⟩

/-- extracted from the C++ template at T = Sym; 2 path(s) -/
def Euler.makeNear_ZXZ {α : Type} [Add α] [Sub α] [Mul α] [Div α] [LT α] [DecidableLT α] [OfNat α 281474976710656] [OfNat α 884279719003555] (angleMod : α → α) (a : V3 α) (t : V3 α) : ((V3 α) × Int) :=
  let t10054 := (t.x + (angleMod (a.x - t.x)))
  let t10056 := (t.y + (angleMod (a.y - t.y)))
  let t10058 := (t.z + (angleMod (a.z - t.z)))
  let t10066 := (t.x + (angleMod ((((884279719003555 : α) / (281474976710656 : α)) + t10054) - t.x)))
  let t10068 := (t.y + (angleMod ((((884279719003555 : α) / (281474976710656 : α)) - t10056) - t.y)))
  let t10070 := (t.z + (angleMod ((((884279719003555 : α) / (281474976710656 : α)) + t10058) - t.z)))
  let t10071 := (t10058 - t.z)
  let t10072 := (t10056 - t.y)
  let t10073 := (t10054 - t.x)
  let t10074 := (t10070 - t.z)
  let t10075 := (t10068 - t.y)
  let t10076 := (t10066 - t.x)
  let t10122 := (((t10072 * t10072) + (t10071 * t10071)) + (t10073 * t10073))
  let t10124 := (((t10075 * t10075) + (t10074 * t10074)) + (t10076 * t10076))
  if t10124 < t10122 then
    (⟨t10066, t10068, t10070⟩, (8465 : Int))
  else
    (⟨t10054, t10056, t10058⟩, (8465 : Int))

/-- extracted from the C++ template at T = Sym; 2 path(s) -/
def Euler.nearestRotation_XYZr {α : Type} [Add α] [Sub α] [Mul α] [Div α] [LT α] [DecidableLT α] [OfNat α 281474976710656] [OfNat α 884279719003555] (angleMod : α → α) (xyzRot : V3 α) (target : V3 α) : (V3 α) :=
  let t10013 := (target.x + (angleMod (xyzRot.x - target.x)))
  let t10015 := (target.y + (angleMod (xyzRot.y - target.y)))
  let t10017 := (target.z + (angleMod (xyzRot.z - target.z)))
  let t10026 := (target.x + (angleMod ((((884279719003555 : α) / (281474976710656 : α)) + t10013) - target.x)))
  let t10028 := (target.y + (angleMod ((((884279719003555 : α) / (281474976710656 : α)) - t10015) - target.y)))
  let t10030 := (target.z + (angleMod ((((884279719003555 : α) / (281474976710656 : α)) + t10017) - target.z)))
  let t10031 := (t10017 - target.z)
  let t10032 := (t10015 - target.y)
  let t10033 := (t10013 - target.x)
  let t10034 := (t10030 - target.z)
  let t10035 := (t10028 - target.y)
  let t10036 := (t10026 - target.x)
  let t10041 := (((t10033 * t10033) + (t10032 * t10032)) + (t10031 * t10031))
  let t10046 := (((t10036 * t10036) + (t10035 * t10035)) + (t10034 * t10034))
  if t10046 < t10041 then
    ⟨t10026, t10028, t10030⟩
  else
    ⟨t10013, t10015, t10017⟩

/-- extracted from the C++ template at T = Sym; 2 path(s) -/
def Euler.makeNear_XYZr {α : Type} [Add α] [Sub α] [Mul α] [Div α] [LT α] [DecidableLT α] [OfNat α 281474976710656] [OfNat α 884279719003555] (angleMod : α → α) (a : V3 α) (t : V3 α) : ((V3 α) × Int) :=
  let t10054 := (t.x + (angleMod (a.x - t.x)))
  let t10056 := (t.y + (angleMod (a.y - t.y)))
  let t10058 := (t.z + (angleMod (a.z - t.z)))
  let t10066 := (t.x + (angleMod ((((884279719003555 : α) / (281474976710656 : α)) + t10054) - t.x)))
  let t10068 := (t.y + (angleMod ((((884279719003555 : α) / (281474976710656 : α)) - t10056) - t.y)))
  let t10070 := (t.z + (angleMod ((((884279719003555 : α) / (281474976710656 : α)) + t10058) - t.z)))
  let t10071 := (t10058 - t.z)
  let t10072 := (t10056 - t.y)
  let t10073 := (t10054 - t.x)
  let t10074 := (t10070 - t.z)
  let t10075 := (t10068 - t.y)
  let t10076 := (t10066 - t.x)
  let t10126 := (((t10071 * t10071) + (t10072 * t10072)) + (t10073 * t10073))
  let t10128 := (((t10074 * t10074) + (t10075 * t10075)) + (t10076 * t10076))
  if t10128 < t10126 then
    (⟨t10066, t10068, t10070⟩, (8192 : Int))
  else
    (⟨t10054, t10056, t10058⟩, (8192 : Int))

/-- extracted from the C++ template at T = Sym; 2 path(s) -/
def Euler.nearestRotation_XZYr {α : Type} [Add α] [Sub α] [Mul α] [Div α] [LT α] [DecidableLT α] [OfNat α 281474976710656] [OfNat α 884279719003555] (angleMod : α → α) (xyzRot : V3 α) (target : V3 α) : (V3 α) :=
  let t10013 := (target.x + (angleMod (xyzRot.x - target.x)))
  let t10015 := (target.y + (angleMod (xyzRot.y - target.y)))
  let t10017 := (target.z + (angleMod (xyzRot.z - target.z)))
  let t10030 := (target.z + (angleMod ((((884279719003555 : α) / (281474976710656 : α)) + t10017) - target.z)))
  let t10031 := (t10017 - target.z)
  let t10032 := (t10015 - target.y)
  let t10033 := (t10013 - target.x)
  let t10034 := (t10030 - target.z)
  let t10041 := (((t10033 * t10033) + (t10032 * t10032)) + (t10031 * t10031))
  let t10092 := (target.y + (angleMod ((((884279719003555 : α) / (281474976710656 : α)) + t10015) - target.y)))
  let t10096 := (t10092 - target.y)
  let t10112 := (target.x + (angleMod ((((884279719003555 : α) / (281474976710656 : α)) - t10013) - target.x)))
  let t10113 := (t10112 - target.x)
  let t10116 := (((t10113 * t10113) + (t10096 * t10096)) + (t10034 * t10034))
  if t10116 < t10041 then
    ⟨t10112, t10092, t10030⟩
  else
    ⟨t10013, t10015, t10017⟩

/-- extracted from the C++ template at T = Sym; 2 path(s) -/
def Euler.makeNear_XZYr {α : Type} [Add α] [Sub α] [Mul α] [Div α] [LT α] [DecidableLT α] [OfNat α 281474976710656] [OfNat α 884279719003555] (angleMod : α → α) (a : V3 α) (t : V3 α) : ((V3 α) × Int) :=
  let t10054 := (t.x + (angleMod (a.x - t.x)))
  let t10056 := (t.y + (angleMod (a.y - t.y)))
  let t10058 := (t.z + (angleMod (a.z - t.z)))
  let t10066 := (t.x + (angleMod ((((884279719003555 : α) / (281474976710656 : α)) + t10054) - t.x)))
  let t10068 := (t.y + (angleMod ((((884279719003555 : α) / (281474976710656 : α)) - t10056) - t.y)))
  let t10070 := (t.z + (angleMod ((((884279719003555 : α) / (281474976710656 : α)) + t10058) - t.z)))
  let t10071 := (t10058 - t.z)
  let t10072 := (t10056 - t.y)
  let t10073 := (t10054 - t.x)
  let t10074 := (t10070 - t.z)
  let t10075 := (t10068 - t.y)
  let t10076 := (t10066 - t.x)
  let t10122 := (((t10072 * t10072) + (t10071 * t10071)) + (t10073 * t10073))
  let t10124 := (((t10075 * t10075) + (t10074 * t10074)) + (t10076 * t10076))
  if t10124 < t10122 then
    (⟨t10066, t10068, t10070⟩, (8448 : Int))
  else
    (⟨t10054, t10056, t10058⟩, (8448 : Int))

/-- extracted from the C++ template at T = Sym; 2 path(s) -/
def Euler.nearestRotation_YZXr {α : Type} [Add α] [Sub α] [Mul α] [Div α] [LT α] [DecidableLT α] [OfNat α 281474976710656] [OfNat α 884279719003555] (angleMod : α → α) (xyzRot : V3 α) (target : V3 α) : (V3 α) :=
  let t10013 := (target.x + (angleMod (xyzRot.x - target.x)))
  let t10015 := (target.y + (angleMod (xyzRot.y - target.y)))
  let t10017 := (target.z + (angleMod (xyzRot.z - target.z)))
  let t10030 := (target.z + (angleMod ((((884279719003555 : α) / (281474976710656 : α)) + t10017) - target.z)))
  let t10031 := (t10017 - target.z)
  let t10032 := (t10015 - target.y)
  let t10033 := (t10013 - target.x)
  let t10034 := (t10030 - target.z)
  let t10041 := (((t10033 * t10033) + (t10032 * t10032)) + (t10031 * t10031))
  let t10092 := (target.y + (angleMod ((((884279719003555 : α) / (281474976710656 : α)) + t10015) - target.y)))
  let t10096 := (t10092 - target.y)
  let t10112 := (target.x + (angleMod ((((884279719003555 : α) / (281474976710656 : α)) - t10013) - target.x)))
  let t10113 := (t10112 - target.x)
  let t10116 := (((t10113 * t10113) + (t10096 * t10096)) + (t10034 * t10034))
  if t10116 < t10041 then
    ⟨t10112, t10092, t10030⟩
  else
    ⟨t10013, t10015, t10017⟩

/-- extracted from the C++ template at T = Sym; 2 path(s) -/
def Euler.makeNear_YZXr {α : Type} [Add α] [Sub α] [Mul α] [Div α] [LT α] [DecidableLT α] [OfNat α 281474976710656] [OfNat α 884279719003555] (angleMod : α → α) (a : V3 α) (t : V3 α) : ((V3 α) × Int) :=
  let t10054 := (t.x + (angleMod (a.x - t.x)))
  let t10056 := (t.y + (angleMod (a.y - t.y)))
  let t10058 := (t.z + (angleMod (a.z - t.z)))
  let t10066 := (t.x + (angleMod ((((884279719003555 : α) / (281474976710656 : α)) + t10054) - t.x)))
  let t10068 := (t.y + (angleMod ((((884279719003555 : α) / (281474976710656 : α)) - t10056) - t.y)))
  let t10070 := (t.z + (angleMod ((((884279719003555 : α) / (281474976710656 : α)) + t10058) - t.z)))
  let t10071 := (t10058 - t.z)
  let t10072 := (t10056 - t.y)
  let t10073 := (t10054 - t.x)
  let t10074 := (t10070 - t.z)
  let t10075 := (t10068 - t.y)
  let t10076 := (t10066 - t.x)
  let t10118 := (((t10072 * t10072) + (t10073 * t10073)) + (t10071 * t10071))
  let t10120 := (((t10075 * t10075) + (t10076 * t10076)) + (t10074 * t10074))
  if t10120 < t10118 then
    (⟨t10066, t10068, t10070⟩, (4096 : Int))
  else
    (⟨t10054, t10056, t10058⟩, (4096 : Int))

/-- extracted from the C++ template at T = Sym; 2 path(s) -/
def Euler.nearestRotation_YXZr {α : Type} [Add α] [Sub α] [Mul α] [Div α] [LT α] [DecidableLT α] [OfNat α 281474976710656] [OfNat α 884279719003555] (angleMod : α → α) (xyzRot : V3 α) (target : V3 α) : (V3 α) :=
  let t10013 := (target.x + (angleMod (xyzRot.x - target.x)))
  let t10015 := (target.y + (angleMod (xyzRot.y - target.y)))
  let t10017 := (target.z + (angleMod (xyzRot.z - target.z)))
  let t10026 := (target.x + (angleMod ((((884279719003555 : α) / (281474976710656 : α)) + t10013) - target.x)))
  let t10031 := (t10017 - target.z)
  let t10032 := (t10015 - target.y)
  let t10033 := (t10013 - target.x)
  let t10036 := (t10026 - target.x)
  let t10041 := (((t10033 * t10033) + (t10032 * t10032)) + (t10031 * t10031))
  let t10092 := (target.y + (angleMod ((((884279719003555 : α) / (281474976710656 : α)) + t10015) - target.y)))
  let t10094 := (target.z + (angleMod ((((884279719003555 : α) / (281474976710656 : α)) - t10017) - target.z)))
  let t10095 := (t10094 - target.z)
  let t10096 := (t10092 - target.y)
  let t10100 := (((t10036 * t10036) + (t10096 * t10096)) + (t10095 * t10095))
  if t10100 < t10041 then
    ⟨t10026, t10092, t10094⟩
  else
    ⟨t10013, t10015, t10017⟩

/-- extracted from the C++ template at T = Sym; 2 path(s) -/
def Euler.makeNear_YXZr {α : Type} [Add α] [Sub α] [Mul α] [Div α] [LT α] [DecidableLT α] [OfNat α 281474976710656] [OfNat α 884279719003555] (angleMod : α → α) (a : V3 α) (t : V3 α) : ((V3 α) × Int) :=
  let t10054 := (t.x + (angleMod (a.x - t.x)))
  let t10056 := (t.y + (angleMod (a.y - t.y)))
  let t10058 := (t.z + (angleMod (a.z - t.z)))
  let t10066 := (t.x + (angleMod ((((884279719003555 : α) / (281474976710656 : α)) + t10054) - t.x)))
  let t10068 := (t.y + (angleMod ((((884279719003555 : α) / (281474976710656 : α)) - t10056) - t.y)))
  let t10070 := (t.z + (angleMod ((((884279719003555 : α) / (281474976710656 : α)) + t10058) - t.z)))
  let t10071 := (t10058 - t.z)
  let t10072 := (t10056 - t.y)
  let t10073 := (t10054 - t.x)
  let t10074 := (t10070 - t.z)
  let t10075 := (t10068 - t.y)
  let t10076 := (t10066 - t.x)
  let t10106 := (((t10071 * t10071) + (t10073 * t10073)) + (t10072 * t10072))
  let t10108 := (((t10074 * t10074) + (t10076 * t10076)) + (t10075 * t10075))
  if t10108 < t10106 then
    (⟨t10066, t10068, t10070⟩, (4352 : Int))
  else
    (⟨t10054, t10056, t10058⟩, (4352 : Int))

/-- extracted from the C++ template at T = Sym; 2 path(s) -/
def Euler.nearestRotation_ZXYr {α : Type} [Add α] [Sub α] [Mul α] [Div α] [LT α] [DecidableLT α] [OfNat α 281474976710656] [OfNat α 884279719003555] (angleMod : α → α) (xyzRot : V3 α) (target : V3 α) : (V3 α) :=
  let t10013 := (target.x + (angleMod (xyzRot.x - target.x)))
  let t10015 := (target.y + (angleMod (xyzRot.y - target.y)))
  let t10017 := (target.z + (angleMod (xyzRot.z - target.z)))
  let t10026 := (target.x + (angleMod ((((884279719003555 : α) / (281474976710656 : α)) + t10013) - target.x)))
  let t10031 := (t10017 - target.z)
  let t10032 := (t10015 - target.y)
  let t10033 := (t10013 - target.x)
  let t10036 := (t10026 - target.x)
  let t10041 := (((t10033 * t10033) + (t10032 * t10032)) + (t10031 * t10031))
  let t10092 := (target.y + (angleMod ((((884279719003555 : α) / (281474976710656 : α)) + t10015) - target.y)))
  let t10094 := (target.z + (angleMod ((((884279719003555 : α) / (281474976710656 : α)) - t10017) - target.z)))
  let t10095 := (t10094 - target.z)
  let t10096 := (t10092 - target.y)
  let t10100 := (((t10036 * t10036) + (t10096 * t10096)) + (t10095 * t10095))
  if t10100 < t10041 then
    ⟨t10026, t10092, t10094⟩
  else
    ⟨t10013, t10015, t10017⟩

/-- extracted from the C++ template at T = Sym; 2 path(s) -/
def Euler.makeNear_ZXYr {α : Type} [Add α] [Sub α] [Mul α] [Div α] [LT α] [DecidableLT α] [OfNat α 281474976710656] [OfNat α 884279719003555] (angleMod : α → α) (a : V3 α) (t : V3 α) : ((V3 α) × Int) :=
  let t10054 := (t.x + (angleMod (a.x - t.x)))
  let t10056 := (t.y + (angleMod (a.y - t.y)))
  let t10058 := (t.z + (angleMod (a.z - t.z)))
  let t10066 := (t.x + (angleMod ((((884279719003555 : α) / (281474976710656 : α)) + t10054) - t.x)))
  let t10068 := (t.y + (angleMod ((((884279719003555 : α) / (281474976710656 : α)) - t10056) - t.y)))
  let t10070 := (t.z + (angleMod ((((884279719003555 : α) / (281474976710656 : α)) + t10058) - t.z)))
  let t10071 := (t10058 - t.z)
  let t10072 := (t10056 - t.y)
  let t10073 := (t10054 - t.x)
  let t10074 := (t10070 - t.z)
  let t10075 := (t10068 - t.y)
  let t10076 := (t10066 - t.x)
  let t10102 := (((t10073 * t10073) + (t10071 * t10071)) + (t10072 * t10072))
  let t10104 := (((t10076 * t10076) + (t10074 * t10074)) + (t10075 * t10075))
  if t10104 < t10102 then
    (⟨t10066, t10068, t10070⟩, (0 : Int))
  else
    (⟨t10054, t10056, t10058⟩, (0 : Int))

/-- extracted from the C++ template at T = Sym; 2 path(s) -/
def Euler.nearestRotation_ZYXr {α : Type} [Add α] [Sub α] [Mul α] [Div α] [LT α] [DecidableLT α] [OfNat α 281474976710656] [OfNat α 884279719003555] (angleMod : α → α) (xyzRot : V3 α) (target : V3 α) : (V3 α) :=
  let t10013 := (target.x + (angleMod (xyzRot.x - target.x)))
  let t10015 := (target.y + (angleMod (xyzRot.y - target.y)))
  let t10017 := (target.z + (angleMod (xyzRot.z - target.z)))
  let t10026 := (target.x + (angleMod ((((884279719003555 : α) / (281474976710656 : α)) + t10013) - target.x)))
  let t10028 := (target.y + (angleMod ((((884279719003555 : α) / (281474976710656 : α)) - t10015) - target.y)))
  let t10030 := (target.z + (angleMod ((((884279719003555 : α) / (281474976710656 : α)) + t10017) - target.z)))
  let t10031 := (t10017 - target.z)
  let t10032 := (t10015 - target.y)
  let t10033 := (t10013 - target.x)
  let t10034 := (t10030 - target.z)
  let t10035 := (t10028 - target.y)
  let t10036 := (t10026 - target.x)
  let t10041 := (((t10033 * t10033) + (t10032 * t10032)) + (t10031 * t10031))
  let t10046 := (((t10036 * t10036) + (t10035 * t10035)) + (t10034 * t10034))
  if t10046 < t10041 then
    ⟨t10026, t10028, t10030⟩
  else
    ⟨t10013, t10015, t10017⟩

/-- extracted from the C++ template at T = Sym; 2 path(s) -/
def Euler.makeNear_ZYXr {α : Type} [Add α] [Sub α] [Mul α] [Div α] [LT α] [DecidableLT α] [OfNat α 281474976710656] [OfNat α 884279719003555] (angleMod : α → α) (a : V3 α) (t : V3 α) : ((V3 α) × Int) :=
  let t10054 := (t.x + (angleMod (a.x - t.x)))
  let t10056 := (t.y + (angleMod (a.y - t.y)))
  let t10058 := (t.z + (angleMod (a.z - t.z)))
  let t10066 := (t.x + (angleMod ((((884279719003555 : α) / (281474976710656 : α)) + t10054) - t.x)))
  let t10068 := (t.y + (angleMod ((((884279719003555 : α) / (281474976710656 : α)) - t10056) - t.y)))
  let t10070 := (t.z + (angleMod ((((884279719003555 : α) / (281474976710656 : α)) + t10058) - t.z)))
  let t10071 := (t10058 - t.z)
  let t10072 := (t10056 - t.y)
  let t10073 := (t10054 - t.x)
  let t10074 := (t10070 - t.z)
  let t10075 := (t10068 - t.y)
  let t10076 := (t10066 - t.x)
  let t10081 := (((t10073 * t10073) + (t10072 * t10072)) + (t10071 * t10071))
  let t10086 := (((t10076 * t10076) + (t10075 * t10075)) + (t10074 * t10074))
  if t10086 < t10081 then
    (⟨t10066, t10068, t10070⟩, (256 : Int))
  else
    (⟨t10054, t10056, t10058⟩, (256 : Int))

/-- extracted from the C++ template at T = Sym; 2 path(s) -/
def Euler.nearestRotation_XZXr {α : Type} [Add α] [Sub α] [Mul α] [Div α] [LT α] [DecidableLT α] [OfNat α 281474976710656] [OfNat α 884279719003555] (angleMod : α → α) (xyzRot : V3 α) (target : V3 α) : (V3 α) :=
  let t10013 := (target.x + (angleMod (xyzRot.x - target.x)))
  let t10015 := (target.y + (angleMod (xyzRot.y - target.y)))
  let t10017 := (target.z + (angleMod (xyzRot.z - target.z)))
  let t10030 := (target.z + (angleMod ((((884279719003555 : α) / (281474976710656 : α)) + t10017) - target.z)))
  let t10031 := (t10017 - target.z)
  let t10032 := (t10015 - target.y)
  let t10033 := (t10013 - target.x)
  let t10034 := (t10030 - target.z)
  let t10041 := (((t10033 * t10033) + (t10032 * t10032)) + (t10031 * t10031))
  let t10092 := (target.y + (angleMod ((((884279719003555 : α) / (281474976710656 : α)) + t10015) - target.y)))
  let t10096 := (t10092 - target.y)
  let t10112 := (target.x + (angleMod ((((884279719003555 : α) / (281474976710656 : α)) - t10013) - target.x)))
  let t10113 := (t10112 - target.x)
  let t10116 := (((t10113 * t10113) + (t10096 * t10096)) + (t10034 * t10034))
  if t10116 < t10041 then
    ⟨t10112, t10092, t10030⟩
  else
    ⟨t10013, t10015, t10017⟩

/-- extracted from the C++ template at T = Sym; 2 path(s) -/
def Euler.makeNear_XZXr {α : Type} [Add α] [Sub α] [Mul α] [Div α] [LT α] [DecidableLT α] [OfNat α 281474976710656] [OfNat α 884279719003555] (angleMod : α → α) (a : V3 α) (t : V3 α) : ((V3 α) × Int) :=
  let t10054 := (t.x + (angleMod (a.x - t.x)))
  let t10056 := (t.y + (angleMod (a.y - t.y)))
  let t10058 := (t.z + (angleMod (a.z - t.z)))
  let t10066 := (t.x + (angleMod ((((884279719003555 : α) / (281474976710656 : α)) + t10054) - t.x)))
  let t10068 := (t.y + (angleMod ((((884279719003555 : α) / (281474976710656 : α)) - t10056) - t.y)))
  let t10070 := (t.z + (angleMod ((((884279719003555 : α) / (281474976710656 : α)) + t10058) - t.z)))
  let t10071 := (t10058 - t.z)
  let t10072 := (t10056 - t.y)
  let t10073 := (t10054 - t.x)
  let t10074 := (t10070 - t.z)
  let t10075 := (t10068 - t.y)
  let t10076 := (t10066 - t.x)
  let t10122 := (((t10072 * t10072) + (t10071 * t10071)) + (t10073 * t10073))
  let t10124 := (((t10075 * t10075) + (t10074 * t10074)) + (t10076 * t10076))
  if t10124 < t10122 then
    (⟨t10066, t10068, t10070⟩, (8464 : Int))
  else
    (⟨t10054, t10056, t10058⟩, (8464 : Int))

/-- extracted from the C++ template at T = Sym; 2 path(s) -/
def Euler.nearestRotation_XYXr {α : Type} [Add α] [Sub α] [Mul α] [Div α] [LT α] [DecidableLT α] [OfNat α 281474976710656] [OfNat α 884279719003555] (angleMod : α → α) (xyzRot : V3 α) (target : V3 α) : (V3 α) :=
  let t10013 := (target.x + (angleMod (xyzRot.x - target.x)))
  let t10015 := (target.y + (angleMod (xyzRot.y - target.y)))
  let t10017 := (target.z + (angleMod (xyzRot.z - target.z)))
  let t10026 := (target.x + (angleMod ((((884279719003555 : α) / (281474976710656 : α)) + t10013) - target.x)))
  let t10028 := (target.y + (angleMod ((((884279719003555 : α) / (281474976710656 : α)) - t10015) - target.y)))
  let t10030 := (target.z + (angleMod ((((884279719003555 : α) / (281474976710656 : α)) + t10017) - target.z)))
  let t10031 := (t10017 - target.z)
  let t10032 := (t10015 - target.y)
  let t10033 := (t10013 - target.x)
  let t10034 := (t10030 - target.z)
  let t10035 := (t10028 - target.y)
  let t10036 := (t10026 - target.x)
  let t10041 := (((t10033 * t10033) + (t10032 * t10032)) + (t10031 * t10031))
  let t10046 := (((t10036 * t10036) + (t10035 * t10035)) + (t10034 * t10034))
  if t10046 < t10041 then
    ⟨t10026, t10028, t10030⟩
  else
    ⟨t10013, t10015, t10017⟩

/-- extracted from the C++ template at T = Sym; 2 path(s) -/
def Euler.makeNear_XYXr {α : Type} [Add α] [Sub α] [Mul α] [Div α] [LT α] [DecidableLT α] [OfNat α 281474976710656] [OfNat α 884279719003555] (angleMod : α → α) (a : V3 α) (t : V3 α) : ((V3 α) × Int) :=
  let t10054 := (t.x + (angleMod (a.x - t.x)))
  let t10056 := (t.y + (angleMod (a.y - t.y)))
  let t10058 := (t.z + (angleMod (a.z - t.z)))
  let t10066 := (t.x + (angleMod ((((884279719003555 : α) / (281474976710656 : α)) + t10054) - t.x)))
  let t10068 := (t.y + (angleMod ((((884279719003555 : α) / (281474976710656 : α)) - t10056) - t.y)))
  let t10070 := (t.z + (angleMod ((((884279719003555 : α) / (281474976710656 : α)) + t10058) - t.z)))
  let t10071 := (t10058 - t.z)
  let t10072 := (t10056 - t.y)
  let t10073 := (t10054 - t.x)
  let t10074 := (t10070 - t.z)
  let t10075 := (t10068 - t.y)
  let t10076 := (t10066 - t.x)
  let t10126 := (((t10071 * t10071) + (t10072 * t10072)) + (t10073 * t10073))
  let t10128 := (((t10074 * t10074) + (t10075 * t10075)) + (t10076 * t10076))
  if t10128 < t10126 then
    (⟨t10066, t10068, t10070⟩, (8208 : Int))
  else
    (⟨t10054, t10056, t10058⟩, (8208 : Int))

/-- extracted from the C++ template at T = Sym; 2 path(s) -/
def Euler.nearestRotation_YXYr {α : Type} [Add α] [Sub α] [Mul α] [Div α] [LT α] [DecidableLT α] [OfNat α 281474976710656] [OfNat α 884279719003555] (angleMod : α → α) (xyzRot : V3 α) (target : V3 α) : (V3 α) :=
  let t10013 := (target.x + (angleMod (xyzRot.x - target.x)))
  let t10015 := (target.y + (angleMod (xyzRot.y - target.y)))
  let t10017 := (target.z + (angleMod (xyzRot.z - target.z)))
  let t10026 := (target.x + (angleMod ((((884279719003555 : α) / (281474976710656 : α)) + t10013) - target.x)))
  let t10031 := (t10017 - target.z)
  let t10032 := (t10015 - target.y)
  let t10033 := (t10013 - target.x)
  let t10036 := (t10026 - target.x)
  let t10041 := (((t10033 * t10033) + (t10032 * t10032)) + (t10031 * t10031))
  let t10092 := (target.y + (angleMod ((((884279719003555 : α) / (281474976710656 : α)) + t10015) - target.y)))
  let t10094 := (target.z + (angleMod ((((884279719003555 : α) / (281474976710656 : α)) - t10017) - target.z)))
  let t10095 := (t10094 - target.z)
  let t10096 := (t10092 - target.y)
  let t10100 := (((t10036 * t10036) + (t10096 * t10096)) + (t10095 * t10095))
  if t10100 < t10041 then
    ⟨t10026, t10092, t10094⟩
  else
    ⟨t10013, t10015, t10017⟩

/-- extracted from the C++ template at T = Sym; 2 path(s) -/
def Euler.makeNear_YXYr {α : Type} [Add α] [Sub α] [Mul α] [Div α] [LT α] [DecidableLT α] [OfNat α 281474976710656] [OfNat α 884279719003555] (angleMod : α → α) (a : V3 α) (t : V3 α) : ((V3 α) × Int) :=
  let t10054 := (t.x + (angleMod (a.x - t.x)))
  let t10056 := (t.y + (angleMod (a.y - t.y)))
  let t10058 := (t.z + (angleMod (a.z - t.z)))
  let t10066 := (t.x + (angleMod ((((884279719003555 : α) / (281474976710656 : α)) + t10054) - t.x)))
  let t10068 := (t.y + (angleMod ((((884279719003555 : α) / (281474976710656 : α)) - t10056) - t.y)))
  let t10070 := (t.z + (angleMod ((((884279719003555 : α) / (281474976710656 : α)) + t10058) - t.z)))
  let t10071 := (t10058 - t.z)
  let t10072 := (t10056 - t.y)
  let t10073 := (t10054 - t.x)
  let t10074 := (t10070 - t.z)
  let t10075 := (t10068 - t.y)
  let t10076 := (t10066 - t.x)
  let t10106 := (((t10071 * t10071) + (t10073 * t10073)) + (t10072 * t10072))
  let t10108 := (((t10074 * t10074) + (t10076 * t10076)) + (t10075 * t10075))
  if t10108 < t10106 then
    (⟨t10066, t10068, t10070⟩, (4368 : Int))
  else
    (⟨t10054, t10056, t10058⟩, (4368 : Int))

/-- extracted from the C++ template at T = Sym; 2 path(s) -/
def Euler.nearestRotation_YZYr {α : Type} [Add α] [Sub α] [Mul α] [Div α] [LT α] [DecidableLT α] [OfNat α 281474976710656] [OfNat α 884279719003555] (angleMod : α → α) (xyzRot : V3 α) (target : V3 α) : (V3 α) :=
  let t10013 := (target.x + (angleMod (xyzRot.x - target.x)))
  let t10015 := (target.y + (angleMod (xyzRot.y - target.y)))
  let t10017 := (target.z + (angleMod (xyzRot.z - target.z)))
  let t10030 := (target.z + (angleMod ((((884279719003555 : α) / (281474976710656 : α)) + t10017) - target.z)))
  let t10031 := (t10017 - target.z)
  let t10032 := (t10015 - target.y)
  let t10033 := (t10013 - target.x)
  let t10034 := (t10030 - target.z)
  let t10041 := (((t10033 * t10033) + (t10032 * t10032)) + (t10031 * t10031))
  let t10092 := (target.y + (angleMod ((((884279719003555 : α) / (281474976710656 : α)) + t10015) - target.y)))
  let t10096 := (t10092 - target.y)
  let t10112 := (target.x + (angleMod ((((884279719003555 : α) / (281474976710656 : α)) - t10013) - target.x)))
  let t10113 := (t10112 - target.x)
  let t10116 := (((t10113 * t10113) + (t10096 * t10096)) + (t10034 * t10034))
  if t10116 < t10041 then
    ⟨t10112, t10092, t10030⟩
  else
    ⟨t10013, t10015, t10017⟩

/-- extracted from the C++ template at T = Sym; 2 path(s) -/
def Euler.makeNear_YZYr {α : Type} [Add α] [Sub α] [Mul α] [Div α] [LT α] [DecidableLT α] [OfNat α 281474976710656] [OfNat α 884279719003555] (angleMod : α → α) (a : V3 α) (t : V3 α) : ((V3 α) × Int) :=
  let t10054 := (t.x + (angleMod (a.x - t.x)))
  let t10056 := (t.y + (angleMod (a.y - t.y)))
  let t10058 := (t.z + (angleMod (a.z - t.z)))
  let t10066 := (t.x + (angleMod ((((884279719003555 : α) / (281474976710656 : α)) + t10054) - t.x)))
  let t10068 := (t.y + (angleMod ((((884279719003555 : α) / (281474976710656 : α)) - t10056) - t.y)))
  let t10070 := (t.z + (angleMod ((((884279719003555 : α) / (281474976710656 : α)) + t10058) - t.z)))
  let t10071 := (t10058 - t.z)
  let t10072 := (t10056 - t.y)
  let t10073 := (t10054 - t.x)
  let t10074 := (t10070 - t.z)
  let t10075 := (t10068 - t.y)
  let t10076 := (t10066 - t.x)
  let t10118 := (((t10072 * t10072) + (t10073 * t10073)) + (t10071 * t10071))
  let t10120 := (((t10075 * t10075) + (t10076 * t10076)) + (t10074 * t10074))
  if t10120 < t10118 then
    (⟨t10066, t10068, t10070⟩, (4112 : Int))
  else
    (⟨t10054, t10056, t10058⟩, (4112 : Int))

/-- extracted from the C++ template at T = Sym; 2 path(s) -/
def Euler.nearestRotation_ZYZr {α : Type} [Add α] [Sub α] [Mul α] [Div α] [LT α] [DecidableLT α] [OfNat α 281474976710656] [OfNat α 884279719003555] (angleMod : α → α) (xyzRot : V3 α) (target : V3 α) : (V3 α) :=
  let t10013 := (target.x + (angleMod (xyzRot.x - target.x)))
  let t10015 := (target.y + (angleMod (xyzRot.y - target.y)))
  let t10017 := (target.z + (angleMod (xyzRot.z - target.z)))
  let t10026 := (target.x + (angleMod ((((884279719003555 : α) / (281474976710656 : α)) + t10013) - target.x)))
  let t10028 := (target.y + (angleMod ((((884279719003555 : α) / (281474976710656 : α)) - t10015) - target.y)))
  let t10030 := (target.z + (angleMod ((((884279719003555 : α) / (281474976710656 : α)) + t10017) - target.z)))
  let t10031 := (t10017 - target.z)
  let t10032 := (t10015 - target.y)
  let t10033 := (t10013 - target.x)
  let t10034 := (t10030 - target.z)
  let t10035 := (t10028 - target.y)
  let t10036 := (t10026 - target.x)
  let t10041 := (((t10033 * t10033) + (t10032 * t10032)) + (t10031 * t10031))
  let t10046 := (((t10036 * t10036) + (t10035 * t10035)) + (t10034 * t10034))
  if t10046 < t10041 then
    ⟨t10026, t10028, t10030⟩
  else
    ⟨t10013, t10015, t10017⟩

/-- extracted from the C++ template at T = Sym; 2 path(s) -/
def Euler.makeNear_ZYZr {α : Type} [Add α] [Sub α] [Mul α] [Div α] [LT α] [DecidableLT α] [OfNat α 281474976710656] [OfNat α 884279719003555] (angleMod : α → α) (a : V3 α) (t : V3 α) : ((V3 α) × Int) :=
  let t10054 := (t.x + (angleMod (a.x - t.x)))
  let t10056 := (t.y + (angleMod (a.y - t.y)))
  let t10058 := (t.z + (angleMod (a.z - t.z)))
  let t10066 := (t.x + (angleMod ((((884279719003555 : α) / (281474976710656 : α)) + t10054) - t.x)))
  let t10068 := (t.y + (angleMod ((((884279719003555 : α) / (281474976710656 : α)) - t10056) - t.y)))
  let t10070 := (t.z + (angleMod ((((884279719003555 : α) / (281474976710656 : α)) + t10058) - t.z)))
  let t10071 := (t10058 - t.z)
  let t10072 := (t10056 - t.y)
  let t10073 := (t10054 - t.x)
  let t10074 := (t10070 - t.z)
  let t10075 := (t10068 - t.y)
  let t10076 := (t10066 - t.x)
  let t10081 := (((t10073 * t10073) + (t10072 * t10072)) + (t10071 * t10071))
  let t10086 := (((t10076 * t10076) + (t10075 * t10075)) + (t10074 * t10074))
  if t10086 < t10081 then
    (⟨t10066, t10068, t10070⟩, (272 : Int))
  else
    (⟨t10054, t10056, t10058⟩, (272 : Int))

/-- extracted from the C++ template at T = Sym; 2 path(s) -/
def Euler.nearestRotation_ZXZr {α : Type} [Add α] [Sub α] [Mul α] [Div α] [LT α] [DecidableLT α] [OfNat α 281474976710656] [OfNat α 884279719003555] (angleMod : α → α) (xyzRot : V3 α) (target : V3 α) : (V3 α) :=
  let t10013 := (target.x + (angleMod (xyzRot.x - target.x)))
  let t10015 := (target.y + (angleMod (xyzRot.y - target.y)))
  let t10017 := (target.z + (angleMod (xyzRot.z - target.z)))
  let t10026 := (target.x + (angleMod ((((884279719003555 : α) / (281474976710656 : α)) + t10013) - target.x)))
  let t10031 := (t10017 - target.z)
  let t10032 := (t10015 - target.y)
  let t10033 := (t10013 - target.x)
  let t10036 := (t10026 - target.x)
  let t10041 := (((t10033 * t10033) + (t10032 * t10032)) + (t10031 * t10031))
  let t10092 := (target.y + (angleMod ((((884279719003555 : α) / (281474976710656 : α)) + t10015) - target.y)))
  let t10094 := (target.z + (angleMod ((((884279719003555 : α) / (281474976710656 : α)) - t10017) - target.z)))
  let t10095 := (t10094 - target.z)
  let t10096 := (t10092 - target.y)
  let t10100 := (((t10036 * t10036) + (t10096 * t10096)) + (t10095 * t10095))
  if t10100 < t10041 then
    ⟨t10026, t10092, t10094⟩
  else
    ⟨t10013, t10015, t10017⟩

/-- extracted from the C++ template at T = Sym; 2 path(s) -/
def Euler.makeNear_ZXZr {α : Type} [Add α] [Sub α] [Mul α] [Div α] [LT α] [DecidableLT α] [OfNat α 281474976710656] [OfNat α 884279719003555] (angleMod : α → α) (a : V3 α) (t : V3 α) : ((V3 α) × Int) :=
  let t10054 := (t.x + (angleMod (a.x - t.x)))
  let t10056 := (t.y + (angleMod (a.y - t.y)))
  let t10058 := (t.z + (angleMod (a.z - t.z)))
  let t10066 := (t.x + (angleMod ((((884279719003555 : α) / (281474976710656 : α)) + t10054) - t.x)))
  let t10068 := (t.y + (angleMod ((((884279719003555 : α) / (281474976710656 : α)) - t10056) - t.y)))
  let t10070 := (t.z + (angleMod ((((884279719003555 : α) / (281474976710656 : α)) + t10058) - t.z)))
  let t10071 := (t10058 - t.z)
  let t10072 := (t10056 - t.y)
  let t10073 := (t10054 - t.x)
  let t10074 := (t10070 - t.z)
  let t10075 := (t10068 - t.y)
  let t10076 := (t10066 - t.x)
  let t10102 := (((t10073 * t10073) + (t10071 * t10071)) + (t10072 * t10072))
  let t10104 := (((t10076 * t10076) + (t10074 * t10074)) + (t10075 * t10075))
  if t10104 < t10102 then
    (⟨t10066, t10068, t10070⟩, (16 : Int))
  else
    (⟨t10054, t10056, t10058⟩, (16 : Int))

end ImathVerif.Gen
