-- GENERATED from /repo/src/Imath by harness/sym (T = Sym path extraction); do not edit.
import ImathVerif.Basic.Types
import ImathVerif.Gen.Leaf
set_option linter.unusedVariables false
namespace ImathVerif.Gen
open ImathVerif

/-- extracted from the C++ template at T = Sym; 1 path(s) -/
def Euler.M44_setEulerAngles {α : Type} [Add α] [Mul α] [Neg α] [OfNat α 0] [OfNat α 1] (sin : α → α) (cos : α → α) (r : V3 α) : (M44 α) :=
  let t8671 := (cos r.z)
  let t8672 := (cos r.y)
  let t8673 := (cos r.x)
  let t8674 := (sin r.z)
  let t8675 := (sin r.y)
  let t8676 := (sin r.x)
  let t8680 := (t8671 * t8675)
  let t8685 := (t8674 * t8675)
  ⟨(t8671 * t8672), (t8674 * t8672), (-t8675), (0 : α), (((-t8674) * t8673) + (t8680 * t8676)), ((t8671 * t8673) + (t8685 * t8676)), (t8672 * t8676), (0 : α), ((t8674 * t8676) + (t8680 * t8673)), (((-t8671) * t8676) + (t8685 * t8673)), (t8672 * t8673), (0 : α), (0 : α), (0 : α), (0 : α), (1 : α)⟩

/-- extracted from the C++ template at T = Sym; 1 path(s) -/
def Euler.M44_rotate {α : Type} [Add α] [Mul α] [Neg α] (sin : α → α) (cos : α → α) (m : M44 α) (r : V3 α) : (M44 α) :=
  let t8671 := (cos r.z)
  let t8672 := (cos r.y)
  let t8673 := (cos r.x)
  let t8674 := (sin r.z)
  let t8675 := (sin r.y)
  let t8676 := (sin r.x)
  let t8677 := (t8671 * t8672)
  let t8678 := (t8674 * t8672)
  let t8679 := (-t8675)
  let t8680 := (t8671 * t8675)
  let t8682 := (-t8674)
  let t8684 := ((t8682 * t8673) + (t8680 * t8676))
  let t8685 := (t8674 * t8675)
  let t8688 := ((t8671 * t8673) + (t8685 * t8676))
  let t8689 := (t8672 * t8676)
  let t8697 := (t8672 * t8673)
  let t8698 := (-t8676)
  let t8700 := ((t8682 * t8698) + (t8680 * t8673))
  let t8702 := ((t8671 * t8698) + (t8685 * t8673))
  ⟨(((m.x00 * t8677) + (m.x10 * t8678)) + (m.x20 * t8679)), (((m.x01 * t8677) + (m.x11 * t8678)) + (m.x21 * t8679)), (((m.x02 * t8677) + (m.x12 * t8678)) + (m.x22 * t8679)), (((m.x03 * t8677) + (m.x13 * t8678)) + (m.x23 * t8679)), (((m.x00 * t8684) + (m.x10 * t8688)) + (m.x20 * t8689)), (((m.x01 * t8684) + (m.x11 * t8688)) + (m.x21 * t8689)), (((m.x02 * t8684) + (m.x12 * t8688)) + (m.x22 * t8689)), (((m.x03 * t8684) + (m.x13 * t8688)) + (m.x23 * t8689)), (((m.x00 * t8700) + (m.x10 * t8702)) + (m.x20 * t8697)), (((m.x01 * t8700) + (m.x11 * t8702)) + (m.x21 * t8697)), (((m.x02 * t8700) + (m.x12 * t8702)) + (m.x22 * t8697)), (((m.x03 * t8700) + (m.x13 * t8702)) + (m.x23 * t8697)), m.x30, m.x31, m.x32, m.x33⟩

/-- extracted from the C++ template at T = Sym; 1 path(s) -/
def Euler.M33_setRotation {α : Type} [Neg α] [OfNat α 0] [OfNat α 1] (sin : α → α) (cos : α → α) (r : α) : (M33 α) :=
  let t8764 := (cos r)
  let t8765 := (sin r)
  ⟨t8764, t8765, (0 : α), (-t8765), t8764, (0 : α), (0 : α), (0 : α), (1 : α)⟩

/-- extracted from the C++ template at T = Sym; 1 path(s) -/
def Euler.M22_setRotation {α : Type} [Neg α] (sin : α → α) (cos : α → α) (r : α) : (M22 α) :=
  let t8764 := (cos r)
  let t8765 := (sin r)
  ⟨t8764, t8765, (-t8765), t8764⟩

/-- extracted from the C++ template at T = Sym; 1 path(s) -/
def Euler.Quat_toMatrix33 {α : Type} [Add α] [Sub α] [Mul α] [OfNat α 1] [OfNat α 2] (q : Quat α) : (M33 α) :=
  let t309 := (q.v.x * q.v.x)
  let t310 := (q.v.y * q.v.y)
  let t315 := (q.v.x * q.r)
  let t316 := (q.v.y * q.v.z)
  let t319 := (q.v.y * q.r)
  let t320 := (q.v.z * q.v.x)
  let t325 := (q.v.z * q.v.z)
  let t329 := (q.v.z * q.r)
  let t330 := (q.v.x * q.v.y)
  ⟨((1 : α) - ((2 : α) * (t310 + t325))), ((2 : α) * (t330 + t329)), ((2 : α) * (t320 - t319)), ((2 : α) * (t330 - t329)), ((1 : α) - ((2 : α) * (t325 + t309))), ((2 : α) * (t316 + t315)), ((2 : α) * (t320 + t319)), ((2 : α) * (t316 - t315)), ((1 : α) - ((2 : α) * (t310 + t309)))⟩

/-- extracted from the C++ template at T = Sym; 1 path(s) -/
def Euler.Quat_toMatrix44 {α : Type} [Add α] [Sub α] [Mul α] [OfNat α 0] [OfNat α 1] [OfNat α 2] (q : Quat α) : (M44 α) :=
  let t309 := (q.v.x * q.v.x)
  let t310 := (q.v.y * q.v.y)
  let t315 := (q.v.x * q.r)
  let t316 := (q.v.y * q.v.z)
  let t319 := (q.v.y * q.r)
  let t320 := (q.v.z * q.v.x)
  let t325 := (q.v.z * q.v.z)
  let t329 := (q.v.z * q.r)
  let t330 := (q.v.x * q.v.y)
  ⟨((1 : α) - ((2 : α) * (t310 + t325))), ((2 : α) * (t330 + t329)), ((2 : α) * (t320 - t319)), (0 : α), ((2 : α) * (t330 - t329)), ((1 : α) - ((2 : α) * (t325 + t309))), ((2 : α) * (t316 + t315)), (0 : α), ((2 : α) * (t320 + t319)), ((2 : α) * (t316 - t315)), ((1 : α) - ((2 : α) * (t310 + t309))), (0 : α), (0 : α), (0 : α), (0 : α), (1 : α)⟩

/-- extracted from the C++ template at T = Sym; 8 path(s) -/
def Euler.extractEulerXYZ {α : Type} [Add α] [Mul α] [Div α] [Neg α] [LT α] [LE α] [DecidableLT α] [DecidableLE α] [DecidableEq α] [OfNat α 0] [OfNat α 1] [OfNat α 2] (tmin : α) (sqrt : α → α) (sin : α → α) (cos : α → α) (atan2 : α → α → α) (m : M44 α) : (V3 α) :=
  let t64 := (atan2 m.x12 m.x22)
  let t65 := (-t64)
  let t66 := (cos (0 : α))
  let t67 := (cos t65)
  let t68 := (sin (0 : α))
  let t69 := (sin t65)
  let t70 := (t66 * t66)
  let t71 := (t68 * t66)
  let t72 := (-t68)
  let t73 := (t66 * t68)
  let t76 := ((t72 * t67) + (t73 * t69))
  let t77 := (t68 * t68)
  let t80 := ((t66 * t67) + (t77 * t69))
  let t81 := (t66 * t69)
  let t89 := ((0 : α) * t72)
  let t90 := ((0 : α) * t71)
  let t93 := ((((1 : α) * t70) + t90) + t89)
  let t95 := ((0 : α) * t70)
  let t97 := ((t95 + ((1 : α) * t71)) + t89)
  let t99 := (t95 + t90)
  let t100 := (t99 + ((1 : α) * t72))
  let t102 := ((0 : α) * t81)
  let t103 := ((0 : α) * t80)
  let t106 := ((((1 : α) * t76) + t103) + t102)
  let t108 := ((0 : α) * t76)
  let t110 := ((t108 + ((1 : α) * t80)) + t102)
  let t112 := (t108 + t103)
  let t113 := (t112 + ((1 : α) * t81))
  let t128 := ((t99 + t89) * (0 : α))
  let t129 := (t100 * m.x20)
  let t130 := (t97 * m.x10)
  let t131 := (t93 * m.x00)
  let t132 := (t131 + t130)
  let t134 := ((t132 + t129) + t128)
  let t135 := (t100 * m.x21)
  let t136 := (t97 * m.x11)
  let t137 := (t93 * m.x01)
  let t138 := (t137 + t136)
  let t140 := ((t138 + t135) + t128)
  let t141 := (t100 * m.x22)
  let t142 := (t97 * m.x12)
  let t143 := (t93 * m.x02)
  let t144 := (t143 + t142)
  let t154 := ((t112 + t102) * (0 : α))
  let t155 := (t113 * m.x20)
  let t156 := (t110 * m.x10)
  let t161 := (t113 * m.x21)
  let t162 := (t110 * m.x11)
  let t8767 := (V3.length tmin sqrt ⟨m.x00, m.x01, m.x02⟩)
  let t8768 := (V3.length tmin sqrt ⟨m.x10, m.x11, m.x12⟩)
  let t8769 := (V3.length tmin sqrt ⟨m.x20, m.x21, m.x22⟩)
  let t8770 := (m.x20 / t8769)
  let t8771 := (m.x21 / t8769)
  let t8772 := (m.x22 / t8769)
  let t8773 := (atan2 m.x12 t8772)
  let t8774 := (-t8773)
  let t8775 := (cos t8774)
  let t8776 := (sin t8774)
  let t8779 := ((t72 * t8775) + (t73 * t8776))
  let t8782 := ((t66 * t8775) + (t77 * t8776))
  let t8783 := (t66 * t8776)
  let t8791 := ((0 : α) * t8783)
  let t8792 := ((0 : α) * t8782)
  let t8795 := ((((1 : α) * t8779) + t8792) + t8791)
  let t8797 := ((0 : α) * t8779)
  let t8799 := ((t8797 + ((1 : α) * t8782)) + t8791)
  let t8801 := (t8797 + t8792)
  let t8802 := (t8801 + ((1 : α) * t8783))
  let t8817 := (t100 * t8770)
  let t8819 := ((t132 + t8817) + t128)
  let t8820 := (t100 * t8771)
  let t8822 := ((t138 + t8820) + t128)
  let t8823 := (t100 * t8772)
  let t8826 := ((t8801 + t8791) * (0 : α))
  let t8827 := (t8802 * t8770)
  let t8828 := (t8799 * m.x10)
  let t8833 := (t8802 * t8771)
  let t8834 := (t8799 * m.x11)
  let t8895 := (m.x10 / t8768)
  let t8896 := (m.x11 / t8768)
  let t8897 := (m.x12 / t8768)
  let t8898 := (atan2 t8897 m.x22)
  let t8899 := (-t8898)
  let t8900 := (cos t8899)
  let t8901 := (sin t8899)
  let t8904 := ((t72 * t8900) + (t73 * t8901))
  let t8907 := ((t66 * t8900) + (t77 * t8901))
  let t8908 := (t66 * t8901)
  let t8916 := ((0 : α) * t8908)
  let t8917 := ((0 : α) * t8907)
  let t8920 := ((((1 : α) * t8904) + t8917) + t8916)
  let t8922 := ((0 : α) * t8904)
  let t8924 := ((t8922 + ((1 : α) * t8907)) + t8916)
  let t8926 := (t8922 + t8917)
  let t8927 := (t8926 + ((1 : α) * t8908))
  let t8942 := (t97 * t8895)
  let t8943 := (t131 + t8942)
  let t8945 := ((t8943 + t129) + t128)
  let t8946 := (t97 * t8896)
  let t8947 := (t137 + t8946)
  let t8949 := ((t8947 + t135) + t128)
  let t8950 := (t97 * t8897)
  let t8951 := (t143 + t8950)
  let t8954 := ((t8926 + t8916) * (0 : α))
  let t8955 := (t8927 * m.x20)
  let t8956 := (t8924 * t8895)
  let t8961 := (t8927 * m.x21)
  let t8962 := (t8924 * t8896)
  let t9026 := (atan2 t8897 t8772)
  let t9027 := (-t9026)
  let t9028 := (cos t9027)
  let t9029 := (sin t9027)
  let t9032 := ((t72 * t9028) + (t73 * t9029))
  let t9035 := ((t66 * t9028) + (t77 * t9029))
  let t9036 := (t66 * t9029)
  let t9044 := ((0 : α) * t9036)
  let t9045 := ((0 : α) * t9035)
  let t9048 := ((((1 : α) * t9032) + t9045) + t9044)
  let t9050 := ((0 : α) * t9032)
  let t9052 := ((t9050 + ((1 : α) * t9035)) + t9044)
  let t9054 := (t9050 + t9045)
  let t9055 := (t9054 + ((1 : α) * t9036))
  let t9071 := ((t8943 + t8817) + t128)
  let t9073 := ((t8947 + t8820) + t128)
  let t9076 := ((t9054 + t9044) * (0 : α))
  let t9077 := (t9055 * t8770)
  let t9078 := (t9052 * t8895)
  let t9083 := (t9055 * t8771)
  let t9084 := (t9052 * t8896)
  let t9142 := (m.x00 / t8767)
  let t9143 := (m.x01 / t8767)
  let t9145 := (t93 * t9142)
  let t9146 := (t9145 + t130)
  let t9148 := ((t9146 + t129) + t128)
  let t9149 := (t93 * t9143)
  let t9150 := (t9149 + t136)
  let t9152 := ((t9150 + t135) + t128)
  let t9153 := (t93 * (m.x02 / t8767))
  let t9154 := (t9153 + t142)
  let t9202 := ((t9146 + t8817) + t128)
  let t9204 := ((t9150 + t8820) + t128)
  let t9245 := (t9145 + t8942)
  let t9247 := ((t9245 + t129) + t128)
  let t9248 := (t9149 + t8946)
  let t9250 := ((t9248 + t135) + t128)
  let t9251 := (t9153 + t8950)
  let t9296 := ((t9245 + t8817) + t128)
  let t9298 := ((t9248 + t8820) + t128)
  if t8767 = (0 : α) then
    if t8768 = (0 : α) then
      if t8769 = (0 : α) then
        ⟨t64, (atan2 (-((t144 + t141) + t128)) (sqrt ((t134 * t134) + (t140 * t140)))), (atan2 (-((((t106 * m.x00) + t156) + t155) + t154)) ((((t106 * m.x01) + t162) + t161) + t154))⟩
      else
        ⟨t8773, (atan2 (-((t144 + t8823) + t128)) (sqrt ((t8819 * t8819) + (t8822 * t8822)))), (atan2 (-((((t8795 * m.x00) + t8828) + t8827) + t8826)) ((((t8795 * m.x01) + t8834) + t8833) + t8826))⟩
    else
      if t8769 = (0 : α) then
        ⟨t8898, (atan2 (-((t8951 + t141) + t128)) (sqrt ((t8945 * t8945) + (t8949 * t8949)))), (atan2 (-((((t8920 * m.x00) + t8956) + t8955) + t8954)) ((((t8920 * m.x01) + t8962) + t8961) + t8954))⟩
      else
        ⟨t9026, (atan2 (-((t8951 + t8823) + t128)) (sqrt ((t9071 * t9071) + (t9073 * t9073)))), (atan2 (-((((t9048 * m.x00) + t9078) + t9077) + t9076)) ((((t9048 * m.x01) + t9084) + t9083) + t9076))⟩
  else
    if t8768 = (0 : α) then
      if t8769 = (0 : α) then
        ⟨t64, (atan2 (-((t9154 + t141) + t128)) (sqrt ((t9148 * t9148) + (t9152 * t9152)))), (atan2 (-((((t106 * t9142) + t156) + t155) + t154)) ((((t106 * t9143) + t162) + t161) + t154))⟩
      else
        ⟨t8773, (atan2 (-((t9154 + t8823) + t128)) (sqrt ((t9202 * t9202) + (t9204 * t9204)))), (atan2 (-((((t8795 * t9142) + t8828) + t8827) + t8826)) ((((t8795 * t9143) + t8834) + t8833) + t8826))⟩
    else
      if t8769 = (0 : α) then
        ⟨t8898, (atan2 (-((t9251 + t141) + t128)) (sqrt ((t9247 * t9247) + (t9250 * t9250)))), (atan2 (-((((t8920 * t9142) + t8956) + t8955) + t8954)) ((((t8920 * t9143) + t8962) + t8961) + t8954))⟩
      else
        ⟨t9026, (atan2 (-((t9251 + t8823) + t128)) (sqrt ((t9296 * t9296) + (t9298 * t9298)))), (atan2 (-((((t9048 * t9142) + t9078) + t9077) + t9076)) ((((t9048 * t9143) + t9084) + t9083) + t9076))⟩

/-- extracted from the C++ template at T = Sym; 8 path(s) -/
def Euler.extractEulerZYX {α : Type} [Add α] [Mul α] [Div α] [Neg α] [LT α] [LE α] [DecidableLT α] [DecidableLE α] [DecidableEq α] [OfNat α 0] [OfNat α 1] [OfNat α 2] (tmin : α) (sqrt : α → α) (sin : α → α) (cos : α → α) (atan2 : α → α → α) (m : M44 α) : (V3 α) :=
  let t66 := (cos (0 : α))
  let t68 := (sin (0 : α))
  let t70 := (t66 * t66)
  let t72 := (-t68)
  let t73 := (t66 * t68)
  let t91 := ((1 : α) * t70)
  let t95 := ((0 : α) * t70)
  let t2448 := ((0 : α) * t73)
  let t2457 := ((1 : α) * t73)
  let t8767 := (V3.length tmin sqrt ⟨m.x00, m.x01, m.x02⟩)
  let t8768 := (V3.length tmin sqrt ⟨m.x10, m.x11, m.x12⟩)
  let t8769 := (V3.length tmin sqrt ⟨m.x20, m.x21, m.x22⟩)
  let t8770 := (m.x20 / t8769)
  let t8771 := (m.x21 / t8769)
  let t8772 := (m.x22 / t8769)
  let t8895 := (m.x10 / t8768)
  let t8896 := (m.x11 / t8768)
  let t8897 := (m.x12 / t8768)
  let t9142 := (m.x00 / t8767)
  let t9143 := (m.x01 / t8767)
  let t9144 := (m.x02 / t8767)
  let t9339 := (-(atan2 m.x10 m.x00))
  let t9340 := (-t9339)
  let t9341 := (cos t9340)
  let t9342 := (sin t9340)
  let t9345 := (t9341 * t68)
  let t9347 := (-t9342)
  let t9349 := ((t9347 * t66) + (t9345 * t68))
  let t9350 := (t9342 * t68)
  let t9352 := ((t9341 * t66) + (t9350 * t68))
  let t9355 := ((t9347 * t72) + (t9345 * t66))
  let t9358 := ((t9341 * t72) + (t9350 * t66))
  let t9370 := ((0 : α) * t9352)
  let t9373 := ((((1 : α) * t9349) + t9370) + t2448)
  let t9375 := ((0 : α) * t9349)
  let t9377 := ((t9375 + ((1 : α) * t9352)) + t2448)
  let t9378 := (t9375 + t9370)
  let t9379 := (t9378 + t2457)
  let t9381 := ((0 : α) * t9358)
  let t9384 := ((((1 : α) * t9355) + t9381) + t95)
  let t9386 := ((0 : α) * t9355)
  let t9388 := ((t9386 + ((1 : α) * t9358)) + t95)
  let t9389 := (t9386 + t9381)
  let t9390 := (t9389 + t91)
  let t9418 := ((t9378 + t2448) * (0 : α))
  let t9428 := ((t9373 * m.x01) + (t9377 * m.x11))
  let t9434 := ((t9373 * m.x02) + (t9377 * m.x12))
  let t9444 := ((t9389 + t95) * (0 : α))
  let t9448 := ((t9384 * m.x00) + (t9388 * m.x10))
  let t9454 := ((t9384 * m.x01) + (t9388 * m.x11))
  let t9456 := ((t9454 + (t9390 * m.x21)) + t9444)
  let t9460 := ((t9384 * m.x02) + (t9388 * m.x12))
  let t9462 := ((t9460 + (t9390 * m.x22)) + t9444)
  let t9503 := ((t9454 + (t9390 * t8771)) + t9444)
  let t9506 := ((t9460 + (t9390 * t8772)) + t9444)
  let t9518 := (-(atan2 t8895 m.x00))
  let t9519 := (-t9518)
  let t9520 := (cos t9519)
  let t9521 := (sin t9519)
  let t9524 := (t9520 * t68)
  let t9526 := (-t9521)
  let t9528 := ((t9526 * t66) + (t9524 * t68))
  let t9529 := (t9521 * t68)
  let t9531 := ((t9520 * t66) + (t9529 * t68))
  let t9534 := ((t9526 * t72) + (t9524 * t66))
  let t9537 := ((t9520 * t72) + (t9529 * t66))
  let t9549 := ((0 : α) * t9531)
  let t9552 := ((((1 : α) * t9528) + t9549) + t2448)
  let t9554 := ((0 : α) * t9528)
  let t9556 := ((t9554 + ((1 : α) * t9531)) + t2448)
  let t9557 := (t9554 + t9549)
  let t9558 := (t9557 + t2457)
  let t9560 := ((0 : α) * t9537)
  let t9563 := ((((1 : α) * t9534) + t9560) + t95)
  let t9565 := ((0 : α) * t9534)
  let t9567 := ((t9565 + ((1 : α) * t9537)) + t95)
  let t9568 := (t9565 + t9560)
  let t9569 := (t9568 + t91)
  let t9597 := ((t9557 + t2448) * (0 : α))
  let t9607 := ((t9552 * m.x01) + (t9556 * t8896))
  let t9613 := ((t9552 * m.x02) + (t9556 * t8897))
  let t9623 := ((t9568 + t95) * (0 : α))
  let t9627 := ((t9563 * m.x00) + (t9567 * t8895))
  let t9633 := ((t9563 * m.x01) + (t9567 * t8896))
  let t9635 := ((t9633 + (t9569 * m.x21)) + t9623)
  let t9639 := ((t9563 * m.x02) + (t9567 * t8897))
  let t9641 := ((t9639 + (t9569 * m.x22)) + t9623)
  let t9682 := ((t9633 + (t9569 * t8771)) + t9623)
  let t9685 := ((t9639 + (t9569 * t8772)) + t9623)
  let t9697 := (-(atan2 m.x10 t9142))
  let t9698 := (-t9697)
  let t9699 := (cos t9698)
  let t9700 := (sin t9698)
  let t9703 := (t9699 * t68)
  let t9705 := (-t9700)
  let t9707 := ((t9705 * t66) + (t9703 * t68))
  let t9708 := (t9700 * t68)
  let t9710 := ((t9699 * t66) + (t9708 * t68))
  let t9713 := ((t9705 * t72) + (t9703 * t66))
  let t9716 := ((t9699 * t72) + (t9708 * t66))
  let t9728 := ((0 : α) * t9710)
  let t9731 := ((((1 : α) * t9707) + t9728) + t2448)
  let t9733 := ((0 : α) * t9707)
  let t9735 := ((t9733 + ((1 : α) * t9710)) + t2448)
  let t9736 := (t9733 + t9728)
  let t9737 := (t9736 + t2457)
  let t9739 := ((0 : α) * t9716)
  let t9742 := ((((1 : α) * t9713) + t9739) + t95)
  let t9744 := ((0 : α) * t9713)
  let t9746 := ((t9744 + ((1 : α) * t9716)) + t95)
  let t9747 := (t9744 + t9739)
  let t9748 := (t9747 + t91)
  let t9776 := ((t9736 + t2448) * (0 : α))
  let t9786 := ((t9731 * t9143) + (t9735 * m.x11))
  let t9792 := ((t9731 * t9144) + (t9735 * m.x12))
  let t9802 := ((t9747 + t95) * (0 : α))
  let t9806 := ((t9742 * t9142) + (t9746 * m.x10))
  let t9812 := ((t9742 * t9143) + (t9746 * m.x11))
  let t9814 := ((t9812 + (t9748 * m.x21)) + t9802)
  let t9818 := ((t9742 * t9144) + (t9746 * m.x12))
  let t9820 := ((t9818 + (t9748 * m.x22)) + t9802)
  let t9861 := ((t9812 + (t9748 * t8771)) + t9802)
  let t9864 := ((t9818 + (t9748 * t8772)) + t9802)
  let t9876 := (-(atan2 t8895 t9142))
  let t9877 := (-t9876)
  let t9878 := (cos t9877)
  let t9879 := (sin t9877)
  let t9882 := (t9878 * t68)
  let t9884 := (-t9879)
  let t9886 := ((t9884 * t66) + (t9882 * t68))
  let t9887 := (t9879 * t68)
  let t9889 := ((t9878 * t66) + (t9887 * t68))
  let t9892 := ((t9884 * t72) + (t9882 * t66))
  let t9895 := ((t9878 * t72) + (t9887 * t66))
  let t9907 := ((0 : α) * t9889)
  let t9910 := ((((1 : α) * t9886) + t9907) + t2448)
  let t9912 := ((0 : α) * t9886)
  let t9914 := ((t9912 + ((1 : α) * t9889)) + t2448)
  let t9915 := (t9912 + t9907)
  let t9916 := (t9915 + t2457)
  let t9918 := ((0 : α) * t9895)
  let t9921 := ((((1 : α) * t9892) + t9918) + t95)
  let t9923 := ((0 : α) * t9892)
  let t9925 := ((t9923 + ((1 : α) * t9895)) + t95)
  let t9926 := (t9923 + t9918)
  let t9927 := (t9926 + t91)
  let t9955 := ((t9915 + t2448) * (0 : α))
  let t9965 := ((t9910 * t9143) + (t9914 * t8896))
  let t9971 := ((t9910 * t9144) + (t9914 * t8897))
  let t9981 := ((t9926 + t95) * (0 : α))
  let t9985 := ((t9921 * t9142) + (t9925 * t8895))
  let t9991 := ((t9921 * t9143) + (t9925 * t8896))
  let t9993 := ((t9991 + (t9927 * m.x21)) + t9981)
  let t9997 := ((t9921 * t9144) + (t9925 * t8897))
  let t9999 := ((t9997 + (t9927 * m.x22)) + t9981)
  let t10040 := ((t9991 + (t9927 * t8771)) + t9981)
  let t10043 := ((t9997 + (t9927 * t8772)) + t9981)
  if t8767 = (0 : α) then
    if t8768 = (0 : α) then
      if t8769 = (0 : α) then
        ⟨t9339, (-(atan2 (-((t9448 + (t9390 * m.x20)) + t9444)) (sqrt ((t9462 * t9462) + (t9456 * t9456))))), (-(atan2 (-((t9434 + (t9379 * m.x22)) + t9418)) ((t9428 + (t9379 * m.x21)) + t9418)))⟩
      else
        ⟨t9339, (-(atan2 (-((t9448 + (t9390 * t8770)) + t9444)) (sqrt ((t9506 * t9506) + (t9503 * t9503))))), (-(atan2 (-((t9434 + (t9379 * t8772)) + t9418)) ((t9428 + (t9379 * t8771)) + t9418)))⟩
    else
      if t8769 = (0 : α) then
        ⟨t9518, (-(atan2 (-((t9627 + (t9569 * m.x20)) + t9623)) (sqrt ((t9641 * t9641) + (t9635 * t9635))))), (-(atan2 (-((t9613 + (t9558 * m.x22)) + t9597)) ((t9607 + (t9558 * m.x21)) + t9597)))⟩
      else
        ⟨t9518, (-(atan2 (-((t9627 + (t9569 * t8770)) + t9623)) (sqrt ((t9685 * t9685) + (t9682 * t9682))))), (-(atan2 (-((t9613 + (t9558 * t8772)) + t9597)) ((t9607 + (t9558 * t8771)) + t9597)))⟩
  else
    if t8768 = (0 : α) then
      if t8769 = (0 : α) then
        ⟨t9697, (-(atan2 (-((t9806 + (t9748 * m.x20)) + t9802)) (sqrt ((t9820 * t9820) + (t9814 * t9814))))), (-(atan2 (-((t9792 + (t9737 * m.x22)) + t9776)) ((t9786 + (t9737 * m.x21)) + t9776)))⟩
      else
        ⟨t9697, (-(atan2 (-((t9806 + (t9748 * t8770)) + t9802)) (sqrt ((t9864 * t9864) + (t9861 * t9861))))), (-(atan2 (-((t9792 + (t9737 * t8772)) + t9776)) ((t9786 + (t9737 * t8771)) + t9776)))⟩
    else
      if t8769 = (0 : α) then
        ⟨t9876, (-(atan2 (-((t9985 + (t9927 * m.x20)) + t9981)) (sqrt ((t9999 * t9999) + (t9993 * t9993))))), (-(atan2 (-((t9971 + (t9916 * m.x22)) + t9955)) ((t9965 + (t9916 * m.x21)) + t9955)))⟩
      else
        ⟨t9876, (-(atan2 (-((t9985 + (t9927 * t8770)) + t9981)) (sqrt ((t10043 * t10043) + (t10040 * t10040))))), (-(atan2 (-((t9971 + (t9916 * t8772)) + t9955)) ((t9965 + (t9916 * t8771)) + t9955)))⟩

/-- extracted from the C++ template at T = Sym; 4 path(s) -/
def Euler.extractEuler22 {α : Type} [Add α] [Mul α] [Div α] [Neg α] [LT α] [DecidableLT α] [DecidableEq α] [OfNat α 0] [OfNat α 2] (tmin : α) (sqrt : α → α) (atan2 : α → α → α) (m : M22 α) : α :=
  let t10054 := (V2.length tmin sqrt ⟨m.x00, m.x01⟩)
  let t10055 := (V2.length tmin sqrt ⟨m.x10, m.x11⟩)
  let t10056 := (m.x10 / t10055)
  let t10060 := (m.x00 / t10054)
  if t10054 = (0 : α) then
    if t10055 = (0 : α) then
      (-(atan2 m.x10 m.x00))
    else
      (-(atan2 t10056 m.x00))
  else
    if t10055 = (0 : α) then
      (-(atan2 m.x10 t10060))
    else
      (-(atan2 t10056 t10060))

/-- extracted from the C++ template at T = Sym; 4 path(s) -/
def Euler.extractEuler33 {α : Type} [Add α] [Mul α] [Div α] [Neg α] [LT α] [DecidableLT α] [DecidableEq α] [OfNat α 0] [OfNat α 2] (tmin : α) (sqrt : α → α) (atan2 : α → α → α) (m : M33 α) : α :=
  let t10054 := (V2.length tmin sqrt ⟨m.x00, m.x01⟩)
  let t10055 := (V2.length tmin sqrt ⟨m.x10, m.x11⟩)
  let t10056 := (m.x10 / t10055)
  let t10060 := (m.x00 / t10054)
  if t10054 = (0 : α) then
    if t10055 = (0 : α) then
      (-(atan2 m.x10 m.x00))
    else
      (-(atan2 t10056 m.x00))
  else
    if t10055 = (0 : α) then
      (-(atan2 m.x10 t10060))
    else
      (-(atan2 t10056 t10060))

/-- extracted from the C++ template at T = Sym; 1 path(s) -/
def Euler.simpleXYZRotation {α : Type} [Add α] [Sub α] (angleMod : α → α) (xyzRot : V3 α) (target : V3 α) : (V3 α) :=
  ⟨(target.x + (angleMod (xyzRot.x - target.x))), (target.y + (angleMod (xyzRot.y - target.y))), (target.z + (angleMod (xyzRot.z - target.z)))⟩

/-- extracted from the C++ template at T = Sym; 2 path(s) -/
def Euler.nearestRotation_XYZ {α : Type} [Add α] [Sub α] [Mul α] [Div α] [LT α] [DecidableLT α] [OfNat α 281474976710656] [OfNat α 884279719003555] (angleMod : α → α) (xyzRot : V3 α) (target : V3 α) : (V3 α) :=
  let t10076 := (target.x + (angleMod (xyzRot.x - target.x)))
  let t10078 := (target.y + (angleMod (xyzRot.y - target.y)))
  let t10080 := (target.z + (angleMod (xyzRot.z - target.z)))
  let t10089 := (target.x + (angleMod ((((884279719003555 : α) / (281474976710656 : α)) + t10076) - target.x)))
  let t10091 := (target.y + (angleMod ((((884279719003555 : α) / (281474976710656 : α)) - t10078) - target.y)))
  let t10093 := (target.z + (angleMod ((((884279719003555 : α) / (281474976710656 : α)) + t10080) - target.z)))
  let t10094 := (t10080 - target.z)
  let t10095 := (t10078 - target.y)
  let t10096 := (t10076 - target.x)
  let t10097 := (t10093 - target.z)
  let t10098 := (t10091 - target.y)
  let t10099 := (t10089 - target.x)
  let t10104 := (((t10096 * t10096) + (t10095 * t10095)) + (t10094 * t10094))
  let t10109 := (((t10099 * t10099) + (t10098 * t10098)) + (t10097 * t10097))
  if t10109 < t10104 then
    ⟨t10089, t10091, t10093⟩
  else
    ⟨t10076, t10078, t10080⟩

/-- extracted from the C++ template at T = Sym; 2 path(s) -/
def Euler.makeNear_XYZ {α : Type} [Add α] [Sub α] [Mul α] [Div α] [LT α] [DecidableLT α] [OfNat α 281474976710656] [OfNat α 884279719003555] (angleMod : α → α) (a : V3 α) (t : V3 α) : ((V3 α) × Int) :=
  let t10117 := (t.x + (angleMod (a.x - t.x)))
  let t10119 := (t.y + (angleMod (a.y - t.y)))
  let t10121 := (t.z + (angleMod (a.z - t.z)))
  let t10129 := (t.x + (angleMod ((((884279719003555 : α) / (281474976710656 : α)) + t10117) - t.x)))
  let t10131 := (t.y + (angleMod ((((884279719003555 : α) / (281474976710656 : α)) - t10119) - t.y)))
  let t10133 := (t.z + (angleMod ((((884279719003555 : α) / (281474976710656 : α)) + t10121) - t.z)))
  let t10134 := (t10121 - t.z)
  let t10135 := (t10119 - t.y)
  let t10136 := (t10117 - t.x)
  let t10137 := (t10133 - t.z)
  let t10138 := (t10131 - t.y)
  let t10139 := (t10129 - t.x)
  let t10144 := (((t10136 * t10136) + (t10135 * t10135)) + (t10134 * t10134))
  let t10149 := (((t10139 * t10139) + (t10138 * t10138)) + (t10137 * t10137))
  if t10149 < t10144 then
    (⟨t10129, t10131, t10133⟩, (257 : Int))
  else
    (⟨t10117, t10119, t10121⟩, (257 : Int))

/-- extracted from the C++ template at T = Sym; 2 path(s) -/
def Euler.nearestRotation_XZY {α : Type} [Add α] [Sub α] [Mul α] [Div α] [LT α] [DecidableLT α] [OfNat α 281474976710656] [OfNat α 884279719003555] (angleMod : α → α) (xyzRot : V3 α) (target : V3 α) : (V3 α) :=
  let t10076 := (target.x + (angleMod (xyzRot.x - target.x)))
  let t10078 := (target.y + (angleMod (xyzRot.y - target.y)))
  let t10080 := (target.z + (angleMod (xyzRot.z - target.z)))
  let t10089 := (target.x + (angleMod ((((884279719003555 : α) / (281474976710656 : α)) + t10076) - target.x)))
  let t10094 := (t10080 - target.z)
  let t10095 := (t10078 - target.y)
  let t10096 := (t10076 - target.x)
  let t10099 := (t10089 - target.x)
  let t10104 := (((t10096 * t10096) + (t10095 * t10095)) + (t10094 * t10094))
  let t10155 := (target.y + (angleMod ((((884279719003555 : α) / (281474976710656 : α)) + t10078) - target.y)))
  let t10157 := (target.z + (angleMod ((((884279719003555 : α) / (281474976710656 : α)) - t10080) - target.z)))
  let t10158 := (t10157 - target.z)
  let t10159 := (t10155 - target.y)
  let t10163 := (((t10099 * t10099) + (t10159 * t10159)) + (t10158 * t10158))
  if t10163 < t10104 then
    ⟨t10089, t10155, t10157⟩
  else
    ⟨t10076, t10078, t10080⟩

/-- extracted from the C++ template at T = Sym; 2 path(s) -/
def Euler.makeNear_XZY {α : Type} [Add α] [Sub α] [Mul α] [Div α] [LT α] [DecidableLT α] [OfNat α 281474976710656] [OfNat α 884279719003555] (angleMod : α → α) (a : V3 α) (t : V3 α) : ((V3 α) × Int) :=
  let t10117 := (t.x + (angleMod (a.x - t.x)))
  let t10119 := (t.y + (angleMod (a.y - t.y)))
  let t10121 := (t.z + (angleMod (a.z - t.z)))
  let t10129 := (t.x + (angleMod ((((884279719003555 : α) / (281474976710656 : α)) + t10117) - t.x)))
  let t10131 := (t.y + (angleMod ((((884279719003555 : α) / (281474976710656 : α)) - t10119) - t.y)))
  let t10133 := (t.z + (angleMod ((((884279719003555 : α) / (281474976710656 : α)) + t10121) - t.z)))
  let t10134 := (t10121 - t.z)
  let t10135 := (t10119 - t.y)
  let t10136 := (t10117 - t.x)
  let t10137 := (t10133 - t.z)
  let t10138 := (t10131 - t.y)
  let t10139 := (t10129 - t.x)
  let t10165 := (((t10136 * t10136) + (t10134 * t10134)) + (t10135 * t10135))
  let t10167 := (((t10139 * t10139) + (t10137 * t10137)) + (t10138 * t10138))
  if t10167 < t10165 then
    (⟨t10129, t10131, t10133⟩, (1 : Int))
  else
    (⟨t10117, t10119, t10121⟩, (1 : Int))

/-- extracted from the C++ template at T = Sym; 2 path(s) -/
def Euler.nearestRotation_YZX {α : Type} [Add α] [Sub α] [Mul α] [Div α] [LT α] [DecidableLT α] [OfNat α 281474976710656] [OfNat α 884279719003555] (angleMod : α → α) (xyzRot : V3 α) (target : V3 α) : (V3 α) :=
  let t10076 := (target.x + (angleMod (xyzRot.x - target.x)))
  let t10078 := (target.y + (angleMod (xyzRot.y - target.y)))
  let t10080 := (target.z + (angleMod (xyzRot.z - target.z)))
  let t10089 := (target.x + (angleMod ((((884279719003555 : α) / (281474976710656 : α)) + t10076) - target.x)))
  let t10094 := (t10080 - target.z)
  let t10095 := (t10078 - target.y)
  let t10096 := (t10076 - target.x)
  let t10099 := (t10089 - target.x)
  let t10104 := (((t10096 * t10096) + (t10095 * t10095)) + (t10094 * t10094))
  let t10155 := (target.y + (angleMod ((((884279719003555 : α) / (281474976710656 : α)) + t10078) - target.y)))
  let t10157 := (target.z + (angleMod ((((884279719003555 : α) / (281474976710656 : α)) - t10080) - target.z)))
  let t10158 := (t10157 - target.z)
  let t10159 := (t10155 - target.y)
  let t10163 := (((t10099 * t10099) + (t10159 * t10159)) + (t10158 * t10158))
  if t10163 < t10104 then
    ⟨t10089, t10155, t10157⟩
  else
    ⟨t10076, t10078, t10080⟩

/-- extracted from the C++ template at T = Sym; 2 path(s) -/
def Euler.makeNear_YZX {α : Type} [Add α] [Sub α] [Mul α] [Div α] [LT α] [DecidableLT α] [OfNat α 281474976710656] [OfNat α 884279719003555] (angleMod : α → α) (a : V3 α) (t : V3 α) : ((V3 α) × Int) :=
  let t10117 := (t.x + (angleMod (a.x - t.x)))
  let t10119 := (t.y + (angleMod (a.y - t.y)))
  let t10121 := (t.z + (angleMod (a.z - t.z)))
  let t10129 := (t.x + (angleMod ((((884279719003555 : α) / (281474976710656 : α)) + t10117) - t.x)))
  let t10131 := (t.y + (angleMod ((((884279719003555 : α) / (281474976710656 : α)) - t10119) - t.y)))
  let t10133 := (t.z + (angleMod ((((884279719003555 : α) / (281474976710656 : α)) + t10121) - t.z)))
  let t10134 := (t10121 - t.z)
  let t10135 := (t10119 - t.y)
  let t10136 := (t10117 - t.x)
  let t10137 := (t10133 - t.z)
  let t10138 := (t10131 - t.y)
  let t10139 := (t10129 - t.x)
  let t10169 := (((t10134 * t10134) + (t10136 * t10136)) + (t10135 * t10135))
  let t10171 := (((t10137 * t10137) + (t10139 * t10139)) + (t10138 * t10138))
  if t10171 < t10169 then
    (⟨t10129, t10131, t10133⟩, (4353 : Int))
  else
    (⟨t10117, t10119, t10121⟩, (4353 : Int))

/-- extracted from the C++ template at T = Sym; 2 path(s) -/
def Euler.nearestRotation_YXZ {α : Type} [Add α] [Sub α] [Mul α] [Div α] [LT α] [DecidableLT α] [OfNat α 281474976710656] [OfNat α 884279719003555] (angleMod : α → α) (xyzRot : V3 α) (target : V3 α) : (V3 α) :=
  let t10076 := (target.x + (angleMod (xyzRot.x - target.x)))
  let t10078 := (target.y + (angleMod (xyzRot.y - target.y)))
  let t10080 := (target.z + (angleMod (xyzRot.z - target.z)))
  let t10093 := (target.z + (angleMod ((((884279719003555 : α) / (281474976710656 : α)) + t10080) - target.z)))
  let t10094 := (t10080 - target.z)
  let t10095 := (t10078 - target.y)
  let t10096 := (t10076 - target.x)
  let t10097 := (t10093 - target.z)
  let t10104 := (((t10096 * t10096) + (t10095 * t10095)) + (t10094 * t10094))
  let t10155 := (target.y + (angleMod ((((884279719003555 : α) / (281474976710656 : α)) + t10078) - target.y)))
  let t10159 := (t10155 - target.y)
  let t10175 := (target.x + (angleMod ((((884279719003555 : α) / (281474976710656 : α)) - t10076) - target.x)))
  let t10176 := (t10175 - target.x)
  let t10179 := (((t10176 * t10176) + (t10159 * t10159)) + (t10097 * t10097))
  if t10179 < t10104 then
    ⟨t10175, t10155, t10093⟩
  else
    ⟨t10076, t10078, t10080⟩

/-- extracted from the C++ template at T = Sym; 2 path(s) -/
def Euler.makeNear_YXZ {α : Type} [Add α] [Sub α] [Mul α] [Div α] [LT α] [DecidableLT α] [OfNat α 281474976710656] [OfNat α 884279719003555] (angleMod : α → α) (a : V3 α) (t : V3 α) : ((V3 α) × Int) :=
  let t10117 := (t.x + (angleMod (a.x - t.x)))
  let t10119 := (t.y + (angleMod (a.y - t.y)))
  let t10121 := (t.z + (angleMod (a.z - t.z)))
  let t10129 := (t.x + (angleMod ((((884279719003555 : α) / (281474976710656 : α)) + t10117) - t.x)))
  let t10131 := (t.y + (angleMod ((((884279719003555 : α) / (281474976710656 : α)) - t10119) - t.y)))
  let t10133 := (t.z + (angleMod ((((884279719003555 : α) / (281474976710656 : α)) + t10121) - t.z)))
  let t10134 := (t10121 - t.z)
  let t10135 := (t10119 - t.y)
  let t10136 := (t10117 - t.x)
  let t10137 := (t10133 - t.z)
  let t10138 := (t10131 - t.y)
  let t10139 := (t10129 - t.x)
  let t10181 := (((t10135 * t10135) + (t10136 * t10136)) + (t10134 * t10134))
  let t10183 := (((t10138 * t10138) + (t10139 * t10139)) + (t10137 * t10137))
  if t10183 < t10181 then
    (⟨t10129, t10131, t10133⟩, (4097 : Int))
  else
    (⟨t10117, t10119, t10121⟩, (4097 : Int))

/-- extracted from the C++ template at T = Sym; 2 path(s) -/
def Euler.nearestRotation_ZXY {α : Type} [Add α] [Sub α] [Mul α] [Div α] [LT α] [DecidableLT α] [OfNat α 281474976710656] [OfNat α 884279719003555] (angleMod : α → α) (xyzRot : V3 α) (target : V3 α) : (V3 α) :=
  let t10076 := (target.x + (angleMod (xyzRot.x - target.x)))
  let t10078 := (target.y + (angleMod (xyzRot.y - target.y)))
  let t10080 := (target.z + (angleMod (xyzRot.z - target.z)))
  let t10093 := (target.z + (angleMod ((((884279719003555 : α) / (281474976710656 : α)) + t10080) - target.z)))
  let t10094 := (t10080 - target.z)
  let t10095 := (t10078 - target.y)
  let t10096 := (t10076 - target.x)
  let t10097 := (t10093 - target.z)
  let t10104 := (((t10096 * t10096) + (t10095 * t10095)) + (t10094 * t10094))
  let t10155 := (target.y + (angleMod ((((884279719003555 : α) / (281474976710656 : α)) + t10078) - target.y)))
  let t10159 := (t10155 - target.y)
  let t10175 := (target.x + (angleMod ((((884279719003555 : α) / (281474976710656 : α)) - t10076) - target.x)))
  let t10176 := (t10175 - target.x)
  let t10179 := (((t10176 * t10176) + (t10159 * t10159)) + (t10097 * t10097))
  if t10179 < t10104 then
    ⟨t10175, t10155, t10093⟩
  else
    ⟨t10076, t10078, t10080⟩

/-- extracted from the C++ template at T = Sym; 2 path(s) -/
def Euler.makeNear_ZXY {α : Type} [Add α] [Sub α] [Mul α] [Div α] [LT α] [DecidableLT α] [OfNat α 281474976710656] [OfNat α 884279719003555] (angleMod : α → α) (a : V3 α) (t : V3 α) : ((V3 α) × Int) :=
  let t10117 := (t.x + (angleMod (a.x - t.x)))
  let t10119 := (t.y + (angleMod (a.y - t.y)))
  let t10121 := (t.z + (angleMod (a.z - t.z)))
  let t10129 := (t.x + (angleMod ((((884279719003555 : α) / (281474976710656 : α)) + t10117) - t.x)))
  let t10131 := (t.y + (angleMod ((((884279719003555 : α) / (281474976710656 : α)) - t10119) - t.y)))
  let t10133 := (t.z + (angleMod ((((884279719003555 : α) / (281474976710656 : α)) + t10121) - t.z)))
  let t10134 := (t10121 - t.z)
  let t10135 := (t10119 - t.y)
  let t10136 := (t10117 - t.x)
  let t10137 := (t10133 - t.z)
  let t10138 := (t10131 - t.y)
  let t10139 := (t10129 - t.x)
  let t10185 := (((t10135 * t10135) + (t10134 * t10134)) + (t10136 * t10136))
  let t10187 := (((t10138 * t10138) + (t10137 * t10137)) + (t10139 * t10139))
  if t10187 < t10185 then
    (⟨t10129, t10131, t10133⟩, (8449 : Int))
  else
    (⟨t10117, t10119, t10121⟩, (8449 : Int))

/-- extracted from the C++ template at T = Sym; 2 path(s) -/
def Euler.nearestRotation_ZYX {α : Type} [Add α] [Sub α] [Mul α] [Div α] [LT α] [DecidableLT α] [OfNat α 281474976710656] [OfNat α 884279719003555] (angleMod : α → α) (xyzRot : V3 α) (target : V3 α) : (V3 α) :=
  let t10076 := (target.x + (angleMod (xyzRot.x - target.x)))
  let t10078 := (target.y + (angleMod (xyzRot.y - target.y)))
  let t10080 := (target.z + (angleMod (xyzRot.z - target.z)))
  let t10089 := (target.x + (angleMod ((((884279719003555 : α) / (281474976710656 : α)) + t10076) - target.x)))
  let t10091 := (target.y + (angleMod ((((884279719003555 : α) / (281474976710656 : α)) - t10078) - target.y)))
  let t10093 := (target.z + (angleMod ((((884279719003555 : α) / (281474976710656 : α)) + t10080) - target.z)))
  let t10094 := (t10080 - target.z)
  let t10095 := (t10078 - target.y)
  let t10096 := (t10076 - target.x)
  let t10097 := (t10093 - target.z)
  let t10098 := (t10091 - target.y)
  let t10099 := (t10089 - target.x)
  let t10104 := (((t10096 * t10096) + (t10095 * t10095)) + (t10094 * t10094))
  let t10109 := (((t10099 * t10099) + (t10098 * t10098)) + (t10097 * t10097))
  if t10109 < t10104 then
    ⟨t10089, t10091, t10093⟩
  else
    ⟨t10076, t10078, t10080⟩

/-- extracted from the C++ template at T = Sym; 2 path(s) -/
def Euler.makeNear_ZYX {α : Type} [Add α] [Sub α] [Mul α] [Div α] [LT α] [DecidableLT α] [OfNat α 281474976710656] [OfNat α 884279719003555] (angleMod : α → α) (a : V3 α) (t : V3 α) : ((V3 α) × Int) :=
  let t10117 := (t.x + (angleMod (a.x - t.x)))
  let t10119 := (t.y + (angleMod (a.y - t.y)))
  let t10121 := (t.z + (angleMod (a.z - t.z)))
  let t10129 := (t.x + (angleMod ((((884279719003555 : α) / (281474976710656 : α)) + t10117) - t.x)))
  let t10131 := (t.y + (angleMod ((((884279719003555 : α) / (281474976710656 : α)) - t10119) - t.y)))
  let t10133 := (t.z + (angleMod ((((884279719003555 : α) / (281474976710656 : α)) + t10121) - t.z)))
  let t10134 := (t10121 - t.z)
  let t10135 := (t10119 - t.y)
  let t10136 := (t10117 - t.x)
  let t10137 := (t10133 - t.z)
  let t10138 := (t10131 - t.y)
  let t10139 := (t10129 - t.x)
  let t10189 := (((t10134 * t10134) + (t10135 * t10135)) + (t10136 * t10136))
  let t10191 := (((t10137 * t10137) + (t10138 * t10138)) + (t10139 * t10139))
  if t10191 < t10189 then
    (⟨t10129, t10131, t10133⟩, (8193 : Int))
  else
    (⟨t10117, t10119, t10121⟩, (8193 : Int))

/-- extracted from the C++ template at T = Sym; 2 path(s) -/
def Euler.nearestRotation_XZX {α : Type} [Add α] [Sub α] [Mul α] [Div α] [LT α] [DecidableLT α] [OfNat α 281474976710656] [OfNat α 884279719003555] (angleMod : α → α) (xyzRot : V3 α) (target : V3 α) : (V3 α) :=
  let t10076 := (target.x + (angleMod (xyzRot.x - target.x)))
  let t10078 := (target.y + (angleMod (xyzRot.y - target.y)))
  let t10080 := (target.z + (angleMod (xyzRot.z - target.z)))
  let t10089 := (target.x + (angleMod ((((884279719003555 : α) / (281474976710656 : α)) + t10076) - target.x)))
  let t10094 := (t10080 - target.z)
  let t10095 := (t10078 - target.y)
  let t10096 := (t10076 - target.x)
  let t10099 := (t10089 - target.x)
  let t10104 := (((t10096 * t10096) + (t10095 * t10095)) + (t10094 * t10094))
  let t10155 := (target.y + (angleMod ((((884279719003555 : α) / (281474976710656 : α)) + t10078) - target.y)))
  let t10157 := (target.z + (angleMod ((((884279719003555 : α) / (281474976710656 : α)) - t10080) - target.z)))
  let t10158 := (t10157 - target.z)
  let t10159 := (t10155 - target.y)
  let t10163 := (((t10099 * t10099) + (t10159 * t10159)) + (t10158 * t10158))
  if t10163 < t10104 then
    ⟨t10089, t10155, t10157⟩
  else
    ⟨t10076, t10078, t10080⟩

/-- extracted from the C++ template at T = Sym; 2 path(s) -/
def Euler.makeNear_XZX {α : Type} [Add α] [Sub α] [Mul α] [Div α] [LT α] [DecidableLT α] [OfNat α 281474976710656] [OfNat α 884279719003555] (angleMod : α → α) (a : V3 α) (t : V3 α) : ((V3 α) × Int) :=
  let t10117 := (t.x + (angleMod (a.x - t.x)))
  let t10119 := (t.y + (angleMod (a.y - t.y)))
  let t10121 := (t.z + (angleMod (a.z - t.z)))
  let t10129 := (t.x + (angleMod ((((884279719003555 : α) / (281474976710656 : α)) + t10117) - t.x)))
  let t10131 := (t.y + (angleMod ((((884279719003555 : α) / (281474976710656 : α)) - t10119) - t.y)))
  let t10133 := (t.z + (angleMod ((((884279719003555 : α) / (281474976710656 : α)) + t10121) - t.z)))
  let t10134 := (t10121 - t.z)
  let t10135 := (t10119 - t.y)
  let t10136 := (t10117 - t.x)
  let t10137 := (t10133 - t.z)
  let t10138 := (t10131 - t.y)
  let t10139 := (t10129 - t.x)
  let t10165 := (((t10136 * t10136) + (t10134 * t10134)) + (t10135 * t10135))
  let t10167 := (((t10139 * t10139) + (t10137 * t10137)) + (t10138 * t10138))
  if t10167 < t10165 then
    (⟨t10129, t10131, t10133⟩, (17 : Int))
  else
    (⟨t10117, t10119, t10121⟩, (17 : Int))

/-- extracted from the C++ template at T = Sym; 2 path(s) -/
def Euler.nearestRotation_XYX {α : Type} [Add α] [Sub α] [Mul α] [Div α] [LT α] [DecidableLT α] [OfNat α 281474976710656] [OfNat α 884279719003555] (angleMod : α → α) (xyzRot : V3 α) (target : V3 α) : (V3 α) :=
  let t10076 := (target.x + (angleMod (xyzRot.x - target.x)))
  let t10078 := (target.y + (angleMod (xyzRot.y - target.y)))
  let t10080 := (target.z + (angleMod (xyzRot.z - target.z)))
  let t10089 := (target.x + (angleMod ((((884279719003555 : α) / (281474976710656 : α)) + t10076) - target.x)))
  let t10091 := (target.y + (angleMod ((((884279719003555 : α) / (281474976710656 : α)) - t10078) - target.y)))
  let t10093 := (target.z + (angleMod ((((884279719003555 : α) / (281474976710656 : α)) + t10080) - target.z)))
  let t10094 := (t10080 - target.z)
  let t10095 := (t10078 - target.y)
  let t10096 := (t10076 - target.x)
  let t10097 := (t10093 - target.z)
  let t10098 := (t10091 - target.y)
  let t10099 := (t10089 - target.x)
  let t10104 := (((t10096 * t10096) + (t10095 * t10095)) + (t10094 * t10094))
  let t10109 := (((t10099 * t10099) + (t10098 * t10098)) + (t10097 * t10097))
  if t10109 < t10104 then
    ⟨t10089, t10091, t10093⟩
  else
    ⟨t10076, t10078, t10080⟩

/-- extracted from the C++ template at T = Sym; 2 path(s) -/
def Euler.makeNear_XYX {α : Type} [Add α] [Sub α] [Mul α] [Div α] [LT α] [DecidableLT α] [OfNat α 281474976710656] [OfNat α 884279719003555] (angleMod : α → α) (a : V3 α) (t : V3 α) : ((V3 α) × Int) :=
  let t10117 := (t.x + (angleMod (a.x - t.x)))
  let t10119 := (t.y + (angleMod (a.y - t.y)))
  let t10121 := (t.z + (angleMod (a.z - t.z)))
  let t10129 := (t.x + (angleMod ((((884279719003555 : α) / (281474976710656 : α)) + t10117) - t.x)))
  let t10131 := (t.y + (angleMod ((((884279719003555 : α) / (281474976710656 : α)) - t10119) - t.y)))
  let t10133 := (t.z + (angleMod ((((884279719003555 : α) / (281474976710656 : α)) + t10121) - t.z)))
  let t10134 := (t10121 - t.z)
  let t10135 := (t10119 - t.y)
  let t10136 := (t10117 - t.x)
  let t10137 := (t10133 - t.z)
  let t10138 := (t10131 - t.y)
  let t10139 := (t10129 - t.x)
  let t10144 := (((t10136 * t10136) + (t10135 * t10135)) + (t10134 * t10134))
  let t10149 := (((t10139 * t10139) + (t10138 * t10138)) + (t10137 * t10137))
  if t10149 < t10144 then
    (⟨t10129, t10131, t10133⟩, (273 : Int))
  else
    (⟨t10117, t10119, t10121⟩, (273 : Int))

/-- extracted from the C++ template at T = Sym; 2 path(s) -/
def Euler.nearestRotation_YXY {α : Type} [Add α] [Sub α] [Mul α] [Div α] [LT α] [DecidableLT α] [OfNat α 281474976710656] [OfNat α 884279719003555] (angleMod : α → α) (xyzRot : V3 α) (target : V3 α) : (V3 α) :=
  let t10076 := (target.x + (angleMod (xyzRot.x - target.x)))
  let t10078 := (target.y + (angleMod (xyzRot.y - target.y)))
  let t10080 := (target.z + (angleMod (xyzRot.z - target.z)))
  let t10093 := (target.z + (angleMod ((((884279719003555 : α) / (281474976710656 : α)) + t10080) - target.z)))
  let t10094 := (t10080 - target.z)
  let t10095 := (t10078 - target.y)
  let t10096 := (t10076 - target.x)
  let t10097 := (t10093 - target.z)
  let t10104 := (((t10096 * t10096) + (t10095 * t10095)) + (t10094 * t10094))
  let t10155 := (target.y + (angleMod ((((884279719003555 : α) / (281474976710656 : α)) + t10078) - target.y)))
  let t10159 := (t10155 - target.y)
  let t10175 := (target.x + (angleMod ((((884279719003555 : α) / (281474976710656 : α)) - t10076) - target.x)))
  let t10176 := (t10175 - target.x)
  let t10179 := (((t10176 * t10176) + (t10159 * t10159)) + (t10097 * t10097))
  if t10179 < t10104 then
    ⟨t10175, t10155, t10093⟩
  else
    ⟨t10076, t10078, t10080⟩

/-- extracted from the C++ template at T = Sym; 2 path(s) -/
def Euler.makeNear_YXY {α : Type} [Add α] [Sub α] [Mul α] [Div α] [LT α] [DecidableLT α] [OfNat α 281474976710656] [OfNat α 884279719003555] (angleMod : α → α) (a : V3 α) (t : V3 α) : ((V3 α) × Int) :=
  let t10117 := (t.x + (angleMod (a.x - t.x)))
  let t10119 := (t.y + (angleMod (a.y - t.y)))
  let t10121 := (t.z + (angleMod (a.z - t.z)))
  let t10129 := (t.x + (angleMod ((((884279719003555 : α) / (281474976710656 : α)) + t10117) - t.x)))
  let t10131 := (t.y + (angleMod ((((884279719003555 : α) / (281474976710656 : α)) - t10119) - t.y)))
  let t10133 := (t.z + (angleMod ((((884279719003555 : α) / (281474976710656 : α)) + t10121) - t.z)))
  let t10134 := (t10121 - t.z)
  let t10135 := (t10119 - t.y)
  let t10136 := (t10117 - t.x)
  let t10137 := (t10133 - t.z)
  let t10138 := (t10131 - t.y)
  let t10139 := (t10129 - t.x)
  let t10181 := (((t10135 * t10135) + (t10136 * t10136)) + (t10134 * t10134))
  let t10183 := (((t10138 * t10138) + (t10139 * t10139)) + (t10137 * t10137))
  if t10183 < t10181 then
    (⟨t10129, t10131, t10133⟩, (4113 : Int))
  else
    (⟨t10117, t10119, t10121⟩, (4113 : Int))

/-- extracted from the C++ template at T = Sym; 2 path(s) -/
def Euler.nearestRotation_YZY {α : Type} [Add α] [Sub α] [Mul α] [Div α] [LT α] [DecidableLT α] [OfNat α 281474976710656] [OfNat α 884279719003555] (angleMod : α → α) (xyzRot : V3 α) (target : V3 α) : (V3 α) :=
  let t10076 := (target.x + (angleMod (xyzRot.x - target.x)))
  let t10078 := (target.y + (angleMod (xyzRot.y - target.y)))
  let t10080 := (target.z + (angleMod (xyzRot.z - target.z)))
  let t10089 := (target.x + (angleMod ((((884279719003555 : α) / (281474976710656 : α)) + t10076) - target.x)))
  let t10094 := (t10080 - target.z)
  let t10095 := (t10078 - target.y)
  let t10096 := (t10076 - target.x)
  let t10099 := (t10089 - target.x)
  let t10104 := (((t10096 * t10096) + (t10095 * t10095)) + (t10094 * t10094))
  let t10155 := (target.y + (angleMod ((((884279719003555 : α) / (281474976710656 : α)) + t10078) - target.y)))
  let t10157 := (target.z + (angleMod ((((884279719003555 : α) / (281474976710656 : α)) - t10080) - target.z)))
  let t10158 := (t10157 - target.z)
  let t10159 := (t10155 - target.y)
  let t10163 := (((t10099 * t10099) + (t10159 * t10159)) + (t10158 * t10158))
  if t10163 < t10104 then
    ⟨t10089, t10155, t10157⟩
  else
    ⟨t10076, t10078, t10080⟩

/-- extracted from the C++ template at T = Sym; 2 path(s) -/
def Euler.makeNear_YZY {α : Type} [Add α] [Sub α] [Mul α] [Div α] [LT α] [DecidableLT α] [OfNat α 281474976710656] [OfNat α 884279719003555] (angleMod : α → α) (a : V3 α) (t : V3 α) : ((V3 α) × Int) :=
  let t10117 := (t.x + (angleMod (a.x - t.x)))
  let t10119 := (t.y + (angleMod (a.y - t.y)))
  let t10121 := (t.z + (angleMod (a.z - t.z)))
  let t10129 := (t.x + (angleMod ((((884279719003555 : α) / (281474976710656 : α)) + t10117) - t.x)))
  let t10131 := (t.y + (angleMod ((((884279719003555 : α) / (281474976710656 : α)) - t10119) - t.y)))
  let t10133 := (t.z + (angleMod ((((884279719003555 : α) / (281474976710656 : α)) + t10121) - t.z)))
  let t10134 := (t10121 - t.z)
  let t10135 := (t10119 - t.y)
  let t10136 := (t10117 - t.x)
  let t10137 := (t10133 - t.z)
  let t10138 := (t10131 - t.y)
  let t10139 := (t10129 - t.x)
  let t10169 := (((t10134 * t10134) + (t10136 * t10136)) + (t10135 * t10135))
  let t10171 := (((t10137 * t10137) + (t10139 * t10139)) + (t10138 * t10138))
  if t10171 < t10169 then
    (⟨t10129, t10131, t10133⟩, (4369 : Int))
  else
    (⟨t10117, t10119, t10121⟩, (4369 : Int))

/-- extracted from the C++ template at T = Sym; 2 path(s) -/
def Euler.nearestRotation_ZYZ {α : Type} [Add α] [Sub α] [Mul α] [Div α] [LT α] [DecidableLT α] [OfNat α 281474976710656] [OfNat α 884279719003555] (angleMod : α → α) (xyzRot : V3 α) (target : V3 α) : (V3 α) :=
  let t10076 := (target.x + (angleMod (xyzRot.x - target.x)))
  let t10078 := (target.y + (angleMod (xyzRot.y - target.y)))
  let t10080 := (target.z + (angleMod (xyzRot.z - target.z)))
  let t10089 := (target.x + (angleMod ((((884279719003555 : α) / (281474976710656 : α)) + t10076) - target.x)))
  let t10091 := (target.y + (angleMod ((((884279719003555 : α) / (281474976710656 : α)) - t10078) - target.y)))
  let t10093 := (target.z + (angleMod ((((884279719003555 : α) / (281474976710656 : α)) + t10080) - target.z)))
  let t10094 := (t10080 - target.z)
  let t10095 := (t10078 - target.y)
  let t10096 := (t10076 - target.x)
  let t10097 := (t10093 - target.z)
  let t10098 := (t10091 - target.y)
  let t10099 := (t10089 - target.x)
  let t10104 := (((t10096 * t10096) + (t10095 * t10095)) + (t10094 * t10094))
  let t10109 := (((t10099 * t10099) + (t10098 * t10098)) + (t10097 * t10097))
  if t10109 < t10104 then
    ⟨t10089, t10091, t10093⟩
  else
    ⟨t10076, t10078, t10080⟩

/-- extracted from the C++ template at T = Sym; 2 path(s) -/
def Euler.makeNear_ZYZ {α : Type} [Add α] [Sub α] [Mul α] [Div α] [LT α] [DecidableLT α] [OfNat α 281474976710656] [OfNat α 884279719003555] (angleMod : α → α) (a : V3 α) (t : V3 α) : ((V3 α) × Int) :=
  let t10117 := (t.x + (angleMod (a.x - t.x)))
  let t10119 := (t.y + (angleMod (a.y - t.y)))
  let t10121 := (t.z + (angleMod (a.z - t.z)))
  let t10129 := (t.x + (angleMod ((((884279719003555 : α) / (281474976710656 : α)) + t10117) - t.x)))
  let t10131 := (t.y + (angleMod ((((884279719003555 : α) / (281474976710656 : α)) - t10119) - t.y)))
  let t10133 := (t.z + (angleMod ((((884279719003555 : α) / (281474976710656 : α)) + t10121) - t.z)))
  let t10134 := (t10121 - t.z)
  let t10135 := (t10119 - t.y)
  let t10136 := (t10117 - t.x)
  let t10137 := (t10133 - t.z)
  let t10138 := (t10131 - t.y)
  let t10139 := (t10129 - t.x)
  let t10189 := (((t10134 * t10134) + (t10135 * t10135)) + (t10136 * t10136))
  let t10191 := (((t10137 * t10137) + (t10138 * t10138)) + (t10139 * t10139))
  if t10191 < t10189 then
    (⟨t10129, t10131, t10133⟩, (8209 : Int))
  else
    (⟨t10117, t10119, t10121⟩, (8209 : Int))

/-- extracted from the C++ template at T = Sym; 2 path(s) -/
def Euler.nearestRotation_ZXZ {α : Type} [Add α] [Sub α] [Mul α] [Div α] [LT α] [DecidableLT α] [OfNat α 281474976710656] [OfNat α 884279719003555] (angleMod : α → α) (xyzRot : V3 α) (target : V3 α) : (V3 α) :=
  let t10076 := (target.x + (angleMod (xyzRot.x - target.x)))
  let t10078 := (target.y + (angleMod (xyzRot.y - target.y)))
  let t10080 := (target.z + (angleMod (xyzRot.z - target.z)))
  let t10093 := (target.z + (angleMod ((((884279719003555 : α) / (281474976710656 : α)) + t10080) - target.z)))
  let t10094 := (t10080 - target.z)
  let t10095 := (t10078 - target.y)
  let t10096 := (t10076 - target.x)
  let t10097 := (t10093 - target.z)
  let t10104 := (((t10096 * t10096) + (t10095 * t10095)) + (t10094 * t10094))
  let t10155 := (target.y + (angleMod ((((884279719003555 : α) / (281474976710656 : α)) + t10078) - target.y)))
  let t10159 := (t10155 - target.y)
  let t10175 := (target.x + (angleMod ((((884279719003555 : α) / (281474976710656 : α)) - t10076) - target.x)))
  let t10176 := (t10175 - target.x)
  let t10179 := (((t10176 * t10176) + (t10159 * t10159)) + (t10097 * t10097))
  if t10179 < t10104 then
    ⟨t10175, t10155, t10093⟩
  else
    ⟨t10076, t10078, t10080⟩

/-- extracted from the C++ template at T = Sym; 2 path(s) -/
def Euler.makeNear_ZXZ {α : Type} [Add α] [Sub α] [Mul α] [Div α] [LT α] [DecidableLT α] [OfNat α 281474976710656] [OfNat α 884279719003555] (angleMod : α → α) (a : V3 α) (t : V3 α) : ((V3 α) × Int) :=
  let t10117 := (t.x + (angleMod (a.x - t.x)))
  let t10119 := (t.y + (angleMod (a.y - t.y)))
  let t10121 := (t.z + (angleMod (a.z - t.z)))
  let t10129 := (t.x + (angleMod ((((884279719003555 : α) / (281474976710656 : α)) + t10117) - t.x)))
  let t10131 := (t.y + (angleMod ((((884279719003555 : α) / (281474976710656 : α)) - t10119) - t.y)))
  let t10133 := (t.z + (angleMod ((((884279719003555 : α) / (281474976710656 : α)) + t10121) - t.z)))
  let t10134 := (t10121 - t.z)
  let t10135 := (t10119 - t.y)
  let t10136 := (t10117 - t.x)
  let t10137 := (t10133 - t.z)
  let t10138 := (t10131 - t.y)
  let t10139 := (t10129 - t.x)
  let t10185 := (((t10135 * t10135) + (t10134 * t10134)) + (t10136 * t10136))
  let t10187 := (((t10138 * t10138) + (t10137 * t10137)) + (t10139 * t10139))
  if t10187 < t10185 then
    (⟨t10129, t10131, t10133⟩, (8465 : Int))
  else
    (⟨t10117, t10119, t10121⟩, (8465 : Int))

/-- extracted from the C++ template at T = Sym; 2 path(s) -/
def Euler.nearestRotation_XYZr {α : Type} [Add α] [Sub α] [Mul α] [Div α] [LT α] [DecidableLT α] [OfNat α 281474976710656] [OfNat α 884279719003555] (angleMod : α → α) (xyzRot : V3 α) (target : V3 α) : (V3 α) :=
  let t10076 := (target.x + (angleMod (xyzRot.x - target.x)))
  let t10078 := (target.y + (angleMod (xyzRot.y - target.y)))
  let t10080 := (target.z + (angleMod (xyzRot.z - target.z)))
  let t10089 := (target.x + (angleMod ((((884279719003555 : α) / (281474976710656 : α)) + t10076) - target.x)))
  let t10091 := (target.y + (angleMod ((((884279719003555 : α) / (281474976710656 : α)) - t10078) - target.y)))
  let t10093 := (target.z + (angleMod ((((884279719003555 : α) / (281474976710656 : α)) + t10080) - target.z)))
  let t10094 := (t10080 - target.z)
  let t10095 := (t10078 - target.y)
  let t10096 := (t10076 - target.x)
  let t10097 := (t10093 - target.z)
  let t10098 := (t10091 - target.y)
  let t10099 := (t10089 - target.x)
  let t10104 := (((t10096 * t10096) + (t10095 * t10095)) + (t10094 * t10094))
  let t10109 := (((t10099 * t10099) + (t10098 * t10098)) + (t10097 * t10097))
  if t10109 < t10104 then
    ⟨t10089, t10091, t10093⟩
  else
    ⟨t10076, t10078, t10080⟩

/-- extracted from the C++ template at T = Sym; 2 path(s) -/
def Euler.makeNear_XYZr {α : Type} [Add α] [Sub α] [Mul α] [Div α] [LT α] [DecidableLT α] [OfNat α 281474976710656] [OfNat α 884279719003555] (angleMod : α → α) (a : V3 α) (t : V3 α) : ((V3 α) × Int) :=
  let t10117 := (t.x + (angleMod (a.x - t.x)))
  let t10119 := (t.y + (angleMod (a.y - t.y)))
  let t10121 := (t.z + (angleMod (a.z - t.z)))
  let t10129 := (t.x + (angleMod ((((884279719003555 : α) / (281474976710656 : α)) + t10117) - t.x)))
  let t10131 := (t.y + (angleMod ((((884279719003555 : α) / (281474976710656 : α)) - t10119) - t.y)))
  let t10133 := (t.z + (angleMod ((((884279719003555 : α) / (281474976710656 : α)) + t10121) - t.z)))
  let t10134 := (t10121 - t.z)
  let t10135 := (t10119 - t.y)
  let t10136 := (t10117 - t.x)
  let t10137 := (t10133 - t.z)
  let t10138 := (t10131 - t.y)
  let t10139 := (t10129 - t.x)
  let t10189 := (((t10134 * t10134) + (t10135 * t10135)) + (t10136 * t10136))
  let t10191 := (((t10137 * t10137) + (t10138 * t10138)) + (t10139 * t10139))
  if t10191 < t10189 then
    (⟨t10129, t10131, t10133⟩, (8192 : Int))
  else
    (⟨t10117, t10119, t10121⟩, (8192 : Int))

/-- extracted from the C++ template at T = Sym; 2 path(s) -/
def Euler.nearestRotation_XZYr {α : Type} [Add α] [Sub α] [Mul α] [Div α] [LT α] [DecidableLT α] [OfNat α 281474976710656] [OfNat α 884279719003555] (angleMod : α → α) (xyzRot : V3 α) (target : V3 α) : (V3 α) :=
  let t10076 := (target.x + (angleMod (xyzRot.x - target.x)))
  let t10078 := (target.y + (angleMod (xyzRot.y - target.y)))
  let t10080 := (target.z + (angleMod (xyzRot.z - target.z)))
  let t10093 := (target.z + (angleMod ((((884279719003555 : α) / (281474976710656 : α)) + t10080) - target.z)))
  let t10094 := (t10080 - target.z)
  let t10095 := (t10078 - target.y)
  let t10096 := (t10076 - target.x)
  let t10097 := (t10093 - target.z)
  let t10104 := (((t10096 * t10096) + (t10095 * t10095)) + (t10094 * t10094))
  let t10155 := (target.y + (angleMod ((((884279719003555 : α) / (281474976710656 : α)) + t10078) - target.y)))
  let t10159 := (t10155 - target.y)
  let t10175 := (target.x + (angleMod ((((884279719003555 : α) / (281474976710656 : α)) - t10076) - target.x)))
  let t10176 := (t10175 - target.x)
  let t10179 := (((t10176 * t10176) + (t10159 * t10159)) + (t10097 * t10097))
  if t10179 < t10104 then
    ⟨t10175, t10155, t10093⟩
  else
    ⟨t10076, t10078, t10080⟩

/-- extracted from the C++ template at T = Sym; 2 path(s) -/
def Euler.makeNear_XZYr {α : Type} [Add α] [Sub α] [Mul α] [Div α] [LT α] [DecidableLT α] [OfNat α 281474976710656] [OfNat α 884279719003555] (angleMod : α → α) (a : V3 α) (t : V3 α) : ((V3 α) × Int) :=
  let t10117 := (t.x + (angleMod (a.x - t.x)))
  let t10119 := (t.y + (angleMod (a.y - t.y)))
  let t10121 := (t.z + (angleMod (a.z - t.z)))
  let t10129 := (t.x + (angleMod ((((884279719003555 : α) / (281474976710656 : α)) + t10117) - t.x)))
  let t10131 := (t.y + (angleMod ((((884279719003555 : α) / (281474976710656 : α)) - t10119) - t.y)))
  let t10133 := (t.z + (angleMod ((((884279719003555 : α) / (281474976710656 : α)) + t10121) - t.z)))
  let t10134 := (t10121 - t.z)
  let t10135 := (t10119 - t.y)
  let t10136 := (t10117 - t.x)
  let t10137 := (t10133 - t.z)
  let t10138 := (t10131 - t.y)
  let t10139 := (t10129 - t.x)
  let t10185 := (((t10135 * t10135) + (t10134 * t10134)) + (t10136 * t10136))
  let t10187 := (((t10138 * t10138) + (t10137 * t10137)) + (t10139 * t10139))
  if t10187 < t10185 then
    (⟨t10129, t10131, t10133⟩, (8448 : Int))
  else
    (⟨t10117, t10119, t10121⟩, (8448 : Int))

/-- extracted from the C++ template at T = Sym; 2 path(s) -/
def Euler.nearestRotation_YZXr {α : Type} [Add α] [Sub α] [Mul α] [Div α] [LT α] [DecidableLT α] [OfNat α 281474976710656] [OfNat α 884279719003555] (angleMod : α → α) (xyzRot : V3 α) (target : V3 α) : (V3 α) :=
  let t10076 := (target.x + (angleMod (xyzRot.x - target.x)))
  let t10078 := (target.y + (angleMod (xyzRot.y - target.y)))
  let t10080 := (target.z + (angleMod (xyzRot.z - target.z)))
  let t10093 := (target.z + (angleMod ((((884279719003555 : α) / (281474976710656 : α)) + t10080) - target.z)))
  let t10094 := (t10080 - target.z)
  let t10095 := (t10078 - target.y)
  let t10096 := (t10076 - target.x)
  let t10097 := (t10093 - target.z)
  let t10104 := (((t10096 * t10096) + (t10095 * t10095)) + (t10094 * t10094))
  let t10155 := (target.y + (angleMod ((((884279719003555 : α) / (281474976710656 : α)) + t10078) - target.y)))
  let t10159 := (t10155 - target.y)
  let t10175 := (target.x + (angleMod ((((884279719003555 : α) / (281474976710656 : α)) - t10076) - target.x)))
  let t10176 := (t10175 - target.x)
  let t10179 := (((t10176 * t10176) + (t10159 * t10159)) + (t10097 * t10097))
  if t10179 < t10104 then
    ⟨t10175, t10155, t10093⟩
  else
    ⟨t10076, t10078, t10080⟩

/-- extracted from the C++ template at T = Sym; 2 path(s) -/
def Euler.makeNear_YZXr {α : Type} [Add α] [Sub α] [Mul α] [Div α] [LT α] [DecidableLT α] [OfNat α 281474976710656] [OfNat α 884279719003555] (angleMod : α → α) (a : V3 α) (t : V3 α) : ((V3 α) × Int) :=
  let t10117 := (t.x + (angleMod (a.x - t.x)))
  let t10119 := (t.y + (angleMod (a.y - t.y)))
  let t10121 := (t.z + (angleMod (a.z - t.z)))
  let t10129 := (t.x + (angleMod ((((884279719003555 : α) / (281474976710656 : α)) + t10117) - t.x)))
  let t10131 := (t.y + (angleMod ((((884279719003555 : α) / (281474976710656 : α)) - t10119) - t.y)))
  let t10133 := (t.z + (angleMod ((((884279719003555 : α) / (281474976710656 : α)) + t10121) - t.z)))
  let t10134 := (t10121 - t.z)
  let t10135 := (t10119 - t.y)
  let t10136 := (t10117 - t.x)
  let t10137 := (t10133 - t.z)
  let t10138 := (t10131 - t.y)
  let t10139 := (t10129 - t.x)
  let t10181 := (((t10135 * t10135) + (t10136 * t10136)) + (t10134 * t10134))
  let t10183 := (((t10138 * t10138) + (t10139 * t10139)) + (t10137 * t10137))
  if t10183 < t10181 then
    (⟨t10129, t10131, t10133⟩, (4096 : Int))
  else
    (⟨t10117, t10119, t10121⟩, (4096 : Int))

/-- extracted from the C++ template at T = Sym; 2 path(s) -/
def Euler.nearestRotation_YXZr {α : Type} [Add α] [Sub α] [Mul α] [Div α] [LT α] [DecidableLT α] [OfNat α 281474976710656] [OfNat α 884279719003555] (angleMod : α → α) (xyzRot : V3 α) (target : V3 α) : (V3 α) :=
  let t10076 := (target.x + (angleMod (xyzRot.x - target.x)))
  let t10078 := (target.y + (angleMod (xyzRot.y - target.y)))
  let t10080 := (target.z + (angleMod (xyzRot.z - target.z)))
  let t10089 := (target.x + (angleMod ((((884279719003555 : α) / (281474976710656 : α)) + t10076) - target.x)))
  let t10094 := (t10080 - target.z)
  let t10095 := (t10078 - target.y)
  let t10096 := (t10076 - target.x)
  let t10099 := (t10089 - target.x)
  let t10104 := (((t10096 * t10096) + (t10095 * t10095)) + (t10094 * t10094))
  let t10155 := (target.y + (angleMod ((((884279719003555 : α) / (281474976710656 : α)) + t10078) - target.y)))
  let t10157 := (target.z + (angleMod ((((884279719003555 : α) / (281474976710656 : α)) - t10080) - target.z)))
  let t10158 := (t10157 - target.z)
  let t10159 := (t10155 - target.y)
  let t10163 := (((t10099 * t10099) + (t10159 * t10159)) + (t10158 * t10158))
  if t10163 < t10104 then
    ⟨t10089, t10155, t10157⟩
  else
    ⟨t10076, t10078, t10080⟩

/-- extracted from the C++ template at T = Sym; 2 path(s) -/
def Euler.makeNear_YXZr {α : Type} [Add α] [Sub α] [Mul α] [Div α] [LT α] [DecidableLT α] [OfNat α 281474976710656] [OfNat α 884279719003555] (angleMod : α → α) (a : V3 α) (t : V3 α) : ((V3 α) × Int) :=
  let t10117 := (t.x + (angleMod (a.x - t.x)))
  let t10119 := (t.y + (angleMod (a.y - t.y)))
  let t10121 := (t.z + (angleMod (a.z - t.z)))
  let t10129 := (t.x + (angleMod ((((884279719003555 : α) / (281474976710656 : α)) + t10117) - t.x)))
  let t10131 := (t.y + (angleMod ((((884279719003555 : α) / (281474976710656 : α)) - t10119) - t.y)))
  let t10133 := (t.z + (angleMod ((((884279719003555 : α) / (281474976710656 : α)) + t10121) - t.z)))
  let t10134 := (t10121 - t.z)
  let t10135 := (t10119 - t.y)
  let t10136 := (t10117 - t.x)
  let t10137 := (t10133 - t.z)
  let t10138 := (t10131 - t.y)
  let t10139 := (t10129 - t.x)
  let t10169 := (((t10134 * t10134) + (t10136 * t10136)) + (t10135 * t10135))
  let t10171 := (((t10137 * t10137) + (t10139 * t10139)) + (t10138 * t10138))
  if t10171 < t10169 then
    (⟨t10129, t10131, t10133⟩, (4352 : Int))
  else
    (⟨t10117, t10119, t10121⟩, (4352 : Int))

/-- extracted from the C++ template at T = Sym; 2 path(s) -/
def Euler.nearestRotation_ZXYr {α : Type} [Add α] [Sub α] [Mul α] [Div α] [LT α] [DecidableLT α] [OfNat α 281474976710656] [OfNat α 884279719003555] (angleMod : α → α) (xyzRot : V3 α) (target : V3 α) : (V3 α) :=
  let t10076 := (target.x + (angleMod (xyzRot.x - target.x)))
  let t10078 := (target.y + (angleMod (xyzRot.y - target.y)))
  let t10080 := (target.z + (angleMod (xyzRot.z - target.z)))
  let t10089 := (target.x + (angleMod ((((884279719003555 : α) / (281474976710656 : α)) + t10076) - target.x)))
  let t10094 := (t10080 - target.z)
  let t10095 := (t10078 - target.y)
  let t10096 := (t10076 - target.x)
  let t10099 := (t10089 - target.x)
  let t10104 := (((t10096 * t10096) + (t10095 * t10095)) + (t10094 * t10094))
  let t10155 := (target.y + (angleMod ((((884279719003555 : α) / (281474976710656 : α)) + t10078) - target.y)))
  let t10157 := (target.z + (angleMod ((((884279719003555 : α) / (281474976710656 : α)) - t10080) - target.z)))
  let t10158 := (t10157 - target.z)
  let t10159 := (t10155 - target.y)
  let t10163 := (((t10099 * t10099) + (t10159 * t10159)) + (t10158 * t10158))
  if t10163 < t10104 then
    ⟨t10089, t10155, t10157⟩
  else
    ⟨t10076, t10078, t10080⟩

/-- extracted from the C++ template at T = Sym; 2 path(s) -/
def Euler.makeNear_ZXYr {α : Type} [Add α] [Sub α] [Mul α] [Div α] [LT α] [DecidableLT α] [OfNat α 281474976710656] [OfNat α 884279719003555] (angleMod : α → α) (a : V3 α) (t : V3 α) : ((V3 α) × Int) :=
  let t10117 := (t.x + (angleMod (a.x - t.x)))
  let t10119 := (t.y + (angleMod (a.y - t.y)))
  let t10121 := (t.z + (angleMod (a.z - t.z)))
  let t10129 := (t.x + (angleMod ((((884279719003555 : α) / (281474976710656 : α)) + t10117) - t.x)))
  let t10131 := (t.y + (angleMod ((((884279719003555 : α) / (281474976710656 : α)) - t10119) - t.y)))
  let t10133 := (t.z + (angleMod ((((884279719003555 : α) / (281474976710656 : α)) + t10121) - t.z)))
  let t10134 := (t10121 - t.z)
  let t10135 := (t10119 - t.y)
  let t10136 := (t10117 - t.x)
  let t10137 := (t10133 - t.z)
  let t10138 := (t10131 - t.y)
  let t10139 := (t10129 - t.x)
  let t10165 := (((t10136 * t10136) + (t10134 * t10134)) + (t10135 * t10135))
  let t10167 := (((t10139 * t10139) + (t10137 * t10137)) + (t10138 * t10138))
  if t10167 < t10165 then
    (⟨t10129, t10131, t10133⟩, (0 : Int))
  else
    (⟨t10117, t10119, t10121⟩, (0 : Int))

/-- extracted from the C++ template at T = Sym; 2 path(s) -/
def Euler.nearestRotation_ZYXr {α : Type} [Add α] [Sub α] [Mul α] [Div α] [LT α] [DecidableLT α] [OfNat α 281474976710656] [OfNat α 884279719003555] (angleMod : α → α) (xyzRot : V3 α) (target : V3 α) : (V3 α) :=
  let t10076 := (target.x + (angleMod (xyzRot.x - target.x)))
  let t10078 := (target.y + (angleMod (xyzRot.y - target.y)))
  let t10080 := (target.z + (angleMod (xyzRot.z - target.z)))
  let t10089 := (target.x + (angleMod ((((884279719003555 : α) / (281474976710656 : α)) + t10076) - target.x)))
  let t10091 := (target.y + (angleMod ((((884279719003555 : α) / (281474976710656 : α)) - t10078) - target.y)))
  let t10093 := (target.z + (angleMod ((((884279719003555 : α) / (281474976710656 : α)) + t10080) - target.z)))
  let t10094 := (t10080 - target.z)
  let t10095 := (t10078 - target.y)
  let t10096 := (t10076 - target.x)
  let t10097 := (t10093 - target.z)
  let t10098 := (t10091 - target.y)
  let t10099 := (t10089 - target.x)
  let t10104 := (((t10096 * t10096) + (t10095 * t10095)) + (t10094 * t10094))
  let t10109 := (((t10099 * t10099) + (t10098 * t10098)) + (t10097 * t10097))
  if t10109 < t10104 then
    ⟨t10089, t10091, t10093⟩
  else
    ⟨t10076, t10078, t10080⟩

/-- extracted from the C++ template at T = Sym; 2 path(s) -/
def Euler.makeNear_ZYXr {α : Type} [Add α] [Sub α] [Mul α] [Div α] [LT α] [DecidableLT α] [OfNat α 281474976710656] [OfNat α 884279719003555] (angleMod : α → α) (a : V3 α) (t : V3 α) : ((V3 α) × Int) :=
  let t10117 := (t.x + (angleMod (a.x - t.x)))
  let t10119 := (t.y + (angleMod (a.y - t.y)))
  let t10121 := (t.z + (angleMod (a.z - t.z)))
  let t10129 := (t.x + (angleMod ((((884279719003555 : α) / (281474976710656 : α)) + t10117) - t.x)))
  let t10131 := (t.y + (angleMod ((((884279719003555 : α) / (281474976710656 : α)) - t10119) - t.y)))
  let t10133 := (t.z + (angleMod ((((884279719003555 : α) / (281474976710656 : α)) + t10121) - t.z)))
  let t10134 := (t10121 - t.z)
  let t10135 := (t10119 - t.y)
  let t10136 := (t10117 - t.x)
  let t10137 := (t10133 - t.z)
  let t10138 := (t10131 - t.y)
  let t10139 := (t10129 - t.x)
  let t10144 := (((t10136 * t10136) + (t10135 * t10135)) + (t10134 * t10134))
  let t10149 := (((t10139 * t10139) + (t10138 * t10138)) + (t10137 * t10137))
  if t10149 < t10144 then
    (⟨t10129, t10131, t10133⟩, (256 : Int))
  else
    (⟨t10117, t10119, t10121⟩, (256 : Int))

/-- extracted from the C++ template at T = Sym; 2 path(s) -/
def Euler.nearestRotation_XZXr {α : Type} [Add α] [Sub α] [Mul α] [Div α] [LT α] [DecidableLT α] [OfNat α 281474976710656] [OfNat α 884279719003555] (angleMod : α → α) (xyzRot : V3 α) (target : V3 α) : (V3 α) :=
  let t10076 := (target.x + (angleMod (xyzRot.x - target.x)))
  let t10078 := (target.y + (angleMod (xyzRot.y - target.y)))
  let t10080 := (target.z + (angleMod (xyzRot.z - target.z)))
  let t10093 := (target.z + (angleMod ((((884279719003555 : α) / (281474976710656 : α)) + t10080) - target.z)))
  let t10094 := (t10080 - target.z)
  let t10095 := (t10078 - target.y)
  let t10096 := (t10076 - target.x)
  let t10097 := (t10093 - target.z)
  let t10104 := (((t10096 * t10096) + (t10095 * t10095)) + (t10094 * t10094))
  let t10155 := (target.y + (angleMod ((((884279719003555 : α) / (281474976710656 : α)) + t10078) - target.y)))
  let t10159 := (t10155 - target.y)
  let t10175 := (target.x + (angleMod ((((884279719003555 : α) / (281474976710656 : α)) - t10076) - target.x)))
  let t10176 := (t10175 - target.x)
  let t10179 := (((t10176 * t10176) + (t10159 * t10159)) + (t10097 * t10097))
  if t10179 < t10104 then
    ⟨t10175, t10155, t10093⟩
  else
    ⟨t10076, t10078, t10080⟩

/-- extracted from the C++ template at T = Sym; 2 path(s) -/
def Euler.makeNear_XZXr {α : Type} [Add α] [Sub α] [Mul α] [Div α] [LT α] [DecidableLT α] [OfNat α 281474976710656] [OfNat α 884279719003555] (angleMod : α → α) (a : V3 α) (t : V3 α) : ((V3 α) × Int) :=
  let t10117 := (t.x + (angleMod (a.x - t.x)))
  let t10119 := (t.y + (angleMod (a.y - t.y)))
  let t10121 := (t.z + (angleMod (a.z - t.z)))
  let t10129 := (t.x + (angleMod ((((884279719003555 : α) / (281474976710656 : α)) + t10117) - t.x)))
  let t10131 := (t.y + (angleMod ((((884279719003555 : α) / (281474976710656 : α)) - t10119) - t.y)))
  let t10133 := (t.z + (angleMod ((((884279719003555 : α) / (281474976710656 : α)) + t10121) - t.z)))
  let t10134 := (t10121 - t.z)
  let t10135 := (t10119 - t.y)
  let t10136 := (t10117 - t.x)
  let t10137 := (t10133 - t.z)
  let t10138 := (t10131 - t.y)
  let t10139 := (t10129 - t.x)
  let t10185 := (((t10135 * t10135) + (t10134 * t10134)) + (t10136 * t10136))
  let t10187 := (((t10138 * t10138) + (t10137 * t10137)) + (t10139 * t10139))
  if t10187 < t10185 then
    (⟨t10129, t10131, t10133⟩, (8464 : Int))
  else
    (⟨t10117, t10119, t10121⟩, (8464 : Int))

/-- extracted from the C++ template at T = Sym; 2 path(s) -/
def Euler.nearestRotation_XYXr {α : Type} [Add α] [Sub α] [Mul α] [Div α] [LT α] [DecidableLT α] [OfNat α 281474976710656] [OfNat α 884279719003555] (angleMod : α → α) (xyzRot : V3 α) (target : V3 α) : (V3 α) :=
  let t10076 := (target.x + (angleMod (xyzRot.x - target.x)))
  let t10078 := (target.y + (angleMod (xyzRot.y - target.y)))
  let t10080 := (target.z + (angleMod (xyzRot.z - target.z)))
  let t10089 := (target.x + (angleMod ((((884279719003555 : α) / (281474976710656 : α)) + t10076) - target.x)))
  let t10091 := (target.y + (angleMod ((((884279719003555 : α) / (281474976710656 : α)) - t10078) - target.y)))
  let t10093 := (target.z + (angleMod ((((884279719003555 : α) / (281474976710656 : α)) + t10080) - target.z)))
  let t10094 := (t10080 - target.z)
  let t10095 := (t10078 - target.y)
  let t10096 := (t10076 - target.x)
  let t10097 := (t10093 - target.z)
  let t10098 := (t10091 - target.y)
  let t10099 := (t10089 - target.x)
  let t10104 := (((t10096 * t10096) + (t10095 * t10095)) + (t10094 * t10094))
  let t10109 := (((t10099 * t10099) + (t10098 * t10098)) + (t10097 * t10097))
  if t10109 < t10104 then
    ⟨t10089, t10091, t10093⟩
  else
    ⟨t10076, t10078, t10080⟩

/-- extracted from the C++ template at T = Sym; 2 path(s) -/
def Euler.makeNear_XYXr {α : Type} [Add α] [Sub α] [Mul α] [Div α] [LT α] [DecidableLT α] [OfNat α 281474976710656] [OfNat α 884279719003555] (angleMod : α → α) (a : V3 α) (t : V3 α) : ((V3 α) × Int) :=
  let t10117 := (t.x + (angleMod (a.x - t.x)))
  let t10119 := (t.y + (angleMod (a.y - t.y)))
  let t10121 := (t.z + (angleMod (a.z - t.z)))
  let t10129 := (t.x + (angleMod ((((884279719003555 : α) / (281474976710656 : α)) + t10117) - t.x)))
  let t10131 := (t.y + (angleMod ((((884279719003555 : α) / (281474976710656 : α)) - t10119) - t.y)))
  let t10133 := (t.z + (angleMod ((((884279719003555 : α) / (281474976710656 : α)) + t10121) - t.z)))
  let t10134 := (t10121 - t.z)
  let t10135 := (t10119 - t.y)
  let t10136 := (t10117 - t.x)
  let t10137 := (t10133 - t.z)
  let t10138 := (t10131 - t.y)
  let t10139 := (t10129 - t.x)
  let t10189 := (((t10134 * t10134) + (t10135 * t10135)) + (t10136 * t10136))
  let t10191 := (((t10137 * t10137) + (t10138 * t10138)) + (t10139 * t10139))
  if t10191 < t10189 then
    (⟨t10129, t10131, t10133⟩, (8208 : Int))
  else
    (⟨t10117, t10119, t10121⟩, (8208 : Int))

/-- extracted from the C++ template at T = Sym; 2 path(s) -/
def Euler.nearestRotation_YXYr {α : Type} [Add α] [Sub α] [Mul α] [Div α] [LT α] [DecidableLT α] [OfNat α 281474976710656] [OfNat α 884279719003555] (angleMod : α → α) (xyzRot : V3 α) (target : V3 α) : (V3 α) :=
  let t10076 := (target.x + (angleMod (xyzRot.x - target.x)))
  let t10078 := (target.y + (angleMod (xyzRot.y - target.y)))
  let t10080 := (target.z + (angleMod (xyzRot.z - target.z)))
  let t10089 := (target.x + (angleMod ((((884279719003555 : α) / (281474976710656 : α)) + t10076) - target.x)))
  let t10094 := (t10080 - target.z)
  let t10095 := (t10078 - target.y)
  let t10096 := (t10076 - target.x)
  let t10099 := (t10089 - target.x)
  let t10104 := (((t10096 * t10096) + (t10095 * t10095)) + (t10094 * t10094))
  let t10155 := (target.y + (angleMod ((((884279719003555 : α) / (281474976710656 : α)) + t10078) - target.y)))
  let t10157 := (target.z + (angleMod ((((884279719003555 : α) / (281474976710656 : α)) - t10080) - target.z)))
  let t10158 := (t10157 - target.z)
  let t10159 := (t10155 - target.y)
  let t10163 := (((t10099 * t10099) + (t10159 * t10159)) + (t10158 * t10158))
  if t10163 < t10104 then
    ⟨t10089, t10155, t10157⟩
  else
    ⟨t10076, t10078, t10080⟩

/-- extracted from the C++ template at T = Sym; 2 path(s) -/
def Euler.makeNear_YXYr {α : Type} [Add α] [Sub α] [Mul α] [Div α] [LT α] [DecidableLT α] [OfNat α 281474976710656] [OfNat α 884279719003555] (angleMod : α → α) (a : V3 α) (t : V3 α) : ((V3 α) × Int) :=
  let t10117 := (t.x + (angleMod (a.x - t.x)))
  let t10119 := (t.y + (angleMod (a.y - t.y)))
  let t10121 := (t.z + (angleMod (a.z - t.z)))
  let t10129 := (t.x + (angleMod ((((884279719003555 : α) / (281474976710656 : α)) + t10117) - t.x)))
  let t10131 := (t.y + (angleMod ((((884279719003555 : α) / (281474976710656 : α)) - t10119) - t.y)))
  let t10133 := (t.z + (angleMod ((((884279719003555 : α) / (281474976710656 : α)) + t10121) - t.z)))
  let t10134 := (t10121 - t.z)
  let t10135 := (t10119 - t.y)
  let t10136 := (t10117 - t.x)
  let t10137 := (t10133 - t.z)
  let t10138 := (t10131 - t.y)
  let t10139 := (t10129 - t.x)
  let t10169 := (((t10134 * t10134) + (t10136 * t10136)) + (t10135 * t10135))
  let t10171 := (((t10137 * t10137) + (t10139 * t10139)) + (t10138 * t10138))
  if t10171 < t10169 then
    (⟨t10129, t10131, t10133⟩, (4368 : Int))
  else
    (⟨t10117, t10119, t10121⟩, (4368 : Int))

/-- extracted from the C++ template at T = Sym; 2 path(s) -/
def Euler.nearestRotation_YZYr {α : Type} [Add α] [Sub α] [Mul α] [Div α] [LT α] [DecidableLT α] [OfNat α 281474976710656] [OfNat α 884279719003555] (angleMod : α → α) (xyzRot : V3 α) (target : V3 α) : (V3 α) :=
  let t10076 := (target.x + (angleMod (xyzRot.x - target.x)))
  let t10078 := (target.y + (angleMod (xyzRot.y - target.y)))
  let t10080 := (target.z + (angleMod (xyzRot.z - target.z)))
  let t10093 := (target.z + (angleMod ((((884279719003555 : α) / (281474976710656 : α)) + t10080) - target.z)))
  let t10094 := (t10080 - target.z)
  let t10095 := (t10078 - target.y)
  let t10096 := (t10076 - target.x)
  let t10097 := (t10093 - target.z)
  let t10104 := (((t10096 * t10096) + (t10095 * t10095)) + (t10094 * t10094))
  let t10155 := (target.y + (angleMod ((((884279719003555 : α) / (281474976710656 : α)) + t10078) - target.y)))
  let t10159 := (t10155 - target.y)
  let t10175 := (target.x + (angleMod ((((884279719003555 : α) / (281474976710656 : α)) - t10076) - target.x)))
  let t10176 := (t10175 - target.x)
  let t10179 := (((t10176 * t10176) + (t10159 * t10159)) + (t10097 * t10097))
  if t10179 < t10104 then
    ⟨t10175, t10155, t10093⟩
  else
    ⟨t10076, t10078, t10080⟩

/-- extracted from the C++ template at T = Sym; 2 path(s) -/
def Euler.makeNear_YZYr {α : Type} [Add α] [Sub α] [Mul α] [Div α] [LT α] [DecidableLT α] [OfNat α 281474976710656] [OfNat α 884279719003555] (angleMod : α → α) (a : V3 α) (t : V3 α) : ((V3 α) × Int) :=
  let t10117 := (t.x + (angleMod (a.x - t.x)))
  let t10119 := (t.y + (angleMod (a.y - t.y)))
  let t10121 := (t.z + (angleMod (a.z - t.z)))
  let t10129 := (t.x + (angleMod ((((884279719003555 : α) / (281474976710656 : α)) + t10117) - t.x)))
  let t10131 := (t.y + (angleMod ((((884279719003555 : α) / (281474976710656 : α)) - t10119) - t.y)))
  let t10133 := (t.z + (angleMod ((((884279719003555 : α) / (281474976710656 : α)) + t10121) - t.z)))
  let t10134 := (t10121 - t.z)
  let t10135 := (t10119 - t.y)
  let t10136 := (t10117 - t.x)
  let t10137 := (t10133 - t.z)
  let t10138 := (t10131 - t.y)
  let t10139 := (t10129 - t.x)
  let t10181 := (((t10135 * t10135) + (t10136 * t10136)) + (t10134 * t10134))
  let t10183 := (((t10138 * t10138) + (t10139 * t10139)) + (t10137 * t10137))
  if t10183 < t10181 then
    (⟨t10129, t10131, t10133⟩, (4112 : Int))
  else
    (⟨t10117, t10119, t10121⟩, (4112 : Int))

/-- extracted from the C++ template at T = Sym; 2 path(s) -/
def Euler.nearestRotation_ZYZr {α : Type} [Add α] [Sub α] [Mul α] [Div α] [LT α] [DecidableLT α] [OfNat α 281474976710656] [OfNat α 884279719003555] (angleMod : α → α) (xyzRot : V3 α) (target : V3 α) : (V3 α) :=
  let t10076 := (target.x + (angleMod (xyzRot.x - target.x)))
  let t10078 := (target.y + (angleMod (xyzRot.y - target.y)))
  let t10080 := (target.z + (angleMod (xyzRot.z - target.z)))
  let t10089 := (target.x + (angleMod ((((884279719003555 : α) / (281474976710656 : α)) + t10076) - target.x)))
  let t10091 := (target.y + (angleMod ((((884279719003555 : α) / (281474976710656 : α)) - t10078) - target.y)))
  let t10093 := (target.z + (angleMod ((((884279719003555 : α) / (281474976710656 : α)) + t10080) - target.z)))
  let t10094 := (t10080 - target.z)
  let t10095 := (t10078 - target.y)
  let t10096 := (t10076 - target.x)
  let t10097 := (t10093 - target.z)
  let t10098 := (t10091 - target.y)
  let t10099 := (t10089 - target.x)
  let t10104 := (((t10096 * t10096) + (t10095 * t10095)) + (t10094 * t10094))
  let t10109 := (((t10099 * t10099) + (t10098 * t10098)) + (t10097 * t10097))
  if t10109 < t10104 then
    ⟨t10089, t10091, t10093⟩
  else
    ⟨t10076, t10078, t10080⟩

/-- extracted from the C++ template at T = Sym; 2 path(s) -/
def Euler.makeNear_ZYZr {α : Type} [Add α] [Sub α] [Mul α] [Div α] [LT α] [DecidableLT α] [OfNat α 281474976710656] [OfNat α 884279719003555] (angleMod : α → α) (a : V3 α) (t : V3 α) : ((V3 α) × Int) :=
  let t10117 := (t.x + (angleMod (a.x - t.x)))
  let t10119 := (t.y + (angleMod (a.y - t.y)))
  let t10121 := (t.z + (angleMod (a.z - t.z)))
  let t10129 := (t.x + (angleMod ((((884279719003555 : α) / (281474976710656 : α)) + t10117) - t.x)))
  let t10131 := (t.y + (angleMod ((((884279719003555 : α) / (281474976710656 : α)) - t10119) - t.y)))
  let t10133 := (t.z + (angleMod ((((884279719003555 : α) / (281474976710656 : α)) + t10121) - t.z)))
  let t10134 := (t10121 - t.z)
  let t10135 := (t10119 - t.y)
  let t10136 := (t10117 - t.x)
  let t10137 := (t10133 - t.z)
  let t10138 := (t10131 - t.y)
  let t10139 := (t10129 - t.x)
  let t10144 := (((t10136 * t10136) + (t10135 * t10135)) + (t10134 * t10134))
  let t10149 := (((t10139 * t10139) + (t10138 * t10138)) + (t10137 * t10137))
  if t10149 < t10144 then
    (⟨t10129, t10131, t10133⟩, (272 : Int))
  else
    (⟨t10117, t10119, t10121⟩, (272 : Int))

/-- extracted from the C++ template at T = Sym; 2 path(s) -/
def Euler.nearestRotation_ZXZr {α : Type} [Add α] [Sub α] [Mul α] [Div α] [LT α] [DecidableLT α] [OfNat α 281474976710656] [OfNat α 884279719003555] (angleMod : α → α) (xyzRot : V3 α) (target : V3 α) : (V3 α) :=
  let t10076 := (target.x + (angleMod (xyzRot.x - target.x)))
  let t10078 := (target.y + (angleMod (xyzRot.y - target.y)))
  let t10080 := (target.z + (angleMod (xyzRot.z - target.z)))
  let t10089 := (target.x + (angleMod ((((884279719003555 : α) / (281474976710656 : α)) + t10076) - target.x)))
  let t10094 := (t10080 - target.z)
  let t10095 := (t10078 - target.y)
  let t10096 := (t10076 - target.x)
  let t10099 := (t10089 - target.x)
  let t10104 := (((t10096 * t10096) + (t10095 * t10095)) + (t10094 * t10094))
  let t10155 := (target.y + (angleMod ((((884279719003555 : α) / (281474976710656 : α)) + t10078) - target.y)))
  let t10157 := (target.z + (angleMod ((((884279719003555 : α) / (281474976710656 : α)) - t10080) - target.z)))
  let t10158 := (t10157 - target.z)
  let t10159 := (t10155 - target.y)
  let t10163 := (((t10099 * t10099) + (t10159 * t10159)) + (t10158 * t10158))
  if t10163 < t10104 then
    ⟨t10089, t10155, t10157⟩
  else
    ⟨t10076, t10078, t10080⟩

/-- extracted from the C++ template at T = Sym; 2 path(s) -/
def Euler.makeNear_ZXZr {α : Type} [Add α] [Sub α] [Mul α] [Div α] [LT α] [DecidableLT α] [OfNat α 281474976710656] [OfNat α 884279719003555] (angleMod : α → α) (a : V3 α) (t : V3 α) : ((V3 α) × Int) :=
  let t10117 := (t.x + (angleMod (a.x - t.x)))
  let t10119 := (t.y + (angleMod (a.y - t.y)))
  let t10121 := (t.z + (angleMod (a.z - t.z)))
  let t10129 := (t.x + (angleMod ((((884279719003555 : α) / (281474976710656 : α)) + t10117) - t.x)))
  let t10131 := (t.y + (angleMod ((((884279719003555 : α) / (281474976710656 : α)) - t10119) - t.y)))
  let t10133 := (t.z + (angleMod ((((884279719003555 : α) / (281474976710656 : α)) + t10121) - t.z)))
  let t10134 := (t10121 - t.z)
  let t10135 := (t10119 - t.y)
  let t10136 := (t10117 - t.x)
  let t10137 := (t10133 - t.z)
  let t10138 := (t10131 - t.y)
  let t10139 := (t10129 - t.x)
  let t10165 := (((t10136 * t10136) + (t10134 * t10134)) + (t10135 * t10135))
  let t10167 := (((t10139 * t10139) + (t10137 * t10137)) + (t10138 * t10138))
  if t10167 < t10165 then
    (⟨t10129, t10131, t10133⟩, (16 : Int))
  else
    (⟨t10117, t10119, t10121⟩, (16 : Int))

end ImathVerif.Gen
