-- GENERATED from /repo/src/Imath by harness/sym (T = Sym path extraction); do not edit.
import ImathVerif.Basic.Types
import ImathVerif.Gen.Leaf
set_option linter.unusedVariables false
namespace ImathVerif.Gen
open ImathVerif

/-- extracted from the C++ template at T = Sym; 1 path(s) -/
def Euler.M44_setEulerAngles {α : Type} [Add α] [Mul α] [Neg α] [OfNat α 0] [OfNat α 1] (sin : α → α) (cos : α → α) (r : V3 α) : (M44 α) :=
  let t8610 := (cos r.z)
  let t8611 := (cos r.y)
  let t8612 := (cos r.x)
  let t8613 := (sin r.z)
  let t8614 := (sin r.y)
  let t8615 := (sin r.x)
  let t8619 := (t8610 * t8614)
  let t8624 := (t8613 * t8614)
  ⟨(t8610 * t8611), (t8613 * t8611), (-t8614), (0 : α), (((-t8613) * t8612) + (t8619 * t8615)), ((t8610 * t8612) + (t8624 * t8615)), (t8611 * t8615), (0 : α), ((t8613 * t8615) + (t8619 * t8612)), (((-t8610) * t8615) + (t8624 * t8612)), (t8611 * t8612), (0 : α), (0 : α), (0 : α), (0 : α), (1 : α)⟩

/-- extracted from the C++ template at T = Sym; 1 path(s) -/
def Euler.M44_rotate {α : Type} [Add α] [Mul α] [Neg α] (sin : α → α) (cos : α → α) (m : M44 α) (r : V3 α) : (M44 α) :=
  let t8610 := (cos r.z)
  let t8611 := (cos r.y)
  let t8612 := (cos r.x)
  let t8613 := (sin r.z)
  let t8614 := (sin r.y)
  let t8615 := (sin r.x)
  let t8616 := (t8610 * t8611)
  let t8617 := (t8613 * t8611)
  let t8618 := (-t8614)
  let t8619 := (t8610 * t8614)
  let t8621 := (-t8613)
  let t8623 := ((t8621 * t8612) + (t8619 * t8615))
  let t8624 := (t8613 * t8614)
  let t8627 := ((t8610 * t8612) + (t8624 * t8615))
  let t8628 := (t8611 * t8615)
  let t8636 := (t8611 * t8612)
  let t8637 := (-t8615)
  let t8639 := ((t8621 * t8637) + (t8619 * t8612))
  let t8641 := ((t8610 * t8637) + (t8624 * t8612))
  ⟨(((m.x00 * t8616) + (m.x10 * t8617)) + (m.x20 * t8618)), (((m.x01 * t8616) + (m.x11 * t8617)) + (m.x21 * t8618)), (((m.x02 * t8616) + (m.x12 * t8617)) + (m.x22 * t8618)), (((m.x03 * t8616) + (m.x13 * t8617)) + (m.x23 * t8618)), (((m.x00 * t8623) + (m.x10 * t8627)) + (m.x20 * t8628)), (((m.x01 * t8623) + (m.x11 * t8627)) + (m.x21 * t8628)), (((m.x02 * t8623) + (m.x12 * t8627)) + (m.x22 * t8628)), (((m.x03 * t8623) + (m.x13 * t8627)) + (m.x23 * t8628)), (((m.x00 * t8639) + (m.x10 * t8641)) + (m.x20 * t8636)), (((m.x01 * t8639) + (m.x11 * t8641)) + (m.x21 * t8636)), (((m.x02 * t8639) + (m.x12 * t8641)) + (m.x22 * t8636)), (((m.x03 * t8639) + (m.x13 * t8641)) + (m.x23 * t8636)), m.x30, m.x31, m.x32, m.x33⟩

/-- extracted from the C++ template at T = Sym; 1 path(s) -/
def Euler.M33_setRotation {α : Type} [Neg α] [OfNat α 0] [OfNat α 1] (sin : α → α) (cos : α → α) (r : α) : (M33 α) :=
  let t8703 := (cos r)
  let t8704 := (sin r)
  ⟨t8703, t8704, (0 : α), (-t8704), t8703, (0 : α), (0 : α), (0 : α), (1 : α)⟩

/-- extracted from the C++ template at T = Sym; 1 path(s) -/
def Euler.M22_setRotation {α : Type} [Neg α] (sin : α → α) (cos : α → α) (r : α) : (M22 α) :=
  let t8703 := (cos r)
  let t8704 := (sin r)
  ⟨t8703, t8704, (-t8704), t8703⟩

/-- extracted from the C++ template at T = Sym; 1 path(s) -/
def Euler.Quat_toMatrix33 {α : Type} [Add α] [Sub α] [Mul α] [OfNat α 1] [OfNat α 2] (q : Quat α) : (M33 α) :=
  let t309 := (q.v.x * q.v.x)
  let t310 := (q.v.y * q.v.y)
  let t315 := (q.v.x * q.r)
  let t316 := (q.v.y * q.v.z)
  let t319 := (q.v.y * q.r)
  let t320 := (q.v.z * q.v.x)
  let t325 := (q.v.z * q.v.z)
  let t329 := (q.v.z * q.r)
  let t330 := (q.v.x * q.v.y)
  ⟨((1 : α) - ((2 : α) * (t310 + t325))), ((2 : α) * (t330 + t329)), ((2 : α) * (t320 - t319)), ((2 : α) * (t330 - t329)), ((1 : α) - ((2 : α) * (t325 + t309))), ((2 : α) * (t316 + t315)), ((2 : α) * (t320 + t319)), ((2 : α) * (t316 - t315)), ((1 : α) - ((2 : α) * (t310 + t309)))⟩

/-- extracted from the C++ template at T = Sym; 1 path(s) -/
def Euler.Quat_toMatrix44 {α : Type} [Add α] [Sub α] [Mul α] [OfNat α 0] [OfNat α 1] [OfNat α 2] (q : Quat α) : (M44 α) :=
  let t309 := (q.v.x * q.v.x)
  let t310 := (q.v.y * q.v.y)
  let t315 := (q.v.x * q.r)
  let t316 := (q.v.y * q.v.z)
  let t319 := (q.v.y * q.r)
  let t320 := (q.v.z * q.v.x)
  let t325 := (q.v.z * q.v.z)
  let t329 := (q.v.z * q.r)
  let t330 := (q.v.x * q.v.y)
  ⟨((1 : α) - ((2 : α) * (t310 + t325))), ((2 : α) * (t330 + t329)), ((2 : α) * (t320 - t319)), (0 : α), ((2 : α) * (t330 - t329)), ((1 : α) - ((2 : α) * (t325 + t309))), ((2 : α) * (t316 + t315)), (0 : α), ((2 : α) * (t320 + t319)), ((2 : α) * (t316 - t315)), ((1 : α) - ((2 : α) * (t310 + t309))), (0 : α), (0 : α), (0 : α), (0 : α), (1 : α)⟩

/-- extracted from the C++ template at T = Sym; 8 path(s) -/
def Euler.extractEulerXYZ {α : Type} [Add α] [Mul α] [Div α] [Neg α] [LT α] [LE α] [DecidableLT α] [DecidableLE α] [DecidableEq α] [OfNat α 0] [OfNat α 1] [OfNat α 2] (tmin : α) (tmax : α) (sqrt : α → α) (sin : α → α) (cos : α → α) (atan2 : α → α → α) (m : M44 α) : (V3 α) :=
  let t64 := (atan2 m.x12 m.x22)
  let t65 := (-t64)
  let t66 := (cos (0 : α))
  let t67 := (cos t65)
  let t68 := (sin (0 : α))
  let t69 := (sin t65)
  let t70 := (t66 * t66)
  let t71 := (t68 * t66)
  let t72 := (-t68)
  let t73 := (t66 * t68)
  let t76 := ((t72 * t67) + (t73 * t69))
  let t77 := (t68 * t68)
  let t80 := ((t66 * t67) + (t77 * t69))
  let t81 := (t66 * t69)
  let t89 := ((0 : α) * t72)
  let t90 := ((0 : α) * t71)
  let t93 := ((((1 : α) * t70) + t90) + t89)
  let t95 := ((0 : α) * t70)
  let t97 := ((t95 + ((1 : α) * t71)) + t89)
  let t99 := (t95 + t90)
  let t100 := (t99 + ((1 : α) * t72))
  let t102 := ((0 : α) * t81)
  let t103 := ((0 : α) * t80)
  let t106 := ((((1 : α) * t76) + t103) + t102)
  let t108 := ((0 : α) * t76)
  let t110 := ((t108 + ((1 : α) * t80)) + t102)
  let t112 := (t108 + t103)
  let t113 := (t112 + ((1 : α) * t81))
  let t128 := ((t99 + t89) * (0 : α))
  let t129 := (t100 * m.x20)
  let t130 := (t97 * m.x10)
  let t131 := (t93 * m.x00)
  let t132 := (t131 + t130)
  let t134 := ((t132 + t129) + t128)
  let t135 := (t100 * m.x21)
  let t136 := (t97 * m.x11)
  let t137 := (t93 * m.x01)
  let t138 := (t137 + t136)
  let t140 := ((t138 + t135) + t128)
  let t141 := (t100 * m.x22)
  let t142 := (t97 * m.x12)
  let t143 := (t93 * m.x02)
  let t144 := (t143 + t142)
  let t154 := ((t112 + t102) * (0 : α))
  let t155 := (t113 * m.x20)
  let t156 := (t110 * m.x10)
  let t161 := (t113 * m.x21)
  let t162 := (t110 * m.x11)
  let t8706 := (V3.length tmin tmax sqrt ⟨m.x00, m.x01, m.x02⟩)
  let t8707 := (V3.length tmin tmax sqrt ⟨m.x10, m.x11, m.x12⟩)
  let t8708 := (V3.length tmin tmax sqrt ⟨m.x20, m.x21, m.x22⟩)
  let t8709 := (m.x20 / t8708)
  let t8710 := (m.x21 / t8708)
  let t8711 := (m.x22 / t8708)
  let t8712 := (atan2 m.x12 t8711)
  let t8713 := (-t8712)
  let t8714 := (cos t8713)
  let t8715 := (sin t8713)
  let t8718 := ((t72 * t8714) + (t73 * t8715))
  let t8721 := ((t66 * t8714) + (t77 * t8715))
  let t8722 := (t66 * t8715)
  let t8730 := ((0 : α) * t8722)
  let t8731 := ((0 : α) * t8721)
  let t8734 := ((((1 : α) * t8718) + t8731) + t8730)
  let t8736 := ((0 : α) * t8718)
  let t8738 := ((t8736 + ((1 : α) * t8721)) + t8730)
  let t8740 := (t8736 + t8731)
  let t8741 := (t8740 + ((1 : α) * t8722))
  let t8756 := (t100 * t8709)
  let t8758 := ((t132 + t8756) + t128)
  let t8759 := (t100 * t8710)
  let t8761 := ((t138 + t8759) + t128)
  let t8762 := (t100 * t8711)
  let t8765 := ((t8740 + t8730) * (0 : α))
  let t8766 := (t8741 * t8709)
  let t8767 := (t8738 * m.x10)
  let t8772 := (t8741 * t8710)
  let t8773 := (t8738 * m.x11)
  let t8834 := (m.x10 / t8707)
  let t8835 := (m.x11 / t8707)
  let t8836 := (m.x12 / t8707)
  let t8837 := (atan2 t8836 m.x22)
  let t8838 := (-t8837)
  let t8839 := (cos t8838)
  let t8840 := (sin t8838)
  let t8843 := ((t72 * t8839) + (t73 * t8840))
  let t8846 := ((t66 * t8839) + (t77 * t8840))
  let t8847 := (t66 * t8840)
  let t8855 := ((0 : α) * t8847)
  let t8856 := ((0 : α) * t8846)
  let t8859 := ((((1 : α) * t8843) + t8856) + t8855)
  let t8861 := ((0 : α) * t8843)
  let t8863 := ((t8861 + ((1 : α) * t8846)) + t8855)
  let t8865 := (t8861 + t8856)
  let t8866 := (t8865 + ((1 : α) * t8847))
  let t8881 := (t97 * t8834)
  let t8882 := (t131 + t8881)
  let t8884 := ((t8882 + t129) + t128)
  let t8885 := (t97 * t8835)
  let t8886 := (t137 + t8885)
  let t8888 := ((t8886 + t135) + t128)
  let t8889 := (t97 * t8836)
  let t8890 := (t143 + t8889)
  let t8893 := ((t8865 + t8855) * (0 : α))
  let t8894 := (t8866 * m.x20)
  let t8895 := (t8863 * t8834)
  let t8900 := (t8866 * m.x21)
  let t8901 := (t8863 * t8835)
  let t8965 := (atan2 t8836 t8711)
  let t8966 := (-t8965)
  let t8967 := (cos t8966)
  let t8968 := (sin t8966)
  let t8971 := ((t72 * t8967) + (t73 * t8968))
  let t8974 := ((t66 * t8967) + (t77 * t8968))
  let t8975 := (t66 * t8968)
  let t8983 := ((0 : α) * t8975)
  let t8984 := ((0 : α) * t8974)
  let t8987 := ((((1 : α) * t8971) + t8984) + t8983)
  let t8989 := ((0 : α) * t8971)
  let t8991 := ((t8989 + ((1 : α) * t8974)) + t8983)
  let t8993 := (t8989 + t8984)
  let t8994 := (t8993 + ((1 : α) * t8975))
  let t9010 := ((t8882 + t8756) + t128)
  let t9012 := ((t8886 + t8759) + t128)
  let t9015 := ((t8993 + t8983) * (0 : α))
  let t9016 := (t8994 * t8709)
  let t9017 := (t8991 * t8834)
  let t9022 := (t8994 * t8710)
  let t9023 := (t8991 * t8835)
  let t9081 := (m.x00 / t8706)
  let t9082 := (m.x01 / t8706)
  let t9084 := (t93 * t9081)
  let t9085 := (t9084 + t130)
  let t9087 := ((t9085 + t129) + t128)
  let t9088 := (t93 * t9082)
  let t9089 := (t9088 + t136)
  let t9091 := ((t9089 + t135) + t128)
  let t9092 := (t93 * (m.x02 / t8706))
  let t9093 := (t9092 + t142)
  let t9141 := ((t9085 + t8756) + t128)
  let t9143 := ((t9089 + t8759) + t128)
  let t9184 := (t9084 + t8881)
  let t9186 := ((t9184 + t129) + t128)
  let t9187 := (t9088 + t8885)
  let t9189 := ((t9187 + t135) + t128)
  let t9190 := (t9092 + t8889)
  let t9235 := ((t9184 + t8756) + t128)
  let t9237 := ((t9187 + t8759) + t128)
  if t8706 = (0 : α) then
    if t8707 = (0 : α) then
      if t8708 = (0 : α) then
        ⟨t64, (atan2 (-((t144 + t141) + t128)) (sqrt ((t134 * t134) + (t140 * t140)))), (atan2 (-((((t106 * m.x00) + t156) + t155) + t154)) ((((t106 * m.x01) + t162) + t161) + t154))⟩
      else
        ⟨t8712, (atan2 (-((t144 + t8762) + t128)) (sqrt ((t8758 * t8758) + (t8761 * t8761)))), (atan2 (-((((t8734 * m.x00) + t8767) + t8766) + t8765)) ((((t8734 * m.x01) + t8773) + t8772) + t8765))⟩
    else
      if t8708 = (0 : α) then
        ⟨t8837, (atan2 (-((t8890 + t141) + t128)) (sqrt ((t8884 * t8884) + (t8888 * t8888)))), (atan2 (-((((t8859 * m.x00) + t8895) + t8894) + t8893)) ((((t8859 * m.x01) + t8901) + t8900) + t8893))⟩
      else
        ⟨t8965, (atan2 (-((t8890 + t8762) + t128)) (sqrt ((t9010 * t9010) + (t9012 * t9012)))), (atan2 (-((((t8987 * m.x00) + t9017) + t9016) + t9015)) ((((t8987 * m.x01) + t9023) + t9022) + t9015))⟩
  else
    if t8707 = (0 : α) then
      if t8708 = (0 : α) then
        ⟨t64, (atan2 (-((t9093 + t141) + t128)) (sqrt ((t9087 * t9087) + (t9091 * t9091)))), (atan2 (-((((t106 * t9081) + t156) + t155) + t154)) ((((t106 * t9082) + t162) + t161) + t154))⟩
      else
        ⟨t8712, (atan2 (-((t9093 + t8762) + t128)) (sqrt ((t9141 * t9141) + (t9143 * t9143)))), (atan2 (-((((t8734 * t9081) + t8767) + t8766) + t8765)) ((((t8734 * t9082) + t8773) + t8772) + t8765))⟩
    else
      if t8708 = (0 : α) then
        ⟨t8837, (atan2 (-((t9190 + t141) + t128)) (sqrt ((t9186 * t9186) + (t9189 * t9189)))), (atan2 (-((((t8859 * t9081) + t8895) + t8894) + t8893)) ((((t8859 * t9082) + t8901) + t8900) + t8893))⟩
      else
        ⟨t8965, (atan2 (-((t9190 + t8762) + t128)) (sqrt ((t9235 * t9235) + (t9237 * t9237)))), (atan2 (-((((t8987 * t9081) + t9017) + t9016) + t9015)) ((((t8987 * t9082) + t9023) + t9022) + t9015))⟩

/-- extracted from the C++ template at T = Sym; 8 path(s) -/
def Euler.extractEulerZYX {α : Type} [Add α] [Mul α] [Div α] [Neg α] [LT α] [LE α] [DecidableLT α] [DecidableLE α] [DecidableEq α] [OfNat α 0] [OfNat α 1] [OfNat α 2] (tmin : α) (tmax : α) (sqrt : α → α) (sin : α → α) (cos : α → α) (atan2 : α → α → α) (m : M44 α) : (V3 α) :=
  let t66 := (cos (0 : α))
  let t68 := (sin (0 : α))
  let t70 := (t66 * t66)
  let t72 := (-t68)
  let t73 := (t66 * t68)
  let t91 := ((1 : α) * t70)
  let t95 := ((0 : α) * t70)
  let t2422 := ((0 : α) * t73)
  let t2431 := ((1 : α) * t73)
  let t8706 := (V3.length tmin tmax sqrt ⟨m.x00, m.x01, m.x02⟩)
  let t8707 := (V3.length tmin tmax sqrt ⟨m.x10, m.x11, m.x12⟩)
  let t8708 := (V3.length tmin tmax sqrt ⟨m.x20, m.x21, m.x22⟩)
  let t8709 := (m.x20 / t8708)
  let t8710 := (m.x21 / t8708)
  let t8711 := (m.x22 / t8708)
  let t8834 := (m.x10 / t8707)
  let t8835 := (m.x11 / t8707)
  let t8836 := (m.x12 / t8707)
  let t9081 := (m.x00 / t8706)
  let t9082 := (m.x01 / t8706)
  let t9083 := (m.x02 / t8706)
  let t9278 := (-(atan2 m.x10 m.x00))
  let t9279 := (-t9278)
  let t9280 := (cos t9279)
  let t9281 := (sin t9279)
  let t9284 := (t9280 * t68)
  let t9286 := (-t9281)
  let t9288 := ((t9286 * t66) + (t9284 * t68))
  let t9289 := (t9281 * t68)
  let t9291 := ((t9280 * t66) + (t9289 * t68))
  let t9294 := ((t9286 * t72) + (t9284 * t66))
  let t9297 := ((t9280 * t72) + (t9289 * t66))
  let t9309 := ((0 : α) * t9291)
  let t9312 := ((((1 : α) * t9288) + t9309) + t2422)
  let t9314 := ((0 : α) * t9288)
  let t9316 := ((t9314 + ((1 : α) * t9291)) + t2422)
  let t9317 := (t9314 + t9309)
  let t9318 := (t9317 + t2431)
  let t9320 := ((0 : α) * t9297)
  let t9323 := ((((1 : α) * t9294) + t9320) + t95)
  let t9325 := ((0 : α) * t9294)
  let t9327 := ((t9325 + ((1 : α) * t9297)) + t95)
  let t9328 := (t9325 + t9320)
  let t9329 := (t9328 + t91)
  let t9357 := ((t9317 + t2422) * (0 : α))
  let t9367 := ((t9312 * m.x01) + (t9316 * m.x11))
  let t9373 := ((t9312 * m.x02) + (t9316 * m.x12))
  let t9383 := ((t9328 + t95) * (0 : α))
  let t9387 := ((t9323 * m.x00) + (t9327 * m.x10))
  let t9393 := ((t9323 * m.x01) + (t9327 * m.x11))
  let t9395 := ((t9393 + (t9329 * m.x21)) + t9383)
  let t9399 := ((t9323 * m.x02) + (t9327 * m.x12))
  let t9401 := ((t9399 + (t9329 * m.x22)) + t9383)
  let t9442 := ((t9393 + (t9329 * t8710)) + t9383)
  let t9445 := ((t9399 + (t9329 * t8711)) + t9383)
  let t9457 := (-(atan2 t8834 m.x00))
  let t9458 := (-t9457)
  let t9459 := (cos t9458)
  let t9460 := (sin t9458)
  let t9463 := (t9459 * t68)
  let t9465 := (-t9460)
  let t9467 := ((t9465 * t66) + (t9463 * t68))
  let t9468 := (t9460 * t68)
  let t9470 := ((t9459 * t66) + (t9468 * t68))
  let t9473 := ((t9465 * t72) + (t9463 * t66))
  let t9476 := ((t9459 * t72) + (t9468 * t66))
  let t9488 := ((0 : α) * t9470)
  let t9491 := ((((1 : α) * t9467) + t9488) + t2422)
  let t9493 := ((0 : α) * t9467)
  let t9495 := ((t9493 + ((1 : α) * t9470)) + t2422)
  let t9496 := (t9493 + t9488)
  let t9497 := (t9496 + t2431)
  let t9499 := ((0 : α) * t9476)
  let t9502 := ((((1 : α) * t9473) + t9499) + t95)
  let t9504 := ((0 : α) * t9473)
  let t9506 := ((t9504 + ((1 : α) * t9476)) + t95)
  let t9507 := (t9504 + t9499)
  let t9508 := (t9507 + t91)
  let t9536 := ((t9496 + t2422) * (0 : α))
  let t9546 := ((t9491 * m.x01) + (t9495 * t8835))
  let t9552 := ((t9491 * m.x02) + (t9495 * t8836))
  let t9562 := ((t9507 + t95) * (0 : α))
  let t9566 := ((t9502 * m.x00) + (t9506 * t8834))
  let t9572 := ((t9502 * m.x01) + (t9506 * t8835))
  let t9574 := ((t9572 + (t9508 * m.x21)) + t9562)
  let t9578 := ((t9502 * m.x02) + (t9506 * t8836))
  let t9580 := ((t9578 + (t9508 * m.x22)) + t9562)
  let t9621 := ((t9572 + (t9508 * t8710)) + t9562)
  let t9624 := ((t9578 + (t9508 * t8711)) + t9562)
  let t9636 := (-(atan2 m.x10 t9081))
  let t9637 := (-t9636)
  let t9638 := (cos t9637)
  let t9639 := (sin t9637)
  let t9642 := (t9638 * t68)
  let t9644 := (-t9639)
  let t9646 := ((t9644 * t66) + (t9642 * t68))
  let t9647 := (t9639 * t68)
  let t9649 := ((t9638 * t66) + (t9647 * t68))
  let t9652 := ((t9644 * t72) + (t9642 * t66))
  let t9655 := ((t9638 * t72) + (t9647 * t66))
  let t9667 := ((0 : α) * t9649)
  let t9670 := ((((1 : α) * t9646) + t9667) + t2422)
  let t9672 := ((0 : α) * t9646)
  let t9674 := ((t9672 + ((1 : α) * t9649)) + t2422)
  let t9675 := (t9672 + t9667)
  let t9676 := (t9675 + t2431)
  let t9678 := ((0 : α) * t9655)
  let t9681 := ((((1 : α) * t9652) + t9678) + t95)
  let t9683 := ((0 : α) * t9652)
  let t9685 := ((t9683 + ((1 : α) * t9655)) + t95)
  let t9686 := (t9683 + t9678)
  let t9687 := (t9686 + t91)
  let t9715 := ((t9675 + t2422) * (0 : α))
  let t9725 := ((t9670 * t9082) + (t9674 * m.x11))
  let t9731 := ((t9670 * t9083) + (t9674 * m.x12))
  let t9741 := ((t9686 + t95) * (0 : α))
  let t9745 := ((t9681 * t9081) + (t9685 * m.x10))
  let t9751 := ((t9681 * t9082) + (t9685 * m.x11))
  let t9753 := ((t9751 + (t9687 * m.x21)) + t9741)
  let t9757 := ((t9681 * t9083) + (t9685 * m.x12))
  let t9759 := ((t9757 + (t9687 * m.x22)) + t9741)
  let t9800 := ((t9751 + (t9687 * t8710)) + t9741)
  let t9803 := ((t9757 + (t9687 * t8711)) + t9741)
  let t9815 := (-(atan2 t8834 t9081))
  let t9816 := (-t9815)
  let t9817 := (cos t9816)
  let t9818 := (sin t9816)
  let t9821 := (t9817 * t68)
  let t9823 := (-t9818)
  let t9825 := ((t9823 * t66) + (t9821 * t68))
  let t9826 := (t9818 * t68)
  let t9828 := ((t9817 * t66) + (t9826 * t68))
  let t9831 := ((t9823 * t72) + (t9821 * t66))
  let t9834 := ((t9817 * t72) + (t9826 * t66))
  let t9846 := ((0 : α) * t9828)
  let t9849 := ((((1 : α) * t9825) + t9846) + t2422)
  let t9851 := ((0 : α) * t9825)
  let t9853 := ((t9851 + ((1 : α) * t9828)) + t2422)
  let t9854 := (t9851 + t9846)
  let t9855 := (t9854 + t2431)
  let t9857 := ((0 : α) * t9834)
  let t9860 := ((((1 : α) * t9831) + t9857) + t95)
  let t9862 := ((0 : α) * t9831)
  let t9864 := ((t9862 + ((1 : α) * t9834)) + t95)
  let t9865 := (t9862 + t9857)
  let t9866 := (t9865 + t91)
  let t9894 := ((t9854 + t2422) * (0 : α))
  let t9904 := ((t9849 * t9082) + (t9853 * t8835))
  let t9910 := ((t9849 * t9083) + (t9853 * t8836))
  let t9920 := ((t9865 + t95) * (0 : α))
  let t9924 := ((t9860 * t9081) + (t9864 * t8834))
  let t9930 := ((t9860 * t9082) + (t9864 * t8835))
  let t9932 := ((t9930 + (t9866 * m.x21)) + t9920)
  let t9936 := ((t9860 * t9083) + (t9864 * t8836))
  let t9938 := ((t9936 + (t9866 * m.x22)) + t9920)
  let t9979 := ((t9930 + (t9866 * t8710)) + t9920)
  let t9982 := ((t9936 + (t9866 * t8711)) + t9920)
  if t8706 = (0 : α) then
    if t8707 = (0 : α) then
      if t8708 = (0 : α) then
        ⟨t9278, (-(atan2 (-((t9387 + (t9329 * m.x20)) + t9383)) (sqrt ((t9401 * t9401) + (t9395 * t9395))))), (-(atan2 (-((t9373 + (t9318 * m.x22)) + t9357)) ((t9367 + (t9318 * m.x21)) + t9357)))⟩
      else
        ⟨t9278, (-(atan2 (-((t9387 + (t9329 * t8709)) + t9383)) (sqrt ((t9445 * t9445) + (t9442 * t9442))))), (-(atan2 (-((t9373 + (t9318 * t8711)) + t9357)) ((t9367 + (t9318 * t8710)) + t9357)))⟩
    else
      if t8708 = (0 : α) then
        ⟨t9457, (-(atan2 (-((t9566 + (t9508 * m.x20)) + t9562)) (sqrt ((t9580 * t9580) + (t9574 * t9574))))), (-(atan2 (-((t9552 + (t9497 * m.x22)) + t9536)) ((t9546 + (t9497 * m.x21)) + t9536)))⟩
      else
        ⟨t9457, (-(atan2 (-((t9566 + (t9508 * t8709)) + t9562)) (sqrt ((t9624 * t9624) + (t9621 * t9621))))), (-(atan2 (-((t9552 + (t9497 * t8711)) + t9536)) ((t9546 + (t9497 * t8710)) + t9536)))⟩
  else
    if t8707 = (0 : α) then
      if t8708 = (0 : α) then
        ⟨t9636, (-(atan2 (-((t9745 + (t9687 * m.x20)) + t9741)) (sqrt ((t9759 * t9759) + (t9753 * t9753))))), (-(atan2 (-((t9731 + (t9676 * m.x22)) + t9715)) ((t9725 + (t9676 * m.x21)) + t9715)))⟩
      else
        ⟨t9636, (-(atan2 (-((t9745 + (t9687 * t8709)) + t9741)) (sqrt ((t9803 * t9803) + (t9800 * t9800))))), (-(atan2 (-((t9731 + (t9676 * t8711)) + t9715)) ((t9725 + (t9676 * t8710)) + t9715)))⟩
    else
      if t8708 = (0 : α) then
        ⟨t9815, (-(atan2 (-((t9924 + (t9866 * m.x20)) + t9920)) (sqrt ((t9938 * t9938) + (t9932 * t9932))))), (-(atan2 (-((t9910 + (t9855 * m.x22)) + t9894)) ((t9904 + (t9855 * m.x21)) + t9894)))⟩
      else
        ⟨t9815, (-(atan2 (-((t9924 + (t9866 * t8709)) + t9920)) (sqrt ((t9982 * t9982) + (t9979 * t9979))))), (-(atan2 (-((t9910 + (t9855 * t8711)) + t9894)) ((t9904 + (t9855 * t8710)) + t9894)))⟩

/-- extracted from the C++ template at T = Sym; 4 path(s) -/
def Euler.extractEuler22 {α : Type} [Add α] [Mul α] [Div α] [Neg α] [LT α] [DecidableLT α] [DecidableEq α] [OfNat α 0] [OfNat α 2] (tmin : α) (tmax : α) (sqrt : α → α) (atan2 : α → α → α) (m : M22 α) : α :=
  let t9993 := (V2.length tmin tmax sqrt ⟨m.x00, m.x01⟩)
  let t9994 := (V2.length tmin tmax sqrt ⟨m.x10, m.x11⟩)
  let t9995 := (m.x10 / t9994)
  let t9999 := (m.x00 / t9993)
  if t9993 = (0 : α) then
    if t9994 = (0 : α) then
      (-(atan2 m.x10 m.x00))
    else
      (-(atan2 t9995 m.x00))
  else
    if t9994 = (0 : α) then
      (-(atan2 m.x10 t9999))
    else
      (-(atan2 t9995 t9999))

/-- extracted from the C++ template at T = Sym; 4 path(s) -/
def Euler.extractEuler33 {α : Type} [Add α] [Mul α] [Div α] [Neg α] [LT α] [DecidableLT α] [DecidableEq α] [OfNat α 0] [OfNat α 2] (tmin : α) (tmax : α) (sqrt : α → α) (atan2 : α → α → α) (m : M33 α) : α :=
  let t9993 := (V2.length tmin tmax sqrt ⟨m.x00, m.x01⟩)
  let t9994 := (V2.length tmin tmax sqrt ⟨m.x10, m.x11⟩)
  let t9995 := (m.x10 / t9994)
  let t9999 := (m.x00 / t9993)
  if t9993 = (0 : α) then
    if t9994 = (0 : α) then
      (-(atan2 m.x10 m.x00))
    else
      (-(atan2 t9995 m.x00))
  else
    if t9994 = (0 : α) then
      (-(atan2 m.x10 t9999))
    else
      (-(atan2 t9995 t9999))

/-- extracted from the C++ template at T = Sym; 1 path(s) -/
def Euler.simpleXYZRotation {α : Type} [Add α] [Sub α] (angleMod : α → α) (xyzRot : V3 α) (target : V3 α) : (V3 α) :=
  ⟨(target.x + (angleMod (xyzRot.x - target.x))), (target.y + (angleMod (xyzRot.y - target.y))), (target.z + (angleMod (xyzRot.z - target.z)))⟩

/-- extracted from the C++ template at T = Sym; 2 path(s) -/
def Euler.nearestRotation_XYZ {α : Type} [Add α] [Sub α] [Mul α] [Div α] [LT α] [DecidableLT α] [OfNat α 281474976710656] [OfNat α 884279719003555] (angleMod : α → α) (xyzRot : V3 α) (target : V3 α) : (V3 α) :=
  let t10015 := (target.x + (angleMod (xyzRot.x - target.x)))
  let t10017 := (target.y + (angleMod (xyzRot.y - target.y)))
  let t10019 := (target.z + (angleMod (xyzRot.z - target.z)))
  let t10028 := (target.x + (angleMod ((((884279719003555 : α) / (281474976710656 : α)) + t10015) - target.x)))
  let t10030 := (target.y + (angleMod ((((884279719003555 : α) / (281474976710656 : α)) - t10017) - target.y)))
  let t10032 := (target.z + (angleMod ((((884279719003555 : α) / (281474976710656 : α)) + t10019) - target.z)))
  let t10033 := (t10019 - target.z)
  let t10034 := (t10017 - target.y)
  let t10035 := (t10015 - target.x)
  let t10036 := (t10032 - target.z)
  let t10037 := (t10030 - target.y)
  let t10038 := (t10028 - target.x)
  let t10043 := (((t10035 * t10035) + (t10034 * t10034)) + (t10033 * t10033))
  let t10048 := (((t10038 * t10038) + (t10037 * t10037)) + (t10036 * t10036))
  if t10048 < t10043 then
    ⟨t10028, t10030, t10032⟩
  else
    ⟨t10015, t10017, t10019⟩

/-- extracted from the C++ template at T = Sym; 2 path(s) -/
def Euler.makeNear_XYZ {α : Type} [Add α] [Sub α] [Mul α] [Div α] [LT α] [DecidableLT α] [OfNat α 281474976710656] [OfNat α 884279719003555] (angleMod : α → α) (a : V3 α) (t : V3 α) : ((V3 α) × Int) :=
  let t10056 := (t.x + (angleMod (a.x - t.x)))
  let t10058 := (t.y + (angleMod (a.y - t.y)))
  let t10060 := (t.z + (angleMod (a.z - t.z)))
  let t10068 := (t.x + (angleMod ((((884279719003555 : α) / (281474976710656 : α)) + t10056) - t.x)))
  let t10070 := (t.y + (angleMod ((((884279719003555 : α) / (281474976710656 : α)) - t10058) - t.y)))
  let t10072 := (t.z + (angleMod ((((884279719003555 : α) / (281474976710656 : α)) + t10060) - t.z)))
  let t10073 := (t10060 - t.z)
  let t10074 := (t10058 - t.y)
  let t10075 := (t10056 - t.x)
  let t10076 := (t10072 - t.z)
  let t10077 := (t10070 - t.y)
  let t10078 := (t10068 - t.x)
  let t10083 := (((t10075 * t10075) + (t10074 * t10074)) + (t10073 * t10073))
  let t10088 := (((t10078 * t10078) + (t10077 * t10077)) + (t10076 * t10076))
  if t10088 < t10083 then
    (⟨t10068, t10070, t10072⟩, (257 : Int))
  else
    (⟨t10056, t10058, t10060⟩, (257 : Int))

/-- extracted from the C++ template at T = Sym; 2 path(s) -/
def Euler.nearestRotation_XZY {α : Type} [Add α] [Sub α] [Mul α] [Div α] [LT α] [DecidableLT α] [OfNat α 281474976710656] [OfNat α 884279719003555] (angleMod : α → α) (xyzRot : V3 α) (target : V3 α) : (V3 α) :=
  let t10015 := (target.x + (angleMod (xyzRot.x - target.x)))
  let t10017 := (target.y + (angleMod (xyzRot.y - target.y)))
  let t10019 := (target.z + (angleMod (xyzRot.z - target.z)))
  let t10028 := (target.x + (angleMod ((((884279719003555 : α) / (281474976710656 : α)) + t10015) - target.x)))
  let t10033 := (t10019 - target.z)
  let t10034 := (t10017 - target.y)
  let t10035 := (t10015 - target.x)
  let t10038 := (t10028 - target.x)
  let t10043 := (((t10035 * t10035) + (t10034 * t10034)) + (t10033 * t10033))
  let t10094 := (target.y + (angleMod ((((884279719003555 : α) / (281474976710656 : α)) + t10017) - target.y)))
  let t10096 := (target.z + (angleMod ((((884279719003555 : α) / (281474976710656 : α)) - t10019) - target.z)))
  let t10097 := (t10096 - target.z)
  let t10098 := (t10094 - target.y)
  let t10102 := (((t10038 * t10038) + (t10098 * t10098)) + (t10097 * t10097))
  if t10102 < t10043 then
    ⟨t10028, t10094, t10096⟩
  else
    ⟨t10015, t10017, t10019⟩

/-- extracted from the C++ template at T = Sym; 2 path(s) -/
def Euler.makeNear_XZY {α : Type} [Add α] [Sub α] [Mul α] [Div α] [LT α] [DecidableLT α] [OfNat α 281474976710656] [OfNat α 884279719003555] (angleMod : α → α) (a : V3 α) (t : V3 α) : ((V3 α) × Int) :=
  let t10056 := (t.x + (angleMod (a.x - t.x)))
  let t10058 := (t.y + (angleMod (a.y - t.y)))
  let t10060 := (t.z + (angleMod (a.z - t.z)))
  let t10068 := (t.x + (angleMod ((((884279719003555 : α) / (281474976710656 : α)) + t10056) - t.x)))
  let t10070 := (t.y + (angleMod ((((884279719003555 : α) / (281474976710656 : α)) - t10058) - t.y)))
  let t10072 := (t.z + (angleMod ((((884279719003555 : α) / (281474976710656 : α)) + t10060) - t.z)))
  let t10073 := (t10060 - t.z)
  let t10074 := (t10058 - t.y)
  let t10075 := (t10056 - t.x)
  let t10076 := (t10072 - t.z)
  let t10077 := (t10070 - t.y)
  let t10078 := (t10068 - t.x)
  let t10104 := (((t10075 * t10075) + (t10073 * t10073)) + (t10074 * t10074))
  let t10106 := (((t10078 * t10078) + (t10076 * t10076)) + (t10077 * t10077))
  if t10106 < t10104 then
    (⟨t10068, t10070, t10072⟩, (1 : Int))
  else
    (⟨t10056, t10058, t10060⟩, (1 : Int))

/-- extracted from the C++ template at T = Sym; 2 path(s) -/
def Euler.nearestRotation_YZX {α : Type} [Add α] [Sub α] [Mul α] [Div α] [LT α] [DecidableLT α] [OfNat α 281474976710656] [OfNat α 884279719003555] (angleMod : α → α) (xyzRot : V3 α) (target : V3 α) : (V3 α) :=
  let t10015 := (target.x + (angleMod (xyzRot.x - target.x)))
  let t10017 := (target.y + (angleMod (xyzRot.y - target.y)))
  let t10019 := (target.z + (angleMod (xyzRot.z - target.z)))
  let t10028 := (target.x + (angleMod ((((884279719003555 : α) / (281474976710656 : α)) + t10015) - target.x)))
  let t10033 := (t10019 - target.z)
  let t10034 := (t10017 - target.y)
  let t10035 := (t10015 - target.x)
  let t10038 := (t10028 - target.x)
  let t10043 := (((t10035 * t10035) + (t10034 * t10034)) + (t10033 * t10033))
  let t10094 := (target.y + (angleMod ((((884279719003555 : α) / (281474976710656 : α)) + t10017) - target.y)))
  let t10096 := (target.z + (angleMod ((((884279719003555 : α) / (281474976710656 : α)) - t10019) - target.z)))
  let t10097 := (t10096 - target.z)
  let t10098 := (t10094 - target.y)
  let t10102 := (((t10038 * t10038) + (t10098 * t10098)) + (t10097 * t10097))
  if t10102 < t10043 then
    ⟨t10028, t10094, t10096⟩
  else
    ⟨t10015, t10017, t10019⟩

/-- extracted from the C++ template at T = Sym; 2 path(s) -/
def Euler.makeNear_YZX {α : Type} [Add α] [Sub α] [Mul α] [Div α] [LT α] [DecidableLT α] [OfNat α 281474976710656] [OfNat α 884279719003555] (angleMod : α → α) (a : V3 α) (t : V3 α) : ((V3 α) × Int) :=
  let t10056 := (t.x + (angleMod (a.x - t.x)))
  let t10058 := (t.y + (angleMod (a.y - t.y)))
  let t10060 := (t.z + (angleMod (a.z - t.z)))
  let t10068 := (t.x + (angleMod ((((884279719003555 : α) / (281474976710656 : α)) + t10056) - t.x)))
  let t10070 := (t.y + (angleMod ((((884279719003555 : α) / (281474976710656 : α)) - t10058) - t.y)))
  let t10072 := (t.z + (angleMod ((((884279719003555 : α) / (281474976710656 : α)) + t10060) - t.z)))
  let t10073 := (t10060 - t.z)
  let t10074 := (t10058 - t.y)
  let t10075 := (t10056 - t.x)
  let t10076 := (t10072 - t.z)
  let t10077 := (t10070 - t.y)
  let t10078 := (t10068 - t.x)
  let t10108 := (((t10073 * t10073) + (t10075 * t10075)) + (t10074 * t10074))
  let t10110 := (((t10076 * t10076) + (t10078 * t10078)) + (t10077 * t10077))
  if t10110 < t10108 then
    (⟨t10068, t10070, t10072⟩, (4353 : Int))
  else
    (⟨t10056, t10058, t10060⟩, (4353 : Int))

/-- extracted from the C++ template at T = Sym; 2 path(s) -/
def Euler.nearestRotation_YXZ {α : Type} [Add α] [Sub α] [Mul α] [Div α] [LT α] [DecidableLT α] [OfNat α 281474976710656] [OfNat α 884279719003555] (angleMod : α → α) (xyzRot : V3 α) (target : V3 α) : (V3 α) :=
  let t10015 := (target.x + (angleMod (xyzRot.x - target.x)))
  let t10017 := (target.y + (angleMod (xyzRot.y - target.y)))
  let t10019 := (target.z + (angleMod (xyzRot.z - target.z)))
  let t10032 := (target.z + (angleMod ((((884279719003555 : α) / (281474976710656 : α)) + t10019) - target.z)))
  let t10033 := (t10019 - target.z)
  let t10034 := (t10017 - target.y)
  let t10035 := (t10015 - target.x)
  let t10036 := (t10032 - target.z)
  let t10043 := (((t10035 * t10035) + (t10034 * t10034)) + (t10033 * t10033))
  let t10094 := (target.y + (angleMod ((((884279719003555 : α) / (281474976710656 : α)) + t10017) - target.y)))
  let t10098 := (t10094 - target.y)
  let t10114 := (target.x + (angleMod ((((884279719003555 : α) / (281474976710656 : α)) - t10015) - target.x)))
  let t10115 := (t10114 - target.x)
  let t10118 := (((t10115 * t10115) + (t10098 * t10098)) + (t10036 * t10036))
  if t10118 < t10043 then
    ⟨t10114, t10094, t10032⟩
  else
    ⟨t10015, t10017, t10019⟩

/-- extracted from the C++ template at T = Sym; 2 path(s) -/
def Euler.makeNear_YXZ {α : Type} [Add α] [Sub α] [Mul α] [Div α] [LT α] [DecidableLT α] [OfNat α 281474976710656] [OfNat α 884279719003555] (angleMod : α → α) (a : V3 α) (t : V3 α) : ((V3 α) × Int) :=
  let t10056 := (t.x + (angleMod (a.x - t.x)))
  let t10058 := (t.y + (angleMod (a.y - t.y)))
  let t10060 := (t.z + (angleMod (a.z - t.z)))
  let t10068 := (t.x + (angleMod ((((884279719003555 : α) / (281474976710656 : α)) + t10056) - t.x)))
  let t10070 := (t.y + (angleMod ((((884279719003555 : α) / (281474976710656 : α)) - t10058) - t.y)))
  let t10072 := (t.z + (angleMod ((((884279719003555 : α) / (281474976710656 : α)) + t10060) - t.z)))
  let t10073 := (t10060 - t.z)
  let t10074 := (t10058 - t.y)
  let t10075 := (t10056 - t.x)
  let t10076 := (t10072 - t.z)
  let t10077 := (t10070 - t.y)
  let t10078 := (t10068 - t.x)
  let t10120 := (((t10074 * t10074) + (t10075 * t10075)) + (t10073 * t10073))
  let t10122 := (((t10077 * t10077) + (t10078 * t10078)) + (t10076 * t10076))
  if t10122 < t10120 then
    (⟨t10068, t10070, t10072⟩, (4097 : Int))
  else
    (⟨t10056, t10058, t10060⟩, (4097 : Int))

/-- extracted from the C++ template at T = Sym; 2 path(s) -/
def Euler.nearestRotation_ZXY {α : Type} [Add α] [Sub α] [Mul α] [Div α] [LT α] [DecidableLT α] [OfNat α 281474976710656] [OfNat α 884279719003555] (angleMod : α → α) (xyzRot : V3 α) (target : V3 α) : (V3 α) :=
  let t10015 := (target.x + (angleMod (xyzRot.x - target.x)))
  let t10017 := (target.y + (angleMod (xyzRot.y - target.y)))
  let t10019 := (target.z + (angleMod (xyzRot.z - target.z)))
  let t10032 := (target.z + (angleMod ((((884279719003555 : α) / (281474976710656 : α)) + t10019) - target.z)))
  let t10033 := (t10019 - target.z)
  let t10034 := (t10017 - target.y)
  let t10035 := (t10015 - target.x)
  let t10036 := (t10032 - target.z)
  let t10043 := (((t10035 * t10035) + (t10034 * t10034)) + (t10033 * t10033))
  let t10094 := (target.y + (angleMod ((((884279719003555 : α) / (281474976710656 : α)) + t10017) - target.y)))
  let t10098 := (t10094 - target.y)
  let t10114 := (target.x + (angleMod ((((884279719003555 : α) / (281474976710656 : α)) - t10015) - target.x)))
  let t10115 := (t10114 - target.x)
  let t10118 := (((t10115 * t10115) + (t10098 * t10098)) + (t10036 * t10036))
  if t10118 < t10043 then
    ⟨t10114, t10094, t10032⟩
  else
    ⟨t10015, t10017, t10019⟩

/-- extracted from the C++ template at T = Sym; 2 path(s) -/
def Euler.makeNear_ZXY {α : Type} [Add α] [Sub α] [Mul α] [Div α] [LT α] [DecidableLT α] [OfNat α 281474976710656] [OfNat α 884279719003555] (angleMod : α → α) (a : V3 α) (t : V3 α) : ((V3 α) × Int) :=
  let t10056 := (t.x + (angleMod (a.x - t.x)))
  let t10058 := (t.y + (angleMod (a.y - t.y)))
  let t10060 := (t.z + (angleMod (a.z - t.z)))
  let t10068 := (t.x + (angleMod ((((884279719003555 : α) / (281474976710656 : α)) + t10056) - t.x)))
  let t10070 := (t.y + (angleMod ((((884279719003555 : α) / (281474976710656 : α)) - t10058) - t.y)))
  let t10072 := (t.z + (angleMod ((((884279719003555 : α) / (281474976710656 : α)) + t10060) - t.z)))
  let t10073 := (t10060 - t.z)
  let t10074 := (t10058 - t.y)
  let t10075 := (t10056 - t.x)
  let t10076 := (t10072 - t.z)
  let t10077 := (t10070 - t.y)
  let t10078 := (t10068 - t.x)
  let t10124 := (((t10074 * t10074) + (t10073 * t10073)) + (t10075 * t10075))
  let t10126 := (((t10077 * t10077) + (t10076 * t10076)) + (t10078 * t10078))
  if t10126 < t10124 then
    (⟨t10068, t10070, t10072⟩, (8449 : Int))
  else
    (⟨t10056, t10058, t10060⟩, (8449 : Int))

/-- extracted from the C++ template at T = Sym; 2 path(s) -/
def Euler.nearestRotation_ZYX {α : Type} [Add α] [Sub α] [Mul α] [Div α] [LT α] [DecidableLT α] [OfNat α 281474976710656] [OfNat α 884279719003555] (angleMod : α → α) (xyzRot : V3 α) (target : V3 α) : (V3 α) :=
  let t10015 := (target.x + (angleMod (xyzRot.x - target.x)))
  let t10017 := (target.y + (angleMod (xyzRot.y - target.y)))
  let t10019 := (target.z + (angleMod (xyzRot.z - target.z)))
  let t10028 := (target.x + (angleMod ((((884279719003555 : α) / (281474976710656 : α)) + t10015) - target.x)))
  let t10030 := (target.y + (angleMod ((((884279719003555 : α) / (281474976710656 : α)) - t10017) - target.y)))
  let t10032 := (target.z + (angleMod ((((884279719003555 : α) / (281474976710656 : α)) + t10019) - target.z)))
  let t10033 := (t10019 - target.z)
  let t10034 := (t10017 - target.y)
  let t10035 := (t10015 - target.x)
  let t10036 := (t10032 - target.z)
  let t10037 := (t10030 - target.y)
  let t10038 := (t10028 - target.x)
  let t10043 := (((t10035 * t10035) + (t10034 * t10034)) + (t10033 * t10033))
  let t10048 := (((t10038 * t10038) + (t10037 * t10037)) + (t10036 * t10036))
  if t10048 < t10043 then
    ⟨t10028, t10030, t10032⟩
  else
    ⟨t10015, t10017, t10019⟩

/-- extracted from the C++ template at T = Sym; 2 path(s) -/
def Euler.makeNear_ZYX {α : Type} [Add α] [Sub α] [Mul α] [Div α] [LT α] [DecidableLT α] [OfNat α 281474976710656] [OfNat α 884279719003555] (angleMod : α → α) (a : V3 α) (t : V3 α) : ((V3 α) × Int) :=
  let t10056 := (t.x + (angleMod (a.x - t.x)))
  let t10058 := (t.y + (angleMod (a.y - t.y)))
  let t10060 := (t.z + (angleMod (a.z - t.z)))
  let t10068 := (t.x + (angleMod ((((884279719003555 : α) / (281474976710656 : α)) + t10056) - t.x)))
  let t10070 := (t.y + (angleMod ((((884279719003555 : α) / (281474976710656 : α)) - t10058) - t.y)))
  let t10072 := (t.z + (angleMod ((((884279719003555 : α) / (281474976710656 : α)) + t10060) - t.z)))
  let t10073 := (t10060 - t.z)
  let t10074 := (t10058 - t.y)
  let t10075 := (t10056 - t.x)
  let t10076 := (t10072 - t.z)
  let t10077 := (t10070 - t.y)
  let t10078 := (t10068 - t.x)
  let t10128 := (((t10073 * t10073) + (t10074 * t10074)) + (t10075 * t10075))
  let t10130 := (((t10076 * t10076) + (t10077 * t10077)) + (t10078 * t10078))
  if t10130 < t10128 then
    (⟨t10068, t10070, t10072⟩, (8193 : Int))
  else
    (⟨t10056, t10058, t10060⟩, (8193 : Int))

/-- extracted from the C++ template at T = Sym; 2 path(s) -/
def Euler.nearestRotation_XZX {α : Type} [Add α] [Sub α] [Mul α] [Div α] [LT α] [DecidableLT α] [OfNat α 281474976710656] [OfNat α 884279719003555] (angleMod : α → α) (xyzRot : V3 α) (target : V3 α) : (V3 α) :=
  let t10015 := (target.x + (angleMod (xyzRot.x - target.x)))
  let t10017 := (target.y + (angleMod (xyzRot.y - target.y)))
  let t10019 := (target.z + (angleMod (xyzRot.z - target.z)))
  let t10028 := (target.x + (angleMod ((((884279719003555 : α) / (281474976710656 : α)) + t10015) - target.x)))
  let t10033 := (t10019 - target.z)
  let t10034 := (t10017 - target.y)
  let t10035 := (t10015 - target.x)
  let t10038 := (t10028 - target.x)
  let t10043 := (((t10035 * t10035) + (t10034 * t10034)) + (t10033 * t10033))
  let t10094 := (target.y + (angleMod ((((884279719003555 : α) / (281474976710656 : α)) + t10017) - target.y)))
  let t10096 := (target.z + (angleMod ((((884279719003555 : α) / (281474976710656 : α)) - t10019) - target.z)))
  let t10097 := (t10096 - target.z)
  let t10098 := (t10094 - target.y)
  let t10102 := (((t10038 * t10038) + (t10098 * t10098)) + (t10097 * t10097))
  if t10102 < t10043 then
    ⟨t10028, t10094, t10096⟩
  else
    ⟨t10015, t10017, t10019⟩

/-- extracted from the C++ template at T = Sym; 2 path(s) -/
def Euler.makeNear_XZX {α : Type} [Add α] [Sub α] [Mul α] [Div α] [LT α] [DecidableLT α] [OfNat α 281474976710656] [OfNat α 884279719003555] (angleMod : α → α) (a : V3 α) (t : V3 α) : ((V3 α) × Int) :=
  let t10056 := (t.x + (angleMod (a.x - t.x)))
  let t10058 := (t.y + (angleMod (a.y - t.y)))
  let t10060 := (t.z + (angleMod (a.z - t.z)))
  let t10068 := (t.x + (angleMod ((((884279719003555 : α) / (281474976710656 : α)) + t10056) - t.x)))
  let t10070 := (t.y + (angleMod ((((884279719003555 : α) / (281474976710656 : α)) - t10058) - t.y)))
  let t10072 := (t.z + (angleMod ((((884279719003555 : α) / (281474976710656 : α)) + t10060) - t.z)))
  let t10073 := (t10060 - t.z)
  let t10074 := (t10058 - t.y)
  let t10075 := (t10056 - t.x)
  let t10076 := (t10072 - t.z)
  let t10077 := (t10070 - t.y)
  let t10078 := (t10068 - t.x)
  let t10104 := (((t10075 * t10075) + (t10073 * t10073)) + (t10074 * t10074))
  let t10106 := (((t10078 * t10078) + (t10076 * t10076)) + (t10077 * t10077))
  if t10106 < t10104 then
    (⟨t10068, t10070, t10072⟩, (17 : Int))
  else
    (⟨t10056, t10058, t10060⟩, (17 : Int))

/-- extracted from the C++ template at T = Sym; 2 path(s) -/
def Euler.nearestRotation_XYX {α : Type} [Add α] [Sub α] [Mul α] [Div α] [LT α] [DecidableLT α] [OfNat α 281474976710656] [OfNat α 884279719003555] (angleMod : α → α) (xyzRot : V3 α) (target : V3 α) : (V3 α) :=
  let t10015 := (target.x + (angleMod (xyzRot.x - target.x)))
  let t10017 := (target.y + (angleMod (xyzRot.y - target.y)))
  let t10019 := (target.z + (angleMod (xyzRot.z - target.z)))
  let t10028 := (target.x + (angleMod ((((884279719003555 : α) / (281474976710656 : α)) + t10015) - target.x)))
  let t10030 := (target.y + (angleMod ((((884279719003555 : α) / (281474976710656 : α)) - t10017) - target.y)))
  let t10032 := (target.z + (angleMod ((((884279719003555 : α) / (281474976710656 : α)) + t10019) - target.z)))
  let t10033 := (t10019 - target.z)
  let t10034 := (t10017 - target.y)
  let t10035 := (t10015 - target.x)
  let t10036 := (t10032 - target.z)
  let t10037 := (t10030 - target.y)
  let t10038 := (t10028 - target.x)
  let t10043 := (((t10035 * t10035) + (t10034 * t10034)) + (t10033 * t10033))
  let t10048 := (((t10038 * t10038) + (t10037 * t10037)) + (t10036 * t10036))
  if t10048 < t10043 then
    ⟨t10028, t10030, t10032⟩
  else
    ⟨t10015, t10017, t10019⟩

/-- extracted from the C++ template at T = Sym; 2 path(s) -/
def Euler.makeNear_XYX {α : Type} [Add α] [Sub α] [Mul α] [Div α] [LT α] [DecidableLT α] [OfNat α 281474976710656] [OfNat α 884279719003555] (angleMod : α → α) (a : V3 α) (t : V3 α) : ((V3 α) × Int) :=
  let t10056 := (t.x + (angleMod (a.x - t.x)))
  let t10058 := (t.y + (angleMod (a.y - t.y)))
  let t10060 := (t.z + (angleMod (a.z - t.z)))
  let t10068 := (t.x + (angleMod ((((884279719003555 : α) / (281474976710656 : α)) + t10056) - t.x)))
  let t10070 := (t.y + (angleMod ((((884279719003555 : α) / (281474976710656 : α)) - t10058) - t.y)))
  let t10072 := (t.z + (angleMod ((((884279719003555 : α) / (281474976710656 : α)) + t10060) - t.z)))
  let t10073 := (t10060 - t.z)
  let t10074 := (t10058 - t.y)
  let t10075 := (t10056 - t.x)
  let t10076 := (t10072 - t.z)
  let t10077 := (t10070 - t.y)
  let t10078 := (t10068 - t.x)
  let t10083 := (((t10075 * t10075) + (t10074 * t10074)) + (t10073 * t10073))
  let t10088 := (((t10078 * t10078) + (t10077 * t10077)) + (t10076 * t10076))
  if t10088 < t10083 then
    (⟨t10068, t10070, t10072⟩, (273 : Int))
  else
    (⟨t10056, t10058, t10060⟩, (273 : Int))

/-- extracted from the C++ template at T = Sym; 2 path(s) -/
def Euler.nearestRotation_YXY {α : Type} [Add α] [Sub α] [Mul α] [Div α] [LT α] [DecidableLT α] [OfNat α 281474976710656] [OfNat α 884279719003555] (angleMod : α → α) (xyzRot : V3 α) (target : V3 α) : (V3 α) :=
  let t10015 := (target.x + (angleMod (xyzRot.x - target.x)))
  let t10017 := (target.y + (angleMod (xyzRot.y - target.y)))
  let t10019 := (target.z + (angleMod (xyzRot.z - target.z)))
  let t10032 := (target.z + (angleMod ((((884279719003555 : α) / (281474976710656 : α)) + t10019) - target.z)))
  let t10033 := (t10019 - target.z)
  let t10034 := (t10017 - target.y)
  let t10035 := (t10015 - target.x)
  let t10036 := (t10032 - target.z)
  let t10043 := (((t10035 * t10035) + (t10034 * t10034)) + (t10033 * t10033))
  let t10094 := (target.y + (angleMod ((((884279719003555 : α) / (281474976710656 : α)) + t10017) - target.y)))
  let t10098 := (t10094 - target.y)
  let t10114 := (target.x + (angleMod ((((884279719003555 : α) / (281474976710656 : α)) - t10015) - target.x)))
  let t10115 := (t10114 - target.x)
  let t10118 := (((t10115 * t10115) + (t10098 * t10098)) + (t10036 * t10036))
  if t10118 < t10043 then
    ⟨t10114, t10094, t10032⟩
  else
    ⟨t10015, t10017, t10019⟩

/-- extracted from the C++ template at T = Sym; 2 path(s) -/
def Euler.makeNear_YXY {α : Type} [Add α] [Sub α] [Mul α] [Div α] [LT α] [DecidableLT α] [OfNat α 281474976710656] [OfNat α 884279719003555] (angleMod : α → α) (a : V3 α) (t : V3 α) : ((V3 α) × Int) :=
  let t10056 := (t.x + (angleMod (a.x - t.x)))
  let t10058 := (t.y + (angleMod (a.y - t.y)))
  let t10060 := (t.z + (angleMod (a.z - t.z)))
  let t10068 := (t.x + (angleMod ((((884279719003555 : α) / (281474976710656 : α)) + t10056) - t.x)))
  let t10070 := (t.y + (angleMod ((((884279719003555 : α) / (281474976710656 : α)) - t10058) - t.y)))
  let t10072 := (t.z + (angleMod ((((884279719003555 : α) / (281474976710656 : α)) + t10060) - t.z)))
  let t10073 := (t10060 - t.z)
  let t10074 := (t10058 - t.y)
  let t10075 := (t10056 - t.x)
  let t10076 := (t10072 - t.z)
  let t10077 := (t10070 - t.y)
  let t10078 := (t10068 - t.x)
  let t10120 := (((t10074 * t10074) + (t10075 * t10075)) + (t10073 * t10073))
  let t10122 := (((t10077 * t10077) + (t10078 * t10078)) + (t10076 * t10076))
  if t10122 < t10120 then
    (⟨t10068, t10070, t10072⟩, (4113 : Int))
  else
    (⟨t10056, t10058, t10060⟩, (4113 : Int))

/-- extracted from the C++ template at T = Sym; 2 path(s) -/
def Euler.nearestRotation_YZY {α : Type} [Add α] [Sub α] [Mul α] [Div α] [LT α] [DecidableLT α] [OfNat α 281474976710656] [OfNat α 884279719003555] (angleMod : α → α) (xyzRot : V3 α) (target : V3 α) : (V3 α) :=
  let t10015 := (target.x + (angleMod (xyzRot.x - target.x)))
  let t10017 := (target.y + (angleMod (xyzRot.y - target.y)))
  let t10019 := (target.z + (angleMod (xyzRot.z - target.z)))
  let t10028 := (target.x + (angleMod ((((884279719003555 : α) / (281474976710656 : α)) + t10015) - target.x)))
  let t10033 := (t10019 - target.z)
  let t10034 := (t10017 - target.y)
  let t10035 := (t10015 - target.x)
  let t10038 := (t10028 - target.x)
  let t10043 := (((t10035 * t10035) + (t10034 * t10034)) + (t10033 * t10033))
  let t10094 := (target.y + (angleMod ((((884279719003555 : α) / (281474976710656 : α)) + t10017) - target.y)))
  let t10096 := (target.z + (angleMod ((((884279719003555 : α) / (281474976710656 : α)) - t10019) - target.z)))
  let t10097 := (t10096 - target.z)
  let t10098 := (t10094 - target.y)
  let t10102 := (((t10038 * t10038) + (t10098 * t10098)) + (t10097 * t10097))
  if t10102 < t10043 then
    ⟨t10028, t10094, t10096⟩
  else
    ⟨t10015, t10017, t10019⟩

/-- extracted from the C++ template at T = Sym; 2 path(s) -/
def Euler.makeNear_YZY {α : Type} [Add α] [Sub α] [Mul α] [Div α] [LT α] [DecidableLT α] [OfNat α 281474976710656] [OfNat α 884279719003555] (angleMod : α → α) (a : V3 α) (t : V3 α) : ((V3 α) × Int) :=
  let t10056 := (t.x + (angleMod (a.x - t.x)))
  let t10058 := (t.y + (angleMod (a.y - t.y)))
  let t10060 := (t.z + (angleMod (a.z - t.z)))
  let t10068 := (t.x + (angleMod ((((884279719003555 : α) / (281474976710656 : α)) + t10056) - t.x)))
  let t10070 := (t.y + (angleMod ((((884279719003555 : α) / (281474976710656 : α)) - t10058) - t.y)))
  let t10072 := (t.z + (angleMod ((((884279719003555 : α) / (281474976710656 : α)) + t10060) - t.z)))
  let t10073 := (t10060 - t.z)
  let t10074 := (t10058 - t.y)
  let t10075 := (t10056 - t.x)
  let t10076 := (t10072 - t.z)
  let t10077 := (t10070 - t.y)
  let t10078 := (t10068 - t.x)
  let t10108 := (((t10073 * t10073) + (t10075 * t10075)) + (t10074 * t10074))
  let t10110 := (((t10076 * t10076) + (t10078 * t10078)) + (t10077 * t10077))
  if t10110 < t10108 then
    (⟨t10068, t10070, t10072⟩, (4369 : Int))
  else
    (⟨t10056, t10058, t10060⟩, (4369 : Int))

/-- extracted from the C++ template at T = Sym; 2 path(s) -/
def Euler.nearestRotation_ZYZ {α : Type} [Add α] [Sub α] [Mul α] [Div α] [LT α] [DecidableLT α] [OfNat α 281474976710656] [OfNat α 884279719003555] (angleMod : α → α) (xyzRot : V3 α) (target : V3 α) : (V3 α) :=
  let t10015 := (target.x + (angleMod (xyzRot.x - target.x)))
  let t10017 := (target.y + (angleMod (xyzRot.y - target.y)))
  let t10019 := (target.z + (angleMod (xyzRot.z - target.z)))
  let t10028 := (target.x + (angleMod ((((884279719003555 : α) / (281474976710656 : α)) + t10015) - target.x)))
  let t10030 := (target.y + (angleMod ((((884279719003555 : α) / (281474976710656 : α)) - t10017) - target.y)))
  let t10032 := (target.z + (angleMod ((((884279719003555 : α) / (281474976710656 : α)) + t10019) - target.z)))
  let t10033 := (t10019 - target.z)
  let t10034 := (t10017 - target.y)
  let t10035 := (t10015 - target.x)
  let t10036 := (t10032 - target.z)
  let t10037 := (t10030 - target.y)
  let t10038 := (t10028 - target.x)
  let t10043 := (((t10035 * t10035) + (t10034 * t10034)) + (t10033 * t10033))
  let t10048 := (((t10038 * t10038) + (t10037 * t10037)) + (t10036 * t10036))
  if t10048 < t10043 then
    ⟨t10028, t10030, t10032⟩
  else
    ⟨t10015, t10017, t10019⟩

/-- extracted from the C++ template at T = Sym; 2 path(s) -/
def Euler.makeNear_ZYZ {α : Type} [Add α] [Sub α] [Mul α] [Div α] [LT α] [DecidableLT α] [OfNat α 281474976710656] [OfNat α 884279719003555] (angleMod : α → α) (a : V3 α) (t : V3 α) : ((V3 α) × Int) :=
  let t10056 := (t.x + (angleMod (a.x - t.x)))
  let t10058 := (t.y + (angleMod (a.y - t.y)))
  let t10060 := (t.z + (angleMod (a.z - t.z)))
  let t10068 := (t.x + (angleMod ((((884279719003555 : α) / (281474976710656 : α)) + t10056) - t.x)))
  let t10070 := (t.y + (angleMod ((((884279719003555 : α) / (281474976710656 : α)) - t10058) - t.y)))
  let t10072 := (t.z + (angleMod ((((884279719003555 : α) / (281474976710656 : α)) + t10060) - t.z)))
  let t10073 := (t10060 - t.z)
  let t10074 := (t10058 - t.y)
  let t10075 := (t10056 - t.x)
  let t10076 := (t10072 - t.z)
  let t10077 := (t10070 - t.y)
  let t10078 := (t10068 - t.x)
  let t10128 := (((t10073 * t10073) + (t10074 * t10074)) + (t10075 * t10075))
  let t10130 := (((t10076 * t10076) + (t10077 * t10077)) + (t10078 * t10078))
  if t10130 < t10128 then
    (⟨t10068, t10070, t10072⟩, (8209 : Int))
  else
    (⟨t10056, t10058, t10060⟩, (8209 : Int))

/-- extracted from the C++ template at T = Sym; 2 path(s) -/
def Euler.nearestRotation_ZXZ {α : Type} [Add α] [Sub α] [Mul α] [Div α] [LT α] [DecidableLT α] [OfNat α 281474976710656] [OfNat α 884279719003555] (angleMod : α → α) (xyzRot : V3 α) (target : V3 α) : (V3 α) :=
  let t10015 := (target.x + (angleMod (xyzRot.x - target.x)))
  let t10017 := (target.y + (angleMod (xyzRot.y - target.y)))
  let t10019 := (target.z + (angleMod (xyzRot.z - target.z)))
  let t10032 := (target.z + (angleMod ((((884279719003555 : α) / (281474976710656 : α)) + t10019) - target.z)))
  let t10033 := (t10019 - target.z)
  let t10034 := (t10017 - target.y)
  let t10035 := (t10015 - target.x)
  let t10036 := (t10032 - target.z)
  let t10043 := (((t10035 * t10035) + (t10034 * t10034)) + (t10033 * t10033))
  let t10094 := (target.y + (angleMod ((((884279719003555 : α) / (281474976710656 : α)) + t10017) - target.y)))
  let t10098 := (t10094 - target.y)
  let t10114 := (target.x + (angleMod ((((884279719003555 : α) / (281474976710656 : α)) - t10015) - target.x)))
  let t10115 := (t10114 - target.x)
  let t10118 := (((t10115 * t10115) + (t10098 * t10098)) + (t10036 * t10036))
  if t10118 < t10043 then
    ⟨t10114, t10094, t10032⟩
  else
    ⟨t10015, t10017, t10019⟩

/-- extracted from the C++ template at T = Sym; 2 path(s) -/
def Euler.makeNear_ZXZ {α : Type} [Add α] [Sub α] [Mul α] [Div α] [LT α] [DecidableLT α] [OfNat α 281474976710656] [OfNat α 884279719003555] (angleMod : α → α) (a : V3 α) (t : V3 α) : ((V3 α) × Int) :=
  let t10056 := (t.x + (angleMod (a.x - t.x)))
  let t10058 := (t.y + (angleMod (a.y - t.y)))
  let t10060 := (t.z + (angleMod (a.z - t.z)))
  let t10068 := (t.x + (angleMod ((((884279719003555 : α) / (281474976710656 : α)) + t10056) - t.x)))
  let t10070 := (t.y + (angleMod ((((884279719003555 : α) / (281474976710656 : α)) - t10058) - t.y)))
  let t10072 := (t.z + (angleMod ((((884279719003555 : α) / (281474976710656 : α)) + t10060) - t.z)))
  let t10073 := (t10060 - t.z)
  let t10074 := (t10058 - t.y)
  let t10075 := (t10056 - t.x)
  let t10076 := (t10072 - t.z)
  let t10077 := (t10070 - t.y)
  let t10078 := (t10068 - t.x)
  let t10124 := (((t10074 * t10074) + (t10073 * t10073)) + (t10075 * t10075))
  let t10126 := (((t10077 * t10077) + (t10076 * t10076)) + (t10078 * t10078))
  if t10126 < t10124 then
    (⟨t10068, t10070, t10072⟩, (8465 : Int))
  else
    (⟨t10056, t10058, t10060⟩, (8465 : Int))

/-- extracted from the C++ template at T = Sym; 2 path(s) -/
def Euler.nearestRotation_XYZr {α : Type} [Add α] [Sub α] [Mul α] [Div α] [LT α] [DecidableLT α] [OfNat α 281474976710656] [OfNat α 884279719003555] (angleMod : α → α) (xyzRot : V3 α) (target : V3 α) : (V3 α) :=
  let t10015 := (target.x + (angleMod (xyzRot.x - target.x)))
  let t10017 := (target.y + (angleMod (xyzRot.y - target.y)))
  let t10019 := (target.z + (angleMod (xyzRot.z - target.z)))
  let t10028 := (target.x + (angleMod ((((884279719003555 : α) / (281474976710656 : α)) + t10015) - target.x)))
  let t10030 := (target.y + (angleMod ((((884279719003555 : α) / (281474976710656 : α)) - t10017) - target.y)))
  let t10032 := (target.z + (angleMod ((((884279719003555 : α) / (281474976710656 : α)) + t10019) - target.z)))
  let t10033 := (t10019 - target.z)
  let t10034 := (t10017 - target.y)
  let t10035 := (t10015 - target.x)
  let t10036 := (t10032 - target.z)
  let t10037 := (t10030 - target.y)
  let t10038 := (t10028 - target.x)
  let t10043 := (((t10035 * t10035) + (t10034 * t10034)) + (t10033 * t10033))
  let t10048 := (((t10038 * t10038) + (t10037 * t10037)) + (t10036 * t10036))
  if t10048 < t10043 then
    ⟨t10028, t10030, t10032⟩
  else
    ⟨t10015, t10017, t10019⟩

/-- extracted from the C++ template at T = Sym; 2 path(s) -/
def Euler.makeNear_XYZr {α : Type} [Add α] [Sub α] [Mul α] [Div α] [LT α] [DecidableLT α] [OfNat α 281474976710656] [OfNat α 884279719003555] (angleMod : α → α) (a : V3 α) (t : V3 α) : ((V3 α) × Int) :=
  let t10056 := (t.x + (angleMod (a.x - t.x)))
  let t10058 := (t.y + (angleMod (a.y - t.y)))
  let t10060 := (t.z + (angleMod (a.z - t.z)))
  let t10068 := (t.x + (angleMod ((((884279719003555 : α) / (281474976710656 : α)) + t10056) - t.x)))
  let t10070 := (t.y + (angleMod ((((884279719003555 : α) / (281474976710656 : α)) - t10058) - t.y)))
  let t10072 := (t.z + (angleMod ((((884279719003555 : α) / (281474976710656 : α)) + t10060) - t.z)))
  let t10073 := (t10060 - t.z)
  let t10074 := (t10058 - t.y)
  let t10075 := (t10056 - t.x)
  let t10076 := (t10072 - t.z)
  let t10077 := (t10070 - t.y)
  let t10078 := (t10068 - t.x)
  let t10128 := (((t10073 * t10073) + (t10074 * t10074)) + (t10075 * t10075))
  let t10130 := (((t10076 * t10076) + (t10077 * t10077)) + (t10078 * t10078))
  if t10130 < t10128 then
    (⟨t10068, t10070, t10072⟩, (8192 : Int))
  else
    (⟨t10056, t10058, t10060⟩, (8192 : Int))

/-- extracted from the C++ template at T = Sym; 2 path(s) -/
def Euler.nearestRotation_XZYr {α : Type} [Add α] [Sub α] [Mul α] [Div α] [LT α] [DecidableLT α] [OfNat α 281474976710656] [OfNat α 884279719003555] (angleMod : α → α) (xyzRot : V3 α) (target : V3 α) : (V3 α) :=
  let t10015 := (target.x + (angleMod (xyzRot.x - target.x)))
  let t10017 := (target.y + (angleMod (xyzRot.y - target.y)))
  let t10019 := (target.z + (angleMod (xyzRot.z - target.z)))
  let t10032 := (target.z + (angleMod ((((884279719003555 : α) / (281474976710656 : α)) + t10019) - target.z)))
  let t10033 := (t10019 - target.z)
  let t10034 := (t10017 - target.y)
  let t10035 := (t10015 - target.x)
  let t10036 := (t10032 - target.z)
  let t10043 := (((t10035 * t10035) + (t10034 * t10034)) + (t10033 * t10033))
  let t10094 := (target.y + (angleMod ((((884279719003555 : α) / (281474976710656 : α)) + t10017) - target.y)))
  let t10098 := (t10094 - target.y)
  let t10114 := (target.x + (angleMod ((((884279719003555 : α) / (281474976710656 : α)) - t10015) - target.x)))
  let t10115 := (t10114 - target.x)
  let t10118 := (((t10115 * t10115) + (t10098 * t10098)) + (t10036 * t10036))
  if t10118 < t10043 then
    ⟨t10114, t10094, t10032⟩
  else
    ⟨t10015, t10017, t10019⟩

/-- extracted from the C++ template at T = Sym; 2 path(s) -/
def Euler.makeNear_XZYr {α : Type} [Add α] [Sub α] [Mul α] [Div α] [LT α] [DecidableLT α] [OfNat α 281474976710656] [OfNat α 884279719003555] (angleMod : α → α) (a : V3 α) (t : V3 α) : ((V3 α) × Int) :=
  let t10056 := (t.x + (angleMod (a.x - t.x)))
  let t10058 := (t.y + (angleMod (a.y - t.y)))
  let t10060 := (t.z + (angleMod (a.z - t.z)))
  let t10068 := (t.x + (angleMod ((((884279719003555 : α) / (281474976710656 : α)) + t10056) - t.x)))
  let t10070 := (t.y + (angleMod ((((884279719003555 : α) / (281474976710656 : α)) - t10058) - t.y)))
  let t10072 := (t.z + (angleMod ((((884279719003555 : α) / (281474976710656 : α)) + t10060) - t.z)))
  let t10073 := (t10060 - t.z)
  let t10074 := (t10058 - t.y)
  let t10075 := (t10056 - t.x)
  let t10076 := (t10072 - t.z)
  let t10077 := (t10070 - t.y)
  let t10078 := (t10068 - t.x)
  let t10124 := (((t10074 * t10074) + (t10073 * t10073)) + (t10075 * t10075))
  let t10126 := (((t10077 * t10077) + (t10076 * t10076)) + (t10078 * t10078))
  if t10126 < t10124 then
    (⟨t10068, t10070, t10072⟩, (8448 : Int))
  else
    (⟨t10056, t10058, t10060⟩, (8448 : Int))

/-- extracted from the C++ template at T = Sym; 2 path(s) -/
def Euler.nearestRotation_YZXr {α : Type} [Add α] [Sub α] [Mul α] [Div α] [LT α] [DecidableLT α] [OfNat α 281474976710656] [OfNat α 884279719003555] (angleMod : α → α) (xyzRot : V3 α) (target : V3 α) : (V3 α) :=
  let t10015 := (target.x + (angleMod (xyzRot.x - target.x)))
  let t10017 := (target.y + (angleMod (xyzRot.y - target.y)))
  let t10019 := (target.z + (angleMod (xyzRot.z - target.z)))
  let t10032 := (target.z + (angleMod ((((884279719003555 : α) / (281474976710656 : α)) + t10019) - target.z)))
  let t10033 := (t10019 - target.z)
  let t10034 := (t10017 - target.y)
  let t10035 := (t10015 - target.x)
  let t10036 := (t10032 - target.z)
  let t10043 := (((t10035 * t10035) + (t10034 * t10034)) + (t10033 * t10033))
  let t10094 := (target.y + (angleMod ((((884279719003555 : α) / (281474976710656 : α)) + t10017) - target.y)))
  let t10098 := (t10094 - target.y)
  let t10114 := (target.x + (angleMod ((((884279719003555 : α) / (281474976710656 : α)) - t10015) - target.x)))
  let t10115 := (t10114 - target.x)
  let t10118 := (((t10115 * t10115) + (t10098 * t10098)) + (t10036 * t10036))
  if t10118 < t10043 then
    ⟨t10114, t10094, t10032⟩
  else
    ⟨t10015, t10017, t10019⟩

/-- extracted from the C++ template at T = Sym; 2 path(s) -/
def Euler.makeNear_YZXr {α : Type} [Add α] [Sub α] [Mul α] [Div α] [LT α] [DecidableLT α] [OfNat α 281474976710656] [OfNat α 884279719003555] (angleMod : α → α) (a : V3 α) (t : V3 α) : ((V3 α) × Int) :=
  let t10056 := (t.x + (angleMod (a.x - t.x)))
  let t10058 := (t.y + (angleMod (a.y - t.y)))
  let t10060 := (t.z + (angleMod (a.z - t.z)))
  let t10068 := (t.x + (angleMod ((((884279719003555 : α) / (281474976710656 : α)) + t10056) - t.x)))
  let t10070 := (t.y + (angleMod ((((884279719003555 : α) / (281474976710656 : α)) - t10058) - t.y)))
  let t10072 := (t.z + (angleMod ((((884279719003555 : α) / (281474976710656 : α)) + t10060) - t.z)))
  let t10073 := (t10060 - t.z)
  let t10074 := (t10058 - t.y)
  let t10075 := (t10056 - t.x)
  let t10076 := (t10072 - t.z)
  let t10077 := (t10070 - t.y)
  let t10078 := (t10068 - t.x)
  let t10120 := (((t10074 * t10074) + (t10075 * t10075)) + (t10073 * t10073))
  let t10122 := (((t10077 * t10077) + (t10078 * t10078)) + (t10076 * t10076))
  if t10122 < t10120 then
    (⟨t10068, t10070, t10072⟩, (4096 : Int))
  else
    (⟨t10056, t10058, t10060⟩, (4096 : Int))

/-- extracted from the C++ template at T = Sym; 2 path(s) -/
def Euler.nearestRotation_YXZr {α : Type} [Add α] [Sub α] [Mul α] [Div α] [LT α] [DecidableLT α] [OfNat α 281474976710656] [OfNat α 884279719003555] (angleMod : α → α) (xyzRot : V3 α) (target : V3 α) : (V3 α) :=
  let t10015 := (target.x + (angleMod (xyzRot.x - target.x)))
  let t10017 := (target.y + (angleMod (xyzRot.y - target.y)))
  let t10019 := (target.z + (angleMod (xyzRot.z - target.z)))
  let t10028 := (target.x + (angleMod ((((884279719003555 : α) / (281474976710656 : α)) + t10015) - target.x)))
  let t10033 := (t10019 - target.z)
  let t10034 := (t10017 - target.y)
  let t10035 := (t10015 - target.x)
  let t10038 := (t10028 - target.x)
  let t10043 := (((t10035 * t10035) + (t10034 * t10034)) + (t10033 * t10033))
  let t10094 := (target.y + (angleMod ((((884279719003555 : α) / (281474976710656 : α)) + t10017) - target.y)))
  let t10096 := (target.z + (angleMod ((((884279719003555 : α) / (281474976710656 : α)) - t10019) - target.z)))
  let t10097 := (t10096 - target.z)
  let t10098 := (t10094 - target.y)
  let t10102 := (((t10038 * t10038) + (t10098 * t10098)) + (t10097 * t10097))
  if t10102 < t10043 then
    ⟨t10028, t10094, t10096⟩
  else
    ⟨t10015, t10017, t10019⟩

/-- extracted from the C++ template at T = Sym; 2 path(s) -/
def Euler.makeNear_YXZr {α : Type} [Add α] [Sub α] [Mul α] [Div α] [LT α] [DecidableLT α] [OfNat α 281474976710656] [OfNat α 884279719003555] (angleMod : α → α) (a : V3 α) (t : V3 α) : ((V3 α) × Int) :=
  let t10056 := (t.x + (angleMod (a.x - t.x)))
  let t10058 := (t.y + (angleMod (a.y - t.y)))
  let t10060 := (t.z + (angleMod (a.z - t.z)))
  let t10068 := (t.x + (angleMod ((((884279719003555 : α) / (281474976710656 : α)) + t10056) - t.x)))
  let t10070 := (t.y + (angleMod ((((884279719003555 : α) / (281474976710656 : α)) - t10058) - t.y)))
  let t10072 := (t.z + (angleMod ((((884279719003555 : α) / (281474976710656 : α)) + t10060) - t.z)))
  let t10073 := (t10060 - t.z)
  let t10074 := (t10058 - t.y)
  let t10075 := (t10056 - t.x)
  let t10076 := (t10072 - t.z)
  let t10077 := (t10070 - t.y)
  let t10078 := (t10068 - t.x)
  let t10108 := (((t10073 * t10073) + (t10075 * t10075)) + (t10074 * t10074))
  let t10110 := (((t10076 * t10076) + (t10078 * t10078)) + (t10077 * t10077))
  if t10110 < t10108 then
    (⟨t10068, t10070, t10072⟩, (4352 : Int))
  else
    (⟨t10056, t10058, t10060⟩, (4352 : Int))

/-- extracted from the C++ template at T = Sym; 2 path(s) -/
def Euler.nearestRotation_ZXYr {α : Type} [Add α] [Sub α] [Mul α] [Div α] [LT α] [DecidableLT α] [OfNat α 281474976710656] [OfNat α 884279719003555] (angleMod : α → α) (xyzRot : V3 α) (target : V3 α) : (V3 α) :=
  let t10015 := (target.x + (angleMod (xyzRot.x - target.x)))
  let t10017 := (target.y + (angleMod (xyzRot.y - target.y)))
  let t10019 := (target.z + (angleMod (xyzRot.z - target.z)))
  let t10028 := (target.x + (angleMod ((((884279719003555 : α) / (281474976710656 : α)) + t10015) - target.x)))
  let t10033 := (t10019 - target.z)
  let t10034 := (t10017 - target.y)
  let t10035 := (t10015 - target.x)
  let t10038 := (t10028 - target.x)
  let t10043 := (((t10035 * t10035) + (t10034 * t10034)) + (t10033 * t10033))
  let t10094 := (target.y + (angleMod ((((884279719003555 : α) / (281474976710656 : α)) + t10017) - target.y)))
  let t10096 := (target.z + (angleMod ((((884279719003555 : α) / (281474976710656 : α)) - t10019) - target.z)))
  let t10097 := (t10096 - target.z)
  let t10098 := (t10094 - target.y)
  let t10102 := (((t10038 * t10038) + (t10098 * t10098)) + (t10097 * t10097))
  if t10102 < t10043 then
    ⟨t10028, t10094, t10096⟩
  else
    ⟨t10015, t10017, t10019⟩

/-- extracted from the C++ template at T = Sym; 2 path(s) -/
def Euler.makeNear_ZXYr {α : Type} [Add α] [Sub α] [Mul α] [Div α] [LT α] [DecidableLT α] [OfNat α 281474976710656] [OfNat α 884279719003555] (angleMod : α → α) (a : V3 α) (t : V3 α) : ((V3 α) × Int) :=
  let t10056 := (t.x + (angleMod (a.x - t.x)))
  let t10058 := (t.y + (angleMod (a.y - t.y)))
  let t10060 := (t.z + (angleMod (a.z - t.z)))
  let t10068 := (t.x + (angleMod ((((884279719003555 : α) / (281474976710656 : α)) + t10056) - t.x)))
  let t10070 := (t.y + (angleMod ((((884279719003555 : α) / (281474976710656 : α)) - t10058) - t.y)))
  let t10072 := (t.z + (angleMod ((((884279719003555 : α) / (281474976710656 : α)) + t10060) - t.z)))
  let t10073 := (t10060 - t.z)
  let t10074 := (t10058 - t.y)
  let t10075 := (t10056 - t.x)
  let t10076 := (t10072 - t.z)
  let t10077 := (t10070 - t.y)
  let t10078 := (t10068 - t.x)
  let t10104 := (((t10075 * t10075) + (t10073 * t10073)) + (t10074 * t10074))
  let t10106 := (((t10078 * t10078) + (t10076 * t10076)) + (t10077 * t10077))
  if t10106 < t10104 then
    (⟨t10068, t10070, t10072⟩, (0 : Int))
  else
    (⟨t10056, t10058, t10060⟩, (0 : Int))

/-- extracted from the C++ template at T = Sym; 2 path(s) -/
def Euler.nearestRotation_ZYXr {α : Type} [Add α] [Sub α] [Mul α] [Div α] [LT α] [DecidableLT α] [OfNat α 281474976710656] [OfNat α 884279719003555] (angleMod : α → α) (xyzRot : V3 α) (target : V3 α) : (V3 α) :=
  let t10015 := (target.x + (angleMod (xyzRot.x - target.x)))
  let t10017 := (target.y + (angleMod (xyzRot.y - target.y)))
  let t10019 := (target.z + (angleMod (xyzRot.z - target.z)))
  let t10028 := (target.x + (angleMod ((((884279719003555 : α) / (281474976710656 : α)) + t10015) - target.x)))
  let t10030 := (target.y + (angleMod ((((884279719003555 : α) / (281474976710656 : α)) - t10017) - target.y)))
  let t10032 := (target.z + (angleMod ((((884279719003555 : α) / (281474976710656 : α)) + t10019) - target.z)))
  let t10033 := (t10019 - target.z)
  let t10034 := (t10017 - target.y)
  let t10035 := (t10015 - target.x)
  let t10036 := (t10032 - target.z)
  let t10037 := (t10030 - target.y)
  let t10038 := (t10028 - target.x)
  let t10043 := (((t10035 * t10035) + (t10034 * t10034)) + (t10033 * t10033))
  let t10048 := (((t10038 * t10038) + (t10037 * t10037)) + (t10036 * t10036))
  if t10048 < t10043 then
    ⟨t10028, t10030, t10032⟩
  else
    ⟨t10015, t10017, t10019⟩

/-- extracted from the C++ template at T = Sym; 2 path(s) -/
def Euler.makeNear_ZYXr {α : Type} [Add α] [Sub α] [Mul α] [Div α] [LT α] [DecidableLT α] [OfNat α 281474976710656] [OfNat α 884279719003555] (angleMod : α → α) (a : V3 α) (t : V3 α) : ((V3 α) × Int) :=
  let t10056 := (t.x + (angleMod (a.x - t.x)))
  let t10058 := (t.y + (angleMod (a.y - t.y)))
  let t10060 := (t.z + (angleMod (a.z - t.z)))
  let t10068 := (t.x + (angleMod ((((884279719003555 : α) / (281474976710656 : α)) + t10056) - t.x)))
  let t10070 := (t.y + (angleMod ((((884279719003555 : α) / (281474976710656 : α)) - t10058) - t.y)))
  let t10072 := (t.z + (angleMod ((((884279719003555 : α) / (281474976710656 : α)) + t10060) - t.z)))
  let t10073 := (t10060 - t.z)
  let t10074 := (t10058 - t.y)
  let t10075 := (t10056 - t.x)
  let t10076 := (t10072 - t.z)
  let t10077 := (t10070 - t.y)
  let t10078 := (t10068 - t.x)
  let t10083 := (((t10075 * t10075) + (t10074 * t10074)) + (t10073 * t10073))
  let t10088 := (((t10078 * t10078) + (t10077 * t10077)) + (t10076 * t10076))
  if t10088 < t10083 then
    (⟨t10068, t10070, t10072⟩, (256 : Int))
  else
    (⟨t10056, t10058, t10060⟩, (256 : Int))

/-- extracted from the C++ template at T = Sym; 2 path(s) -/
def Euler.nearestRotation_XZXr {α : Type} [Add α] [Sub α] [Mul α] [Div α] [LT α] [DecidableLT α] [OfNat α 281474976710656] [OfNat α 884279719003555] (angleMod : α → α) (xyzRot : V3 α) (target : V3 α) : (V3 α) :=
  let t10015 := (target.x + (angleMod (xyzRot.x - target.x)))
  let t10017 := (target.y + (angleMod (xyzRot.y - target.y)))
  let t10019 := (target.z + (angleMod (xyzRot.z - target.z)))
  let t10032 := (target.z + (angleMod ((((884279719003555 : α) / (281474976710656 : α)) + t10019) - target.z)))
  let t10033 := (t10019 - target.z)
  let t10034 := (t10017 - target.y)
  let t10035 := (t10015 - target.x)
  let t10036 := (t10032 - target.z)
  let t10043 := (((t10035 * t10035) + (t10034 * t10034)) + (t10033 * t10033))
  let t10094 := (target.y + (angleMod ((((884279719003555 : α) / (281474976710656 : α)) + t10017) - target.y)))
  let t10098 := (t10094 - target.y)
  let t10114 := (target.x + (angleMod ((((884279719003555 : α) / (281474976710656 : α)) - t10015) - target.x)))
  let t10115 := (t10114 - target.x)
  let t10118 := (((t10115 * t10115) + (t10098 * t10098)) + (t10036 * t10036))
  if t10118 < t10043 then
    ⟨t10114, t10094, t10032⟩
  else
    ⟨t10015, t10017, t10019⟩

/-- extracted from the C++ template at T = Sym; 2 path(s) -/
def Euler.makeNear_XZXr {α : Type} [Add α] [Sub α] [Mul α] [Div α] [LT α] [DecidableLT α] [OfNat α 281474976710656] [OfNat α 884279719003555] (angleMod : α → α) (a : V3 α) (t : V3 α) : ((V3 α) × Int) :=
  let t10056 := (t.x + (angleMod (a.x - t.x)))
  let t10058 := (t.y + (angleMod (a.y - t.y)))
  let t10060 := (t.z + (angleMod (a.z - t.z)))
  let t10068 := (t.x + (angleMod ((((884279719003555 : α) / (281474976710656 : α)) + t10056) - t.x)))
  let t10070 := (t.y + (angleMod ((((884279719003555 : α) / (281474976710656 : α)) - t10058) - t.y)))
  let t10072 := (t.z + (angleMod ((((884279719003555 : α) / (281474976710656 : α)) + t10060) - t.z)))
  let t10073 := (t10060 - t.z)
  let t10074 := (t10058 - t.y)
  let t10075 := (t10056 - t.x)
  let t10076 := (t10072 - t.z)
  let t10077 := (t10070 - t.y)
  let t10078 := (t10068 - t.x)
  let t10124 := (((t10074 * t10074) + (t10073 * t10073)) + (t10075 * t10075))
  let t10126 := (((t10077 * t10077) + (t10076 * t10076)) + (t10078 * t10078))
  if t10126 < t10124 then
    (⟨t10068, t10070, t10072⟩, (8464 : Int))
  else
    (⟨t10056, t10058, t10060⟩, (8464 : Int))

/-- extracted from the C++ template at T = Sym; 2 path(s) -/
def Euler.nearestRotation_XYXr {α : Type} [Add α] [Sub α] [Mul α] [Div α] [LT α] [DecidableLT α] [OfNat α 281474976710656] [OfNat α 884279719003555] (angleMod : α → α) (xyzRot : V3 α) (target : V3 α) : (V3 α) :=
  let t10015 := (target.x + (angleMod (xyzRot.x - target.x)))
  let t10017 := (target.y + (angleMod (xyzRot.y - target.y)))
  let t10019 := (target.z + (angleMod (xyzRot.z - target.z)))
  let t10028 := (target.x + (angleMod ((((884279719003555 : α) / (281474976710656 : α)) + t10015) - target.x)))
  let t10030 := (target.y + (angleMod ((((884279719003555 : α) / (281474976710656 : α)) - t10017) - target.y)))
  let t10032 := (target.z + (angleMod ((((884279719003555 : α) / (281474976710656 : α)) + t10019) - target.z)))
  let t10033 := (t10019 - target.z)
  let t10034 := (t10017 - target.y)
  let t10035 := (t10015 - target.x)
  let t10036 := (t10032 - target.z)
  let t10037 := (t10030 - target.y)
  let t10038 := (t10028 - target.x)
  let t10043 := (((t10035 * t10035) + (t10034 * t10034)) + (t10033 * t10033))
  let t10048 := (((t10038 * t10038) + (t10037 * t10037)) + (t10036 * t10036))
  if t10048 < t10043 then
    ⟨t10028, t10030, t10032⟩
  else
    ⟨t10015, t10017, t10019⟩

/-- extracted from the C++ template at T = Sym; 2 path(s) -/
def Euler.makeNear_XYXr {α : Type} [Add α] [Sub α] [Mul α] [Div α] [LT α] [DecidableLT α] [OfNat α 281474976710656] [OfNat α 884279719003555] (angleMod : α → α) (a : V3 α) (t : V3 α) : ((V3 α) × Int) :=
  let t10056 := (t.x + (angleMod (a.x - t.x)))
  let t10058 := (t.y + (angleMod (a.y - t.y)))
  let t10060 := (t.z + (angleMod (a.z - t.z)))
  let t10068 := (t.x + (angleMod ((((884279719003555 : α) / (281474976710656 : α)) + t10056) - t.x)))
  let t10070 := (t.y + (angleMod ((((884279719003555 : α) / (281474976710656 : α)) - t10058) - t.y)))
  let t10072 := (t.z + (angleMod ((((884279719003555 : α) / (281474976710656 : α)) + t10060) - t.z)))
  let t10073 := (t10060 - t.z)
  let t10074 := (t10058 - t.y)
  let t10075 := (t10056 - t.x)
  let t10076 := (t10072 - t.z)
  let t10077 := (t10070 - t.y)
  let t10078 := (t10068 - t.x)
  let t10128 := (((t10073 * t10073) + (t10074 * t10074)) + (t10075 * t10075))
  let t10130 := (((t10076 * t10076) + (t10077 * t10077)) + (t10078 * t10078))
  if t10130 < t10128 then
    (⟨t10068, t10070, t10072⟩, (8208 : Int))
  else
    (⟨t10056, t10058, t10060⟩, (8208 : Int))

/-- extracted from the C++ template at T = Sym; 2 path(s) -/
def Euler.nearestRotation_YXYr {α : Type} [Add α] [Sub α] [Mul α] [Div α] [LT α] [DecidableLT α] [OfNat α 281474976710656] [OfNat α 884279719003555] (angleMod : α → α) (xyzRot : V3 α) (target : V3 α) : (V3 α) :=
  let t10015 := (target.x + (angleMod (xyzRot.x - target.x)))
  let t10017 := (target.y + (angleMod (xyzRot.y - target.y)))
  let t10019 := (target.z + (angleMod (xyzRot.z - target.z)))
  let t10028 := (target.x + (angleMod ((((884279719003555 : α) / (281474976710656 : α)) + t10015) - target.x)))
  let t10033 := (t10019 - target.z)
  let t10034 := (t10017 - target.y)
  let t10035 := (t10015 - target.x)
  let t10038 := (t10028 - target.x)
  let t10043 := (((t10035 * t10035) + (t10034 * t10034)) + (t10033 * t10033))
  let t10094 := (target.y + (angleMod ((((884279719003555 : α) / (281474976710656 : α)) + t10017) - target.y)))
  let t10096 := (target.z + (angleMod ((((884279719003555 : α) / (281474976710656 : α)) - t10019) - target.z)))
  let t10097 := (t10096 - target.z)
  let t10098 := (t10094 - target.y)
  let t10102 := (((t10038 * t10038) + (t10098 * t10098)) + (t10097 * t10097))
  if t10102 < t10043 then
    ⟨t10028, t10094, t10096⟩
  else
    ⟨t10015, t10017, t10019⟩

/-- extracted from the C++ template at T = Sym; 2 path(s) -/
def Euler.makeNear_YXYr {α : Type} [Add α] [Sub α] [Mul α] [Div α] [LT α] [DecidableLT α] [OfNat α 281474976710656] [OfNat α 884279719003555] (angleMod : α → α) (a : V3 α) (t : V3 α) : ((V3 α) × Int) :=
  let t10056 := (t.x + (angleMod (a.x - t.x)))
  let t10058 := (t.y + (angleMod (a.y - t.y)))
  let t10060 := (t.z + (angleMod (a.z - t.z)))
  let t10068 := (t.x + (angleMod ((((884279719003555 : α) / (281474976710656 : α)) + t10056) - t.x)))
  let t10070 := (t.y + (angleMod ((((884279719003555 : α) / (281474976710656 : α)) - t10058) - t.y)))
  let t10072 := (t.z + (angleMod ((((884279719003555 : α) / (281474976710656 : α)) + t10060) - t.z)))
  let t10073 := (t10060 - t.z)
  let t10074 := (t10058 - t.y)
  let t10075 := (t10056 - t.x)
  let t10076 := (t10072 - t.z)
  let t10077 := (t10070 - t.y)
  let t10078 := (t10068 - t.x)
  let t10108 := (((t10073 * t10073) + (t10075 * t10075)) + (t10074 * t10074))
  let t10110 := (((t10076 * t10076) + (t10078 * t10078)) + (t10077 * t10077))
  if t10110 < t10108 then
    (⟨t10068, t10070, t10072⟩, (4368 : Int))
  else
    (⟨t10056, t10058, t10060⟩, (4368 : Int))

/-- extracted from the C++ template at T = Sym; 2 path(s) -/
def Euler.nearestRotation_YZYr {α : Type} [Add α] [Sub α] [Mul α] [Div α] [LT α] [DecidableLT α] [OfNat α 281474976710656] [OfNat α 884279719003555] (angleMod : α → α) (xyzRot : V3 α) (target : V3 α) : (V3 α) :=
  let t10015 := (target.x + (angleMod (xyzRot.x - target.x)))
  let t10017 := (target.y + (angleMod (xyzRot.y - target.y)))
  let t10019 := (target.z + (angleMod (xyzRot.z - target.z)))
  let t10032 := (target.z + (angleMod ((((884279719003555 : α) / (281474976710656 : α)) + t10019) - target.z)))
  let t10033 := (t10019 - target.z)
  let t10034 := (t10017 - target.y)
  let t10035 := (t10015 - target.x)
  let t10036 := (t10032 - target.z)
  let t10043 := (((t10035 * t10035) + (t10034 * t10034)) + (t10033 * t10033))
  let t10094 := (target.y + (angleMod ((((884279719003555 : α) / (281474976710656 : α)) + t10017) - target.y)))
  let t10098 := (t10094 - target.y)
  let t10114 := (target.x + (angleMod ((((884279719003555 : α) / (281474976710656 : α)) - t10015) - target.x)))
  let t10115 := (t10114 - target.x)
  let t10118 := (((t10115 * t10115) + (t10098 * t10098)) + (t10036 * t10036))
  if t10118 < t10043 then
    ⟨t10114, t10094, t10032⟩
  else
    ⟨t10015, t10017, t10019⟩

/-- extracted from the C++ template at T = Sym; 2 path(s) -/
def Euler.makeNear_YZYr {α : Type} [Add α] [Sub α] [Mul α] [Div α] [LT α] [DecidableLT α] [OfNat α 281474976710656] [OfNat α 884279719003555] (angleMod : α → α) (a : V3 α) (t : V3 α) : ((V3 α) × Int) :=
  let t10056 := (t.x + (angleMod (a.x - t.x)))
  let t10058 := (t.y + (angleMod (a.y - t.y)))
  let t10060 := (t.z + (angleMod (a.z - t.z)))
  let t10068 := (t.x + (angleMod ((((884279719003555 : α) / (281474976710656 : α)) + t10056) - t.x)))
  let t10070 := (t.y + (angleMod ((((884279719003555 : α) / (281474976710656 : α)) - t10058) - t.y)))
  let t10072 := (t.z + (angleMod ((((884279719003555 : α) / (281474976710656 : α)) + t10060) - t.z)))
  let t10073 := (t10060 - t.z)
  let t10074 := (t10058 - t.y)
  let t10075 := (t10056 - t.x)
  let t10076 := (t10072 - t.z)
  let t10077 := (t10070 - t.y)
  let t10078 := (t10068 - t.x)
  let t10120 := (((t10074 * t10074) + (t10075 * t10075)) + (t10073 * t10073))
  let t10122 := (((t10077 * t10077) + (t10078 * t10078)) + (t10076 * t10076))
  if t10122 < t10120 then
    (⟨t10068, t10070, t10072⟩, (4112 : Int))
  else
    (⟨t10056, t10058, t10060⟩, (4112 : Int))

/-- extracted from the C++ template at T = Sym; 2 path(s) -/
def Euler.nearestRotation_ZYZr {α : Type} [Add α] [Sub α] [Mul α] [Div α] [LT α] [DecidableLT α] [OfNat α 281474976710656] [OfNat α 884279719003555] (angleMod : α → α) (xyzRot : V3 α) (target : V3 α) : (V3 α) :=
  let t10015 := (target.x + (angleMod (xyzRot.x - target.x)))
  let t10017 := (target.y + (angleMod (xyzRot.y - target.y)))
  let t10019 := (target.z + (angleMod (xyzRot.z - target.z)))
  let t10028 := (target.x + (angleMod ((((884279719003555 : α) / (281474976710656 : α)) + t10015) - target.x)))
  let t10030 := (target.y + (angleMod ((((884279719003555 : α) / (281474976710656 : α)) - t10017) - target.y)))
  let t10032 := (target.z + (angleMod ((((884279719003555 : α) / (281474976710656 : α)) + t10019) - target.z)))
  let t10033 := (t10019 - target.z)
  let t10034 := (t10017 - target.y)
  let t10035 := (t10015 - target.x)
  let t10036 := (t10032 - target.z)
  let t10037 := (t10030 - target.y)
  let t10038 := (t10028 - target.x)
  let t10043 := (((t10035 * t10035) + (t10034 * t10034)) + (t10033 * t10033))
  let t10048 := (((t10038 * t10038) + (t10037 * t10037)) + (t10036 * t10036))
  if t10048 < t10043 then
    ⟨t10028, t10030, t10032⟩
  else
    ⟨t10015, t10017, t10019⟩

/-- extracted from the C++ template at T = Sym; 2 path(s) -/
def Euler.makeNear_ZYZr {α : Type} [Add α] [Sub α] [Mul α] [Div α] [LT α] [DecidableLT α] [OfNat α 281474976710656] [OfNat α 884279719003555] (angleMod : α → α) (a : V3 α) (t : V3 α) : ((V3 α) × Int) :=
  let t10056 := (t.x + (angleMod (a.x - t.x)))
  let t10058 := (t.y + (angleMod (a.y - t.y)))
  let t10060 := (t.z + (angleMod (a.z - t.z)))
  let t10068 := (t.x + (angleMod ((((884279719003555 : α) / (281474976710656 : α)) + t10056) - t.x)))
  let t10070 := (t.y + (angleMod ((((884279719003555 : α) / (281474976710656 : α)) - t10058) - t.y)))
  let t10072 := (t.z + (angleMod ((((884279719003555 : α) / (281474976710656 : α)) + t10060) - t.z)))
  let t10073 := (t10060 - t.z)
  let t10074 := (t10058 - t.y)
  let t10075 := (t10056 - t.x)
  let t10076 := (t10072 - t.z)
  let t10077 := (t10070 - t.y)
  let t10078 := (t10068 - t.x)
  let t10083 := (((t10075 * t10075) + (t10074 * t10074)) + (t10073 * t10073))
  let t10088 := (((t10078 * t10078) + (t10077 * t10077)) + (t10076 * t10076))
  if t10088 < t10083 then
    (⟨t10068, t10070, t10072⟩, (272 : Int))
  else
    (⟨t10056, t10058, t10060⟩, (272 : Int))

/-- extracted from the C++ template at T = Sym; 2 path(s) -/
def Euler.nearestRotation_ZXZr {α : Type} [Add α] [Sub α] [Mul α] [Div α] [LT α] [DecidableLT α] [OfNat α 281474976710656] [OfNat α 884279719003555] (angleMod : α → α) (xyzRot : V3 α) (target : V3 α) : (V3 α) :=
  let t10015 := (target.x + (angleMod (xyzRot.x - target.x)))
  let t10017 := (target.y + (angleMod (xyzRot.y - target.y)))
  let t10019 := (target.z + (angleMod (xyzRot.z - target.z)))
  let t10028 := (target.x + (angleMod ((((884279719003555 : α) / (281474976710656 : α)) + t10015) - target.x)))
  let t10033 := (t10019 - target.z)
  let t10034 := (t10017 - target.y)
  let t10035 := (t10015 - target.x)
  let t10038 := (t10028 - target.x)
  let t10043 := (((t10035 * t10035) + (t10034 * t10034)) + (t10033 * t10033))
  let t10094 := (target.y + (angleMod ((((884279719003555 : α) / (281474976710656 : α)) + t10017) - target.y)))
  let t10096 := (target.z + (angleMod ((((884279719003555 : α) / (281474976710656 : α)) - t10019) - target.z)))
  let t10097 := (t10096 - target.z)
  let t10098 := (t10094 - target.y)
  let t10102 := (((t10038 * t10038) + (t10098 * t10098)) + (t10097 * t10097))
  if t10102 < t10043 then
    ⟨t10028, t10094, t10096⟩
  else
    ⟨t10015, t10017, t10019⟩

/-- extracted from the C++ template at T = Sym; 2 path(s) -/
def Euler.makeNear_ZXZr {α : Type} [Add α] [Sub α] [Mul α] [Div α] [LT α] [DecidableLT α] [OfNat α 281474976710656] [OfNat α 884279719003555] (angleMod : α → α) (a : V3 α) (t : V3 α) : ((V3 α) × Int) :=
  let t10056 := (t.x + (angleMod (a.x - t.x)))
  let t10058 := (t.y + (angleMod (a.y - t.y)))
  let t10060 := (t.z + (angleMod (a.z - t.z)))
  let t10068 := (t.x + (angleMod ((((884279719003555 : α) / (281474976710656 : α)) + t10056) - t.x)))
  let t10070 := (t.y + (angleMod ((((884279719003555 : α) / (281474976710656 : α)) - t10058) - t.y)))
  let t10072 := (t.z + (angleMod ((((884279719003555 : α) / (281474976710656 : α)) + t10060) - t.z)))
  let t10073 := (t10060 - t.z)
  let t10074 := (t10058 - t.y)
  let t10075 := (t10056 - t.x)
  let t10076 := (t10072 - t.z)
  let t10077 := (t10070 - t.y)
  let t10078 := (t10068 - t.x)
  let t10104 := (((t10075 * t10075) + (t10073 * t10073)) + (t10074 * t10074))
  let t10106 := (((t10078 * t10078) + (t10076 * t10076)) + (t10077 * t10077))
  if t10106 < t10104 then
    (⟨t10068, t10070, t10072⟩, (16 : Int))
  else
    (⟨t10056, t10058, t10060⟩, (16 : Int))

end ImathVerif.Gen
