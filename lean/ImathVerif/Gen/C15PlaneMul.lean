-- GENERATED from /repo/src/Imath by harness/sym (T = Sym path extraction); do not edit.
import ImathVerif.Basic.Types
import ImathVerif.Gen.C15Plane
set_option linter.unusedVariables false
namespace ImathVerif.Gen
open ImathVerif

/-- extracted from the C++ template at T = Sym; 4 path(s) -/
def Plane3.mulM44 {α : Type} [Add α] [Sub α] [Mul α] [Div α] [Neg α] [LT α] [LE α] [DecidableLT α] [DecidableLE α] [DecidableEq α] [OfNat α 0] [OfNat α 1] [OfNat α 2] (tmin : α) (tmax : α) (sqrt : α → α) (pl : Plane3 α) (m : M44 α) : (Plane3 α) :=
  let t22 := ((0 : α) * pl.normal.x)
  let t23 := ((1 : α) * pl.normal.y)
  let t24 := (t23 - t22)
  let t25 := ((1 : α) * pl.normal.z)
  let t26 := (t22 - t25)
  let t27 := ((0 : α) * pl.normal.y)
  let t28 := ((0 : α) * pl.normal.z)
  let t29 := (t28 - t27)
  let t34 := (((t29 * t29) + (t26 * t26)) + (t24 * t24))
  let t35 := ((1 : α) * pl.normal.x)
  let t36 := (t27 - t35)
  let t37 := (t22 - t28)
  let t38 := (t25 - t27)
  let t43 := (((t38 * t38) + (t37 * t37)) + (t36 * t36))
  let t44 := (t27 - t22)
  let t45 := (t35 - t28)
  let t46 := (t28 - t23)
  let t51 := (((t46 * t46) + (t45 * t45)) + (t44 * t44))
  let t61 := (pl.distance * pl.normal.z)
  let t62 := (pl.distance * pl.normal.y)
  let t63 := (pl.distance * pl.normal.x)
  let t64 := (t61 + t44)
  let t65 := (t62 + t45)
  let t66 := (t63 + t46)
  let t90 := ((((t66 * m.x03) + (t65 * m.x13)) + (t64 * m.x23)) + m.x33)
  let t94 := (t61 + ((t46 * pl.normal.y) - (t45 * pl.normal.x)))
  let t95 := (t62 + ((t44 * pl.normal.x) - (t46 * pl.normal.z)))
  let t96 := (t63 + ((t45 * pl.normal.z) - (t44 * pl.normal.y)))
  let t120 := ((((t96 * m.x03) + (t95 * m.x13)) + (t94 * m.x23)) + m.x33)
  let t147 := ((((t63 * m.x03) + (t62 * m.x13)) + (t61 * m.x23)) + m.x33)
  let t148 := (((((t63 * m.x02) + (t62 * m.x12)) + (t61 * m.x22)) + m.x32) / t147)
  let t149 := (((((t63 * m.x01) + (t62 * m.x11)) + (t61 * m.x21)) + m.x31) / t147)
  let t150 := (((((t63 * m.x00) + (t62 * m.x10)) + (t61 * m.x20)) + m.x30) / t147)
  let t151 := (Plane3.setPoints tmin tmax sqrt ⟨t150, t149, t148⟩ ⟨(((((t96 * m.x00) + (t95 * m.x10)) + (t94 * m.x20)) + m.x30) / t120), (((((t96 * m.x01) + (t95 * m.x11)) + (t94 * m.x21)) + m.x31) / t120), (((((t96 * m.x02) + (t95 * m.x12)) + (t94 * m.x22)) + m.x32) / t120)⟩ ⟨(((((t66 * m.x00) + (t65 * m.x10)) + (t64 * m.x20)) + m.x30) / t90), (((((t66 * m.x01) + (t65 * m.x11)) + (t64 * m.x21)) + m.x31) / t90), (((((t66 * m.x02) + (t65 * m.x12)) + (t64 * m.x22)) + m.x32) / t90)⟩)
  let t165 := (t61 + t36)
  let t166 := (t62 + t37)
  let t167 := (t63 + t38)
  let t191 := ((((t167 * m.x03) + (t166 * m.x13)) + (t165 * m.x23)) + m.x33)
  let t195 := (t61 + ((t38 * pl.normal.y) - (t37 * pl.normal.x)))
  let t196 := (t62 + ((t36 * pl.normal.x) - (t38 * pl.normal.z)))
  let t197 := (t63 + ((t37 * pl.normal.z) - (t36 * pl.normal.y)))
  let t221 := ((((t197 * m.x03) + (t196 * m.x13)) + (t195 * m.x23)) + m.x33)
  let t225 := (Plane3.setPoints tmin tmax sqrt ⟨t150, t149, t148⟩ ⟨(((((t197 * m.x00) + (t196 * m.x10)) + (t195 * m.x20)) + m.x30) / t221), (((((t197 * m.x01) + (t196 * m.x11)) + (t195 * m.x21)) + m.x31) / t221), (((((t197 * m.x02) + (t196 * m.x12)) + (t195 * m.x22)) + m.x32) / t221)⟩ ⟨(((((t167 * m.x00) + (t166 * m.x10)) + (t165 * m.x20)) + m.x30) / t191), (((((t167 * m.x01) + (t166 * m.x11)) + (t165 * m.x21)) + m.x31) / t191), (((((t167 * m.x02) + (t166 * m.x12)) + (t165 * m.x22)) + m.x32) / t191)⟩)
  let t239 := (t61 + t24)
  let t240 := (t62 + t26)
  let t241 := (t63 + t29)
  let t265 := ((((t241 * m.x03) + (t240 * m.x13)) + (t239 * m.x23)) + m.x33)
  let t269 := (t61 + ((t29 * pl.normal.y) - (t26 * pl.normal.x)))
  let t270 := (t62 + ((t24 * pl.normal.x) - (t29 * pl.normal.z)))
  let t271 := (t63 + ((t26 * pl.normal.z) - (t24 * pl.normal.y)))
  let t295 := ((((t271 * m.x03) + (t270 * m.x13)) + (t269 * m.x23)) + m.x33)
  let t299 := (Plane3.setPoints tmin tmax sqrt ⟨t150, t149, t148⟩ ⟨(((((t271 * m.x00) + (t270 * m.x10)) + (t269 * m.x20)) + m.x30) / t295), (((((t271 * m.x01) + (t270 * m.x11)) + (t269 * m.x21)) + m.x31) / t295), (((((t271 * m.x02) + (t270 * m.x12)) + (t269 * m.x22)) + m.x32) / t295)⟩ ⟨(((((t241 * m.x00) + (t240 * m.x10)) + (t239 * m.x20)) + m.x30) / t265), (((((t241 * m.x01) + (t240 * m.x11)) + (t239 * m.x21)) + m.x31) / t265), (((((t241 * m.x02) + (t240 * m.x12)) + (t239 * m.x22)) + m.x32) / t265)⟩)
  if t34 < t43 then
    if t43 < t51 then
      ⟨⟨(t151).normal.x, (t151).normal.y, (t151).normal.z⟩, (t151).distance⟩
    else
      ⟨⟨(t225).normal.x, (t225).normal.y, (t225).normal.z⟩, (t225).distance⟩
  else
    if t34 < t51 then
      ⟨⟨(t151).normal.x, (t151).normal.y, (t151).normal.z⟩, (t151).distance⟩
    else
      ⟨⟨(t299).normal.x, (t299).normal.y, (t299).normal.z⟩, (t299).distance⟩

end ImathVerif.Gen
