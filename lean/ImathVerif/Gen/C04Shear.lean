-- GENERATED from /repo/src/Imath by harness/sym (T = Sym path extraction); do not edit.
import ImathVerif.Basic.Types
set_option linter.unusedVariables false
namespace ImathVerif.Gen
open ImathVerif

/-- extracted from the C++ template at T = Sym; 1 path(s) -/
def Shear6.add {α : Type} [Add α] (a : Shear6 α) (b : Shear6 α) : (Shear6 α) :=
  ⟨(a.xy + b.xy), (a.xz + b.xz), (a.yz + b.yz), (a.yx + b.yx), (a.zx + b.zx), (a.zy + b.zy)⟩

/-- extracted from the C++ template at T = Sym; 1 path(s) -/
def Shear6.addAssign {α : Type} [Add α] (a : Shear6 α) (b : Shear6 α) : (Shear6 α) :=
  ⟨(a.xy + b.xy), (a.xz + b.xz), (a.yz + b.yz), (a.yx + b.yx), (a.zx + b.zx), (a.zy + b.zy)⟩

/-- extracted from the C++ template at T = Sym; 1 path(s) -/
def Shear6.sub {α : Type} [Sub α] (a : Shear6 α) (b : Shear6 α) : (Shear6 α) :=
  ⟨(a.xy - b.xy), (a.xz - b.xz), (a.yz - b.yz), (a.yx - b.yx), (a.zx - b.zx), (a.zy - b.zy)⟩

/-- extracted from the C++ template at T = Sym; 1 path(s) -/
def Shear6.subAssign {α : Type} [Sub α] (a : Shear6 α) (b : Shear6 α) : (Shear6 α) :=
  ⟨(a.xy - b.xy), (a.xz - b.xz), (a.yz - b.yz), (a.yx - b.yx), (a.zx - b.zx), (a.zy - b.zy)⟩

/-- extracted from the C++ template at T = Sym; 1 path(s) -/
def Shear6.neg {α : Type} [Neg α] (a : Shear6 α) : (Shear6 α) :=
  ⟨(-a.xy), (-a.xz), (-a.yz), (-a.yx), (-a.zx), (-a.zy)⟩

/-- extracted from the C++ template at T = Sym; 1 path(s) -/
def Shear6.negate {α : Type} [Neg α] (a : Shear6 α) : (Shear6 α) :=
  ⟨(-a.xy), (-a.xz), (-a.yz), (-a.yx), (-a.zx), (-a.zy)⟩

/-- extracted from the C++ template at T = Sym; 1 path(s) -/
def Shear6.mul {α : Type} [Mul α] (a : Shear6 α) (b : Shear6 α) : (Shear6 α) :=
  ⟨(a.xy * b.xy), (a.xz * b.xz), (a.yz * b.yz), (a.yx * b.yx), (a.zx * b.zx), (a.zy * b.zy)⟩

/-- extracted from the C++ template at T = Sym; 1 path(s) -/
def Shear6.mulAssign {α : Type} [Mul α] (a : Shear6 α) (b : Shear6 α) : (Shear6 α) :=
  ⟨(a.xy * b.xy), (a.xz * b.xz), (a.yz * b.yz), (a.yx * b.yx), (a.zx * b.zx), (a.zy * b.zy)⟩

/-- extracted from the C++ template at T = Sym; 1 path(s) -/
def Shear6.div {α : Type} [Div α] (a : Shear6 α) (b : Shear6 α) : (Shear6 α) :=
  ⟨(a.xy / b.xy), (a.xz / b.xz), (a.yz / b.yz), (a.yx / b.yx), (a.zx / b.zx), (a.zy / b.zy)⟩

/-- extracted from the C++ template at T = Sym; 1 path(s) -/
def Shear6.divAssign {α : Type} [Div α] (a : Shear6 α) (b : Shear6 α) : (Shear6 α) :=
  ⟨(a.xy / b.xy), (a.xz / b.xz), (a.yz / b.yz), (a.yx / b.yx), (a.zx / b.zx), (a.zy / b.zy)⟩

/-- extracted from the C++ template at T = Sym; 1 path(s) -/
def Shear6.mulS {α : Type} [Mul α] (a : Shear6 α) (s : α) : (Shear6 α) :=
  ⟨(a.xy * s), (a.xz * s), (a.yz * s), (a.yx * s), (a.zx * s), (a.zy * s)⟩

/-- extracted from the C++ template at T = Sym; 1 path(s) -/
def Shear6.mulSAssign {α : Type} [Mul α] (a : Shear6 α) (s : α) : (Shear6 α) :=
  ⟨(a.xy * s), (a.xz * s), (a.yz * s), (a.yx * s), (a.zx * s), (a.zy * s)⟩

/-- extracted from the C++ template at T = Sym; 1 path(s) -/
def Shear6.smul {α : Type} [Mul α] (s : α) (a : Shear6 α) : (Shear6 α) :=
  ⟨(s * a.xy), (s * a.xz), (s * a.yz), (s * a.yx), (s * a.zx), (s * a.zy)⟩

/-- extracted from the C++ template at T = Sym; 1 path(s) -/
def Shear6.divS {α : Type} [Div α] (a : Shear6 α) (s : α) : (Shear6 α) :=
  ⟨(a.xy / s), (a.xz / s), (a.yz / s), (a.yx / s), (a.zx / s), (a.zy / s)⟩

/-- extracted from the C++ template at T = Sym; 1 path(s) -/
def Shear6.divSAssign {α : Type} [Div α] (a : Shear6 α) (s : α) : (Shear6 α) :=
  ⟨(a.xy / s), (a.xz / s), (a.yz / s), (a.yx / s), (a.zx / s), (a.zy / s)⟩

/-- extracted from the C++ template at T = Sym; 7 path(s) -/
def Shear6.eq {α : Type} [DecidableEq α] (a : Shear6 α) (b : Shear6 α) : Bool :=
  if a.xy = b.xy then
    if a.xz = b.xz then
      if a.yz = b.yz then
        if a.yx = b.yx then
          if a.zx = b.zx then
            if a.zy = b.zy then
              true
            else
              false
          else
            false
        else
          false
      else
        false
    else
      false
  else
    false

/-- extracted from the C++ template at T = Sym; 7 path(s) -/
def Shear6.ne {α : Type} [DecidableEq α] (a : Shear6 α) (b : Shear6 α) : Bool :=
  if a.xy = b.xy then
    if a.xz = b.xz then
      if a.yz = b.yz then
        if a.yx = b.yx then
          if a.zx = b.zx then
            if a.zy = b.zy then
              false
            else
              true
          else
            true
        else
          true
      else
        true
    else
      true
  else
    true

/-- extracted from the C++ template at T = Sym; 7 path(s) -/
def Shear6.equalWithAbsError {α : Type} [Sub α] [LT α] [LE α] [DecidableLT α] [DecidableLE α] (a : Shear6 α) (b : Shear6 α) (e : α) : Bool :=
  let t156 := (sabsdiff a.xy b.xy)
  let t157 := (sabsdiff a.xz b.xz)
  let t158 := (sabsdiff a.yz b.yz)
  let t159 := (sabsdiff a.yx b.yx)
  let t160 := (sabsdiff a.zx b.zx)
  let t161 := (sabsdiff a.zy b.zy)
  if t156 ≤ e then
    if t157 ≤ e then
      if t158 ≤ e then
        if t159 ≤ e then
          if t160 ≤ e then
            if t161 ≤ e then
              true
            else
              false
          else
            false
        else
          false
      else
        false
    else
      false
  else
    false

/-- extracted from the C++ template at T = Sym; 7 path(s) -/
def Shear6.equalWithRelError {α : Type} [Sub α] [Mul α] [Neg α] [LT α] [LE α] [DecidableLT α] [DecidableLE α] [OfNat α 0] (a : Shear6 α) (b : Shear6 α) (e : α) : Bool :=
  let t156 := (sabsdiff a.xy b.xy)
  let t157 := (sabsdiff a.xz b.xz)
  let t158 := (sabsdiff a.yz b.yz)
  let t159 := (sabsdiff a.yx b.yx)
  let t160 := (sabsdiff a.zx b.zx)
  let t161 := (sabsdiff a.zy b.zy)
  let t163 := (e * (sabs a.xy))
  let t165 := (e * (sabs a.xz))
  let t167 := (e * (sabs a.yz))
  let t169 := (e * (sabs a.yx))
  let t171 := (e * (sabs a.zx))
  let t173 := (e * (sabs a.zy))
  if t156 ≤ t163 then
    if t157 ≤ t165 then
      if t158 ≤ t167 then
        if t159 ≤ t169 then
          if t160 ≤ t171 then
            if t161 ≤ t173 then
              true
            else
              false
          else
            false
        else
          false
      else
        false
    else
      false
  else
    false

/-- extracted from the C++ template at T = Sym; 1 path(s) -/
def Shear6.indexAll {α : Type} (a : Shear6 α) : (Shear6 α) :=
  ⟨a.xy, a.xz, a.yz, a.yx, a.zx, a.zy⟩

/-- extracted from the C++ template at T = Sym; 1 path(s) -/
def Shear6.setIndexAll {α : Type} (a : Shear6 α) (b : Shear6 α) : (Shear6 α) :=
  ⟨b.xy, b.xz, b.yz, b.yx, b.zx, b.zy⟩

/-- extracted from the C++ template at T = Sym; 1 path(s) -/
def Shear6.getValuePtr {α : Type} (a : Shear6 α) : (Shear6 α) :=
  ⟨a.xy, a.xz, a.yz, a.yx, a.zx, a.zy⟩

/-- extracted from the C++ template at T = Sym; 1 path(s) -/
def Shear6.convertCtor {α : Type} (a : Shear6 α) : (Shear6 α) :=
  ⟨a.xy, a.xz, a.yz, a.yx, a.zx, a.zy⟩

/-- extracted from the C++ template at T = Sym; 1 path(s) -/
def Shear6.setValueV {α : Type} (a : Shear6 α) (b : Shear6 α) : (Shear6 α) :=
  ⟨b.xy, b.xz, b.yz, b.yx, b.zx, b.zy⟩

/-- extracted from the C++ template at T = Sym; 1 path(s) -/
def Shear6.getValueV {α : Type} (a : Shear6 α) : (Shear6 α) :=
  ⟨a.xy, a.xz, a.yz, a.yx, a.zx, a.zy⟩

/-- extracted from the C++ template at T = Sym; 1 path(s) -/
def Shear6.setValueS {α : Type} (a : Shear6 α) (b : Shear6 α) : (Shear6 α) :=
  ⟨b.xy, b.xz, b.yz, b.yx, b.zx, b.zy⟩

/-- extracted from the C++ template at T = Sym; 1 path(s) -/
def Shear6.getValueS {α : Type} (a : Shear6 α) : (Shear6 α) :=
  ⟨a.xy, a.xz, a.yz, a.yx, a.zx, a.zy⟩

/-- extracted from the C++ template at T = Sym; 1 path(s) -/
def Shear6.fromV3 {α : Type} [OfNat α 0] (a : V3 α) : ((Shear6 α) × (Shear6 α)) :=
  (⟨a.x, a.y, a.z, (0 : α), (0 : α), (0 : α)⟩, ⟨a.x, a.y, a.z, (0 : α), (0 : α), (0 : α)⟩)

/-- extracted from the C++ template at T = Sym; 1 path(s) -/
def Shear6.ctor3 {α : Type} [OfNat α 0] (a : V3 α) : (Shear6 α) :=
  ⟨a.x, a.y, a.z, (0 : α), (0 : α), (0 : α)⟩

/-- extracted from the C++ template at T = Sym; 1 path(s) -/
def Shear6.narrowCtor {α : Type} {β : Type} (cast : β → α) (a : Shear6 β) : (Shear6 α) :=
  ⟨(cast a.xy), (cast a.xz), (cast a.yz), (cast a.yx), (cast a.zx), (cast a.zy)⟩

/-- extracted from the C++ template at T = Sym; 1 path(s) -/
def Shear6.narrowSetValueV {α : Type} {β : Type} (cast : β → α) (a : Shear6 α) (b : Shear6 β) : (Shear6 α) :=
  ⟨(cast b.xy), (cast b.xz), (cast b.yz), (cast b.yx), (cast b.zx), (cast b.zy)⟩

/-- extracted from the C++ template at T = Sym; 1 path(s) -/
def Shear6.narrowGetValueV {α : Type} {β : Type} (cast : β → α) (a : Shear6 β) (b : Shear6 α) : (Shear6 α) :=
  ⟨(cast a.xy), (cast a.xz), (cast a.yz), (cast a.yx), (cast a.zx), (cast a.zy)⟩

/-- extracted from the C++ template at T = Sym; 1 path(s) -/
def Shear6.narrowSetValueS {α : Type} {β : Type} (cast : β → α) (a : Shear6 α) (b : Shear6 β) : (Shear6 α) :=
  ⟨(cast b.xy), (cast b.xz), (cast b.yz), (cast b.yx), (cast b.zx), (cast b.zy)⟩

/-- extracted from the C++ template at T = Sym; 1 path(s) -/
def Shear6.narrowGetValueS {α : Type} {β : Type} (cast : β → α) (a : Shear6 β) (b : Shear6 α) : (Shear6 α) :=
  ⟨(cast a.xy), (cast a.xz), (cast a.yz), (cast a.yx), (cast a.zx), (cast a.zy)⟩

/-- extracted from the C++ template at T = Sym; 1 path(s) -/
def Shear6.narrowFromV3 {α : Type} {β : Type} [OfNat α 0] (cast : β → α) (a : V3 β) (t : Shear6 α) : ((Shear6 α) × (Shear6 α)) :=
  let t665 := (cast a.x)
  let t666 := (cast a.y)
  let t669 := (cast a.z)
  (⟨t665, t666, t669, (0 : α), (0 : α), (0 : α)⟩, ⟨t665, t666, t669, (0 : α), (0 : α), (0 : α)⟩)

/-- extracted from the C++ template at T = Sym; 1 path(s) -/
def Shear6.assign {α : Type} (a : Shear6 α) (b : Shear6 α) : (Shear6 α) :=
  ⟨b.xy, b.xz, b.yz, b.yx, b.zx, b.zy⟩

/-- extracted from the C++ template at T = Sym; 1 path(s) -/
def Shear6.copyCtor {α : Type} (a : Shear6 α) : (Shear6 α) :=
  ⟨a.xy, a.xz, a.yz, a.yx, a.zx, a.zy⟩

/-- extracted from the C++ template at T = Sym; 1 path(s) -/
def Shear6.ctorElems {α : Type} (a : Shear6 α) : (Shear6 α) :=
  ⟨a.xy, a.xz, a.yz, a.yx, a.zx, a.zy⟩

end ImathVerif.Gen
