-- GENERATED from /repo/src/Imath by harness/sym (T = Sym path extraction); do not edit.
import ImathVerif.Basic.Types
import ImathVerif.Gen.C16PlanesM
set_option linter.unusedVariables false
namespace ImathVerif.Gen
open ImathVerif

/-- extracted from the C++ template at T = Sym; 1 path(s) -/
def FrustumTest.setFrustum_persp {α : Type} [Add α] [Sub α] [Mul α] [Div α] [Neg α] [LT α] [LE α] [DecidableLT α] [DecidableLE α] [DecidableEq α] [OfNat α 0] [OfNat α 2] (tmin : α) (tmax : α) (sqrt : α → α) (n : α) (f : α) (l : α) (r : α) (t : α) (b : α) (M : M44 α) : ((V3 α) × (V3 α) × (V3 α) × (V3 α) × (V3 α) × (V3 α) × (V3 α) × (V3 α) × (V3 α) × (V3 α) × (V3 α) × (V3 α) × (V3 α) × (V3 α)) :=
  let t522 := (Frustum.planesM_persp_0 tmin tmax sqrt n f l r t b ⟨M.x00, M.x01, M.x02, M.x03, M.x10, M.x11, M.x12, M.x13, M.x20, M.x21, M.x22, M.x23, M.x30, M.x31, M.x32, M.x33⟩)
  let t527 := (Frustum.planesM_persp_1 tmin tmax sqrt n f l r t b ⟨M.x00, M.x01, M.x02, M.x03, M.x10, M.x11, M.x12, M.x13, M.x20, M.x21, M.x22, M.x23, M.x30, M.x31, M.x32, M.x33⟩)
  let t532 := (Frustum.planesM_persp_2 tmin tmax sqrt n f l r t b ⟨M.x00, M.x01, M.x02, M.x03, M.x10, M.x11, M.x12, M.x13, M.x20, M.x21, M.x22, M.x23, M.x30, M.x31, M.x32, M.x33⟩)
  let t537 := (Frustum.planesM_persp_3 tmin tmax sqrt n f l r t b ⟨M.x00, M.x01, M.x02, M.x03, M.x10, M.x11, M.x12, M.x13, M.x20, M.x21, M.x22, M.x23, M.x30, M.x31, M.x32, M.x33⟩)
  let t542 := (Frustum.planesM_persp_4 tmin tmax sqrt n f l r t b ⟨M.x00, M.x01, M.x02, M.x03, M.x10, M.x11, M.x12, M.x13, M.x20, M.x21, M.x22, M.x23, M.x30, M.x31, M.x32, M.x33⟩)
  let t547 := (Frustum.planesM_persp_5 tmin tmax sqrt n f l r t b ⟨M.x00, M.x01, M.x02, M.x03, M.x10, M.x11, M.x12, M.x13, M.x20, M.x21, M.x22, M.x23, M.x30, M.x31, M.x32, M.x33⟩)
  (⟨(t522).normal.x, (t527).normal.x, (t532).normal.x⟩, ⟨(t537).normal.x, (t542).normal.x, (t547).normal.x⟩, ⟨(t522).normal.y, (t527).normal.y, (t532).normal.y⟩, ⟨(t537).normal.y, (t542).normal.y, (t547).normal.y⟩, ⟨(t522).normal.z, (t527).normal.z, (t532).normal.z⟩, ⟨(t537).normal.z, (t542).normal.z, (t547).normal.z⟩, ⟨(t522).distance, (t527).distance, (t532).distance⟩, ⟨(t537).distance, (t542).distance, (t547).distance⟩, ⟨((sabs (t522).normal.x) + (0 : α)), ((sabs (t527).normal.x) + (0 : α)), ((sabs (t532).normal.x) + (0 : α))⟩, ⟨((sabs (t537).normal.x) + (0 : α)), ((sabs (t542).normal.x) + (0 : α)), ((sabs (t547).normal.x) + (0 : α))⟩, ⟨((sabs (t522).normal.y) + (0 : α)), ((sabs (t527).normal.y) + (0 : α)), ((sabs (t532).normal.y) + (0 : α))⟩, ⟨((sabs (t537).normal.y) + (0 : α)), ((sabs (t542).normal.y) + (0 : α)), ((sabs (t547).normal.y) + (0 : α))⟩, ⟨((sabs (t522).normal.z) + (0 : α)), ((sabs (t527).normal.z) + (0 : α)), ((sabs (t532).normal.z) + (0 : α))⟩, ⟨((sabs (t537).normal.z) + (0 : α)), ((sabs (t542).normal.z) + (0 : α)), ((sabs (t547).normal.z) + (0 : α))⟩)

/-- extracted from the C++ template at T = Sym; 7 path(s) -/
def FrustumTest.isVisiblePoint_persp {α : Type} [Add α] [Sub α] [Mul α] [Div α] [Neg α] [LT α] [LE α] [DecidableLT α] [DecidableLE α] [DecidableEq α] [OfNat α 0] [OfNat α 2] (tmin : α) (tmax : α) (sqrt : α → α) (n : α) (f : α) (l : α) (r : α) (t : α) (b : α) (M : M44 α) (v : V3 α) : Bool :=
  let t522 := (Frustum.planesM_persp_0 tmin tmax sqrt n f l r t b ⟨M.x00, M.x01, M.x02, M.x03, M.x10, M.x11, M.x12, M.x13, M.x20, M.x21, M.x22, M.x23, M.x30, M.x31, M.x32, M.x33⟩)
  let t527 := (Frustum.planesM_persp_1 tmin tmax sqrt n f l r t b ⟨M.x00, M.x01, M.x02, M.x03, M.x10, M.x11, M.x12, M.x13, M.x20, M.x21, M.x22, M.x23, M.x30, M.x31, M.x32, M.x33⟩)
  let t532 := (Frustum.planesM_persp_2 tmin tmax sqrt n f l r t b ⟨M.x00, M.x01, M.x02, M.x03, M.x10, M.x11, M.x12, M.x13, M.x20, M.x21, M.x22, M.x23, M.x30, M.x31, M.x32, M.x33⟩)
  let t537 := (Frustum.planesM_persp_3 tmin tmax sqrt n f l r t b ⟨M.x00, M.x01, M.x02, M.x03, M.x10, M.x11, M.x12, M.x13, M.x20, M.x21, M.x22, M.x23, M.x30, M.x31, M.x32, M.x33⟩)
  let t542 := (Frustum.planesM_persp_4 tmin tmax sqrt n f l r t b ⟨M.x00, M.x01, M.x02, M.x03, M.x10, M.x11, M.x12, M.x13, M.x20, M.x21, M.x22, M.x23, M.x30, M.x31, M.x32, M.x33⟩)
  let t547 := (Frustum.planesM_persp_5 tmin tmax sqrt n f l r t b ⟨M.x00, M.x01, M.x02, M.x03, M.x10, M.x11, M.x12, M.x13, M.x20, M.x21, M.x22, M.x23, M.x30, M.x31, M.x32, M.x33⟩)
  let t603 := (((((t532).normal.x * v.x) + ((t532).normal.y * v.y)) + ((t532).normal.z * v.z)) - (t532).distance)
  let t604 := (((((t527).normal.x * v.x) + ((t527).normal.y * v.y)) + ((t527).normal.z * v.z)) - (t527).distance)
  let t605 := (((((t522).normal.x * v.x) + ((t522).normal.y * v.y)) + ((t522).normal.z * v.z)) - (t522).distance)
  let t621 := (((((t547).normal.x * v.x) + ((t547).normal.y * v.y)) + ((t547).normal.z * v.z)) - (t547).distance)
  let t622 := (((((t542).normal.x * v.x) + ((t542).normal.y * v.y)) + ((t542).normal.z * v.z)) - (t542).distance)
  let t623 := (((((t537).normal.x * v.x) + ((t537).normal.y * v.y)) + ((t537).normal.z * v.z)) - (t537).distance)
  if (0 : α) ≤ t605 then
    false
  else
    if (0 : α) ≤ t604 then
      false
    else
      if (0 : α) ≤ t603 then
        false
      else
        if (0 : α) ≤ t623 then
          false
        else
          if (0 : α) ≤ t622 then
            false
          else
            if (0 : α) ≤ t621 then
              false
            else
              true

/-- extracted from the C++ template at T = Sym; 7 path(s) -/
def FrustumTest.isVisibleSphere_persp {α : Type} [Add α] [Sub α] [Mul α] [Div α] [Neg α] [LT α] [LE α] [DecidableLT α] [DecidableLE α] [DecidableEq α] [OfNat α 0] [OfNat α 2] (tmin : α) (tmax : α) (sqrt : α → α) (n : α) (f : α) (l : α) (r : α) (t : α) (b : α) (M : M44 α) (s : Sphere3 α) : Bool :=
  let t522 := (Frustum.planesM_persp_0 tmin tmax sqrt n f l r t b ⟨M.x00, M.x01, M.x02, M.x03, M.x10, M.x11, M.x12, M.x13, M.x20, M.x21, M.x22, M.x23, M.x30, M.x31, M.x32, M.x33⟩)
  let t527 := (Frustum.planesM_persp_1 tmin tmax sqrt n f l r t b ⟨M.x00, M.x01, M.x02, M.x03, M.x10, M.x11, M.x12, M.x13, M.x20, M.x21, M.x22, M.x23, M.x30, M.x31, M.x32, M.x33⟩)
  let t532 := (Frustum.planesM_persp_2 tmin tmax sqrt n f l r t b ⟨M.x00, M.x01, M.x02, M.x03, M.x10, M.x11, M.x12, M.x13, M.x20, M.x21, M.x22, M.x23, M.x30, M.x31, M.x32, M.x33⟩)
  let t537 := (Frustum.planesM_persp_3 tmin tmax sqrt n f l r t b ⟨M.x00, M.x01, M.x02, M.x03, M.x10, M.x11, M.x12, M.x13, M.x20, M.x21, M.x22, M.x23, M.x30, M.x31, M.x32, M.x33⟩)
  let t542 := (Frustum.planesM_persp_4 tmin tmax sqrt n f l r t b ⟨M.x00, M.x01, M.x02, M.x03, M.x10, M.x11, M.x12, M.x13, M.x20, M.x21, M.x22, M.x23, M.x30, M.x31, M.x32, M.x33⟩)
  let t547 := (Frustum.planesM_persp_5 tmin tmax sqrt n f l r t b ⟨M.x00, M.x01, M.x02, M.x03, M.x10, M.x11, M.x12, M.x13, M.x20, M.x21, M.x22, M.x23, M.x30, M.x31, M.x32, M.x33⟩)
  let t646 := ((((((t532).normal.x * s.center.x) + ((t532).normal.y * s.center.y)) + ((t532).normal.z * s.center.z)) - s.radius) - (t532).distance)
  let t647 := ((((((t527).normal.x * s.center.x) + ((t527).normal.y * s.center.y)) + ((t527).normal.z * s.center.z)) - s.radius) - (t527).distance)
  let t648 := ((((((t522).normal.x * s.center.x) + ((t522).normal.y * s.center.y)) + ((t522).normal.z * s.center.z)) - s.radius) - (t522).distance)
  let t667 := ((((((t547).normal.x * s.center.x) + ((t547).normal.y * s.center.y)) + ((t547).normal.z * s.center.z)) - s.radius) - (t547).distance)
  let t668 := ((((((t542).normal.x * s.center.x) + ((t542).normal.y * s.center.y)) + ((t542).normal.z * s.center.z)) - s.radius) - (t542).distance)
  let t669 := ((((((t537).normal.x * s.center.x) + ((t537).normal.y * s.center.y)) + ((t537).normal.z * s.center.z)) - s.radius) - (t537).distance)
  if (0 : α) ≤ t648 then
    false
  else
    if (0 : α) ≤ t647 then
      false
    else
      if (0 : α) ≤ t646 then
        false
      else
        if (0 : α) ≤ t669 then
          false
        else
          if (0 : α) ≤ t668 then
            false
          else
            if (0 : α) ≤ t667 then
              false
            else
              true

/-- extracted from the C++ template at T = Sym; 10 path(s) -/
def FrustumTest.isVisibleBox_persp {α : Type} [Add α] [Sub α] [Mul α] [Div α] [Neg α] [LT α] [LE α] [DecidableLT α] [DecidableLE α] [DecidableEq α] [OfNat α 0] [OfNat α 2] (tmin : α) (tmax : α) (sqrt : α → α) (n : α) (f : α) (l : α) (r : α) (t : α) (b : α) (M : M44 α) (bx : Box3 α) : Bool :=
  let t522 := (Frustum.planesM_persp_0 tmin tmax sqrt n f l r t b ⟨M.x00, M.x01, M.x02, M.x03, M.x10, M.x11, M.x12, M.x13, M.x20, M.x21, M.x22, M.x23, M.x30, M.x31, M.x32, M.x33⟩)
  let t527 := (Frustum.planesM_persp_1 tmin tmax sqrt n f l r t b ⟨M.x00, M.x01, M.x02, M.x03, M.x10, M.x11, M.x12, M.x13, M.x20, M.x21, M.x22, M.x23, M.x30, M.x31, M.x32, M.x33⟩)
  let t532 := (Frustum.planesM_persp_2 tmin tmax sqrt n f l r t b ⟨M.x00, M.x01, M.x02, M.x03, M.x10, M.x11, M.x12, M.x13, M.x20, M.x21, M.x22, M.x23, M.x30, M.x31, M.x32, M.x33⟩)
  let t537 := (Frustum.planesM_persp_3 tmin tmax sqrt n f l r t b ⟨M.x00, M.x01, M.x02, M.x03, M.x10, M.x11, M.x12, M.x13, M.x20, M.x21, M.x22, M.x23, M.x30, M.x31, M.x32, M.x33⟩)
  let t542 := (Frustum.planesM_persp_4 tmin tmax sqrt n f l r t b ⟨M.x00, M.x01, M.x02, M.x03, M.x10, M.x11, M.x12, M.x13, M.x20, M.x21, M.x22, M.x23, M.x30, M.x31, M.x32, M.x33⟩)
  let t547 := (Frustum.planesM_persp_5 tmin tmax sqrt n f l r t b ⟨M.x00, M.x01, M.x02, M.x03, M.x10, M.x11, M.x12, M.x13, M.x20, M.x21, M.x22, M.x23, M.x30, M.x31, M.x32, M.x33⟩)
  let t681 := ((bx.min.z + bx.max.z) / (2 : α))
  let t682 := ((bx.min.y + bx.max.y) / (2 : α))
  let t683 := ((bx.min.x + bx.max.x) / (2 : α))
  let t684 := (bx.max.z - t681)
  let t685 := (bx.max.y - t682)
  let t686 := (bx.max.x - t683)
  let t720 := ((((((((t532).normal.x * t683) + ((t532).normal.y * t682)) + ((t532).normal.z * t681)) - ((sabs (t532).normal.x) * t686)) - ((sabs (t532).normal.y) * t685)) - ((sabs (t532).normal.z) * t684)) - (t532).distance)
  let t721 := ((((((((t527).normal.x * t683) + ((t527).normal.y * t682)) + ((t527).normal.z * t681)) - ((sabs (t527).normal.x) * t686)) - ((sabs (t527).normal.y) * t685)) - ((sabs (t527).normal.z) * t684)) - (t527).distance)
  let t722 := ((((((((t522).normal.x * t683) + ((t522).normal.y * t682)) + ((t522).normal.z * t681)) - ((sabs (t522).normal.x) * t686)) - ((sabs (t522).normal.y) * t685)) - ((sabs (t522).normal.z) * t684)) - (t522).distance)
  let t756 := ((((((((t547).normal.x * t683) + ((t547).normal.y * t682)) + ((t547).normal.z * t681)) - ((sabs (t547).normal.x) * t686)) - ((sabs (t547).normal.y) * t685)) - ((sabs (t547).normal.z) * t684)) - (t547).distance)
  let t757 := ((((((((t542).normal.x * t683) + ((t542).normal.y * t682)) + ((t542).normal.z * t681)) - ((sabs (t542).normal.x) * t686)) - ((sabs (t542).normal.y) * t685)) - ((sabs (t542).normal.z) * t684)) - (t542).distance)
  let t758 := ((((((((t537).normal.x * t683) + ((t537).normal.y * t682)) + ((t537).normal.z * t681)) - ((sabs (t537).normal.x) * t686)) - ((sabs (t537).normal.y) * t685)) - ((sabs (t537).normal.z) * t684)) - (t537).distance)
  if bx.max.x < bx.min.x then
    false
  else
    if bx.max.y < bx.min.y then
      false
    else
      if bx.max.z < bx.min.z then
        false
      else
        if (0 : α) ≤ t722 then
          false
        else
          if (0 : α) ≤ t721 then
            false
          else
            if (0 : α) ≤ t720 then
              false
            else
              if (0 : α) ≤ t758 then
                false
              else
                if (0 : α) ≤ t757 then
                  false
                else
                  if (0 : α) ≤ t756 then
                    false
                  else
                    true

/-- extracted from the C++ template at T = Sym; 7 path(s) -/
def FrustumTest.completelyContainsSphere_persp {α : Type} [Add α] [Sub α] [Mul α] [Div α] [Neg α] [LT α] [LE α] [DecidableLT α] [DecidableLE α] [DecidableEq α] [OfNat α 0] [OfNat α 2] (tmin : α) (tmax : α) (sqrt : α → α) (n : α) (f : α) (l : α) (r : α) (t : α) (b : α) (M : M44 α) (s : Sphere3 α) : Bool :=
  let t522 := (Frustum.planesM_persp_0 tmin tmax sqrt n f l r t b ⟨M.x00, M.x01, M.x02, M.x03, M.x10, M.x11, M.x12, M.x13, M.x20, M.x21, M.x22, M.x23, M.x30, M.x31, M.x32, M.x33⟩)
  let t527 := (Frustum.planesM_persp_1 tmin tmax sqrt n f l r t b ⟨M.x00, M.x01, M.x02, M.x03, M.x10, M.x11, M.x12, M.x13, M.x20, M.x21, M.x22, M.x23, M.x30, M.x31, M.x32, M.x33⟩)
  let t532 := (Frustum.planesM_persp_2 tmin tmax sqrt n f l r t b ⟨M.x00, M.x01, M.x02, M.x03, M.x10, M.x11, M.x12, M.x13, M.x20, M.x21, M.x22, M.x23, M.x30, M.x31, M.x32, M.x33⟩)
  let t537 := (Frustum.planesM_persp_3 tmin tmax sqrt n f l r t b ⟨M.x00, M.x01, M.x02, M.x03, M.x10, M.x11, M.x12, M.x13, M.x20, M.x21, M.x22, M.x23, M.x30, M.x31, M.x32, M.x33⟩)
  let t542 := (Frustum.planesM_persp_4 tmin tmax sqrt n f l r t b ⟨M.x00, M.x01, M.x02, M.x03, M.x10, M.x11, M.x12, M.x13, M.x20, M.x21, M.x22, M.x23, M.x30, M.x31, M.x32, M.x33⟩)
  let t547 := (Frustum.planesM_persp_5 tmin tmax sqrt n f l r t b ⟨M.x00, M.x01, M.x02, M.x03, M.x10, M.x11, M.x12, M.x13, M.x20, M.x21, M.x22, M.x23, M.x30, M.x31, M.x32, M.x33⟩)
  let t762 := ((((((t532).normal.x * s.center.x) + ((t532).normal.y * s.center.y)) + ((t532).normal.z * s.center.z)) + s.radius) - (t532).distance)
  let t763 := ((((((t527).normal.x * s.center.x) + ((t527).normal.y * s.center.y)) + ((t527).normal.z * s.center.z)) + s.radius) - (t527).distance)
  let t764 := ((((((t522).normal.x * s.center.x) + ((t522).normal.y * s.center.y)) + ((t522).normal.z * s.center.z)) + s.radius) - (t522).distance)
  let t768 := ((((((t547).normal.x * s.center.x) + ((t547).normal.y * s.center.y)) + ((t547).normal.z * s.center.z)) + s.radius) - (t547).distance)
  let t769 := ((((((t542).normal.x * s.center.x) + ((t542).normal.y * s.center.y)) + ((t542).normal.z * s.center.z)) + s.radius) - (t542).distance)
  let t770 := ((((((t537).normal.x * s.center.x) + ((t537).normal.y * s.center.y)) + ((t537).normal.z * s.center.z)) + s.radius) - (t537).distance)
  if (0 : α) ≤ t764 then
    false
  else
    if (0 : α) ≤ t763 then
      false
    else
      if (0 : α) ≤ t762 then
        false
      else
        if (0 : α) ≤ t770 then
          false
        else
          if (0 : α) ≤ t769 then
            false
          else
            if (0 : α) ≤ t768 then
              false
            else
              true

/-- extracted from the C++ template at T = Sym; 10 path(s) -/
def FrustumTest.completelyContainsBox_persp {α : Type} [Add α] [Sub α] [Mul α] [Div α] [Neg α] [LT α] [LE α] [DecidableLT α] [DecidableLE α] [DecidableEq α] [OfNat α 0] [OfNat α 2] (tmin : α) (tmax : α) (sqrt : α → α) (n : α) (f : α) (l : α) (r : α) (t : α) (b : α) (M : M44 α) (bx : Box3 α) : Bool :=
  let t522 := (Frustum.planesM_persp_0 tmin tmax sqrt n f l r t b ⟨M.x00, M.x01, M.x02, M.x03, M.x10, M.x11, M.x12, M.x13, M.x20, M.x21, M.x22, M.x23, M.x30, M.x31, M.x32, M.x33⟩)
  let t527 := (Frustum.planesM_persp_1 tmin tmax sqrt n f l r t b ⟨M.x00, M.x01, M.x02, M.x03, M.x10, M.x11, M.x12, M.x13, M.x20, M.x21, M.x22, M.x23, M.x30, M.x31, M.x32, M.x33⟩)
  let t532 := (Frustum.planesM_persp_2 tmin tmax sqrt n f l r t b ⟨M.x00, M.x01, M.x02, M.x03, M.x10, M.x11, M.x12, M.x13, M.x20, M.x21, M.x22, M.x23, M.x30, M.x31, M.x32, M.x33⟩)
  let t537 := (Frustum.planesM_persp_3 tmin tmax sqrt n f l r t b ⟨M.x00, M.x01, M.x02, M.x03, M.x10, M.x11, M.x12, M.x13, M.x20, M.x21, M.x22, M.x23, M.x30, M.x31, M.x32, M.x33⟩)
  let t542 := (Frustum.planesM_persp_4 tmin tmax sqrt n f l r t b ⟨M.x00, M.x01, M.x02, M.x03, M.x10, M.x11, M.x12, M.x13, M.x20, M.x21, M.x22, M.x23, M.x30, M.x31, M.x32, M.x33⟩)
  let t547 := (Frustum.planesM_persp_5 tmin tmax sqrt n f l r t b ⟨M.x00, M.x01, M.x02, M.x03, M.x10, M.x11, M.x12, M.x13, M.x20, M.x21, M.x22, M.x23, M.x30, M.x31, M.x32, M.x33⟩)
  let t681 := ((bx.min.z + bx.max.z) / (2 : α))
  let t682 := ((bx.min.y + bx.max.y) / (2 : α))
  let t683 := ((bx.min.x + bx.max.x) / (2 : α))
  let t684 := (bx.max.z - t681)
  let t685 := (bx.max.y - t682)
  let t686 := (bx.max.x - t683)
  let t780 := ((((((((t532).normal.x * t683) + ((t532).normal.y * t682)) + ((t532).normal.z * t681)) + ((sabs (t532).normal.x) * t686)) + ((sabs (t532).normal.y) * t685)) + ((sabs (t532).normal.z) * t684)) - (t532).distance)
  let t781 := ((((((((t527).normal.x * t683) + ((t527).normal.y * t682)) + ((t527).normal.z * t681)) + ((sabs (t527).normal.x) * t686)) + ((sabs (t527).normal.y) * t685)) + ((sabs (t527).normal.z) * t684)) - (t527).distance)
  let t782 := ((((((((t522).normal.x * t683) + ((t522).normal.y * t682)) + ((t522).normal.z * t681)) + ((sabs (t522).normal.x) * t686)) + ((sabs (t522).normal.y) * t685)) + ((sabs (t522).normal.z) * t684)) - (t522).distance)
  let t792 := ((((((((t547).normal.x * t683) + ((t547).normal.y * t682)) + ((t547).normal.z * t681)) + ((sabs (t547).normal.x) * t686)) + ((sabs (t547).normal.y) * t685)) + ((sabs (t547).normal.z) * t684)) - (t547).distance)
  let t793 := ((((((((t542).normal.x * t683) + ((t542).normal.y * t682)) + ((t542).normal.z * t681)) + ((sabs (t542).normal.x) * t686)) + ((sabs (t542).normal.y) * t685)) + ((sabs (t542).normal.z) * t684)) - (t542).distance)
  let t794 := ((((((((t537).normal.x * t683) + ((t537).normal.y * t682)) + ((t537).normal.z * t681)) + ((sabs (t537).normal.x) * t686)) + ((sabs (t537).normal.y) * t685)) + ((sabs (t537).normal.z) * t684)) - (t537).distance)
  if bx.max.x < bx.min.x then
    false
  else
    if bx.max.y < bx.min.y then
      false
    else
      if bx.max.z < bx.min.z then
        false
      else
        if (0 : α) ≤ t782 then
          false
        else
          if (0 : α) ≤ t781 then
            false
          else
            if (0 : α) ≤ t780 then
              false
            else
              if (0 : α) ≤ t794 then
                false
              else
                if (0 : α) ≤ t793 then
                  false
                else
                  if (0 : α) ≤ t792 then
                    false
                  else
                    true

/-- extracted from the C++ template at T = Sym; 1 path(s) -/
def FrustumTest.setFrustum_ortho {α : Type} [Add α] [Sub α] [Mul α] [Div α] [Neg α] [LT α] [LE α] [DecidableLT α] [DecidableLE α] [DecidableEq α] [OfNat α 0] [OfNat α 2] (tmin : α) (tmax : α) (sqrt : α → α) (n : α) (f : α) (l : α) (r : α) (t : α) (b : α) (M : M44 α) : ((V3 α) × (V3 α) × (V3 α) × (V3 α) × (V3 α) × (V3 α) × (V3 α) × (V3 α) × (V3 α) × (V3 α) × (V3 α) × (V3 α) × (V3 α) × (V3 α)) :=
  let t795 := (Frustum.planesM_ortho_0 tmin tmax sqrt n f l r t b ⟨M.x00, M.x01, M.x02, M.x03, M.x10, M.x11, M.x12, M.x13, M.x20, M.x21, M.x22, M.x23, M.x30, M.x31, M.x32, M.x33⟩)
  let t800 := (Frustum.planesM_ortho_1 tmin tmax sqrt n f l r t b ⟨M.x00, M.x01, M.x02, M.x03, M.x10, M.x11, M.x12, M.x13, M.x20, M.x21, M.x22, M.x23, M.x30, M.x31, M.x32, M.x33⟩)
  let t805 := (Frustum.planesM_ortho_2 tmin tmax sqrt n f l r t b ⟨M.x00, M.x01, M.x02, M.x03, M.x10, M.x11, M.x12, M.x13, M.x20, M.x21, M.x22, M.x23, M.x30, M.x31, M.x32, M.x33⟩)
  let t810 := (Frustum.planesM_ortho_3 tmin tmax sqrt n f l r t b ⟨M.x00, M.x01, M.x02, M.x03, M.x10, M.x11, M.x12, M.x13, M.x20, M.x21, M.x22, M.x23, M.x30, M.x31, M.x32, M.x33⟩)
  let t815 := (Frustum.planesM_ortho_4 tmin tmax sqrt n f l r t b ⟨M.x00, M.x01, M.x02, M.x03, M.x10, M.x11, M.x12, M.x13, M.x20, M.x21, M.x22, M.x23, M.x30, M.x31, M.x32, M.x33⟩)
  let t820 := (Frustum.planesM_ortho_5 tmin tmax sqrt n f l r t b ⟨M.x00, M.x01, M.x02, M.x03, M.x10, M.x11, M.x12, M.x13, M.x20, M.x21, M.x22, M.x23, M.x30, M.x31, M.x32, M.x33⟩)
  (⟨(t795).normal.x, (t800).normal.x, (t805).normal.x⟩, ⟨(t810).normal.x, (t815).normal.x, (t820).normal.x⟩, ⟨(t795).normal.y, (t800).normal.y, (t805).normal.y⟩, ⟨(t810).normal.y, (t815).normal.y, (t820).normal.y⟩, ⟨(t795).normal.z, (t800).normal.z, (t805).normal.z⟩, ⟨(t810).normal.z, (t815).normal.z, (t820).normal.z⟩, ⟨(t795).distance, (t800).distance, (t805).distance⟩, ⟨(t810).distance, (t815).distance, (t820).distance⟩, ⟨((sabs (t795).normal.x) + (0 : α)), ((sabs (t800).normal.x) + (0 : α)), ((sabs (t805).normal.x) + (0 : α))⟩, ⟨((sabs (t810).normal.x) + (0 : α)), ((sabs (t815).normal.x) + (0 : α)), ((sabs (t820).normal.x) + (0 : α))⟩, ⟨((sabs (t795).normal.y) + (0 : α)), ((sabs (t800).normal.y) + (0 : α)), ((sabs (t805).normal.y) + (0 : α))⟩, ⟨((sabs (t810).normal.y) + (0 : α)), ((sabs (t815).normal.y) + (0 : α)), ((sabs (t820).normal.y) + (0 : α))⟩, ⟨((sabs (t795).normal.z) + (0 : α)), ((sabs (t800).normal.z) + (0 : α)), ((sabs (t805).normal.z) + (0 : α))⟩, ⟨((sabs (t810).normal.z) + (0 : α)), ((sabs (t815).normal.z) + (0 : α)), ((sabs (t820).normal.z) + (0 : α))⟩)

/-- extracted from the C++ template at T = Sym; 7 path(s) -/
def FrustumTest.isVisiblePoint_ortho {α : Type} [Add α] [Sub α] [Mul α] [Div α] [Neg α] [LT α] [LE α] [DecidableLT α] [DecidableLE α] [DecidableEq α] [OfNat α 0] [OfNat α 2] (tmin : α) (tmax : α) (sqrt : α → α) (n : α) (f : α) (l : α) (r : α) (t : α) (b : α) (M : M44 α) (v : V3 α) : Bool :=
  let t795 := (Frustum.planesM_ortho_0 tmin tmax sqrt n f l r t b ⟨M.x00, M.x01, M.x02, M.x03, M.x10, M.x11, M.x12, M.x13, M.x20, M.x21, M.x22, M.x23, M.x30, M.x31, M.x32, M.x33⟩)
  let t800 := (Frustum.planesM_ortho_1 tmin tmax sqrt n f l r t b ⟨M.x00, M.x01, M.x02, M.x03, M.x10, M.x11, M.x12, M.x13, M.x20, M.x21, M.x22, M.x23, M.x30, M.x31, M.x32, M.x33⟩)
  let t805 := (Frustum.planesM_ortho_2 tmin tmax sqrt n f l r t b ⟨M.x00, M.x01, M.x02, M.x03, M.x10, M.x11, M.x12, M.x13, M.x20, M.x21, M.x22, M.x23, M.x30, M.x31, M.x32, M.x33⟩)
  let t810 := (Frustum.planesM_ortho_3 tmin tmax sqrt n f l r t b ⟨M.x00, M.x01, M.x02, M.x03, M.x10, M.x11, M.x12, M.x13, M.x20, M.x21, M.x22, M.x23, M.x30, M.x31, M.x32, M.x33⟩)
  let t815 := (Frustum.planesM_ortho_4 tmin tmax sqrt n f l r t b ⟨M.x00, M.x01, M.x02, M.x03, M.x10, M.x11, M.x12, M.x13, M.x20, M.x21, M.x22, M.x23, M.x30, M.x31, M.x32, M.x33⟩)
  let t820 := (Frustum.planesM_ortho_5 tmin tmax sqrt n f l r t b ⟨M.x00, M.x01, M.x02, M.x03, M.x10, M.x11, M.x12, M.x13, M.x20, M.x21, M.x22, M.x23, M.x30, M.x31, M.x32, M.x33⟩)
  let t876 := (((((t805).normal.x * v.x) + ((t805).normal.y * v.y)) + ((t805).normal.z * v.z)) - (t805).distance)
  let t877 := (((((t800).normal.x * v.x) + ((t800).normal.y * v.y)) + ((t800).normal.z * v.z)) - (t800).distance)
  let t878 := (((((t795).normal.x * v.x) + ((t795).normal.y * v.y)) + ((t795).normal.z * v.z)) - (t795).distance)
  let t894 := (((((t820).normal.x * v.x) + ((t820).normal.y * v.y)) + ((t820).normal.z * v.z)) - (t820).distance)
  let t895 := (((((t815).normal.x * v.x) + ((t815).normal.y * v.y)) + ((t815).normal.z * v.z)) - (t815).distance)
  let t896 := (((((t810).normal.x * v.x) + ((t810).normal.y * v.y)) + ((t810).normal.z * v.z)) - (t810).distance)
  if (0 : α) ≤ t878 then
    false
  else
    if (0 : α) ≤ t877 then
      false
    else
      if (0 : α) ≤ t876 then
        false
      else
        if (0 : α) ≤ t896 then
          false
        else
          if (0 : α) ≤ t895 then
            false
          else
            if (0 : α) ≤ t894 then
              false
            else
              true

/-- extracted from the C++ template at T = Sym; 7 path(s) -/
def FrustumTest.isVisibleSphere_ortho {α : Type} [Add α] [Sub α] [Mul α] [Div α] [Neg α] [LT α] [LE α] [DecidableLT α] [DecidableLE α] [DecidableEq α] [OfNat α 0] [OfNat α 2] (tmin : α) (tmax : α) (sqrt : α → α) (n : α) (f : α) (l : α) (r : α) (t : α) (b : α) (M : M44 α) (s : Sphere3 α) : Bool :=
  let t795 := (Frustum.planesM_ortho_0 tmin tmax sqrt n f l r t b ⟨M.x00, M.x01, M.x02, M.x03, M.x10, M.x11, M.x12, M.x13, M.x20, M.x21, M.x22, M.x23, M.x30, M.x31, M.x32, M.x33⟩)
  let t800 := (Frustum.planesM_ortho_1 tmin tmax sqrt n f l r t b ⟨M.x00, M.x01, M.x02, M.x03, M.x10, M.x11, M.x12, M.x13, M.x20, M.x21, M.x22, M.x23, M.x30, M.x31, M.x32, M.x33⟩)
  let t805 := (Frustum.planesM_ortho_2 tmin tmax sqrt n f l r t b ⟨M.x00, M.x01, M.x02, M.x03, M.x10, M.x11, M.x12, M.x13, M.x20, M.x21, M.x22, M.x23, M.x30, M.x31, M.x32, M.x33⟩)
  let t810 := (Frustum.planesM_ortho_3 tmin tmax sqrt n f l r t b ⟨M.x00, M.x01, M.x02, M.x03, M.x10, M.x11, M.x12, M.x13, M.x20, M.x21, M.x22, M.x23, M.x30, M.x31, M.x32, M.x33⟩)
  let t815 := (Frustum.planesM_ortho_4 tmin tmax sqrt n f l r t b ⟨M.x00, M.x01, M.x02, M.x03, M.x10, M.x11, M.x12, M.x13, M.x20, M.x21, M.x22, M.x23, M.x30, M.x31, M.x32, M.x33⟩)
  let t820 := (Frustum.planesM_ortho_5 tmin tmax sqrt n f l r t b ⟨M.x00, M.x01, M.x02, M.x03, M.x10, M.x11, M.x12, M.x13, M.x20, M.x21, M.x22, M.x23, M.x30, M.x31, M.x32, M.x33⟩)
  let t915 := ((((((t805).normal.x * s.center.x) + ((t805).normal.y * s.center.y)) + ((t805).normal.z * s.center.z)) - s.radius) - (t805).distance)
  let t916 := ((((((t800).normal.x * s.center.x) + ((t800).normal.y * s.center.y)) + ((t800).normal.z * s.center.z)) - s.radius) - (t800).distance)
  let t917 := ((((((t795).normal.x * s.center.x) + ((t795).normal.y * s.center.y)) + ((t795).normal.z * s.center.z)) - s.radius) - (t795).distance)
  let t936 := ((((((t820).normal.x * s.center.x) + ((t820).normal.y * s.center.y)) + ((t820).normal.z * s.center.z)) - s.radius) - (t820).distance)
  let t937 := ((((((t815).normal.x * s.center.x) + ((t815).normal.y * s.center.y)) + ((t815).normal.z * s.center.z)) - s.radius) - (t815).distance)
  let t938 := ((((((t810).normal.x * s.center.x) + ((t810).normal.y * s.center.y)) + ((t810).normal.z * s.center.z)) - s.radius) - (t810).distance)
  if (0 : α) ≤ t917 then
    false
  else
    if (0 : α) ≤ t916 then
      false
    else
      if (0 : α) ≤ t915 then
        false
      else
        if (0 : α) ≤ t938 then
          false
        else
          if (0 : α) ≤ t937 then
            false
          else
            if (0 : α) ≤ t936 then
              false
            else
              true

/-- extracted from the C++ template at T = Sym; 10 path(s) -/
def FrustumTest.isVisibleBox_ortho {α : Type} [Add α] [Sub α] [Mul α] [Div α] [Neg α] [LT α] [LE α] [DecidableLT α] [DecidableLE α] [DecidableEq α] [OfNat α 0] [OfNat α 2] (tmin : α) (tmax : α) (sqrt : α → α) (n : α) (f : α) (l : α) (r : α) (t : α) (b : α) (M : M44 α) (bx : Box3 α) : Bool :=
  let t681 := ((bx.min.z + bx.max.z) / (2 : α))
  let t682 := ((bx.min.y + bx.max.y) / (2 : α))
  let t683 := ((bx.min.x + bx.max.x) / (2 : α))
  let t684 := (bx.max.z - t681)
  let t685 := (bx.max.y - t682)
  let t686 := (bx.max.x - t683)
  let t795 := (Frustum.planesM_ortho_0 tmin tmax sqrt n f l r t b ⟨M.x00, M.x01, M.x02, M.x03, M.x10, M.x11, M.x12, M.x13, M.x20, M.x21, M.x22, M.x23, M.x30, M.x31, M.x32, M.x33⟩)
  let t800 := (Frustum.planesM_ortho_1 tmin tmax sqrt n f l r t b ⟨M.x00, M.x01, M.x02, M.x03, M.x10, M.x11, M.x12, M.x13, M.x20, M.x21, M.x22, M.x23, M.x30, M.x31, M.x32, M.x33⟩)
  let t805 := (Frustum.planesM_ortho_2 tmin tmax sqrt n f l r t b ⟨M.x00, M.x01, M.x02, M.x03, M.x10, M.x11, M.x12, M.x13, M.x20, M.x21, M.x22, M.x23, M.x30, M.x31, M.x32, M.x33⟩)
  let t810 := (Frustum.planesM_ortho_3 tmin tmax sqrt n f l r t b ⟨M.x00, M.x01, M.x02, M.x03, M.x10, M.x11, M.x12, M.x13, M.x20, M.x21, M.x22, M.x23, M.x30, M.x31, M.x32, M.x33⟩)
  let t815 := (Frustum.planesM_ortho_4 tmin tmax sqrt n f l r t b ⟨M.x00, M.x01, M.x02, M.x03, M.x10, M.x11, M.x12, M.x13, M.x20, M.x21, M.x22, M.x23, M.x30, M.x31, M.x32, M.x33⟩)
  let t820 := (Frustum.planesM_ortho_5 tmin tmax sqrt n f l r t b ⟨M.x00, M.x01, M.x02, M.x03, M.x10, M.x11, M.x12, M.x13, M.x20, M.x21, M.x22, M.x23, M.x30, M.x31, M.x32, M.x33⟩)
  let t972 := ((((((((t805).normal.x * t683) + ((t805).normal.y * t682)) + ((t805).normal.z * t681)) - ((sabs (t805).normal.x) * t686)) - ((sabs (t805).normal.y) * t685)) - ((sabs (t805).normal.z) * t684)) - (t805).distance)
  let t973 := ((((((((t800).normal.x * t683) + ((t800).normal.y * t682)) + ((t800).normal.z * t681)) - ((sabs (t800).normal.x) * t686)) - ((sabs (t800).normal.y) * t685)) - ((sabs (t800).normal.z) * t684)) - (t800).distance)
  let t974 := ((((((((t795).normal.x * t683) + ((t795).normal.y * t682)) + ((t795).normal.z * t681)) - ((sabs (t795).normal.x) * t686)) - ((sabs (t795).normal.y) * t685)) - ((sabs (t795).normal.z) * t684)) - (t795).distance)
  let t1008 := ((((((((t820).normal.x * t683) + ((t820).normal.y * t682)) + ((t820).normal.z * t681)) - ((sabs (t820).normal.x) * t686)) - ((sabs (t820).normal.y) * t685)) - ((sabs (t820).normal.z) * t684)) - (t820).distance)
  let t1009 := ((((((((t815).normal.x * t683) + ((t815).normal.y * t682)) + ((t815).normal.z * t681)) - ((sabs (t815).normal.x) * t686)) - ((sabs (t815).normal.y) * t685)) - ((sabs (t815).normal.z) * t684)) - (t815).distance)
  let t1010 := ((((((((t810).normal.x * t683) + ((t810).normal.y * t682)) + ((t810).normal.z * t681)) - ((sabs (t810).normal.x) * t686)) - ((sabs (t810).normal.y) * t685)) - ((sabs (t810).normal.z) * t684)) - (t810).distance)
  if bx.max.x < bx.min.x then
    false
  else
    if bx.max.y < bx.min.y then
      false
    else
      if bx.max.z < bx.min.z then
        false
      else
        if (0 : α) ≤ t974 then
          false
        else
          if (0 : α) ≤ t973 then
            false
          else
            if (0 : α) ≤ t972 then
              false
            else
              if (0 : α) ≤ t1010 then
                false
              else
                if (0 : α) ≤ t1009 then
                  false
                else
                  if (0 : α) ≤ t1008 then
                    false
                  else
                    true

/-- extracted from the C++ template at T = Sym; 7 path(s) -/
def FrustumTest.completelyContainsSphere_ortho {α : Type} [Add α] [Sub α] [Mul α] [Div α] [Neg α] [LT α] [LE α] [DecidableLT α] [DecidableLE α] [DecidableEq α] [OfNat α 0] [OfNat α 2] (tmin : α) (tmax : α) (sqrt : α → α) (n : α) (f : α) (l : α) (r : α) (t : α) (b : α) (M : M44 α) (s : Sphere3 α) : Bool :=
  let t795 := (Frustum.planesM_ortho_0 tmin tmax sqrt n f l r t b ⟨M.x00, M.x01, M.x02, M.x03, M.x10, M.x11, M.x12, M.x13, M.x20, M.x21, M.x22, M.x23, M.x30, M.x31, M.x32, M.x33⟩)
  let t800 := (Frustum.planesM_ortho_1 tmin tmax sqrt n f l r t b ⟨M.x00, M.x01, M.x02, M.x03, M.x10, M.x11, M.x12, M.x13, M.x20, M.x21, M.x22, M.x23, M.x30, M.x31, M.x32, M.x33⟩)
  let t805 := (Frustum.planesM_ortho_2 tmin tmax sqrt n f l r t b ⟨M.x00, M.x01, M.x02, M.x03, M.x10, M.x11, M.x12, M.x13, M.x20, M.x21, M.x22, M.x23, M.x30, M.x31, M.x32, M.x33⟩)
  let t810 := (Frustum.planesM_ortho_3 tmin tmax sqrt n f l r t b ⟨M.x00, M.x01, M.x02, M.x03, M.x10, M.x11, M.x12, M.x13, M.x20, M.x21, M.x22, M.x23, M.x30, M.x31, M.x32, M.x33⟩)
  let t815 := (Frustum.planesM_ortho_4 tmin tmax sqrt n f l r t b ⟨M.x00, M.x01, M.x02, M.x03, M.x10, M.x11, M.x12, M.x13, M.x20, M.x21, M.x22, M.x23, M.x30, M.x31, M.x32, M.x33⟩)
  let t820 := (Frustum.planesM_ortho_5 tmin tmax sqrt n f l r t b ⟨M.x00, M.x01, M.x02, M.x03, M.x10, M.x11, M.x12, M.x13, M.x20, M.x21, M.x22, M.x23, M.x30, M.x31, M.x32, M.x33⟩)
  let t1014 := ((((((t805).normal.x * s.center.x) + ((t805).normal.y * s.center.y)) + ((t805).normal.z * s.center.z)) + s.radius) - (t805).distance)
  let t1015 := ((((((t800).normal.x * s.center.x) + ((t800).normal.y * s.center.y)) + ((t800).normal.z * s.center.z)) + s.radius) - (t800).distance)
  let t1016 := ((((((t795).normal.x * s.center.x) + ((t795).normal.y * s.center.y)) + ((t795).normal.z * s.center.z)) + s.radius) - (t795).distance)
  let t1020 := ((((((t820).normal.x * s.center.x) + ((t820).normal.y * s.center.y)) + ((t820).normal.z * s.center.z)) + s.radius) - (t820).distance)
  let t1021 := ((((((t815).normal.x * s.center.x) + ((t815).normal.y * s.center.y)) + ((t815).normal.z * s.center.z)) + s.radius) - (t815).distance)
  let t1022 := ((((((t810).normal.x * s.center.x) + ((t810).normal.y * s.center.y)) + ((t810).normal.z * s.center.z)) + s.radius) - (t810).distance)
  if (0 : α) ≤ t1016 then
    false
  else
    if (0 : α) ≤ t1015 then
      false
    else
      if (0 : α) ≤ t1014 then
        false
      else
        if (0 : α) ≤ t1022 then
          false
        else
          if (0 : α) ≤ t1021 then
            false
          else
            if (0 : α) ≤ t1020 then
              false
            else
              true

/-- extracted from the C++ template at T = Sym; 10 path(s) -/
def FrustumTest.completelyContainsBox_ortho {α : Type} [Add α] [Sub α] [Mul α] [Div α] [Neg α] [LT α] [LE α] [DecidableLT α] [DecidableLE α] [DecidableEq α] [OfNat α 0] [OfNat α 2] (tmin : α) (tmax : α) (sqrt : α → α) (n : α) (f : α) (l : α) (r : α) (t : α) (b : α) (M : M44 α) (bx : Box3 α) : Bool :=
  let t681 := ((bx.min.z + bx.max.z) / (2 : α))
  let t682 := ((bx.min.y + bx.max.y) / (2 : α))
  let t683 := ((bx.min.x + bx.max.x) / (2 : α))
  let t684 := (bx.max.z - t681)
  let t685 := (bx.max.y - t682)
  let t686 := (bx.max.x - t683)
  let t795 := (Frustum.planesM_ortho_0 tmin tmax sqrt n f l r t b ⟨M.x00, M.x01, M.x02, M.x03, M.x10, M.x11, M.x12, M.x13, M.x20, M.x21, M.x22, M.x23, M.x30, M.x31, M.x32, M.x33⟩)
  let t800 := (Frustum.planesM_ortho_1 tmin tmax sqrt n f l r t b ⟨M.x00, M.x01, M.x02, M.x03, M.x10, M.x11, M.x12, M.x13, M.x20, M.x21, M.x22, M.x23, M.x30, M.x31, M.x32, M.x33⟩)
  let t805 := (Frustum.planesM_ortho_2 tmin tmax sqrt n f l r t b ⟨M.x00, M.x01, M.x02, M.x03, M.x10, M.x11, M.x12, M.x13, M.x20, M.x21, M.x22, M.x23, M.x30, M.x31, M.x32, M.x33⟩)
  let t810 := (Frustum.planesM_ortho_3 tmin tmax sqrt n f l r t b ⟨M.x00, M.x01, M.x02, M.x03, M.x10, M.x11, M.x12, M.x13, M.x20, M.x21, M.x22, M.x23, M.x30, M.x31, M.x32, M.x33⟩)
  let t815 := (Frustum.planesM_ortho_4 tmin tmax sqrt n f l r t b ⟨M.x00, M.x01, M.x02, M.x03, M.x10, M.x11, M.x12, M.x13, M.x20, M.x21, M.x22, M.x23, M.x30, M.x31, M.x32, M.x33⟩)
  let t820 := (Frustum.planesM_ortho_5 tmin tmax sqrt n f l r t b ⟨M.x00, M.x01, M.x02, M.x03, M.x10, M.x11, M.x12, M.x13, M.x20, M.x21, M.x22, M.x23, M.x30, M.x31, M.x32, M.x33⟩)
  let t1032 := ((((((((t805).normal.x * t683) + ((t805).normal.y * t682)) + ((t805).normal.z * t681)) + ((sabs (t805).normal.x) * t686)) + ((sabs (t805).normal.y) * t685)) + ((sabs (t805).normal.z) * t684)) - (t805).distance)
  let t1033 := ((((((((t800).normal.x * t683) + ((t800).normal.y * t682)) + ((t800).normal.z * t681)) + ((sabs (t800).normal.x) * t686)) + ((sabs (t800).normal.y) * t685)) + ((sabs (t800).normal.z) * t684)) - (t800).distance)
  let t1034 := ((((((((t795).normal.x * t683) + ((t795).normal.y * t682)) + ((t795).normal.z * t681)) + ((sabs (t795).normal.x) * t686)) + ((sabs (t795).normal.y) * t685)) + ((sabs (t795).normal.z) * t684)) - (t795).distance)
  let t1044 := ((((((((t820).normal.x * t683) + ((t820).normal.y * t682)) + ((t820).normal.z * t681)) + ((sabs (t820).normal.x) * t686)) + ((sabs (t820).normal.y) * t685)) + ((sabs (t820).normal.z) * t684)) - (t820).distance)
  let t1045 := ((((((((t815).normal.x * t683) + ((t815).normal.y * t682)) + ((t815).normal.z * t681)) + ((sabs (t815).normal.x) * t686)) + ((sabs (t815).normal.y) * t685)) + ((sabs (t815).normal.z) * t684)) - (t815).distance)
  let t1046 := ((((((((t810).normal.x * t683) + ((t810).normal.y * t682)) + ((t810).normal.z * t681)) + ((sabs (t810).normal.x) * t686)) + ((sabs (t810).normal.y) * t685)) + ((sabs (t810).normal.z) * t684)) - (t810).distance)
  if bx.max.x < bx.min.x then
    false
  else
    if bx.max.y < bx.min.y then
      false
    else
      if bx.max.z < bx.min.z then
        false
      else
        if (0 : α) ≤ t1034 then
          false
        else
          if (0 : α) ≤ t1033 then
            false
          else
            if (0 : α) ≤ t1032 then
              false
            else
              if (0 : α) ≤ t1046 then
                false
              else
                if (0 : α) ≤ t1045 then
                  false
                else
                  if (0 : α) ≤ t1044 then
                    false
                  else
                    true

/-- extracted from the C++ template at T = Sym; 1 path(s) -/
def FrustumTest.stores_persp {α : Type} (n : α) (f : α) (l : α) (r : α) (t : α) (b : α) (M : M44 α) : (α × α × α × α × α × α × Bool × (M44 α)) :=
  (n, f, l, r, t, b, false, ⟨M.x00, M.x01, M.x02, M.x03, M.x10, M.x11, M.x12, M.x13, M.x20, M.x21, M.x22, M.x23, M.x30, M.x31, M.x32, M.x33⟩)

/-- extracted from the C++ template at T = Sym; 1 path(s) -/
def FrustumTest.stores_ortho {α : Type} (n : α) (f : α) (l : α) (r : α) (t : α) (b : α) (M : M44 α) : (α × α × α × α × α × α × Bool × (M44 α)) :=
  (n, f, l, r, t, b, true, ⟨M.x00, M.x01, M.x02, M.x03, M.x10, M.x11, M.x12, M.x13, M.x20, M.x21, M.x22, M.x23, M.x30, M.x31, M.x32, M.x33⟩)

/-- extracted from the C++ template at T = Sym; 1 path(s) -/
def FrustumTest.defaultCtor {α : Type} [Add α] [Sub α] [Mul α] [Div α] [Neg α] [LT α] [LE α] [DecidableLT α] [DecidableLE α] [DecidableEq α] [OfNat α 0] [OfNat α 1] [OfNat α 2] [OfNat α 1000] [OfNat α 3602879701896397] [OfNat α 36028797018963968] (tmin : α) (tmax : α) (sqrt : α → α) : (α × α × α × α × α × α × Bool × (M44 α) × (V3 α) × (V3 α) × (V3 α) × (V3 α) × (V3 α) × (V3 α) × (V3 α) × (V3 α) × (V3 α) × (V3 α) × (V3 α) × (V3 α) × (V3 α) × (V3 α)) :=
  let t1047 := (Frustum.planesM_persp_0 tmin tmax sqrt ((3602879701896397 : α) / (36028797018963968 : α)) (1000 : α) (-(1 : α)) (1 : α) (1 : α) (-(1 : α)) ⟨(1 : α), (0 : α), (0 : α), (0 : α), (0 : α), (1 : α), (0 : α), (0 : α), (0 : α), (0 : α), (1 : α), (0 : α), (0 : α), (0 : α), (0 : α), (1 : α)⟩)
  let t1052 := (Frustum.planesM_persp_1 tmin tmax sqrt ((3602879701896397 : α) / (36028797018963968 : α)) (1000 : α) (-(1 : α)) (1 : α) (1 : α) (-(1 : α)) ⟨(1 : α), (0 : α), (0 : α), (0 : α), (0 : α), (1 : α), (0 : α), (0 : α), (0 : α), (0 : α), (1 : α), (0 : α), (0 : α), (0 : α), (0 : α), (1 : α)⟩)
  let t1057 := (Frustum.planesM_persp_2 tmin tmax sqrt ((3602879701896397 : α) / (36028797018963968 : α)) (1000 : α) (-(1 : α)) (1 : α) (1 : α) (-(1 : α)) ⟨(1 : α), (0 : α), (0 : α), (0 : α), (0 : α), (1 : α), (0 : α), (0 : α), (0 : α), (0 : α), (1 : α), (0 : α), (0 : α), (0 : α), (0 : α), (1 : α)⟩)
  let t1062 := (Frustum.planesM_persp_3 tmin tmax sqrt ((3602879701896397 : α) / (36028797018963968 : α)) (1000 : α) (-(1 : α)) (1 : α) (1 : α) (-(1 : α)) ⟨(1 : α), (0 : α), (0 : α), (0 : α), (0 : α), (1 : α), (0 : α), (0 : α), (0 : α), (0 : α), (1 : α), (0 : α), (0 : α), (0 : α), (0 : α), (1 : α)⟩)
  let t1067 := (Frustum.planesM_persp_4 tmin tmax sqrt ((3602879701896397 : α) / (36028797018963968 : α)) (1000 : α) (-(1 : α)) (1 : α) (1 : α) (-(1 : α)) ⟨(1 : α), (0 : α), (0 : α), (0 : α), (0 : α), (1 : α), (0 : α), (0 : α), (0 : α), (0 : α), (1 : α), (0 : α), (0 : α), (0 : α), (0 : α), (1 : α)⟩)
  let t1072 := (Frustum.planesM_persp_5 tmin tmax sqrt ((3602879701896397 : α) / (36028797018963968 : α)) (1000 : α) (-(1 : α)) (1 : α) (1 : α) (-(1 : α)) ⟨(1 : α), (0 : α), (0 : α), (0 : α), (0 : α), (1 : α), (0 : α), (0 : α), (0 : α), (0 : α), (1 : α), (0 : α), (0 : α), (0 : α), (0 : α), (1 : α)⟩)
  (((3602879701896397 : α) / (36028797018963968 : α)), (1000 : α), (-(1 : α)), (1 : α), (1 : α), (-(1 : α)), false, ⟨(1 : α), (0 : α), (0 : α), (0 : α), (0 : α), (1 : α), (0 : α), (0 : α), (0 : α), (0 : α), (1 : α), (0 : α), (0 : α), (0 : α), (0 : α), (1 : α)⟩, ⟨(t1047).normal.x, (t1052).normal.x, (t1057).normal.x⟩, ⟨(t1062).normal.x, (t1067).normal.x, (t1072).normal.x⟩, ⟨(t1047).normal.y, (t1052).normal.y, (t1057).normal.y⟩, ⟨(t1062).normal.y, (t1067).normal.y, (t1072).normal.y⟩, ⟨(t1047).normal.z, (t1052).normal.z, (t1057).normal.z⟩, ⟨(t1062).normal.z, (t1067).normal.z, (t1072).normal.z⟩, ⟨(t1047).distance, (t1052).distance, (t1057).distance⟩, ⟨(t1062).distance, (t1067).distance, (t1072).distance⟩, ⟨((sabs (t1047).normal.x) + (0 : α)), ((sabs (t1052).normal.x) + (0 : α)), ((sabs (t1057).normal.x) + (0 : α))⟩, ⟨((sabs (t1062).normal.x) + (0 : α)), ((sabs (t1067).normal.x) + (0 : α)), ((sabs (t1072).normal.x) + (0 : α))⟩, ⟨((sabs (t1047).normal.y) + (0 : α)), ((sabs (t1052).normal.y) + (0 : α)), ((sabs (t1057).normal.y) + (0 : α))⟩, ⟨((sabs (t1062).normal.y) + (0 : α)), ((sabs (t1067).normal.y) + (0 : α)), ((sabs (t1072).normal.y) + (0 : α))⟩, ⟨((sabs (t1047).normal.z) + (0 : α)), ((sabs (t1052).normal.z) + (0 : α)), ((sabs (t1057).normal.z) + (0 : α))⟩, ⟨((sabs (t1062).normal.z) + (0 : α)), ((sabs (t1067).normal.z) + (0 : α)), ((sabs (t1072).normal.z) + (0 : α))⟩)

end ImathVerif.Gen
