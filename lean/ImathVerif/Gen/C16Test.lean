-- GENERATED from /repo/src/Imath by harness/sym (T = Sym path extraction); do not edit.
import ImathVerif.Basic.Types
import ImathVerif.Gen.C16PlanesM
set_option linter.unusedVariables false
namespace ImathVerif.Gen
open ImathVerif

/-- extracted from the C++ template at T = Sym; 1 path(s) -/
def FrustumTest.setFrustum_persp {α : Type} [Add α] [Sub α] [Mul α] [Div α] [Neg α] [LT α] [LE α] [DecidableLT α] [DecidableLE α] [DecidableEq α] [OfNat α 0] [OfNat α 2] (tmin : α) (tmax : α) (sqrt : α → α) (n : α) (f : α) (l : α) (r : α) (t : α) (b : α) (M : M44 α) : ((V3 α) × (V3 α) × (V3 α) × (V3 α) × (V3 α) × (V3 α) × (V3 α) × (V3 α) × (V3 α) × (V3 α) × (V3 α) × (V3 α) × (V3 α) × (V3 α)) :=
  let t392 := (Frustum.planesM_persp_0 tmin tmax sqrt n f l r t b ⟨M.x00, M.x01, M.x02, M.x03, M.x10, M.x11, M.x12, M.x13, M.x20, M.x21, M.x22, M.x23, M.x30, M.x31, M.x32, M.x33⟩)
  let t397 := (Frustum.planesM_persp_1 tmin tmax sqrt n f l r t b ⟨M.x00, M.x01, M.x02, M.x03, M.x10, M.x11, M.x12, M.x13, M.x20, M.x21, M.x22, M.x23, M.x30, M.x31, M.x32, M.x33⟩)
  let t402 := (Frustum.planesM_persp_2 tmin tmax sqrt n f l r t b ⟨M.x00, M.x01, M.x02, M.x03, M.x10, M.x11, M.x12, M.x13, M.x20, M.x21, M.x22, M.x23, M.x30, M.x31, M.x32, M.x33⟩)
  let t407 := (Frustum.planesM_persp_3 tmin tmax sqrt n f l r t b ⟨M.x00, M.x01, M.x02, M.x03, M.x10, M.x11, M.x12, M.x13, M.x20, M.x21, M.x22, M.x23, M.x30, M.x31, M.x32, M.x33⟩)
  let t412 := (Frustum.planesM_persp_4 tmin tmax sqrt n f l r t b ⟨M.x00, M.x01, M.x02, M.x03, M.x10, M.x11, M.x12, M.x13, M.x20, M.x21, M.x22, M.x23, M.x30, M.x31, M.x32, M.x33⟩)
  let t417 := (Frustum.planesM_persp_5 tmin tmax sqrt n f l r t b ⟨M.x00, M.x01, M.x02, M.x03, M.x10, M.x11, M.x12, M.x13, M.x20, M.x21, M.x22, M.x23, M.x30, M.x31, M.x32, M.x33⟩)
  (⟨(t392).normal.x, (t397).normal.x, (t402).normal.x⟩, ⟨(t407).normal.x, (t412).normal.x, (t417).normal.x⟩, ⟨(t392).normal.y, (t397).normal.y, (t402).normal.y⟩, ⟨(t407).normal.y, (t412).normal.y, (t417).normal.y⟩, ⟨(t392).normal.z, (t397).normal.z, (t402).normal.z⟩, ⟨(t407).normal.z, (t412).normal.z, (t417).normal.z⟩, ⟨(t392).distance, (t397).distance, (t402).distance⟩, ⟨(t407).distance, (t412).distance, (t417).distance⟩, ⟨((sabs (t392).normal.x) + (0 : α)), ((sabs (t397).normal.x) + (0 : α)), ((sabs (t402).normal.x) + (0 : α))⟩, ⟨((sabs (t407).normal.x) + (0 : α)), ((sabs (t412).normal.x) + (0 : α)), ((sabs (t417).normal.x) + (0 : α))⟩, ⟨((sabs (t392).normal.y) + (0 : α)), ((sabs (t397).normal.y) + (0 : α)), ((sabs (t402).normal.y) + (0 : α))⟩, ⟨((sabs (t407).normal.y) + (0 : α)), ((sabs (t412).normal.y) + (0 : α)), ((sabs (t417).normal.y) + (0 : α))⟩, ⟨((sabs (t392).normal.z) + (0 : α)), ((sabs (t397).normal.z) + (0 : α)), ((sabs (t402).normal.z) + (0 : α))⟩, ⟨((sabs (t407).normal.z) + (0 : α)), ((sabs (t412).normal.z) + (0 : α)), ((sabs (t417).normal.z) + (0 : α))⟩)

/-- extracted from the C++ template at T = Sym; 7 path(s) -/
def FrustumTest.isVisiblePoint_persp {α : Type} [Add α] [Sub α] [Mul α] [Div α] [Neg α] [LT α] [LE α] [DecidableLT α] [DecidableLE α] [DecidableEq α] [OfNat α 0] [OfNat α 2] (tmin : α) (tmax : α) (sqrt : α → α) (n : α) (f : α) (l : α) (r : α) (t : α) (b : α) (M : M44 α) (v : V3 α) : Bool :=
  let t392 := (Frustum.planesM_persp_0 tmin tmax sqrt n f l r t b ⟨M.x00, M.x01, M.x02, M.x03, M.x10, M.x11, M.x12, M.x13, M.x20, M.x21, M.x22, M.x23, M.x30, M.x31, M.x32, M.x33⟩)
  let t397 := (Frustum.planesM_persp_1 tmin tmax sqrt n f l r t b ⟨M.x00, M.x01, M.x02, M.x03, M.x10, M.x11, M.x12, M.x13, M.x20, M.x21, M.x22, M.x23, M.x30, M.x31, M.x32, M.x33⟩)
  let t402 := (Frustum.planesM_persp_2 tmin tmax sqrt n f l r t b ⟨M.x00, M.x01, M.x02, M.x03, M.x10, M.x11, M.x12, M.x13, M.x20, M.x21, M.x22, M.x23, M.x30, M.x31, M.x32, M.x33⟩)
  let t407 := (Frustum.planesM_persp_3 tmin tmax sqrt n f l r t b ⟨M.x00, M.x01, M.x02, M.x03, M.x10, M.x11, M.x12, M.x13, M.x20, M.x21, M.x22, M.x23, M.x30, M.x31, M.x32, M.x33⟩)
  let t412 := (Frustum.planesM_persp_4 tmin tmax sqrt n f l r t b ⟨M.x00, M.x01, M.x02, M.x03, M.x10, M.x11, M.x12, M.x13, M.x20, M.x21, M.x22, M.x23, M.x30, M.x31, M.x32, M.x33⟩)
  let t417 := (Frustum.planesM_persp_5 tmin tmax sqrt n f l r t b ⟨M.x00, M.x01, M.x02, M.x03, M.x10, M.x11, M.x12, M.x13, M.x20, M.x21, M.x22, M.x23, M.x30, M.x31, M.x32, M.x33⟩)
  let t476 := (((((t402).normal.x * v.x) + ((t402).normal.y * v.y)) + ((t402).normal.z * v.z)) - (t402).distance)
  let t477 := (((((t397).normal.x * v.x) + ((t397).normal.y * v.y)) + ((t397).normal.z * v.z)) - (t397).distance)
  let t478 := (((((t392).normal.x * v.x) + ((t392).normal.y * v.y)) + ((t392).normal.z * v.z)) - (t392).distance)
  let t494 := (((((t417).normal.x * v.x) + ((t417).normal.y * v.y)) + ((t417).normal.z * v.z)) - (t417).distance)
  let t495 := (((((t412).normal.x * v.x) + ((t412).normal.y * v.y)) + ((t412).normal.z * v.z)) - (t412).distance)
  let t496 := (((((t407).normal.x * v.x) + ((t407).normal.y * v.y)) + ((t407).normal.z * v.z)) - (t407).distance)
  if (0 : α) ≤ t478 then
    false
  else
    if (0 : α) ≤ t477 then
      false
    else
      if (0 : α) ≤ t476 then
        false
      else
        if (0 : α) ≤ t496 then
          false
        else
          if (0 : α) ≤ t495 then
            false
          else
            if (0 : α) ≤ t494 then
              false
            else
              true

/-- extracted from the C++ template at T = Sym; 7 path(s) -/
def FrustumTest.isVisibleSphere_persp {α : Type} [Add α] [Sub α] [Mul α] [Div α] [Neg α] [LT α] [LE α] [DecidableLT α] [DecidableLE α] [DecidableEq α] [OfNat α 0] [OfNat α 2] (tmin : α) (tmax : α) (sqrt : α → α) (n : α) (f : α) (l : α) (r : α) (t : α) (b : α) (M : M44 α) (s : Sphere3 α) : Bool :=
  let t392 := (Frustum.planesM_persp_0 tmin tmax sqrt n f l r t b ⟨M.x00, M.x01, M.x02, M.x03, M.x10, M.x11, M.x12, M.x13, M.x20, M.x21, M.x22, M.x23, M.x30, M.x31, M.x32, M.x33⟩)
  let t397 := (Frustum.planesM_persp_1 tmin tmax sqrt n f l r t b ⟨M.x00, M.x01, M.x02, M.x03, M.x10, M.x11, M.x12, M.x13, M.x20, M.x21, M.x22, M.x23, M.x30, M.x31, M.x32, M.x33⟩)
  let t402 := (Frustum.planesM_persp_2 tmin tmax sqrt n f l r t b ⟨M.x00, M.x01, M.x02, M.x03, M.x10, M.x11, M.x12, M.x13, M.x20, M.x21, M.x22, M.x23, M.x30, M.x31, M.x32, M.x33⟩)
  let t407 := (Frustum.planesM_persp_3 tmin tmax sqrt n f l r t b ⟨M.x00, M.x01, M.x02, M.x03, M.x10, M.x11, M.x12, M.x13, M.x20, M.x21, M.x22, M.x23, M.x30, M.x31, M.x32, M.x33⟩)
  let t412 := (Frustum.planesM_persp_4 tmin tmax sqrt n f l r t b ⟨M.x00, M.x01, M.x02, M.x03, M.x10, M.x11, M.x12, M.x13, M.x20, M.x21, M.x22, M.x23, M.x30, M.x31, M.x32, M.x33⟩)
  let t417 := (Frustum.planesM_persp_5 tmin tmax sqrt n f l r t b ⟨M.x00, M.x01, M.x02, M.x03, M.x10, M.x11, M.x12, M.x13, M.x20, M.x21, M.x22, M.x23, M.x30, M.x31, M.x32, M.x33⟩)
  let t519 := ((((((t402).normal.x * s.center.x) + ((t402).normal.y * s.center.y)) + ((t402).normal.z * s.center.z)) - s.radius) - (t402).distance)
  let t520 := ((((((t397).normal.x * s.center.x) + ((t397).normal.y * s.center.y)) + ((t397).normal.z * s.center.z)) - s.radius) - (t397).distance)
  let t521 := ((((((t392).normal.x * s.center.x) + ((t392).normal.y * s.center.y)) + ((t392).normal.z * s.center.z)) - s.radius) - (t392).distance)
  let t540 := ((((((t417).normal.x * s.center.x) + ((t417).normal.y * s.center.y)) + ((t417).normal.z * s.center.z)) - s.radius) - (t417).distance)
  let t541 := ((((((t412).normal.x * s.center.x) + ((t412).normal.y * s.center.y)) + ((t412).normal.z * s.center.z)) - s.radius) - (t412).distance)
  let t542 := ((((((t407).normal.x * s.center.x) + ((t407).normal.y * s.center.y)) + ((t407).normal.z * s.center.z)) - s.radius) - (t407).distance)
  if (0 : α) ≤ t521 then
    false
  else
    if (0 : α) ≤ t520 then
      false
    else
      if (0 : α) ≤ t519 then
        false
      else
        if (0 : α) ≤ t542 then
          false
        else
          if (0 : α) ≤ t541 then
            false
          else
            if (0 : α) ≤ t540 then
              false
            else
              true

/-- extracted from the C++ template at T = Sym; 10 path(s) -/
def FrustumTest.isVisibleBox_persp {α : Type} [Add α] [Sub α] [Mul α] [Div α] [Neg α] [LT α] [LE α] [DecidableLT α] [DecidableLE α] [DecidableEq α] [OfNat α 0] [OfNat α 2] (tmin : α) (tmax : α) (sqrt : α → α) (n : α) (f : α) (l : α) (r : α) (t : α) (b : α) (M : M44 α) (bx : Box3 α) : Bool :=
  let t392 := (Frustum.planesM_persp_0 tmin tmax sqrt n f l r t b ⟨M.x00, M.x01, M.x02, M.x03, M.x10, M.x11, M.x12, M.x13, M.x20, M.x21, M.x22, M.x23, M.x30, M.x31, M.x32, M.x33⟩)
  let t397 := (Frustum.planesM_persp_1 tmin tmax sqrt n f l r t b ⟨M.x00, M.x01, M.x02, M.x03, M.x10, M.x11, M.x12, M.x13, M.x20, M.x21, M.x22, M.x23, M.x30, M.x31, M.x32, M.x33⟩)
  let t402 := (Frustum.planesM_persp_2 tmin tmax sqrt n f l r t b ⟨M.x00, M.x01, M.x02, M.x03, M.x10, M.x11, M.x12, M.x13, M.x20, M.x21, M.x22, M.x23, M.x30, M.x31, M.x32, M.x33⟩)
  let t407 := (Frustum.planesM_persp_3 tmin tmax sqrt n f l r t b ⟨M.x00, M.x01, M.x02, M.x03, M.x10, M.x11, M.x12, M.x13, M.x20, M.x21, M.x22, M.x23, M.x30, M.x31, M.x32, M.x33⟩)
  let t412 := (Frustum.planesM_persp_4 tmin tmax sqrt n f l r t b ⟨M.x00, M.x01, M.x02, M.x03, M.x10, M.x11, M.x12, M.x13, M.x20, M.x21, M.x22, M.x23, M.x30, M.x31, M.x32, M.x33⟩)
  let t417 := (Frustum.planesM_persp_5 tmin tmax sqrt n f l r t b ⟨M.x00, M.x01, M.x02, M.x03, M.x10, M.x11, M.x12, M.x13, M.x20, M.x21, M.x22, M.x23, M.x30, M.x31, M.x32, M.x33⟩)
  let t554 := ((bx.min.z + bx.max.z) / (2 : α))
  let t555 := ((bx.min.y + bx.max.y) / (2 : α))
  let t556 := ((bx.min.x + bx.max.x) / (2 : α))
  let t557 := (bx.max.z - t554)
  let t558 := (bx.max.y - t555)
  let t559 := (bx.max.x - t556)
  let t593 := ((((((((t402).normal.x * t556) + ((t402).normal.y * t555)) + ((t402).normal.z * t554)) - ((sabs (t402).normal.x) * t559)) - ((sabs (t402).normal.y) * t558)) - ((sabs (t402).normal.z) * t557)) - (t402).distance)
  let t594 := ((((((((t397).normal.x * t556) + ((t397).normal.y * t555)) + ((t397).normal.z * t554)) - ((sabs (t397).normal.x) * t559)) - ((sabs (t397).normal.y) * t558)) - ((sabs (t397).normal.z) * t557)) - (t397).distance)
  let t595 := ((((((((t392).normal.x * t556) + ((t392).normal.y * t555)) + ((t392).normal.z * t554)) - ((sabs (t392).normal.x) * t559)) - ((sabs (t392).normal.y) * t558)) - ((sabs (t392).normal.z) * t557)) - (t392).distance)
  let t629 := ((((((((t417).normal.x * t556) + ((t417).normal.y * t555)) + ((t417).normal.z * t554)) - ((sabs (t417).normal.x) * t559)) - ((sabs (t417).normal.y) * t558)) - ((sabs (t417).normal.z) * t557)) - (t417).distance)
  let t630 := ((((((((t412).normal.x * t556) + ((t412).normal.y * t555)) + ((t412).normal.z * t554)) - ((sabs (t412).normal.x) * t559)) - ((sabs (t412).normal.y) * t558)) - ((sabs (t412).normal.z) * t557)) - (t412).distance)
  let t631 := ((((((((t407).normal.x * t556) + ((t407).normal.y * t555)) + ((t407).normal.z * t554)) - ((sabs (t407).normal.x) * t559)) - ((sabs (t407).normal.y) * t558)) - ((sabs (t407).normal.z) * t557)) - (t407).distance)
  if bx.max.x < bx.min.x then
    false
  else
    if bx.max.y < bx.min.y then
      false
    else
      if bx.max.z < bx.min.z then
        false
      else
        if (0 : α) ≤ t595 then
          false
        else
          if (0 : α) ≤ t594 then
            false
          else
            if (0 : α) ≤ t593 then
              false
            else
              if (0 : α) ≤ t631 then
                false
              else
                if (0 : α) ≤ t630 then
                  false
                else
                  if (0 : α) ≤ t629 then
                    false
                  else
                    true

/-- extracted from the C++ template at T = Sym; 7 path(s) -/
def FrustumTest.completelyContainsSphere_persp {α : Type} [Add α] [Sub α] [Mul α] [Div α] [Neg α] [LT α] [LE α] [DecidableLT α] [DecidableLE α] [DecidableEq α] [OfNat α 0] [OfNat α 2] (tmin : α) (tmax : α) (sqrt : α → α) (n : α) (f : α) (l : α) (r : α) (t : α) (b : α) (M : M44 α) (s : Sphere3 α) : Bool :=
  let t392 := (Frustum.planesM_persp_0 tmin tmax sqrt n f l r t b ⟨M.x00, M.x01, M.x02, M.x03, M.x10, M.x11, M.x12, M.x13, M.x20, M.x21, M.x22, M.x23, M.x30, M.x31, M.x32, M.x33⟩)
  let t397 := (Frustum.planesM_persp_1 tmin tmax sqrt n f l r t b ⟨M.x00, M.x01, M.x02, M.x03, M.x10, M.x11, M.x12, M.x13, M.x20, M.x21, M.x22, M.x23, M.x30, M.x31, M.x32, M.x33⟩)
  let t402 := (Frustum.planesM_persp_2 tmin tmax sqrt n f l r t b ⟨M.x00, M.x01, M.x02, M.x03, M.x10, M.x11, M.x12, M.x13, M.x20, M.x21, M.x22, M.x23, M.x30, M.x31, M.x32, M.x33⟩)
  let t407 := (Frustum.planesM_persp_3 tmin tmax sqrt n f l r t b ⟨M.x00, M.x01, M.x02, M.x03, M.x10, M.x11, M.x12, M.x13, M.x20, M.x21, M.x22, M.x23, M.x30, M.x31, M.x32, M.x33⟩)
  let t412 := (Frustum.planesM_persp_4 tmin tmax sqrt n f l r t b ⟨M.x00, M.x01, M.x02, M.x03, M.x10, M.x11, M.x12, M.x13, M.x20, M.x21, M.x22, M.x23, M.x30, M.x31, M.x32, M.x33⟩)
  let t417 := (Frustum.planesM_persp_5 tmin tmax sqrt n f l r t b ⟨M.x00, M.x01, M.x02, M.x03, M.x10, M.x11, M.x12, M.x13, M.x20, M.x21, M.x22, M.x23, M.x30, M.x31, M.x32, M.x33⟩)
  let t635 := ((((((t402).normal.x * s.center.x) + ((t402).normal.y * s.center.y)) + ((t402).normal.z * s.center.z)) + s.radius) - (t402).distance)
  let t636 := ((((((t397).normal.x * s.center.x) + ((t397).normal.y * s.center.y)) + ((t397).normal.z * s.center.z)) + s.radius) - (t397).distance)
  let t637 := ((((((t392).normal.x * s.center.x) + ((t392).normal.y * s.center.y)) + ((t392).normal.z * s.center.z)) + s.radius) - (t392).distance)
  let t641 := ((((((t417).normal.x * s.center.x) + ((t417).normal.y * s.center.y)) + ((t417).normal.z * s.center.z)) + s.radius) - (t417).distance)
  let t642 := ((((((t412).normal.x * s.center.x) + ((t412).normal.y * s.center.y)) + ((t412).normal.z * s.center.z)) + s.radius) - (t412).distance)
  let t643 := ((((((t407).normal.x * s.center.x) + ((t407).normal.y * s.center.y)) + ((t407).normal.z * s.center.z)) + s.radius) - (t407).distance)
  if (0 : α) ≤ t637 then
    false
  else
    if (0 : α) ≤ t636 then
      false
    else
      if (0 : α) ≤ t635 then
        false
      else
        if (0 : α) ≤ t643 then
          false
        else
          if (0 : α) ≤ t642 then
            false
          else
            if (0 : α) ≤ t641 then
              false
            else
              true

/-- extracted from the C++ template at T = Sym; 10 path(s) -/
def FrustumTest.completelyContainsBox_persp {α : Type} [Add α] [Sub α] [Mul α] [Div α] [Neg α] [LT α] [LE α] [DecidableLT α] [DecidableLE α] [DecidableEq α] [OfNat α 0] [OfNat α 2] (tmin : α) (tmax : α) (sqrt : α → α) (n : α) (f : α) (l : α) (r : α) (t : α) (b : α) (M : M44 α) (bx : Box3 α) : Bool :=
  let t392 := (Frustum.planesM_persp_0 tmin tmax sqrt n f l r t b ⟨M.x00, M.x01, M.x02, M.x03, M.x10, M.x11, M.x12, M.x13, M.x20, M.x21, M.x22, M.x23, M.x30, M.x31, M.x32, M.x33⟩)
  let t397 := (Frustum.planesM_persp_1 tmin tmax sqrt n f l r t b ⟨M.x00, M.x01, M.x02, M.x03, M.x10, M.x11, M.x12, M.x13, M.x20, M.x21, M.x22, M.x23, M.x30, M.x31, M.x32, M.x33⟩)
  let t402 := (Frustum.planesM_persp_2 tmin tmax sqrt n f l r t b ⟨M.x00, M.x01, M.x02, M.x03, M.x10, M.x11, M.x12, M.x13, M.x20, M.x21, M.x22, M.x23, M.x30, M.x31, M.x32, M.x33⟩)
  let t407 := (Frustum.planesM_persp_3 tmin tmax sqrt n f l r t b ⟨M.x00, M.x01, M.x02, M.x03, M.x10, M.x11, M.x12, M.x13, M.x20, M.x21, M.x22, M.x23, M.x30, M.x31, M.x32, M.x33⟩)
  let t412 := (Frustum.planesM_persp_4 tmin tmax sqrt n f l r t b ⟨M.x00, M.x01, M.x02, M.x03, M.x10, M.x11, M.x12, M.x13, M.x20, M.x21, M.x22, M.x23, M.x30, M.x31, M.x32, M.x33⟩)
  let t417 := (Frustum.planesM_persp_5 tmin tmax sqrt n f l r t b ⟨M.x00, M.x01, M.x02, M.x03, M.x10, M.x11, M.x12, M.x13, M.x20, M.x21, M.x22, M.x23, M.x30, M.x31, M.x32, M.x33⟩)
  let t554 := ((bx.min.z + bx.max.z) / (2 : α))
  let t555 := ((bx.min.y + bx.max.y) / (2 : α))
  let t556 := ((bx.min.x + bx.max.x) / (2 : α))
  let t557 := (bx.max.z - t554)
  let t558 := (bx.max.y - t555)
  let t559 := (bx.max.x - t556)
  let t653 := ((((((((t402).normal.x * t556) + ((t402).normal.y * t555)) + ((t402).normal.z * t554)) + ((sabs (t402).normal.x) * t559)) + ((sabs (t402).normal.y) * t558)) + ((sabs (t402).normal.z) * t557)) - (t402).distance)
  let t654 := ((((((((t397).normal.x * t556) + ((t397).normal.y * t555)) + ((t397).normal.z * t554)) + ((sabs (t397).normal.x) * t559)) + ((sabs (t397).normal.y) * t558)) + ((sabs (t397).normal.z) * t557)) - (t397).distance)
  let t655 := ((((((((t392).normal.x * t556) + ((t392).normal.y * t555)) + ((t392).normal.z * t554)) + ((sabs (t392).normal.x) * t559)) + ((sabs (t392).normal.y) * t558)) + ((sabs (t392).normal.z) * t557)) - (t392).distance)
  let t665 := ((((((((t417).normal.x * t556) + ((t417).normal.y * t555)) + ((t417).normal.z * t554)) + ((sabs (t417).normal.x) * t559)) + ((sabs (t417).normal.y) * t558)) + ((sabs (t417).normal.z) * t557)) - (t417).distance)
  let t666 := ((((((((t412).normal.x * t556) + ((t412).normal.y * t555)) + ((t412).normal.z * t554)) + ((sabs (t412).normal.x) * t559)) + ((sabs (t412).normal.y) * t558)) + ((sabs (t412).normal.z) * t557)) - (t412).distance)
  let t667 := ((((((((t407).normal.x * t556) + ((t407).normal.y * t555)) + ((t407).normal.z * t554)) + ((sabs (t407).normal.x) * t559)) + ((sabs (t407).normal.y) * t558)) + ((sabs (t407).normal.z) * t557)) - (t407).distance)
  if bx.max.x < bx.min.x then
    false
  else
    if bx.max.y < bx.min.y then
      false
    else
      if bx.max.z < bx.min.z then
        false
      else
        if (0 : α) ≤ t655 then
          false
        else
          if (0 : α) ≤ t654 then
            false
          else
            if (0 : α) ≤ t653 then
              false
            else
              if (0 : α) ≤ t667 then
                false
              else
                if (0 : α) ≤ t666 then
                  false
                else
                  if (0 : α) ≤ t665 then
                    false
                  else
                    true

/-- extracted from the C++ template at T = Sym; 1 path(s) -/
def FrustumTest.setFrustum_ortho {α : Type} [Add α] [Sub α] [Mul α] [Div α] [Neg α] [LT α] [LE α] [DecidableLT α] [DecidableLE α] [DecidableEq α] [OfNat α 0] [OfNat α 2] (tmin : α) (tmax : α) (sqrt : α → α) (n : α) (f : α) (l : α) (r : α) (t : α) (b : α) (M : M44 α) : ((V3 α) × (V3 α) × (V3 α) × (V3 α) × (V3 α) × (V3 α) × (V3 α) × (V3 α) × (V3 α) × (V3 α) × (V3 α) × (V3 α) × (V3 α) × (V3 α)) :=
  let t668 := (Frustum.planesM_ortho_0 tmin tmax sqrt n f l r t b ⟨M.x00, M.x01, M.x02, M.x03, M.x10, M.x11, M.x12, M.x13, M.x20, M.x21, M.x22, M.x23, M.x30, M.x31, M.x32, M.x33⟩)
  let t673 := (Frustum.planesM_ortho_1 tmin tmax sqrt n f l r t b ⟨M.x00, M.x01, M.x02, M.x03, M.x10, M.x11, M.x12, M.x13, M.x20, M.x21, M.x22, M.x23, M.x30, M.x31, M.x32, M.x33⟩)
  let t678 := (Frustum.planesM_ortho_2 tmin tmax sqrt n f l r t b ⟨M.x00, M.x01, M.x02, M.x03, M.x10, M.x11, M.x12, M.x13, M.x20, M.x21, M.x22, M.x23, M.x30, M.x31, M.x32, M.x33⟩)
  let t683 := (Frustum.planesM_ortho_3 tmin tmax sqrt n f l r t b ⟨M.x00, M.x01, M.x02, M.x03, M.x10, M.x11, M.x12, M.x13, M.x20, M.x21, M.x22, M.x23, M.x30, M.x31, M.x32, M.x33⟩)
  let t688 := (Frustum.planesM_ortho_4 tmin tmax sqrt n f l r t b ⟨M.x00, M.x01, M.x02, M.x03, M.x10, M.x11, M.x12, M.x13, M.x20, M.x21, M.x22, M.x23, M.x30, M.x31, M.x32, M.x33⟩)
  let t693 := (Frustum.planesM_ortho_5 tmin tmax sqrt n f l r t b ⟨M.x00, M.x01, M.x02, M.x03, M.x10, M.x11, M.x12, M.x13, M.x20, M.x21, M.x22, M.x23, M.x30, M.x31, M.x32, M.x33⟩)
  (⟨(t668).normal.x, (t673).normal.x, (t678).normal.x⟩, ⟨(t683).normal.x, (t688).normal.x, (t693).normal.x⟩, ⟨(t668).normal.y, (t673).normal.y, (t678).normal.y⟩, ⟨(t683).normal.y, (t688).normal.y, (t693).normal.y⟩, ⟨(t668).normal.z, (t673).normal.z, (t678).normal.z⟩, ⟨(t683).normal.z, (t688).normal.z, (t693).normal.z⟩, ⟨(t668).distance, (t673).distance, (t678).distance⟩, ⟨(t683).distance, (t688).distance, (t693).distance⟩, ⟨((sabs (t668).normal.x) + (0 : α)), ((sabs (t673).normal.x) + (0 : α)), ((sabs (t678).normal.x) + (0 : α))⟩, ⟨((sabs (t683).normal.x) + (0 : α)), ((sabs (t688).normal.x) + (0 : α)), ((sabs (t693).normal.x) + (0 : α))⟩, ⟨((sabs (t668).normal.y) + (0 : α)), ((sabs (t673).normal.y) + (0 : α)), ((sabs (t678).normal.y) + (0 : α))⟩, ⟨((sabs (t683).normal.y) + (0 : α)), ((sabs (t688).normal.y) + (0 : α)), ((sabs (t693).normal.y) + (0 : α))⟩, ⟨((sabs (t668).normal.z) + (0 : α)), ((sabs (t673).normal.z) + (0 : α)), ((sabs (t678).normal.z) + (0 : α))⟩, ⟨((sabs (t683).normal.z) + (0 : α)), ((sabs (t688).normal.z) + (0 : α)), ((sabs (t693).normal.z) + (0 : α))⟩)

/-- extracted from the C++ template at T = Sym; 7 path(s) -/
def FrustumTest.isVisiblePoint_ortho {α : Type} [Add α] [Sub α] [Mul α] [Div α] [Neg α] [LT α] [LE α] [DecidableLT α] [DecidableLE α] [DecidableEq α] [OfNat α 0] [OfNat α 2] (tmin : α) (tmax : α) (sqrt : α → α) (n : α) (f : α) (l : α) (r : α) (t : α) (b : α) (M : M44 α) (v : V3 α) : Bool :=
  let t668 := (Frustum.planesM_ortho_0 tmin tmax sqrt n f l r t b ⟨M.x00, M.x01, M.x02, M.x03, M.x10, M.x11, M.x12, M.x13, M.x20, M.x21, M.x22, M.x23, M.x30, M.x31, M.x32, M.x33⟩)
  let t673 := (Frustum.planesM_ortho_1 tmin tmax sqrt n f l r t b ⟨M.x00, M.x01, M.x02, M.x03, M.x10, M.x11, M.x12, M.x13, M.x20, M.x21, M.x22, M.x23, M.x30, M.x31, M.x32, M.x33⟩)
  let t678 := (Frustum.planesM_ortho_2 tmin tmax sqrt n f l r t b ⟨M.x00, M.x01, M.x02, M.x03, M.x10, M.x11, M.x12, M.x13, M.x20, M.x21, M.x22, M.x23, M.x30, M.x31, M.x32, M.x33⟩)
  let t683 := (Frustum.planesM_ortho_3 tmin tmax sqrt n f l r t b ⟨M.x00, M.x01, M.x02, M.x03, M.x10, M.x11, M.x12, M.x13, M.x20, M.x21, M.x22, M.x23, M.x30, M.x31, M.x32, M.x33⟩)
  let t688 := (Frustum.planesM_ortho_4 tmin tmax sqrt n f l r t b ⟨M.x00, M.x01, M.x02, M.x03, M.x10, M.x11, M.x12, M.x13, M.x20, M.x21, M.x22, M.x23, M.x30, M.x31, M.x32, M.x33⟩)
  let t693 := (Frustum.planesM_ortho_5 tmin tmax sqrt n f l r t b ⟨M.x00, M.x01, M.x02, M.x03, M.x10, M.x11, M.x12, M.x13, M.x20, M.x21, M.x22, M.x23, M.x30, M.x31, M.x32, M.x33⟩)
  let t749 := (((((t678).normal.x * v.x) + ((t678).normal.y * v.y)) + ((t678).normal.z * v.z)) - (t678).distance)
  let t750 := (((((t673).normal.x * v.x) + ((t673).normal.y * v.y)) + ((t673).normal.z * v.z)) - (t673).distance)
  let t751 := (((((t668).normal.x * v.x) + ((t668).normal.y * v.y)) + ((t668).normal.z * v.z)) - (t668).distance)
  let t767 := (((((t693).normal.x * v.x) + ((t693).normal.y * v.y)) + ((t693).normal.z * v.z)) - (t693).distance)
  let t768 := (((((t688).normal.x * v.x) + ((t688).normal.y * v.y)) + ((t688).normal.z * v.z)) - (t688).distance)
  let t769 := (((((t683).normal.x * v.x) + ((t683).normal.y * v.y)) + ((t683).normal.z * v.z)) - (t683).distance)
  if (0 : α) ≤ t751 then
    false
  else
    if (0 : α) ≤ t750 then
      false
    else
      if (0 : α) ≤ t749 then
        false
      else
        if (0 : α) ≤ t769 then
          false
        else
          if (0 : α) ≤ t768 then
            false
          else
            if (0 : α) ≤ t767 then
              false
            else
              true

/-- extracted from the C++ template at T = Sym; 7 path(s) -/
def FrustumTest.isVisibleSphere_ortho {α : Type} [Add α] [Sub α] [Mul α] [Div α] [Neg α] [LT α] [LE α] [DecidableLT α] [DecidableLE α] [DecidableEq α] [OfNat α 0] [OfNat α 2] (tmin : α) (tmax : α) (sqrt : α → α) (n : α) (f : α) (l : α) (r : α) (t : α) (b : α) (M : M44 α) (s : Sphere3 α) : Bool :=
  let t668 := (Frustum.planesM_ortho_0 tmin tmax sqrt n f l r t b ⟨M.x00, M.x01, M.x02, M.x03, M.x10, M.x11, M.x12, M.x13, M.x20, M.x21, M.x22, M.x23, M.x30, M.x31, M.x32, M.x33⟩)
  let t673 := (Frustum.planesM_ortho_1 tmin tmax sqrt n f l r t b ⟨M.x00, M.x01, M.x02, M.x03, M.x10, M.x11, M.x12, M.x13, M.x20, M.x21, M.x22, M.x23, M.x30, M.x31, M.x32, M.x33⟩)
  let t678 := (Frustum.planesM_ortho_2 tmin tmax sqrt n f l r t b ⟨M.x00, M.x01, M.x02, M.x03, M.x10, M.x11, M.x12, M.x13, M.x20, M.x21, M.x22, M.x23, M.x30, M.x31, M.x32, M.x33⟩)
  let t683 := (Frustum.planesM_ortho_3 tmin tmax sqrt n f l r t b ⟨M.x00, M.x01, M.x02, M.x03, M.x10, M.x11, M.x12, M.x13, M.x20, M.x21, M.x22, M.x23, M.x30, M.x31, M.x32, M.x33⟩)
  let t688 := (Frustum.planesM_ortho_4 tmin tmax sqrt n f l r t b ⟨M.x00, M.x01, M.x02, M.x03, M.x10, M.x11, M.x12, M.x13, M.x20, M.x21, M.x22, M.x23, M.x30, M.x31, M.x32, M.x33⟩)
  let t693 := (Frustum.planesM_ortho_5 tmin tmax sqrt n f l r t b ⟨M.x00, M.x01, M.x02, M.x03, M.x10, M.x11, M.x12, M.x13, M.x20, M.x21, M.x22, M.x23, M.x30, M.x31, M.x32, M.x33⟩)
  let t788 := ((((((t678).normal.x * s.center.x) + ((t678).normal.y * s.center.y)) + ((t678).normal.z * s.center.z)) - s.radius) - (t678).distance)
  let t789 := ((((((t673).normal.x * s.center.x) + ((t673).normal.y * s.center.y)) + ((t673).normal.z * s.center.z)) - s.radius) - (t673).distance)
  let t790 := ((((((t668).normal.x * s.center.x) + ((t668).normal.y * s.center.y)) + ((t668).normal.z * s.center.z)) - s.radius) - (t668).distance)
  let t809 := ((((((t693).normal.x * s.center.x) + ((t693).normal.y * s.center.y)) + ((t693).normal.z * s.center.z)) - s.radius) - (t693).distance)
  let t810 := ((((((t688).normal.x * s.center.x) + ((t688).normal.y * s.center.y)) + ((t688).normal.z * s.center.z)) - s.radius) - (t688).distance)
  let t811 := ((((((t683).normal.x * s.center.x) + ((t683).normal.y * s.center.y)) + ((t683).normal.z * s.center.z)) - s.radius) - (t683).distance)
  if (0 : α) ≤ t790 then
    false
  else
    if (0 : α) ≤ t789 then
      false
    else
      if (0 : α) ≤ t788 then
        false
      else
        if (0 : α) ≤ t811 then
          false
        else
          if (0 : α) ≤ t810 then
            false
          else
            if (0 : α) ≤ t809 then
              false
            else
              true

/-- extracted from the C++ template at T = Sym; 10 path(s) -/
def FrustumTest.isVisibleBox_ortho {α : Type} [Add α] [Sub α] [Mul α] [Div α] [Neg α] [LT α] [LE α] [DecidableLT α] [DecidableLE α] [DecidableEq α] [OfNat α 0] [OfNat α 2] (tmin : α) (tmax : α) (sqrt : α → α) (n : α) (f : α) (l : α) (r : α) (t : α) (b : α) (M : M44 α) (bx : Box3 α) : Bool :=
  let t554 := ((bx.min.z + bx.max.z) / (2 : α))
  let t555 := ((bx.min.y + bx.max.y) / (2 : α))
  let t556 := ((bx.min.x + bx.max.x) / (2 : α))
  let t557 := (bx.max.z - t554)
  let t558 := (bx.max.y - t555)
  let t559 := (bx.max.x - t556)
  let t668 := (Frustum.planesM_ortho_0 tmin tmax sqrt n f l r t b ⟨M.x00, M.x01, M.x02, M.x03, M.x10, M.x11, M.x12, M.x13, M.x20, M.x21, M.x22, M.x23, M.x30, M.x31, M.x32, M.x33⟩)
  let t673 := (Frustum.planesM_ortho_1 tmin tmax sqrt n f l r t b ⟨M.x00, M.x01, M.x02, M.x03, M.x10, M.x11, M.x12, M.x13, M.x20, M.x21, M.x22, M.x23, M.x30, M.x31, M.x32, M.x33⟩)
  let t678 := (Frustum.planesM_ortho_2 tmin tmax sqrt n f l r t b ⟨M.x00, M.x01, M.x02, M.x03, M.x10, M.x11, M.x12, M.x13, M.x20, M.x21, M.x22, M.x23, M.x30, M.x31, M.x32, M.x33⟩)
  let t683 := (Frustum.planesM_ortho_3 tmin tmax sqrt n f l r t b ⟨M.x00, M.x01, M.x02, M.x03, M.x10, M.x11, M.x12, M.x13, M.x20, M.x21, M.x22, M.x23, M.x30, M.x31, M.x32, M.x33⟩)
  let t688 := (Frustum.planesM_ortho_4 tmin tmax sqrt n f l r t b ⟨M.x00, M.x01, M.x02, M.x03, M.x10, M.x11, M.x12, M.x13, M.x20, M.x21, M.x22, M.x23, M.x30, M.x31, M.x32, M.x33⟩)
  let t693 := (Frustum.planesM_ortho_5 tmin tmax sqrt n f l r t b ⟨M.x00, M.x01, M.x02, M.x03, M.x10, M.x11, M.x12, M.x13, M.x20, M.x21, M.x22, M.x23, M.x30, M.x31, M.x32, M.x33⟩)
  let t845 := ((((((((t678).normal.x * t556) + ((t678).normal.y * t555)) + ((t678).normal.z * t554)) - ((sabs (t678).normal.x) * t559)) - ((sabs (t678).normal.y) * t558)) - ((sabs (t678).normal.z) * t557)) - (t678).distance)
  let t846 := ((((((((t673).normal.x * t556) + ((t673).normal.y * t555)) + ((t673).normal.z * t554)) - ((sabs (t673).normal.x) * t559)) - ((sabs (t673).normal.y) * t558)) - ((sabs (t673).normal.z) * t557)) - (t673).distance)
  let t847 := ((((((((t668).normal.x * t556) + ((t668).normal.y * t555)) + ((t668).normal.z * t554)) - ((sabs (t668).normal.x) * t559)) - ((sabs (t668).normal.y) * t558)) - ((sabs (t668).normal.z) * t557)) - (t668).distance)
  let t881 := ((((((((t693).normal.x * t556) + ((t693).normal.y * t555)) + ((t693).normal.z * t554)) - ((sabs (t693).normal.x) * t559)) - ((sabs (t693).normal.y) * t558)) - ((sabs (t693).normal.z) * t557)) - (t693).distance)
  let t882 := ((((((((t688).normal.x * t556) + ((t688).normal.y * t555)) + ((t688).normal.z * t554)) - ((sabs (t688).normal.x) * t559)) - ((sabs (t688).normal.y) * t558)) - ((sabs (t688).normal.z) * t557)) - (t688).distance)
  let t883 := ((((((((t683).normal.x * t556) + ((t683).normal.y * t555)) + ((t683).normal.z * t554)) - ((sabs (t683).normal.x) * t559)) - ((sabs (t683).normal.y) * t558)) - ((sabs (t683).normal.z) * t557)) - (t683).distance)
  if bx.max.x < bx.min.x then
    false
  else
    if bx.max.y < bx.min.y then
      false
    else
      if bx.max.z < bx.min.z then
        false
      else
        if (0 : α) ≤ t847 then
          false
        else
          if (0 : α) ≤ t846 then
            false
          else
            if (0 : α) ≤ t845 then
              false
            else
              if (0 : α) ≤ t883 then
                false
              else
                if (0 : α) ≤ t882 then
                  false
                else
                  if (0 : α) ≤ t881 then
                    false
                  else
                    true

/-- extracted from the C++ template at T = Sym; 7 path(s) -/
def FrustumTest.completelyContainsSphere_ortho {α : Type} [Add α] [Sub α] [Mul α] [Div α] [Neg α] [LT α] [LE α] [DecidableLT α] [DecidableLE α] [DecidableEq α] [OfNat α 0] [OfNat α 2] (tmin : α) (tmax : α) (sqrt : α → α) (n : α) (f : α) (l : α) (r : α) (t : α) (b : α) (M : M44 α) (s : Sphere3 α) : Bool :=
  let t668 := (Frustum.planesM_ortho_0 tmin tmax sqrt n f l r t b ⟨M.x00, M.x01, M.x02, M.x03, M.x10, M.x11, M.x12, M.x13, M.x20, M.x21, M.x22, M.x23, M.x30, M.x31, M.x32, M.x33⟩)
  let t673 := (Frustum.planesM_ortho_1 tmin tmax sqrt n f l r t b ⟨M.x00, M.x01, M.x02, M.x03, M.x10, M.x11, M.x12, M.x13, M.x20, M.x21, M.x22, M.x23, M.x30, M.x31, M.x32, M.x33⟩)
  let t678 := (Frustum.planesM_ortho_2 tmin tmax sqrt n f l r t b ⟨M.x00, M.x01, M.x02, M.x03, M.x10, M.x11, M.x12, M.x13, M.x20, M.x21, M.x22, M.x23, M.x30, M.x31, M.x32, M.x33⟩)
  let t683 := (Frustum.planesM_ortho_3 tmin tmax sqrt n f l r t b ⟨M.x00, M.x01, M.x02, M.x03, M.x10, M.x11, M.x12, M.x13, M.x20, M.x21, M.x22, M.x23, M.x30, M.x31, M.x32, M.x33⟩)
  let t688 := (Frustum.planesM_ortho_4 tmin tmax sqrt n f l r t b ⟨M.x00, M.x01, M.x02, M.x03, M.x10, M.x11, M.x12, M.x13, M.x20, M.x21, M.x22, M.x23, M.x30, M.x31, M.x32, M.x33⟩)
  let t693 := (Frustum.planesM_ortho_5 tmin tmax sqrt n f l r t b ⟨M.x00, M.x01, M.x02, M.x03, M.x10, M.x11, M.x12, M.x13, M.x20, M.x21, M.x22, M.x23, M.x30, M.x31, M.x32, M.x33⟩)
  let t887 := ((((((t678).normal.x * s.center.x) + ((t678).normal.y * s.center.y)) + ((t678).normal.z * s.center.z)) + s.radius) - (t678).distance)
  let t888 := ((((((t673).normal.x * s.center.x) + ((t673).normal.y * s.center.y)) + ((t673).normal.z * s.center.z)) + s.radius) - (t673).distance)
  let t889 := ((((((t668).normal.x * s.center.x) + ((t668).normal.y * s.center.y)) + ((t668).normal.z * s.center.z)) + s.radius) - (t668).distance)
  let t893 := ((((((t693).normal.x * s.center.x) + ((t693).normal.y * s.center.y)) + ((t693).normal.z * s.center.z)) + s.radius) - (t693).distance)
  let t894 := ((((((t688).normal.x * s.center.x) + ((t688).normal.y * s.center.y)) + ((t688).normal.z * s.center.z)) + s.radius) - (t688).distance)
  let t895 := ((((((t683).normal.x * s.center.x) + ((t683).normal.y * s.center.y)) + ((t683).normal.z * s.center.z)) + s.radius) - (t683).distance)
  if (0 : α) ≤ t889 then
    false
  else
    if (0 : α) ≤ t888 then
      false
    else
      if (0 : α) ≤ t887 then
        false
      else
        if (0 : α) ≤ t895 then
          false
        else
          if (0 : α) ≤ t894 then
            false
          else
            if (0 : α) ≤ t893 then
              false
            else
              true

/-- extracted from the C++ template at T = Sym; 10 path(s) -/
def FrustumTest.completelyContainsBox_ortho {α : Type} [Add α] [Sub α] [Mul α] [Div α] [Neg α] [LT α] [LE α] [DecidableLT α] [DecidableLE α] [DecidableEq α] [OfNat α 0] [OfNat α 2] (tmin : α) (tmax : α) (sqrt : α → α) (n : α) (f : α) (l : α) (r : α) (t : α) (b : α) (M : M44 α) (bx : Box3 α) : Bool :=
  let t554 := ((bx.min.z + bx.max.z) / (2 : α))
  let t555 := ((bx.min.y + bx.max.y) / (2 : α))
  let t556 := ((bx.min.x + bx.max.x) / (2 : α))
  let t557 := (bx.max.z - t554)
  let t558 := (bx.max.y - t555)
  let t559 := (bx.max.x - t556)
  let t668 := (Frustum.planesM_ortho_0 tmin tmax sqrt n f l r t b ⟨M.x00, M.x01, M.x02, M.x03, M.x10, M.x11, M.x12, M.x13, M.x20, M.x21, M.x22, M.x23, M.x30, M.x31, M.x32, M.x33⟩)
  let t673 := (Frustum.planesM_ortho_1 tmin tmax sqrt n f l r t b ⟨M.x00, M.x01, M.x02, M.x03, M.x10, M.x11, M.x12, M.x13, M.x20, M.x21, M.x22, M.x23, M.x30, M.x31, M.x32, M.x33⟩)
  let t678 := (Frustum.planesM_ortho_2 tmin tmax sqrt n f l r t b ⟨M.x00, M.x01, M.x02, M.x03, M.x10, M.x11, M.x12, M.x13, M.x20, M.x21, M.x22, M.x23, M.x30, M.x31, M.x32, M.x33⟩)
  let t683 := (Frustum.planesM_ortho_3 tmin tmax sqrt n f l r t b ⟨M.x00, M.x01, M.x02, M.x03, M.x10, M.x11, M.x12, M.x13, M.x20, M.x21, M.x22, M.x23, M.x30, M.x31, M.x32, M.x33⟩)
  let t688 := (Frustum.planesM_ortho_4 tmin tmax sqrt n f l r t b ⟨M.x00, M.x01, M.x02, M.x03, M.x10, M.x11, M.x12, M.x13, M.x20, M.x21, M.x22, M.x23, M.x30, M.x31, M.x32, M.x33⟩)
  let t693 := (Frustum.planesM_ortho_5 tmin tmax sqrt n f l r t b ⟨M.x00, M.x01, M.x02, M.x03, M.x10, M.x11, M.x12, M.x13, M.x20, M.x21, M.x22, M.x23, M.x30, M.x31, M.x32, M.x33⟩)
  let t905 := ((((((((t678).normal.x * t556) + ((t678).normal.y * t555)) + ((t678).normal.z * t554)) + ((sabs (t678).normal.x) * t559)) + ((sabs (t678).normal.y) * t558)) + ((sabs (t678).normal.z) * t557)) - (t678).distance)
  let t906 := ((((((((t673).normal.x * t556) + ((t673).normal.y * t555)) + ((t673).normal.z * t554)) + ((sabs (t673).normal.x) * t559)) + ((sabs (t673).normal.y) * t558)) + ((sabs (t673).normal.z) * t557)) - (t673).distance)
  let t907 := ((((((((t668).normal.x * t556) + ((t668).normal.y * t555)) + ((t668).normal.z * t554)) + ((sabs (t668).normal.x) * t559)) + ((sabs (t668).normal.y) * t558)) + ((sabs (t668).normal.z) * t557)) - (t668).distance)
  let t917 := ((((((((t693).normal.x * t556) + ((t693).normal.y * t555)) + ((t693).normal.z * t554)) + ((sabs (t693).normal.x) * t559)) + ((sabs (t693).normal.y) * t558)) + ((sabs (t693).normal.z) * t557)) - (t693).distance)
  let t918 := ((((((((t688).normal.x * t556) + ((t688).normal.y * t555)) + ((t688).normal.z * t554)) + ((sabs (t688).normal.x) * t559)) + ((sabs (t688).normal.y) * t558)) + ((sabs (t688).normal.z) * t557)) - (t688).distance)
  let t919 := ((((((((t683).normal.x * t556) + ((t683).normal.y * t555)) + ((t683).normal.z * t554)) + ((sabs (t683).normal.x) * t559)) + ((sabs (t683).normal.y) * t558)) + ((sabs (t683).normal.z) * t557)) - (t683).distance)
  if bx.max.x < bx.min.x then
    false
  else
    if bx.max.y < bx.min.y then
      false
    else
      if bx.max.z < bx.min.z then
        false
      else
        if (0 : α) ≤ t907 then
          false
        else
          if (0 : α) ≤ t906 then
            false
          else
            if (0 : α) ≤ t905 then
              false
            else
              if (0 : α) ≤ t919 then
                false
              else
                if (0 : α) ≤ t918 then
                  false
                else
                  if (0 : α) ≤ t917 then
                    false
                  else
                    true

end ImathVerif.Gen
